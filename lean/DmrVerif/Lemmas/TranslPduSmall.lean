import DmrVerif.Model.TranslPduExt
import DmrVerif.Lemmas.Layout
import DmrVerif.Lemmas.IntegrityCrc
import DmrVerif.Lemmas.CrcDetect

/-!
Equality of the definitions TRANSLATED from the source of the small bit-field PDUs (`Gen/TranslPduSmall.lean`) with the
hand-written models of C04 (`Model/Integrity.lean`) and C03 (`Model/PduShort.lean`, `Model/PduCsbk.lean: ServiceOptions`).
Core Lean only.
-/

namespace Dmr.Transl.PduSmall
open Dmr Dmr.Py Dmr.PyBits Dmr.Gen Dmr.Gen.Integrity Dmr.Integrity Dmr.Crc

/-! ### generic steps -/

theorem ba2int_take (l : List Bool) (k : Nat) (hk : 0 < k) (hl : 0 < l.length) :
    ba2int (l.take k) = .ok ((bitsToNat (l.take k) : Nat) : Int) :=
  ba2int_of_length_pos _ (by simp; omega)

theorem slice_lit_lit {α : Type} (l : List α) (a b : Nat) :
    Py.slice l (some (no_index (@OfNat.ofNat Int a _))) (some (no_index (@OfNat.ofNat Int b _))) =
      (l.drop (min a l.length)).take (min b l.length - min a l.length) := slice_ofNat_ofNat l a b

theorem slice_eq_sl (l : List Bool) (a b : Nat) (hb : b ≤ l.length) (hab : a ≤ b) :
    (l.drop (min a l.length)).take (min b l.length - min a l.length) = sl l a b := by
  unfold sl
  rw [Nat.min_eq_left (show a ≤ l.length by omega), Nat.min_eq_left hb, List.drop_take]

theorem sl_length (l : List Bool) (a b : Nat) (hb : b ≤ l.length) : (sl l a b).length = b - a := by
  unfold sl; simp; omega

theorem assert_true_bind {α : Type} (k : Unit → PyM α) : (Py.assert true >>= k) = k () := rfl
theorem assert_false_bind {α : Type} (k : Unit → PyM α) : (Py.assert false >>= k) = .error .assertion := rfl

theorem range_assert (v hi : Nat) :
    (decide ((0 : Int) ≤ (v : Int)) && decide ((v : Int) ≤ (hi : Int))) = decide (v ≤ hi) := by
  have h0 : (0 : Int) ≤ (v : Int) := Int.natCast_nonneg v
  by_cases h : v ≤ hi
  · have : (v : Int) ≤ (hi : Int) := by omega
    simp [h0, h, this]
  · have : ¬ (v : Int) ≤ (hi : Int) := by omega
    simp [h, this]

/-! ### slot type -/

theorem dataTypes_call : ∀ v : Fin 16,
    enumCall eDataTypes ((v.val : Nat) : Int) = ofI (fun (n : Nat) => (n : Int)) (enumOf dataTypesGraph v.val) := by decide

theorem dataTypes_lt : ∀ v : Fin 16,
    (match enumOf dataTypesGraph v.val with | .ok m => decide (m < 16) | .error _ => true) = true := by decide

theorem slot_as_bits (cc dt par : Nat) (ok : Option Bool) (h1 : cc < 16) (h2 : dt < 16) (h3 : par < 4096) :
    SlotType.as_bits modelExt { colour_code := some (cc : Int), data_type := some (dt : Int), fec_parity := some (par : Int), fec_parity_ok := ok }
      = .ok (natToBits 4 cc ++ natToBits 4 dt ++ natToBits 12 par) := by
  unfold SlotType.as_bits
  simp only [attr_some, ok_bind, pure_eq_ok, int2ba_lit _ _ (by decide : 0 < 4), int2ba_lit _ _ (by decide : 0 < 12)]
  rw [if_pos (by omega), if_pos (by omega), if_pos (by omega)]
  rfl

theorem throw_bind {ε α β : Type} (e : ε) (k : α → Except ε β) : ((throw e : Except ε α) >>= k) = .error e := rfl

theorem slot_init_eq (cc dt par : Nat) :
    SlotType.init modelExt (cc : Int) (dt : Int) (par : Int) = ofI slotObj (slotInit cc dt par) := by
  unfold SlotType.init slotInit
  have e15 : (15 : Int) = ((15 : Nat) : Int) := rfl
  have e4095 : (4095 : Int) = ((4095 : Nat) : Int) := rfl
  simp only [e15, e4095, range_assert]
  by_cases h1 : cc ≤ 15
  · have h1' : ¬ cc > 15 := by omega
    by_cases h2 : dt ≤ 15
    · have h2' : ¬ dt > 15 := by omega
      by_cases h3 : par ≤ 4095
      · have h3' : ¬ par > 4095 := by omega
        simp only [h1, h2, h3, h1', h2', h3', decide_true, assert_true_bind, if_false]
        have hc := dataTypes_call ⟨dt, by omega⟩
        have hl := dataTypes_lt ⟨dt, by omega⟩
        simp only at hc hl
        rw [hc]
        cases hE : enumOf dataTypesGraph dt with
        | error e => rfl
        | ok dtv =>
          rw [hE] at hl
          have hd : dtv < 16 := by simpa using hl
          by_cases hp : par < 1
          · have hp' : ((par : Int) < 1) := by omega
            have hp0 : par = 0 := by omega
            subst hp0
            simp only [ofI, ok_bind, hp', hp, decide_true, if_true]
            have hz : SlotType.as_bits modelExt { colour_code := some (cc : Int), data_type := some (dtv : Int), fec_parity := some ((0 : Nat) : Int) }
                = .ok (natToBits 4 cc ++ natToBits 4 dtv ++ natToBits 12 0) := slot_as_bits cc dtv 0 none (by omega) hd (by omega)
            rw [hz]
            simp only [ok_bind, ext_golay_gen, ext_golay_check, ext_np, slice_none_lit, slice_lit_none]
            have ht : List.take 8 (natToBits 4 cc ++ natToBits 4 dtv ++ natToBits 12 0) = natToBits 4 cc ++ natToBits 4 dtv := by
              rw [List.take_append_of_le_length (by simp)]
              exact List.take_of_length_le (by simp)
            rw [ht]
            have hg : (golay2087.gen (natToBits 4 cc ++ natToBits 4 dtv)).length = 20 := by simp [Code.gen]; rfl
            have hpar : bitsToNat (List.drop 8 (golay2087.gen (natToBits 4 cc ++ natToBits 4 dtv))) < 4096 :=
              bitsToNat_lt' _ 12 (by simp [hg])
            have hz2 := slot_as_bits cc dtv _ none (by omega) hd hpar
            rw [hz2]
            simp only [ok_bind, ext_golay_check]
            rfl
          · have hp' : ¬ ((par : Int) < 1) := by omega
            simp only [ofI, ok_bind, hp', hp, decide_false, if_false, Bool.false_eq_true, int2ba_lit _ _ (by decide : 0 < 4), int2ba_lit _ _ (by decide : 0 < 12)]
            rw [if_pos (by omega), if_pos (by omega), if_pos (by omega)]
            rfl
      · have h3' : par > 4095 := by omega
        simp only [h1, h2, h3, h1', h2', h3', decide_true, decide_false, assert_true_bind, assert_false_bind, if_false, if_true, throw_bind]
        rfl
    · have h2' : dt > 15 := by omega
      simp only [h1, h2, h1', h2', decide_true, decide_false, assert_true_bind, assert_false_bind, if_false, if_true, throw_bind]
      rfl
  · have h1' : cc > 15 := by omega
    simp only [h1, h1', decide_true, decide_false, assert_true_bind, assert_false_bind, if_false, if_true, throw_bind]
    rfl

/-- `SlotType.from_bits`, translated, is `Integrity.slotDec` — for ALL bit strings (wrong lengths: `AssertionError`) -/
theorem slot_from_bits_eq (bits : Bits) : SlotType.from_bits modelExt bits = ofI slotObj (slotDec bits) := by
  unfold SlotType.from_bits slotDec
  by_cases h : bits.length = 20
  · have hl : ((Py.len bits) == 20) = true := by simp [h]
    rw [hl, assert_true_bind, if_neg (by simpa using h)]
    simp only [slice_none_lit, slice_lit_lit, slice_lit_none]
    rw [slice_eq_sl bits 4 8 (by omega) (by omega)]
    have e0 : List.take 4 bits = sl bits 0 4 := by simp [sl]
    have e2 : List.drop 8 bits = sl bits 8 20 := by simp [sl, ← h]
    rw [e0, e2]
    rw [ba2int_of_length_pos _ (by rw [sl_length _ _ _ (by omega)]; omega),
      ba2int_of_length_pos _ (by rw [sl_length _ _ _ (by omega)]; omega),
      ba2int_of_length_pos _ (by rw [sl_length _ _ _ (by omega)]; omega)]
    simp only [ok_bind]
    rw [slot_init_eq]
  · have hl : ((Py.len bits) == 20) = false := by
      simp only [len_eq, beq_eq_false_iff_ne, ne_eq]; omega
    rw [hl, assert_false_bind, if_pos (by simpa using h)]
    rfl
/-! ### EMB -/

theorem pi_call : ∀ v : Fin 2,
    enumCall ePreemptionPowerIndicator ((v.val : Nat) : Int) = ofI (fun (n : Nat) => (n : Int)) (enumOf preemptionPowerGraph v.val) := by decide
theorem pi_lt : ∀ v : Fin 2,
    (match enumOf preemptionPowerGraph v.val with | .ok m => decide (m < 2) | .error _ => true) = true := by decide
theorem lcss_call : ∀ v : Fin 4,
    enumCall eLCSS ((v.val : Nat) : Int) = ofI (fun (n : Nat) => (n : Int)) (enumOf lcssGraph v.val) := by decide
theorem lcss_lt : ∀ v : Fin 4,
    (match enumOf lcssGraph v.val with | .ok m => decide (m < 4) | .error _ => true) = true := by decide

theorem emb_as_bits (cc pv lc par : Nat) (ok : Option Bool) (h1 : cc < 16) (h2 : pv < 2) (h3 : lc < 4) (h4 : par < 512) :
    EmbeddedSignalling.as_bits modelExt ⟨some (cc : Int), some (pv : Int), some (lc : Int), some (par : Int), ok⟩
      = .ok (natToBits 4 cc ++ natToBits 1 pv ++ natToBits 2 lc ++ natToBits 9 par) := by
  unfold EmbeddedSignalling.as_bits
  simp only [attr_some, ok_bind, pure_eq_ok, int2ba_lit _ _ (by decide : 0 < 4), int2ba_lit _ _ (by decide : 0 < 1),
    int2ba_lit _ _ (by decide : 0 < 2), int2ba_lit _ _ (by decide : 0 < 9)]
  rw [if_pos (by omega), if_pos (by omega), if_pos (by omega), if_pos (by omega)]
  rfl

theorem emb_as_bits_ovf (cc pv lc par : Nat) (ok : Option Bool) (h1 : cc < 16) (h2 : pv < 2) (h3 : lc < 4) (h4 : ¬ par < 512) :
    EmbeddedSignalling.as_bits modelExt ⟨some (cc : Int), some (pv : Int), some (lc : Int), some (par : Int), ok⟩
      = .error .overflow := by
  unfold EmbeddedSignalling.as_bits
  simp only [attr_some, ok_bind, pure_eq_ok, int2ba_lit _ _ (by decide : 0 < 4), int2ba_lit _ _ (by decide : 0 < 1),
    int2ba_lit _ _ (by decide : 0 < 2), int2ba_lit _ _ (by decide : 0 < 9)]
  rw [if_pos (by omega), if_pos (by omega), if_pos (by omega), if_neg (by omega)]
  rfl

theorem emb_init_eq (cc pi lc par : Nat) :
    EmbeddedSignalling.init modelExt (cc : Int) (pi : Int) (lc : Int) (par : Int) = ofI embObj (embInit cc pi lc par) := by
  unfold EmbeddedSignalling.init embInit
  have e15 : (15 : Int) = ((15 : Nat) : Int) := rfl
  have e3 : (3 : Int) = ((3 : Nat) : Int) := rfl
  have e1 : (1 : Int) = ((1 : Nat) : Int) := rfl
  simp only [e15, e3, e1, range_assert]
  by_cases h1 : cc ≤ 15
  · have h1' : ¬ cc > 15 := by omega
    by_cases h2 : lc ≤ 3
    · have h2' : ¬ lc > 3 := by omega
      by_cases h3 : pi ≤ 1
      · have h3' : ¬ pi > 1 := by omega
        simp only [h1, h2, h3, h1', h2', h3', decide_true, assert_true_bind, if_false]
        have hc := pi_call ⟨pi, by omega⟩
        have hl := pi_lt ⟨pi, by omega⟩
        have hc2 := lcss_call ⟨lc, by omega⟩
        have hl2 := lcss_lt ⟨lc, by omega⟩
        simp only at hc hl hc2 hl2
        rw [hc, hc2]
        cases hE : enumOf preemptionPowerGraph pi with
        | error e => rfl
        | ok piv =>
          rw [hE] at hl
          have hd : piv < 2 := by simpa using hl
          cases hE2 : enumOf lcssGraph lc with
          | error e => rfl
          | ok lv =>
            rw [hE2] at hl2
            have hd2 : lv < 4 := by simpa using hl2
            simp only [ofI, ok_bind, attr_some]
            by_cases hp : par ≤ 0
            · have hp0 : par = 0 := by omega
              subst hp0
              have hz := emb_as_bits cc piv lv 0 none (by omega) hd hd2 (by omega)
              simp only [Nat.le_refl, if_true, decide_true, show ((((0 : Nat) : Int)) ≤ 0) from by omega]
              rw [hz]
              simp only [ok_bind, ext_qr_gen, ext_qr_check, ext_np, slice_none_lit, slice_lit_lit]
              have hg : ∀ m, (qr1676.gen m).length = 16 := by intro m; simp [Code.gen]; rfl
              have ht : List.take 7 (natToBits 4 cc ++ natToBits 1 piv ++ natToBits 2 lv ++ natToBits 9 0)
                  = natToBits 4 cc ++ natToBits 1 piv ++ natToBits 2 lv := by
                rw [List.take_append_of_le_length (by simp)]
                exact List.take_of_length_le (by simp)
              rw [ht, slice_eq_sl _ 7 16 (by rw [hg]; omega) (by omega)]
              have hpar2 : bitsToNat (sl (qr1676.gen (natToBits 4 cc ++ natToBits 1 piv ++ natToBits 2 lv)) 7 16) < 512 :=
                bitsToNat_lt' _ 9 (by rw [sl_length _ _ _ (by rw [hg]; omega)])
              have hz2 := emb_as_bits cc piv lv _ none (by omega) hd hd2 hpar2
              rw [hz2]
              simp only [bind, Except.bind, pure, Except.pure]
              rw [if_neg (show ¬ bitsToNat (sl (qr1676.gen (natToBits 4 cc ++ natToBits 1 piv ++ natToBits 2 lv)) 7 16) ≥ 512 by omega)]
              rfl
            · have hp' : ¬ ((par : Int) ≤ 0) := by omega
              simp only [hp, hp', decide_false, if_false, Bool.false_eq_true]
              by_cases hpar : par < 512
              · have hz := emb_as_bits cc piv lv par none (by omega) hd hd2 hpar
                rw [hz]
                simp only [bind, Except.bind, pure, Except.pure]
                rw [if_neg (show ¬ par ≥ 512 by omega)]
                rfl
              · have hz := emb_as_bits_ovf cc piv lv par none (by omega) hd hd2 hpar
                rw [hz]
                simp only [bind, Except.bind, pure, Except.pure]
                rw [if_pos (show par ≥ 512 by omega)]
                rfl
      · have h3' : pi > 1 := by omega
        simp only [h1, h2, h3, h1', h2', h3', decide_true, decide_false, assert_true_bind, assert_false_bind, if_false, if_true, throw_bind]
        rfl
    · have h2' : lc > 3 := by omega
      simp only [h1, h2, h1', h2', decide_true, decide_false, assert_true_bind, assert_false_bind, if_false, if_true, throw_bind]
      rfl
  · have h1' : cc > 15 := by omega
    simp only [h1, h1', decide_true, decide_false, assert_true_bind, assert_false_bind, if_false, if_true, throw_bind]
    rfl

theorem sl_single (l : Bits) (i : Nat) (h : i < l.length) : sl l i (i + 1) = [l[i]] := by
  unfold sl
  rw [List.drop_take, show i + 1 - i = 1 by omega, List.drop_eq_getElem_cons h]
  rfl

theorem ofBool_eq_field (l : Bits) (i : Nat) (h : i < l.length) :
    Py.ofBool l[i] = ((bitsToNat (sl l i (i + 1)) : Nat) : Int) := by
  rw [sl_single l i h]
  cases l[i] <;> rfl

/-- `EmbeddedSignalling.from_bits`, translated, is `Integrity.embDec` — for ALL bit strings -/
theorem emb_from_bits_eq (bits : Bits) : EmbeddedSignalling.from_bits modelExt bits = ofI embObj (embDec bits) := by
  unfold EmbeddedSignalling.from_bits embDec
  by_cases h : bits.length = 16
  · have hl : ((Py.len bits) == 16) = true := by simp [h]
    rw [hl, assert_true_bind, if_neg (by simpa using h)]
    simp only [slice_lit_lit]
    rw [slice_eq_sl bits 0 4 (by omega) (by omega), slice_eq_sl bits 5 7 (by omega) (by omega),
      slice_eq_sl bits 7 16 (by omega) (by omega), getBit_lit bits 4 (by omega), ofBool_eq_field bits 4 (by omega)]
    rw [ba2int_of_length_pos _ (by rw [sl_length _ _ _ (by omega)]; omega),
      ba2int_of_length_pos _ (by rw [sl_length _ _ _ (by omega)]; omega),
      ba2int_of_length_pos _ (by rw [sl_length _ _ _ (by omega)]; omega)]
    simp only [ok_bind]
    rw [emb_init_eq]
  · have hl : ((Py.len bits) == 16) = false := by
      simp only [len_eq, beq_eq_false_iff_ne, ne_eq]; omega
    rw [hl, assert_false_bind, if_pos (by simpa using h)]
    rfl
/-! ### short LC -/

theorem slcos_call : ∀ v : Fin 16,
    enumCall eSLCOs ((v.val : Nat) : Int) = ofI (fun (n : Nat) => (n : Int)) (enumOf slcosGraph v.val) := by decide
theorem slcos_lt : ∀ v : Fin 16,
    (match enumOf slcosGraph v.val with | .ok m => decide (m < 16) | .error _ => true) = true := by decide
theorem act_call : ∀ v : Fin 16,
    enumCall eActivityID ((v.val : Nat) : Int) = ofI (fun (n : Nat) => (n : Int)) (enumOf activityIdGraph v.val) := by decide
theorem act_lt : ∀ v : Fin 16,
    (match enumOf activityIdGraph v.val with | .ok m => decide (m < 16) | .error _ => true) = true := by decide

theorem zeros24 : baOfInts (listMul [0] 24) = .ok (zeros 24) := by decide

theorem slc_as_bits_null (crc : Bits) (x1 x3 : Option (Option Int)) (x2 x4 : Option (Option (List Bool))) (ok : Option Bool) :
    ShortLinkControl.as_bits modelExt ⟨some (0 : Int), some crc, x1, x2, x3, x4, ok⟩
      = .ok (slcBody .null ++ crc) := by
  unfold ShortLinkControl.as_bits SLCOs.as_bits
  simp only [attr_some, ok_bind, pure_eq_ok, zeros24]
  rfl

theorem slc_as_bits_act (t1 t2 : Nat) (a1 a2 crc : Bits) (ok : Option Bool) (h1 : t1 < 16) (h2 : t2 < 16) :
    ShortLinkControl.as_bits modelExt ⟨some (1 : Int), some crc, some (some (t1 : Int)), some (some a1),
        some (some (t2 : Int)), some (some a2), ok⟩
      = .ok (slcBody (.activity t1 t2 a1 a2) ++ crc) := by
  unfold ShortLinkControl.as_bits SLCOs.as_bits ActivityID.as_bits
  have e0 : ((1 : Int) == 0) = false := by decide
  have e1 : ((1 : Int) == 1) = true := by decide
  have i1 : PyBits.int2ba 1 4 = .ok (natToBits 4 1) := by decide
  simp only [attr_some, unwrap_some, unwrapT_some, ok_bind, pure_eq_ok, int2ba_lit _ _ (by decide : 0 < 4), e0, e1, i1,
    Bool.false_eq_true, if_false, if_true]
  rw [if_pos (by omega), if_pos (by omega)]
  rfl

theorem crc8_val (d : Bits) : ∃ v : Nat, v < 256 ∧ Crc.crc8 false d = .ok v :=
  ⟨_, bitsToNat_lt' _ 8 (by rw [feed_length]; exact p8_length), crc8_feed d⟩

/-- end of `ShortLinkControl.__init__` for an object whose serialisation is known -/
theorem slc_init_tail (pl : SlcPayload) (crc : Bits) (hc : crc.length = 8) (hb : (slcBody pl).length = 28)
    (mk : Bits → Option Bool → ShortLinkControl)
    (hmk : ∀ c ok, ShortLinkControl.as_bits modelExt (mk c ok) = .ok (slcBody pl ++ c))
    (hobj : ∀ c ok, mk c (some ok) = slcObj ⟨pl, c, ok⟩) :
    (do
      let self := mk crc none
      if (!((← PyBits.ba2int crc) != 0)) then
        let v ← modelExt.CRC8_calculate (Py.slice (← ShortLinkControl.as_bits modelExt self) none (some 28))
        let c ← PyBits.int2baLE v 8
        pure (mk c (some true))
      else
        let b ← modelExt.CRC8_check (Py.slice (← ShortLinkControl.as_bits modelExt self) none (some 28))
          (← PyBits.ba2int (Py.rev (Py.slice (← ShortLinkControl.as_bits modelExt self) (some 28) (some 36))))
        pure (mk crc (some b)) : PyM ShortLinkControl)
      = ofI slcObj (slcInit pl crc) := by
  unfold slcInit
  have ht : crc.take 8 = crc := List.take_of_length_le (by omega)
  rw [ht, ba2int_of_length_pos _ (by omega)]
  simp only [ok_bind, hmk, slice_none_lit, slice_lit_lit, ext_crc8, ext_crc8_check]
  have hb28 : List.take 28 (slcBody pl ++ crc) = slcBody pl := by
    rw [List.take_append_of_le_length (by omega)]; exact List.take_of_length_le (by omega)
  rw [hb28]
  have henc : ∀ ok, (⟨pl, crc, ok⟩ : SlcObj).enc = slcBody pl ++ crc := fun _ => rfl
  have hlen : (slcBody pl ++ crc).length = 36 := by simp [hb, hc]
  have hs0 : sl (slcBody pl ++ crc) 0 28 = slcBody pl := by
    unfold sl; rw [List.drop_zero]; exact hb28
  rw [slice_eq_sl _ 28 36 (by omega) (by omega)]
  have hrev : 0 < (Py.rev (sl (slcBody pl ++ crc) 28 36)).length := by
    simp only [Py.rev, List.length_reverse]; rw [sl_length _ _ _ (by omega)]; omega
  rw [ba2int_of_length_pos _ hrev]
  simp only [ok_bind, henc, hs0, Py.rev]
  by_cases hz : bitsToNat crc = 0
  · obtain ⟨v, hv, he⟩ := crc8_val (slcBody pl)
    have e1 : (!(((0 : Nat) : Int) != 0)) = true := by decide
    simp only [hz, he, ofCrc, Except.map, liftCrc, ok_bind, e1, if_true]
    unfold int2baLE
    rw [int2ba_lit _ _ (by decide : 0 < 8), if_pos (by omega)]
    simp only [ok_bind, pure_eq_ok, hobj]
    rfl
  · have e1 : (!(((bitsToNat crc : Nat) : Int) != 0)) = false := by
      simp only [bne_iff_ne, ne_eq, Bool.not_eq_false', Bool.not_eq_eq_eq_not, Bool.not_true, bne_eq_false_iff_eq]
      simp; omega
    simp only [e1, hz, Bool.false_eq_true, if_false]
    cases crc8Check false (slcBody pl) ((bitsToNat (sl (slcBody pl ++ crc) 28 36).reverse : Nat) : Int) with
    | error e => cases e <;> rfl
    | ok b => simp only [liftCrc, ofCrc, ok_bind, pure_eq_ok, hobj]; rfl

theorem slc_init_null (crc : Bits) (hc : crc.length = 8) :
    ShortLinkControl.init modelExt (0 : Int) crc = ofI slcObj (slcInit .null crc) := by
  unfold ShortLinkControl.init
  have hsl : Py.slice crc none (some (8 : Int)) = crc := by
    rw [slice_none_lit]; exact List.take_of_length_le (Nat.le_of_eq hc)
  simp only [attr_some, ok_bind, hsl]
  exact slc_init_tail .null crc hc rfl (fun c ok => ⟨some (0 : Int), some c, some none, some none, some none, some none, ok⟩)
    (fun c ok => slc_as_bits_null c _ _ _ _ ok) (fun c ok => rfl)

theorem slc_init_act (t1 t2 : Nat) (a1 a2 crc : Bits) (h1 : t1 < 16) (h2 : t2 < 16) (ha1 : a1.length = 8)
    (ha2 : a2.length = 8) (hc : crc.length = 8) :
    ShortLinkControl.init modelExt (1 : Int) crc (some (t1 : Int)) (some (t2 : Int)) (some a1) (some a2)
      = ofI slcObj (slcInit (.activity t1 t2 a1 a2) crc) := by
  unfold ShortLinkControl.init
  have hsl : Py.slice crc none (some (8 : Int)) = crc := by
    rw [slice_none_lit]; exact List.take_of_length_le (Nat.le_of_eq hc)
  simp only [attr_some, ok_bind, hsl]
  exact slc_init_tail (.activity t1 t2 a1 a2) crc hc (by simp [slcBody, ha1, ha2])
    (fun c ok => ⟨some (1 : Int), some c, some (some (t1 : Int)), some (some a1), some (some (t2 : Int)), some (some a2), ok⟩)
    (fun c ok => slc_as_bits_act t1 t2 a1 a2 c ok h1 h2) (fun c ok => rfl)

theorem slcObj_set_ok (o : SlcObj) (b : Bool) : { slcObj o with crc_ok := some b } = slcObj { o with ok := b } := by
  cases o with
  | mk pl crc ok => cases pl <;> rfl

theorem ge_assert (n k : Nat) : decide (((n : Nat) : Int) ≥ ((k : Nat) : Int)) = decide (k ≤ n) := by
  by_cases h : k ≤ n
  · have : ((n : Nat) : Int) ≥ ((k : Nat) : Int) := by omega
    simp [h, this]
  · have : ¬ ((n : Nat) : Int) ≥ ((k : Nat) : Int) := by omega
    simp [h, this]

theorem int_bne_zero (n : Nat) : (((n : Nat) : Int) != 0) = decide (n ≠ 0) := by
  by_cases h : n = 0
  · subst h; rfl
  · have : ((n : Nat) : Int) ≠ 0 := by omega
    simp [h, this]

theorem slc_tail (bits : Bits) (h : 36 ≤ bits.length) (o : SlcObj) :
    (do
      let v ← ba2int (sl bits 28 36)
      if (v != 0) = true then do
        let w ← ba2int (Py.rev (sl bits 28 36))
        let b ← modelExt.CRC8_check (sl bits 0 28) w
        Except.ok { slcObj o with crc_ok := some b }
      else Except.ok (slcObj o) : PyM ShortLinkControl)
    = ofI slcObj (if bitsToNat (sl bits 28 36) ≠ 0 then
        match ofCrc (crc8Check false (sl bits 0 28) ((bitsToNat (List.reverse (sl bits 28 36)) : Nat) : Int)) with
        | Except.error e => Except.error e
        | Except.ok b => Except.ok { o with ok := b }
      else Except.ok o) := by
  have l2836 : (sl bits 28 36).length = 8 := by rw [sl_length _ _ _ (by omega)]
  rw [ba2int_of_length_pos _ (by omega)]
  simp only [ok_bind, int_bne_zero]
  by_cases hz : bitsToNat (sl bits 28 36) = 0
  · simp only [hz, ne_eq, not_true_eq_false, decide_false, Bool.false_eq_true, if_false]
    rfl
  · have hr : 0 < (Py.rev (sl bits 28 36)).length := by simp only [Py.rev, List.length_reverse]; omega
    simp only [hz, ne_eq, not_false_eq_true, decide_true, if_true]
    rw [ba2int_of_length_pos _ hr]
    simp only [ok_bind, ext_crc8_check, Py.rev]
    cases crc8Check false (sl bits 0 28) ((bitsToNat (sl bits 28 36).reverse : Nat) : Int) with
    | error e => cases e <;> rfl
    | ok b => simp only [liftCrc, ofCrc, ok_bind, slcObj_set_ok]; rfl

/-- `ShortLinkControl.from_bits`, translated, is `Integrity.slcDec` — for ALL bit strings -/
theorem slc_from_bits_eq (bits : Bits) : ShortLinkControl.from_bits modelExt bits = ofI slcObj (slcDec bits) := by
  unfold ShortLinkControl.from_bits slcDec
  have ha : decide (Py.len bits ≥ 36) = decide (36 ≤ bits.length) := by
    rw [len_eq]; exact ge_assert bits.length 36
  rw [ha]
  by_cases h : 36 ≤ bits.length
  · rw [decide_eq_true h, assert_true_bind, if_neg (by omega)]
    unfold SLCOs.from_bits slcFields
    simp only [slice_none_lit, slice_lit_lit]
    have e0 : List.take 4 bits = sl bits 0 4 := by simp [sl]
    have e28 : List.take 28 bits = sl bits 0 28 := by simp [sl]
    rw [slice_eq_sl bits 28 36 (by omega) (by omega), slice_eq_sl bits 4 8 (by omega) (by omega),
      slice_eq_sl bits 8 12 (by omega) (by omega), slice_eq_sl bits 12 20 (by omega) (by omega),
      slice_eq_sl bits 20 28 (by omega) (by omega), e0, e28]
    have l04 : (sl bits 0 4).length = 4 := by rw [sl_length _ _ _ (by omega)]
    have l48 : (sl bits 4 8).length = 4 := by rw [sl_length _ _ _ (by omega)]
    have l812 : (sl bits 8 12).length = 4 := by rw [sl_length _ _ _ (by omega)]
    have l1220 : (sl bits 12 20).length = 8 := by rw [sl_length _ _ _ (by omega)]
    have l2028 : (sl bits 20 28).length = 8 := by rw [sl_length _ _ _ (by omega)]
    have l2836 : (sl bits 28 36).length = 8 := by rw [sl_length _ _ _ (by omega)]
    have t4 : List.take 4 (sl bits 0 4) = sl bits 0 4 := List.take_of_length_le (by omega)
    have hl4 : ((Py.len (sl bits 0 4)) == 4) = true := by simp [l04]
    rw [hl4, assert_true_bind, t4, ba2int_of_length_pos _ (by omega)]
    simp only [ok_bind, pure_eq_ok]
    have hc := slcos_call ⟨bitsToNat (sl bits 0 4), bitsToNat_lt' _ 4 l04⟩
    have hl := slcos_lt ⟨bitsToNat (sl bits 0 4), bitsToNat_lt' _ 4 l04⟩
    simp only at hc hl
    rw [hc]
    cases hE : enumOf slcosGraph (bitsToNat (sl bits 0 4)) with
    | error e => rfl
    | ok slco =>
      simp only [ofI, ok_bind]
      rw [hE] at hl
      have hd : slco < 16 := by simpa using hl
      by_cases h0 : slco = 0
      · subst h0
        have c0 : ((((0 : Nat) : Int)) == 0) = true := rfl
        rw [if_pos c0, if_pos (show (0 : Nat) = slcoNull from rfl)]
        rw [show (((0 : Nat) : Int)) = (0 : Int) from rfl, slc_init_null _ l2836]
        cases slcInit SlcPayload.null (sl bits 28 36) with
        | error e => rfl
        | ok o => simp only [ofI, ok_bind]; exact slc_tail bits h o
      · have c0 : ((((slco : Nat) : Int)) == 0) = false := by
          simp only [beq_eq_false_iff_ne, ne_eq]; omega
        rw [if_neg (by rw [c0]; decide), if_neg (show ¬ slco = slcoNull from h0)]
        by_cases h1 : slco = 1
        · subst h1
          have c1 : ((((1 : Nat) : Int)) == 1) = true := rfl
          rw [if_pos c1, if_pos (show (1 : Nat) = slcoActivity from rfl)]
          unfold ActivityID.from_bits
          have g4 : ∀ l : Bits, l.length = 4 → decide (Py.len l ≥ 4) = true := by
            intro l hl; rw [len_eq, hl]; decide
          have t48 : List.take 4 (sl bits 4 8) = sl bits 4 8 := List.take_of_length_le (by omega)
          have t812 : List.take 4 (sl bits 8 12) = sl bits 8 12 := List.take_of_length_le (by omega)
          simp only [g4 _ l48, g4 _ l812, assert_true_bind, slice_none_lit, t48, t812]
          rw [ba2int_of_length_pos _ (by omega), ba2int_of_length_pos _ (by omega)]
          simp only [ok_bind, pure_eq_ok]
          have hc1 := act_call ⟨bitsToNat (sl bits 4 8), bitsToNat_lt' _ 4 l48⟩
          have hl1 := act_lt ⟨bitsToNat (sl bits 4 8), bitsToNat_lt' _ 4 l48⟩
          have hc2 := act_call ⟨bitsToNat (sl bits 8 12), bitsToNat_lt' _ 4 l812⟩
          have hl2 := act_lt ⟨bitsToNat (sl bits 8 12), bitsToNat_lt' _ 4 l812⟩
          simp only at hc1 hl1 hc2 hl2
          rw [hc1]
          cases hE1 : enumOf activityIdGraph (bitsToNat (sl bits 4 8)) with
          | error e => rfl
          | ok t1 =>
            rw [hE1] at hl1
            have hd1 : t1 < 16 := by simpa using hl1
            simp only [ofI, ok_bind]
            rw [hc2]
            cases hE2 : enumOf activityIdGraph (bitsToNat (sl bits 8 12)) with
            | error e => rfl
            | ok t2 =>
              rw [hE2] at hl2
              have hd2 : t2 < 16 := by simpa using hl2
              simp only [ofI, ok_bind]
              rw [show (((1 : Nat) : Int)) = (1 : Int) from rfl, slc_init_act t1 t2 _ _ _ hd1 hd2 l1220 l2028 l2836]
              cases slcInit (SlcPayload.activity t1 t2 (sl bits 12 20) (sl bits 20 28)) (sl bits 28 36) with
              | error e => rfl
              | ok o => simp only [ofI, ok_bind]; exact slc_tail bits h o
        · have c1 : ((((slco : Nat) : Int)) == 1) = false := by
            simp only [beq_eq_false_iff_ne, ne_eq]; omega
          rw [if_neg (by rw [c1]; decide), if_neg (show ¬ slco = slcoActivity from h1)]
          rfl
  · rw [decide_eq_false h, assert_false_bind, if_pos (by omega)]
    rfl
/-! ### service options -/

theorem ofBool_eq_one (b : Bool) : ((Py.ofBool b == 1) || (Py.ofBool b == 1)) = b := by cases b <;> rfl

/-- `ServiceOptions.from_bits`, translated, is the model's `ServiceOptions.dec` — for ALL bit strings -/
theorem so_from_bits_eq (bits : Bits) :
    ServiceOptions.from_bits modelExt bits = ofE soObj (_root_.Dmr.ServiceOptions.dec bits) := by
  unfold ServiceOptions.from_bits _root_.Dmr.ServiceOptions.dec
  by_cases h : bits.length = 8
  · have hl : ((Py.len bits) == 8) = true := by simp [h]
    rw [hl, assert_true_bind, if_neg (by simpa using h)]
    rw [getBit_lit bits 0 (by omega), getBit_lit bits 1 (by omega), getBit_lit bits 4 (by omega), getBit_lit bits 5 (by omega)]
    simp only [slice_lit_lit, ok_bind]
    have hf : List.take (min 8 bits.length - min 6 bits.length) (List.drop (min 6 bits.length) bits)
        = _root_.Dmr.slice bits 6 2 := by rw [h]; rfl
    have hr : List.take (min 4 bits.length - min 2 bits.length) (List.drop (min 2 bits.length) bits)
        = _root_.Dmr.slice bits 2 2 := by rw [h]; rfl
    rw [hf, hr, ba2int_of_length_pos _ (by simp [_root_.Dmr.slice]; omega)]
    simp only [ok_bind]
    unfold ServiceOptions.init
    have e3 : (3 : Int) = ((3 : Nat) : Int) := rfl
    have hp : bitsToNat (_root_.Dmr.slice bits 6 2) ≤ 3 := by
      have := bitsToNat_lt' (_root_.Dmr.slice bits 6 2) 2 (by simp [_root_.Dmr.slice]; omega)
      omega
    have hs : Py.slice (_root_.Dmr.slice bits 2 2) (some 0) (some 2) = _root_.Dmr.slice bits 2 2 := by
      rw [slice_lit_lit]
      have : (_root_.Dmr.slice bits 2 2).length = 2 := by simp [_root_.Dmr.slice]; omega
      rw [this]; exact List.take_of_length_le (by simp [this])
    simp only [e3, range_assert, decide_eq_true hp, assert_true_bind, ofBool_eq_one, hs]
    have g : ∀ i, (h : i < bits.length) → bits[i] = _root_.Dmr.getBit bits i := by
      intro i hi; simp [_root_.Dmr.getBit, List.getD_eq_getElem?_getD, List.getElem?_eq_getElem hi]
    rw [g 0 (by omega), g 1 (by omega), g 4 (by omega), g 5 (by omega)]
    rfl
  · have hl : ((Py.len bits) == 8) = false := by
      simp only [len_eq, beq_eq_false_iff_ne, ne_eq]; omega
    rw [hl, assert_false_bind, if_pos (by simpa using h)]
    rfl

/-- `ServiceOptions.as_bits`, translated, on the object of an in-range model value is the model's `enc` -/
theorem so_as_bits_eq (s : _root_.Dmr.ServiceOptions) (h : s.WF) :
    ServiceOptions.as_bits modelExt (soObj s) = .ok s.enc := by
  unfold ServiceOptions.as_bits soObj
  obtain ⟨hp, hr⟩ := h
  simp only [attr_some, ok_bind, pure_eq_ok, getBit_lit _ 0 (by omega : 0 < s.reserved.length),
    getBit_lit _ 1 (by omega : 1 < s.reserved.length), baOfInts_cons_ofBool, baOfInts_nil, int2ba_lit _ _ (by decide : 0 < 2)]
  rw [if_pos hp]
  have g : ∀ i, (h : i < s.reserved.length) → s.reserved[i] = _root_.Dmr.getBit s.reserved i := by
    intro i hi; simp [_root_.Dmr.getBit, List.getD_eq_getElem?_getD, List.getElem?_eq_getElem hi]
  rw [g 0 (by omega), g 1 (by omega)]
  rfl
end Dmr.Transl.PduSmall
