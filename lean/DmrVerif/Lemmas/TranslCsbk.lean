import DmrVerif.Model.TranslCsbkExt
import DmrVerif.Lemmas.Layout
import DmrVerif.Lemmas.PduCsbk

/-!
Equality of the definitions TRANSLATED from `csbk.py` / `service_options.py` (`Gen/TranslCsbk.lean`) with the hand-written
model of C03 (`Model/PduCsbk.lean`).  Core Lean only.
-/

namespace Dmr.Transl.Csbk
open Dmr Dmr.Py Dmr.PyBits Dmr.Gen

/-! ### generic steps -/

theorem assert_true_bind {α : Type} (k : Unit → PyM α) : (Py.assert true >>= k) = k () := rfl
theorem assert_false_bind {α : Type} (k : Unit → PyM α) : (Py.assert false >>= k) = .error .assertion := rfl

/-- Python's clamped slice with literal bounds is the model's `slice`, for every length -/
theorem pyslice_eq {α : Type} (l : List α) (a b : Nat) (hab : a ≤ b) :
    (l.drop (min a l.length)).take (min b l.length - min a l.length) = (l.drop a).take (b - a) := by
  by_cases h1 : b ≤ l.length
  · rw [Nat.min_eq_left h1, Nat.min_eq_left (by omega)]
  · by_cases h2 : a ≤ l.length
    · rw [Nat.min_eq_right (by omega), Nat.min_eq_left h2]
      rw [List.take_of_length_le (by simp), List.take_of_length_le (by simp; omega)]
    · rw [Nat.min_eq_right (by omega), Nat.min_eq_right (by omega)]
      rw [List.drop_of_length_le (Nat.le_refl _), List.drop_of_length_le (by omega)]
      simp

theorem slice_lit_lit (l : Bits) (a b : Nat) (hab : a ≤ b) :
    Py.slice l (some (no_index (@OfNat.ofNat Int a _))) (some (no_index (@OfNat.ofNat Int b _))) =
      _root_.Dmr.slice l a (b - a) := by
  rw [show Py.slice l (some (@OfNat.ofNat Int a _)) (some (@OfNat.ofNat Int b _))
    = (l.drop (min a l.length)).take (min b l.length - min a l.length) from slice_ofNat_ofNat l a b]
  exact pyslice_eq l a b hab

theorem slice_length (l : Bits) (a w : Nat) (h : a + w ≤ l.length) : (_root_.Dmr.slice l a w).length = w := by
  simp [_root_.Dmr.slice]; omega

theorem ba2int_slice (l : Bits) (a w : Nat) (hw : 0 < w) (h : a + w ≤ l.length) :
    ba2int (_root_.Dmr.slice l a w) = .ok ((getField l a w : Nat) : Int) :=
  ba2int_of_length_pos _ (by rw [slice_length l a w h]; exact hw)

theorem getField_lt (l : Bits) (a w : Nat) (h : a + w ≤ l.length) : getField l a w < 2 ^ w :=
  bitsToNat_lt' _ w (slice_length l a w h)

theorem getBit_eq (l : Bits) (i : Nat) (h : i < l.length) : l[i] = _root_.Dmr.getBit l i := by
  simp [_root_.Dmr.getBit, List.getD_eq_getElem?_getD, List.getElem?_eq_getElem h]

theorem pgetBit (l : Bits) (i : Nat) (h : i < l.length) :
    PyBits.getBit l (no_index (@OfNat.ofNat Int i _)) = .ok (Py.ofBool (_root_.Dmr.getBit l i)) := by
  rw [getBit_lit l i h, getBit_eq l i h]

theorem ofBool_in (b : Bool) : ((Py.ofBool b == 1) || (Py.ofBool b == 1)) = b := by cases b <;> rfl
theorem ofBool_in2 (b : Bool) : ((Py.ofBool (!b) == 1) || (Py.ofBool (!b) == 1)) = !b := by cases b <;> rfl
theorem ofBool_eq1 (b : Bool) : (Py.ofBool b == 1) = b := by cases b <;> rfl
theorem ofBool_not (b : Bool) : (!(Py.ofBool b != 0)) = !b := by cases b <;> rfl
theorem ofBool_b2n (b : Bool) : Py.ofBool b = ((b2n b : Nat) : Int) := by cases b <;> rfl

theorem range_assert (v hi : Nat) :
    (decide ((0 : Int) ≤ (v : Int)) && decide ((v : Int) ≤ (hi : Int))) = decide (v ≤ hi) := by
  have h0 : (0 : Int) ≤ (v : Int) := Int.natCast_nonneg v
  by_cases h : v ≤ hi
  · have : (v : Int) ≤ (hi : Int) := by omega
    simp [h0, h, this]
  · have : ¬ (v : Int) ≤ (hi : Int) := by omega
    simp [h, this]

/-- the Enum call through the extracted graph is the model's `Elem.dec`, inside the graph's domain, for an element whose
graph has no "other exception" entry -/
theorem enumCall_dec (E : Elem) (v : Nat) (hno : (E.graph.all (fun r => r != .otherError)) = true)
    (hv : v < E.graph.length) :
    enumCall E (v : Int) = ofE (fun (n : Nat) => (n : Int)) (E.dec v) := by
  rw [enumCall_ofNat]
  unfold Elem.dec Elem.lookup
  rw [List.getD_eq_getElem?_getD, List.getElem?_eq_getElem hv]
  have hm := List.all_eq_true.mp hno (E.graph[v]) (List.getElem_mem hv)
  cases hr : E.graph[v] with
  | otherError => rw [hr] at hm; simp at hm
  | member m => rfl
  | valueError => rfl
  | assertionError => rfl
  | nothing => rfl

/-- members of the graph are below `2^w` -/
def Bounded (E : Elem) (w : Nat) : Bool :=
  E.graph.all (fun r => match r with | .member m => decide (m < 2 ^ w) | _ => true)

theorem dec_lt (E : Elem) (w v m : Nat) (hb : Bounded E w = true) (h : E.dec v = .ok m) : m < 2 ^ w := by
  unfold Elem.dec Elem.lookup at h
  rw [List.getD_eq_getElem?_getD] at h
  by_cases hv : v < E.graph.length
  · rw [List.getElem?_eq_getElem hv] at h
    have hm := List.all_eq_true.mp hb (E.graph[v]) (List.getElem_mem hv)
    cases hr : E.graph[v] with
    | member k =>
      rw [hr] at h hm
      simp only [Option.getD_some] at h
      have : k = m := by injection h
      subst this
      simpa using hm
    | otherError => rw [hr] at h; simp at h
    | valueError => rw [hr] at h; simp at h
    | assertionError => rw [hr] at h; simp at h
    | nothing => rw [hr] at h; simp at h
  · rw [List.getElem?_eq_none (by omega)] at h
    simp at h

/-! ### `as_bits` -/

/-- numeric range of the opcode-specific attributes (what `int2ba` accepts) -/
def PayloadOk : CsbkPayload → Prop
  | .bsDwnAct bs src => bs < 2 ^ 24 ∧ src < 2 ^ 24
  | .uuVReq so tgt src => so.WF ∧ tgt < 2 ^ 24 ∧ src < 2 ^ 24
  | .uuAnsRsp so ar tgt src => so.WF ∧ ar < 2 ^ 8 ∧ tgt < 2 ^ 24 ∧ src < 2 ^ 24
  | .nackRsp _ _ svc rc src tgt => svc < 2 ^ 6 ∧ rc < 2 ^ 8 ∧ src < 2 ^ 24 ∧ tgt < 2 ^ 24
  | .preamble _ _ btf tgt src => btf < 2 ^ 8 ∧ tgt < 2 ^ 24 ∧ src < 2 ^ 24
  | .channelTiming age gen lid nl ldi cto sid sdi =>
    age < 2 ^ 11 ∧ gen < 2 ^ 5 ∧ lid < 2 ^ 20 ∧ nl < 2 ^ 1 ∧ ldi < 2 ^ 2 ∧ cto < 2 ^ 2 ∧ sid < 2 ^ 20 ∧ sdi < 2 ^ 2
  | .hyteraIpscSync _ => True
  | .aloha _ _ dvc _ _ mask sf nrand _ backoff sys tgt =>
    dvc < 2 ^ 3 ∧ mask < 2 ^ 5 ∧ sf < 2 ^ 2 ∧ nrand < 2 ^ 4 ∧ backoff < 2 ^ 4 ∧ sys < 2 ^ 16 ∧ tgt < 2 ^ 24
  | .broadcast at' _ _ backoff sys => at' < 2 ^ 5 ∧ backoff < 2 ^ 4 ∧ sys < 2 ^ 16

theorem i2b (x n : Nat) (hn : 0 < n) (h : x < 2 ^ n) :
    int2ba (x : Int) (no_index (@OfNat.ofNat Int n _)) = .ok (natToBits n x) := by
  rw [int2ba_lit x n hn, if_pos h]

theorem i2b_lit (x n : Nat) (hn : 0 < n) (h : x < 2 ^ n) :
    int2ba (no_index (@OfNat.ofNat Int x _)) (no_index (@OfNat.ofNat Int n _)) = .ok (natToBits n x) :=
  i2b x n hn h

/-- `ServiceOptions.as_bits`, translated, on the object of an in-range model value is the model's `enc` -/
theorem so_as_bits_eq (g : Bytes → Int → Nat) (s : _root_.Dmr.ServiceOptions) (h : s.WF) :
    ServiceOptions.as_bits (csbkExt g) (soObj s) = .ok s.enc := by
  unfold ServiceOptions.as_bits soObj
  obtain ⟨hp, hr⟩ := h
  simp only [attr_some, ok_bind, pure_eq_ok, getBit_lit _ 0 (by omega : 0 < s.reserved.length),
    getBit_lit _ 1 (by omega : 1 < s.reserved.length), baOfInts_cons_ofBool, baOfInts_nil, int2ba_lit _ _ (by decide : 0 < 2)]
  rw [if_pos hp, getBit_eq _ 0 (by omega), getBit_eq _ 1 (by omega)]
  rfl

theorem some_beq_one (v : Nat) : ((some ((v : Nat) : Int)) == some (1 : Int)) = (v == 1) := by
  by_cases h : v = 1
  · subst h; rfl
  · have h2 : ((v : Nat) : Int) ≠ 1 := by omega
    have e1 : (v == 1) = false := by simp [h]
    rw [e1]
    simp [h2]

macro "csbk_enc_tac" : tactic => `(tactic| (
  unfold CSBK.as_bits CsbkOpcodes.as_bits FeatureSetIDs.as_bits csbkObj csbkBase
  simp only [attr_some, unwrap_some, ok_bind, pure_eq_ok, baOfInts_cons_ofBool, baOfInts_nil, baOfInts_cons_zero, Csbk.opcode,
    Csbk.opBsDwnAct, Csbk.opUuVReq, Csbk.opUuAnsRsp, Csbk.opNackRsp, Csbk.opPreamble, Csbk.opChannelTiming,
    Csbk.opHyteraIpscSync, Csbk.opAloha, Csbk.opBroadcast, Int.cast_ofNat_Int, Int.reduceBEq, beq_self_eq_true,
    Bool.false_eq_true, if_true, if_false, AnswerResponse.as_bits, ReasonCode.as_bits, DynamicIdentifier.as_bits,
    ChannelTimingOpcode.as_bits, ext_b2b, some_beq_one]))

theorem csbk_as_bits (g : Bytes → Int → Nat) (p : Csbk) (hf : p.fid < 2 ^ 8) (hc : p.crc < 2 ^ 16) (h : PayloadOk p.payload) :
    CSBK.as_bits (csbkExt g) (csbkObj p) = .ok p.enc := by
  obtain ⟨lb, pf, fid, crc, pl⟩ := p
  simp only at hf hc h
  cases pl with
  | bsDwnAct bs src =>
    obtain ⟨h1, h2⟩ := h
    csbk_enc_tac
    simp (disch := first | decide | assumption) only [i2b, i2b_lit, ok_bind]
    simp only [Csbk.enc, Csbk.body, Csbk.payloadBits, Csbk.opcode, Csbk.opBsDwnAct, List.append_assoc]
  | uuVReq so tgt src =>
    obtain ⟨h0, h1, h2⟩ := h
    csbk_enc_tac
    simp (disch := first | decide | assumption) only [i2b, i2b_lit, ok_bind, so_as_bits_eq g so h0]
    simp only [Csbk.enc, Csbk.body, Csbk.payloadBits, Csbk.opcode, Csbk.opUuVReq, List.append_assoc]
  | uuAnsRsp so ar tgt src =>
    obtain ⟨h0, ha, h1, h2⟩ := h
    csbk_enc_tac
    simp (disch := first | decide | assumption) only [i2b, i2b_lit, ok_bind, so_as_bits_eq g so h0]
    simp only [Csbk.enc, Csbk.body, Csbk.payloadBits, Csbk.opcode, Csbk.opUuAnsRsp, List.append_assoc]
  | nackRsp aif st svc rc src tgt =>
    obtain ⟨h0, ha, h1, h2⟩ := h
    csbk_enc_tac
    simp (disch := first | decide | assumption) only [i2b, i2b_lit, ok_bind]
    simp only [Csbk.enc, Csbk.body, Csbk.payloadBits, Csbk.opcode, Csbk.opNackRsp, List.append_assoc]
  | preamble cf ind btf tgt src =>
    obtain ⟨h0, h1, h2⟩ := h
    csbk_enc_tac
    simp (disch := first | decide | assumption) only [i2b, i2b_lit, ok_bind]
    simp only [Csbk.enc, Csbk.body, Csbk.payloadBits, Csbk.opcode, Csbk.opPreamble, List.append_assoc]
  | channelTiming age gen lid nl ldi cto sid sdi =>
    obtain ⟨h0, h1, h2, h3, h4, h5, h6, h7⟩ := h
    csbk_enc_tac
    simp (disch := first | decide | assumption) only [i2b, i2b_lit, ok_bind]
    have l2 : (natToBits 2 cto).length = 2 := natToBits_length 2 cto
    simp only [getBit_lit _ 0 (by omega : 0 < (natToBits 2 cto).length), getBit_lit _ 1 (by omega : 1 < (natToBits 2 cto).length),
      ok_bind, baOfInts_cons_ofBool, baOfInts_nil, getBit_eq _ 0 (by omega : 0 < (natToBits 2 cto).length),
      getBit_eq _ 1 (by omega : 1 < (natToBits 2 cto).length)]
    simp only [Csbk.enc, Csbk.body, Csbk.payloadBits, Csbk.opcode, Csbk.opChannelTiming, List.append_assoc]
  | hyteraIpscSync raw =>
    csbk_enc_tac
    simp (disch := first | decide | assumption) only [i2b, i2b_lit, ok_bind]
    simp only [Csbk.enc, Csbk.body, Csbk.payloadBits, Csbk.opcode, Csbk.opHyteraIpscSync, List.append_assoc]
  | aloha tsccas sync dvc off act mask sf nrand reg backoff sys tgt =>
    obtain ⟨h0, h1, h2, h3, h4, h5, h6⟩ := h
    csbk_enc_tac
    simp (disch := first | decide | assumption) only [i2b, i2b_lit, ok_bind]
    simp only [Csbk.enc, Csbk.body, Csbk.payloadBits, Csbk.opcode, Csbk.opAloha, List.append_assoc, List.cons_append, List.nil_append]
  | broadcast at' params reg backoff sys =>
    obtain ⟨h0, h1, h2⟩ := h
    csbk_enc_tac
    simp (disch := first | decide | assumption) only [i2b, i2b_lit, ok_bind, slice_none_lit, slice_lit_lit _ 14 38 (by decide)]
    simp only [Csbk.enc, Csbk.body, Csbk.payloadBits, Csbk.opcode, Csbk.opBroadcast, List.append_assoc, _root_.Dmr.slice, List.drop_zero]
/-! ### `__init__` -/

theorem csbkObj_set_crc (p : Csbk) (c : Nat) : { csbkObj p with crc := some (c : Int) } = csbkObj { p with crc := c } := by
  obtain ⟨lb, pf, fid, crc, pl⟩ := p
  cases pl <;> rfl

theorem calc_eq (g : Bytes → Int → Nat) (p : Csbk) (h : CSBK.as_bits (csbkExt g) (csbkObj p) = .ok p.enc) :
    CSBK.calculate_crc_ccit (csbkExt g) (csbkObj p)
      = .ok (csbkObj { p with crc := crcOf g (_root_.Dmr.slice p.enc 0 80) }, ()) := by
  unfold CSBK.calculate_crc_ccit
  simp only [h, ok_bind, slice_lit_lit _ 0 80 (by decide), ext_crc16, pure_eq_ok, csbkObj_set_crc]
  rfl

/-- end of `CSBK.__init__`: `if self.crc <= 0: self.calculate_crc_ccit()` -/
theorem init_finish (g : Bytes → Int → Nat) (p : Csbk) (hf : p.fid < 2 ^ 8) (h : PayloadOk p.payload) :
    (do
      let mut self := csbkObj p
      if (decide ((← PyBits.attr self.crc) ≤ 0)) then
        self := (← CSBK.calculate_crc_ccit (csbkExt g) self).1
      return self : PyM CSBK) = .ok (csbkObj (Csbk.init (crcOf g) p)) := by
  have hcrc : (csbkObj p).crc = some (p.crc : Int) := by
    obtain ⟨lb, pf, fid, crc, pl⟩ := p
    cases pl <;> rfl
  simp only [hcrc, attr_some, ok_bind]
  unfold Csbk.init
  by_cases hz : p.crc = 0
  · have hd : decide (((p.crc : Nat) : Int) ≤ 0) = true := by rw [hz]; rfl
    rw [if_pos hz]
    simp only [hd, if_true]
    rw [calc_eq g p (csbk_as_bits g p hf (by rw [hz]; decide) h)]
    rfl
  · have hd : decide (((p.crc : Nat) : Int) ≤ 0) = false := by
      simp only [decide_eq_false_iff_not]; omega
    rw [if_neg hz]
    simp only [hd, Bool.false_eq_true, if_false]
    rfl

theorem di0 : enumCall eDynamicIdentifier (0 : Int) = .ok 0 := by decide
theorem cto0 : enumCall eChannelTimingOpcode (0 : Int) = .ok 0 := by decide
theorem sf0 : enumCall eRandomAccessServiceFunction (0 : Int) = .ok 0 := by decide

theorem init_bs (g : Bytes → Int → Nat) (lb pf : Bool) (op fid crc bs src : Nat) (hop : op = Csbk.opBsDwnAct)
    (hf : fid < 2 ^ 8) (h : PayloadOk (.bsDwnAct bs src)) :
    CSBK.init (csbkExt g) (last_block := Py.ofBool lb) (protect_flag := Py.ofBool pf) (manufacturers_feature_set_id := (fid : Int))
      (crc := (crc : Int)) (csbko := (op : Int)) (bs_address := (bs : Int)) (source_address := (src : Int))
      = .ok (csbkObj (Csbk.init (crcOf g) ⟨lb, pf, fid, crc, .bsDwnAct bs src⟩)) := by
  subst hop
  unfold CSBK.init
  simp only [ok_bind, pure_eq_ok, di0, cto0, sf0, ofBool_in]
  exact init_finish g ⟨lb, pf, fid, crc, .bsDwnAct bs src⟩ hf h

theorem init_uuv (g : Bytes → Int → Nat) (lb pf : Bool) (op fid crc tgt src : Nat) (so : _root_.Dmr.ServiceOptions)
    (hop : op = Csbk.opUuVReq) (hf : fid < 2 ^ 8) (h : PayloadOk (.uuVReq so tgt src)) :
    CSBK.init (csbkExt g) (last_block := Py.ofBool lb) (protect_flag := Py.ofBool pf) (manufacturers_feature_set_id := (fid : Int))
      (crc := (crc : Int)) (csbko := (op : Int)) (service_options := some (soObj so)) (target_address := (tgt : Int))
      (source_address := (src : Int))
      = .ok (csbkObj (Csbk.init (crcOf g) ⟨lb, pf, fid, crc, .uuVReq so tgt src⟩)) := by
  subst hop
  unfold CSBK.init
  simp only [ok_bind, pure_eq_ok, di0, cto0, sf0, ofBool_in]
  exact init_finish g ⟨lb, pf, fid, crc, .uuVReq so tgt src⟩ hf h

theorem init_uua (g : Bytes → Int → Nat) (lb pf : Bool) (op fid crc ar tgt src : Nat) (so : _root_.Dmr.ServiceOptions)
    (hop : op = Csbk.opUuAnsRsp) (hf : fid < 2 ^ 8) (h : PayloadOk (.uuAnsRsp so ar tgt src)) :
    CSBK.init (csbkExt g) (last_block := Py.ofBool lb) (protect_flag := Py.ofBool pf) (manufacturers_feature_set_id := (fid : Int))
      (crc := (crc : Int)) (csbko := (op : Int)) (service_options := some (soObj so)) (answer_response := some (ar : Int))
      (target_address := (tgt : Int)) (source_address := (src : Int))
      = .ok (csbkObj (Csbk.init (crcOf g) ⟨lb, pf, fid, crc, .uuAnsRsp so ar tgt src⟩)) := by
  subst hop
  unfold CSBK.init
  simp only [ok_bind, pure_eq_ok, di0, cto0, sf0, ofBool_in]
  exact init_finish g ⟨lb, pf, fid, crc, .uuAnsRsp so ar tgt src⟩ hf h

theorem init_nack (g : Bytes → Int → Nat) (lb pf : Bool) (op fid crc aif st svc rc src tgt : Nat)
    (hop : op = Csbk.opNackRsp) (hf : fid < 2 ^ 8) (h : PayloadOk (.nackRsp aif st svc rc src tgt)) :
    CSBK.init (csbkExt g) (last_block := Py.ofBool lb) (protect_flag := Py.ofBool pf) (manufacturers_feature_set_id := (fid : Int))
      (crc := (crc : Int)) (csbko := (op : Int)) (additional_information_field := some (aif : Int))
      (source_type := some (st : Int)) (service_type := some (svc : Int)) (reason_code := some (rc : Int))
      (source_address := (src : Int)) (target_address := (tgt : Int))
      = .ok (csbkObj (Csbk.init (crcOf g) ⟨lb, pf, fid, crc, .nackRsp aif st svc rc src tgt⟩)) := by
  subst hop
  unfold CSBK.init
  simp only [ok_bind, pure_eq_ok, di0, cto0, sf0, ofBool_in]
  exact init_finish g ⟨lb, pf, fid, crc, .nackRsp aif st svc rc src tgt⟩ hf h

theorem init_pre (g : Bytes → Int → Nat) (lb pf cf ind : Bool) (op fid crc btf tgt src : Nat)
    (hop : op = Csbk.opPreamble) (hf : fid < 2 ^ 8) (h : PayloadOk (.preamble (!cf) (!ind) btf tgt src)) :
    CSBK.init (csbkExt g) (last_block := Py.ofBool lb) (protect_flag := Py.ofBool pf) (manufacturers_feature_set_id := (fid : Int))
      (crc := (crc : Int)) (csbko := (op : Int)) (csbk_content_follows_preambles := (!(Py.ofBool cf != 0))) (target_address_is_individual := (!(Py.ofBool ind != 0)))
      (blocks_to_follow := (btf : Int)) (target_address := (tgt : Int)) (source_address := (src : Int))
      = .ok (csbkObj (Csbk.init (crcOf g) ⟨lb, pf, fid, crc, .preamble (!cf) (!ind) btf tgt src⟩)) := by
  subst hop
  unfold CSBK.init
  simp only [ok_bind, pure_eq_ok, di0, cto0, sf0, ofBool_in, ofBool_not]
  exact init_finish g ⟨lb, pf, fid, crc, .preamble (!cf) (!ind) btf tgt src⟩ hf h

theorem cto_no : (eChannelTimingOpcode.graph.all (fun r => r != .otherError)) = true := by decide
theorem cto_bd : Bounded eChannelTimingOpcode 2 = true := by decide
theorem sf_no : (eRandomAccessServiceFunction.graph.all (fun r => r != .otherError)) = true := by decide
theorem sf_bd : Bounded eRandomAccessServiceFunction 2 = true := by decide

theorem init_ct (g : Bytes → Int → Nat) (lb pf nlb : Bool) (op fid crc age gen lid ldi ctov sid sdi : Nat)
    (hop : op = Csbk.opChannelTiming) (hf : fid < 2 ^ 8) (hv : ctov < 4)
    (h : ∀ cto, cto < 2 ^ 2 → PayloadOk (.channelTiming age gen lid (b2n nlb) ldi cto sid sdi)) :
    CSBK.init (csbkExt g) (last_block := Py.ofBool lb) (protect_flag := Py.ofBool pf) (manufacturers_feature_set_id := (fid : Int))
      (crc := (crc : Int)) (csbko := (op : Int)) (sync_age := (age : Int)) (generation := (gen : Int))
      (leader_identifier := (lid : Int)) (new_leader := Py.ofBool nlb) (leader_dynamic_identifier := Sum.inr (ldi : Int))
      (channel_timing_opcode := (ctov : Int)) (source_identifier := (sid : Int)) (source_dynamic_identifier := Sum.inr (sdi : Int))
      = match eChannelTimingOpcode.dec ctov with
        | .error e => .error (liftE e)
        | .ok cto => .ok (csbkObj (Csbk.init (crcOf g) ⟨lb, pf, fid, crc, .channelTiming age gen lid (b2n nlb) ldi cto sid sdi⟩)) := by
  subst hop
  unfold CSBK.init
  rw [enumCall_dec eChannelTimingOpcode ctov cto_no hv]
  cases hd : eChannelTimingOpcode.dec ctov with
  | error e => rfl
  | ok cto =>
    have hb := dec_lt _ 2 _ _ cto_bd hd
    simp only [ofE, ok_bind, pure_eq_ok, di0, cto0, sf0, ofBool_in, ofBool_b2n nlb]
    exact init_finish g ⟨lb, pf, fid, crc, .channelTiming age gen lid (b2n nlb) ldi cto sid sdi⟩ hf (h cto hb)

theorem init_hy (g : Bytes → Int → Nat) (lb pf : Bool) (op fid crc : Nat) (raw : Bits)
    (hop : op = Csbk.opHyteraIpscSync) (hf : fid < 2 ^ 8) :
    CSBK.init (csbkExt g) (last_block := Py.ofBool lb) (protect_flag := Py.ofBool pf) (manufacturers_feature_set_id := (fid : Int))
      (crc := (crc : Int)) (csbko := (op : Int)) (raw_data := Sum.inr raw)
      = .ok (csbkObj (Csbk.init (crcOf g) ⟨lb, pf, fid, crc, .hyteraIpscSync (bitsToBytes raw)⟩)) := by
  subst hop
  unfold CSBK.init bits_to_bytes
  simp only [ok_bind, pure_eq_ok, di0, cto0, sf0, ofBool_in, PyBits.tobytes]
  exact init_finish g ⟨lb, pf, fid, crc, .hyteraIpscSync (bitsToBytes raw)⟩ hf trivial

theorem init_bc (g : Bytes → Int → Nat) (lb pf reg : Bool) (op fid crc at' backoff sys : Nat) (params : Bits)
    (hop : op = Csbk.opBroadcast) (hf : fid < 2 ^ 8) (h : PayloadOk (.broadcast at' params reg backoff sys)) :
    CSBK.init (csbkExt g) (last_block := Py.ofBool lb) (protect_flag := Py.ofBool pf) (manufacturers_feature_set_id := (fid : Int))
      (crc := (crc : Int)) (csbko := (op : Int)) (announcement_type := (at' : Int)) (tscc_reg_required := (Py.ofBool reg == 1))
      (tscc_backoff := (backoff : Int)) (system_identity_code := (sys : Int)) (broadcast_params := params)
      = .ok (csbkObj (Csbk.init (crcOf g) ⟨lb, pf, fid, crc, .broadcast at' params reg backoff sys⟩)) := by
  subst hop
  unfold CSBK.init
  simp only [ok_bind, pure_eq_ok, di0, cto0, sf0, ofBool_in, ofBool_eq1, Bool.or_self]
  exact init_finish g ⟨lb, pf, fid, crc, .broadcast at' params reg backoff sys⟩ hf h

theorem init_al (g : Bytes → Int → Nat) (lb pf tsccas sync off act reg : Bool) (op fid crc dvc mask sfv nrand backoff sys tgt : Nat)
    (hop : op = Csbk.opAloha) (hf : fid < 2 ^ 8) (hv : sfv < 4)
    (h : ∀ sf, sf < 2 ^ 2 → PayloadOk (.aloha tsccas sync dvc off act mask sf nrand reg backoff sys tgt)) :
    CSBK.init (csbkExt g) (last_block := Py.ofBool lb) (protect_flag := Py.ofBool pf) (manufacturers_feature_set_id := (fid : Int))
      (crc := (crc : Int)) (csbko := (op : Int)) (tsccas_support := (Py.ofBool tsccas == 1)) (site_timeslot_synchronized := (Py.ofBool sync == 1))
      (document_version_control := (dvc : Int)) (tscc_is_offset_timing := (Py.ofBool off == 1)) (ts_active_connection := (Py.ofBool act == 1))
      (aloha_mask := (mask : Int)) (service_function := (sfv : Int)) (nrand_wait := (nrand : Int)) (tscc_reg_required := (Py.ofBool reg == 1))
      (tscc_backoff := (backoff : Int)) (system_identity_code := (sys : Int)) (target_address := (tgt : Int))
      = match eRandomAccessServiceFunction.dec sfv with
        | .error e => .error (liftE e)
        | .ok sf => .ok (csbkObj (Csbk.init (crcOf g) ⟨lb, pf, fid, crc,
            .aloha tsccas sync dvc off act mask sf nrand reg backoff sys tgt⟩)) := by
  subst hop
  unfold CSBK.init
  rw [enumCall_dec eRandomAccessServiceFunction sfv sf_no hv]
  cases hd : eRandomAccessServiceFunction.dec sfv with
  | error e => rfl
  | ok sf =>
    have hb := dec_lt _ 2 _ _ sf_bd hd
    simp only [ofE, ok_bind, pure_eq_ok, di0, cto0, sf0, ofBool_in, ofBool_eq1, Bool.or_self]
    exact init_finish g ⟨lb, pf, fid, crc, .aloha tsccas sync dvc off act mask sf nrand reg backoff sys tgt⟩ hf (h sf hb)
/-! ### `Csbk.WF` gives the numeric ranges -/

/-- the defined members of an element are below `2^w` -/
def MembersBelow (E : Elem) (w : Nat) : Bool := E.members.all (fun m => decide (m < 2 ^ w))

theorem defined_lt (E : Elem) (w v : Nat) (hm : MembersBelow E w = true) (h : E.defined v = true) : v < 2 ^ w := by
  unfold Elem.defined at h
  have hv : v ∈ E.members := by simpa using h
  have := List.all_eq_true.mp hm v hv
  simpa using this

theorem fid_mb : MembersBelow eFeatureSetIDs 8 = true := by decide +kernel
theorem ar_mb : MembersBelow eAnswerResponse 8 = true := by decide +kernel
theorem op_mb : MembersBelow eCsbkOpcodes 6 = true := by decide +kernel
theorem rc_mb : MembersBelow eReasonCode 8 = true := by decide +kernel
theorem di_mb : MembersBelow eDynamicIdentifier 2 = true := by decide
theorem cto_mb : MembersBelow eChannelTimingOpcode 2 = true := by decide
theorem sf_mb : MembersBelow eRandomAccessServiceFunction 2 = true := by decide
theorem at_mb : MembersBelow eAnnouncementType 5 = true := by decide

/-- an in-range model record (`Csbk.WF`) satisfies the numeric ranges `as_bits` needs -/
theorem wf_ok (p : Csbk) (h : p.WF) : p.fid < 2 ^ 8 ∧ p.crc < 2 ^ 16 ∧ PayloadOk p.payload := by
  obtain ⟨h1, h2, h3⟩ := h
  refine ⟨defined_lt _ 8 _ fid_mb h1, h2, ?_⟩
  cases hp : p.payload with
  | bsDwnAct bs src => rw [hp] at h3; exact h3
  | uuVReq so tgt src => rw [hp] at h3; exact h3
  | uuAnsRsp so ar tgt src =>
    rw [hp] at h3; exact ⟨h3.1, defined_lt _ 8 _ ar_mb h3.2.1, h3.2.2⟩
  | nackRsp aif st svc rc src tgt =>
    rw [hp] at h3
    exact ⟨defined_lt _ 6 _ op_mb h3.2.2.1, defined_lt _ 8 _ rc_mb h3.2.2.2.1, h3.2.2.2.2⟩
  | preamble cf ind btf tgt src => rw [hp] at h3; exact h3
  | channelTiming age gen lid nl ldi cto sid sdi =>
    rw [hp] at h3
    obtain ⟨a, b, c, d, e, f, g', i⟩ := h3
    exact ⟨a, b, c, d, defined_lt _ 2 _ di_mb e, defined_lt _ 2 _ cto_mb f, g', defined_lt _ 2 _ di_mb i⟩
  | hyteraIpscSync raw => trivial
  | aloha tsccas sync dvc off act mask sf nrand reg backoff sys tgt =>
    rw [hp] at h3
    obtain ⟨a, b, c, d, e, f, g'⟩ := h3
    exact ⟨a, b, defined_lt _ 2 _ sf_mb c, d, e, f, g'⟩
  | broadcast at' params reg backoff sys =>
    rw [hp] at h3
    exact ⟨defined_lt _ 5 _ at_mb h3.1, h3.2.2⟩
end Dmr.Transl.Csbk
