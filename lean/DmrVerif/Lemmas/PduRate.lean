import DmrVerif.Model.PduRate
import DmrVerif.Lemmas.Layout

/-!
# Rate ½ / ¾ / 1 data blocks (4 variants each): round trip, fixed point, totality

Everything is proved for the three block sizes whose length tables were extracted from `/repo`
(`c = rate12 ∨ c = rate34 ∨ c = rate1`); the proofs run on the concrete tables.
-/

set_option linter.unusedSimpArgs false

namespace Dmr
open Dmr.Gen

namespace RateData

/-- the extracted enum values: data length = block size − 0 / 2 / 4 / 6 octets, Undefined = 0 -/
theorem lens_shape (c : RateCfg) (hc : c = rate12 ∨ c = rate34 ∨ c = rate1) :
    c.lens = [c.total, c.total - 2, c.total - 4, c.total - 6, 0] ∧ 7 ≤ c.total := by
  rcases hc with rfl | rfl | rfl <;> decide

theorem lenOf_vals (c : RateCfg) (hc : c = rate12 ∨ c = rate34 ∨ c = rate1) :
    lenOf c .unconfirmed = c.total ∧ lenOf c .confirmed = c.total - 2 ∧ lenOf c .unconfirmedLast = c.total - 4
    ∧ lenOf c .confirmedLast = c.total - 6 ∧ lenOf c .undefined = 0 := by
  rcases hc with rfl | rfl | rfl <;> decide

theorem typeOfLen_lenOf (c : RateCfg) (hc : c = rate12 ∨ c = rate34 ∨ c = rate1) (t : RateType) :
    typeOfLen c (lenOf c t) = .ok t := by
  rcases hc with rfl | rfl | rfl <;> cases t <;> rfl

theorem rate12_total : rate12.total = 12 := rfl
theorem rate34_total : rate34.total = 18 := rfl
theorem rate1_total : rate1.total = 24 := rfl

/-- serialised length of a block whose data has the length of variant `t` -/
theorem enc_length (c : RateCfg) (hc : c = rate12 ∨ c = rate34 ∨ c = rate1) (t : RateType) (p : RateData)
    (ht : t ≠ .undefined) (h : p.data.length = lenOf c t) : (enc c p).length = 8 * c.total := by
  obtain ⟨h0, h1, h2, h3, h4⟩ := lenOf_vals c hc
  have h7 := (lens_shape c hc).2
  unfold enc
  rw [h, typeOfLen_lenOf c hc t]
  cases t <;> simp_all [bytesToBits_length] <;> omega

theorem init_ok (c : RateCfg) (hc : c = rate12 ∨ c = rate34 ∨ c = rate1) (f9 : Bytes → Nat → Nat → Nat)
    (t : RateType) (a : RateData) (h : a.data.length = lenOf c t) :
    init c f9 t a = .ok { a with crc9 := if a.crc9 = 0 then f9 a.data a.dbsn a.crc32 else a.crc9 } := by
  unfold init
  rw [if_neg (by simp [h]), h, typeOfLen_lenOf c hc t]

/-- **round trip**: the object the constructor builds from in-range arguments of variant `t` is read
back by `from_bits_typed(as_bits(), t)` with every attribute equal -/
theorem dec_enc (c : RateCfg) (hc : c = rate12 ∨ c = rate34 ∨ c = rate1) (f9 : Bytes → Nat → Nat → Nat)
    (hf : ∀ d s x, f9 d s x < 2 ^ 9) (t : RateType) (a p : RateData) (h : WF c t a)
    (hp : init c f9 t a = .ok p) : dec c f9 t (enc c p) = .ok p := by
  obtain ⟨ht, hlen, hby, hconf, hlast⟩ := h
  rw [init_ok c hc f9 t a hlen] at hp
  cases hp
  have hL := enc_length c hc t { a with crc9 := if a.crc9 = 0 then f9 a.data a.dbsn a.crc32 else a.crc9 } ht hlen
  obtain ⟨a_data, a_dbsn, a_crc9, a_crc32⟩ := a
  simp only at hlen hby hconf hlast hL ⊢
  have hcrc9 : (if a_crc9 = 0 then f9 a_data a_dbsn a_crc32 else a_crc9) < 2 ^ 9 ∨ True := Or.inr trivial
  unfold dec
  rw [if_neg (by simpa using hL)]
  unfold enc
  simp only [hlen, typeOfLen_lenOf c hc t]
  rcases hc with rfl | rfl | rfl
  all_goals
    cases t with
    | undefined => exact absurd rfl ht
    | unconfirmed =>
      simp only [reduceCtorEq, or_self, ↓reduceIte] at hconf hlast
      obtain ⟨rfl, rfl⟩ := hconf
      subst hlast
      have hl' : a_data.length = _ := hlen
      simp only [bitsToBytes_bytesToBits a_data hby]
      rw [init_ok _ (by simp) f9 _ _ hlen]
      simp
    | confirmed =>
      simp only [reduceCtorEq, or_false, or_true, true_or, ↓reduceIte] at hconf hlast
      obtain ⟨hd, hc9⟩ := hconf
      subst hlast
      have hc9' : (if a_crc9 = 0 then f9 a_data a_dbsn 0 else a_crc9) < 2 ^ 9 := by split <;> simp_all
      have hl' : a_data.length = _ := hlen
      simp only [lenOf, rate12, rate34, rate1, rate12Lens, rate34Lens, rate1Lens, List.getD_cons_succ, List.getD_cons_zero] at hl'
      layout_simp [rate12_total, rate34_total, rate1_total, hd, hc9', hl', List.length_reverse, List.reverse_reverse, bitsToBytes_bytesToBits a_data hby]
      rw [init_ok _ (by simp) f9 _ _ hlen]
      simp only [Except.ok.injEq, RateData.mk.injEq, true_and, and_true]
      split <;> simp_all
    | unconfirmedLast =>
      simp only [reduceCtorEq, or_false, or_true, true_or, or_self, ↓reduceIte] at hconf hlast
      obtain ⟨rfl, rfl⟩ := hconf
      have hl' : a_data.length = _ := hlen
      simp only [lenOf, rate12, rate34, rate1, rate12Lens, rate34Lens, rate1Lens, List.getD_cons_succ, List.getD_cons_zero] at hl'
      layout_simp [rate12_total, rate34_total, rate1_total, hlast, hl', bitsToBytes_bytesToBits a_data hby]
      rw [init_ok _ (by simp) f9 _ _ hlen]
      simp
    | confirmedLast =>
      simp only [reduceCtorEq, or_false, or_true, true_or, or_self, ↓reduceIte] at hconf hlast
      obtain ⟨hd, hc9⟩ := hconf
      have hc9' : (if a_crc9 = 0 then f9 a_data a_dbsn a_crc32 else a_crc9) < 2 ^ 9 := by split <;> simp_all
      have hl' : a_data.length = _ := hlen
      simp only [lenOf, rate12, rate34, rate1, rate12Lens, rate34Lens, rate1Lens, List.getD_cons_succ, List.getD_cons_zero] at hl'
      layout_simp [rate12_total, rate34_total, rate1_total, hd, hc9', hlast, hl', List.length_reverse, List.reverse_reverse, bitsToBytes_bytesToBits a_data hby]
      rw [init_ok _ (by simp) f9 _ _ hlen]
      simp only [Except.ok.injEq, RateData.mk.injEq, true_and, and_true]
      split <;> simp_all

/-- the variant an untyped / typed decode produces -/
def normType : RateType → RateType
  | .undefined => .unconfirmed
  | t => t

/-- `from_bits(bits)` (type Undefined) is `from_bits_typed(bits, Unconfirmed)` -/
theorem dec_undefined (c : RateCfg) (hc : c = rate12 ∨ c = rate34 ∨ c = rate1) (f9 : Bytes → Nat → Nat → Nat)
    (bs : Bits) (hl : bs.length = 8 * c.total) : dec c f9 .undefined bs = dec c f9 .unconfirmed bs := by
  have hb : (bitsToBytes bs).length = lenOf c .unconfirmed := by
    rw [(lenOf_vals c hc).1]; exact bitsToBytes_length _ _ hl
  unfold dec
  rw [if_neg (by simp [hl])]
  simp only
  rw [init_ok c hc f9 .unconfirmed _ hb]
  unfold init
  simp only [reduceCtorEq, ne_eq, not_true_eq_false, false_and, and_false, ↓reduceIte]
  rw [hb, typeOfLen_lenOf c hc]
  simp [hl]

/-- whatever `from_bits_typed(bits, t)` returns is the constructor applied to in-range arguments of
variant `normType t` -/
theorem dec_spec (c : RateCfg) (hc : c = rate12 ∨ c = rate34 ∨ c = rate1) (f9 : Bytes → Nat → Nat → Nat)
    (t : RateType) (bs : Bits) (hl : bs.length = 8 * c.total) (p : RateData) (h : dec c f9 t bs = .ok p) :
    ∃ a, WF c (normType t) a ∧ init c f9 (normType t) a = .ok p := by
  have h' : dec c f9 (normType t) bs = .ok p := by
    cases t <;> first | exact h | (rw [normType, ← dec_undefined c hc f9 bs hl]; exact h)
  have hn : normType t ≠ .undefined := by cases t <;> simp [normType]
  generalize normType t = t' at h' hn
  unfold dec at h'
  rw [if_neg (by simp [hl])] at h'
  rcases hc with rfl | rfl | rfl
  all_goals
    simp only [rate12_total, rate34_total, rate1_total] at hl
    cases t'
    all_goals first | exact absurd rfl hn | skip
    all_goals
      simp only [rate12_total, rate34_total, rate1_total, Nat.reduceMul, Nat.reduceSub] at h'
      refine ⟨_, ?_, h'⟩
      unfold WF
      simp only [reduceCtorEq, or_self, or_true, true_or, or_false, false_or, ↓reduceIte, ne_eq, not_false_eq_true, true_and]
      and_intros
      all_goals first
        | rfl
        | wf_field
        | (apply bitsToNat_lt_of_le; simp (config := { decide := true }) [slice_length, hl]; done)
        | (apply bitsToBytes_length; simp (config := { decide := true }) [slice_length, hl]; done)

/-- any right-length block decodes (no exception) for every requested variant -/
theorem dec_total (c : RateCfg) (hc : c = rate12 ∨ c = rate34 ∨ c = rate1) (f9 : Bytes → Nat → Nat → Nat)
    (t : RateType) (bs : Bits) (hl : bs.length = 8 * c.total) : ∃ p, dec c f9 t bs = .ok p := by
  have key : ∀ t', t' ≠ .undefined → ∃ p, dec c f9 t' bs = .ok p := by
    intro t' hn
    unfold dec
    rw [if_neg (by simp [hl])]
    rcases hc with rfl | rfl | rfl
    all_goals
      simp only [rate12_total, rate34_total, rate1_total] at hl
      cases t'
      all_goals first | exact absurd rfl hn | skip
      all_goals
        simp only [rate12_total, rate34_total, rate1_total, Nat.reduceMul, Nat.reduceSub]
        exact ⟨_, init_ok _ (by simp) f9 _ _ (by apply bitsToBytes_length; simp (config := { decide := true }) [slice_length, hl])⟩
  cases t with
  | undefined => rw [dec_undefined c hc f9 bs hl]; exact key _ (by simp)
  | _ => exact key _ (by simp)

/-- the untyped decode (what the burst parser does) keeps all bits: the object re-serialises to the
input and holds it as its data octets -/
theorem dec_undefined_enc (c : RateCfg) (hc : c = rate12 ∨ c = rate34 ∨ c = rate1) (f9 : Bytes → Nat → Nat → Nat)
    (bs : Bits) (hl : bs.length = 8 * c.total) :
    ∃ q, dec c f9 .undefined bs = .ok q ∧ enc c q = bs ∧ q.data = bitsToBytes bs := by
  have hb : (bitsToBytes bs).length = lenOf c .unconfirmed := by
    rw [(lenOf_vals c hc).1]; exact bitsToBytes_length _ _ hl
  rw [dec_undefined c hc f9 bs hl]
  unfold dec
  rw [if_neg (by simp [hl])]
  simp only
  rw [init_ok c hc f9 .unconfirmed _ hb]
  refine ⟨_, rfl, ?_, rfl⟩
  unfold enc
  simp only [hb, typeOfLen_lenOf c hc]
  exact bytesToBits_bitsToBytes _ _ hl

/-- decoding any right-length block as variant `t` yields an object whose serialisation has the block
length and decodes (as the variant it now has) to the same object -/
theorem fixpoint (c : RateCfg) (hc : c = rate12 ∨ c = rate34 ∨ c = rate1) (f9 : Bytes → Nat → Nat → Nat)
    (hf : ∀ d s x, f9 d s x < 2 ^ 9) (t : RateType) (bs : Bits) (hl : bs.length = 8 * c.total) (p : RateData)
    (h : dec c f9 t bs = .ok p) :
    dec c f9 (normType t) (enc c p) = .ok p ∧ (enc c p).length = 8 * c.total := by
  obtain ⟨a, hw, hi⟩ := dec_spec c hc f9 t bs hl p h
  refine ⟨dec_enc c hc f9 hf _ a p hw hi, ?_⟩
  have hn : normType t ≠ .undefined := by cases t <;> simp [normType]
  rw [init_ok c hc f9 _ a hw.2.1] at hi
  cases hi
  exact enc_length c hc _ _ hn hw.2.1

end RateData
end Dmr
