import DmrVerif.Lemmas.TranslCsbk

/-!
`CSBK.from_bits` (translated, `Gen/TranslCsbk.lean`) equals `Csbk.dec` (`Model/PduCsbk.lean`): all nine opcode branches, every
error case, every length.  Core Lean only.
-/

namespace Dmr.Transl.Csbk
open Dmr Dmr.Py Dmr.PyBits Dmr.Gen

theorem call_field (E : Elem) (w : Nat) (hno : (E.graph.all (fun r => r != .otherError)) = true)
    (hlen : E.graph.length = 2 ^ w) (bits : Bits) (a : Nat) (h : a + w ≤ bits.length) :
    enumCall E ((getField bits a w : Nat) : Int) = ofE (fun (n : Nat) => (n : Int)) (E.dec (getField bits a w)) :=
  enumCall_dec E _ hno (by rw [hlen]; exact getField_lt bits a w h)

theorem op_no : (eCsbkOpcodes.graph.all (fun r => r != .otherError)) = true := by decide +kernel
theorem op_bd : Bounded eCsbkOpcodes 6 = true := by decide +kernel
theorem fid_no : (eFeatureSetIDs.graph.all (fun r => r != .otherError)) = true := by decide +kernel
theorem fid_bd : Bounded eFeatureSetIDs 8 = true := by decide +kernel
theorem ar_no : (eAnswerResponse.graph.all (fun r => r != .otherError)) = true := by decide +kernel
theorem ar_bd : Bounded eAnswerResponse 8 = true := by decide +kernel
theorem rc_no : (eReasonCode.graph.all (fun r => r != .otherError)) = true := by decide +kernel
theorem rc_bd : Bounded eReasonCode 8 = true := by decide +kernel
theorem aif_no : (eAdditionalInformationField.graph.all (fun r => r != .otherError)) = true := by decide
theorem st_no : (eSourceType.graph.all (fun r => r != .otherError)) = true := by decide
theorem di_no : (eDynamicIdentifier.graph.all (fun r => r != .otherError)) = true := by decide
theorem di_bd : Bounded eDynamicIdentifier 2 = true := by decide
theorem at_no : (eAnnouncementType.graph.all (fun r => r != .otherError)) = true := by decide
theorem at_bd : Bounded eAnnouncementType 5 = true := by decide

theorem int_beq_lit (op k : Nat) : (((op : Nat) : Int) == (no_index (@OfNat.ofNat Int k _))) = decide (op = k) := by
  by_cases h : op = k
  · subst h; simp; rfl
  · have : ((op : Nat) : Int) ≠ ((k : Nat) : Int) := by omega
    simp [h]; exact this

/-- `ServiceOptions.from_bits`, translated, is the model's `ServiceOptions.dec` — for ALL bit strings -/
theorem so_from_bits_eq (g : Bytes → Int → Nat) (bits : Bits) :
    ServiceOptions.from_bits (csbkExt g) bits = ofE soObj (_root_.Dmr.ServiceOptions.dec bits) := by
  unfold ServiceOptions.from_bits _root_.Dmr.ServiceOptions.dec
  by_cases h : bits.length = 8
  · have hl : ((Py.len bits) == 8) = true := by simp [h]
    rw [hl, assert_true_bind, if_neg (by simpa using h)]
    rw [pgetBit bits 0 (by omega), pgetBit bits 1 (by omega), pgetBit bits 4 (by omega), pgetBit bits 5 (by omega)]
    simp only [slice_lit_lit _ 2 4 (by decide), slice_lit_lit _ 6 8 (by decide), ok_bind]
    rw [ba2int_slice bits 6 2 (by decide) (by omega)]
    simp only [ok_bind]
    unfold ServiceOptions.init
    have e3 : (3 : Int) = ((3 : Nat) : Int) := rfl
    have hp : getField bits 6 2 ≤ 3 := by have := getField_lt bits 6 2 (by omega); omega
    have hs : Py.slice (_root_.Dmr.slice bits 2 2) (some 0) (some 2) = _root_.Dmr.slice bits 2 2 := by
      rw [slice_lit_lit _ 0 2 (by decide)]
      have : (_root_.Dmr.slice bits 2 2).length = 2 := slice_length bits 2 2 (by omega)
      simp only [_root_.Dmr.slice, List.drop_zero] at this ⊢
      exact List.take_of_length_le (by omega)
    simp only [e3, range_assert, decide_eq_true hp, assert_true_bind, ofBool_in, hs]
    rfl
  · have hl : ((Py.len bits) == 8) = false := by
      simp only [len_eq, beq_eq_false_iff_ne, ne_eq]; omega
    rw [hl, assert_false_bind, if_pos (by simpa using h)]
    rfl

theorem ge_assert (n k : Nat) : decide (((n : Nat) : Int) ≥ ((k : Nat) : Int)) = decide (k ≤ n) := by
  by_cases h : k ≤ n
  · have : ((n : Nat) : Int) ≥ ((k : Nat) : Int) := by omega
    simp [h, this]
  · have : ¬ ((n : Nat) : Int) ≥ ((k : Nat) : Int) := by omega
    simp [h, this]

theorem so_dec_wf (l : Bits) (so : _root_.Dmr.ServiceOptions) (h : _root_.Dmr.ServiceOptions.dec l = .ok so) : so.WF := by
  unfold _root_.Dmr.ServiceOptions.dec at h
  by_cases hl : l.length = 8
  · rw [if_neg (by simpa using hl)] at h
    injection h with h
    subst h
    exact ⟨getField_lt l 6 2 (by omega), slice_length l 2 2 (by omega)⟩
  · rw [if_pos (by simpa using hl)] at h
    cases h

theorem slice_slice0 (bits : Bits) (a w : Nat) (h : a + w ≤ bits.length) :
    _root_.Dmr.slice (_root_.Dmr.slice bits a w) 0 w = _root_.Dmr.slice bits a w := by
  have := slice_length bits a w h
  simp only [_root_.Dmr.slice, List.drop_zero] at this ⊢
  exact List.take_of_length_le (by omega)

theorem opcodes_from_bits (g : Bytes → Int → Nat) (bits : Bits) (a : Nat) (h : a + 6 ≤ bits.length) :
    CsbkOpcodes.from_bits (csbkExt g) (_root_.Dmr.slice bits a 6)
      = ofE (fun (n : Nat) => (n : Int)) (eCsbkOpcodes.dec (getField bits a 6)) := by
  unfold CsbkOpcodes.from_bits
  rw [slice_lit_lit _ 0 6 (by decide), slice_slice0 bits a 6 h, ba2int_slice bits a 6 (by decide) h]
  simp only [ok_bind, pure_eq_ok]
  rw [call_field eCsbkOpcodes 6 op_no (by decide +kernel) bits a h]

theorem di_from_bits (g : Bytes → Int → Nat) (bits : Bits) (a : Nat) (h : a + 2 ≤ bits.length) :
    DynamicIdentifier.from_bits (csbkExt g) (_root_.Dmr.slice bits a 2)
      = ofE (fun (n : Nat) => (n : Int)) (eDynamicIdentifier.dec (getField bits a 2)) := by
  unfold DynamicIdentifier.from_bits
  rw [slice_lit_lit _ 0 2 (by decide), slice_slice0 bits a 2 h, ba2int_slice bits a 2 (by decide) h]
  simp only [ok_bind, pure_eq_ok]
  rw [call_field eDynamicIdentifier 2 di_no (by decide) bits a h]

theorem slw (l : Bits) (a b w : Nat) (h : b = a + w) :
    Py.slice l (some (no_index (@OfNat.ofNat Int a _))) (some (no_index (@OfNat.ofNat Int b _))) = _root_.Dmr.slice l a w := by
  subst h
  rw [slice_lit_lit l a (a + w) (by omega), Nat.add_sub_cancel_left]

/-- `ok v >>= k = k v` as a PROPOSITIONAL rewrite rule.  `Py.ok_bind` is proved by `rfl`, so `simp` applies it definitionally and
the kernel has to re-check the definitional equality of the whole goal before / after (here: minutes, because the failed
argument comparison unfolds `enumCall` / `getBit` of the continuation); this copy is not recognised as a `rfl` lemma. -/
theorem okb {α β : Type} (v : α) (k : α → PyM β) : ((Except.ok v : PyM α) >>= k) = k v :=
  (Eq.refl (k v)).trans (Eq.refl (k v))

theorem call_bit (E : Elem) (hno : (E.graph.all (fun r => r != .otherError)) = true) (hlen : E.graph.length = 2) (b : Bool) :
    enumCall E (Py.ofBool b) = ofE (fun (n : Nat) => (n : Int)) (E.dec (b2n b)) := by
  rw [ofBool_b2n]
  exact enumCall_dec E _ hno (by rw [hlen]; cases b <;> decide)

/-- `CSBK.from_bits`, translated, is the model's `Csbk.dec` — for ALL bit strings and whatever `CRC16.calculate` computes -/
theorem csbk_from_bits_eq (g : Bytes → Int → Nat) (bits : Bits) :
    CSBK.from_bits (csbkExt g) bits = ofE csbkObj (Csbk.dec (crcOf g) bits) := by
  unfold CSBK.from_bits Csbk.dec
  have ha : decide (Py.len bits ≥ 96) = decide (96 ≤ bits.length) := by
    rw [len_eq]; exact ge_assert bits.length 96
  rw [ha]
  by_cases h : 96 ≤ bits.length
  · rw [decide_eq_true h, assert_true_bind, if_neg (by omega)]
    rw [pgetBit bits 0 (by omega), pgetBit bits 1 (by omega)]
    rw [slw bits 2 8 6 (by decide), slw bits 8 16 8 (by decide), slw bits 80 96 16 (by decide)]
    simp only [okb]
    rw [ba2int_slice bits 2 6 (by decide) (by omega), ba2int_slice bits 8 8 (by decide) (by omega),
      ba2int_slice bits 80 16 (by decide) (by omega)]
    simp only [okb]
    rw [call_field eCsbkOpcodes 6 op_no (by decide +kernel) bits 2 (by omega)]
    cases hop : eCsbkOpcodes.dec (getField bits 2 6) with
    | error e => rfl
    | ok op =>
      simp only [ofE, okb]
      rw [call_field eFeatureSetIDs 8 fid_no (by decide +kernel) bits 8 (by omega)]
      cases hfid : eFeatureSetIDs.dec (getField bits 8 8) with
      | error e => rfl
      | ok fid =>
        have hf : fid < 2 ^ 8 := dec_lt _ 8 _ _ fid_bd hfid
        simp only [ofE, okb, int_beq_lit, Csbk.opBsDwnAct, Csbk.opUuVReq, Csbk.opUuAnsRsp, Csbk.opNackRsp, Csbk.opPreamble,
          Csbk.opChannelTiming, Csbk.opHyteraIpscSync, Csbk.opAloha, Csbk.opBroadcast, decide_eq_true_eq]
        have gl : ∀ a w, a + w ≤ 96 → getField bits a w < 2 ^ w := fun a w hw => getField_lt bits a w (by omega)
        have bi : ∀ a w, 0 < w → a + w ≤ 96 → ba2int (_root_.Dmr.slice bits a w) = .ok ((getField bits a w : Nat) : Int) :=
          fun a w h0 hw => ba2int_slice bits a w h0 (by omega)
        by_cases h56 : op = 56
        · subst h56
          simp only [↓reduceIte]
          rw [slw bits 32 56 24 (by decide), slw bits 56 80 24 (by decide)]
          rw [bi 32 24 (by decide) (by decide), bi 56 24 (by decide) (by decide)]
          simp only [okb]
          rw [init_bs g _ _ 56 fid _ _ _ rfl hf ⟨gl 32 24 (by decide), gl 56 24 (by decide)⟩]
        simp only [h56, ↓reduceIte]
        by_cases h4 : op = 4
        · subst h4
          simp only [↓reduceIte]
          rw [slw bits 16 24 8 (by decide), slw bits 32 56 24 (by decide), slw bits 56 80 24 (by decide)]
          rw [so_from_bits_eq]
          cases hso : _root_.Dmr.ServiceOptions.dec (_root_.Dmr.slice bits 16 8) with
          | error e => rfl
          | ok so =>
            simp only [ofE, okb]
            rw [bi 32 24 (by decide) (by decide), bi 56 24 (by decide) (by decide)]
            simp only [okb]
            rw [init_uuv g _ _ 4 fid _ _ _ so rfl hf ⟨so_dec_wf _ _ hso, gl 32 24 (by decide), gl 56 24 (by decide)⟩]
        simp only [h4, ↓reduceIte]
        by_cases h5 : op = 5
        · subst h5
          simp only [↓reduceIte]
          rw [slw bits 16 24 8 (by decide), slw bits 24 32 8 (by decide), slw bits 32 56 24 (by decide), slw bits 56 80 24 (by decide)]
          rw [so_from_bits_eq]
          cases hso : _root_.Dmr.ServiceOptions.dec (_root_.Dmr.slice bits 16 8) with
          | error e => rfl
          | ok so =>
            simp only [ofE, okb]
            rw [bi 24 8 (by decide) (by decide)]
            simp only [okb]
            rw [call_field eAnswerResponse 8 ar_no (by decide +kernel) bits 24 (by omega)]
            cases har : eAnswerResponse.dec (getField bits 24 8) with
            | error e => rfl
            | ok ar =>
              simp only [ofE, okb]
              rw [bi 32 24 (by decide) (by decide), bi 56 24 (by decide) (by decide)]
              simp only [okb]
              rw [init_uua g _ _ 5 fid _ ar _ _ so rfl hf
                ⟨so_dec_wf _ _ hso, dec_lt _ 8 _ _ ar_bd har, gl 32 24 (by decide), gl 56 24 (by decide)⟩]
        simp only [h5, ↓reduceIte]
        by_cases h38 : op = 38
        · subst h38
          simp only [↓reduceIte]
          rw [slw bits 18 24 6 (by decide), slw bits 24 32 8 (by decide), slw bits 32 56 24 (by decide), slw bits 56 80 24 (by decide)]
          rw [pgetBit bits 16 (by omega)]
          simp only [okb]
          rw [call_bit eAdditionalInformationField aif_no (by decide)]
          cases haif : eAdditionalInformationField.dec (b2n (_root_.Dmr.getBit bits 16)) with
          | error e => rfl
          | ok aif =>
            simp only [ofE, okb]
            rw [pgetBit bits 17 (by omega)]
            simp only [okb]
            rw [call_bit eSourceType st_no (by decide)]
            cases hst : eSourceType.dec (b2n (_root_.Dmr.getBit bits 17)) with
            | error e => rfl
            | ok st =>
              simp only [ofE, okb]
              rw [opcodes_from_bits g bits 18 (by omega)]
              cases hsvc : eCsbkOpcodes.dec (getField bits 18 6) with
              | error e => rfl
              | ok svc =>
                simp only [ofE, okb]
                rw [bi 24 8 (by decide) (by decide)]
                simp only [okb]
                rw [call_field eReasonCode 8 rc_no (by decide +kernel) bits 24 (by omega)]
                cases hrc : eReasonCode.dec (getField bits 24 8) with
                | error e => rfl
                | ok rc =>
                  simp only [ofE, okb]
                  rw [bi 32 24 (by decide) (by decide), bi 56 24 (by decide) (by decide)]
                  simp only [okb]
                  rw [init_nack g _ _ 38 fid _ aif st svc rc _ _ rfl hf
                    ⟨dec_lt _ 6 _ _ op_bd hsvc, dec_lt _ 8 _ _ rc_bd hrc, gl 32 24 (by decide), gl 56 24 (by decide)⟩]
        simp only [h38, ↓reduceIte]
        by_cases h61 : op = 61
        · subst h61
          simp only [↓reduceIte]
          rw [slw bits 24 32 8 (by decide), slw bits 32 56 24 (by decide), slw bits 56 80 24 (by decide)]
          rw [pgetBit bits 16 (by omega), pgetBit bits 17 (by omega), bi 24 8 (by decide) (by decide),
            bi 32 24 (by decide) (by decide), bi 56 24 (by decide) (by decide)]
          simp only [okb]
          rw [init_pre g _ _ _ _ 61 fid _ _ _ _ rfl hf ⟨gl 24 8 (by decide), gl 32 24 (by decide), gl 56 24 (by decide)⟩]
        simp only [h61, ↓reduceIte]
        by_cases h7 : op = 7
        · subst h7
          simp only [↓reduceIte]
          rw [slw bits 16 27 11 (by decide), slw bits 27 32 5 (by decide), slw bits 32 52 20 (by decide), slw bits 53 55 2 (by decide), slw bits 56 76 20 (by decide), slw bits 77 79 2 (by decide)]
          rw [bi 16 11 (by decide) (by decide), bi 27 5 (by decide) (by decide), bi 32 20 (by decide) (by decide),
            pgetBit bits 52 (by omega)]
          simp only [okb]
          rw [di_from_bits g bits 53 (by omega)]
          cases hldi : eDynamicIdentifier.dec (getField bits 53 2) with
          | error e => rfl
          | ok ldi =>
            simp only [ofE, okb]
            rw [pgetBit bits 55 (by omega), pgetBit bits 79 (by omega)]
            simp only [okb, baOfInts_cons_ofBool, baOfInts_nil]
            rw [ba2int_of_length_pos _ (by simp), bi 56 20 (by decide) (by decide)]
            simp only [okb]
            rw [di_from_bits g bits 77 (by omega)]
            cases hsdi : eDynamicIdentifier.dec (getField bits 77 2) with
            | error e => rfl
            | ok sdi =>
              simp only [ofE, okb]
              rw [init_ct g _ _ _ 7 fid _ _ _ _ ldi _ _ sdi rfl hf (bitsToNat_lt' _ 2 rfl)
                (fun cto hc => ⟨gl 16 11 (by decide), gl 27 5 (by decide), gl 32 20 (by decide),
                  by cases (_root_.Dmr.getBit bits 52) <;> decide, dec_lt _ 2 _ _ di_bd hldi, hc,
                  gl 56 20 (by decide), dec_lt _ 2 _ _ di_bd hsdi⟩)]
              cases eChannelTimingOpcode.dec (bitsToNat [_root_.Dmr.getBit bits 55, _root_.Dmr.getBit bits 79]) <;> rfl
        simp only [h7, ↓reduceIte]
        by_cases h8 : op = 8
        · subst h8
          simp only [↓reduceIte]
          rw [slw bits 16 80 64 (by decide)]
          rw [init_hy g _ _ 8 fid _ _ rfl hf]
        simp only [h8, ↓reduceIte]
        by_cases h40 : op = 40
        · subst h40
          simp only [↓reduceIte]
          rw [slw bits 16 21 5 (by decide), slw bits 36 40 4 (by decide), slw bits 40 56 16 (by decide), slw bits 21 35 14 (by decide), slw bits 56 80 24 (by decide)]
          rw [bi 16 5 (by decide) (by decide)]
          simp only [okb]
          rw [call_field eAnnouncementType 5 at_no (by decide) bits 16 (by omega)]
          cases hat : eAnnouncementType.dec (getField bits 16 5) with
          | error e => rfl
          | ok at' =>
            simp only [ofE, okb]
            rw [pgetBit bits 35 (by omega), bi 36 4 (by decide) (by decide), bi 40 16 (by decide) (by decide)]
            simp only [okb]
            rw [init_bc g _ _ _ 40 fid _ at' _ _ _ rfl hf ⟨dec_lt _ 5 _ _ at_bd hat, gl 36 4 (by decide), gl 40 16 (by decide)⟩]
        simp only [h40, ↓reduceIte]
        by_cases h25 : op = 25
        · subst h25
          simp only [↓reduceIte]
          rw [slw bits 19 22 3 (by decide), slw bits 24 29 5 (by decide), slw bits 29 31 2 (by decide), slw bits 31 35 4 (by decide), slw bits 36 40 4 (by decide), slw bits 40 56 16 (by decide), slw bits 56 80 24 (by decide)]
          rw [pgetBit bits 17 (by omega), pgetBit bits 18 (by omega), bi 19 3 (by decide) (by decide),
            pgetBit bits 22 (by omega), pgetBit bits 23 (by omega), bi 24 5 (by decide) (by decide),
            bi 29 2 (by decide) (by decide), bi 31 4 (by decide) (by decide), pgetBit bits 35 (by omega),
            bi 36 4 (by decide) (by decide), bi 40 16 (by decide) (by decide), bi 56 24 (by decide) (by decide)]
          simp only [okb]
          rw [init_al g _ _ _ _ _ _ _ 25 fid _ _ _ _ _ _ _ _ rfl hf (gl 29 2 (by decide))
            (fun sf hs => ⟨gl 19 3 (by decide), gl 24 5 (by decide), hs, gl 31 4 (by decide), gl 36 4 (by decide),
              gl 40 16 (by decide), gl 56 24 (by decide)⟩)]
          cases eRandomAccessServiceFunction.dec (getField bits 29 2) <;> rfl
        simp only [h25, ↓reduceIte]
        rfl
  · rw [decide_eq_false h, assert_false_bind, if_pos (by omega)]
    rfl
end Dmr.Transl.Csbk
