import DmrVerif.Lemmas.TranslArs

/-!
Equality of the translated `AutomaticRegistrationService.get_payload / as_bytes / __len__ / from_bytes` with `Model/Ars.lean`.
-/

namespace Dmr.Transl.Ars
open Dmr Dmr.Py Dmr.PyBits Dmr.PyObj

theorem ptype_val_lt (t : Dmr.Ars.PduType) : ¬ t.val ≥ 16 := by cases t <;> decide

@[simp] theorem val_devReg : Dmr.Ars.PduType.devReg.val = 0 := by decide
@[simp] theorem val_devDereg : Dmr.Ars.PduType.devDereg.val = 1 := by decide
@[simp] theorem val_userReg : Dmr.Ars.PduType.userReg.val = 5 := by decide
@[simp] theorem val_userDereg : Dmr.Ars.PduType.userDereg.val = 6 := by decide
@[simp] theorem val_userRegResp : Dmr.Ars.PduType.userRegResp.val = 7 := by decide
@[simp] theorem val_query : Dmr.Ars.PduType.query.val = 4 := by decide
@[simp] theorem val_response : Dmr.Ars.PduType.response.val = 15 := by decide

theorem csbk_same : CSBK_ARS_MESSAGE_END = Gen.Ars.csbkEnd := by decide

theorem lv_opt_eq (o : Option Bytes) :
    (match o.map strOf with
     | none => AutomaticRegistrationService.encode_len_val_none modelExt ()
     | some v => AutomaticRegistrationService.encode_len_val_str modelExt v) = ofE id (Dmr.Ars.lv o) := by
  cases o with
  | none => exact lv_none_eq
  | some d => exact lv_str_eq (strOf d)

theorem fh_as_bytes_ok (h : Dmr.Ars.FirstHeader) :
    FirstHeader.as_bytes modelExt (fhObj h)
      = .ok [128 * h.more.toNat + 64 * h.ack.toNat + 32 * h.priority.toNat + 16 * h.ctl.toNat + h.ptype.val] := by
  rw [fh_as_bytes_eq]
  unfold Dmr.Ars.headerByte
  simp [ptype_val_lt]

theorem rrh_part (mo : Bool) (rrh : Option Dmr.Ars.Rrh) :
    (if mo = true then (do
        let x ← unwrap (Option.map rrhObj rrh)
        RegistrationRequestHeader.as_bytes modelExt x) else Except.ok [])
      = ofE id (if mo = true then (match rrh with
          | none => Except.error Tms.Err.attribute
          | some r => Dmr.Ars.rrhBytes r) else Except.ok []) := by
  cases mo
  · rfl
  · cases rrh with
    | none => rfl
    | some r => simp [rrh_as_bytes_eq]

theorem rsh_part (mo : Bool) (hdr : Dmr.Ars.FirstHeader) (rsh : Option Dmr.Ars.Rsh) :
    (if mo = true then (do
        let x ← unwrap (Option.map (rshObj hdr) rsh)
        ResponseSecondHeader.as_bytes modelExt x) else Except.ok [])
      = ofE id (if mo = true then (match rsh with
          | none => Except.error Tms.Err.attribute
          | some r => Dmr.Ars.rshBytes r) else Except.ok []) := by
  cases mo
  · rfl
  · cases rsh with
    | none => rfl
    | some r => simp [rsh_as_bytes_eq]

theorem tail3 (hb : Nat) (csbk : Bool) (R : PyM Bytes) (R' : Except Tms.Err Bytes) (hR : R = ofE id R')
    (x y z : Except Tms.Err Bytes) :
    (do
      let r ← R
      let a ← ofE id x
      let b ← ofE id y
      let c ← ofE id z
      if csbk = true then Except.ok (hb :: (r ++ (a ++ (b ++ (c ++ Gen.Ars.csbkEnd)))))
        else Except.ok (hb :: (r ++ (a ++ (b ++ c))))) =
    ofE id
      (match
        (match R' with
        | Except.error e => Except.error e
        | Except.ok r =>
          match x with
          | Except.error e => Except.error e
          | Except.ok d =>
            match y with
            | Except.error e => Except.error e
            | Except.ok u =>
              match z with
              | Except.error e => Except.error e
              | Except.ok w => Except.ok (r ++ (d ++ (u ++ w)))) with
      | Except.error e => Except.error e
      | Except.ok b => Except.ok (hb :: (b ++ if csbk = true then Gen.Ars.csbkEnd else []))) := by
  subst hR
  cases R' <;> cases x <;> cases y <;> cases z <;> cases csbk <;> simp [ofE]

theorem tail1 (hb : Nat) (csbk : Bool) (R : PyM Bytes) (R' : Except Tms.Err Bytes) (hR : R = ofE id R') :
    (do
      let r ← R
      if csbk = true then Except.ok (hb :: (r ++ Gen.Ars.csbkEnd)) else Except.ok (hb :: r)) =
    ofE id
      (match R' with
      | Except.error e => Except.error e
      | Except.ok b => Except.ok (hb :: (b ++ if csbk = true then Gen.Ars.csbkEnd else []))) := by
  subst hR
  cases R' <;> cases csbk <;> simp [ofE]

/-- `get_payload()` of ANY message of the model (every exception class included) -/
theorem get_payload_eq (m : Dmr.Ars.Msg) :
    AutomaticRegistrationService.get_payload modelExt (arsObj m) = ofE id (Dmr.Ars.payload m) := by
  rcases m with ⟨⟨mo, ak, pr, ct, t⟩, rrh, rsh, dev, usr, pw, csbk⟩
  unfold AutomaticRegistrationService.get_payload Dmr.Ars.payload Dmr.Ars.headerByte
  simp only [arsObj, attr_some, ok_bind, fh_as_bytes_ok, ptype_val_lt, if_false]
  simp only [fhObj, attr_some, ok_bind, csbk_same]
  cases t
  · simp [Dmr.Ars.bodyBytes]
    cases dev <;> cases usr <;> cases pw <;>
      simp only [Option.map_none, Option.map_some, lv_none_eq, lv_str_eq, strOf] <;>
      exact tail3 _ _ _ _ (rrh_part mo rrh) _ _ _
  · simp [Dmr.Ars.bodyBytes]
    cases csbk <;> rfl
  · simp [Dmr.Ars.bodyBytes]
    cases dev <;> cases usr <;> cases pw <;>
      simp only [Option.map_none, Option.map_some, lv_none_eq, lv_str_eq, strOf] <;>
      exact tail3 _ _ _ _ (rrh_part mo rrh) _ _ _
  · simp [Dmr.Ars.bodyBytes]; rfl
  · simp [Dmr.Ars.bodyBytes]; rfl
  · simp [Dmr.Ars.bodyBytes]
    cases csbk <;> rfl
  · simp [Dmr.Ars.bodyBytes]
    exact tail1 _ _ _ _ (rsh_part mo _ rsh)

/-- `as_bytes()` of ANY message of the model -/
theorem as_bytes_eq (m : Dmr.Ars.Msg) :
    AutomaticRegistrationService.as_bytes modelExt (arsObj m) = ofE id (Dmr.Ars.asBytes m) := by
  unfold AutomaticRegistrationService.as_bytes Dmr.Ars.asBytes
  rw [get_payload_eq]
  cases Dmr.Ars.payload m with
  | error e => rfl
  | ok pl =>
    simp only [ofE_ok, id, ok_bind, len_eq, toBytesBig2]
    by_cases h : pl.length < 65536
    · rw [if_pos h, if_neg (by omega)]; rfl
    · rw [if_neg h, if_pos (by omega)]; rfl

/-- `len(message)`: two more than the payload -/
theorem len_eq_payload (m : Dmr.Ars.Msg) :
    AutomaticRegistrationService.len modelExt (arsObj m)
      = ofE (fun pl : Bytes => (pl.length : Int) + 2) (Dmr.Ars.payload m) := by
  unfold AutomaticRegistrationService.len
  rw [get_payload_eq]
  cases Dmr.Ars.payload m with
  | error e => rfl
  | ok pl => rfl

theorem be2 (a b : Nat) : fromBytesBig [a, b] = ((Tms.be [a, b] : Nat) : Int) := by
  simp [fromBytesBig, Tms.be]; omega

/-- `.context(h)` on the object `from_bytes` made -/
theorem context_eq (r : Dmr.Ars.Rsh) (h : Dmr.Ars.FirstHeader) :
    ResponseSecondHeader.context modelExt (rshObj0 r) (fhObj h) = .ok (rshObj h { r with ctx := some h.ack }, ()) := by
  rcases h with ⟨mo, ak, pr, ct, t⟩
  rfl

@[simp] theorem fhObj_ptype (h : Dmr.Ars.FirstHeader) : (fhObj h).pdu_type = some ((h.ptype.val : Nat) : Int) := rfl
@[simp] theorem fhObj_more (h : Dmr.Ars.FirstHeader) : (fhObj h).has_more_headers = some h.more := rfl

/-- the three length-value items, their decoding and the constructor call of a registration message -/
theorem reg_tail (D : Bytes) (idx : Nat) (fh : Dmr.Ars.FirstHeader) (rrh : Option Dmr.Ars.Rrh) (K : Bool) :
    (do
      let x ← AutomaticRegistrationService.read_len_val modelExt D (idx : Int)
      let x1 ← AutomaticRegistrationService.read_len_val modelExt D x.fst
      let x2 ← AutomaticRegistrationService.read_len_val modelExt D x1.fst
      let d ← modelExt.bytes_decode_utf8 x.snd
      let u ← modelExt.bytes_decode_utf8 x1.snd
      let w ← modelExt.bytes_decode_utf8 x2.snd
      AutomaticRegistrationService.init modelExt (fhObj fh) (rrh.map rrhObj) none (some d) (some u) (some w) K)
    = ofE arsObj
      (match Dmr.Ars.readLv D idx with
      | .error e => .error e
      | .ok (i1, d) =>
        match Dmr.Ars.readLv D i1 with
        | .error e => .error e
        | .ok (i2, u) =>
          match Dmr.Ars.readLv D i2 with
          | .error e => .error e
          | .ok (_, w) =>
            if Dmr.Ars.validUtf8 d && Dmr.Ars.validUtf8 u && Dmr.Ars.validUtf8 w then
              .ok ⟨fh, rrh, none, some d, some u, some w, K⟩
            else .error .unicode) := by
  rw [rlv_eq]
  cases Dmr.Ars.readLv D idx with
  | error e => rfl
  | ok p1 =>
    obtain ⟨i1, d⟩ := p1
    simp only [ofE_ok, ok_bind]
    rw [rlv_eq]
    cases Dmr.Ars.readLv D i1 with
    | error e => rfl
    | ok p2 =>
      obtain ⟨i2, u⟩ := p2
      simp only [ofE_ok, ok_bind]
      rw [rlv_eq]
      cases Dmr.Ars.readLv D i2 with
      | error e => rfl
      | ok p3 =>
        obtain ⟨i3, w⟩ := p3
        simp only [ofE_ok, ok_bind, ext_dec]
        cases Dmr.Ars.validUtf8 d <;> cases Dmr.Ars.validUtf8 u <;> cases Dmr.Ars.validUtf8 w <;> rfl

theorem rshOfByte_ack (b : Nat) (ack : Bool) :
    Dmr.Ars.rshOfByte b ack = (Dmr.Ars.rshOfByte b false).map (fun r => { r with ctx := some ack }) := by
  unfold Dmr.Ars.rshOfByte
  cases Dmr.Ars.Failure.ofCode (b % 128) <;> rfl

theorem from_bytes_eq (data : Bytes) (hd : isBytes data) :
    AutomaticRegistrationService.from_bytes modelExt data = ofE arsObj (Dmr.Ars.fromBytes data) := by
  rcases data with _ | ⟨a, _ | ⟨b, _ | ⟨c, rest⟩⟩⟩
  · rfl
  · rfl
  · rfl
  · have hc : c < 256 := hd c (by simp)
    have hrest : isBytes rest := fun x hx => hd x (by simp [hx])
    unfold AutomaticRegistrationService.from_bytes Dmr.Ars.fromBytes
    have s02 : Py.slice (a :: b :: c :: rest) (some 0) (some 2) = [a, b] := by rw [slice_lit_lit]; simp
    have s23 : Py.slice (a :: b :: c :: rest) (some 2) (some 3) = [c] := by rw [slice_lit_lit]; simp
    have t2 : (a :: b :: c :: rest).take 2 = [a, b] := rfl
    have g2 : (a :: b :: c :: rest)[2]? = some c := rfl
    have s34 : Py.slice (a :: b :: c :: rest) (some 3) (some (3 + 1)) = rest.take 1 := by
      rw [show ((3 : Int) + 1) = 4 from rfl, slice_lit_lit]
      cases rest <;> simp
    have g3 : (a :: b :: c :: rest)[3]? = rest[0]? := rfl
    simp only [s02, s23, s34, t2, g2, be2]
    generalize hL : Tms.be [a, b] = L
    have eL : (L : Int) + 2 = ((L + 2 : Nat) : Int) := by push_cast; rfl
    simp only [eL, slice_nat, csbk_same]
    generalize hK : (Tms.slice (a :: b :: c :: rest) L (L + 2) == Gen.Ars.csbkEnd) = K
    generalize hD : a :: b :: c :: rest = D at *
    rw [assert_bind]
    by_cases hA : D.length < 3 ∨ D.length < L
    · have c1 : (decide (len D ≥ 3) && decide (len D ≥ (L : Int))) = false := by
        simp only [len_eq]; rcases hA with h | h <;> simp <;> omega
      have c2 : (decide (D.length < 3) || decide (D.length < L)) = true := by simpa using hA
      rw [c1, c2]; rfl
    · have c1 : (decide (len D ≥ 3) && decide (len D ≥ (L : Int))) = true := by
        simp only [len_eq]; simp; omega
      have c2 : (decide (D.length < 3) || decide (D.length < L)) = false := by simpa using hA
      rw [c1, c2]
      simp only [if_true, Bool.false_eq_true, if_false]
      rw [fh_from_bytes_eq [c] (by intro x hx; simp at hx; subst hx; exact hc)]
      simp only []
      cases hH : Dmr.Ars.headerOfByte c with
      | error e => rfl
      | ok h =>
        rcases h with ⟨mo, ak, pr, ct, t⟩
        simp only [ofE_ok, ok_bind, fhObj_ptype, fhObj_more, attr_some]
        cases t
        · -- DEVICE_REGISTRATION_REQUEST
          rw [if_pos (by decide)]
          simp only [Dmr.Ars.parseRest]
          cases mo
          · simp only [↓reduceIte, Bool.false_eq_true, pure_eq_ok, ok_bind]
            exact reg_tail D 3 _ none K
          · simp only [↓reduceIte, g3]
            cases rest with
            | nil => rfl
            | cons d r' =>
              have hdd : d < 256 := hrest d (by simp)
              rw [show List.take 1 (d :: r') = [d] from rfl,
                rrh_from_bytes_eq [d] (by intro x hx; simp at hx; subst hx; exact hdd)]
              simp only [List.getElem?_cons_zero]
              cases Dmr.Ars.rrhOfByte d with
              | error e => rfl
              | ok rr =>
                simp only [ofE_ok, ok_bind, pure_eq_ok]
                exact reg_tail D 4 _ (some rr) K
        · -- DEVICE_DEREGISTATION_NOTICE
          rw [if_neg (by decide), if_neg (by decide), if_pos (by decide)]
          rfl
        · -- USER_REGISTRATION_REQUEST
          rw [if_pos (by decide)]
          simp only [Dmr.Ars.parseRest]
          cases mo
          · simp only [↓reduceIte, Bool.false_eq_true, pure_eq_ok, ok_bind]
            exact reg_tail D 3 _ none K
          · simp only [↓reduceIte, g3]
            cases rest with
            | nil => rfl
            | cons d r' =>
              have hdd : d < 256 := hrest d (by simp)
              rw [show List.take 1 (d :: r') = [d] from rfl,
                rrh_from_bytes_eq [d] (by intro x hx; simp at hx; subst hx; exact hdd)]
              simp only [List.getElem?_cons_zero]
              cases Dmr.Ars.rrhOfByte d with
              | error e => rfl
              | ok rr =>
                simp only [ofE_ok, ok_bind, pure_eq_ok]
                exact reg_tail D 4 _ (some rr) K
        · -- USER_DEREGISTRATION_REQUEST: "not implemented"
          rw [if_neg (by decide), if_neg (by decide), if_neg (by decide)]
          rfl
        · -- USER_REGISTRATION_RESPONSE: "not implemented"
          rw [if_neg (by decide), if_neg (by decide), if_neg (by decide)]
          rfl
        · -- STATUS_QUERY_REQUEST
          rw [if_neg (by decide), if_neg (by decide), if_pos (by decide)]
          rfl
        · -- ARS_DEVICE_OR_QUERY_RESPONSE
          rw [if_neg (by decide), if_pos (by decide)]
          simp only [Dmr.Ars.parseRest]
          cases mo
          · simp only [↓reduceIte, Bool.false_eq_true, pure_eq_ok, ok_bind]
            rfl
          · simp only [↓reduceIte, g3]
            cases rest with
            | nil => rfl
            | cons d r' =>
              have hdd : d < 256 := hrest d (by simp)
              rw [show List.take 1 (d :: r') = [d] from rfl,
                rsh_from_bytes_eq [d] (by intro x hx; simp at hx; subst hx; exact hdd)]
              simp only [List.getElem?_cons_zero, rshOfByte_ack d ak]
              cases Dmr.Ars.rshOfByte d false with
              | error e => rfl
              | ok r =>
                simp only [ofE_ok, ok_bind, pure_eq_ok, context_eq, fst_ok]
                rfl

end Dmr.Transl.Ars
