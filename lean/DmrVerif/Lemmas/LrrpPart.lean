import DmrVerif.Lemmas.Lrrp

/-!
# Lemmas for C15 (2): one canonical token — `read_document`'s value branch inverts `write_part`
-/

namespace Dmr.Lrrp
open Dmr Dmr.Mbxml

theorem writeAttrs_ids (ids : List Nat) : writeAttrs (ids.map AttrRef.id) = .ok [] := by
  induction ids with
  | nil => rfl
  | cons a t ih => simp [writeAttrs, ih]

/-- the attribute uintvars of an attribute-prefixed token are read back as the same instances -/
theorem readAttrs_writeAttrs (atbl : List AttrTok) : ∀ (ids : List Nat) (as : List AttrRef),
    attrsOk atbl ids as = true →
    ∃ ab, writeAttrs as = .ok ab ∧ ∀ rest, readAttrs atbl ids (ab ++ rest) = .ok (as, rest) := by
  intro ids
  induction ids with
  | nil =>
    intro as h
    cases as with
    | nil => exact ⟨[], rfl, fun rest => rfl⟩
    | cons a t => simp [attrsOk] at h
  | cons i ids ih =>
    intro as h
    cases as with
    | nil => simp [attrsOk] at h
    | cons a t =>
      cases a with
      | id n => simp [attrsOk] at h
      | inst a =>
        simp only [attrsOk, Bool.and_eq_true, beq_iff_eq, decide_eq_true_eq] at h
        obtain ⟨⟨⟨hid, hv⟩, hl⟩, ht⟩ := h
        obtain ⟨ab, hw, hr⟩ := ih t ht
        refine ⟨writeURaw a.value ++ ab, ?_, ?_⟩
        · simp [writeAttrs, writeU_ok hv, hw]
        · intro rest
          cases hla : lookupAttr atbl i with
          | none => simp [hla] at hl
          | some x =>
            have ha : a = ⟨i, a.value⟩ := by cases a; simp_all
            simp only [readAttrs, hla, List.append_assoc, readUL_writeURaw, hr]
            rw [ha]

theorem idByte_small {t : Nat} (h : t < 128) : idByte t = .ok [t] := by
  have : ¬ (t ≥ 256) := by omega
  simp [idByte, this]

/-- decomposition of a canonical one-septet-fraction float -/
theorem dyOk_split {signed : Bool} {d : Dy} (h : dyOk signed d = true) :
    ∃ i f, d = ⟨d.neg, i * 128 + f, 7⟩ ∧ f < 128 ∧ i ≤ (if signed then SINTVAR_MAX else UINTVAR_MAX)
      ∧ (signed = false → d.neg = false) ∧ ¬ (d.neg = true ∧ i * 128 + f = 0) := by
  obtain ⟨neg, num, exp⟩ := d
  simp only [dyOk, Bool.and_eq_true, beq_iff_eq, decide_eq_true_eq, Bool.or_eq_true,
    Bool.not_eq_true', Bool.and_eq_false_iff] at h
  obtain ⟨⟨⟨he, hi⟩, hs⟩, hz⟩ := h
  subst he
  refine ⟨num / 128, num % 128, ?_, Nat.mod_lt _ (by omega), hi, ?_, ?_⟩
  · have : num / 128 * 128 + num % 128 = num := by omega
    simp [this]
  · intro hsf; rcases hs with hs | hs
    · rw [hsf] at hs; exact absurd hs (by decide)
    · exact hs
  · have : num / 128 * 128 + num % 128 = num := by omega
    rw [this]
    intro ⟨h1, h2⟩
    rcases hz with hz | hz
    · have h1' : neg = true := h1
      rw [hz] at h1'; exact absurd h1' (by decide)
    · have : (num == 0) = true := by simp [h2]
      rw [this] at hz; exact absurd hz (by decide)

theorem readValue_write (atbl : List AttrTok) (tc : ElemTok) (p : Part) (hty : p.ty = tc.ty)
    (hlen : p.length = tc.length) (hid : p.tokenId < 128) (h : valueOk atbl tc p = true) :
    ∃ vb, writePart p = .ok (p.tokenId :: vb) ∧
      ∀ rest, readValue atbl tc (vb ++ rest) = .ok (p.attrs, p.value, rest) := by
  obtain ⟨tid, ty, len, attrs, value⟩ := p
  obtain ⟨cid, cname, cty, clen, cattrs⟩ := tc
  simp only at hty hlen hid
  subst hty hlen
  have hidb := idByte_small hid
  cases ty
  case NO_VALUE =>
    cases value <;> simp only [valueOk] at h <;> try (exact absurd h Bool.false_ne_true)
    simp only [beq_iff_eq] at h
    subst h
    exact ⟨[], by simp [writePart, hidb], fun rest => by simp [readValue]⟩
  case UINT8 =>
    cases value <;> simp only [valueOk] at h <;> try (exact absurd h Bool.false_ne_true)
    rename_i n
    simp only [Bool.and_eq_true, decide_eq_true_eq, beq_iff_eq] at h
    obtain ⟨hn, ha⟩ := h
    subst ha
    have : ¬ (n ≥ 256) := by omega
    exact ⟨[n], by simp [writePart, hidb, this], fun rest => by simp [readValue]⟩
  case UINTVAR =>
    cases value <;> simp only [valueOk] at h <;> try (exact absurd h Bool.false_ne_true)
    rename_i n
    simp only [Bool.and_eq_true, decide_eq_true_eq, beq_iff_eq] at h
    obtain ⟨hn, ha⟩ := h
    subst ha
    exact ⟨writeURaw n, by simp [writePart, hidb, writeU_ok hn],
      fun rest => by simp [readValue, readUL_writeURaw]⟩
  case INFO_TIME =>
    cases value <;> simp only [valueOk] at h <;> try (exact absurd h Bool.false_ne_true)
    rename_i b
    simp only [Bool.and_eq_true, beq_iff_eq] at h
    obtain ⟨hb, ha⟩ := h
    subst ha
    exact ⟨b, by simp [writePart, hidb], fun rest => by simp [readValue, takeL_append' 5 b rest hb]⟩
  case UFLOATVAR =>
    cases value <;> simp only [valueOk] at h <;> try (exact absurd h Bool.false_ne_true)
    rename_i d
    simp only [Bool.and_eq_true, beq_iff_eq] at h
    obtain ⟨hd, ha⟩ := h
    subst ha
    obtain ⟨i, f, hde, hf, hi, hneg, _⟩ := dyOk_split hd
    have hn : d.neg = false := hneg rfl
    simp only [Bool.false_eq_true, if_false] at hi
    refine ⟨writeURaw i ++ [f], ?_, fun rest => ?_⟩
    · rw [hde]
      simp [writePart, hidb, hn, writeUF_canonical i f hi hf]
    · rw [hde, hn]
      simp [readValue, readUFL_canonical' i f hi hf]
  case SFLOATVAR =>
    cases value <;> simp only [valueOk] at h <;> try (exact absurd h Bool.false_ne_true)
    rename_i d
    simp only [Bool.and_eq_true, beq_iff_eq] at h
    obtain ⟨hd, ha⟩ := h
    subst ha
    obtain ⟨i, f, hde, hf, hi, _, hz⟩ := dyOk_split hd
    simp only [if_true] at hi
    refine ⟨writeSRaw i d.neg ++ [f], ?_, fun rest => ?_⟩
    · rw [hde]
      simp [writePart, hidb, writeSF_canonical d.neg i f hi hf hz]
    · rw [hde]
      simp [readValue, readSFL_canonical' d.neg i f hi hf]
  case CIRCLE_2D =>
    cases value <;> simp only [valueOk] at h <;> try (exact absurd h Bool.false_ne_true)
    rename_i la lo d
    simp only [Bool.and_eq_true, beq_iff_eq] at h
    obtain ⟨⟨⟨hla, hlo⟩, hd⟩, ha⟩ := h
    subst ha
    obtain ⟨i, f, hde, hf, hi, hneg, _⟩ := dyOk_split hd
    have hn : d.neg = false := hneg rfl
    simp only [Bool.false_eq_true, if_false] at hi
    refine ⟨la ++ lo ++ (writeURaw i ++ [f]), ?_, fun rest => ?_⟩
    · rw [hde]
      simp [writePart, hidb, hn, writeUF_canonical i f hi hf]
    · rw [hde, hn]
      simp [readValue, takeL_append' 4 la _ hla, takeL_append' 4 lo _ hlo, readUFL_canonical' i f hi hf]
  case POINT_2D =>
    cases value <;> simp only [valueOk] at h <;> try (exact absurd h Bool.false_ne_true)
    rename_i la lo
    simp only [Bool.and_eq_true, beq_iff_eq] at h
    obtain ⟨⟨hla, hlo⟩, ha⟩ := h
    subst ha
    refine ⟨la ++ lo, by simp [writePart, hidb], fun rest => ?_⟩
    simp [readValue, takeL_append' 4 la _ hla, takeL_append' 4 lo _ hlo]
  case POINT_3D =>
    cases value <;> simp only [valueOk] at h <;> try (exact absurd h Bool.false_ne_true)
    rename_i la lo d
    simp only [Bool.and_eq_true, beq_iff_eq] at h
    obtain ⟨⟨⟨hla, hlo⟩, hd⟩, ha⟩ := h
    subst ha
    obtain ⟨i, f, hde, hf, hi, _, hz⟩ := dyOk_split hd
    simp only [if_true] at hi
    refine ⟨la ++ lo ++ (writeSRaw i d.neg ++ [f]), ?_, fun rest => ?_⟩
    · rw [hde]
      simp [writePart, hidb, writeSF_canonical d.neg i f hi hf hz]
    · rw [hde]
      simp [readValue, takeL_append' 4 la _ hla, takeL_append' 4 lo _ hlo, readSFL_canonical' d.neg i f hi hf]
  case OPAQUE_I =>
    cases value <;> simp only [valueOk] at h <;> try (exact absurd h Bool.false_ne_true)
    rename_i b
    cases len with
    | some n =>
      cases n with
      | zero =>
        simp only [Bool.and_eq_true, beq_iff_eq] at h
        obtain ⟨hb, ha⟩ := h
        subst ha hb
        refine ⟨[], ?_, fun rest => by simp [readValue]⟩
        simp [writePart, hidb, writeAttrs_ids]
      | succ n =>
        simp only [Bool.and_eq_true, beq_iff_eq] at h
        obtain ⟨hb, ha⟩ := h
        subst ha
        refine ⟨b, by simp [writePart, hidb], fun rest => ?_⟩
        simp [readValue, takeL_append' (n + 1) b rest hb]
    | none =>
      simp only [Bool.and_eq_true, decide_eq_true_eq] at h
      obtain ⟨hb, ha⟩ := h
      by_cases he : cattrs.isEmpty = true
      · simp only [he, if_true, beq_iff_eq] at ha
        subst ha
        refine ⟨writeURaw b.length ++ b, ?_, fun rest => ?_⟩
        · simp [writePart, hidb, writeAttrs_ids, writeU_ok hb]
        · simp [readValue, he, readOpaqueL_ser]
      · simp only [he, Bool.false_eq_true, if_false] at ha
        obtain ⟨ab, hw, hr⟩ := readAttrs_writeAttrs atbl cattrs attrs ha
        refine ⟨ab ++ (writeURaw b.length ++ b), ?_, fun rest => ?_⟩
        · simp [writePart, hidb, hw, writeU_ok hb]
        · simp [readValue, he, hr, readOpaqueL_ser]
  all_goals (cases value <;> simp [valueOk] at h)


/-- one canonical part: what `write_part` writes, `read_document`'s loop body reads back, leaving the rest -/
theorem readToken_writePart (etbl : List ElemTok) (atbl : List AttrTok) (p : Part)
    (h : partOk etbl atbl p = true) :
    ∃ bs, writePart p = .ok bs ∧ bs ≠ [] ∧ ∀ rest, readToken etbl atbl (bs ++ rest) = .ok (p, rest) := by
  unfold partOk at h
  cases hl : lookupElem etbl p.tokenId with
  | none => simp [hl] at h
  | some tc =>
    simp only [hl, Bool.and_eq_true, decide_eq_true_eq, beq_iff_eq] at h
    obtain ⟨⟨⟨hid, hty⟩, hlen⟩, hv⟩ := h
    obtain ⟨vb, hw, hr⟩ := readValue_write atbl tc p hty hlen hid hv
    refine ⟨p.tokenId :: vb, hw, by simp, fun rest => ?_⟩
    simp only [readToken, List.cons_append, readUL_small _ _ hid, hl, hr]
    congr 2
    obtain ⟨tid, ty, len, attrs, value⟩ := p
    simp only at hty hlen
    subst hty hlen
    rfl

/-- the canonical parts of a document body, written and read back to the end of the body -/
theorem readTokens_writeParts (etbl : List ElemTok) (atbl : List AttrTok) : ∀ (ps : List Part),
    ps.all (partOk etbl atbl) = true →
    ∃ bs, writeParts ps = .ok bs ∧ ∀ fuel, bs.length ≤ fuel → readTokens etbl atbl fuel bs = .ok ps := by
  intro ps
  induction ps with
  | nil => intro _; exact ⟨[], rfl, fun fuel _ => by cases fuel <;> rfl⟩
  | cons p ps ih =>
    intro h
    simp only [List.all_cons, Bool.and_eq_true] at h
    obtain ⟨b, hw, hne, hr⟩ := readToken_writePart etbl atbl p h.1
    obtain ⟨bs, hws, hrs⟩ := ih h.2
    refine ⟨b ++ bs, by simp [writeParts, hw, hws], fun fuel hf => ?_⟩
    cases hb : b with
    | nil => exact absurd hb hne
    | cons x t =>
      rw [hb] at hr hf
      simp only [List.cons_append, List.length_cons, List.length_append] at hf ⊢
      cases fuel with
      | zero => omega
      | succ f =>
        have := hr bs
        simp only [List.cons_append] at this
        simp only [readTokens, this, hrs f (by omega)]

end Dmr.Lrrp
