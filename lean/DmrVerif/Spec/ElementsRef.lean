import DmrVerif.Model.Elem

/-!
Pinned reference of the information-element enumerations (ETSI TS 102 361-1 §9.3, -2 §7.2, -4 §7.2).
Hand-maintained: written once by `tools/mk_elements_ref.py` from the reviewed tree (/repo 160c61b), then reviewed
member by member; it changes only by hand.  Per element: name, bit width, the defined member values in
declaration order, and what an undefined value of that width does (`fold`): `.member r` = folded onto the
reserved member `r`, `.valueError` = rejected, `.nothing` is never acceptable; `mixed` lists the exceptions
-/

namespace Dmr.Spec
open Dmr

structure ElemRef where
  name : String
  w : Nat
  members : List Nat
  /-- outcome of every undefined value except those listed in `mixed` -/
  fold : ElemRes
  /-- undefined values with another outcome than `fold` -/
  mixed : List (Nat × ElemRes)
deriving DecidableEq, Repr

/-- `access_types.AccessTypes`: InboundChannelIdle=0, InboundChannelBusy=1 -/
def rAccessTypes : ElemRef := ⟨"AccessTypes", 1, [0, 1], .valueError, []⟩

/-- `csbk_opcodes.CsbkOpcodes`: HyteraIPSCSync=8, UnitToUnitVoiceServiceRequest=4, UnitToUnitVoiceServiceAnswerResponse=5, ChannelTimingCSBK=7, NegativeAcknowledgementResponse=38, BSOutboundActivation=56, PreambleCSBK=61, PrivateVoiceChannelGrant=48, TalkgroupVoiceChannelGrant=49, PrivateBroadcastVoiceChannelGrant=50, PrivateDataChannelGrantSingleItem=51, TalkgroupDataChannelGrantSingleItem=52, DuplexPrivateVoiceChannelGrant=53, DuplexPrivateDataChannelGrant=54, PrivateDataChannelGrantMultiItem=55, MovePDUs=57, AlohaPDUsForRandomAccessProtocol=25, AnnouncementPDUsWithoutResponse=40, Clear=46, Protect=47, Ahoy=28, AcknowledgementResponseOutboundTSCC=32, AcknowledgementResponseInboundTSCC=33, AcknowledgementResponseOutboundPayload=34, AcknowledgementResponseInboundPayload=35, UnifiedDataTransportOutboundHeader=26, UnifiedDataTransportInboundHeader=27, UnifiedDataTransportForDGNAOutboundHeader=36, UnifiedDataTransportForDGNAInboundHeader=37, RandomAccessServiceRequest=31, AckvitationPDU=30, Maintenance=42 -/
def rCsbkOpcodes : ElemRef := ⟨"CsbkOpcodes", 6, [8, 4, 5, 7, 38, 56, 61, 48, 49, 50, 51, 52, 53, 54, 55, 57, 25, 40, 46, 47, 28, 32, 33, 34, 35, 26, 27, 36, 37, 31, 30, 42], .valueError, []⟩

/-- `data_packet_formats.DataPacketFormats`: UnifiedDataTransport=0, ResponsePacket=1, DataPacketUnconfirmed=2, DataPacketConfirmed=3, Reserved=12, ShortDataDefined=13, ShortDataRawOrStatusPrecoded=14, ProprietaryDataPacket=15 -/
def rDataPacketFormats : ElemRef := ⟨"DataPacketFormats", 4, [0, 1, 2, 3, 12, 13, 14, 15], (.member 12), []⟩

/-- `data_types.DataTypes`: PIHeader=0, VoiceLCHeader=1, TerminatorWithLC=2, CSBK=3, MBCHeader=4, MBCContinuation=5, DataHeader=6, Rate12Data=7, Rate34Data=8, Idle=9, Rate1Data=10, UnifiedSingleBlockData=11, Reserved=12 -/
def rDataTypes : ElemRef := ⟨"DataTypes", 4, [0, 1, 2, 3, 4, 5, 6, 7, 8, 9, 10, 11, 12], (.member 12), []⟩

/-- `defined_data_formats.DefinedDataFormats`: Binary=0, BCD=1, Charset7bit=2, CharsetISO_8859_1=3, CharsetISO_8859_2=4, CharsetISO_8859_3=5, CharsetISO_8859_4=6, CharsetISO_8859_5=7, CharsetISO_8859_6=8, CharsetISO_8859_7=9, CharsetISO_8859_8=10, CharsetISO_8859_9=11, CharsetISO_8859_10=12, CharsetISO_8859_11=13, CharsetISO_8859_13=14, CharsetISO_8859_14=15, CharsetISO_8859_15=16, CharsetISO_8859_16=17, CharsetUTF8=18, CharsetUTF16=19, CharsetUTF16_BE=20, CharsetUTF16_LE=21, CharsetUTF32=22, CharsetUTF32_BE=23, CharsetUTF32_LE=24, Reserved=63 -/
def rDefinedDataFormats : ElemRef := ⟨"DefinedDataFormats", 6, [0, 1, 2, 3, 4, 5, 6, 7, 8, 9, 10, 11, 12, 13, 14, 15, 16, 17, 18, 19, 20, 21, 22, 23, 24, 63], (.member 63), []⟩

/-- `feature_set_ids.FeatureSetIDs`: StandardizedFID=0, ReservedForFutureStandardization=1, FlydeMicroLtd=4, ProdElSpa=5, TridentMicroSystems=6, RadiodataGmbh=7, HytScienceTech=8, AselsanElektronik=9, KirisunCommunications=10, DmrAssociationLtd=11, MotorolaLtd=16, ElectronicMarketingCompany=19, ElectronicMarketingCompany2=28, JvcKenwood=32, RadioActivity=51, RadioActivity2=60, TaitElectronicsLtd=88, HytScienceTech2=104, VertexStandard=119, ReservedForFutureMFID=128 -/
def rFeatureSetIDs : ElemRef := ⟨"FeatureSetIDs", 8, [0, 1, 4, 5, 6, 7, 8, 9, 10, 11, 16, 19, 28, 32, 51, 60, 88, 104, 119, 128], (.member 128), [(2, .member 1), (3, .member 1), (12, .member 4), (13, .member 4), (14, .member 4), (15, .member 4), (17, .member 4), (18, .member 4), (20, .member 4), (21, .member 4), (22, .member 4), (23, .member 4), (24, .member 4), (25, .member 4), (26, .member 4), (27, .member 4), (29, .member 4), (30, .member 4), (31, .member 4), (33, .member 4), (34, .member 4), (35, .member 4), (36, .member 4), (37, .member 4), (38, .member 4), (39, .member 4), (40, .member 4), (41, .member 4), (42, .member 4), (43, .member 4), (44, .member 4), (45, .member 4), (46, .member 4), (47, .member 4), (48, .member 4), (49, .member 4), (50, .member 4), (52, .member 4), (53, .member 4), (54, .member 4), (55, .member 4), (56, .member 4), (57, .member 4), (58, .member 4), (59, .member 4), (61, .member 4), (62, .member 4), (63, .member 4), (64, .member 4), (65, .member 4), (66, .member 4), (67, .member 4), (68, .member 4), (69, .member 4), (70, .member 4), (71, .member 4), (72, .member 4), (73, .member 4), (74, .member 4), (75, .member 4), (76, .member 4), (77, .member 4), (78, .member 4), (79, .member 4), (80, .member 4), (81, .member 4), (82, .member 4), (83, .member 4), (84, .member 4), (85, .member 4), (86, .member 4), (87, .member 4), (89, .member 4), (90, .member 4), (91, .member 4), (92, .member 4), (93, .member 4), (94, .member 4), (95, .member 4), (96, .member 4), (97, .member 4), (98, .member 4), (99, .member 4), (100, .member 4), (101, .member 4), (102, .member 4), (103, .member 4), (105, .member 4), (106, .member 4), (107, .member 4), (108, .member 4), (109, .member 4), (110, .member 4), (111, .member 4), (112, .member 4), (113, .member 4), (114, .member 4), (115, .member 4), (116, .member 4), (117, .member 4), (118, .member 4), (120, .member 4), (121, .member 4), (122, .member 4), (123, .member 4), (124, .member 4), (125, .member 4), (126, .member 4), (127, .member 4)]⟩

/-- `flcos.FLCOs`: GroupVoiceChannelUser=0, UnitToUnitVoiceChannelUser=3, TalkerAliasHeader=4, TalkerAliasBlock1=5, TalkerAliasBlock2=6, TalkerAliasBlock3=7, GPSInfo=8, TerminatorDataLinkControl=48 -/
def rFLCOs : ElemRef := ⟨"FLCOs", 6, [0, 3, 4, 5, 6, 7, 8, 48], .valueError, []⟩

/-- `full_message_flag.FullMessageFlag`: FirstTryToCompletePacket=1, SubsequentTry=0 -/
def rFullMessageFlag : ElemRef := ⟨"FullMessageFlag", 1, [1, 0], .valueError, []⟩

/-- `lcss.LCSS`: SingleFragmentLCorCSBK=0, FirstFragmentLC=1, LastFragmentLCorCSBK=2, ContinuationFragmentLCorCSBK=3 -/
def rLCSS : ElemRef := ⟨"LCSS", 2, [0, 1, 2, 3], .valueError, []⟩

/-- `preemption_power_indicator.PreemptionPowerIndicator`: CarriesSameChannelOrNullEmbeddedMessage=0, CarriesReverseChannelInformation=1 -/
def rPreemptionPowerIndicator : ElemRef := ⟨"PreemptionPowerIndicator", 1, [0, 1], .valueError, []⟩

/-- `resynchronize_flag.ResynchronizeFlag`: DoNotSync=0, SyncSeqNumberWithDataHeader=1 -/
def rResynchronizeFlag : ElemRef := ⟨"ResynchronizeFlag", 1, [0, 1], .valueError, []⟩

/-- `sap_identifier.SAPIdentifier`: UDT=0, TCP_IP_compression=2, UDP_IP_compression=3, IP_PacketData=4, ARP=5, Proprietary=9, ShortData=10, Reserved=15 -/
def rSAPIdentifier : ElemRef := ⟨"SAPIdentifier", 4, [0, 2, 3, 4, 5, 9, 10, 15], (.member 15), []⟩

/-- `sarq.SARQ`: NotRequired=0, Required=1 -/
def rSARQ : ElemRef := ⟨"SARQ", 1, [0, 1], .valueError, []⟩

/-- `slcos.SLCOs`: NullMessage=0, ActivityUpdate=1, ControlChannelSystemParams=2, PayloadChannelSystemParams=3, Reserved=4, ManufacturerSelectable=12 -/
def rSLCOs : ElemRef := ⟨"SLCOs", 4, [0, 1, 2, 3, 4, 12], (.member 4), [(13, .member 12), (14, .member 12), (15, .member 12)]⟩

/-- `supplementary_flag.SupplementaryFlag`: ShortData=0, SupplementaryData=1 -/
def rSupplementaryFlag : ElemRef := ⟨"SupplementaryFlag", 1, [0, 1], .valueError, []⟩

/-- `udt_format.UDTFormat`: Binary=0, AddressMSorTG=1, BCD4bit=2, ISO7bit=3, ISO8bit=4, LocationNMEA=5, AddressIP=6, Unicode16bit=7, ManufacturerSpecific=8, Mixed=10, Reserved=15 -/
def rUDTFormat : ElemRef := ⟨"UDTFormat", 4, [0, 1, 2, 3, 4, 5, 6, 7, 8, 10, 15], (.member 15), [(9, .member 8)]⟩

/-- `activity_id.ActivityID`: NoActivity=0, Reserved=1, GroupCSBK=2, IndividualCSBK=3, GroupVoice=8, IndividualVoice=9, IndividualData=10, GroupData=11, EmergencyGroupVoice=12, EmergencyIndividualVoice=13 -/
def rActivityID : ElemRef := ⟨"ActivityID", 4, [0, 1, 2, 3, 8, 9, 10, 11, 12, 13], (.member 1), []⟩

/-- `additional_information_field.AdditionalInformationField`: Ignore=0, Valid=1 -/
def rAdditionalInformationField : ElemRef := ⟨"AdditionalInformationField", 1, [0, 1], .valueError, []⟩

/-- `announcement_type.AnnouncementType`: AnnounceOrWithdrawTSCC=0, SpecifyCallTimers=1, VoteNowAdvice=2, LocalTime=3, BroadcastMassRegistration=4, LogicalPhysicalChannelRelationship=5, AdjacentSiteInformation=6, GeneralSiteParams=7, Reserved=8, ManufacturerSpecific=30 -/
def rAnnouncementType : ElemRef := ⟨"AnnouncementType", 5, [0, 1, 2, 3, 4, 5, 6, 7, 8, 30], (.member 8), [(31, .member 30)]⟩

/-- `answer_response.AnswerResponse`: Proceed=32, Deny=33 -/
def rAnswerResponse : ElemRef := ⟨"AnswerResponse", 8, [32, 33], .valueError, []⟩

/-- `channel_timing_opcode.ChannelTimingOpcode`: UnalignedRequest=0, UnalignedTerminator=1, AlignedChannelTimingStatus=2, AlignedChannelTimingPush=3 -/
def rChannelTimingOpcode : ElemRef := ⟨"ChannelTimingOpcode", 2, [0, 1, 2, 3], .valueError, []⟩

/-- `dynamic_identifier.DynamicIdentifier`: InitialUnknown=0, LeaderPreferenceLow=1, LeaderPreferenceMedium=2, LeaderPreferenceHigh=3 -/
def rDynamicIdentifier : ElemRef := ⟨"DynamicIdentifier", 2, [0, 1, 2, 3], .valueError, []⟩

/-- `ip_address_identifier.IPAddressIdentifier`: RadioNetwork=0, USBEthernetInterfaceNetwork=1, Reserved=2, ManufacturerSpecific=12 -/
def rIPAddressIdentifier : ElemRef := ⟨"IPAddressIdentifier", 4, [0, 1, 2, 12], (.member 2), [(13, .member 12), (14, .member 12), (15, .member 12)]⟩

/-- `position_error.PositionError`: LessThan2m=0, LessThan20m=1, LessThan200m=2, LessThan2km=3, LessThan20km=4, LessThan200km=5, MoreThan200km=6, PositionErrorNotKnown=7 -/
def rPositionError : ElemRef := ⟨"PositionError", 3, [0, 1, 2, 3, 4, 5, 6, 7], .valueError, []⟩

/-- `random_access_service_function.RandomAccessServiceFunction`: ALL_SERVICES=0, REGISTRATION_AND_PAYLOAD_CHANNEL=1, REGISTRATION_WITHOUT_PAYLOAD_CHANNEL=2, REGISTRATION_ONLY=3 -/
def rRandomAccessServiceFunction : ElemRef := ⟨"RandomAccessServiceFunction", 2, [0, 1, 2, 3], .valueError, []⟩

/-- `reason_code.ReasonCode`: MSDoesNotSupportThisFeatureOrService=33 -/
def rReasonCode : ElemRef := ⟨"ReasonCode", 8, [33], .valueError, []⟩

/-- `source_type.SourceType`: BSSourced=0, MSSourced=1 -/
def rSourceType : ElemRef := ⟨"SourceType", 1, [0, 1], .valueError, []⟩

/-- `talker_alias_data_format.TalkerAliasDataFormat`: SevenBitCharacters=0, ISOEightBitCharacters=1, UnicodeUTF8=2, UnicodeUTF16LE=3 -/
def rTalkerAliasDataFormat : ElemRef := ⟨"TalkerAliasDataFormat", 2, [0, 1, 2, 3], .valueError, []⟩

/-- `udp_port_identifier.UDPPortIdentifier`: InExtendedHeader=0, UTF16BE_TextMessage=1, LocationInterfaceProtocol=2, Reserved=3, ManufacturerSpecific=95 -/
def rUDPPortIdentifier : ElemRef := ⟨"UDPPortIdentifier", 7, [0, 1, 2, 3, 95], (.member 3), [(96, .member 95), (97, .member 95), (98, .member 95), (99, .member 95), (100, .member 95), (101, .member 95), (102, .member 95), (103, .member 95), (104, .member 95), (105, .member 95), (106, .member 95), (107, .member 95), (108, .member 95), (109, .member 95), (110, .member 95), (111, .member 95), (112, .member 95), (113, .member 95), (114, .member 95), (115, .member 95), (116, .member 95), (117, .member 95), (118, .member 95), (119, .member 95), (120, .member 95), (121, .member 95), (122, .member 95), (123, .member 95), (124, .member 95), (125, .member 95), (126, .member 95), (127, .member 95)]⟩

/-- `udt_option_flag.UDTOptionFlag`: OACSU=0, FOACSU=1 -/
def rUDTOptionFlag : ElemRef := ⟨"UDTOptionFlag", 1, [0, 1], .valueError, []⟩

/-- `fragment_sequence_number.FragmentSequenceNumber` (361-1 §9.3.36): a plain 4-bit value, every value defined;
`0000` = single fragment, `1xxx` = last fragment (`fsnIsLastRef`) -/
def rFragmentSequenceNumber : ElemRef := ⟨"FragmentSequenceNumber", 4, [0, 1, 2, 3, 4, 5, 6, 7, 8, 9, 10, 11, 12, 13, 14, 15], .valueError, []⟩

/-- `FragmentSequenceNumber(v).is_last()`: single fragment (0) or most significant bit set -/
def fsnIsLastRef : List Bool := (List.range 16).map fun v => v == 0 || 8 ≤ v

/-- octets of user data per rate ½ / ¾ / 1 block (361-1 §9.2.2 ff.): unconfirmed, confirmed (− 2: serial number + CRC-9),
unconfirmed last (− 4: CRC-32), confirmed last (− 6), undefined -/
def rateLensRef : List (List Nat) := [[12, 10, 8, 6, 0], [18, 16, 14, 12, 0], [24, 22, 20, 18, 0]]

def elementsRef : List ElemRef := [rAccessTypes, rCsbkOpcodes, rDataPacketFormats, rDataTypes, rDefinedDataFormats, rFeatureSetIDs, rFLCOs, rFullMessageFlag, rLCSS, rPreemptionPowerIndicator, rResynchronizeFlag, rSAPIdentifier, rSARQ, rSLCOs, rSupplementaryFlag, rUDTFormat, rActivityID, rAdditionalInformationField, rAnnouncementType, rAnswerResponse, rChannelTimingOpcode, rDynamicIdentifier, rIPAddressIdentifier, rPositionError, rRandomAccessServiceFunction, rReasonCode, rSourceType, rTalkerAliasDataFormat, rUDPPortIdentifier, rUDTOptionFlag, rFragmentSequenceNumber]

end Dmr.Spec
