/-!
Reference copy of the generator matrices of ETSI TS 102 361-1 V2.5.1 Annex B.3.1–B.3.5 (hand-maintained
specification, NOT generated from /repo): Golay(20,8,7), QR(16,7,6), Hamming(17,12,3), (13,9,3), (15,11,3),
(16,11,4), (7,4,3).  `Props/C06.lean` proves that the matrices extracted from /repo on this run equal these;
the minimum-distance theorems corroborate the transcription (a wrong entry would almost surely lower a distance).
-/

namespace Dmr.Spec

def h743G : List (List Bool) := [
    [true, false, false, false, true, false, true],
    [false, true, false, false, true, true, true],
    [false, false, true, false, true, true, false],
    [false, false, false, true, false, true, true]]

def h1393G : List (List Bool) := [
    [true, false, false, false, false, false, false, false, false, true, true, true, true],
    [false, true, false, false, false, false, false, false, false, true, true, true, false],
    [false, false, true, false, false, false, false, false, false, false, true, true, true],
    [false, false, false, true, false, false, false, false, false, true, false, true, false],
    [false, false, false, false, true, false, false, false, false, false, true, false, true],
    [false, false, false, false, false, true, false, false, false, true, false, true, true],
    [false, false, false, false, false, false, true, false, false, true, true, false, false],
    [false, false, false, false, false, false, false, true, false, false, true, true, false],
    [false, false, false, false, false, false, false, false, true, false, false, true, true]]

def h15113G : List (List Bool) := [
    [true, false, false, false, false, false, false, false, false, false, false, true, false, false, true],
    [false, true, false, false, false, false, false, false, false, false, false, true, true, false, true],
    [false, false, true, false, false, false, false, false, false, false, false, true, true, true, true],
    [false, false, false, true, false, false, false, false, false, false, false, true, true, true, false],
    [false, false, false, false, true, false, false, false, false, false, false, false, true, true, true],
    [false, false, false, false, false, true, false, false, false, false, false, true, false, true, false],
    [false, false, false, false, false, false, true, false, false, false, false, false, true, false, true],
    [false, false, false, false, false, false, false, true, false, false, false, true, false, true, true],
    [false, false, false, false, false, false, false, false, true, false, false, true, true, false, false],
    [false, false, false, false, false, false, false, false, false, true, false, false, true, true, false],
    [false, false, false, false, false, false, false, false, false, false, true, false, false, true, true]]

def h16114G : List (List Bool) := [
    [true, false, false, false, false, false, false, false, false, false, false, true, false, false, true, true],
    [false, true, false, false, false, false, false, false, false, false, false, true, true, false, true, false],
    [false, false, true, false, false, false, false, false, false, false, false, true, true, true, true, true],
    [false, false, false, true, false, false, false, false, false, false, false, true, true, true, false, false],
    [false, false, false, false, true, false, false, false, false, false, false, false, true, true, true, false],
    [false, false, false, false, false, true, false, false, false, false, false, true, false, true, false, true],
    [false, false, false, false, false, false, true, false, false, false, false, false, true, false, true, true],
    [false, false, false, false, false, false, false, true, false, false, false, true, false, true, true, false],
    [false, false, false, false, false, false, false, false, true, false, false, true, true, false, false, true],
    [false, false, false, false, false, false, false, false, false, true, false, false, true, true, false, true],
    [false, false, false, false, false, false, false, false, false, false, true, false, false, true, true, true]]

def h17123G : List (List Bool) := [
    [true, false, false, false, false, false, false, false, false, false, false, false, true, true, false, true, true],
    [false, true, false, false, false, false, false, false, false, false, false, false, true, true, true, true, true],
    [false, false, true, false, false, false, false, false, false, false, false, false, true, true, true, false, true],
    [false, false, false, true, false, false, false, false, false, false, false, false, true, true, true, false, false],
    [false, false, false, false, true, false, false, false, false, false, false, false, false, true, true, true, false],
    [false, false, false, false, false, true, false, false, false, false, false, false, false, false, true, true, true],
    [false, false, false, false, false, false, true, false, false, false, false, false, true, false, false, false, true],
    [false, false, false, false, false, false, false, true, false, false, false, false, true, true, false, true, false],
    [false, false, false, false, false, false, false, false, true, false, false, false, false, true, true, false, true],
    [false, false, false, false, false, false, false, false, false, true, false, false, true, false, true, false, false],
    [false, false, false, false, false, false, false, false, false, false, true, false, false, true, false, true, false],
    [false, false, false, false, false, false, false, false, false, false, false, true, false, false, true, false, true]]

def golay2087G : List (List Bool) := [
    [true, false, false, false, false, false, false, false, false, false, true, true, true, true, false, true, true, false, true, false],
    [false, true, false, false, false, false, false, false, true, true, false, true, true, false, false, true, true, false, false, true],
    [false, false, true, false, false, false, false, false, false, true, true, false, true, true, false, false, true, true, false, true],
    [false, false, false, true, false, false, false, false, false, false, true, true, false, true, true, false, false, true, true, true],
    [false, false, false, false, true, false, false, false, true, true, false, true, true, true, false, false, false, true, true, false],
    [false, false, false, false, false, true, false, false, true, false, true, false, true, false, false, true, false, true, true, true],
    [false, false, false, false, false, false, true, false, true, false, false, true, false, false, true, true, true, true, true, false],
    [false, false, false, false, false, false, false, true, true, false, false, false, true, true, true, false, true, false, true, true]]

def qr1676G : List (List Bool) := [
    [true, false, false, false, false, false, false, false, false, true, false, false, true, true, true, true],
    [false, true, false, false, false, false, false, true, false, false, false, true, true, true, true, false],
    [false, false, true, false, false, false, false, true, true, false, true, true, false, true, true, true],
    [false, false, false, true, false, false, false, true, true, true, true, false, false, false, true, false],
    [false, false, false, false, true, false, false, true, true, true, false, false, true, false, false, true],
    [false, false, false, false, false, true, false, false, true, true, true, false, false, true, false, true],
    [false, false, false, false, false, false, true, false, false, true, true, true, false, false, true, true]]

end Dmr.Spec
