import DmrVerif.Model.Fragment
import DmrVerif.Driver.Tracker

/-!
Line-protocol operations for the transmission generator (C07).  The receiver side is the tracker of C08
(`t.init`, `t.burst`, `t.state` of `Driver/Tracker.lean`), threaded through the same driver.

```
frag.count <r12|r34|r1> <conf 0|1> <len>        -> <blocks> <pad>
frag.full  <rate> <k> <cc> <payload hex> <crc32 field> <crc9 table> <hdr btf> <hdr a> <hdr sap> <hdr hex>
           <hdr poc> <csbk table>                -> the generated bursts as tracker symbols, `;`-separated
```
frag.crc9ok <rate> <last 0|1> <info hex> <calculated crc9>  -> 1 | 0   (`crc9_ok` of the block read as confirmed)
crc9 table: `-` or `,`-separated `<data hex>:<crc32 field>:<crc9>`; csbk table: `-` or `<btf>:<hex>,…`.
The checksums are abstract in the model, so their values on the arguments that occur are inputs.
-/

namespace Dmr.Driver
open Dmr Dmr.Tracker Dmr.Fragment

def rateOf : String → Option Rate
  | "r12" => some .r12 | "r34" => some .r34 | "r1" => some .r1 | _ => none

def rateTok : Rate → String
  | .r12 => "r12" | .r34 => "r34" | .r1 => "r1"

def ccTok : Option Nat → String
  | some c => toString c | none => "-"

/-- inverse of `symbolOf` -/
def symStr (b : AbsBurst) : String :=
  match b.payload with
  | .voiceHeader raw => "vh " ++ bytesToHex' raw ++ " " ++ ccTok b.cc
  | .terminator raw => "tm " ++ bytesToHex' raw ++ " " ++ ccTok b.cc
  | .dataHeader h =>
    "dh " ++ ccTok h.btf ++ " " ++ (if h.a then "1" else "0") ++ " " ++ toString h.sap ++ " "
      ++ bytesToHex' h.raw ++ " " ++ ccTok b.cc
  | .csbk p btf raw =>
    "cs " ++ (if p then "1" else "0") ++ " " ++ toString btf ++ " " ++ bytesToHex' raw ++ " " ++ ccTok b.cc
  | .rate r bits => rateTok r ++ " " ++ bytesToHex' (bitsToBytes bits) ++ " " ++ ccTok b.cc
  | .other => "ot " ++ ccTok b.cc
  | .voice true => "vs"
  | .voice false => "ve " ++ ccTok b.cc

def parseCrc9Tab (s : String) : Option (List (Bytes × Nat × Nat)) :=
  if s == "-" then some [] else
  (s.splitOn ",").mapM fun e =>
    match e.splitOn ":" with
    | [d, c32, c9] => do
      let d ← hexToBytes d; let c32 ← c32.toNat?; let c9 ← c9.toNat?
      pure (d, c32, c9)
    | _ => none

def parseCsbkTab (s : String) : Option (List (Nat × Bytes)) :=
  if s == "-" then some [] else
  (s.splitOn ",").mapM fun e =>
    match e.splitOn ":" with
    | [b, h] => do
      let b ← b.toNat?; let h ← hexToBytes h
      pure (b, h)
    | _ => none

def fragOp (op : String) (args : List String) : Option String :=
  match op, args with
  | "frag.count", [r, c, len] => do
    let r ← rateOf r; let c ← flag c; let len ← len.toNat?
    let (per, last) := octets r c
    some (toString (numBlocks per last len) ++ " " ++ toString (padCount per last len))
  | "frag.full", [r, k, cc, payload, crc32, crc9tab, hbtf, ha, hsap, hhex, hpoc, csbktab] => do
    let r ← rateOf r; let k ← k.toNat?; let cc ← cc.toNat?; let payload ← hexToBytes payload
    let crc32 ← crc32.toNat?; let tab ← parseCrc9Tab crc9tab
    let hbtf ← ccOf hbtf; let ha ← flag ha; let hsap ← hsap.toNat?; let hraw ← hexToBytes hhex
    let hpoc ← hpoc.toNat?; let ctab ← parseCsbkTab csbktab
    let C : Crc :=
      { crc32 := fun _ => crc32
        crc9 := fun _ d _ c => match tab.find? (fun e => e.1 == d && e.2.1 == c) with
          | some e => e.2.2
          | none => 0 }
    let raw : CsbkRaw := fun b => match ctab.find? (fun e => e.1 == b) with
      | some e => e.2
      | none => []
    match generate C raw r payload { hdr := { btf := hbtf, a := ha, sap := hsap, raw := hraw }, poc := hpoc } k cc with
    | .error e => some (errStr e)
    | .ok bursts => some (";".intercalate (bursts.map symStr))
  | "frag.crc9ok", [r, last, ib, cv] => do
    -- the indicator the model has: `crc9_ok` of a received confirmed block, the calculated CRC-9 being an input
    let r ← rateOf r; let last ← flag last; let ib ← hexToBytes ib; let cv ← cv.toNat?
    let C : Crc := { crc32 := fun _ => 0, crc9 := fun _ _ _ _ => cv }
    some (if crc9Ok C r (resolve true last) (bytesToBits ib) then "1" else "0")
  | _, _ => none

/-- generator operations are stateless; everything else goes to the tracker -/
def fragStep (st : TrackerState) (op : String) (args : List String) : TrackerState × String :=
  match fragOp op args with
  | some out => (st, out)
  | none => trackerStep st op args

end Dmr.Driver
