import DmrVerif.Model.Storage
import DmrVerif.Model.StorageOpaque

/-!
Line protocol for the storage model (C20; the value / record printers are reused by C18).

Values:  `N` None · `i<n>` int (Python bools are printed as ints) · `s<cps>` str · `a<cps>:<port>`
address tuple · `u<n>` the n-th UUID of the counter oracle · `t<cps>:<n>:<n>…` a tuple `(str, int, …)` of
arity ≠ 2 (IPv6 peers) · `l<cps>:<n>…` a list `[str, int, …]` · `c<cps>:<cps>` a tuple `(str, str)` ·
`o<kind>.<cps>` a container as an opaque immutable value (`Model/StorageOpaque.lean`: kind 1 dict, 2 list, 3 set,
4 bytearray; `<cps>` = the canonical text of its content).
`<cps>` = code points joined by `.`.
Patches: `-` (empty) or `key=val,key=val`; a key that is one of the nine data member names is a
`Key.field`, any other name is a dynamic attribute.  A malformed patch ends with `!T` (the next key is no
`str`: `TypeError`) or is `!A` (a non-empty sized object that is no mapping: `AttributeError`).
`ma` with the name `!` : a name that is no `str`.
-/

namespace Dmr.Driver.Storage
open Dmr.Storage

def cpsToString (l : List Nat) : String := ".".intercalate (l.map toString)

def parseCps (s : String) : Option (List Nat) :=
  if s.isEmpty then some [] else (s.splitOn ".").mapM String.toNat?

def valToString : Val → String
  | .none => "N"
  | .int n => "i" ++ toString n
  | .str s =>
    match Val.opaque? (.str s) with
    | some (k, c) => "o" ++ cpsToString (k :: c)
    | Option.none => "s" ++ cpsToString s
  | .addr ip p => "a" ++ cpsToString ip ++ ":" ++ toString p
  | .uuid n => "u" ++ toString n
  | .tupN ip rest => "t" ++ ":".intercalate (cpsToString ip :: rest.map toString)
  | .lstN ip rest => "l" ++ ":".intercalate (cpsToString ip :: rest.map toString)
  | .addrS ip port => "c" ++ cpsToString ip ++ ":" ++ cpsToString port

def parseVal (s : String) : Option Val :=
  match s.toList with
  | ['N'] => some .none
  | 'i' :: r => (String.ofList r).toNat?.map .int
  | 'u' :: r => (String.ofList r).toNat?.map .uuid
  | 's' :: r => (parseCps (String.ofList r)).bind (fun l => if (Val.str l).isPyStr then some (.str l) else none)
  | 'o' :: r =>
    match parseCps (String.ofList r) with
    | some (k :: c) => if (Val.str c).isPyStr then some (Val.opaque k c) else none
    | _ => none
  | 'a' :: r =>
    match (String.ofList r).splitOn ":" with
    | [ip, port] => do
      let ip ← parseCps ip
      let port ← port.toNat?
      pure (.addr ip port)
    | _ => none
  | 't' :: r =>
    match (String.ofList r).splitOn ":" with
    | ip :: rest => do
      let ip ← parseCps ip
      let rest ← rest.mapM String.toNat?
      if rest.length = 1 then none else pure (.tupN ip rest)    -- the arity-2 tuple is `a…`
    | _ => none
  | 'l' :: r =>
    match (String.ofList r).splitOn ":" with
    | ip :: rest => do
      let ip ← parseCps ip
      let rest ← rest.mapM String.toNat?
      pure (.lstN ip rest)
    | _ => none
  | 'c' :: r =>
    match (String.ofList r).splitOn ":" with
    | [ip, port] => do
      let ip ← parseCps ip
      let port ← parseCps port
      pure (.addrS ip port)
    | _ => none
  | _ => none

def fieldName (f : Field) : String := f.name

def parseField (s : String) : Option Field := Field.all.find? (fun f => fieldName f == s)

def parseKey (s : String) : Key := Key.ofName s

def parsePatch (s : String) : Option Patch :=
  if s == "-" then some [] else
  (s.splitOn ",").mapM (fun e =>
    match e.splitOn "=" with
    | [k, v] => (parseVal v).map (fun v => (parseKey k, v))
    | _ => none)

/-- a patch argument: well formed, or the entries before the exception and the exception -/
def parsePatchArg (s : String) : Option (Patch × Option Err) :=
  if s == "!A" then some ([], some .attributeError)
  else if s == "!T" then some ([], some .typeError)
  else if s.endsWith ",!T" then (parsePatch (s.dropEnd 3).toString).map (fun p => (p, some .typeError))
  else (parsePatch s).map (fun p => (p, none))

def errName : Err → String
  | .attributeError => "AttributeError" | .keyError => "KeyError" | .systemError => "SystemError"
  | .typeError => "TypeError" | .indexError => "IndexError" | .badRef => "bad-ref"

def resToString : Res → String
  | .obj i => "obj" ++ toString i
  | .none => "None"
  | .val v => "val:" ++ valToString v
  | .true => "True"
  | .err e => "ERR " ++ errName e

def recToString (r : Rec) : String :=
  ",".intercalate (Field.all.map (fun f => fieldName f ++ "=" ++ valToString (r.get f)))
  ++ ";" ++ ",".intercalate (r.attrs.map (fun kv => kv.1 ++ "=" ++ valToString kv.2))

/-- full state: the dict (`key>object`) in dict order, then every created object in creation order -/
def dump (s : Store) : String :=
  "D " ++ ",".intercalate (s.dict.map (fun kv => valToString kv.1 ++ ">" ++ toString kv.2))
  ++ " |" ++ String.join (s.objs.map (fun r => " " ++ recToString r ++ " |"))

def parseRef (s : String) : Option (Option Nat) :=
  if s == "N" then some none else s.toNat?.map some

def parseOp (op : String) (args : List String) : Option Op :=
  match op, args with
  | "mi", [a, au, p] => do
    let a ← parseVal a
    let p ← parsePatchArg p
    let au ← (if au == "1" then some true else if au == "0" then some false else none)
    match p.2 with
    | none => pure (.matchIncoming a au p.1)
    | some e => pure (.matchIncomingBad a au p.1 e)
  | "save", [r, p] => do
    let r ← parseRef r
    let p ← parsePatchArg p
    match p.2 with
    | none => pure (.save r p.1)
    | some e => pure (.saveBad r p.1 e)
  | "ma", [n, v] => do
    let v ← parseVal v
    pure (.matchAttr (if n == "!" then .bad else match parseField n with | some f => .field f | none => .unknown) v)
  | "mip", [ip] => do
    let ip ← parseCps (if ip == "-" then "" else ip)
    pure (.matchIpIncoming ip)
  | "mu", [v] => (parseVal v).map .matchUuid
  | "attr", [r, k, v] => do
    let r ← r.toNat?
    let v ← parseVal v
    pure (.attr r k v)
  | "del", [r, k] => do
    let r ← r.toNat?
    pure (.deleteAttr r k)
  | "patch", [r, p] => do
    let r ← r.toNat?
    let p ← parsePatchArg p
    match p.2 with
    | none => pure (.patch r p.1)
    | some e => pure (.patchBad r p.1 e)
  | _, _ => none

/-- stateful step of the C20 driver: answer = result of the call, `len(storage)` after it, and
whether the preconditions P1/P2 of the theorems hold for this operation in the state it met -/
def storageStep (s : Store) (op : String) (args : List String) : Store × String :=
  match op, args with
  | "reset", [] => (init, "ok")
  | "dump", [] => (s, dump s)
  | _, _ =>
    match parseOp op args with
    | none => (s, "ERR bad-op " ++ op)
    | some o =>
      let r := step s o
      (r.1, resToString r.2 ++ " " ++ toString r.1.len ++ (if okOp s o then " pre-ok" else " pre-violated"))

end Dmr.Driver.Storage
