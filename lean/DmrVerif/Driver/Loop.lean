/-!
Line-protocol loop shared by every model driver: one operation per input line (`op arg …`), one
canonical output line per input line.  Imports nothing, so the drivers compile to native executables.
-/

namespace Dmr.Driver

abbrev Handler := String → List String → Option String

def dispatch (handlers : List Handler) (line : String) : String :=
  match (line.splitOn " ").filter (· ≠ "") with
  | [] => "ERR empty"
  | op :: args =>
    match handlers.findSome? (fun h => h op args) with
    | some out => out
    | none => "ERR bad-op " ++ op

partial def loop (handlers : List Handler) (hIn hOut : IO.FS.Stream) : IO Unit := do
  let line ← hIn.getLine
  if line.isEmpty then return ()
  let l := String.ofList (line.toList.filter (fun c => c != '\n' && c != '\r'))
  hOut.putStrLn (dispatch handlers l)
  loop handlers hIn hOut

/-- stateless driver: every line is answered independently -/
def runMain (handlers : List Handler) : IO Unit := do
  let hIn ← IO.getStdin
  let hOut ← IO.getStdout
  loop handlers hIn hOut
  hOut.flush

/-- stateful driver: `step` threads a state through the lines -/
partial def loopS {σ : Type} (step : σ → String → List String → σ × String) (s : σ)
    (hIn hOut : IO.FS.Stream) : IO Unit := do
  let line ← hIn.getLine
  if line.isEmpty then return ()
  let l := String.ofList (line.toList.filter (fun c => c != '\n' && c != '\r'))
  match (l.splitOn " ").filter (· ≠ "") with
  | [] => hOut.putStrLn "ERR empty"; loopS step s hIn hOut
  | op :: args =>
    let (s', out) := step s op args
    hOut.putStrLn out
    loopS step s' hIn hOut

def runMainS {σ : Type} (step : σ → String → List String → σ × String) (init : σ) : IO Unit := do
  let hIn ← IO.getStdin
  let hOut ← IO.getStdout
  loopS step init hIn hOut
  hOut.flush

end Dmr.Driver
