import DmrVerif.Model.Purity
import DmrVerif.Gen.HiddenState

/-!
Line protocol of the C19 model (stateful: the hidden state `S` is threaded through the lines).

  reset                                   back to the state after import
  S.<call>                                `step` on the current state: result [+ argument buffers afterwards]
  P.<call>                                `pureOut`: the history-free function
  B.<call>                                `stepBuggy` (the code before the repairs) on the current state
  U.<call>                                `stepUnsafe` (two hazards that are not in the code) on the current state
  clock <year>                            the wall clock the interpreter showed when the package was imported
  inv                                     1 iff the invariant of Props/C19 holds on the current state
  inventory.count / inventory.item i      the generated hidden-state inventory
calls   crc.shared k bits little | crc.new w poly init xor ri ro table bits little | crc.kept (same)
        ham.gen i bits | ham.check i bits | ham.cac i bits | fivebit hex | byteswap hex
        default.burst | default.csbk | default.dh | default.so | default.rcp
        gettoken req name attr=value…   (name / attr: s:<text> or n:<number>; value: number or none)
        tms more ack res ctl ty hex
        crc9parts form bits sn mask crc32    (form: o = bytes / bytearray / memoryview, b / l = big / little-endian bitarray;
                                              bits: the octets' bits resp. the 0/1 values; crc32: hex or none)
        gpsdate dd mm yy
        element <module>.<Class> i            (member i of an Enum of the element packages: as_bits)
-/

namespace Dmr.Driver.Purity
open Dmr Dmr.Purity

def bitsArg (s : String) : Option Bits := if s == "-" then some [] else bitsOfString s
def bitsOut (b : Bits) : String := if b.isEmpty then "-" else bitsToString b
def boolArg (s : String) : Option Bool := if s == "1" then some true else if s == "0" then some false else none
def b01 (b : Bool) : String := if b then "1" else "0"

def dropS (n : Nat) (s : String) : String := String.ofList (s.toList.drop n)
def takeS (n : Nat) (s : String) : String := String.ofList (s.toList.take n)

def keyArg (s : String) : Option Key :=
  if takeS 2 s == "s:" then some (.str (dropS 2 s))
  else if takeS 2 s == "n:" then (dropS 2 s).toNat?.map Key.num
  else none

def attrArg (s : String) : Option (Key × Option Nat) :=
  match s.splitOn "=" with
  | [k, v] => do
    let k ← keyArg k
    if v == "none" then some (k, none) else do
      let n ← v.toNat?
      some (k, some n)
  | _ => none

def parseCall (op : String) (args : List String) : Option Call :=
  match op, args with
  | "crc.shared", [k, d, l] => do some (.crcShared (← k.toNat?) (← bitsArg d) (← boolArg l))
  | "crc.new", [w, p, i, x, ri, ro, t, d, l] => do
    some (.crcNew ⟨← w.toNat?, ← p.toNat?, ← i.toNat?, ← x.toNat?, ← boolArg ri, ← boolArg ro⟩ (← boolArg t) (← bitsArg d) (← boolArg l))
  | "crc.kept", [w, p, i, x, ri, ro, t, d, l] => do
    some (.crcKept ⟨← w.toNat?, ← p.toNat?, ← i.toNat?, ← x.toNat?, ← boolArg ri, ← boolArg ro⟩ (← boolArg t) (← bitsArg d) (← boolArg l))
  | "ham.gen", [i, d] => do some (.hamGenerate (← i.toNat?) (← bitsArg d))
  | "ham.check", [i, d] => do some (.hamCheck (← i.toNat?) (← bitsArg d))
  | "ham.cac", [i, d] => do some (.hamCac (← i.toNat?) (← bitsArg d))
  | "fivebit", [h] => do some (.fiveBit (← hexToBytes h))
  | "byteswap", [h] => do some (.byteswap (← hexToBytes h))
  | "default.burst", [] => some .burstDefault
  | "default.csbk", [] => some .csbkDefault
  | "default.dh", [] => some .dhDefault
  | "default.so", [] => some .soDefault
  | "default.rcp", [] => some .rcpDefault
  | "gettoken", req :: name :: attrs => do
    some (.getToken (← boolArg req) (← keyArg name) (← attrs.mapM attrArg))
  | "tms", [m, a, r, c, ty, h] => do
    some (.tmsAsBytes (← boolArg m) (← boolArg a) (← boolArg r) (← boolArg c) (← ty.toNat?) (← hexToBytes h))
  | "crc9parts", [f, d, sn, m, c] => do
    let form ← (if f == "o" then some BufForm.octets else if f == "b" then some (BufForm.bits false) else if f == "l" then some (BufForm.bits true) else none)
    let crc ← (if c == "none" then some none else (hexToBytes c).map some)
    some (.crc9Parts form (← bitsArg d) (← sn.toNat?) (← m.toNat?) crc)
  | "gpsdate", [d, m, y] => do some (.gpsDate (← d.toNat?) (← m.toNat?) (← y.toNat?))
  | "element", [c, i] => do some (.elementBits c (← i.toNat?))
  | _, _ => none

def attrOut : AttrRef → String
  | .id n => s!"a{n}"
  | .inst n v => s!"i{n}=" ++ (match v with | some x => toString x | none => "none")

def outStr : Out → String
  | .bits b => "b:" ++ bitsOut b
  | .bytes b => "x:" ++ bytesToHex' b
  | .flagBits ok b => "fb:" ++ b01 ok ++ ":" ++ bitsOut b
  | .flag b => "f:" ++ b01 b
  | .nat n => s!"n:{n}"
  | .pairBits a b => "pb:" ++ bitsOut a ++ ":" ++ bitsOut b
  | .tok (.token tid name attrs) => s!"tok:{tid}:{name}:" ++ (if attrs.isEmpty then "-" else ",".intercalate (attrs.map attrOut))
  | .tok .notFound => "ERR ModuleNotFoundError"
  | .tok .valueError => "ERR ValueError"
  | .err e => "ERR " ++ e

/-- the argument buffers after the call (only buffers are shown) -/
def argsStr : Call → String
  | .crcShared _ d _ | .crcNew _ _ d _ | .crcKept _ _ d _ | .hamGenerate _ d | .hamCheck _ d | .hamCac _ d
  | .crc9Parts _ d _ _ _ => "args:" ++ bitsOut d
  | .fiveBit d | .byteswap d | .tmsAsBytes _ _ _ _ _ d => "args:" ++ bytesToHex' d
  | _ => "args:"

def stepLine (s : S) (op : String) (args : List String) : S × String :=
  if op == "reset" then (init, "ok")
  else if op == "inv" then (s, b01 (invB s))
  else if op == "clock" then
    match args with
    | [y] => match y.toNat? with
      | some n => ({ s with importClock := n }, "ok")
      | none => (s, "ERR bad-args")
    | _ => (s, "ERR bad-args")
  else if op == "inventory.count" then (s, toString Gen.hiddenState.length)
  else if op == "inventory.item" then
    match args with
    | [i] => match i.toNat?.bind (fun n => Gen.hiddenState[n]?) with
      | some r => (s, r.1 ++ " | " ++ r.2.1 ++ " | " ++ r.2.2.1 ++ " | " ++ r.2.2.2)
      | none => (s, "ERR bad-index")
    | _ => (s, "ERR bad-args")
  else
    let mode := takeS 2 op
    match parseCall (dropS 2 op) args with
    | none => (s, "ERR bad-op " ++ op)
    | some c =>
      if mode == "S." then
        let r := step s c
        (r.1, outStr r.2.1 ++ " " ++ argsStr r.2.2)
      else if mode == "B." then
        let r := stepBuggy s c
        (r.1, outStr r.2.1 ++ " " ++ argsStr r.2.2)
      else if mode == "U." then
        let r := stepUnsafe s c
        (r.1, outStr r.2.1 ++ " " ++ argsStr r.2.2)
      else if mode == "P." then (s, outStr (pureOut c) ++ " " ++ argsStr (argsAfter c))
      else (s, "ERR bad-op " ++ op)

end Dmr.Driver.Purity
