import DmrVerif.Model.Tms
import DmrVerif.Model.Ars

/-! line-protocol operations for Motorola TMS / ARS (C16) -/

namespace Dmr.Driver
open Dmr

namespace C16

def b01 (b : Bool) : String := if b then "1" else "0"

def boolOf : String → Option Bool
  | "0" => some false
  | "1" => some true
  | _ => none

/-- "-" = Python `None`, else a natural number -/
def optNat (s : String) : Option (Option Nat) :=
  if s == "-" then some none else s.toNat?.map some

/-- "N" = Python `None`, "-" = empty, else hex -/
def optBytes (s : String) : Option (Option Bytes) :=
  if s == "N" then some none else (hexToBytes s).map some

def showOptNat : Option Nat → String
  | none => "-"
  | some n => toString n

def showOptBytes : Option Bytes → String
  | none => "N"
  | some b => bytesToHex' b

def showErr (e : Tms.Err) : String := "ERR " ++ e.name

def showBytes : Except Tms.Err Bytes → String
  | .error e => showErr e
  | .ok b => bytesToHex' b

end C16

open C16

/-! ### TMS -/

def tmsShowMsg (p : Tms.Msg) : String :=
  " ".intercalate
    [b01 p.header.more, b01 p.header.ack, b01 p.header.reserved, b01 p.header.ctl,
     toString p.header.ptype.idx, bytesToHex' p.address, showOptNat p.capability, showOptNat p.seq,
     showOptNat (p.encoding.map Tms.Encoding.idx), showOptBytes p.message]

def tmsMsgOf : List String → Option Tms.Msg
  | [m, a, r, t, addr, cap, seq, enc, msg] => do
    let m ← boolOf m
    let a ← boolOf a
    let r ← boolOf r
    let t ← t.toNat? >>= Tms.PduType.ofIdx
    let addr ← hexToBytes addr
    let cap ← optNat cap
    let seq ← optNat seq
    let enc ← optNat enc
    let enc ← match enc with
      | none => some none
      | some i => (Tms.Encoding.ofIdx i).map some
    let msg ← optBytes msg
    pure ⟨⟨m, a, r, t⟩, addr, cap, seq, enc, msg⟩
  | _ => none

def tmsOp (op : String) (args : List String) : Option String :=
  match op, args with
  | "tms.enc", args => do
    let p ← tmsMsgOf args
    some (showBytes (Tms.asBytes p))
  | "tms.dec", [d] => do
    let d ← hexToBytes d
    match Tms.fromBytes d with
    | .error e => some (showErr e)
    | .ok p => some (tmsShowMsg p)
  | "tms.hdr", [b] => do
    let b ← b.toNat?
    match Tms.headerOfByte b with
    | .error e => some (showErr e)
    | .ok h => some (" ".intercalate [b01 h.more, b01 h.ack, b01 h.reserved, b01 h.ctl, toString h.ptype.idx])
  | "tms.sn", [seq, enc] => do
    let seq ← optNat seq
    let enc ← optNat enc
    let enc ← match enc with
      | none => some none
      | some i => (Tms.Encoding.ofIdx i).map some
    some (showBytes (Tms.encodeSn seq enc))
  | "tms.unsn", [d, i] => do
    let d ← hexToBytes d
    let i ← i.toNat?
    match Tms.decodeSn d i with
    | .error e => some (showErr e)
    | .ok (j, sn, enc) => some (s!"{j} {sn} {showOptNat (enc.map Tms.Encoding.idx)}")
  | _, _ => none

/-! ### ARS -/

def arsShowRsh : Option Ars.Rsh → String
  | none => "-"
  | some r => showOptNat (r.failure.map Ars.Failure.idx) ++ "." ++ showOptNat r.refresh ++ "."
      ++ showOptNat (r.ctx.map Bool.toNat)

def arsShowRrh : Option Ars.Rrh → String
  | none => "-"
  | some r => toString r.event.idx ++ "." ++ toString r.enc.idx

def arsShowMsg (p : Ars.Msg) : String :=
  " ".intercalate
    [b01 p.header.more, b01 p.header.ack, b01 p.header.priority, b01 p.header.ctl,
     toString p.header.ptype.idx, arsShowRrh p.rrh, arsShowRsh p.rsh,
     showOptBytes p.device, showOptBytes p.user, showOptBytes p.password, b01 p.csbk]

def arsRrhOf (s : String) : Option (Option Ars.Rrh) :=
  if s == "-" then some none else
  match s.splitOn "." with
  | [e, c] => do
    let e ← e.toNat? >>= Ars.Event.ofIdx
    let c ← c.toNat? >>= Ars.Enc.ofIdx
    pure (some ⟨e, c⟩)
  | _ => none

def arsRshOf (s : String) : Option (Option Ars.Rsh) :=
  if s == "-" then some none else
  match s.splitOn "." with
  | [f, r, c] => do
    let f ← optNat f
    let f ← match f with
      | none => some none
      | some i => (Ars.Failure.ofIdx i).map some
    let r ← optNat r
    let c ← optNat c
    let c ← match c with
      | none => some none
      | some 0 => some (some false)
      | some 1 => some (some true)
      | _ => none
    pure (some ⟨f, r, c⟩)
  | _ => none

def arsMsgOf : List String → Option Ars.Msg
  | [m, a, p, c, t, rrh, rsh, dev, user, pw, csbk] => do
    let m ← boolOf m
    let a ← boolOf a
    let p ← boolOf p
    let c ← boolOf c
    let t ← t.toNat? >>= Ars.PduType.ofIdx
    let rrh ← arsRrhOf rrh
    let rsh ← arsRshOf rsh
    let dev ← optBytes dev
    let user ← optBytes user
    let pw ← optBytes pw
    let csbk ← boolOf csbk
    pure ⟨⟨m, a, p, c, t⟩, rrh, rsh, dev, user, pw, csbk⟩
  | _ => none

def arsOp (op : String) (args : List String) : Option String :=
  match op, args with
  | "ars.enc", args => do
    let p ← arsMsgOf args
    some (showBytes (Ars.asBytes p))
  | "ars.dec", [d] => do
    let d ← hexToBytes d
    match Ars.fromBytes d with
    | .error e => some (showErr e)
    | .ok p => some (arsShowMsg p)
  | "ars.utf8", [d] => do
    let d ← hexToBytes d
    some (b01 (Ars.validUtf8 d))
  | "ars.rsh", [f, r] => do
    -- the constructor's assertion
    let f ← optNat f
    let r ← optNat r
    some (b01 (Ars.Rsh.ctorOk (f.bind Ars.Failure.ofIdx) r))
  | "ars.rshb", [b] => do
    -- ResponseSecondHeader.from_bytes(octet).as_bytes() without context
    let b ← b.toNat?
    match Ars.rshOfByte b false with
    | .error e => some (showErr e)
    | .ok r => some (showBytes (Ars.rshBytes { r with ctx := none }))
  | _, _ => none

end Dmr.Driver
