import DmrVerif.Driver.Transl
import DmrVerif.Gen.TranslIpsc

/-! `t.ip.*`: the definitions translated from `hytera/hytera_ipsc.py` (C13).  An object is printed / read as its 18 attributes in
the order of `__init__`: enum members as their index in definition order, ints decimal, bytes hex (`-` = empty). -/

namespace Dmr.Driver
open Dmr Dmr.Driver.T Dmr.Transl.Ipsc

def T.sObj (o : HyteraIPSC) : String :=
  " ".intercalate [toString o.call_type, toString o.frame_type, toString o.packet_type, toString o.slot_type,
    toString o.timeslot, toString o.sequence_number, toString o.color_code, sBytes o.payload,
    toString o.destination_radio_id, toString o.source_radio_id, sBytes o.first_header, sBytes o.second_header,
    sBytes o.reserved_3, sBytes o.reserved_7a, sBytes o.reserved_2a, sBytes o.reserved_2b, sBytes o.reserved_1,
    sBytes o.payload_pad]

def translIpscOp (op : String) (args : List String) : Option String :=
  match op, args with
  | "t.ip.from", [d] => do some (out sObj (from_ipsc_bytes (← hexToBytes d)))
  | "t.ip.ser", [d] => do
    let b ← hexToBytes d
    some (out sBytes (from_ipsc_bytes b >>= as_ipsc_bytes))
  | "t.ip.as", [ct, ft, pt, st, ts, seq, cc, pl, dst, src, fh, sh, r3, r7, r2a, r2b, r1, pad] => do
    let ct ← ct.toInt?
    let ft ← ft.toInt?
    let pt ← pt.toInt?
    let st ← st.toInt?
    let ts ← ts.toInt?
    let seq ← seq.toInt?
    let cc ← cc.toInt?
    let pl ← hexToBytes pl
    let dst ← dst.toInt?
    let src ← src.toInt?
    let fh ← hexToBytes fh
    let sh ← hexToBytes sh
    let r3 ← hexToBytes r3
    let r7 ← hexToBytes r7
    let r2a ← hexToBytes r2a
    let r2b ← hexToBytes r2b
    let r1 ← hexToBytes r1
    let pad ← hexToBytes pad
    let o : HyteraIPSC := HyteraIPSC.mk ct ft pt st ts seq cc pl dst src fh sh r3 r7 r2a r2b r1 pad
    some (out sBytes (as_ipsc_bytes o))
  | _, _ => none

end Dmr.Driver
