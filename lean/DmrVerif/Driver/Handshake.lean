import DmrVerif.Model.Rdac
import DmrVerif.Driver.Storage

/-!
Line protocol for the P2P and RDAC handler models (C18).  One shared storage (as an application wires
the two handlers), the RDAC step dictionary, the P2P configuration.

`reset <p2p_port> <rdac_port>` · `p2p <addr> <hex> <snmpFails 0|1>` · `setout <addr> <val>` ·
`envpatch <addr> <key> <val>` ·
`rdac <addr> <hex> <snmpFails 0|1>` · `dump`.   `<addr>` = `<ip code points joined by .>:<port>`, for a
longer peer tuple (AF_INET6: flowinfo, scope id) `<ip>:<port>:<n>:<n>…`.
-/

namespace Dmr.Driver.Handshake
open Dmr Dmr.Storage Dmr.P2p Dmr.Rdac Dmr.Driver.Storage

structure DState where
  cfg : Cfg
  st : RState

def dinit : DState := { cfg := Cfg.default, st := Rdac.init }

def parseAddr (s : String) : Option Addr :=
  match s.splitOn ":" with
  | ip :: port :: ext => do
    let ip ← parseCps ip
    let port ← port.toNat?
    let ext ← ext.mapM String.toNat?
    pure { ip := ip, port := port, ext := ext }
  | _ => none

def addrToString (a : Addr) : String := valToString a.val

def listToString (l : List String) : String := if l.isEmpty then "-" else ",".intercalate l

def p2pErr : P2p.Err → String
  | .valueError => "ValueError" | .indexError => "IndexError" | .overflowError => "OverflowError"
  | .snmpError => "SnmpStubError" | .typeError => "TypeError"

def rdacErr : RErr → String
  | .unicodeDecodeError => "UnicodeDecodeError" | .indexError => "IndexError"
  | .attributeError => "AttributeError" | .snmpError => "SnmpStubError"

def stepsToString (l : List (List Nat × Nat)) : String :=
  listToString (l.map (fun kv => cpsToString kv.1 ++ "=" ++ toString kv.2))

def parseBool (s : String) : Option Bool :=
  if s == "1" then some true else if s == "0" then some false else none

def handshakeStep (d : DState) (op : String) (args : List String) : DState × String :=
  match op, args with
  | "reset", [p, r] =>
    match p.toNat?, r.toNat? with
    | some p, some r => ({ cfg := { p2pPort := p, rdacPort := r }, st := Rdac.init }, "ok")
    | _, _ => (d, "ERR bad-args")
  | "p2p", [a, hex, f] =>
    match parseAddr a, hexToBytes hex, parseBool f with
    | some a, some data, some f =>
      let r := P2p.step d.cfg d.st.store (.datagram a data f)
      ({ d with st := { d.st with store := r.1 } },
        "outs=" ++ listToString (r.2.1.map (fun o => bytesToHex' o.data ++ "@" ++ valToString o.dest))
        ++ " res=" ++ (match r.2.2 with | .ok => "ok" | .err e => "ERR " ++ p2pErr e)
        ++ " len=" ++ toString r.1.len)
    | _, _, _ => (d, "ERR bad-args")
  | "setout", [a, v] =>
    match parseAddr a, parseVal v with
    | some a, some v =>
      let r := P2p.step d.cfg d.st.store (.setOut a v)
      ({ d with st := { d.st with store := r.1 } }, "ok len=" ++ toString r.1.len)
    | _, _ => (d, "ERR bad-args")
  | "envpatch", [a, k, v] =>
    match parseAddr a, parseVal v with
    | some a, some v =>
      let r := P2p.step d.cfg d.st.store (.envPatch a (parseKey k) v)
      ({ d with st := { d.st with store := r.1 } }, "ok len=" ++ toString r.1.len)
    | _, _ => (d, "ERR bad-args")
  | "rdac", [a, hex, f] =>
    match parseAddr a, hexToBytes hex, parseBool f with
    | some a, some data, some f =>
      let r := Rdac.step d.st a data f
      ({ d with st := r.1 },
        "outs=" ++ listToString (r.2.1.map (fun o =>
            match o with
            | .send data dest => bytesToHex' data ++ "@" ++ addrToString dest
            | .callback id => "cb:" ++ valToString id))
        ++ " res=" ++ (match r.2.2 with | .ok => "ok" | .err e => "ERR " ++ rdacErr e)
        ++ " steps=" ++ stepsToString r.1.steps ++ " len=" ++ toString r.1.store.len)
    | _, _, _ => (d, "ERR bad-args")
  | "dump", [] => (d, dump d.st.store ++ " steps=" ++ stepsToString d.st.steps)
  | _, _ => (d, "ERR bad-op " ++ op)

end Dmr.Driver.Handshake
