import DmrVerif.Driver.Transl
import DmrVerif.Driver.Tms
import DmrVerif.Model.Layout
import DmrVerif.Model.TranslTmsExt

/-!
`t.tms.*`: the definitions translated from `text_messaging_service.py` (C16; `Gen/TranslTms.lean`) with the call boundary
instantiated by the model.  `t.tms.enc / dec / hdr / sn / unsn` take and print EXACTLY the forms of the hand model's
`tms.enc / dec / hdr / sn / unsn` (`Driver/Tms.lean`): the harness feeds the translated source every case it feeds the model.
-/

namespace Dmr.Driver
open Dmr Dmr.Py Dmr.PyBits Dmr.Driver.T Dmr.Driver.C16 Dmr.Transl.Tms

namespace TTms

def ob : Option Bool → String
  | some b => b01 b
  | none => "U"

def oi : Option Int → String
  | some v => toString v
  | none => "U"

def idxIn : List Nat → Int → Nat → String
  | [], _, _ => "?"
  | x :: xs, v, i => if (x : Int) == v then toString i else idxIn xs v (i + 1)

def fhWords (h : FirstHeader) : List String :=
  [ob h.has_more_headers, ob h.is_acknowledged, ob h.is_reserved, ob h.is_control_message, oi h.pdu_type]

def ooi : Option (Option Int) → String
  | some (some v) => toString v
  | some none => "-"
  | none => "U"

def msgS (o : TextMessagingService) : String :=
  " ".intercalate
    ((match o.header with | some h => fhWords h | none => ["U"]) ++
     [match o.address with | some a => bytesToHex' a | none => "U",
      match o.availability_header with
      | some (some c) => oi c.capability | some none => "-" | none => "U",
      ooi o.sequence_number,
      match o.encoding with
      | some (some v) => idxIn Gen.Tms.encodingVal v 0 | some none => "-" | none => "U",
      match o.message with
      | some (some b) => bytesToHex' b | some none => "N" | none => "U"])

end TTms

open TTms

def translTmsOp (op : String) (args : List String) : Option String :=
  let ext := modelExt
  match op, args with
  | "t.tms.enc", args => do
    let p ← tmsMsgOf args
    some (out sBytes (TextMessagingService.as_bytes ext (tmsObj p)))
  | "t.tms.dec", [d] => do
    let d ← hexToBytes d
    some (out (fun o => match o with | some o => msgS o | none => "NONE") (TextMessagingService.from_bytes ext d))
  | "t.tms.hdr", [b] => do
    let b ← b.toNat?
    some (out (fun h => " ".intercalate (fhWords h)) (FirstHeader.from_bytes ext [b]))
  | "t.tms.sn", [seq, enc] => do
    let seq ← optNat seq
    let enc ← optNat enc
    let enc ← match enc with
      | none => some none
      | some i => (Tms.Encoding.ofIdx i).map some
    some (out sBytes (TextMessagingService.encode_sn_and_encoding ext
      (tmsObj ⟨⟨false, false, false, .text⟩, [], none, seq, enc, none⟩)))
  | "t.tms.unsn", [d, i] => do
    let d ← hexToBytes d
    let i ← intOfString i
    some (out (fun (r : Int × Int × Option Int) => s!"{r.1} {r.2.1} " ++
      (match r.2.2 with | some v => idxIn Gen.Tms.encodingVal v 0 | none => "-"))
      (TextMessagingService.decode_sn_and_encoding ext d i))
  | "t.tms.cap", [d] => do
    let d ← hexToBytes d
    some (out (fun c => oi c.capability ++ " " ++ out sBytes (AvailabilitySecondHeader.as_bytes ext c))
      (AvailabilitySecondHeader.from_bytes ext d))
  | _, _ => none

end Dmr.Driver
