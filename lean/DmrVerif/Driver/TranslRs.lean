import DmrVerif.Driver.Transl
import DmrVerif.Gen.TranslRs

/-! `t.rs.*`: the definitions translated from `reed_solomon_12_9_4.py` (C11) -/

namespace Dmr.Driver
open Dmr Dmr.Driver.T

def translRsOp (op : String) (args : List String) : Option String :=
  match op, args with
  | "t.rs.mul", [a, b] => do
    let a ← a.toInt?
    let b ← b.toInt?
    some (out sInt (Transl.Rs.log_multiply a b))
  | "t.rs.xor", [d, m] => do
    let d ← hexToBytes d
    let m ← hexToBytes m
    some (out sBytes (Transl.Rs.xor_bytes d m))
  | "t.rs.gen", [d, m] => do
    let d ← hexToBytes d
    let m ← hexToBytes m
    some (out sBytes (Transl.Rs.generate d m))
  | "t.rs.gen1", [d] => do
    let d ← hexToBytes d
    some (out sBytes (Transl.Rs.generate d))
  | "t.rs.check", [w, m] => do
    let w ← hexToBytes w
    let m ← hexToBytes m
    some (out sBool (Transl.Rs.check w m))
  | _, _ => none

end Dmr.Driver
