import DmrVerif.Model.Lrrp
import DmrVerif.Driver.Mbxml

/-! line-protocol operations for LRRP / MBXML documents (C15) -/

namespace Dmr.Driver
open Dmr Dmr.Mbxml Dmr.Lrrp

def tokTypeName (t : TokType) : String :=
  match t with
  | .NO_VALUE => "NO_VALUE" | .UNKNOWN => "UNKNOWN" | .END => "END" | .UINTVAR => "UINTVAR"
  | .SINTVAR => "SINTVAR" | .UFLOATVAR => "UFLOATVAR" | .SFLOATVAR => "SFLOATVAR" | .ENTITY => "ENTITY"
  | .OPAQUE_I => "OPAQUE_I" | .OPAQUE_T => "OPAQUE_T" | .UINT8 => "UINT8" | .STR8_I => "STR8_I"
  | .STR7_I => "STR7_I" | .STR8_ST => "STR8_ST" | .CONCAT => "CONCAT" | .RESERVED => "RESERVED"
  | .DOCUMENT_SPECIFIC => "DOCUMENT_SPECIFIC" | .CIRCLE_2D => "CIRCLE_2D" | .CIRCLE_3D => "CIRCLE_3D"
  | .INFO_TIME => "INFO_TIME" | .POINT_2D => "POINT_2D" | .POINT_3D => "POINT_3D"
  | .POINT_3D_WITH_ACC => "POINT_3D_WITH_ACC"

/-- reduced dyadic `[-]num/exp` -/
def dyStr (d : Dy) : String :=
  let (n, e) := if d.num = 0 then (0, 0) else pow2Split d.exp d.num d.exp
  (if d.neg then "-" else "") ++ toString n ++ "/" ++ toString e

/-- the exact value is a double iff the reduced numerator has at most 53 bits -/
def dyExact (d : Dy) : Bool :=
  let (n, _) := if d.num = 0 then (0, 0) else pow2Split d.exp d.num d.exp
  n < 2 ^ 53

def valStr : Val → String
  | .none => "N"
  | .bytes b => "B" ++ bytesToHex b
  | .nat n => "I" ++ toString n
  | .float d => "F" ++ dyStr d
  | .circle la lo r => "C" ++ bytesToHex la ++ "/" ++ bytesToHex lo ++ "/" ++ dyStr r
  | .point2 la lo => "P" ++ bytesToHex la ++ "/" ++ bytesToHex lo
  | .point3 la lo a => "Q" ++ bytesToHex la ++ "/" ++ bytesToHex lo ++ "/" ++ dyStr a

def valExact : Val → Bool
  | .float d => dyExact d
  | .circle _ _ r => dyExact r
  | .point3 _ _ a => dyExact a
  | _ => true

def attrName (id : Nat) : String :=
  match (Dmr.Gen.Lrrp.knownAttributesRequest.flatten.find? (fun a => a.id == id)) with
  | some a => a.name
  | none => "?"

def attrRefStr : AttrRef → String
  | .id n => "i" ++ toString n
  | .inst a => "a" ++ attrName a.id ++ "=" ++ toString a.value

def optNatStr : Option Nat → String
  | none => "n"
  | some n => toString n

def partStr (p : Part) : String :=
  toString p.tokenId ++ ":" ++ tokTypeName p.ty ++ ":" ++ optNatStr p.length ++ ":"
    ++ "+".intercalate (p.attrs.map attrRefStr) ++ ":" ++ valStr p.value

def docStr (d : Doc) : String :=
  "D" ++ toString d.id ++ ";cdt=" ++ bytesToHex' d.cdt ++ ";def=" ++ (if d.cdtDefault then "1" else "0")
    ++ ";inh=" ++ (if d.cdtInherited then "1" else "0")
    ++ ";parts=" ++ ",".intercalate (d.parts.map partStr)
    ++ ";bytes=" ++ bytesOut (asBytes d)

def docExact (d : Doc) : Bool := d.parts.all (fun p => valExact p.value)

/-! parsing of the API operation's arguments -/

def parseKey (s : String) : Option Key :=
  match s.toList with
  | '#' :: t => (String.ofList t).toNat?.map Key.id
  | _ => some (Key.name s)

def parseDy (s : String) : Option Dy :=
  match s.splitOn ":" with
  | [a, b, c] => do
    let n ← b.toNat?
    let e ← c.toNat?
    some ⟨a == "1", n, e⟩
  | _ => none

def parseVal (s : String) : Option Val :=
  let body := String.ofList (s.toList.drop 1)
  match s.toList.head? with
  | some 'N' => some .none
  | some 'B' => (hexToBytes (if body.isEmpty then "-" else body)).map Val.bytes
  | some 'I' => body.toNat?.map Val.nat
  | some 'F' => (parseDy body).map Val.float
  | some 'C' =>
    match body.splitOn "/" with
    | [a, b, c] => do some (.circle (← hexToBytes a) (← hexToBytes b) (← parseDy c))
    | _ => none
  | some 'P' =>
    match body.splitOn "/" with
    | [a, b] => do some (.point2 (← hexToBytes a) (← hexToBytes b))
    | _ => none
  | some 'Q' =>
    match body.splitOn "/" with
    | [a, b, c] => do some (.point3 (← hexToBytes a) (← hexToBytes b) (← parseDy c))
    | _ => none
  | _ => none

def parseAttrs (s : String) : Option (List (Key × Option Nat)) :=
  if s == "-" then some [] else
  (s.splitOn "+").mapM (fun kv =>
    match kv.splitOn "=" with
    | [k, v] => do
      let k ← parseKey k
      if v == "N" then some (k, none) else do some (k, some (← v.toNat?))
    | _ => none)

def parseTokSpec (s : String) : Option (Key × Val × List (Key × Option Nat)) :=
  match s.splitOn "~" with
  | [k, v, a] => do some (← parseKey k, ← parseVal v, ← parseAttrs a)
  | _ => none

def lrrpOp (op : String) (args : List String) : Option String :=
  match op, args with
  | "lrrp.parse", [h] => do
    let d ← hexToBytes h
    match parse d with
    | .error e => some (errStr e)
    | .ok ds =>
      if ds.all docExact then some (" | ".intercalate (ds.map docStr)) else some "INEXACT"
  | "lrrp.api", [docId, req, cdt, specs] => do
    let docId ← docId.toNat?
    let specs ← (if specs == "-" then some [] else (specs.splitOn ";").mapM parseTokSpec)
    -- "-" : constants table left at its default; "T<hex>": constants_table set, is_constant_table_default = False
    let tbl ← (match cdt.toList with
      | ['-'] => some none
      | 'T' :: t => (hexToBytes (if t.isEmpty then "-" else String.ofList t)).map some
      | _ => none)
    match getTokens (req == "1") specs with
    | .error e => some (errStr e)
    | .ok ps =>
      match tbl with
      | none => some (docStr (newDoc docId ps))
      | some t => some (docStr { newDoc docId ps with cdt := t, cdtDefault := false })
  | "lrrp.token", [req, spec] => do
    let (k, v, a) ← parseTokSpec spec
    match getToken (req == "1") k v a with
    | .error e => some (errStr e)
    | .ok p => some (partStr p)
  | "lrrp.attr", [k, v] => do
    let k ← parseKey k
    let v ← (if v == "N" then some none else v.toNat?.map some)
    match getAttribute true k v with
    | .error e => some (errStr e)
    | .ok (id, ch) => some (toString id ++ " " ++ (if ch then "1" else "0"))
  | _, _ => none

end Dmr.Driver
