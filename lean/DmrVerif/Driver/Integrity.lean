import DmrVerif.Model.Integrity
import DmrVerif.Driver.Crc

/-! line-protocol operations for the integrity indicators (C04) -/

namespace Dmr.Driver
open Dmr Dmr.Integrity

def iOut {α : Type} (f : α → String) : Except IErr α → String
  | .ok v => f v
  | .error e => e.toString

def rateByName : String → Option RateCfg
  | "r12" => some rate12
  | "r34" => some rate34
  | "r1" => some rate1
  | _ => none

def integrityOp (op : String) (args : List String) : Option String :=
  match op, args with
  -- slot type: from_bits -> "ok cc dt parity"
  | "slot.dec", [w] => do
    let w ← bitsArg w
    some (iOut (fun o => s!"{boolOut o.ok} {o.colourCode} {o.dataType} {o.parity}") (slotDec w))
  | "slot.new", [cc, dt, par] => do
    let cc ← cc.toNat?; let dt ← dt.toNat?; let par ← par.toNat?
    some (iOut (fun o => s!"{boolOut o.ok} {bitsOut o.enc}") (slotInit cc dt par))
  | "emb.dec", [w] => do
    let w ← bitsArg w
    some (iOut (fun o => s!"{boolOut o.ok} {o.colourCode} {o.pi} {o.lcss} {o.parity}") (embDec w))
  | "emb.new", [cc, pi, lcss, par] => do
    let cc ← cc.toNat?; let pi ← pi.toNat?; let lcss ← lcss.toNat?; let par ← par.toNat?
    some (iOut (fun o => s!"{boolOut o.ok} {bitsOut o.enc}") (embInit cc pi lcss par))
  -- short LC: from_bits -> "ok as_bits"
  | "slc.dec", [w] => do
    let w ← bitsArg w
    some (iOut (fun o => s!"{boolOut o.ok} {bitsOut o.enc}") (slcDec w))
  -- PI header: from_bits -> "ok crc as_bits"
  | "pi.dec", [w] => do
    let w ← bitsArg w
    some (iOut (fun o => s!"{boolOut o.ok} {o.crc} {bitsOut o.enc}") (piDec w))
  -- data header: from_bits -> crc_ok ; as_bits of a header built from the 80 field bits
  | "dh.dec", [w, ff] => do
    let w ← bitsArg w
    let ff ← flagArg ff
    some (iOut boolOut (dhDec w ff))
  | "dh.enc", [body] => do
    let body ← bitsArg body
    some (iOut bitsOut (dhEnc body))
  -- rate blocks: from_bits_typed(bits, Confirmed | ConfirmedLastBlock) -> "ok dbsn crc9 crc32 data"
  | "rate.dec", [c, last, w] => do
    let c ← rateByName c
    let last ← flagArg last
    let w ← bitsArg w
    some (iOut (fun o => s!"{boolOut o.ok} {o.dbsn} {o.crc9} {o.crc32} {bytesToHex' o.data} {bitsOut (o.enc last)}")
      (rateDec c last w))
  -- HRNP: from_bytes -> checksum_correct
  | "hrnp.dec", [d, hf] => do
    let d ← hexToBytes d
    let hf ← flagArg hf
    some (iOut boolOut (hrnpDec d hf))
  | "hrnp.sum", [d] => do
    let d ← hexToBytes d
    some (toString (hrnpChecksum d))
  | "hrnp.enc", [hd, ver, blk, opc, src, dst, pn, inner] => do
    let hd ← hd.toNat?; let ver ← ver.toNat?; let blk ← blk.toNat?; let opc ← opc.toNat?
    let src ← src.toNat?; let dst ← dst.toNat?; let pn ← pn.toNat?
    let inner ← hexToBytes inner
    some (bytesToHex' (hrnpEnc hd ver blk opc src dst pn inner))
  | _, _ => none

end Dmr.Driver
