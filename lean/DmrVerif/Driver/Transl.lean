import DmrVerif.Model.Bits
import DmrVerif.Gen.TranslRs

/-!
Line-protocol operations `t.<family>.<fn> <args…>` that evaluate the TRANSLATED definitions (`Gen/Transl*.lean`).
They exist to validate the translator and the prelude `Model/Py.lean` (both in the trusted base) against CPython on
every run (`run_transl` of the harness modules).  Canonical forms: ints decimal, bytes hex ("-" = empty), bools `1`/`0`,
tuples space separated, exceptions `ERR <ClassName>`; `FUEL` / `UNSUPPORTED …` mean the run left the translated domain.
-/

namespace Dmr.Driver.T
open Dmr Dmr.Py

def out {α : Type} (f : α → String) : PyM α → String
  | .ok v => f v
  | .error e => e.name

def sInt (v : Int) : String := toString v
def sBytes (b : List Nat) : String := bytesToHex' b
def sBool (b : Bool) : String := if b then "1" else "0"

end Dmr.Driver.T

namespace Dmr.Driver
open Dmr Dmr.Driver.T

def translRsOp (op : String) (args : List String) : Option String :=
  match op, args with
  | "t.rs.mul", [a, b] => do
    let a ← a.toInt?
    let b ← b.toInt?
    some (out sInt (Transl.Rs.log_multiply a b))
  | "t.rs.xor", [d, m] => do
    let d ← hexToBytes d
    let m ← hexToBytes m
    some (out sBytes (Transl.Rs.xor_bytes d m))
  | "t.rs.gen", [d, m] => do
    let d ← hexToBytes d
    let m ← hexToBytes m
    some (out sBytes (Transl.Rs.generate d m))
  | "t.rs.gen1", [d] => do
    let d ← hexToBytes d
    some (out sBytes (Transl.Rs.generate d))
  | "t.rs.check", [w, m] => do
    let w ← hexToBytes w
    let m ← hexToBytes m
    some (out sBool (Transl.Rs.check w m))
  | _, _ => none

end Dmr.Driver
