import DmrVerif.Model.Bits
import DmrVerif.Model.Py

/-!
Line-protocol operations `t.<family>.<fn> <args…>` that evaluate the TRANSLATED definitions (`Gen/Transl*.lean`): the shared
helpers; the operations of each family are in `Driver/Transl<Family>.lean` (one file per generated file, so that a
property's driver depends only on the translated source of its own family).
They exist to validate the translator and the prelude `Model/Py.lean` (both in the trusted base) against CPython on
every run (`run_transl` of the harness modules).  Canonical forms: ints decimal, bytes hex ("-" = empty), bools `1`/`0`,
tuples space separated, exceptions `ERR <ClassName>`; `FUEL` / `UNSUPPORTED …` mean the run left the translated domain.
-/

namespace Dmr.Driver.T
open Dmr Dmr.Py

def out {α : Type} (f : α → String) : PyM α → String
  | .ok v => f v
  | .error e => e.name

def sInt (v : Int) : String := toString v
def sBytes (b : List Nat) : String := bytesToHex' b
def sBool (b : Bool) : String := if b then "1" else "0"

end Dmr.Driver.T

