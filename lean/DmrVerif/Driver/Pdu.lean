import DmrVerif.Model.PduCsbk
import DmrVerif.Model.PduDataHeader
import DmrVerif.Model.PduFullLc
import DmrVerif.Model.PduShort
import DmrVerif.Model.PduRate
import DmrVerif.Model.PduUdp
import DmrVerif.Model.PduArgs

/-!
Line-protocol operations for the PDU / element codecs (C03).

Every PDU kind `x` has two operations:

* `x.dec <bits>`            → `ok <fields> <re-encoded bits>`  or  `ERR <ExceptionClass>`
* `x.enc <fields>`          → `<bits of as_bits()>` of the object the constructor builds

`<fields>` is the same text in both directions (space separated header fields, a variant name and a
comma separated argument list), so the harness needs one formatter per kind.  The CRC functions the
theorems are generic in are instantiated here with a plain bitwise CRC (CCITT / CRC-9 / CRC-8 with the
library's inversion and masks); the correspondence run checks that instantiation against the real code.
-/

namespace Dmr.Driver
open Dmr Dmr.Gen

/-! ### concrete CRCs (driver only; the proofs are generic in them) -/

/-- MSB-first bitwise CRC register, initial value 0 -/
def crcReg (w poly : Nat) (bits : Bits) : Nat :=
  bits.foldl (fun r b =>
    let top := r / 2 ^ (w - 1) % 2 == 1
    let r' := (2 * r) % 2 ^ w
    if top != b then r' ^^^ poly else r') 0

/-- `CRC16.calculate(bits.tobytes(), mask)` for a bit string of whole octets -/
def crc16 (mask : Nat) (bits : Bits) : Nat := (crcReg 16 0x1021 bits ^^^ 0xFFFF) ^^^ mask

/-- `CRC9.calculate(bits, mask)` -/
def crc9 (mask : Nat) (bits : Bits) : Nat := (crcReg 9 0x59 bits ^^^ 0x1FF) ^^^ mask

/-- `CRC8.calculate(bits)` -/
def crc8 (bits : Bits) : Nat := crcReg 8 0x07 bits

/-! ### token helpers -/

def pNat (s : String) : Option Nat := s.toNat?
def pBool (s : String) : Option Bool := boolOfString s
def pBits (s : String) : Option Bits := bitsOfString' s
def pBytes (s : String) : Option Bytes := hexToBytes s
def sBool (b : Bool) : String := b01 b
def sBits (b : Bits) : String := bitsToString' b
def sBytes (b : Bytes) : String := bytesToHex' b
def commas (l : List String) : String := ",".intercalate l
def args (s : String) : List String := if s == "-" then [] else s.splitOn ","

/-! ### elements -/

def elemByName (n : String) : Option Elem := allElems.find? (fun E => E.name == n)

def elemResToString : ElemRes → String
  | .member v => "M " ++ toString v
  | .valueError => "ERR ValueError"
  | .assertionError => "ERR AssertionError"
  | .otherError => "ERR other"
  | .nothing => "NOTHING"

/-! ### ServiceOptions -/

def soArgs (s : ServiceOptions) : List String :=
  [sBool s.isEmergency, sBool s.isPrivacy, sBits s.reserved, sBool s.isBroadcast, sBool s.isOvcm,
   toString s.priority]

def soParse : List String → Option ServiceOptions
  | [e, p, r, b, o, pr] => do
    pure { isEmergency := ← pBool e, isPrivacy := ← pBool p, reserved := ← pBits r,
           isBroadcast := ← pBool b, isOvcm := ← pBool o, priority := ← pNat pr }
  | _ => none

/-! ### CSBK -/

def csbkPayloadArgs : CsbkPayload → String × List String
  | .bsDwnAct a b => ("bsDwnAct", [toString a, toString b])
  | .uuVReq so t s => ("uuVReq", soArgs so ++ [toString t, toString s])
  | .uuAnsRsp so ar t s => ("uuAnsRsp", soArgs so ++ [toString ar, toString t, toString s])
  | .nackRsp a st sv rc s t => ("nackRsp", [a, st, sv, rc, s, t].map toString)
  | .preamble cf ind btf t s => ("preamble", [sBool cf, sBool ind, toString btf, toString t, toString s])
  | .channelTiming a g l n ld c s sd => ("channelTiming", [a, g, l, n, ld, c, s, sd].map toString)
  | .hyteraIpscSync raw => ("hyteraIpscSync", [sBytes raw])
  | .aloha a b dvc c d mask sf nr reg bo sys tgt =>
    ("aloha", [sBool a, sBool b, toString dvc, sBool c, sBool d, toString mask, toString sf, toString nr,
               sBool reg, toString bo, toString sys, toString tgt])
  | .broadcast at' params reg bo sys =>
    ("broadcast", [toString at', sBits params, sBool reg, toString bo, toString sys])

def csbkPayloadParse (v : String) (a : List String) : Option CsbkPayload :=
  match v, a with
  | "bsDwnAct", [a, b] => do pure (.bsDwnAct (← pNat a) (← pNat b))
  | "uuVReq", [e, p, r, b, o, pr, t, s] => do
    pure (.uuVReq (← soParse [e, p, r, b, o, pr]) (← pNat t) (← pNat s))
  | "uuAnsRsp", [e, p, r, b, o, pr, ar, t, s] => do
    pure (.uuAnsRsp (← soParse [e, p, r, b, o, pr]) (← pNat ar) (← pNat t) (← pNat s))
  | "nackRsp", [a, st, sv, rc, s, t] => do
    pure (.nackRsp (← pNat a) (← pNat st) (← pNat sv) (← pNat rc) (← pNat s) (← pNat t))
  | "preamble", [cf, ind, btf, t, s] => do
    pure (.preamble (← pBool cf) (← pBool ind) (← pNat btf) (← pNat t) (← pNat s))
  | "channelTiming", [a, g, l, n, ld, c, s, sd] => do
    pure (.channelTiming (← pNat a) (← pNat g) (← pNat l) (← pNat n) (← pNat ld) (← pNat c) (← pNat s) (← pNat sd))
  | "hyteraIpscSync", [raw] => do pure (.hyteraIpscSync (← pBytes raw))
  | "aloha", [a, b, dvc, c, d, mask, sf, nr, reg, bo, sys, tgt] => do
    pure (.aloha (← pBool a) (← pBool b) (← pNat dvc) (← pBool c) (← pBool d) (← pNat mask) (← pNat sf)
      (← pNat nr) (← pBool reg) (← pNat bo) (← pNat sys) (← pNat tgt))
  | "broadcast", [at', params, reg, bo, sys] => do
    pure (.broadcast (← pNat at') (← pBits params) (← pBool reg) (← pNat bo) (← pNat sys))
  | _, _ => none

def csbkCrc : Bits → Nat := crc16 0xA5A5

def csbkFields (p : Csbk) : String :=
  let (v, a) := csbkPayloadArgs p.payload
  " ".intercalate [sBool p.lastBlock, sBool p.protectFlag, toString p.fid, toString p.crc, v, commas a]

def csbkParse : List String → Option Csbk
  | [lb, pf, fid, crc, v, a] => do
    pure ⟨← pBool lb, ← pBool pf, ← pNat fid, ← pNat crc, ← csbkPayloadParse v (args a)⟩
  | _ => none

/-! ### data header -/

def dhCrc (bits : Bits) : Nat := crc16 0xCCCC (bytesToBits (bitsToBytes bits))

def dhPayloadArgs : DhPayload → String × List String
  | .confirmed g a poc sap dst src fmf btf rsf ns fsn =>
    ("confirmed", [sBool g, sBool a] ++ [poc, sap, dst, src, fmf, btf, rsf, ns, fsn].map toString)
  | .unconfirmed g a poc sap dst src fmf btf fsn =>
    ("unconfirmed", [sBool g, sBool a] ++ [poc, sap, dst, src, fmf, btf, fsn].map toString)
  | .response a sap dst src fmf btf cls typ st =>
    ("response", [sBool a] ++ [sap, dst, src, fmf, btf, cls, typ, st].map toString)
  | .shortDataDefined g a ab sap dst src ddf sarq fmf pad =>
    ("shortDataDefined", [sBool g, sBool a] ++ [ab, sap, dst, src, ddf, sarq, fmf].map toString ++ [sBits pad])
  | .udt g a e of sap fmt dst src pn ab sf op =>
    ("udt", [sBool g, sBool a, sBool e] ++ [of, sap, fmt, dst, src, pn, ab, sf, op].map toString)

def dhPayloadParse (v : String) (a : List String) : Option DhPayload :=
  match v, a with
  | "confirmed", [g, a, poc, sap, dst, src, fmf, btf, rsf, ns, fsn] => do
    pure (.confirmed (← pBool g) (← pBool a) (← pNat poc) (← pNat sap) (← pNat dst) (← pNat src) (← pNat fmf)
      (← pNat btf) (← pNat rsf) (← pNat ns) (← pNat fsn))
  | "unconfirmed", [g, a, poc, sap, dst, src, fmf, btf, fsn] => do
    pure (.unconfirmed (← pBool g) (← pBool a) (← pNat poc) (← pNat sap) (← pNat dst) (← pNat src) (← pNat fmf)
      (← pNat btf) (← pNat fsn))
  | "response", [a, sap, dst, src, fmf, btf, cls, typ, st] => do
    pure (.response (← pBool a) (← pNat sap) (← pNat dst) (← pNat src) (← pNat fmf) (← pNat btf) (← pNat cls)
      (← pNat typ) (← pNat st))
  | "shortDataDefined", [g, a, ab, sap, dst, src, ddf, sarq, fmf, pad] => do
    pure (.shortDataDefined (← pBool g) (← pBool a) (← pNat ab) (← pNat sap) (← pNat dst) (← pNat src) (← pNat ddf)
      (← pNat sarq) (← pNat fmf) (← pBits pad))
  | "udt", [g, a, e, of, sap, fmt, dst, src, pn, ab, sf, op] => do
    pure (.udt (← pBool g) (← pBool a) (← pBool e) (← pNat of) (← pNat sap) (← pNat fmt) (← pNat dst) (← pNat src)
      (← pNat pn) (← pNat ab) (← pNat sf) (← pNat op))
  | _, _ => none

def dhFields (p : DataHeader) : String :=
  let (v, a) := dhPayloadArgs p.payload
  " ".intercalate [sBits p.crc, v, commas a]

def dhParse : List String → Option DataHeader
  | [crc, v, a] => do pure ⟨← pBits crc, ← dhPayloadParse v (args a)⟩
  | _ => none

/-! ### full link control -/

def flcPayloadArgs : FlcPayload → String × List String
  | .unitToUnit so t s => ("unitToUnit", soArgs so ++ [toString t, toString s])
  | .group so g s => ("group", soArgs so ++ [toString g, toString s])
  | .gpsInfo pe lon lat => ("gpsInfo", [toString pe, toString lon, toString lat])
  | .talkerAliasHeader fmt len msb data => ("talkerAliasHeader", [toString fmt, toString len, sBool msb, sBytes data])
  | .talkerAliasBlock c data => ("talkerAliasBlock", [toString c, sBytes data])

def flcPayloadParse (v : String) (a : List String) : Option FlcPayload :=
  match v, a with
  | "unitToUnit", [e, p, r, b, o, pr, t, s] => do
    pure (.unitToUnit (← soParse [e, p, r, b, o, pr]) (← pNat t) (← pNat s))
  | "group", [e, p, r, b, o, pr, t, s] => do
    pure (.group (← soParse [e, p, r, b, o, pr]) (← pNat t) (← pNat s))
  | "gpsInfo", [pe, lon, lat] => do pure (.gpsInfo (← pNat pe) (← intOfString lon) (← intOfString lat))
  | "talkerAliasHeader", [fmt, len, msb, data] => do
    pure (.talkerAliasHeader (← pNat fmt) (← pNat len) (← pBool msb) (← pBytes data))
  | "talkerAliasBlock", [c, data] => do pure (.talkerAliasBlock (← pNat c) (← pBytes data))
  | _, _ => none

def flcFields (p : FullLc) : String :=
  let (v, a) := flcPayloadArgs p.payload
  " ".intercalate [sBool p.protectFlag, toString p.fid, sBits p.crc, v, commas a]

def flcParse : List String → Option FullLc
  | [pf, fid, crc, v, a] => do pure ⟨← pBool pf, ← pNat fid, ← pBits crc, ← flcPayloadParse v (args a)⟩
  | _ => none

/-! ### short link control, PI header -/

/-- `int2ba(CRC8.calculate(bits), length=8, endian="little")` in index order -/
def slcCrc (bits : Bits) : Bits := (natToBits 8 (crc8 bits)).reverse

def slcPayloadArgs : SlcPayload → String × List String
  | .null => ("null", [])
  | .activity t1 t2 a1 a2 => ("activity", [toString t1, toString t2, sBits a1, sBits a2])

def slcPayloadParse (v : String) (a : List String) : Option SlcPayload :=
  match v, a with
  | "null", [] => some .null
  | "activity", [t1, t2, a1, a2] => do pure (.activity (← pNat t1) (← pNat t2) (← pBits a1) (← pBits a2))
  | _, _ => none

def slcFields (p : ShortLc) : String :=
  let (v, a) := slcPayloadArgs p.payload
  " ".intercalate [sBits p.crc, v, if a.isEmpty then "-" else commas a]

def slcParse : List String → Option ShortLc
  | [crc, v, a] => do pure ⟨← pBits crc, ← slcPayloadParse v (args a)⟩
  | _ => none

def piCrc : Bits → Nat := crc16 0x6969

/-! ### rate-coded data blocks -/

def rateCfgByName : String → Option (RateCfg × Nat)
  | "12" => some (rate12, 0x0F0)
  | "34" => some (rate34, 0x1FF)
  | "1" => some (rate1, 0x10F)
  | _ => none

def rateTypeByName : String → Option RateType
  | "unconfirmed" => some .unconfirmed
  | "confirmed" => some .confirmed
  | "unconfirmedLast" => some .unconfirmedLast
  | "confirmedLast" => some .confirmedLast
  | "undefined" => some .undefined
  | _ => none

/-- `CRC9.calculate_from_parts(data, dbsn, crc32, mask)` -/
def rateCrc9 (mask : Nat) (data : Bytes) (dbsn crc32 : Nat) : Nat :=
  crc9 mask (bytesToBits data ++ ((if crc32 = 0 then [] else natToBits 32 crc32) ++ natToBits 7 dbsn))

def rateFields (p : RateData) : String :=
  " ".intercalate [sBytes p.data, toString p.dbsn, toString p.crc9, toString p.crc32]

/-! ### UDP/IPv4 compressed header -/

def sOptNat : Option Nat → String
  | some v => toString v
  | none => "-"

def pOptNat (s : String) : Option (Option Nat) := if s == "-" then some none else (pNat s).map some

def udpFields (p : UdpHeader) : String :=
  " ".intercalate [toString p.ipv4Identification, toString p.sourceIpAddressId, toString p.destinationIpAddressId,
    toString p.udpSourcePort, toString (UdpHeader.portMember p.udpSourcePort),
    toString p.udpDestinationPort, toString (UdpHeader.portMember p.udpDestinationPort),
    sOptNat p.extendedHeader1, sOptNat p.extendedHeader2, sBits p.userData]

def udpParse : List String → Option UdpHeader
  | [id, sip, dip, sp, _, dp, _, e1, e2, ud] => do
    pure ⟨← pNat id, ← pNat sip, ← pNat dip, ← pNat sp, ← pNat dp, ← pOptNat e1, ← pOptNat e2, ← pBits ud⟩
  | _ => none

def pduOp (op : String) (a : List String) : Option String :=
  match op, a with
  | "elem", [n, v] => do
    let E ← elemByName n
    let v ← pNat v
    some (elemResToString (E.lookup v))
  | "so.dec", [bs] => do
    let bs ← pBits bs
    some (match ServiceOptions.dec bs with
      | .ok s => "ok " ++ commas (soArgs s) ++ " " ++ sBits s.enc
      | .error e => e.toString)
  | "so.enc", [a] => do
    let s ← soParse (args a)
    some (sBits s.enc)
  | "csbk.dec", [bs] => do
    let bs ← pBits bs
    some (match Csbk.dec csbkCrc bs with
      | .ok p => "ok " ++ csbkFields p ++ " " ++ sBits p.enc
      | .error e => e.toString)
  | "csbk.enc", f => do
    let p ← csbkParse f
    let q := Csbk.init csbkCrc p
    some (sBits q.enc)
  | "dh.dec", [bs] => do
    let bs ← pBits bs
    some (match DataHeader.dec dhCrc bs with
      | .ok p => "ok " ++ dhFields p ++ " " ++ sBits p.enc
      | .error e => e.toString)
  | "dh.enc", f => do
    let p ← dhParse f
    some (sBits (DataHeader.init dhCrc p).enc)
  | "flc.dec", [bs] => do
    let bs ← pBits bs
    some (match FullLc.dec bs with
      | .ok p => "ok " ++ flcFields p ++ " " ++ sBits p.enc
      | .error e => e.toString)
  | "flc.enc", f => do
    let p ← flcParse f
    some (sBits p.enc)
  | "slc.dec", [bs] => do
    let bs ← pBits bs
    some (match ShortLc.dec slcCrc bs with
      | .ok p => "ok " ++ slcFields p ++ " " ++ sBits p.enc
      | .error e => e.toString)
  | "slc.enc", f => do
    let p ← slcParse f
    some (sBits (ShortLc.init slcCrc p).enc)
  | "pi.dec", [bs] => do
    let bs ← pBits bs
    some (match PiHeader.dec piCrc bs with
      | .ok p => "ok " ++ sBytes p.data ++ " " ++ toString p.crc ++ " " ++ sBits p.enc
      | .error e => e.toString)
  | "pi.enc", [d, _] => do
    let d ← pBytes d
    some (sBits (PiHeader.init piCrc d).enc)
  | "rate.dec", [c, t, bs] => do
    let (cfg, mask) ← rateCfgByName c
    let t ← rateTypeByName t
    let bs ← pBits bs
    some (match RateData.dec cfg (rateCrc9 mask) t bs with
      | .ok p => "ok " ++ rateFields p ++ " " ++ sBits (RateData.enc cfg p)
      | .error e => e.toString)
  | "rate.enc", [c, t, d, dbsn, c9, c32] => do
    let (cfg, mask) ← rateCfgByName c
    let t ← rateTypeByName t
    let a : RateData := ⟨← pBytes d, ← pNat dbsn, ← pNat c9, ← pNat c32⟩
    some (match RateData.init cfg (rateCrc9 mask) t a with
      | .ok p => toString p.crc9 ++ " " ++ sBits (RateData.enc cfg p)
      | .error e => e.toString)
  | "rate.convert", [c, t, d, dbsn, c9, c32, t2] => do
    let (cfg, mask) ← rateCfgByName c
    let t ← rateTypeByName t
    let t2 ← rateTypeByName t2
    let a : RateData := ⟨← pBytes d, ← pNat dbsn, ← pNat c9, ← pNat c32⟩
    some (match RateData.init cfg (rateCrc9 mask) t a with
      | .ok p =>
        (match RateData.convert cfg (rateCrc9 mask) p t2 with
         | .ok q => "ok " ++ rateFields q ++ " " ++ sBits (RateData.enc cfg q)
         | .error e => e.toString)
      | .error e => e.toString)
  | "udp.dec", [bs] => do
    let bs ← pBits bs
    some (match UdpHeader.dec bs with
      | .ok p => "ok " ++ udpFields p ++ " " ++ sBits p.enc
      | .error e => e.toString)
  | "udp.enc", f => do
    let p ← udpParse f
    some (sBits p.enc)
  | _, _ => none

/-! ### `x.encattrs <every attribute of the object>` → bits of `as_bits()` read off the whole attribute record
(`Model/PduArgs.lean`); `-` stands for `None` / an absent value (read as 0 / empty: the format never reads it then) -/

def pNatD (s : String) : Option Nat := if s == "-" then some 0 else pNat s
def pBoolD (s : String) : Option Bool := if s == "-" then some false else pBool s
def pIntD (s : String) : Option Int := if s == "-" then some 0 else intOfString s
def soParseD (s : String) : Option ServiceOptions := if s == "-" then some default else soParse (args s)
def optBits : Option Bits → String
  | some b => sBits b
  | none => "ERR none"

def dhArgsParse : List String → Option DhArgs
  | [dpf, crc, g, a, poc, sap, dst, src, fmf, btf, rsf, ns, fsn, cls, typ, st, ab, ddf, sarq, pad, em, ofl, pn, fmt, op, sf] => do
    pure { dpf := ← pNatD dpf, crc := ← pBits crc, isGroup := ← pBoolD g, respReq := ← pBoolD a, padOctets := ← pNatD poc,
           sap := ← pNatD sap, dst := ← pNatD dst, src := ← pNatD src, fmf := ← pNatD fmf, btf := ← pNatD btf,
           rsf := ← pNatD rsf, sendSeq := ← pNatD ns, fsn := ← pNatD fsn, cls := ← pNatD cls, typ := ← pNatD typ,
           status := ← pNatD st, appendedBlocks := ← pNatD ab, ddf := ← pNatD ddf, sarq := ← pNatD sarq,
           bitPadding := ← pBits pad, emergency := ← pBoolD em, optionFlag := ← pNatD ofl, padNibbles := ← pNatD pn,
           udtFormat := ← pNatD fmt, udtOpcode := ← pNatD op, sf := ← pNatD sf }
  | _ => none

def csbkArgsParse : List String → Option CsbkArgs
  -- (a list literal of more than 32 elements is not a pattern: the first twenty as a cons chain)
  | op :: lb :: pf :: fid :: crc :: bsa :: src :: so :: tgt :: ar :: aif :: st :: svc :: rc :: cf :: ind :: btf :: age :: gen :: lid ::
     [nl, ldi, cto, sid, sdi, tsccas, sync, dvc, off, act, mask, sfn, nrand, reg, backoff, sys, raw, at', params] => do
    pure { opcode := ← pNatD op, lastBlock := ← pBoolD lb, protectFlag := ← pBoolD pf, fid := ← pNatD fid, crc := ← pNatD crc,
           bsAddress := ← pNatD bsa, sourceAddress := ← pNatD src, serviceOptions := ← soParseD so, targetAddress := ← pNatD tgt,
           answerResponse := ← pNatD ar, additionalInformationField := ← pNatD aif, sourceType := ← pNatD st,
           serviceType := ← pNatD svc, reasonCode := ← pNatD rc, contentFollowsPreambles := ← pBoolD cf,
           targetIsIndividual := ← pBoolD ind, blocksToFollow := ← pNatD btf, syncAge := ← pNatD age, generation := ← pNatD gen,
           leaderIdentifier := ← pNatD lid, newLeader := ← pNatD nl, leaderDynamicIdentifier := ← pNatD ldi,
           channelTimingOpcode := ← pNatD cto, sourceIdentifier := ← pNatD sid, sourceDynamicIdentifier := ← pNatD sdi,
           tsccasSupport := ← pBoolD tsccas, siteTimeslotSynchronized := ← pBoolD sync, documentVersionControl := ← pNatD dvc,
           tsccIsOffsetTiming := ← pBoolD off, tsActiveConnection := ← pBoolD act, alohaMask := ← pNatD mask,
           serviceFunction := ← pNatD sfn, nrandWait := ← pNatD nrand, tsccRegRequired := ← pBoolD reg,
           tsccBackoff := ← pNatD backoff, systemIdentityCode := ← pNatD sys, rawData := ← pBytes raw,
           announcementType := ← pNatD at', broadcastParams := ← pBits params }
  | _ => none

def flcArgsParse : List String → Option FlcArgs
  | [pf, flco, fid, crc, so, grp, src, tgt, pe, lon, lat, fmt, len, msb, data] => do
    pure { protectFlag := ← pBoolD pf, flco := ← pNatD flco, fid := ← pNatD fid, crc := ← pBits crc, serviceOptions := ← soParseD so,
           groupAddress := ← pNatD grp, sourceAddress := ← pNatD src, targetAddress := ← pNatD tgt, positionError := ← pNatD pe,
           longitudeRaw := ← pIntD lon, latitudeRaw := ← pIntD lat, dataFormat := ← pNatD fmt, dataLength := ← pNatD len,
           dataMsb := ← pBoolD msb, data := ← pBytes data }
  | _ => none

def slcArgsParse : List String → Option SlcArgs
  | [slco, crc, t1, t2, a1, a2] => do
    pure { slco := ← pNatD slco, crc := ← pBits crc, ts1 := ← pNatD t1, ts2 := ← pNatD t2, addr1 := ← pBits a1, addr2 := ← pBits a2 }
  | _ => none

def pduArgsOp (op : String) (a : List String) : Option String :=
  match op with
  | "dh.encattrs" => do
    let x ← dhArgsParse a
    some (match DhArgs.enc x with | some b => sBits b | none => Err.notImplemented.toString)
  | "csbk.encattrs" => do
    let x ← csbkArgsParse a
    some (sBits (CsbkArgs.enc x))
  | "flc.encattrs" => do
    let x ← flcArgsParse a
    some (match FlcArgs.enc x with | some b => sBits b | none => Err.keyError.toString)
  | "slc.encattrs" => do
    let x ← slcArgsParse a
    some (match SlcArgs.enc x with | some b => sBits b | none => Err.keyError.toString)
  | _ => none

end Dmr.Driver
