import DmrVerif.Model.PduCsbk

/-!
Line-protocol operations for the PDU / element codecs (C03).

Every PDU kind `x` has two operations:

* `x.dec <bits>`            → `ok <fields> <re-encoded bits>`  or  `ERR <ExceptionClass>`
* `x.enc <fields>`          → `<bits of as_bits()>` of the object the constructor builds

`<fields>` is the same text in both directions (space separated header fields, a variant name and a
comma separated argument list), so the harness needs one formatter per kind.  The CRC functions the
theorems are generic in are instantiated here with a plain bitwise CRC (CCITT / CRC-9 / CRC-8 with the
library's inversion and masks); the correspondence run checks that instantiation against the real code.
-/

namespace Dmr.Driver
open Dmr Dmr.Gen

/-! ### concrete CRCs (driver only; the proofs are generic in them) -/

/-- MSB-first bitwise CRC register, initial value 0 -/
def crcReg (w poly : Nat) (bits : Bits) : Nat :=
  bits.foldl (fun r b =>
    let top := r / 2 ^ (w - 1) % 2 == 1
    let r' := (2 * r) % 2 ^ w
    if top != b then r' ^^^ poly else r') 0

/-- `CRC16.calculate(bits.tobytes(), mask)` for a bit string of whole octets -/
def crc16 (mask : Nat) (bits : Bits) : Nat := (crcReg 16 0x1021 bits ^^^ 0xFFFF) ^^^ mask

/-- `CRC9.calculate(bits, mask)` -/
def crc9 (mask : Nat) (bits : Bits) : Nat := (crcReg 9 0x59 bits ^^^ 0x1FF) ^^^ mask

/-- `CRC8.calculate(bits)` -/
def crc8 (bits : Bits) : Nat := crcReg 8 0x07 bits

/-! ### token helpers -/

def pNat (s : String) : Option Nat := s.toNat?
def pBool (s : String) : Option Bool := boolOfString s
def pBits (s : String) : Option Bits := bitsOfString' s
def pBytes (s : String) : Option Bytes := hexToBytes s
def sBool (b : Bool) : String := b01 b
def sBits (b : Bits) : String := bitsToString' b
def sBytes (b : Bytes) : String := bytesToHex' b
def commas (l : List String) : String := ",".intercalate l
def args (s : String) : List String := if s == "-" then [] else s.splitOn ","

/-! ### elements -/

def elemByName (n : String) : Option Elem := allElems.find? (fun E => E.name == n)

def elemResToString : ElemRes → String
  | .member v => "M " ++ toString v
  | .valueError => "ERR ValueError"
  | .assertionError => "ERR AssertionError"
  | .otherError => "ERR other"
  | .nothing => "NOTHING"

/-! ### ServiceOptions -/

def soArgs (s : ServiceOptions) : List String :=
  [sBool s.isEmergency, sBool s.isPrivacy, sBits s.reserved, sBool s.isBroadcast, sBool s.isOvcm,
   toString s.priority]

def soParse : List String → Option ServiceOptions
  | [e, p, r, b, o, pr] => do
    pure { isEmergency := ← pBool e, isPrivacy := ← pBool p, reserved := ← pBits r,
           isBroadcast := ← pBool b, isOvcm := ← pBool o, priority := ← pNat pr }
  | _ => none

/-! ### CSBK -/

def csbkPayloadArgs : CsbkPayload → String × List String
  | .bsDwnAct a b => ("bsDwnAct", [toString a, toString b])
  | .uuVReq so t s => ("uuVReq", soArgs so ++ [toString t, toString s])
  | .uuAnsRsp so ar t s => ("uuAnsRsp", soArgs so ++ [toString ar, toString t, toString s])
  | .nackRsp a st sv rc s t => ("nackRsp", [a, st, sv, rc, s, t].map toString)
  | .preamble cf ind btf t s => ("preamble", [sBool cf, sBool ind, toString btf, toString t, toString s])
  | .channelTiming a g l n ld c s sd => ("channelTiming", [a, g, l, n, ld, c, s, sd].map toString)
  | .hyteraIpscSync raw => ("hyteraIpscSync", [sBytes raw])
  | .aloha a b dvc c d mask sf nr reg bo sys tgt =>
    ("aloha", [sBool a, sBool b, toString dvc, sBool c, sBool d, toString mask, toString sf, toString nr,
               sBool reg, toString bo, toString sys, toString tgt])
  | .broadcast at' params reg bo sys =>
    ("broadcast", [toString at', sBits params, sBool reg, toString bo, toString sys])

def csbkPayloadParse (v : String) (a : List String) : Option CsbkPayload :=
  match v, a with
  | "bsDwnAct", [a, b] => do pure (.bsDwnAct (← pNat a) (← pNat b))
  | "uuVReq", [e, p, r, b, o, pr, t, s] => do
    pure (.uuVReq (← soParse [e, p, r, b, o, pr]) (← pNat t) (← pNat s))
  | "uuAnsRsp", [e, p, r, b, o, pr, ar, t, s] => do
    pure (.uuAnsRsp (← soParse [e, p, r, b, o, pr]) (← pNat ar) (← pNat t) (← pNat s))
  | "nackRsp", [a, st, sv, rc, s, t] => do
    pure (.nackRsp (← pNat a) (← pNat st) (← pNat sv) (← pNat rc) (← pNat s) (← pNat t))
  | "preamble", [cf, ind, btf, t, s] => do
    pure (.preamble (← pBool cf) (← pBool ind) (← pNat btf) (← pNat t) (← pNat s))
  | "channelTiming", [a, g, l, n, ld, c, s, sd] => do
    pure (.channelTiming (← pNat a) (← pNat g) (← pNat l) (← pNat n) (← pNat ld) (← pNat c) (← pNat s) (← pNat sd))
  | "hyteraIpscSync", [raw] => do pure (.hyteraIpscSync (← pBytes raw))
  | "aloha", [a, b, dvc, c, d, mask, sf, nr, reg, bo, sys, tgt] => do
    pure (.aloha (← pBool a) (← pBool b) (← pNat dvc) (← pBool c) (← pBool d) (← pNat mask) (← pNat sf)
      (← pNat nr) (← pBool reg) (← pNat bo) (← pNat sys) (← pNat tgt))
  | "broadcast", [at', params, reg, bo, sys] => do
    pure (.broadcast (← pNat at') (← pBits params) (← pBool reg) (← pNat bo) (← pNat sys))
  | _, _ => none

def csbkCrc : Bits → Nat := crc16 0xA5A5

def csbkFields (p : Csbk) : String :=
  let (v, a) := csbkPayloadArgs p.payload
  " ".intercalate [sBool p.lastBlock, sBool p.protectFlag, toString p.fid, toString p.crc, v, commas a]

def csbkParse : List String → Option Csbk
  | [lb, pf, fid, crc, v, a] => do
    pure ⟨← pBool lb, ← pBool pf, ← pNat fid, ← pNat crc, ← csbkPayloadParse v (args a)⟩
  | _ => none

def pduOp (op : String) (a : List String) : Option String :=
  match op, a with
  | "elem", [n, v] => do
    let E ← elemByName n
    let v ← pNat v
    some (elemResToString (E.lookup v))
  | "so.dec", [bs] => do
    let bs ← pBits bs
    some (match ServiceOptions.dec bs with
      | .ok s => "ok " ++ commas (soArgs s) ++ " " ++ sBits s.enc
      | .error e => e.toString)
  | "so.enc", [a] => do
    let s ← soParse (args a)
    some (sBits s.enc)
  | "csbk.dec", [bs] => do
    let bs ← pBits bs
    some (match Csbk.dec csbkCrc bs with
      | .ok p => "ok " ++ csbkFields p ++ " " ++ sBits p.enc
      | .error e => e.toString)
  | "csbk.enc", f => do
    let p ← csbkParse f
    let q := Csbk.init csbkCrc p
    some (sBits q.enc)
  | _, _ => none

end Dmr.Driver
