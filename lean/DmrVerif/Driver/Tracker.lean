import DmrVerif.Model.Tracker

/-!
Line-protocol operations for the transmission tracker (C08; receiver side of C07), stateful:

```
t.init <raises e.g. 10>                      -> ok
t.burst <1|2> <symbol…>                      -> <seq> <label> <stream> <cc> <new events of observer 0>|<observer 1>|…
t.flush                                      -> <new events of observer 0>|…   (end_all_transmissions)
t.state                                      -> <slot 1> / <slot 2>
t.diag <sap> <stdout dead 0|1> <user data hex|->  -> skipped | printed | print-failed | undecodable   (stateless)
```
symbols: `vh <hex> <cc>` voice LC header, `tm <hex> <cc>` terminator, `dh <btf|-> <a> <sap> <hex> <cc>` data
header, `cs <pre> <btf> <hex> <cc>` CSBK, `r12|r34|r1 <hex> <cc>` rate-x block, `ot <cc>` other data type,
`vs` voice SYNC burst, `ve <cc|->` vocoder burst without SYNC.
-/

namespace Dmr.Driver
open Dmr Dmr.Tracker

def errStr : Err → String
  | .assertion => "ERR AssertionError"
  | .value => "ERR ValueError"

def vbStr : VB → String
  | .unknown => "U" | .a => "A" | .b => "B" | .c => "C" | .d => "D" | .e => "E" | .f => "F"

def txStr : TxType → String
  | .idle => "I" | .voice => "V" | .data => "D"

def rateStr : Rate → String
  | .r12 => "R12" | .r34 => "R34" | .r1 => "R1"

def hdrStr : Hdr → String
  | .flc raw => "F" ++ bytesToHex' raw
  | .data h => "D" ++ bytesToHex' h.raw

def blockStr : Block → String
  | .hdr h => "H" ++ bytesToHex' h.raw
  | .csbk raw => "C" ++ bytesToHex' raw
  | .rate r t bits =>
    rateStr r ++ "." ++ toString (dataOctets r t) ++ "." ++ bytesToHex' (blockData r t bits) ++ "."
      ++ toString (blockDbsn t bits) ++ "." ++ toString (blockCrc32 r t bits)

def listStr (l : List String) : String := if l.isEmpty then "-" else ",".intercalate l

def eventStr : Event → String
  | .started t => "S:" ++ txStr t
  | .dataEnded h bl => "DE:" ++ hdrStr h ++ ":[" ++ listStr (bl.map blockStr) ++ "]"
  | .voiceEnded h bl => "VE:" ++ hdrStr h ++ ":[" ++ listStr (bl.map blockStr) ++ "]"

def eventsStr (l : List Event) : String := if l.isEmpty then "-" else ";".intercalate (l.map eventStr)

def ccOf (s : String) : Option (Option Nat) :=
  if s == "-" then some none else s.toNat?.map some

def flag (s : String) : Option Bool :=
  if s == "1" then some true else if s == "0" then some false else none

def symbolOf : List String → Option AbsBurst
  | ["vh", hex, cc] => do
    let raw ← hexToBytes hex; let c ← ccOf cc
    pure ⟨.voiceHeader raw, c⟩
  | ["tm", hex, cc] => do
    let raw ← hexToBytes hex; let c ← ccOf cc
    pure ⟨.terminator raw, c⟩
  | ["dh", btf, a, sap, hex, cc] => do
    let b ← ccOf btf; let a ← flag a; let sap ← sap.toNat?; let raw ← hexToBytes hex; let c ← ccOf cc
    pure ⟨.dataHeader { btf := b, a := a, sap := sap, raw := raw }, c⟩
  | ["cs", pre, btf, hex, cc] => do
    let p ← flag pre; let b ← btf.toNat?; let raw ← hexToBytes hex; let c ← ccOf cc
    pure ⟨.csbk p b raw, c⟩
  | ["r12", hex, cc] => do
    let raw ← hexToBytes hex; let c ← ccOf cc
    pure ⟨.rate .r12 (bytesToBits raw), c⟩
  | ["r34", hex, cc] => do
    let raw ← hexToBytes hex; let c ← ccOf cc
    pure ⟨.rate .r34 (bytesToBits raw), c⟩
  | ["r1", hex, cc] => do
    let raw ← hexToBytes hex; let c ← ccOf cc
    pure ⟨.rate .r1 (bytesToBits raw), c⟩
  | ["ot", cc] => do
    let c ← ccOf cc
    pure ⟨.other, c⟩
  | ["vs"] => some ⟨.voice true, none⟩
  | ["ve", cc] => do
    let c ← ccOf cc
    pure ⟨.voice false, c⟩
  | _ => none

def slotStr (s : Slot) : String :=
  " ".intercalate [txStr s.tx.type, toString s.tx.expected, toString s.tx.received, vbStr s.tx.lastVoice,
    (if s.tx.confirmed then "1" else "0"), toString s.tx.blocks.length,
    (match s.tx.header with | none => "-" | some h => hdrStr h),
    toString s.tx.streamNo, toString s.cc, toString s.rxSeq, (if s.reset then "1" else "0")]

/-- driver state: the terminal, or `none` before `t.init` / after a burst that raised -/
abbrev TrackerState := Option Terminal

def trackerStep (st : TrackerState) (op : String) (args : List String) : TrackerState × String :=
  match op, args with
  | "t.init", [r] =>
    match bitsOfString r with
    | some raises => (some (Terminal.init raises), "ok")
    | none => (none, "ERR bad-args")
  | "t.init", [] => (some (Terminal.init []), "ok")
  | "t.burst", slot :: sym =>
    match st, symbolOf sym, (if slot == "1" then some false else if slot == "2" then some true else none) with
    | some t, some b, some two =>
      match t.step (two, b) with
      | .error e => (none, errStr e)
      | .ok (t', out) =>
        -- what every observer recorded during this burst
        let news := (t.obs.zip t'.obs).map fun (o, o') => eventsStr (o'.log.drop o.log.length)
        (some t', " ".intercalate [toString out.seq, vbStr out.label, toString out.stream,
            toString (t'.slot two).cc, (if news.isEmpty then "-" else "|".intercalate news)])
    | none, _, _ => (none, "ERR no-terminal")
    | _, _, _ => (st, "ERR bad-args")
  | "t.flush", [] =>
    match st with
    | some t =>
      let (t', _) := t.flush
      let news := (t.obs.zip t'.obs).map fun (o, o') => eventsStr (o'.log.drop o.log.length)
      (some t', if news.isEmpty then "-" else "|".intercalate news)
    | none => (st, "ERR no-terminal")
  | "t.diag", [sap, dead, hex] =>
    match sap.toNat?, flag dead, (if hex == "-" then some [] else hexToBytes hex) with
    | some sap, some dead, some data =>
      (st, match diagOutcomeData dead sap data with
        | .skipped => "skipped" | .printed => "printed" | .printFailed => "print-failed"
        | .undecodable => "undecodable")
    | _, _, _ => (st, "ERR bad-args")
  | "t.state", [] =>
    match st with
    | some t => (st, slotStr t.s1 ++ " / " ++ slotStr t.s2 ++ " / " ++ toString t.oracle)
    | none => (st, "ERR no-terminal")
  | _, _ => (st, "ERR bad-op " ++ op)

end Dmr.Driver
