import DmrVerif.Model.CrcFront

/-! line-protocol operations for the CRC engine and front ends (C05, reused by C04) -/

namespace Dmr.Driver
open Dmr Dmr.Gen Dmr.Crc

/-- "-" encodes the empty bit string -/
def bitsArg (s : String) : Option Bits := if s == "-" then some [] else bitsOfString s

def bitsOut (bs : Bits) : String := if bs.isEmpty then "-" else bitsToString bs

def crcTbl7 : List Bits := lookupTable crc7.w crc7.poly
def crcTbl8 : List Bits := lookupTable Gen.crc8.w Gen.crc8.poly
def crcTbl9 : List Bits := lookupTable Gen.crc9.w Gen.crc9.poly
def crcTbl16 : List Bits := lookupTable Gen.crc16.w Gen.crc16.poly
def crcTbl32 : List Bits := lookupTable Gen.crc32.w Gen.crc32.poly

def crcCfgByName : String → Option (CrcConfig × List Bits)
  | "crc7" => some (crc7, crcTbl7)
  | "crc8" => some (Gen.crc8, crcTbl8)
  | "crc9" => some (Gen.crc9, crcTbl9)
  | "crc16" => some (Gen.crc16, crcTbl16)
  | "crc32" => some (Gen.crc32, crcTbl32)
  | _ => none

def flagArg : String → Option Bool
  | "0" => some false
  | "1" => some true
  | _ => none

def exceptOut {α : Type} (f : α → String) : Except CrcErr α → String
  | .ok v => f v
  | .error e => e.toString

def boolOut (b : Bool) : String := if b then "1" else "0"

def crc32ArgOf (s : String) : Option Crc32Arg :=
  if s == "none" then some .none
  else if s.startsWith "i:" then (String.ofList (s.toList.drop 2)).toInt?.map .int
  else if s.startsWith "b:" then (hexToBytes (String.ofList (s.toList.drop 2))).map .bytes
  else none

/-- the configurations of the front-end singletons must be modelled ones -/
def frontsModelled : Bool :=
  !(front8.1.revIn || front9.1.revIn || front16.1.revIn || front32.1.revIn)

def crcOp (op : String) (args : List String) : Option String :=
  match op, args with
  | "crc.fw", [w] => do
    let w ← w.toNat?
    some (toString (calcFeedWidth w))
  | "crc.bit", [c, bs] => do
    let (c, _) ← crcCfgByName c
    let bs ← bitsArg bs
    if c.revIn then some "ERR unmodelled" else
    some (bitsOut (calcBitwise c bs))
  | "crc.tab", [c, le, bs] => do
    let (c, tbl) ← crcCfgByName c
    let le ← flagArg le
    let bs ← bitsArg bs
    if c.revIn then some "ERR unmodelled" else
    some (exceptOut bitsOut (calcTableWith c tbl le bs))
  | "crc.tbl", [c, idx] => do
    let (_, tbl) ← crcCfgByName c
    let idx ← idx.toNat?
    match tbl[idx]? with
    | some e => some (bitsOut e)
    | none => some "ERR IndexError"
  | "crc.tbllen", [c] => do
    let (_, tbl) ← crcCfgByName c
    some (toString tbl.length)
  | "crc.verify", [c, mode, bs, e] => do
    let (c, tbl) ← crcCfgByName c
    let bs ← bitsArg bs
    let e ← e.toInt?
    if c.revIn then some "ERR unmodelled" else
    match mode with
    | "b" => some (boolOut ((bitsToNat (calcBitwise c bs) : Int) == e))
    | "t" => some (exceptOut boolOut ((calcTableWith c tbl false bs).map (fun r => (bitsToNat r : Int) == e)))
    | _ => none
  | "crc8", [le, bs] => do
    let le ← flagArg le
    let bs ← bitsArg bs
    if !frontsModelled then some "ERR unmodelled" else
    some (exceptOut toString (Crc.crc8 le bs))
  | "crc8.check", [le, bs, v] => do
    let le ← flagArg le
    let bs ← bitsArg bs
    let v ← v.toInt?
    if !frontsModelled then some "ERR unmodelled" else
    some (exceptOut boolOut (crc8Check le bs v))
  | "crc16", [d, m] => do
    let d ← hexToBytes d
    let m ← m.toNat?
    if !frontsModelled then some "ERR unmodelled" else
    some (exceptOut toString (Crc.crc16 d m))
  | "crc16.check", [d, v, m] => do
    let d ← hexToBytes d
    let v ← v.toInt?
    let m ← m.toNat?
    if !frontsModelled then some "ERR unmodelled" else
    some (exceptOut boolOut (crc16Check d v m))
  | "crc9.bits", [le, bs, m] => do
    let le ← flagArg le
    let bs ← bitsArg bs
    let m ← m.toNat?
    if !frontsModelled then some "ERR unmodelled" else
    some (exceptOut toString (crc9Bits le bs m))
  | "crc9", [d, sn, m, c32] => do
    let d ← hexToBytes d
    let sn ← sn.toInt?
    let m ← m.toNat?
    let c32 ← crc32ArgOf c32
    if !frontsModelled then some "ERR unmodelled" else
    some (exceptOut toString (Crc.crc9 d sn m c32))
  | "crc9.check", [d, sn, v, m, c32] => do
    let d ← hexToBytes d
    let sn ← sn.toInt?
    let v ← v.toInt?
    let m ← m.toNat?
    let c32 ← crc32ArgOf c32
    if !frontsModelled then some "ERR unmodelled" else
    some (exceptOut boolOut (crc9Check d sn v m c32))
  | "crc32", [d] => do
    let d ← hexToBytes d
    if !frontsModelled then some "ERR unmodelled" else
    some (exceptOut toString (Crc.crc32 d))
  | "crc32.check", [d, v] => do
    let d ← hexToBytes d
    let v ← v.toInt?
    if !frontsModelled then some "ERR unmodelled" else
    some (exceptOut boolOut (crc32Check d v))
  | _, _ => none

end Dmr.Driver
