import DmrVerif.Driver.Transl
import DmrVerif.Gen.TranslHytera

/-! `t.hy.*`: the definitions translated from `hytera/pdu/hdap.py`, `hrnp.py` (C12) -/

namespace Dmr.Driver
open Dmr Dmr.Driver.T

def translHyteraOp (op : String) (args : List String) : Option String :=
  match op, args with
  | "t.hy.hdapsum", [d] => do
    let d ← hexToBytes d
    some (out sBytes (Transl.Hytera.get_hdap_checksum d))
  | "t.hy.hrnpsum", [d] => do
    let d ← hexToBytes d
    some (out sBytes (Transl.Hytera.calculate_checksum d))
  | _, _ => none

end Dmr.Driver
