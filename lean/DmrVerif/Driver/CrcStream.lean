import DmrVerif.Model.CrcStream
import DmrVerif.Driver.Crc

/-!
line-protocol operation for the CRC register objects used in pieces (C05):

    crc.reg <config> <b|t> <call> <call> …      call = i | d | u:<bits or -> | v:<bits or ->

`b` = `BitCrcRegister`, `t` = `TableBasedBitCrcRegister`; `i` = `init()`, `d` = `digest()`,
`u:` = `update(big-endian bitarray)`, `v:` = `update(little-endian bitarray)`.  The register object is
freshly constructed.  Output: the values returned by the `update` / `digest` calls joined by `,`
(`=` if there is none); an exception ends the line with `ERR …` after the values returned so far.
-/

namespace Dmr.Driver
open Dmr Dmr.Gen Dmr.Crc

def regActOf (s : String) : Option RegAct :=
  if s == "i" then some .init
  else if s == "d" then some .digest
  else if s.startsWith "u:" then (bitsArg (String.ofList (s.toList.drop 2))).map (.update false)
  else if s.startsWith "v:" then (bitsArg (String.ofList (s.toList.drop 2))).map (.update true)
  else none

def regOut (res : List Bits × Option CrcErr) : String :=
  let parts := res.1.map bitsOut ++ (match res.2 with | some e => [e.toString] | none => [])
  if parts.isEmpty then "=" else ",".intercalate parts

def crcStreamOp (op : String) (args : List String) : Option String :=
  match op, args with
  | "crc.reg", c :: mode :: acts => do
    let (c, tbl) ← crcCfgByName c
    let table ← (match mode with | "b" => some false | "t" => some true | _ => none)
    let acts ← acts.mapM regActOf
    if c.revIn then some "ERR unmodelled" else
    let k : RegKind := { c := c, table := table, tbl := tbl }
    some (regOut (regRun k (regNew k) acts))
  | _, _ => none

end Dmr.Driver
