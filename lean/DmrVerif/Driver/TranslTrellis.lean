import DmrVerif.Driver.Transl
import DmrVerif.Gen.TranslTrellis

/-! `t.tr.*`: the definitions translated from `etsi/fec/trellis.py` (C10).  Bit strings as `0101…` (`-` = empty), arrays as
comma separated ints (`-` = empty), bytes as hex. -/

namespace Dmr.Driver
open Dmr Dmr.Driver.T

def T.sBits (b : List Bool) : String := if b.isEmpty then "-" else bitsToString b
def T.sInts (l : List Int) : String := if l.isEmpty then "-" else ",".intercalate (l.map toString)
def T.pBits (s : String) : Option (List Bool) := if s == "-" then some [] else bitsOfString s
def T.pInts (s : String) : Option (List Int) := if s == "-" then some [] else (s.splitOn ",").mapM String.toInt?

def translTrellisOp (op : String) (args : List String) : Option String :=
  match op, args with
  | "t.tr.b2d", [a] => do some (out sInts (Transl.Trellis.bits_to_dibits (← pBits a)))
  | "t.tr.d2b", [a] => do some (out sBits (Transl.Trellis.dibits_to_bits (← pInts a)))
  | "t.tr.deint", [a] => do some (out sInts (Transl.Trellis.deinterleave (← pInts a)))
  | "t.tr.int", [a] => do some (out sInts (Transl.Trellis.interleave (← pInts a)))
  | "t.tr.d2p", [a] => do some (out sInts (Transl.Trellis.dibits_to_points (← pInts a)))
  | "t.tr.p2d", [a] => do some (out sInts (Transl.Trellis.points_to_dibits (← pInts a)))
  | "t.tr.p2t", [a] => do some (out sInts (Transl.Trellis.points_to_tribits (← pInts a)))
  | "t.tr.t2p", [a] => do some (out sInts (Transl.Trellis.tribits_to_points (← pInts a)))
  | "t.tr.t2b", [a] => do some (out sBits (Transl.Trellis.tribits_to_bits (← pInts a)))
  | "t.tr.b2t", [a] => do some (out sInts (Transl.Trellis.bits_to_tribits (← pBits a)))
  | "t.tr.dec", [a] => do some (out sBits (Transl.Trellis.decode (← pBits a)))
  | "t.tr.decb", [a] => do some (out sBytes (Transl.Trellis.decode_as_bytes (← pBits a)))
  | "t.tr.enc", [a] => do some (out sBits (Transl.Trellis.encode (← pBits a)))
  | "t.tr.encb", [a] => do some (out sBits (Transl.Trellis.encode_bytes (← hexToBytes a)))
  | _, _ => none

end Dmr.Driver
