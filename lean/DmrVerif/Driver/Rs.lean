import DmrVerif.Model.Rs

/-! line-protocol operations for Reed–Solomon (12,9) (C11); octet strings as hex, "-" = empty -/

namespace Dmr.Driver
open Dmr Dmr.Rs

def rsOp (op : String) (args : List String) : Option String :=
  match op, args with
  | "rs.mul", [a, b] => do
    let a ← a.toNat?
    let b ← b.toNat?
    match logMultiplyE a b with
    | some v => some (toString v)
    | none => some "ERR IndexError"
  | "rs.gen", [d, m] => do
    let d ← hexToBytes d
    let m ← hexToBytes m
    match generate d m with
    | some w => some (bytesToHex' w)
    | none => some "ERR AssertionError"
  | "rs.check", [w, m] => do
    let w ← hexToBytes w
    let m ← hexToBytes m
    match check w m with
    | some b => some (if b then "1" else "0")
    | none => some "ERR AssertionError"
  | _, _ => none

end Dmr.Driver
