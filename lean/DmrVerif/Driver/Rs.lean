import DmrVerif.Model.Rs

/-! line-protocol operations for Reed–Solomon (12,9) (C11); octet strings as hex, "-" = empty -/

namespace Dmr.Driver
open Dmr Dmr.Rs

def rsOp (op : String) (args : List String) : Option String :=
  match op, args with
  | "rs.mul", [a, b] => do
    let a ← a.toNat?
    let b ← b.toNat?
    match logMultiplyE a b with
    | some v => some (toString v)
    | none => some "ERR IndexError"
  | "rs.gen", [d, m] => do
    let d ← hexToBytes d
    let m ← hexToBytes m
    match generate d m with
    | some w => some (bytesToHex' w)
    | none => some "ERR AssertionError"
  | "rs.check", [w, m] => do
    let w ← hexToBytes w
    let m ← hexToBytes m
    match check w m with
    | some b => some (if b then "1" else "0")
    | none => some "ERR AssertionError"
  | "rs.syn", [w] => do
    -- specification side: the three syndromes of an octet string at α¹, α², α³ (no counterpart in the code)
    let w ← hexToBytes w
    some s!"{syndrome 1 w} {syndrome 2 w} {syndrome 3 w}"
  | "rs.checkroots", [js, w, m] => do
    -- the checker that tests only the listed roots (digits 0..9), e.g. "12"
    let js := js.toList.filterMap (fun ch => if ch.isDigit then some (ch.toNat - 48) else none)
    let w ← hexToBytes w
    let m ← hexToBytes m
    match checkRoots js w m with
    | some b => some (if b then "1" else "0")
    | none => some "ERR AssertionError"
  | "rs.reg", [d] => do
    -- the register (parity[0], parity[1], parity[2]) after the loop of `generate` has consumed the octets `d` (any length)
    let d ← hexToBytes d
    let p := parity d
    some s!"{p.1} {p.2.1} {p.2.2}"
  | "rs.fix", [s] => do
    -- the register a loop pass with feedback symbol `s` leaves unchanged, and the message octet that does it
    let s ← s.toNat?
    let p := fixOf s
    some s!"{p.1} {p.2.1} {p.2.2} {fixSym s}"
  | _, _ => none

end Dmr.Driver
