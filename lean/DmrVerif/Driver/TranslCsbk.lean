import DmrVerif.Driver.TranslPduSmall
import DmrVerif.Driver.Pdu
import DmrVerif.Model.TranslCsbkExt

/-!
`t.cs.*`: the definitions translated from `csbk.py` (C03; `Gen/TranslCsbk.lean`), call boundary instantiated with the plain
bitwise CRC-CCITT of `Driver/Pdu.lean` (compared with the real `CRC16.calculate` by C03's / C05's correspondence).
`t.cs.dec <bits>`: every attribute of the object `CSBK.from_bits` returns, then its `as_bits()`.
-/

namespace Dmr.Driver
open Dmr Dmr.Py Dmr.PyBits Dmr.Driver.T

def csbkG : Bytes → Int → Nat := fun d m => crc16 m.toNat (bytesToBits d)

def translCsbkOp (op : String) (args : List String) : Option String :=
  let ext := Transl.Csbk.csbkExt csbkG
  match op, args with
  | "t.cs.dec", [b] => do
    let b ← bitsOfString' b
    some (out (fun o => showFields o.fields ++ " " ++ out bitsToString' (Transl.Csbk.CSBK.as_bits ext o))
      (Transl.Csbk.CSBK.from_bits ext b))
  | _, _ => none

end Dmr.Driver
