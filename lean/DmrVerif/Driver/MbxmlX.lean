import DmrVerif.Model.MbxmlX
import DmrVerif.Driver.Mbxml

/-! line-protocol operations added in the hardening round of C14: latitude / longitude on arbitrary
doubles, the double-arithmetic cross-check of the integer formulas, the ambient-free calendar -/

namespace Dmr.Driver
open Dmr Dmr.Mbxml

def stamp14 (t : DateTime) : String :=
  let y := toString t.year
  String.ofList (List.replicate (4 - y.length) '0') ++ y ++ pad2 t.month ++ pad2 t.day ++ pad2 t.hour
    ++ pad2 t.minute ++ pad2 t.second

def mbxmlXOp (op : String) (args : List String) : Option String :=
  match op, args with
  | "lat.writed", [n, e] => do some (bytesOut (writeLatD (← n.toNat?) (← e.toNat?)))
  | "lon.writed", [n, e] => do some (bytesOut (writeLonD (← n.toNat?) (← e.toNat?)))
  | "lat.isclose", [n, e] => do some (if isclose90 (← n.toNat?) (← e.toNat?) then "1" else "0")
  | "lat.fl", [m] => do some (toString (latFl (← m.toNat?)))
  | "lon.fl", [m] => do some (toString (lonFl (← m.toNat?)))
  | "cal.add", [s, k] => do
    let t ← parseDateTime s
    if !t.valid then some "ERR ValueError" else
    some (stamp14 (t.addSeconds (← k.toInt?)))
  | "cal.dow", [s] => do
    let t ← parseDateTime s
    some (toString (weekdaySun t.year t.month t.day))
  | "cal.rule", [y, m, w, d] => do
    some (toString (ruleDay (← y.toNat?) (← m.toNat?) (← w.toNat?) (← d.toNat?)))
  | "cal.ord", [s] => do
    let t ← parseDateTime s
    some (toString (ordinal t.year t.month t.day))
  | _, _ => none

end Dmr.Driver
