import DmrVerif.Model.HstrpHandler

/-!
Line protocol for the HSTRP/RRS handler model (C17).

`reset <connected 0|1> <sn>` · `push` · `pop` · `rx <A|B> <rrs|base> <msg>` where `<msg>` is `none`
or five tokens `<version> <6 type bits: opt reject close connect heartbeat ack> <sn> <options hex> <payload>`
and `<payload>` is `N` (None), `O` (HDAP, not RRS) or `R<opcode>:<radio ip hex>`.
Answer of `rx`: the sendto calls (hex), the return value, the state of that handler afterwards and,
for every datagram sent, what a peer's `HSTRP.from_bytes` makes of it.
-/

namespace Dmr.Driver.HstrpHandler
open Dmr Dmr.HstrpHandler

structure DState where
  a : St
  b : St
  stack : List (St × St)

def dinit : DState := { a := init, b := init, stack := [] }

def b01 (b : Bool) : String := if b then "1" else "0"

def parseBool (s : String) : Option Bool :=
  if s == "1" then some true else if s == "0" then some false else none

def parseType (s : String) : Option PktType :=
  match s.toList.mapM (fun c => if c == '1' then some true else if c == '0' then some false else none) with
  | some [o, r, cl, co, h, a] =>
    some { haveOptions := o, isReject := r, isClose := cl, isConnect := co, isHeartbeat := h, isAck := a }
  | _ => none

def typeToString (t : PktType) : String :=
  b01 t.haveOptions ++ b01 t.isReject ++ b01 t.isClose ++ b01 t.isConnect ++ b01 t.isHeartbeat ++ b01 t.isAck

def parsePayload (s : String) : Option Payload :=
  match s.toList with
  | ['N'] => some .none
  | ['O'] => some .other
  | 'R' :: r =>
    match (String.ofList r).splitOn ":" with
    | [op, ip] => do
      let op ← op.toNat?
      let ip ← hexToBytes ip
      pure (.rrs op ip)
    | _ => none
  | _ => none

def payloadToString : Payload → String
  | .none => "N"
  | .other => "O"
  | .rrs op ip => "R" ++ toString op ++ ":" ++ bytesToHex' ip

def parseMsg : List String → Option (Option Msg)
  | ["none"] => some none
  | [v, t, sn, opt, pl] => do
    let v ← v.toNat?
    let t ← parseType t
    let sn ← sn.toNat?
    let opt ← hexToBytes opt
    let pl ← parsePayload pl
    pure (some { version := v, pktType := t, sn := sn, optBytes := opt, payload := pl })
  | _ => none

def msgToString : Option Msg → String
  | none => "none"
  | some m => toString m.version ++ "/" ++ typeToString m.pktType ++ "/" ++ toString m.sn ++ "/"
      ++ bytesToHex' m.optBytes ++ "/" ++ payloadToString m.payload

def listToString (l : List String) : String := if l.isEmpty then "-" else ",".intercalate l

def stToString (s : St) : String :=
  "c=" ++ b01 s.connected ++ " sn=" ++ toString s.sn ++ " reg="
    ++ listToString (s.registry.map (fun kv => bytesToHex' kv.1 ++ ":" ++ b01 kv.2))

def answer (r : St × List Out × Ret) : String :=
  "outs=" ++ listToString (r.2.1.map (fun o => bytesToHex o.bytes))
    ++ " ret=" ++ b01 r.2.2.1 ++ b01 r.2.2.2 ++ " " ++ stToString r.1
    ++ " peer=" ++ listToString (r.2.1.map (fun o => msgToString o.asMsg))

def handlerStep (d : DState) (op : String) (args : List String) : DState × String :=
  match op, args with
  | "reset", [c, sn] =>
    match parseBool c, sn.toNat? with
    | some c, some sn =>
      let s : St := { connected := c, sn := sn, registry := [] }
      ({ a := s, b := s, stack := [] }, "ok")
    | _, _ => (d, "ERR bad-args")
  | "push", [] => ({ d with stack := (d.a, d.b) :: d.stack }, "ok")
  | "pop", [] =>
    match d.stack with
    | (a, b) :: t => ({ a := a, b := b, stack := t }, "ok")
    | [] => (d, "ERR empty-stack")
  | "rx", who :: cls :: rest =>
    match parseMsg rest with
    | none => (d, "ERR bad-msg")
    | some m =>
      let s := if who == "A" then d.a else d.b
      if cls == "rrs" then
        match stepE s m with
        | .error _ => (d, "ERR OverflowError")
        | .ok r => ((if who == "A" then { d with a := r.1 } else { d with b := r.1 }), answer r)
      else
        let r := stepBase s m
        if r.2.1.any Out.raises then (d, "ERR OverflowError") else
        ((if who == "A" then { d with a := r.1 } else { d with b := r.1 }), answer r)
  | _, _ => (d, "ERR bad-op " ++ op)

end Dmr.Driver.HstrpHandler
