import DmrVerif.Model.HstrpHandler

/-!
Line protocol for the HSTRP/RRS handler model (C17).  Any number of named handler objects live at once.

* `reset` — forget every handler
* `new <name> <rrs|base> <be_active_peer 0|1> <port>` — `__init__`; answers the state of the new object
* `made <name> <transport id> <old transport is_closing 0|1>` — `connection_made`; `closed=<id|->` + state
* `lost <name>` — `connection_lost`
* `set <name> <connected|sn|active|port|registry> <value>` — attribute assignment between datagrams
  (`registry`: replaced by an empty dict)
* `tick <name>` — one iteration of `periodic_maintenance`
* `state <name>` · `push` · `pop` (snapshot / restore of all handlers)
* `rx <name> <msg>` where `<msg>` is `none` or five tokens
  `<version> <6 type bits: opt reject close connect heartbeat ack> <sn> <options hex> <payload>`
  and `<payload>` is `N` (None), `O` (HDAP, not RRS) or `R<opcode>:<radio ip hex>`.

Answer of `rx`: the sendto calls (hex), the transport they went through, the return value, the state of
that handler afterwards (`c= sn= reg= ap= port= tr=`) and, for every datagram sent, what a peer's
`HSTRP.from_bytes` makes of it; or `ERR <exception> <state afterwards>`.
-/

namespace Dmr.Driver.HstrpHandler
open Dmr Dmr.HstrpHandler

/-- a handler object: its class (`true` = RRS) and state -/
abbrev Obj := String × Bool × St

structure DState where
  objs : List Obj
  stack : List (List Obj)

def dinit : DState := { objs := [], stack := [] }

def find (d : DState) (name : String) : Option (Bool × St) :=
  (d.objs.find? (fun o => o.1 == name)).map (·.2)

def put (d : DState) (name : String) (k : Bool) (s : St) : DState :=
  if d.objs.any (fun o => o.1 == name) then
    { d with objs := d.objs.map (fun o => if o.1 == name then (name, k, s) else o) }
  else { d with objs := d.objs ++ [(name, k, s)] }

def b01 (b : Bool) : String := if b then "1" else "0"

def parseBool (s : String) : Option Bool :=
  if s == "1" then some true else if s == "0" then some false else none

def parseType (s : String) : Option PktType :=
  match s.toList.mapM (fun c => if c == '1' then some true else if c == '0' then some false else none) with
  | some [o, r, cl, co, h, a] =>
    some { haveOptions := o, isReject := r, isClose := cl, isConnect := co, isHeartbeat := h, isAck := a }
  | _ => none

def typeToString (t : PktType) : String :=
  b01 t.haveOptions ++ b01 t.isReject ++ b01 t.isClose ++ b01 t.isConnect ++ b01 t.isHeartbeat ++ b01 t.isAck

def parsePayload (s : String) : Option Payload :=
  match s.toList with
  | ['N'] => some .none
  | ['O'] => some .other
  | 'R' :: r =>
    match (String.ofList r).splitOn ":" with
    | [op, ip] => do
      let op ← op.toNat?
      let ip ← hexToBytes ip
      pure (.rrs op ip)
    | _ => none
  | _ => none

def payloadToString : Payload → String
  | .none => "N"
  | .other => "O"
  | .rrs op ip => "R" ++ toString op ++ ":" ++ bytesToHex' ip

def parseMsg : List String → Option (Option Msg)
  | ["none"] => some none
  | [v, t, sn, opt, pl] => do
    let v ← v.toNat?
    let t ← parseType t
    let sn ← sn.toNat?
    let opt ← hexToBytes opt
    let pl ← parsePayload pl
    pure (some { version := v, pktType := t, sn := sn, optBytes := opt, payload := pl })
  | _ => none

def msgToString : Option Msg → String
  | none => "none"
  | some m => toString m.version ++ "/" ++ typeToString m.pktType ++ "/" ++ toString m.sn ++ "/"
      ++ bytesToHex' m.optBytes ++ "/" ++ payloadToString m.payload

def listToString (l : List String) : String := if l.isEmpty then "-" else ",".intercalate l

def optNat : Option Nat → String
  | some n => toString n
  | none => "-"

def stToString (s : St) : String :=
  "c=" ++ b01 s.connected ++ " sn=" ++ toString s.sn ++ " reg="
    ++ listToString (s.registry.map (fun kv => bytesToHex' kv.1 ++ ":" ++ b01 kv.2))
    ++ " ap=" ++ b01 s.activePeer ++ " port=" ++ toString s.port ++ " tr=" ++ optNat s.transport

def answer (s0 : St) (r : St × List Out × Ret) : String :=
  "outs=" ++ listToString (r.2.1.map (fun o => bytesToHex o.bytes))
    ++ " via=" ++ (if r.2.1.isEmpty then "-" else optNat s0.transport)
    ++ " ret=" ++ b01 r.2.2.1 ++ b01 r.2.2.2 ++ " " ++ stToString r.1
    ++ " peer=" ++ listToString (r.2.1.map (fun o => msgToString o.asMsg))

def exnToString (s : St) : Exn → String
  | .overflow => "ERR OverflowError " ++ stToString s
  | .noTransport after => "ERR AttributeError " ++ stToString after

def exnState (s : St) : Exn → St
  | .overflow => s
  | .noTransport after => after

def handlerStep (d : DState) (op : String) (args : List String) : DState × String :=
  match op, args with
  | "reset", [] => (dinit, "ok")
  | "new", [name, cls, a, port] =>
    match parseBool a, port.toNat? with
    | some a, some port =>
      if cls != "rrs" && cls != "base" then (d, "ERR bad-class") else
      let s := init { port := port, activePeer := a }
      (put d name (cls == "rrs") s, stToString s)
    | _, _ => (d, "ERR bad-args")
  | "push", [] => ({ d with stack := d.objs :: d.stack }, "ok")
  | "pop", [] =>
    match d.stack with
    | o :: t => ({ objs := o, stack := t }, "ok")
    | [] => (d, "ERR empty-stack")
  | "state", [name] =>
    match find d name with
    | some (_, s) => (d, stToString s)
    | none => (d, "ERR no-such-handler")
  | "made", [name, t, c] =>
    match find d name, t.toNat?, parseBool c with
    | some (k, s), some t, some c =>
      let r := connectionMade s t c
      (put d name k r.1, "closed=" ++ optNat r.2 ++ " " ++ stToString r.1)
    | _, _, _ => (d, "ERR bad-args")
  | "lost", [name] =>
    match find d name with
    | some (k, s) => let s' := connectionLost s; (put d name k s', stToString s')
    | none => (d, "ERR no-such-handler")
  | "set", [name, attr, v] =>
    match find d name, v.toNat? with
    | some (k, s), some v =>
      let s' : Option St :=
        if attr == "connected" then some { s with connected := v != 0 }
        else if attr == "sn" then some { s with sn := v }
        else if attr == "active" then some (applyEv k s (.setActive (v != 0))).1
        else if attr == "port" then some (applyEv k s (.setPort v)).1
        else if attr == "registry" then some { s with registry := [] }
        else none
      match s' with
      | some s' => (put d name k s', stToString s')
      | none => (d, "ERR bad-attr")
    | _, _ => (d, "ERR bad-args")
  | "tick", [name] =>
    match find d name with
    | some (k, s) =>
      if tickRaises s then (d, "ERR AttributeError " ++ stToString s) else
      let r := applyEv k s .tick
      (put d name k r.1,
        "outs=" ++ listToString (r.2.map (fun o => bytesToHex o.bytes))
          ++ " to=" ++ (if r.2.isEmpty then "-" else tickHost ++ ":" ++ toString s.port)
          ++ " via=" ++ (if r.2.isEmpty then "-" else optNat s.transport) ++ " " ++ stToString r.1)
    | none => (d, "ERR no-such-handler")
  | "rx", name :: rest =>
    match find d name, parseMsg rest with
    | some (k, s), some m =>
      match stepKE k s m with
      | .error e => (put d name k (exnState s e), exnToString s e)
      | .ok r => (put d name k r.1, answer s r)
    | none, _ => (d, "ERR no-such-handler")
    | _, none => (d, "ERR bad-msg")
  | _, _ => (d, "ERR bad-op " ++ op)

end Dmr.Driver.HstrpHandler
