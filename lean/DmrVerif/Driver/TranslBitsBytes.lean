import DmrVerif.Driver.Transl
import DmrVerif.Gen.TranslBitsBytes

/-! `t.bb.*`: the definitions translated from `utils/bits_bytes.py` (C05 CRC-32 front end, C13) -/

namespace Dmr.Driver
open Dmr Dmr.Driver.T

def translBitsBytesOp (op : String) (args : List String) : Option String :=
  match op, args with
  | "t.bb.swap", [d] => do some (out sBytes (Transl.BitsBytes.byteswap_bytes (← hexToBytes d)))
  | "t.bb.swapba", [d] => do some (out sBytes (Transl.BitsBytes.byteswap_bytearray (← hexToBytes d)))
  | "t.bb.half", [h, n] => do some (out sBytes (Transl.BitsBytes.half_byte_to_bytes (← h.toInt?) (← n.toInt?)))
  | "t.bb.half1", [h] => do some (out sBytes (Transl.BitsBytes.half_byte_to_bytes (← h.toInt?)))
  | _, _ => none

end Dmr.Driver
