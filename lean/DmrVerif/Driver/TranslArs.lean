import DmrVerif.Driver.Transl
import DmrVerif.Driver.Tms
import DmrVerif.Model.Layout
import DmrVerif.Model.TranslArsExt

/-!
`t.ars.*`: the definitions translated from `automatic_registration_service.py` (C16; `Gen/TranslArs.lean`) with the call
boundary instantiated by the model (`modelExt`).  `t.ars.enc` / `t.ars.dec` take and print EXACTLY the forms of the model's
`ars.enc` / `ars.dec` (`Driver/Tms.lean`), so the harness feeds the translated source every case it feeds the hand model and
compares with the same expected values computed by the real code; `t.ars.lv` / `rlv` / `fh` / `rrh` / `rsh` / `len` exercise
the helpers and headers one by one.
-/

namespace Dmr.Driver
open Dmr Dmr.Py Dmr.PyBits Dmr.Driver.T Dmr.Driver.C16 Dmr.Transl.Ars

namespace TArs

def idxIn : List Nat → Int → Nat → String
  | [], _, _ => "?"
  | x :: xs, v, i => if (x : Int) == v then toString i else idxIn xs v (i + 1)

def ob : Option Bool → String
  | some b => b01 b
  | none => "U"

def fhWords (h : FirstHeader) : List String :=
  [ob h.has_more_headers, ob h.is_acknowledged, ob h.is_priority, ob h.is_control_message,
   match h.pdu_type with | some v => idxIn Gen.Ars.pduTypeVal v 0 | none => "U"]

def optIntS : Option Int → String
  | none => "-"
  | some v => toString v

def rrhS (r : RegistrationRequestHeader) : String :=
  (match r.event with | some v => idxIn Gen.Ars.eventVal v 0 | none => "U") ++ "." ++
  (match r.encoding with | some v => idxIn Gen.Ars.encodingVal v 0 | none => "U")

def rshS (r : ResponseSecondHeader) : String :=
  (match r.failure_reason with
   | some (some v) => idxIn Gen.Ars.failureVal v 0 | some none => "-" | none => "U") ++ "." ++
  (match r.refresh_time with | some o => optIntS o | none => "U") ++ "." ++
  (match r.first_header with
   | some (some h) => ob h.is_acknowledged | some none => "-" | none => "U")

def strS : Option (Option PyObj.Str) → String
  | some (some s) => bytesToHex' s.utf8
  | some none => "N"
  | none => "U"

def msgS (o : AutomaticRegistrationService) : String :=
  " ".intercalate
    ((match o.header with | some h => fhWords h | none => ["U"]) ++
     [match o.registration_request_header with | some (some r) => rrhS r | some none => "-" | none => "U",
      match o.response_second_header with | some (some r) => rshS r | some none => "-" | none => "U",
      strS o.device_identifier, strS o.user_identifier, strS o.password, ob o.is_csbk_ars])

end TArs

open TArs

def translArsOp (op : String) (args : List String) : Option String :=
  let ext := modelExt
  match op, args with
  | "t.ars.enc", args => do
    let p ← arsMsgOf args
    some (out sBytes (AutomaticRegistrationService.as_bytes ext (arsObj p)))
  | "t.ars.len", args => do
    let p ← arsMsgOf args
    some (out sInt (AutomaticRegistrationService.len ext (arsObj p)))
  | "t.ars.dec", [d] => do
    let d ← hexToBytes d
    some (out msgS (AutomaticRegistrationService.from_bytes ext d))
  | "t.ars.lv", [s] => do
    let s ← optBytes s
    match s with
    | none => some (out sBytes (AutomaticRegistrationService.encode_len_val_none ext ()))
    | some b => some (out sBytes (AutomaticRegistrationService.encode_len_val_str ext ⟨b⟩))
  | "t.ars.lvb", [s] => do
    let b ← hexToBytes s
    some (out sBytes (AutomaticRegistrationService.encode_len_val_bytes ext b))
  | "t.ars.prim.strlen", [s] => do
    -- prelude primitive `PyObj.strLen` (no function of the unchanged tree uses it; a changed one may)
    let b ← hexToBytes s
    some (sInt (PyObj.strLen ⟨b⟩))
  | "t.ars.rlv", [d, i] => do
    let d ← hexToBytes d
    let i ← intOfString i
    some (out (fun (r : Int × List Nat) => sInt r.1 ++ " " ++ sBytes r.2) (AutomaticRegistrationService.read_len_val ext d i))
  | "t.ars.fh", [d] => do
    let d ← hexToBytes d
    some (out (fun h => " ".intercalate (fhWords h) ++ " " ++ out sBytes (FirstHeader.as_bytes ext h) ++ " "
      ++ out sInt (FirstHeader.len ext h)) (FirstHeader.from_bytes ext d))
  | "t.ars.rrh", [d] => do
    let d ← hexToBytes d
    some (out (fun h => rrhS h ++ " " ++ out sBytes (RegistrationRequestHeader.as_bytes ext h) ++ " "
      ++ out sInt (RegistrationRequestHeader.len ext h)) (RegistrationRequestHeader.from_bytes ext d))
  | "t.ars.rsh", [d] => do
    let d ← hexToBytes d
    some (out (fun h => rshS h ++ " " ++ out sBytes (ResponseSecondHeader.as_bytes ext h) ++ " "
      ++ out sInt (ResponseSecondHeader.len ext h)) (ResponseSecondHeader.from_bytes ext d))
  | "t.ars.rshinit", [f, r] => do
    let f ← optNat f
    let r ← (if r == "-" then some none else (intOfString r).map some)
    some (out rshS (ResponseSecondHeader.init ext (f.map (fun (n : Nat) => (n : Int))) r))
  | _, _ => none

end Dmr.Driver
