import DmrVerif.Model.Vbptc

/-! line-protocol operations for the variable-length BPTCs (C09).
Bit strings are `0101…`, the empty bit string is `-`; booleans are `0` / `1`. -/

namespace Dmr.Driver
open Dmr Dmr.Vbptc

def vbBits (s : String) : Option Bits := if s == "-" then some [] else bitsOfString s

def vbBool : String → Option Bool
  | "0" => some false
  | "1" => some true
  | _ => none

def vbOut : Except Err Bits → String
  | .ok b => if b.isEmpty then "-" else bitsToString b
  | .error .assertion => "ERR AssertionError"

def vbptcOp (op : String) (args : List String) : Option String :=
  match op, args with
  | "vb.encode", ["128", b] => do let b ← vbBits b; some (vbOut (encode128 b))
  | "vb.encode", ["68", b] => do let b ← vbBits b; some (vbOut (encode68 b))
  | "vb.encode", ["32", b, e] => do let b ← vbBits b; let e ← vbBool e; some (vbOut (encode32 b e))
  | "vb.data", ["128", b, i] => do let b ← vbBits b; let i ← vbBool i; some (vbOut (deinterleaveData128 b i))
  | "vb.data", ["68", b, i] => do let b ← vbBits b; let i ← vbBool i; some (vbOut (deinterleaveData68 b i))
  | "vb.data", ["32", b] => do let b ← vbBits b; some (vbOut (deinterleaveData32 b))
  | "vb.all", ["128", b] => do let b ← vbBits b; some (vbOut (v128.deinterleaveAll b))
  | "vb.all", ["68", b] => do let b ← vbBits b; some (vbOut (v68.deinterleaveAll b))
  | "vb.all", ["32", b] => do let b ← vbBits b; some (vbOut (v32.deinterleaveAll b))
  | "vb.cs", ["128", b] => do let b ← vbBits b; some (vbOut (deinterleaveCs5 b))
  | "vb.cs", ["68", b] => do let b ← vbBits b; some (vbOut (deinterleaveCrc8 b))
  | "vb.setparity", ["128", c] => do let c ← vbBits c; some (vbOut (v128.setParity true c true))
  | "vb.setparity", ["68", c] => do let c ← vbBits c; some (vbOut (v68.setParity true c true))
  | "vb.setparity", ["32", c, e] => do let c ← vbBits c; let e ← vbBool e; some (vbOut (v32.setParity false c e))
  | "vb.cs5calc", [h] => do
    let d ← hexToBytes h
    match fiveBitChecksum d with
    | .ok v => some (toString v)
    | .error .assertion => some "ERR AssertionError"
  | "vb.crc8calc", [b] => do let b ← vbBits b; some (toString (crc8 b))
  | _, _ => none

end Dmr.Driver
