import DmrVerif.Model.Vbptc
import DmrVerif.Model.VbptcStore

/-! line-protocol operations for the variable-length BPTCs (C09): the stateless entry points (`vb.*`)
and histories of calls over the objects the caller holds (`vh.*`, a `Vbptc.Store` is threaded through
the lines).  Bit strings are `0101…`, the empty bit string is `-`; booleans are `0` / `1`. -/

namespace Dmr.Driver
open Dmr Dmr.Vbptc

def vbBits (s : String) : Option Bits := if s == "-" then some [] else bitsOfString s

def vbBool : String → Option Bool
  | "0" => some false
  | "1" => some true
  | _ => none

def vbOut : Except Err Bits → String
  | .ok b => if b.isEmpty then "-" else bitsToString b
  | .error .assertion => "ERR AssertionError"

def vbptcOp (op : String) (args : List String) : Option String :=
  match op, args with
  | "vb.encode", ["128", b] => do let b ← vbBits b; some (vbOut (encode128 b))
  | "vb.encode", ["68", b] => do let b ← vbBits b; some (vbOut (encode68 b))
  | "vb.encode", ["32", b, e] => do let b ← vbBits b; let e ← vbBool e; some (vbOut (encode32 b e))
  | "vb.data", ["128", b, i] => do let b ← vbBits b; let i ← vbBool i; some (vbOut (deinterleaveData128 b i))
  | "vb.data", ["68", b, i] => do let b ← vbBits b; let i ← vbBool i; some (vbOut (deinterleaveData68 b i))
  | "vb.data", ["32", b] => do let b ← vbBits b; some (vbOut (deinterleaveData32 b))
  | "vb.all", ["128", b] => do let b ← vbBits b; some (vbOut (v128.deinterleaveAll b))
  | "vb.all", ["68", b] => do let b ← vbBits b; some (vbOut (v68.deinterleaveAll b))
  | "vb.all", ["32", b] => do let b ← vbBits b; some (vbOut (v32.deinterleaveAll b))
  | "vb.cs", ["128", b] => do let b ← vbBits b; some (vbOut (deinterleaveCs5 b))
  | "vb.cs", ["68", b] => do let b ← vbBits b; some (vbOut (deinterleaveCrc8 b))
  | "vb.setparity", ["128", c] => do let c ← vbBits c; some (vbOut (v128.setParity true c true))
  | "vb.setparity", ["68", c] => do let c ← vbBits c; some (vbOut (v68.setParity true c true))
  | "vb.setparity", ["32", c, e] => do let c ← vbBits c; let e ← vbBool e; some (vbOut (v32.setParity false c e))
  | "vb.cs5calc", [h] => do
    let d ← hexToBytes h
    match fiveBitChecksum d with
    | .ok v => some (toString v)
    | .error .assertion => some "ERR AssertionError"
  | "vb.crc8calc", [b] => do let b ← vbBits b; some (toString (crc8 b))
  | _, _ => none

/-! ### histories (`vh.*`) -/

/-- an object literal: `B:0101…` / `F:…` (bitarray / frozenbitarray, big-endian container), `L:…`
(little-endian container), `S:…` / `T:…` (list / tuple), `A:…` (numpy integer array), `O:hex` / `Y:hex`
(bytearray / bytes), `N:dec` -/
def vhObj (s : String) : Option Vbptc.Obj :=
  match s.toList with
  | t :: ':' :: rest =>
    let r := String.ofList rest
    if t == 'B' || t == 'F' then (vbBits r).map (Vbptc.Obj.bits .big)
    else if t == 'L' then (vbBits r).map (Vbptc.Obj.bits .little)
    else if t == 'S' || t == 'T' then (vbBits r).map (Vbptc.Obj.bits .seq)
    else if t == 'A' then (vbBits r).map Vbptc.Obj.arr
    else if t == 'O' || t == 'Y' then (hexToBytes r).map Vbptc.Obj.octets
    else if t == 'N' then r.toNat?.map Vbptc.Obj.num
    else none
  | _ => none

def vhRef (s : String) : Option Nat :=
  match s.toList with
  | '@' :: ds => (String.ofList ds).toNat?
  | _ => none

def vhArg (s : String) : Option Vbptc.Arg :=
  match vhRef s with
  | some k => some (.ref k)
  | none => (vhObj s).map .lit

/-- an optional flag (`even_parity`, `include_cs5`, `include_crc8`): passed (`0` / `1`) or omitted (`d`;
the default is `True` for all three) -/
def vhFlag : String → Option Bool
  | "0" => some false
  | "1" => some true
  | "d" => some true
  | _ => none

def vhCls : String → Option Vbptc.Cls
  | "128" => some .c128
  | "68" => some .c68
  | "32" => some .c32
  | _ => none

def vhStepOf (op : String) (args : List String) : Option Vbptc.Step :=
  match op, args with
  | "vh.new", [o] => (vhObj o).map .new
  | "vh.encode", [c, e, a] => do some (.encode (← vhCls c) (← vhFlag e) (← vhArg a))
  | "vh.data", [c, i, a] => do some (.data (← vhCls c) (← vhFlag i) (← vhArg a))
  | "vh.all", [c, a] => do some (.all (← vhCls c) (← vhArg a))
  | "vh.cs", [c, a] => do some (.cs (← vhCls c) (← vhArg a))
  | "vh.setparity", [c, e, a] => do some (.setParity (← vhCls c) (← vhFlag e) (← vhArg a))
  | "vh.make", [c] => do some (.make (← vhCls c))
  | "vh.fill", [c, t, a] => do some (.fill (← vhCls c) (← vhRef t) (← vhArg a))
  | "vh.cs5calc", [a] => do some (.cs5calc (← vhArg a))
  | "vh.crc8calc", [a] => do some (.crc8calc (← vhArg a))
  | "vh.flip", [k, i] => do some (.flip (← vhRef k) (← i.toNat?))
  | "vh.setall", [k, v] => do some (.setAll (← vhRef k) (← vbBool v))
  | "vh.extend", [k, b] => do some (.extend (← vhRef k) (← vbBits b))
  | "vh.clear", [k] => do some (.clear (← vhRef k))
  | "vh.assign", [k, b] => do some (.assign (← vhRef k) (← vbBits b))
  | "vh.put", [k, i, v] => do some (.put (← vhRef k) (← i.toNat?) (← v.toNat?))
  | "vh.read", [k] => do some (.read (← vhRef k))
  | "vh.nop", [] => some (.nop false)
  | "vh.nop+", [] => some (.nop true)
  | _, _ => none

def vhBitsStr (b : Bits) : String := if b.isEmpty then "-" else bitsToString b

def vhObjStr : Vbptc.Obj → String
  | .bits .big b => "B:" ++ vhBitsStr b
  | .bits .little b => "L:" ++ vhBitsStr b
  | .bits .seq b => "S:" ++ vhBitsStr b
  | .arr b => "A:" ++ vhBitsStr b
  | .octets d => "O:" ++ bytesToHex' d
  | .num n => "N:" ++ toString n

def vhOut : Vbptc.Out → String
  | .val o => vhObjStr o
  | .same k o => "=@" ++ toString k ++ " " ++ vhObjStr o
  | .err .assertion => "ERR AssertionError"
  | .err .attribute => "ERR AttributeError"
  | .err .type => "ERR TypeError"
  | .done => "ok"
  | .void => "void"

/-- one line of the stateful driver -/
def vbptcStep (s : Vbptc.Store) (op : String) (args : List String) : Vbptc.Store × String :=
  if op == "vh.reset" then (Vbptc.Store.empty, "ok") else
  match vhStepOf op args with
  | some st => let r := Vbptc.step s st; (r.1, vhOut r.2)
  | none =>
    match vbptcOp op args with
    | some out => (s, out)
    | none => (s, "ERR bad-op " ++ op)

end Dmr.Driver
