import DmrVerif.Driver.Transl
import DmrVerif.Gen.TranslMbxml

/-! `t.mb.*`: the definitions translated from `motorola/mbxml.py` (C14) -/

namespace Dmr.Driver
open Dmr Dmr.Driver.T

def translMbxmlOp (op : String) (args : List String) : Option String :=
  match op, args with
  | "t.mb.ruint", [d, i] => do
    let d ← hexToBytes d
    let i ← i.toInt?
    some (out (fun (v, j) => s!"{v} {j}") (Transl.Mbxml.read_uintvar d i))
  | "t.mb.rsint", [d, i] => do
    let d ← hexToBytes d
    let i ← i.toInt?
    some (out (fun (v, j, s) => s!"{v} {j} {s}") (Transl.Mbxml.read_sintvar d i))
  | "t.mb.ruint8", [d, i] => do
    let d ← hexToBytes d
    let i ← i.toInt?
    some (out (fun (v, j) => s!"{v} {j}") (Transl.Mbxml.read_uint8 d i))
  | "t.mb.ropaque", [d, i] => do
    let d ← hexToBytes d
    let i ← i.toInt?
    some (out (fun (b, j) => s!"{sBytes b} {j}") (Transl.Mbxml.read_opaque d i))
  | "t.mb.ropaquen", [d, i, n] => do
    let d ← hexToBytes d
    let i ← i.toInt?
    let n ← n.toInt?
    some (out (fun (b, j) => s!"{sBytes b} {j}") (Transl.Mbxml.read_opaque_defined_size d i n))
  | _, _ => none

end Dmr.Driver
