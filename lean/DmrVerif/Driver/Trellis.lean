import DmrVerif.Model.Trellis

/-!
line-protocol operations for the rate ¾ trellis model (C10)

Encodings: bits `0101…`, integer lists comma separated (`3,-1,1`), bytes hex; the empty list / string
is `-`.  Errors are the canonical `ERR <PythonExceptionClass>`.
-/

namespace Dmr.Driver
open Dmr Dmr.Trellis

def trBitsArg (s : String) : Option Bits := if s == "-" then some [] else bitsOfString s

def trBitsOut (b : Bits) : String := if b.isEmpty then "-" else bitsToString b

def trIntsArg (s : String) : Option (List Int) :=
  if s == "-" then some [] else (s.splitOn ",").mapM String.toInt?

def trNatsArg (s : String) : Option (List Nat) :=
  if s == "-" then some [] else (s.splitOn ",").mapM String.toNat?

def trIntsOut (l : List Int) : String :=
  if l.isEmpty then "-" else ",".intercalate (l.map toString)

def trNatsOut (l : List Nat) : String :=
  if l.isEmpty then "-" else ",".intercalate (l.map toString)

def trOut {α : Type} (f : α → String) : R α → String
  | .ok a => f a
  | .error e => e.toString

def trellisOp (op : String) (args : List String) : Option String :=
  match op, args with
  | "tr.encode", [b] => do let b ← trBitsArg b; some (trOut trBitsOut (encode b))
  | "tr.encode_le", [b] => do let b ← trBitsArg b; some (trOut trBitsOut (encodeEndian true b))
  | "tr.encode_bytes", [h] => do let h ← hexToBytes h; some (trOut trBitsOut (encodeBytes h))
  | "tr.decode", [b] => do let b ← trBitsArg b; some (trOut trBitsOut (decode b))
  | "tr.decode_bytes", [b] => do let b ← trBitsArg b; some (trOut bytesToHex' (decodeAsBytes b))
  | "tr.bits_to_dibits", [b] => do let b ← trBitsArg b; some (trOut trIntsOut (bitsToDibits b))
  | "tr.dibits_to_bits", [d] => do let d ← trIntsArg d; some (trOut trBitsOut (dibitsToBits d))
  | "tr.deinterleave", [d] => do let d ← trIntsArg d; some (trOut trIntsOut (deinterleave d))
  | "tr.interleave", [d] => do let d ← trIntsArg d; some (trOut trIntsOut (interleave d))
  | "tr.dibits_to_points", [d] => do let d ← trIntsArg d; some (trOut trNatsOut (dibitsToPoints d))
  | "tr.points_to_dibits", [p] => do let p ← trNatsArg p; some (trOut trIntsOut (pointsToDibits p))
  | "tr.points_to_tribits", [p] => do let p ← trNatsArg p; some (trOut trNatsOut (pointsToTribits p))
  | "tr.tribits_to_points", [t] => do let t ← trNatsArg t; some (trOut trNatsOut (tribitsToPoints t))
  | "tr.tribits_to_bits", [t] => do let t ← trNatsArg t; some (trOut trBitsOut (tribitsToBits t))
  | "tr.bits_to_tribits", [b] => do let b ← trBitsArg b; some (trNatsOut (bitsToTribits false b))
  | "tr.bits_to_tribits_le", [b] => do let b ← trBitsArg b; some (trNatsOut (bitsToTribits true b))
  | _, _ => none

end Dmr.Driver
