import DmrVerif.Model.Trellis
import DmrVerif.Model.TrellisStore

/-!
line-protocol operations for the rate ¾ trellis model (C10)

Encodings: bits `0101…`, integer lists comma separated (`3,-1,1`), bytes hex; the empty list / string
is `-`.  Errors are the canonical `ERR <PythonExceptionClass>`.
-/

namespace Dmr.Driver
open Dmr Dmr.Trellis

def trBitsArg (s : String) : Option Bits := if s == "-" then some [] else bitsOfString s

def trBitsOut (b : Bits) : String := if b.isEmpty then "-" else bitsToString b

def trIntsArg (s : String) : Option (List Int) :=
  if s == "-" then some [] else (s.splitOn ",").mapM String.toInt?

def trNatsArg (s : String) : Option (List Nat) :=
  if s == "-" then some [] else (s.splitOn ",").mapM String.toNat?

def trIntsOut (l : List Int) : String :=
  if l.isEmpty then "-" else ",".intercalate (l.map toString)

def trNatsOut (l : List Nat) : String :=
  if l.isEmpty then "-" else ",".intercalate (l.map toString)

def trOut {α : Type} (f : α → String) : R α → String
  | .ok a => f a
  | .error e => e.toString

def trellisOp (op : String) (args : List String) : Option String :=
  match op, args with
  | "tr.encode", [b] => do let b ← trBitsArg b; some (trOut trBitsOut (encode b))
  | "tr.encode_le", [b] => do let b ← trBitsArg b; some (trOut trBitsOut (encodeEndian true b))
  | "tr.encode_bytes", [h] => do let h ← hexToBytes h; some (trOut trBitsOut (encodeBytes h))
  | "tr.decode", [b] => do let b ← trBitsArg b; some (trOut trBitsOut (decode b))
  | "tr.decode_bytes", [b] => do let b ← trBitsArg b; some (trOut bytesToHex' (decodeAsBytes b))
  | "tr.bits_to_dibits", [b] => do let b ← trBitsArg b; some (trOut trIntsOut (bitsToDibits b))
  | "tr.dibits_to_bits", [d] => do let d ← trIntsArg d; some (trOut trBitsOut (dibitsToBits d))
  | "tr.deinterleave", [d] => do let d ← trIntsArg d; some (trOut trIntsOut (deinterleave d))
  | "tr.interleave", [d] => do let d ← trIntsArg d; some (trOut trIntsOut (interleave d))
  | "tr.dibits_to_points", [d] => do let d ← trIntsArg d; some (trOut trNatsOut (dibitsToPoints d))
  | "tr.points_to_dibits", [p] => do let p ← trNatsArg p; some (trOut trIntsOut (pointsToDibits p))
  | "tr.points_to_tribits", [p] => do let p ← trNatsArg p; some (trOut trNatsOut (pointsToTribits p))
  | "tr.tribits_to_points", [t] => do let t ← trNatsArg t; some (trOut trNatsOut (tribitsToPoints t))
  | "tr.tribits_to_bits", [t] => do let t ← trNatsArg t; some (trOut trBitsOut (tribitsToBits t))
  | "tr.bits_to_tribits", [b] => do let b ← trBitsArg b; some (trNatsOut (bitsToTribits false b))
  | "tr.bits_to_tribits_le", [b] => do let b ← trBitsArg b; some (trNatsOut (bitsToTribits true b))
  | "tr.encode_foreign", [n] => do let n ← n.toNat?; some (encodeForeign n)
  | _, _ => none

/-! ### histories: every argument and every result is an object the caller keeps (`Store`)

`hs.new <kind> <value>` (kinds: `b` big-endian bitarray or other 0/1 sequence, `l` little-endian
bitarray, `i` signed numbers, `n` unsigned numbers, `o` bytes) answers the new handle;
`hs.call <function> <handle>` answers `<new handle> <object>`; `hs.edit <handle> <edit> …` answers `ok`;
`hs.read <handle>` answers the object's current content.  Objects are written `<kind>:<value>`. -/

def objArg (kind value : String) : Option Obj :=
  match kind with
  | "b" => (trBitsArg value).map (Obj.bits false)
  | "l" => (trBitsArg value).map (Obj.bits true)
  | "i" => (trIntsArg value).map Obj.ints
  | "n" => (trNatsArg value).map Obj.nats
  | "o" => (hexToBytes value).map Obj.octets
  | _ => none

def objOut : Obj → String
  | .bits false v => "b:" ++ trBitsOut v
  | .bits true v => "l:" ++ trBitsOut v
  | .ints v => "i:" ++ trIntsOut v
  | .nats v => "n:" ++ trNatsOut v
  | .octets v => "o:" ++ bytesToHex' v
  | .raised e => e.toString
  | .void => "ERR unmodelled"

def fnArg : String → Option Fn
  | "encode" => some .encode
  | "decode" => some .decode
  | "decode_bytes" => some .decodeBytes
  | "bits_to_dibits" => some .bitsToDibits
  | "dibits_to_bits" => some .dibitsToBits
  | "deinterleave" => some .deinterleave
  | "interleave" => some .interleave
  | "dibits_to_points" => some .dibitsToPoints
  | "points_to_dibits" => some .pointsToDibits
  | "points_to_tribits" => some .pointsToTribits
  | "tribits_to_points" => some .tribitsToPoints
  | "tribits_to_bits" => some .tribitsToBits
  | "bits_to_tribits" => some .bitsToTribits
  | _ => none

def mutArg : List String → Option Mut
  | ["flip", i] => i.toNat?.map Mut.flip
  | ["put", i, v] => do let i ← i.toNat?; let v ← v.toInt?; some (Mut.put i v)
  | ["extend", k, v] => (objArg k v).map Mut.extend
  | ["del", lo, hi] => do let lo ← lo.toNat?; let hi ← hi.toNat?; some (Mut.del lo hi)
  | ["clear"] => some Mut.clear
  | ["assign", k, v] => (objArg k v).map Mut.assign
  | ["reverse"] => some Mut.reverse
  | _ => none

def trellisStep (h : Store) (op : String) (args : List String) : Store × String :=
  let bad := (h, "ERR bad-op " ++ op)
  match op, args with
  | "hs.reset", [] => (Store.empty, "ok")
  | "hs.new", [k, v] =>
    match objArg k v with
    | some o => ((HOp.new o).run h, toString h.size)
    | none => bad
  | "hs.call", [f, r] =>
    match fnArg f, r.toNat? with
    | some f, some r =>
      if r < h.size then
        let h' := (HOp.call f r).run h
        (h', toString h.size ++ " " ++ objOut ((h'.read h.size).getD .void))
      else (h, "ERR ref")
    | _, _ => bad
  | "hs.edit", r :: m =>
    match r.toNat?, mutArg m with
    | some r, some m =>
      match h.read r with
      | some o => if (m.apply o).isSome then ((HOp.edit r m).run h, "ok") else (h, "ERR bad-edit")
      | none => (h, "ERR ref")
    | _, _ => bad
  | "hs.read", [r] =>
    match r.toNat? with
    | some r =>
      match h.read r with
      | some o => (h, objOut o)
      | none => (h, "ERR ref")
    | none => bad
  | _, _ =>
    match trellisOp op args with
    | some out => (h, out)
    | none => bad

end Dmr.Driver
