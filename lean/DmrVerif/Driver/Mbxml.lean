import DmrVerif.Model.Mbxml

/-! line-protocol operations for the MBXML number codecs (C14) -/

namespace Dmr.Driver
open Dmr Dmr.Mbxml

def errStr (e : Err) : String := "ERR " ++ e.name

def pow2Split : Nat → Nat → Nat → Nat × Nat
  | 0, n, e => (n, e)
  | f + 1, n, e => if e = 0 ∨ n % 2 = 1 then (n, e) else pow2Split f (n / 2) (e - 1)

/-- exact value of a float result as a reduced dyadic `[-]num/exp` (value = num / 2^exp) -/
def floatResStr (r : FloatRes) : String :=
  let n := r.int * 128 ^ r.k + r.dec
  let (n', e') := if n = 0 then (0, 0) else pow2Split (7 * r.k) n (7 * r.k)
  (if r.neg then "-" else "") ++ toString n' ++ "/" ++ toString e' ++ " " ++ toString r.next

def digitsToNat (s : String) : Option Nat :=
  if s.isEmpty then none else
  s.toList.foldlM (fun acc c => if '0' ≤ c ∧ c ≤ '9' then some (acc * 10 + (c.toNat - 48)) else none) 0

def parseDateTime (s : String) : Option DateTime :=
  if s.length != 14 then none else do
    let cs := s.toList
    let f := fun (a n : Nat) => digitsToNat (String.ofList ((cs.drop a).take n))
    pure ⟨← f 0 4, ← f 4 2, ← f 6 2, ← f 8 2, ← f 10 2, ← f 12 2⟩

def bytesOut (r : R Bytes) : String :=
  match r with
  | .ok b => bytesToHex' b
  | .error e => errStr e

def mbxmlOp (op : String) (args : List String) : Option String :=
  match op, args with
  | "uv.read", [h, i] => do
    let d ← hexToBytes h
    let i ← i.toNat?
    match readU d i with
    | .ok (v, n) => some (toString v ++ " " ++ toString n)
    | .error e => some (errStr e)
  | "uv.write", [v] => do
    let v ← v.toInt?
    some (bytesOut (writeUInt v))
  | "uv.canon", [h] => do
    let d ← hexToBytes h
    some (if canonicalU d then "1" else "0")
  | "sv.read", [h, i] => do
    let d ← hexToBytes h
    let i ← i.toNat?
    match readS d i with
    | .ok (v, n, neg) => some (toString v ++ " " ++ toString n ++ " " ++ (if neg then "-1" else "1"))
    | .error e => some (errStr e)
  | "sv.write", [v, z] => do
    let v ← v.toInt?
    some (bytesOut (writeS v (z == "1")))
  | "sv.canon", [h] => do
    let d ← hexToBytes h
    some (if canonicalS d then "1" else "0")
  | "uf.write", [n, e, p] => do
    some (bytesOut (writeUF (← n.toNat?) (← e.toNat?) (← p.toNat?)))
  | "sf.write", [s, n, e, p] => do
    some (bytesOut (writeSF (s == "1") (← n.toNat?) (← e.toNat?) (← p.toNat?)))
  | "uf.read", [h, i] => do
    let d ← hexToBytes h
    match readUF d (← i.toNat?) with
    | .ok r => some (floatResStr r)
    | .error e => some (errStr e)
  | "sf.read", [h, i] => do
    let d ← hexToBytes h
    match readSF d (← i.toNat?) with
    | .ok r => some (floatResStr r)
    | .error e => some (errStr e)
  | "fr.write", [d, p] => do
    some (bytesToHex' (writeFraction (← d.toNat?) (← p.toNat?)))
  | "lat.write", [m] => do some (bytesOut (writeLat (← m.toInt?)))
  | "lon.write", [m] => do some (bytesOut (writeLon (← m.toInt?)))
  | "lat.decode", [h] => do some (toString (decodeLat (← hexToBytes h)))
  | "lon.decode", [h] => do some (toString (decodeLon (← hexToBytes h)))
  | "it.write", [s] => do
    let t ← parseDateTime s
    some (bytesOut (writeInfotime t))
  | "it.decode", [h] => do
    let d ← hexToBytes h
    some ((decodeInfotime d).text.replace " " "_")
  | _, _ => none

end Dmr.Driver
