import DmrVerif.Model.Hdap
import DmrVerif.Model.Hrnp
import DmrVerif.Model.Hstrp

/-!
Line-protocol operations for the Hytera PDUs (C12).

A PDU travels as a *field tuple*: space-separated tokens, numbers in decimal, booleans `0/1`, byte
strings in hex (`-` = empty), absent values `N`, radio ips `subnet:id`, times/dates `a:b:c`, the speed
as `ip.frac`, option / setting lists `k:v,k:v` (`-` = empty).  `harness/props/c12.py` prints the real
objects in exactly this form.

  hdap.parse  <hex>            -> <tuple> => <re-serialised hex> <len>   | NONE | ERR <Class>
  hdap.mk     <tuple>          -> <hex> <len>
  hrnp.parse  <hex>  /  hrnp.mk  <header> <version> <block> <opcode> <src> <dst> <pn> <tuple | NONE>
  hstrp.parse <hex>  /  hstrp.mk <version> <type> <sn> <opts> <tuple | NONE>
  hdap.cksum <hex>, hrnp.cksum <hex>, opts.parse <hex>, type.byte <b>
  tmp.text b <hex> | tmp.text s <code points, comma separated | ->   -> the octets the TMP constructor stores | ERR UnicodeEncodeError
  arg.gps <valid> <time> <date> <north> <lat> <east> <lon> <speed> <dir>   -> <record hex> <len> | ERR <Class>
      the GPSData constructor arguments in the form they are handed over:
      time  t:<h>:<m>:<s>:<us>:<utc offset in minutes | N>:<fold>  |  b:<hex>
      date  d:<d>:<m>:<yy>  |  dt:<d>:<m>:<yy>:<h>:<mi>:<s>:<us>:<offset | N>  |  b:<hex>
      lat / lon  f:<value in 10^-4 units>  |  i:<int>  |  b:<hex>      speed  f:<ip.frac> | b:<hex>      dir  i:<n> | b:<hex>
-/

namespace Dmr.Driver.Hytera
open Dmr Dmr.Hytera

def b01 (b : Bool) : String := if b then "1" else "0"
def hx (b : Bytes) : String := bytesToHex' b
def errS (e : Err) : String := "ERR " ++ e.name
def optS {α : Type} (f : α → String) : Option α → String
  | none => "N"
  | some x => f x
def ipS (ip : RadioIp) : String := s!"{ip.subnet}:{ip.radioId}"
def tripleS (t : Nat × Nat × Nat) : String := s!"{t.1}:{t.2.1}:{t.2.2}"
def decS (x : Dec) : String := s!"{x.ip}." ++ String.join (x.frac.map toString)
def pairsS (l : List (Nat × Nat)) : String :=
  if l.isEmpty then "-" else ",".intercalate (l.map fun (a, b) => s!"{a}:{b}")
def optsS (l : Opts) : String :=
  if l.isEmpty then "-" else ",".intercalate (l.map fun (a, b) => s!"{a}:{hx b}")

def gpsS (g : Gps) : String :=
  " ".intercalate [b01 g.valid, optS tripleS g.time, optS tripleS g.date, b01 g.north, toString g.lat4,
    b01 g.east, toString g.lon4, decS g.speed, toString g.direction]

def rcpBodyS : RcpBody → List String
  | .unknown ro raw => [hx ro, hx raw]
  | .callRequest ct t => [toString ct, toString t]
  | .callReply r => [toString r]
  | .rptBroadcastTx m st sv ct t s => [m, st, sv, ct, t, s].map toString
  | .bcastMsgCfgReq bt => [toString bt]
  | .bcastMsgCfgReply r => [toString r]
  | .idIpQueryReq t => [toString t]
  | .idIpQueryReply r t raw => [toString r, toString t, hx raw]
  | .bcastStatusCfgReq raw => [hx raw]
  | .bcastStatusCfgReply r => [toString r]
  | .talkerAliasReq ct s t f a => [toString ct, toString s, toString t, toString f, hx a]
  | .talkerAliasReply r ct s t => [r, ct, s, t].map toString
  | .zoneChanReq raw => [hx raw]
  | .zoneChanReply raw => [hx raw]
  | .statusNotifyReq st => [pairsS st]
  | .statusNotifyReply r => [toString r]
  | .radioStatusReport t v => [toString t, toString v]

def pduS : Pdu → String
  | .rrs p => " ".intercalate ["RRS", b01 p.reliable, toString p.opcode, ipS p.ip, toString p.result,
      toString p.renew, toString p.state]
  | .lp p =>
    let head := ["LP", b01 p.reliable, toString p.opcode, toString p.requestId, ipS p.ip]
    " ".intercalate (if p.opcode = Gen.Hytera.lpStandardReport then head ++ [toString p.result, gpsS p.gps] else head)
  | .tmp p => " ".intercalate ["TMP", b01 p.reliable, b01 p.confirmed, b01 p.hasOption, toString p.opcode,
      toString p.requestId, optS ipS p.dst, optS ipS p.src, hx p.text, optS hx p.optionData,
      optS toString p.result, hx p.shortData]
  | .rcp p => " ".intercalate (["RCP", b01 p.reliable, toString p.body.opcode] ++ rcpBodyS p.body)

def optPduS : Option Pdu → String
  | none => "NONE"
  | some p => pduS p

def resS {α : Type} (f : α → String) : R α → String
  | .ok x => f x
  | .error e => errS e

/-! reading -/

def rdBool : String → Option Bool
  | "0" => some false
  | "1" => some true
  | _ => none
def rdNat (s : String) : Option Nat := s.toNat?
def rdHex (s : String) : Option Bytes := hexToBytes s
def rdOpt {α : Type} (f : String → Option α) (s : String) : Option (Option α) :=
  if s == "N" then some none else some <$> f s
def rdIp (s : String) : Option RadioIp :=
  match s.splitOn ":" with
  | [a, b] => do pure ⟨← rdNat a, ← rdNat b⟩
  | _ => none
def rdTriple (s : String) : Option (Nat × Nat × Nat) :=
  match s.splitOn ":" with
  | [a, b, c] => do pure (← rdNat a, ← rdNat b, ← rdNat c)
  | _ => none
def rdDec (s : String) : Option Dec :=
  match s.splitOn "." with
  | [a, b] => do
    let ip ← rdNat a
    let fr ← b.toList.mapM (fun c => if c.isDigit then some (c.toNat - 48) else none)
    pure ⟨ip, fr⟩
  | _ => none
def rdPairs (s : String) : Option (List (Nat × Nat)) :=
  if s == "-" then some [] else
  (s.splitOn ",").mapM fun e =>
    match e.splitOn ":" with
    | [a, b] => do pure (← rdNat a, ← rdNat b)
    | _ => none
def rdOpts (s : String) : Option Opts :=
  if s == "-" then some [] else
  (s.splitOn ",").mapM fun e =>
    match e.splitOn ":" with
    | [a, b] => do pure (← rdNat a, ← rdHex b)
    | _ => none

def rdGps : List String → Option Gps
  | [v, t, d, n, la, e, lo, sp, di] => do
    pure ⟨← rdBool v, ← rdOpt rdTriple t, ← rdOpt rdTriple d, ← rdBool n, ← rdNat la, ← rdBool e,
      ← rdNat lo, ← rdDec sp, ← rdNat di⟩
  | _ => none

/-! the forms of the GPSData constructor arguments -/

def rdInt (s : String) : Option Int :=
  if s.startsWith "-" then (fun n : Nat => -(n : Int)) <$> (s.drop 1).toNat? else (fun n : Nat => (n : Int)) <$> s.toNat?

def rdTimeArg (s : String) : Option TimeArg :=
  match s.splitOn ":" with
  | ["t", h, m, sec, us, tz, fold] => do
    pure (.time (← rdNat h) (← rdNat m) (← rdNat sec) (← rdNat us) (← rdOpt rdInt tz) (← rdNat fold))
  | ["b", h] => .octets <$> rdHex h
  | _ => none

def rdDateArg (s : String) : Option DateArg :=
  match s.splitOn ":" with
  | ["d", d, m, y] => do pure (.date (← rdNat d) (← rdNat m) (← rdNat y))
  | ["dt", d, m, y, h, mi, sec, us, tz] => do
    pure (.datetime (← rdNat d) (← rdNat m) (← rdNat y) (← rdNat h) (← rdNat mi) (← rdNat sec) (← rdNat us) (← rdOpt rdInt tz))
  | ["b", h] => .octets <$> rdHex h
  | _ => none

def rdCoordArg (s : String) : Option CoordArg :=
  match s.splitOn ":" with
  | ["f", v] => .fixed4 <$> rdNat v
  | ["i", v] => .int <$> rdNat v
  | ["b", h] => .octets <$> rdHex h
  | _ => none

def rdSpeedArg (s : String) : Option SpeedArg :=
  match s.splitOn ":" with
  | ["f", v] => .float <$> rdDec v
  | ["b", h] => .octets <$> rdHex h
  | _ => none

def rdDirArg (s : String) : Option DirArg :=
  match s.splitOn ":" with
  | ["i", v] => .int <$> rdNat v
  | ["b", h] => .octets <$> rdHex h
  | _ => none

def rdGpsArgs : List String → Option GpsArgs
  | [v, t, d, n, la, e, lo, sp, di] => do
    pure ⟨← rdBool v, ← rdTimeArg t, ← rdDateArg d, ← rdBool n, ← rdCoordArg la, ← rdBool e, ← rdCoordArg lo,
      ← rdSpeedArg sp, ← rdDirArg di⟩
  | _ => none

open Dmr.Gen.Hytera in
def rdRcpBody (op : Nat) (a : List String) : Option RcpBody :=
  if op = rcpUnknownService then
    match a with | [ro, raw] => do pure (.unknown (← rdHex ro) (← rdHex raw)) | _ => none
  else if op = rcpCallRequest then
    match a with | [ct, t] => do pure (.callRequest (← rdNat ct) (← rdNat t)) | _ => none
  else if op = rcpCallReply then
    match a with | [r] => do pure (.callReply (← rdNat r)) | _ => none
  else if op = rcpRepeaterBroadcastTransmitStatus then
    match a with
    | [m, st, sv, ct, t, s] => do
      pure (.rptBroadcastTx (← rdNat m) (← rdNat st) (← rdNat sv) (← rdNat ct) (← rdNat t) (← rdNat s))
    | _ => none
  else if op = rcpBroadcastMessageConfigurationRequest then
    match a with | [r] => do pure (.bcastMsgCfgReq (← rdNat r)) | _ => none
  else if op = rcpBroadcastMessageConfigurationReply then
    match a with | [r] => do pure (.bcastMsgCfgReply (← rdNat r)) | _ => none
  else if op = rcpRadioIDAndRadioIPQueryRequest then
    match a with | [r] => do pure (.idIpQueryReq (← rdNat r)) | _ => none
  else if op = rcpRadioIDAndRadioIPQueryReply then
    match a with | [r, t, raw] => do pure (.idIpQueryReply (← rdNat r) (← rdNat t) (← rdHex raw)) | _ => none
  else if op = rcpBroadcastStatusConfigurationRequest then
    match a with | [raw] => do pure (.bcastStatusCfgReq (← rdHex raw)) | _ => none
  else if op = rcpBroadcastStatusConfigurationReply then
    match a with | [r] => do pure (.bcastStatusCfgReply (← rdNat r)) | _ => none
  else if op = rcpSendTalkerAliasRequest then
    match a with
    | [ct, s, t, f, al] => do
      pure (.talkerAliasReq (← rdNat ct) (← rdNat s) (← rdNat t) (← rdNat f) (← rdHex al))
    | _ => none
  else if op = rcpSendTalkerAliasReply then
    match a with
    | [r, ct, s, t] => do pure (.talkerAliasReply (← rdNat r) (← rdNat ct) (← rdNat s) (← rdNat t))
    | _ => none
  else if op = rcpZoneAndChannelOperationRequest then
    match a with | [raw] => do pure (.zoneChanReq (← rdHex raw)) | _ => none
  else if op = rcpZoneAndChannelOperationReply then
    match a with | [raw] => do pure (.zoneChanReply (← rdHex raw)) | _ => none
  else if op = rcpStatusChangeNotificationRequest then
    match a with | [st] => do pure (.statusNotifyReq (← rdPairs st)) | _ => none
  else if op = rcpStatusChangeNotificationReply then
    match a with | [r] => do pure (.statusNotifyReply (← rdNat r)) | _ => none
  else if op = rcpRadioStatusReport then
    match a with | [t, v] => do pure (.radioStatusReport (← rdNat t) (← rdNat v)) | _ => none
  else none

/-- `NONE` or a PDU tuple -/
def rdOptPdu : List String → Option (Option Pdu)
  | ["NONE"] => some none
  | ["RRS", rel, op, ip, res, renew, st] => do
    pure (some (.rrs ⟨← rdBool rel, ← rdNat op, ← rdIp ip, ← rdNat res, ← rdNat renew, ← rdNat st⟩))
  | "LP" :: rel :: op :: rid :: ip :: rest => do
    let op ← rdNat op
    if op = Gen.Hytera.lpStandardReport then
      match rest with
      | res :: g => pure (some (.lp ⟨← rdBool rel, op, ← rdNat rid, ← rdIp ip, ← rdNat res, ← rdGps g⟩))
      | _ => none
    else if rest.isEmpty then pure (some (.lp ⟨← rdBool rel, op, ← rdNat rid, ← rdIp ip, 0, Gps.zero⟩))
    else none
  | ["TMP", rel, conf, ho, op, rid, dst, src, text, opt, res, short] => do
    pure (some (.tmp ⟨← rdBool rel, ← rdBool conf, ← rdBool ho, ← rdNat op, ← rdNat rid, ← rdOpt rdIp dst,
      ← rdOpt rdIp src, ← rdHex text, ← rdOpt rdHex opt, ← rdOpt rdNat res, ← rdHex short⟩))
  | "RCP" :: rel :: op :: rest => do
    pure (some (.rcp ⟨← rdBool rel, ← rdRcpBody (← rdNat op) rest⟩))
  | _ => none

def bytesLenS (b : R Bytes) (l : R Nat) : String :=
  resS hx b ++ " " ++ resS toString l

def hrnpS (q : Hrnp) : String :=
  " ".intercalate ["HRNP", hx q.header, hx q.version, toString q.block, toString q.opcode, toString q.source,
    toString q.destination, toString q.packetNumber, toString q.checksum, b01 q.checksumCorrect, optPduS q.data]

def hstrpS (h : Hstrp) : String :=
  " ".intercalate ["HSTRP", toString h.version, toString h.pktType.asByte, toString h.sn, optsS h.options,
    optPduS h.payload]

def hyteraOp (op : String) (args : List String) : Option String :=
  match op, args with
  | "hdap.parse", [h] => do
    let d ← rdHex h
    match Hdap.fromBytes d with
    | .error e => some (errS e)
    | .ok none => some "NONE"
    | .ok (some p) => some (pduS p ++ " => " ++ bytesLenS p.asBytes p.len)
  | "hdap.mk", t => do
    match ← rdOptPdu t with
    | none => none
    | some p => some (bytesLenS p.asBytes p.len)
  | "hdap.cksum", [h] => do
    let d ← rdHex h
    some (toString (hdapChecksum d))
  | "hrnp.cksum", [h] => do
    let d ← rdHex h
    some (toString (hrnpCheck d))
  | "hrnp.parse", [h] => do
    let d ← rdHex h
    match Hrnp.fromBytes d with
    | .error e => some (errS e)
    | .ok q => some (hrnpS q ++ " => " ++ bytesLenS q.asBytes q.len)
  | "hrnp.mk", hd :: ver :: blk :: opc :: src :: dst :: pn :: t => do
    let data ← rdOptPdu t
    match Hrnp.init data (← rdNat opc) (← rdNat src) (← rdNat dst) (← rdNat blk) (← rdNat pn) 0 (← rdHex hd) (← rdHex ver) with
    | .error e => some (errS e)
    | .ok q => some (bytesLenS q.asBytes q.len)
  | "hstrp.parse", [h] => do
    let d ← rdHex h
    match Hstrp.fromBytes d with
    | .error e => some (errS e)
    | .ok none => some "NONE"
    | .ok (some p) => some (hstrpS p ++ " => " ++ resS hx p.asBytes)
  | "hstrp.mk", ver :: ty :: sn :: opts :: t => do
    let pl ← rdOptPdu t
    let p : Hstrp := ⟨← rdNat ver, PktType.ofByte (← rdNat ty), ← rdNat sn, ← rdOpts opts, pl⟩
    some (resS hx p.asBytes)
  | "opts.parse", [h] => do
    let d ← rdHex h
    some (resS (fun o => optsS o ++ " " ++ toString (optionsLen o)) (parseOptions d))
  | "tmp.text", ["b", h] => do
    let d ← rdHex h
    match (TextArg.octets d).stored with
    | some b => some (hx b)
    | none => some "ERR UnicodeEncodeError"
  | "tmp.text", ["s", l] => do
    let cps ← if l == "-" then some [] else (l.splitOn ",").mapM rdNat
    match (TextArg.str cps).stored with
    | some b => some (hx b)
    | none => some "ERR UnicodeEncodeError"
  | "arg.gps", a => do
    let g ← rdGpsArgs a
    match g.init with
    | .error e => some (errS e)
    | .ok r => some (hx r.asBytes ++ " " ++ toString r.asBytes.length)
  | "type.byte", [b] => do
    let b ← rdNat b
    let t := PktType.ofByte b
    some (" ".intercalate [toString t.asByte, b01 t.hasOptions, b01 t.hasData])
  | _, _ => none

end Dmr.Driver.Hytera
