import DmrVerif.Driver.Transl
import DmrVerif.Model.Layout
import DmrVerif.Model.TranslPduExt

/-!
`t.ps.*`: the definitions translated from `slot_type.py`, `embedded_signalling.py`, `short_link_control.py`,
`service_options.py` (C04 / C03; `Gen/TranslPduSmall.lean`) with the call boundary instantiated by the model (`modelExt`), and
`t.ps.prim.*`: the operations of the prelude `Model/PyBits.lean` one by one (validated against bitarray on every run).
Objects are printed attribute by attribute in assignment order: `name=value;…`, ints decimal, bools `1`/`0`, bit strings
`0101` (`-` = empty), Enum members as their values, `None`, `UNSET` for an attribute that was never assigned.
-/

namespace Dmr.Driver
open Dmr Dmr.Py Dmr.PyBits Dmr.Driver.T

partial def showVal : PyVal → String
  | .int v => toString v
  | .bool b => sBool b
  | .bits b => bitsToString' b
  | .bytes b => sBytes b
  | .enum _ v => toString v
  | .none => "None"
  | .unset => "UNSET"
  | .obj _ fs => "{" ++ ";".intercalate (fs.map (fun (k, v) => k ++ "=" ++ showVal v)) ++ "}"

def showFields (fs : List (String × PyVal)) : String :=
  ";".intercalate (fs.map (fun (k, v) => k ++ "=" ++ showVal v))

def optInt (s : String) : Option (Option Int) := if s == "-" then some none else (intOfString s).map some

def translPduSmallOp (op : String) (args : List String) : Option String :=
  let ext := Transl.PduSmall.modelExt
  match op, args with
  | "t.ps.slot", [b] => do
    let b ← bitsOfString' b
    some (out (fun o => showFields o.fields ++ " " ++ out bitsToString' (Transl.PduSmall.SlotType.as_bits ext o))
      (Transl.PduSmall.SlotType.from_bits ext b))
  | "t.ps.emb", [b] => do
    let b ← bitsOfString' b
    some (out (fun o => showFields o.fields ++ " " ++ out bitsToString' (Transl.PduSmall.EmbeddedSignalling.as_bits ext o))
      (Transl.PduSmall.EmbeddedSignalling.from_bits ext b))
  | "t.ps.slc", [b] => do
    let b ← bitsOfString' b
    some (out (fun o => showFields o.fields ++ " " ++ out bitsToString' (Transl.PduSmall.ShortLinkControl.as_bits ext o))
      (Transl.PduSmall.ShortLinkControl.from_bits ext b))
  | "t.ps.so", [b] => do
    let b ← bitsOfString' b
    some (out (fun o => showFields o.fields ++ " " ++ out bitsToString' (Transl.PduSmall.ServiceOptions.as_bits ext o))
      (Transl.PduSmall.ServiceOptions.from_bits ext b))
  | "t.ps.slotinit", [cc, dt, par] => do
    let cc ← intOfString cc
    let dt ← intOfString dt
    let par ← intOfString par
    some (out (fun o => showFields o.fields) (Transl.PduSmall.SlotType.init ext cc dt par))
  | "t.ps.embinit", [cc, pv, lc, par] => do
    let cc ← intOfString cc
    let pv ← intOfString pv
    let lc ← intOfString lc
    let par ← intOfString par
    some (out (fun o => showFields o.fields) (Transl.PduSmall.EmbeddedSignalling.init ext cc pv lc par))
  | "t.ps.prim.ba2int", [b] => do
    let b ← bitsOfString' b
    some (out sInt (ba2int b))
  | "t.ps.prim.int2ba", [x, n] => do
    let x ← intOfString x
    let n ← intOfString n
    some (out bitsToString' (int2ba x n))
  | "t.ps.prim.int2bale", [x, n] => do
    let x ← intOfString x
    let n ← intOfString n
    some (out bitsToString' (int2baLE x n))
  | "t.ps.prim.slice", [b, i, j] => do
    let b ← bitsOfString' b
    let i ← optInt i
    let j ← optInt j
    some (bitsToString' (Py.slice b i j))
  | "t.ps.prim.getbit", [b, i] => do
    let b ← bitsOfString' b
    let i ← intOfString i
    some (out sInt (PyBits.getBit b i))
  | "t.ps.prim.bitarray", xs => do
    let xs ← xs.mapM intOfString
    some (out bitsToString' (baOfInts xs))
  | _, _ => none

end Dmr.Driver
