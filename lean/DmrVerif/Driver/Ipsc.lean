import DmrVerif.Model.Ipsc

/-! line-protocol operations for the Hytera IPSC frame codecs (C13) -/

namespace Dmr.Driver
open Dmr Dmr.Ipsc

namespace C13

def showErr (e : Ipsc.Err) : String := "ERR " ++ e.name

def showObj (x : Ipsc) : String :=
  " ".intercalate
    [toString x.callType, toString x.slotType, toString x.frameType, toString x.packetType,
     toString x.timeslot, toString x.seq, toString x.cc, toString x.dst, toString x.src,
     bytesToHex' x.payload, bytesToHex' x.pad, bytesToHex' x.firstHeader, bytesToHex' x.secondHeader,
     bytesToHex' x.reserved3, bytesToHex' x.reserved7a, bytesToHex' x.reserved2a,
     bytesToHex' x.reserved2b, bytesToHex' x.reserved1]

def showCls : BurstClass → String
  | .sync => "sync" | .wakeup => "wakeup" | .burst => "burst"

def showBt : BurstType → String
  | .undefined => "undefined" | .vocoder => "vocoder" | .dataAndControl => "data"

def showView (v : View) : String :=
  " ".intercalate
    [showCls v.cls, showBt v.btype, bytesToHex' v.payload, toString v.timeslot, toString v.seq,
     toString v.cc, toString v.src, toString v.dst]

def showBytes : Except Ipsc.Err Bytes → String
  | .error e => showErr e
  | .ok b => bytesToHex' b

end C13
open C13

def ipscOp (op : String) (args : List String) : Option String :=
  match op, args with
  | "ipsc.raw", [d] => do
    let d ← hexToBytes d
    match burstRaw d with
    | .error e => some (showErr e)
    | .ok v => some (showView v)
  | "ipsc.kai", [d] => do
    let d ← hexToBytes d
    match burstKaitai d with
    | .error e => some (showErr e)
    | .ok v => some (showView v)
  | "ipsc.obj.raw", [d] => do
    let d ← hexToBytes d
    match fromIpscBytes d with
    | .error e => some (showErr e)
    | .ok x => some (showObj x)
  | "ipsc.obj.kai", [d] => do
    let d ← hexToBytes d
    match kaitaiPath d with
    | .error e => some (showErr e)
    | .ok x => some (showObj x)
  | "ipsc.ser.raw", [d] => do
    let d ← hexToBytes d
    match fromIpscBytes d with
    | .error e => some (showErr e)
    | .ok x => some (showBytes (asIpscBytes x))
  | "ipsc.ser.kai", [d] => do
    let d ← hexToBytes d
    match kaitaiPath d with
    | .error e => some (showErr e)
    | .ok x => some (showBytes (asIpscBytes x))
  | "ipsc.build", [ct, st, ft, pt, ts, seq, cc, dst, src, payload, pad] => do
    let ct ← ct.toNat?
    let st ← st.toNat?
    let ft ← ft.toNat?
    let pt ← pt.toNat?
    let ts ← ts.toNat?
    let seq ← seq.toNat?
    let cc ← cc.toNat?
    let dst ← dst.toNat?
    let src ← src.toNat?
    let payload ← hexToBytes payload
    let pad ← hexToBytes pad
    some (showBytes (asIpscBytes
      { callType := ct, frameType := ft, packetType := pt, slotType := st, timeslot := ts, seq := seq,
        cc := cc, dst := dst, src := src, payload := payload, pad := pad,
        firstHeader := Gen.Ipsc.defaultFirstHeader, secondHeader := Gen.Ipsc.defaultSecondHeader,
        reserved3 := Gen.Ipsc.defaultReserved3, reserved7a := Gen.Ipsc.defaultReserved7a,
        reserved2a := Gen.Ipsc.defaultReserved2a, reserved2b := Gen.Ipsc.defaultReserved2b,
        reserved1 := Gen.Ipsc.defaultReserved1 }))
  | "ipsc.swap", [d] => do
    let d ← hexToBytes d
    some (bytesToHex' (byteswap d))
  | "ipsc.half", [h, n] => do
    let h ← h.toNat?
    let n ← n.toNat?
    some (showBytes (halfByte h n))
  | _, _ => none

end Dmr.Driver
