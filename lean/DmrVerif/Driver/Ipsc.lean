import DmrVerif.Model.Ipsc

/-! line-protocol operations for the Hytera IPSC frame codecs (C13) -/

namespace Dmr.Driver
open Dmr Dmr.Ipsc

namespace C13

def showErr (e : Ipsc.Err) : String := "ERR " ++ e.name

def showObj (x : Ipsc) : String :=
  " ".intercalate
    [toString x.callType, toString x.slotType, toString x.frameType, toString x.packetType,
     toString x.timeslot, toString x.seq, toString x.cc, toString x.dst, toString x.src,
     bytesToHex' x.payload, bytesToHex' x.pad, bytesToHex' x.firstHeader, bytesToHex' x.secondHeader,
     bytesToHex' x.reserved3, bytesToHex' x.reserved7a, bytesToHex' x.reserved2a,
     bytesToHex' x.reserved2b, bytesToHex' x.reserved1]

def showCls : BurstClass → String
  | .sync => "sync" | .wakeup => "wakeup" | .burst => "burst"

def showBt : BurstType → String
  | .undefined => "undefined" | .vocoder => "vocoder" | .dataAndControl => "data"

def showView (v : View) : String :=
  " ".intercalate
    [showCls v.cls, showBt v.btype, bytesToHex' v.payload, toString v.timeslot, toString v.seq,
     toString v.cc, toString v.src, toString v.dst]

def showBytes : Except Ipsc.Err Bytes → String
  | .error e => showErr e
  | .ok b => bytesToHex' b

end C13
open C13

def ipscOp (op : String) (args : List String) : Option String :=
  match op, args with
  | "ipsc.raw", [d] => do
    let d ← hexToBytes d
    match burstRaw d with
    | .error e => some (showErr e)
    | .ok v => some (showView v)
  | "ipsc.kai", [d] => do
    let d ← hexToBytes d
    match burstKaitai d with
    | .error e => some (showErr e)
    | .ok v => some (showView v)
  | "ipsc.obj.raw", [d] => do
    let d ← hexToBytes d
    match fromIpscBytes d with
    | .error e => some (showErr e)
    | .ok x => some (showObj x)
  | "ipsc.obj.kai", [d] => do
    let d ← hexToBytes d
    match kaitaiPath d with
    | .error e => some (showErr e)
    | .ok x => some (showObj x)
  | "ipsc.ser.raw", [d] => do
    let d ← hexToBytes d
    match fromIpscBytes d with
    | .error e => some (showErr e)
    | .ok x => some (showBytes (asIpscBytes x))
  | "ipsc.ser.kai", [d] => do
    let d ← hexToBytes d
    match kaitaiPath d with
    | .error e => some (showErr e)
    | .ok x => some (showBytes (asIpscBytes x))
  | "ipsc.build", [ct, st, ft, pt, ts, seq, cc, dst, src, payload, pad] => do
    let ct ← ct.toNat?
    let st ← st.toNat?
    let ft ← ft.toNat?
    let pt ← pt.toNat?
    let ts ← ts.toNat?
    let seq ← seq.toNat?
    let cc ← cc.toNat?
    let dst ← dst.toNat?
    let src ← src.toNat?
    let payload ← hexToBytes payload
    let pad ← hexToBytes pad
    some (showBytes (asIpscBytes
      { callType := ct, frameType := ft, packetType := pt, slotType := st, timeslot := ts, seq := seq,
        cc := cc, dst := dst, src := src, payload := payload, pad := pad,
        firstHeader := Gen.Ipsc.defaultFirstHeader, secondHeader := Gen.Ipsc.defaultSecondHeader,
        reserved3 := Gen.Ipsc.defaultReserved3, reserved7a := Gen.Ipsc.defaultReserved7a,
        reserved2a := Gen.Ipsc.defaultReserved2a, reserved2b := Gen.Ipsc.defaultReserved2b,
        reserved1 := Gen.Ipsc.defaultReserved1 }))
  | "ipsc.swap", [d] => do
    let d ← hexToBytes d
    some (bytesToHex' (byteswap d))
  | "ipsc.half", [h, n] => do
    let h ← h.toNat?
    let n ← n.toNat?
    some (showBytes (halfByte h n))
  | _, _ => none

/-! ### histories: every decoded object is kept (`Heap`); `h.read` shows its current content -/

def fieldByName : String → Option Field
  | "call_type" => some .callType
  | "frame_type" => some .frameType
  | "packet_type" => some .packetType
  | "slot_type" => some .slotType
  | "timeslot" => some .timeslot
  | "sequence_number" => some .seq
  | "color_code" => some .cc
  | "destination_radio_id" => some .dst
  | "source_radio_id" => some .src
  | "payload" => some .payload
  | "payload_pad" => some .pad
  | "first_header" => some .firstHeader
  | "second_header" => some .secondHeader
  | "reserved_3" => some .reserved3
  | "reserved_7a" => some .reserved7a
  | "reserved_2a" => some .reserved2a
  | "reserved_2b" => some .reserved2b
  | "reserved_1" => some .reserved1
  | _ => none

def fieldIsNat : Field → Bool
  | .callType | .frameType | .packetType | .slotType | .timeslot | .seq | .cc | .dst | .src => true
  | _ => false

/-- a decoder step: the answer names the new handle (or the error) and shows what was handed out -/
def decStep (h : Heap) (op : HOp) (res : Except Ipsc.Err String) : Heap × String :=
  match res with
  | .error e => (op.run h, showErr e)
  | .ok s => (op.run h, toString h.size ++ " " ++ s)

def ipscStep (h : Heap) (op : String) (args : List String) : Heap × String :=
  let bad := (h, "ERR bad-op " ++ op)
  match op, args with
  | "h.reset", [] => (Heap.empty, "ok")
  | "h.raw", [d] =>
    match hexToBytes d with
    | some d => decStep h (.decRaw d) ((fromIpscBytes d).map showObj)
    | none => bad
  | "h.kai", [d] =>
    match hexToBytes d with
    | some d => decStep h (.decKai d) ((kaitaiPath d).map showObj)
    | none => bad
  | "h.braw", [d] =>
    match hexToBytes d with
    | some d => decStep h (.burstRaw d) ((burstRaw d).map showView)
    | none => bad
  | "h.bkai", [d] =>
    match hexToBytes d with
    | some d => decStep h (.burstKai d) ((burstKaitai d).map showView)
    | none => bad
  | "h.set", [r, f, v] =>
    match r.toNat?, fieldByName f with
    | some r, some f =>
      let val : Option Val := if fieldIsNat f then v.toNat?.map Val.nat else (hexToBytes v).map Val.bytes
      match val with
      | some val => if r < h.size then ((HOp.set r f val).run h, "ok") else (h, "ERR ref")
      | none => bad
    | _, _ => bad
  | "h.read", [r] =>
    match r.toNat? with
    | some r =>
      match h.read r with
      | some x => (h, showObj x)
      | none => (h, "ERR ref")
    | none => bad
  | "h.ser", [r] =>
    match r.toNat? with
    | some r =>
      match h.read r with
      | some x => ((HOp.ser r).run h, showBytes (asIpscBytes x))
      | none => (h, "ERR ref")
    | none => bad
  | _, _ =>
    match ipscOp op args with
    | some out => (h, out)
    | none => bad

end Dmr.Driver
