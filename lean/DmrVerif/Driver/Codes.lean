import DmrVerif.Model.Codes
import DmrVerif.Model.CodesStore
import DmrVerif.Gen.Codes

/-! line-protocol operations for the block codes (C06) -/

namespace Dmr.Driver
open Dmr Dmr.Gen

def codeByName : String → Option Code
  | "h743" => some h743
  | "h1393" => some h1393
  | "h15113" => some h15113
  | "h16114" => some h16114
  | "h17123" => some h17123
  | "golay2087" => some golay2087
  | "qr1676" => some qr1676
  | _ => none

def b01 (b : Bool) : String := if b then "1" else "0"

/-- a bit string argument; `-` stands for no bits at all -/
def bitsArg (s : String) : Option Bits := if s == "-" then some [] else bitsOfString s

def codesOp (op : String) (args : List String) : Option String :=
  match op, args with
  | "code.gen", [c, m] => do
    let C ← codeByName c
    let m ← bitsArg m
    if m.length != C.k then some "ERR AssertionError" else
    some (bitsToString (C.gen m))
  | "code.check", [c, w] => do
    let C ← codeByName c
    let w ← bitsArg w
    if w.length != C.n then some "ERR AssertionError" else
    some (b01 (C.check w))
  | "code.cac", [c, w] => do
    let C ← codeByName c
    let w ← bitsArg w
    if w.length != C.n then some "ERR AssertionError" else
    let r := C.checkAndCorrect w
    some (b01 r.1 ++ " " ++ bitsToString r.2)
  | "code.correct", [c, w] => do
    let C ← codeByName c
    let w ← bitsArg w
    if w.length != C.n then some "ERR AssertionError" else
    some (bitsToString (C.correct w))
  | _, _ => none

/-! ### the argument given as a bitarray buffer: `<endian> <len> <hex of tobytes()>` -/

def endianOfString : String → Option Bool
  | "big" => some false
  | "little" => some true
  | _ => none

/-- a buffer is accepted when it has exactly the octets of `len` bits (pad bits are not inspected:
`bitarray` ignores them) -/
def storeArg (e len hex : String) : Option (Bool × Bytes × Nat) := do
  let e ← endianOfString e
  let n ← len.toNat?
  let bs ← hexToBytes hex
  if bs.length != (n + 7) / 8 then none else some (e, bs, n)

def storeOp (op : String) (args : List String) : Option String :=
  match op, args with
  | "code.genS", [c, e, len, hex] => do
    let C ← codeByName c
    let (e, bs, n) ← storeArg e len hex
    if n != C.k then some "ERR AssertionError" else
    some (bitsToString (C.genStore e bs n))
  | "code.checkS", [c, e, len, hex] => do
    let C ← codeByName c
    let (e, bs, n) ← storeArg e len hex
    if n != C.n then some "ERR AssertionError" else
    some (b01 (C.checkStore e bs n))
  | "code.cacS", [c, e, len, hex] => do
    let C ← codeByName c
    let (e, bs, n) ← storeArg e len hex
    if n != C.n then some "ERR AssertionError" else
    let r := C.cacStore e bs n
    some (b01 r.1 ++ " " ++ bytesToHex' r.2)
  | _, _ => none

/-! ### the argument given as the memory of an ndarray: `<itemsize> <big|little> <offset> <stride> <len> <hex of the buffer>` -/

def ndArg (sz bo off stride len hex : String) : Option (NdLayout × Bytes × Nat) := do
  let sz ← sz.toNat?
  let little ← endianOfString bo
  let off ← off.toNat?
  let stride ← stride.toNat?
  let n ← len.toNat?
  let bs ← if hex == "-" then some [] else hexToBytes hex
  some (⟨sz, !little, off, stride⟩, bs, n)

/-- an element that is cut off or not 0 / 1 makes `bitarray(values)` / the dot product fail -/
def ndOut (r : Option String) : String := r.getD "ERR ValueError"

def ndOp (op : String) (args : List String) : Option String :=
  match op, args with
  | "code.genN", [c, sz, bo, off, stride, len, hex] => do
    let C ← codeByName c
    let (L, bs, n) ← ndArg sz bo off stride len hex
    if n != C.k then some "ERR AssertionError" else
    some (ndOut ((C.genNd L bs n).map bitsToString))
  | "code.checkN", [c, sz, bo, off, stride, len, hex] => do
    let C ← codeByName c
    let (L, bs, n) ← ndArg sz bo off stride len hex
    if n != C.n then some "ERR AssertionError" else
    some (ndOut ((C.checkNd L bs n).map b01))
  | "code.correctN", [c, sz, bo, off, stride, len, hex] => do
    let C ← codeByName c
    let (L, bs, n) ← ndArg sz bo off stride len hex
    if n != C.n then some "ERR AssertionError" else
    some (ndOut ((C.correctNd L bs n).map bitsToString))
  | _, _ => none

/-! ### histories: every result is kept as an object (`Heap`), `h.read` shows its current content -/

/-- result line of an allocating step: the handle, optional verdict, current content of the new object -/
def allocLine (h' : Heap) (r : Nat) (verdict : String) : String :=
  toString r ++ " " ++ verdict ++ bitsToString ((h'.read r).getD [])

/-- (the heap is threaded linearly — no reference to the old heap survives a step — so that the
compiled `Array` is updated in place) -/
def histStep (h : Heap) (op : String) (args : List String) : Heap × String :=
  match op, args with
  | "h.reset", [] => (Heap.empty, "ok")
  | "h.gen", [c, m] =>
    match codeByName c, bitsArg m with
    | some C, some m =>
      if !(HOp.gen C m).accepted then ((HOp.gen C m).runE h, "ERR AssertionError") else
      let r := h.size
      let h' := (HOp.gen C m).runE h
      let out := allocLine h' r ""
      (h', out)
    | _, _ => (h, "ERR bad-op " ++ op)
  | "h.check", [c, w] =>
    match codeByName c, bitsArg w with
    | some C, some w =>
      if !(HOp.check C w).accepted then ((HOp.check C w).runE h, "ERR AssertionError") else
      ((HOp.check C w).runE h, b01 (C.check w))
    | _, _ => (h, "ERR bad-op " ++ op)
  | "h.cac", [c, w] =>
    match codeByName c, bitsArg w with
    | some C, some w =>
      if !(HOp.cac C w).accepted then ((HOp.cac C w).runE h, "ERR AssertionError") else
      let r := h.size
      let h' := (HOp.cac C w).runE h
      let out := allocLine h' r (b01 (C.checkAndCorrect w).1 ++ " ")
      (h', out)
    | _, _ => (h, "ERR bad-op " ++ op)
  | "h.correct", [c, w] =>
    match codeByName c, bitsArg w with
    | some C, some w =>
      if !(HOp.correct C w).accepted then ((HOp.correct C w).runE h, "ERR AssertionError") else
      let r := h.size
      let h' := (HOp.correct C w).runE h
      let out := allocLine h' r ""
      (h', out)
    | _, _ => (h, "ERR bad-op " ++ op)
  | "h.overwrite", [r, v] =>
    match r.toNat?, bitsOfString v with
    | some r, some v =>
      if r < h.size then ((HOp.overwrite r v).run h, "ok") else (h, "ERR ref")
    | _, _ => (h, "ERR bad-op " ++ op)
  | "h.read", [r] =>
    match r.toNat? with
    | some r =>
      match h.read r with
      | some v => (h, bitsToString v)
      | none => (h, "ERR ref")
    | none => (h, "ERR bad-op " ++ op)
  | _, _ =>
    match [codesOp, storeOp, ndOp].findSome? (fun f => f op args) with
    | some out => (h, out)
    | none => (h, "ERR bad-op " ++ op)

end Dmr.Driver
