import DmrVerif.Model.Codes
import DmrVerif.Gen.Codes

/-! line-protocol operations for the block codes (C06) -/

namespace Dmr.Driver
open Dmr Dmr.Gen

def codeByName : String → Option Code
  | "h743" => some h743
  | "h1393" => some h1393
  | "h15113" => some h15113
  | "h16114" => some h16114
  | "h17123" => some h17123
  | "golay2087" => some golay2087
  | "qr1676" => some qr1676
  | _ => none

def b01 (b : Bool) : String := if b then "1" else "0"

def codesOp (op : String) (args : List String) : Option String :=
  match op, args with
  | "code.gen", [c, m] => do
    let C ← codeByName c
    let m ← bitsOfString m
    if m.length != C.k then some "ERR assert" else
    some (bitsToString (C.gen m))
  | "code.check", [c, w] => do
    let C ← codeByName c
    let w ← bitsOfString w
    if w.length != C.n then some "ERR assert" else
    some (b01 (C.check w))
  | "code.cac", [c, w] => do
    let C ← codeByName c
    let w ← bitsOfString w
    if w.length != C.n then some "ERR assert" else
    let r := C.checkAndCorrect w
    some (b01 r.1 ++ " " ++ bitsToString r.2)
  | "code.correct", [c, w] => do
    let C ← codeByName c
    let w ← bitsOfString w
    if w.length != C.n then some "ERR assert" else
    some (bitsToString (C.correct w))
  | _, _ => none

end Dmr.Driver
