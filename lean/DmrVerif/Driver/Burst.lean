import DmrVerif.Model.Burst
import DmrVerif.Driver.Pdu

/-!
Line-protocol operations for the burst model (C01).

* `burst.parse <U|V|D> <264 bits>`  → `ok <sync> <start><vocoder><data><hasEmb> <emb|-> <slot|-> <payload|-> <as_bits | ERR …>`
* `burst.transplant <U|V|D> <264 bits> <48 centre bits>` → as `burst.parse`, for the voice burst whose vocoder bits are the two
  halves of the given burst around the given centre (`Burst.transplant`; payload content that is a valid object of another kind)
* `burst.build <cc> <sync value> <kind> <fields …>` → the 264 bits of the assembled burst, or `ERR …`
* `slot.dec <20 bits>`, `emb.dec <16 bits>` → fields and re-serialised bits
* `sync.resolve <48-bit value>` → pattern value or `EMB` (`SyncPatterns.resolve_bytes`)
* `burst.mmdvm <E|I><frame_type> <E|I><slot_no> <264 bits>` → as `burst.parse`, for `Burst.from_mmdvm` of a frame object whose
  `frame_type` / `slot_no` hold an Enum member (E, as the Kaitai parser leaves them) or a plain int (I)
* `burst.ipsc <slot type> <call type> <timeslot> <264 bits>` → as `burst.parse`, for `Burst.from_hytera_ipsc`; `pseudo sync` /
  `pseudo wakeup` for the two Hytera pseudo bursts
-/

namespace Dmr.Driver
open Dmr Dmr.Gen

def crcs : Crcs := ⟨csbkCrc, dhCrc, piCrc, rateCrc9 0x0F0, rateCrc9 0x1FF, rateCrc9 0x10F⟩

def bar (s : String) : String := s.replace " " "|"

def payloadToString : Payload → String
  | .piHeader p => "pi|" ++ sBytes p.data ++ "|" ++ toString p.crc
  | .voiceLcHeader p => "vlc|" ++ bar (flcFields p)
  | .terminatorWithLc p => "tlc|" ++ bar (flcFields p)
  | .csbk p => "csbk|" ++ bar (csbkFields p)
  | .dataHeader p => "dh|" ++ bar (dhFields p)
  | .rate12 p => "rate12|" ++ bar (rateFields p)
  | .rate34 p => "rate34|" ++ bar (rateFields p)
  | .rate1 p => "rate1|" ++ bar (rateFields p)

def slotToString (s : SlotType) : String := commas [toString s.colourCode, toString s.dataType, toString s.fecParity]
def embToString (e : Emb) : String :=
  commas [toString e.colourCode, toString e.pi, toString e.lcss, toString e.parity]

def syncToString : Sync → String
  | .pattern v => toString v
  | .embedded => "EMB"

def burstTypeOf : String → Option BurstType
  | "U" => some .undefined
  | "V" => some .vocoder
  | "D" => some .dataAndControl
  | _ => none

def optS {α : Type} (f : α → String) : Option α → String
  | some a => f a
  | none => "-"

def ratePayload (cfg : RateCfg) (f9 : Bytes → Nat → Nat → Nat) (mk : RateData → Payload) :
    List String → Option (Except Err Payload)
  | [t, d, dbsn, c9, c32] => do
    let t ← rateTypeByName t
    let a : RateData := ⟨← pBytes d, ← pNat dbsn, ← pNat c9, ← pNat c32⟩
    some ((RateData.init cfg f9 t a).map mk)
  | _ => none

/-- the payload object the constructor builds from the field text -/
def payloadParse (kind : String) (f : List String) : Option (Except Err Payload) :=
  match kind, f with
  | "pi", [d, _] => do some (.ok (.piHeader (PiHeader.init piCrc (← pBytes d))))
  | "vlc", f => do some (.ok (.voiceLcHeader (← flcParse f)))
  | "tlc", f => do some (.ok (.terminatorWithLc (← flcParse f)))
  | "csbk", f => do some (.ok (.csbk (Csbk.init csbkCrc (← csbkParse f))))
  | "dh", f => do some (.ok (.dataHeader (DataHeader.init dhCrc (← dhParse f))))
  | "rate12", f => ratePayload rate12 crcs.r12 .rate12 f
  | "rate34", f => ratePayload rate34 crcs.r34 .rate34 f
  | "rate1", f => ratePayload rate1 crcs.r1 .rate1 f
  | _, _ => none

def parsedToString (q : Burst) (ser : Except Err Bits) : String :=
  "ok " ++ syncToString q.sync ++ " " ++ sBool q.isVoiceSuperframeStart ++ sBool q.isVocoder
    ++ sBool q.isDataOrControl ++ sBool q.hasEmb ++ " " ++ optS embToString q.emb ++ " "
    ++ optS slotToString q.slotType ++ " " ++ optS payloadToString q.data ++ " "
    ++ (match ser with
        | .ok x => sBits x
        | .error e => e.toString)

/-- `E<n>`: an Enum member with value n, `I<n>`: a plain int -/
def kvalOf (s : String) : Option KVal :=
  match s.toList with
  | 'E' :: r => (String.ofList r).toNat?.map KVal.member
  | 'I' :: r => (String.ofList r).toNat?.map KVal.int
  | _ => none

def burstOp (op : String) (a : List String) : Option String :=
  match op, a with
  | "burst.parse", [bt, bs] => do
    let bt ← burstTypeOf bt
    let bs ← pBits bs
    some (match Burst.parse crcs bs bt with
      | .error e => e.toString
      | .ok q => parsedToString q (Burst.serialise q))
  | "burst.transplant", [bt, bs, ce] => do
    let bt ← burstTypeOf bt
    let bs ← pBits bs
    let ce ← pBits ce
    some (match Burst.parse crcs (Burst.transplant bs ce) bt with
      | .error e => e.toString
      | .ok q => parsedToString q (Burst.serialise q))
  | "burst.mmdvm", [ft, sl, bs] => do
    let ft ← kvalOf ft
    let sl ← kvalOf sl
    let bs ← pBits bs
    some (match Burst.fromMmdvm crcs ⟨ft, sl, 0, 0, 0, 0, bs⟩ with
      | .error e => e.toString
      | .ok o => parsedToString o.core o.serialise)
  | "burst.ipsc", [st, ct, ts, bs] => do
    let st ← pNat st
    let ct ← pNat ct
    let ts ← pNat ts
    let bs ← pBits bs
    let f : IpscFrame := ⟨st, ct, ts, 0, 0, 0, bs⟩
    some (match Burst.fromIpsc crcs f with
      | .error e => e.toString
      | .ok (some o) => parsedToString o.core o.serialise
      | .ok none =>
        match Burst.ipscKind f with
        | .ok .sync => "pseudo sync"
        | .ok .wakeup => "pseudo wakeup"
        | _ => "pseudo ?")
  | "burst.build", cc :: sync :: kind :: f => do
    let cc ← pNat cc
    let sync ← pNat sync
    let p ← payloadParse kind f
    some (match p with
      | .error e => e.toString
      | .ok p =>
        match Burst.build p cc sync with
        | .error e => e.toString
        | .ok b =>
          match Burst.serialise b with
          | .ok x => sBits x
          | .error e => e.toString)
  | "slot.dec", [bs] => do
    let bs ← pBits bs
    some (match SlotType.dec bs with
      | .ok s => "ok " ++ slotToString s ++ " " ++ sBits s.enc
      | .error e => e.toString)
  | "sync.resolve", [v] => do
    let v ← pNat v
    some (syncToString (Sync.resolve v))
  | "emb.dec", [bs] => do
    let bs ← pBits bs
    some (match Emb.dec bs with
      | .ok e => "ok " ++ embToString e ++ " " ++ sBits e.enc
      | .error e => e.toString)
  | _, _ => none

end Dmr.Driver
