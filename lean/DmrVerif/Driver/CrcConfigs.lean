import DmrVerif.Model.CrcConfigs
import DmrVerif.Driver.CrcStream

/-!
line-protocol operation for register objects / calculators of ANY configuration under every public
call (C05, `Model/CrcConfigs.lean`):

    crc.cfg <width> <polynomial> <feed width, 0 = derive> <init> <xor-out> <revIn 0|1> <revOut 0|1> <b|t> <call> …

call = `i` init() | `d` digest() | `r` reverse() | `g` read `.register` | `w:<bits>` assign `.register`
     | `u:<bits>` update(big-endian bitarray) | `v:<bits>` update(little-endian bitarray)
     | `s:<bits>` calculate_checksum | `y:<bits>:<int>` verify_checksum (answers `1` / `0`)

The object is freshly constructed.  Output: the values returned, joined by `,` (`=` if none); an
exception ends the line with `ERR …` after the values returned so far.  `ERR unmodelled`: a constructor
argument that does not fit the width, or `reverse_input_bytes` with a partial last octet.
-/

namespace Dmr.Driver
open Dmr Dmr.Gen Dmr.Crc

def cfgActOf (s : String) : Option CfgAct :=
  match s.splitOn ":" with
  | ["i"] => some .init
  | ["d"] => some .digest
  | ["r"] => some .reverse
  | ["g"] => some .get
  | ["u", b] => (bitsArg b).map (.update false)
  | ["v", b] => (bitsArg b).map (.update true)
  | ["w", b] => (bitsArg b).map .set
  | ["s", b] => (bitsArg b).map (.sum false)
  | ["y", b, e] => do
    let b ← bitsArg b
    let e ← e.toInt?
    some (.verify false b e)
  | _ => none

/-- the table for `(width, polynomial)`: the pre-built constant for the five ETSI pairs -/
def tableFor (w poly : Nat) : List Bits :=
  if w == crc7.w && poly == crc7.poly then crcTbl7
  else if w == Gen.crc8.w && poly == Gen.crc8.poly then crcTbl8
  else if w == Gen.crc9.w && poly == Gen.crc9.poly then crcTbl9
  else if w == Gen.crc16.w && poly == Gen.crc16.poly then crcTbl16
  else if w == Gen.crc32.w && poly == Gen.crc32.poly then crcTbl32
  else lookupTable w poly

def fedBits : CfgAct → Option Bits
  | .update _ b => some b
  | .sum _ b => some b
  | .verify _ b _ => some b
  | _ => none

def cfgModelled (c : CrcConfig) (acts : List CfgAct) : Bool :=
  decide (0 < c.w) && decide (c.poly < 2 ^ c.w) && decide (c.init < 2 ^ c.w) && decide (c.xorout < 2 ^ c.w)
    && (!c.revIn || acts.all (fun a => match fedBits a with
          | some b => b.length % 8 == 0
          | none => true))

def cfgOut (res : List Bits × Except CrcErr Bits) : String :=
  let parts := res.1.map bitsOut ++ (match res.2 with | .error e => [e.toString] | .ok _ => [])
  if parts.isEmpty then "=" else ",".intercalate parts

def crcConfigsOp (op : String) (args : List String) : Option String :=
  match op, args with
  | "crc.cfg", w :: poly :: fw :: init :: xo :: ri :: ro :: mode :: acts => do
    let w ← w.toNat?
    let poly ← poly.toNat?
    let fw ← fw.toNat?
    let init ← init.toNat?
    let xo ← xo.toNat?
    let ri ← flagArg ri
    let ro ← flagArg ro
    let table ← (match mode with | "b" => some false | "t" => some true | _ => none)
    let acts ← acts.mapM cfgActOf
    let c : CrcConfig :=
      { poly := poly, w := w, fw := effFeedWidth fw w, init := init, xorout := xo, revIn := ri, revOut := ro }
    if !cfgModelled c acts then some "ERR unmodelled" else
    let k : RegKind := { c := c, table := table, tbl := if table then tableFor w poly else [] }
    some (cfgOut (cfgRun k (regNew k) acts))
  | _, _ => none

end Dmr.Driver
