import DmrVerif.Model.Bptc

/-! line-protocol operations for BPTC(196,96) (C02) -/

namespace Dmr.Driver
open Dmr Dmr.Bptc

def bptcOut : Except Bptc.Err Bits → String
  | .ok b => bitsToString b
  | .error .assertion => "ERR AssertionError"

/-- "-" encodes the empty bit string -/
def bptcBits (s : String) : Option Bits := if s == "-" then some [] else bitsOfString s

def bptcOp (op : String) (args : List String) : Option String :=
  match op, args with
  | "bptc.encode", [m] => do
    let m ← bptcBits m
    some (bptcOut (Bptc.encode m))
  | "bptc.data", [r, w] => do
    let w ← bptcBits w
    if r == "1" then some (bptcOut (Bptc.deinterleaveDataBits w true))
    else if r == "0" then some (bptcOut (Bptc.deinterleaveDataBits w false))
    else none
  | "bptc.repair", [w] => do
    let w ← bptcBits w
    some (bptcOut (Bptc.repairIfNecessary w))
  | "bptc.deinterleave_all", [w] => do
    let w ← bptcBits w
    some (bptcOut (Bptc.deinterleaveAllBits w))
  | _, _ => none

end Dmr.Driver
