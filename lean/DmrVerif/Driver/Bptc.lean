import DmrVerif.Model.Bptc
import DmrVerif.Model.BptcHist

/-! line-protocol operations for BPTC(196,96) (C02): the stateless entry points (`bptc.*`) and histories of
calls over the objects handed out so far (`bh.*`, a `Bptc.Store` is threaded through the lines) -/

namespace Dmr.Driver
open Dmr Dmr.Bptc

def bptcOut : Except Bptc.Err Bits → String
  | .ok b => bitsToString b
  | .error .assertion => "ERR AssertionError"

/-- rows of a table, separated by `/` -/
def bptcRowsOut : Except Bptc.Err (List Bits) → String
  | .ok rows => "/".intercalate (rows.map bitsToString)
  | .error .assertion => "ERR AssertionError"

/-- "-" encodes the empty bit string -/
def bptcBits (s : String) : Option Bits := if s == "-" then some [] else bitsOfString s

def bptcOp (op : String) (args : List String) : Option String :=
  match op, args with
  | "bptc.encode", [m] => do
    let m ← bptcBits m
    some (bptcOut (Bptc.encode m))
  | "bptc.data", [r, w] => do
    let w ← bptcBits w
    if r == "1" then some (bptcOut (Bptc.deinterleaveDataBits w true))
    else if r == "0" then some (bptcOut (Bptc.deinterleaveDataBits w false))
    else none
  | "bptc.repair", [w] => do
    let w ← bptcBits w
    some (bptcOut (Bptc.repairIfNecessary w))
  | "bptc.deinterleave_all", [w] => do
    let w ← bptcBits w
    some (bptcOut (Bptc.deinterleaveAllBits w))
  | "bptc.rows", [m] => do
    let m ← bptcBits m
    some (bptcRowsOut (Bptc.payloadRows m))
  | "bptc.table", [w] => do
    let w ← bptcBits w
    some (bptcRowsOut (Bptc.receivedTable w))
  | _, _ => none

/-! ### histories (`bh.*`) -/

/-- `B:0101…` / `L:0101…` / `F:0101…` / `R:0101…` (a new bitarray in a big / little-endian container, a
frozenbitarray, a read-only bitarray over an imported buffer: the entry points index the bits and only read
them, container and provenance are not observable) or `@k` (the kept object itself) -/
def bhArg (s : String) : Option Bptc.Arg :=
  match s.toList with
  | '@' :: ds => (String.ofList ds).toNat?.map Bptc.Arg.ref
  | e :: ':' :: bs =>
    if e == 'B' || e == 'L' || e == 'F' || e == 'R' then (bptcBits (String.ofList bs)).map Bptc.Arg.lit else none
  | _ => none

def bhRef (s : String) : Option Nat :=
  match s.toList with
  | '@' :: ds => (String.ofList ds).toNat?
  | _ => none

def bhStepOf (op : String) (args : List String) : Option Bptc.Step :=
  match op, args with
  | "bh.encode", [a] => (bhArg a).map .encode
  | "bh.data", [r, a] =>
    if r == "1" then (bhArg a).map (.data true) else if r == "0" then (bhArg a).map (.data false) else none
  | "bh.repair", [a] => (bhArg a).map .repair
  | "bh.deint", [a] => (bhArg a).map .deint
  | "bh.make", [] => some .make
  | "bh.fill", [t, a] => do
    let t ← bhRef t
    let a ← bhArg a
    some (.fill t a)
  | "bh.flip", [k, i] => do
    let k ← bhRef k
    let i ← i.toNat?
    some (.flip k i)
  | "bh.setall", [k, v] => do
    let k ← bhRef k
    if v == "1" then some (.setAll k true) else if v == "0" then some (.setAll k false) else none
  | "bh.read", [k] => (bhRef k).map .read
  | "bh.put", [k, a] => do
    let k ← bhRef k
    let a ← bhArg a
    some (.put k a)
  | "bh.new", [a] => match bhArg a with
    | some (.lit b) => some (.new b)
    | _ => none
  | "bh.nop", [] => some (.nop false)
  | "bh.nop+", [] => some (.nop true)
  | _, _ => none

def bhOut : Bptc.Out → String
  | .val b => bitsToString b
  | .err => "ERR AssertionError"
  | .done => "ok"
  | .void => "void"

/-- one line of the stateful driver -/
def bptcStep (s : Bptc.Store) (op : String) (args : List String) : Bptc.Store × String :=
  if op == "bh.reset" then (Bptc.Store.empty, "ok") else
  match bhStepOf op args with
  | some st => let r := Bptc.step s st; (r.1, bhOut r.2)
  | none =>
    match bptcOp op args with
    | some out => (s, out)
    | none => (s, "ERR bad-op " ++ op)

end Dmr.Driver
