import DmrVerif.Props.C11
import DmrVerif.Lemmas.TranslRs

/-!
# C11t — the SOURCE of `reed_solomon_12_9_4.py`, translated, equals the model the C11 theorems are about

`Gen/TranslRs.lean` is regenerated on every run by `tools/py2lean.py` from `inspect.getsource` of the live
`ReedSolomon1294.log_multiply / xor_bytes / generate / check` (semantics of the Python subset: `Model/Py.lean`).
The theorems below hold for ALL arguments: the translated definitions equal the hand-written model functions
(`Model/Rs.lean`), exceptions included, so the headline theorems of `Props/C11.lean` are restated directly about the
translated source (`transl_*`).  For these four functions the chain source → Lean definition → model → property has no
sampled link; the differential run (`t.rs.*`) validates the translator and the prelude only.
Hypotheses: `isBytes` (a Python `bytes` cannot hold anything else) and natural operands of `log_multiply`
(the model's domain; the translated definition itself also covers negative ints, like Python).
-/

namespace Dmr.C11t
open Dmr Dmr.Py Dmr.Rs Dmr.Gen Dmr.Transl.Rs

/-- the three tables written in the source are the tables the table extractor read from the live class
(`Gen/Rs.lean`), which all C11 theorems are about -/
theorem tables_eq : EXPONENTIAL_TABLE = rsExp ∧ LOG_TABLE = rsLog ∧ POLYNOMIAL = rsPoly :=
  ⟨exp_table_eq, log_table_eq, polynomial_eq⟩

/-- `log_multiply`, all natural operands, `IndexError` included -/
theorem log_multiply_eq (a b : Nat) :
    Transl.Rs.log_multiply (a : Int) (b : Int) = ofOpt .index (fun v : Nat => (v : Int)) (logMultiplyE a b) :=
  Transl.Rs.log_multiply_eq a b

/-- on octets `log_multiply` never raises and is multiplication in GF(2)[x]/(x^8+x^4+x^3+x^2+1) (`C11.mul_spec`) -/
theorem transl_mul_spec (a b : Nat) (ha : a < 256) (hb : b < 256) :
    Transl.Rs.log_multiply (a : Int) (b : Int) = .ok ((clmulMod 0x11D a b : Nat) : Int) := by
  rw [log_multiply_octets a b ha hb, C11.mul_spec a b ha hb]

/-- `xor_bytes` -/
theorem xor_bytes_eq (d m : Bytes) (hd : isBytes d = true) (hm : isBytes m = true) :
    Transl.Rs.xor_bytes d m = .ok (xorBytes d m) :=
  Transl.Rs.xor_bytes_eq d m hd hm

/-- `generate`, every length of message and mask (`AssertionError` unless the message has 9 octets) -/
theorem generate_eq (d m : Bytes) (hd : isBytes d = true) (hm : isBytes m = true) :
    Transl.Rs.generate d m = ofOpt .assertion id (Rs.generate d m) :=
  Transl.Rs.generate_eq d m hd hm

/-- `check`, every length (`AssertionError` unless the word has 12 octets) -/
theorem check_eq (w m : Bytes) (hw : isBytes w = true) (hm : isBytes m = true) :
    Transl.Rs.check w m = ofOpt .assertion id (Rs.check w m) :=
  Transl.Rs.check_eq w m hw hm

/-! ## the headline theorems of C11, about the translated source -/

/-- the translated `generate` returns a word (no exception) whose unmasked form has zero syndromes at α¹, α², α³ -/
theorem transl_gen_syndromes (d mask : Bytes) (hd : d.length = 9) (hm : mask.length = 3)
    (bd : isBytes d = true) (bm : isBytes mask = true) :
    ∃ w, Transl.Rs.generate d mask = .ok w ∧ w.take 9 = d ∧ w.length = 12 ∧
      ∀ j, 1 ≤ j → j ≤ 3 → syndrome j (unmask mask w) = 0 := by
  obtain ⟨p, hp, _, hg⟩ := C11.gen_prefix d mask hd hm bd bm
  refine ⟨d ++ p, ?_, List.take_left' hd, by simp [hd, hp], fun j h1 h3 =>
    C11.gen_syndromes d mask _ hd hm bd hg j h1 h3⟩
  rw [generate_eq d mask bd bm, hg]; rfl

/-- what the translated `generate` returns passes the translated `check` under the same mask -/
theorem transl_check_gen (d mask w : Bytes) (hd : d.length = 9) (hm : mask.length = 3)
    (bd : isBytes d = true) (bm : isBytes mask = true) (hw : Transl.Rs.generate d mask = .ok w) :
    Transl.Rs.check w mask = .ok true := by
  obtain ⟨p, _, bp, hg⟩ := C11.gen_prefix d mask hd hm bd bm
  rw [generate_eq d mask bd bm, hg] at hw
  cases hw
  show Transl.Rs.check (d ++ p) mask = .ok true
  have bw : isBytes (d ++ p) = true := by
    unfold isBytes at *; simp only [List.all_append, Bool.and_eq_true]; exact ⟨bd, bp⟩
  rw [check_eq _ mask bw bm, C11.check_gen d mask _ hd hm hg]; rfl

/-- the translated `check` never raises on 12 octets and accepts exactly the words with zero syndromes -/
theorem transl_check_iff (w mask : Bytes) (hw : w.length = 12) (hm : mask.length = 3)
    (bw : isBytes w = true) (bm : isBytes mask = true) :
    (Transl.Rs.check w mask = .ok true ∨ Transl.Rs.check w mask = .ok false) ∧
    (Transl.Rs.check w mask = .ok true ↔ ∀ j, 1 ≤ j → j ≤ 3 → syndrome j (unmask mask w) = 0) := by
  obtain ⟨h1, h2⟩ := C11.check_iff w mask hw hm bw bm
  rw [check_eq w mask bw bm]
  rcases h1 with h | h
  · rw [h] at h2 ⊢
    exact ⟨Or.inl rfl, ⟨fun _ => h2.mp rfl, fun _ => rfl⟩⟩
  · rw [h] at h2 ⊢
    refine ⟨Or.inr rfl, ⟨fun c => ?_, fun c => ?_⟩⟩
    · cases c
    · cases h2.mpr c

/-- distance 4 on the translated source: a 12-octet word that differs from what the translated `generate` returned in
one, two or three octets is rejected by the translated `check` -/
theorem transl_detect_le3 (d mask c w : Bytes) (hd : d.length = 9) (hm : mask.length = 3)
    (bd : isBytes d = true) (bm : isBytes mask = true) (hc : Transl.Rs.generate d mask = .ok c)
    (hw : w.length = 12) (bw : isBytes w = true)
    (h1 : 1 ≤ symDist w c) (h3 : symDist w c ≤ 3) : Transl.Rs.check w mask = .ok false := by
  obtain ⟨p, _, _, hg⟩ := C11.gen_prefix d mask hd hm bd bm
  rw [generate_eq d mask bd bm, hg] at hc
  cases hc
  change symDist w (d ++ p) ≤ 3 at h3
  change 1 ≤ symDist w (d ++ p) at h1
  rw [check_eq w mask bw bm, C11.detect_le3 d mask _ w hd hm bd bm hg hw bw h1 h3]; rfl

/-! ## non-vacuity: the translated definitions evaluated by the kernel on literals; the expected values were computed
with the real code (`/venv/bin/python`, `ReedSolomon1294`) -/

example : Transl.Rs.generate [0xc3, 0x25, 0x9a, 0x10, 0x12, 0x34, 0x56, 0x78, 0x10] [0x99, 0x99, 0x99]
    = .ok [195, 37, 154, 16, 18, 52, 86, 120, 16, 49, 105, 123] := by decide +kernel

example : Transl.Rs.check [195, 37, 154, 16, 18, 52, 86, 120, 16, 49, 105, 123] [0x99, 0x99, 0x99] = .ok true ∧
    Transl.Rs.check [195, 37, 154, 16, 18, 0, 86, 120, 16, 49, 105, 123] [0x99, 0x99, 0x99] = .ok false ∧
    Transl.Rs.check [1, 2, 3] [0, 0, 0] = .error .assertion ∧
    Transl.Rs.log_multiply 0x53 0xCA = .ok 143 ∧
    Transl.Rs.log_multiply 256 1 = .error .index ∧
    Transl.Rs.xor_bytes [1, 2, 255] [15, 240] = .ok [14, 242] := by decide +kernel

end Dmr.C11t
