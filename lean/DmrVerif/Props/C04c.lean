import DmrVerif.Props.C04b
import DmrVerif.Lemmas.CrcCross

/-!
# C04 — parts that repeat a check sum of each other (round 4, core Lean)

A received word in which one part is the check sum of the part before it and the same bits stand in the
check field again: a data / PI header whose octets 8–9 equal the check field, both being the (inverted,
masked) CRC-CCITT of octets 0–7.  Such a word is valid for exactly one value of that CRC (`0x65C5` for a
data header, `0xC7A4` for a PI header) — for every other value the parser answers `crc_ok = false`, so a
header whose octets 8–9 were overwritten with the check field by a burst is never accepted.  For the
confirmed last blocks the CRC-9 covers the CRC-32 field whether or not it repeats the last data octets
(that is `rateValid` / `rate_detect_partial` of `Props/C04`, which make no condition on the data); a
kernel-checked instance is kept here.
-/

namespace Dmr.C04
open Dmr Dmr.Crc Dmr.Integrity Dmr.Gen Dmr.Gen.Integrity

/-- the one 16-bit check value `t` for which octets 0–7 ‖ `t` ‖ `t` is a valid word under `mask` -/
def selfK16 (mask : Nat) : Bits := xorBits (feed p16 (affK 16 mask)) (affK 16 mask)

/-- **octets 8–9 = check field = CRC of octets 0–7**: valid iff that CRC is `selfK16 mask` -/
theorem ccitt_selfref_iff (mask : Nat) (h t : Bits) (hh : h.length = 64) (ht : t.length = 16)
    (hv : xorBits (feed p16 h) (affK 16 mask) = t) :
    ccittValid mask (h ++ t ++ t) ↔ t = selfK16 mask := by
  have h80 : sl (h ++ t ++ t) 0 80 = h ++ t := by
    rw [sl_append_left _ _ _ _ (by simp [hh, ht])]
    have := sl_self (h ++ t)
    rwa [show (h ++ t).length = 80 by simp [hh, ht]] at this
  have h96 : sl (h ++ t ++ t) 80 96 = t := by
    rw [sl_full _ _ _ (by simp [hh, ht])]
    rw [List.drop_append_of_le_length (by simp [hh, ht])]
    simp [hh, ht]
  unfold ccittValid selfK16
  rw [h80, h96]
  conv => lhs; lhs; rw [← hv, feed_selfref _ _ _ (by rw [affK_length, p16_length])]
  exact eq_comm

/-- data header (received check field ≠ 0, the recorded sentinel): `crc_ok` says exactly that -/
theorem dh_selfref (h t : Bits) (hh : h.length = 64) (ht : t.length = 16)
    (hv : xorBits (feed p16 h) (affK 16 maskDataHeader) = t) (hz : bitsToNat t ≠ 0) :
    dhDec (h ++ t ++ t) false = .ok (decide (t = selfK16 maskDataHeader)) := by
  have hl : (h ++ t ++ t).length = 96 := by simp [hh, ht]
  have h96 : sl (h ++ t ++ t) 80 96 = t := by
    rw [sl_full _ _ _ (by simp [hh, ht])]
    rw [List.drop_append_of_le_length (by simp [hh, ht])]
    simp [hh, ht]
  rw [dhDec_ok _ hl (by rw [h96]; exact hz),
    decide_eq_decide.mpr (ccitt_selfref_iff maskDataHeader h t hh ht hv)]

/-- PI header, unconditional -/
theorem pi_selfref (h t : Bits) (hh : h.length = 64) (ht : t.length = 16)
    (hv : xorBits (feed p16 h) (affK 16 maskPiHeader) = t) :
    ∃ q, piDec (h ++ t ++ t) = .ok q ∧ (q.ok = true ↔ t = selfK16 maskPiHeader) := by
  obtain ⟨q, hq, hiff⟩ := pi_accept_iff (h ++ t ++ t) (by simp [hh, ht])
  exact ⟨q, hq, hiff.trans (ccitt_selfref_iff maskPiHeader h t hh ht hv)⟩

/-- the two constants -/
theorem selfK16_values : selfK16 maskDataHeader = natToBits 16 0x65C5 ∧ selfK16 maskPiHeader = natToBits 16 0xC7A4 := by
  decide +kernel

/-! ## kernel-checked instance: a confirmed last block whose last four data octets = CRC-32 field = the
CRC-32 (little-endian trailer) of the data octets before -/

/-- rate 1/2 confirmed last block: serial number 5, data `41 00 C0 6D 47 30`, CRC-32 field `C0 6D 47 30`
(= `CRC32.calculate(41 00)` as a little-endian trailer), CRC-9 = 121 (sent least significant bit first) -/
def r12LastSelf : Bits := [false, false, false, false, true, false, true, true, false, false, true, true, true, true, false, false, false, true, false, false, false, false, false, true, false, false, false, false, false, false, false, false, true, true, false, false, false, false, false, false, false, true, true, false, true, true, false, true, false, true, false, false, false, true, true, true, false, false, true, true, false, false, false, false, true, true, false, false, false, false, false, false, false, true, true, false, true, true, false, true, false, true, false, false, false, true, true, true, false, false, true, true, false, false, false, false]
/-- a burst of 8 bits (70–77) inside the CRC-32 field -/
def r12LastBurst : Bits := zeros 70 ++ [true, true, false, true, false, false, true, true] ++ zeros 18
/-- the CRC-9 field of the same block computed over data ‖ serial number only (313, least significant bit first) -/
def r12ShortCrc9 : Bits := [true, false, false, true, true, true, false, false, true]

def okIs (b : Bool) : Except IErr RateObj → Bool
  | .ok q => q.ok == b
  | .error _ => false

/-- the block is valid and accepted; with the burst inside its CRC-32 field, and with the CRC-9 that leaves
the CRC-32 field out, it is not -/
def crossCheck : Bool :=
  decide (rateValid rate12 r12LastSelf)
  && (sl r12LastSelf 32 64 == sl r12LastSelf 64 96)
  && (match Crc.crc32 (bitsToBytes (sl r12LastSelf 16 32)) with
      | .ok v => natToBits 32 v == (bytesToBits (bitsToBytes (sl r12LastSelf 64 96)).reverse) | .error _ => false)
  && okIs true (rateDec rate12 true r12LastSelf)
  && okIs false (rateDec rate12 true (xorBits r12LastSelf r12LastBurst))
  && okIs false (rateDec rate12 true (sl r12LastSelf 0 7 ++ r12ShortCrc9 ++ sl r12LastSelf 16 96))

theorem cross_enum : crossCheck = true := by decide +kernel

/-- the burst is in the guaranteed class -/
example : InClass9 96 r12LastBurst := by
  refine ⟨54, 34, [true, true, false, true, false, false, true, true], by decide +kernel, by simp, by decide⟩

end Dmr.C04
