import DmrVerif.Lemmas.RsKernel
import DmrVerif.Lemmas.RsSub
import DmrVerif.Lemmas.RsStation

/-!
# C11 — Reed–Solomon (12,9) over GF(2^8): parity, exact checker, distance 4

Property theorems only; the proofs are in `Lemmas/Rs*.lean`.  The model (`Model/Rs.lean`) mirrors
`okdmr/dmrlib/etsi/fec/reed_solomon_12_9_4.py` line by line; the three tables and the two data-type
masks are the ones `tools/extract_rs.py` read from `/repo` on this run (`Gen/Rs.lean`).  Octet
strings are `List Nat` with the explicit decidable hypothesis `isBytes` (every element `< 256`, which
a Python `bytes` guarantees).  Every statement quantifies over **all** 9-octet messages, **all**
3-octet masks and **all** 12-octet received words — nothing is bounded or sampled.

Finite facts are kernel enumerations (`decide +kernel`, no axioms): the 65,536 products (four modules
`Lemmas/RsMul{A,B,C,D}.lean`, and once more in `Props/C11{a,b,c,d}.lean` so that the thorough tier
re-executes them from clean), 2·255 table facts (log∘exp, exp∘log, period 255), the factorisation
of the generator polynomial.  Everything else is structural: the octets form a field (`Rs.GF`), the
loop of `generate` keeps  D(r)·r³ + p₂r² + p₁r + p₀ = 0  at the three roots of g, and a word with
zero syndromes at α, α², α³ and at most three non-zero octets is zero (Vandermonde elimination).
-/

namespace Dmr.C11
open Dmr Dmr.Rs Dmr.Gen

/-! ## field multiplication -/

/-- For operands that are octets no table access of `log_multiply` is out of range (Python raises
no `IndexError`; the model's `getD` default is never used). -/
theorem mul_total (a b : Nat) (ha : a < 256) (hb : b < 256) :
    logMultiplyE a b = some (logMultiply a b) :=
  logMultiplyE_eq a b ha hb

/-- `log_multiply` is multiplication in GF(2)[x]/(x^8+x^4+x^3+x^2+1): it equals the carry-less product
followed by long division by 0x11D, for all 65,536 operand pairs. -/
theorem mul_spec (a b : Nat) (ha : a < 256) (hb : b < 256) :
    logMultiply a b = clmulMod 0x11D a b :=
  logMultiply_eq_clmulMod a b ha hb

/-- With xor as addition the octets form a field under `log_multiply`: closed, commutative,
associative, unit 1, distributive, no zero divisors, every non-zero octet invertible. -/
theorem mul_field_laws (a b c : Nat) (ha : a < 256) (hb : b < 256) (hc : c < 256) :
    logMultiply a b < 256 ∧
    logMultiply a b = logMultiply b a ∧
    logMultiply (logMultiply a b) c = logMultiply a (logMultiply b c) ∧
    logMultiply a 1 = a ∧
    logMultiply a (b ^^^ c) = logMultiply a b ^^^ logMultiply a c ∧
    (logMultiply a b = 0 → a = 0 ∨ b = 0) ∧
    (a ≠ 0 → ∃ i, i < 256 ∧ logMultiply a i = 1) :=
  ⟨logMultiply_lt a b, logMultiply_comm a b, logMultiply_assoc a b c ha hb hc, logMultiply_one a ha,
   logMultiply_xor a b c ha hb hc, logMultiply_eq_zero a b ha hb,
   fun h => ⟨Rs.inv a, inv_lt a, logMultiply_inv a h ha⟩⟩

/-- α^j (`alphaPow j`, the j-th table entry) really is the j-fold product of α = 0x02, j ≤ 255, and
α^0 … α^254 are pairwise distinct (α is primitive). -/
theorem alpha_powers (j : Nat) (hj : j < 255) :
    alphaPow 0 = 1 ∧ alphaPow (j + 1) = logMultiply (alphaPow j) 2 ∧
    ∀ i, i < 255 → alphaPow i = alphaPow j → i = j := by
  refine ⟨exp_zero, ?_, ?_⟩
  · have h := (exp_facts j hj).2
    unfold alphaPow
    rw [logMultiply_ne _ 2 (by omega) (by omega), h.2, log_two]
  · intro i hi h
    unfold alphaPow at h
    rw [← (exp_facts i hi).2.2, ← (exp_facts j hj).2.2, h]

/-! ## the generator polynomial -/

/-- `POLYNOMIAL` is g(x) = x³ + 14x² + 56x + 64, low coefficient first, and
g(x) = (x − α)(x − α²)(x − α³) coefficient by coefficient (elementary symmetric functions of the
three roots; minus is plus in characteristic 2). -/
theorem genpoly_factors :
    rsPoly = [64, 56, 14, 1, 0, 0, 0, 0, 0, 0, 0, 0] ∧
    polyAt 2 = alphaPow 1 ^^^ alphaPow 2 ^^^ alphaPow 3 ∧
    polyAt 1 = logMultiply (alphaPow 1) (alphaPow 2) ^^^ logMultiply (alphaPow 1) (alphaPow 3)
                ^^^ logMultiply (alphaPow 2) (alphaPow 3) ∧
    polyAt 0 = logMultiply (logMultiply (alphaPow 1) (alphaPow 2)) (alphaPow 3) := by
  decide +kernel

/-- The syndromes of the statements below are values of the word's polynomial in GF(2^8) proper: the
same number comes out when every multiplication is the reference one (carry-less product, long
division by 0x11D), and the evaluation point `alphaPow j` is α^j by `alpha_powers`. -/
theorem syndrome_spec (j : Nat) (w : Bytes) (bw : isBytes w = true) :
    syndrome j w = w.foldl (fun acc x => clmulMod 0x11D acc (alphaPow j) ^^^ x) 0 :=
  evalAt_spec _ (exp_lt j) w bw

/-- In the polynomial ring over the field of octets: `POLYNOMIAL` is
g = X³ + 14X² + 56X + 64 = (X − α)(X − α²)(X − α³), and an octet string has zero syndromes at
α¹, α², α³ exactly if its polynomial (octets as coefficients, highest degree first) is a multiple of g. -/
theorem multiple_iff_syndromes (w : Bytes) (bw : isBytes w = true) :
    genPoly = Polynomial.X ^ 3 + Polynomial.C (GF.ofNat (polyAt 2)) * Polynomial.X ^ 2
                + Polynomial.C (GF.ofNat (polyAt 1)) * Polynomial.X + Polynomial.C (GF.ofNat (polyAt 0)) ∧
    genPoly = (Polynomial.X - Polynomial.C α) * (Polynomial.X - Polynomial.C (α ^ 2))
                * (Polynomial.X - Polynomial.C (α ^ 3)) ∧
    (genPoly ∣ wordPoly w ↔ ∀ j, 1 ≤ j → j ≤ 3 → syndrome j w = 0) :=
  ⟨rfl, genPoly_eq, by rw [← syndromesZero_iff_dvd w bw, syndromesZero_iff]⟩

/-! ## the encoder -/

/-- `generate` returns the message followed by three parity octets. -/
theorem gen_prefix (d mask : Bytes) (hd : d.length = 9) (hm : mask.length = 3)
    (bd : isBytes d = true) (bm : isBytes mask = true) :
    ∃ p, p.length = 3 ∧ isBytes p = true ∧ generate d mask = some (d ++ p) :=
  ⟨xorBytes (parityBytes d) mask, xorBytes_length3 _ _ (parityBytes_length d) hm,
   isBytes_xorBytes _ _ (parityBytes_isBytes d bd) bm, generate_eq d mask hd⟩

/-- With the mask removed, the generated word has zero syndromes at α¹, α², α³ (it is a multiple of
g, see `genpoly_factors`).  The mask need not even consist of octets for this. -/
theorem gen_syndromes (d mask w : Bytes) (hd : d.length = 9) (hm : mask.length = 3)
    (bd : isBytes d = true) (hw : generate d mask = some w) (j : Nat) (h1 : 1 ≤ j) (h3 : j ≤ 3) :
    syndrome j (unmask mask w) = 0 := by
  rw [generate_eq d mask hd] at hw
  cases hw
  exact (syndromesZero_iff _).mp (encode_syndromes d mask hd hm bd) j h1 h3

/-- … i.e. with the mask removed the generated word is a multiple of the generator polynomial -/
theorem gen_multiple (d mask w : Bytes) (hd : d.length = 9) (hm : mask.length = 3)
    (bd : isBytes d = true) (hw : generate d mask = some w) : genPoly ∣ wordPoly (unmask mask w) := by
  rw [generate_eq d mask hd] at hw
  cases hw
  have hb : isBytes (unmask mask (encode d mask)) = true := by
    rw [unmask_encode d mask hd hm, isBytes_append, bd, parityBytes_isBytes d bd]; rfl
  exact (syndromesZero_iff_dvd _ hb).mp (encode_syndromes d mask hd hm bd)

/-- every generated word passes the checker under the same mask -/
theorem check_gen (d mask w : Bytes) (hd : d.length = 9) (hm : mask.length = 3)
    (hw : generate d mask = some w) : check w mask = some true := by
  rw [generate_eq d mask hd] at hw
  cases hw
  have hl := encode_length d mask hd hm
  rw [check_eq _ _ hl]
  have : (encode d mask).take 9 = d := by unfold encode; exact List.take_left' hd
  simp [this]

/-! ## the checker -/

/-- On 12-octet words `check` never raises, and it accepts exactly the words which, with the same
mask removed, have zero syndromes at α¹, α², α³. -/
theorem check_iff (w mask : Bytes) (hw : w.length = 12) (hm : mask.length = 3)
    (bw : isBytes w = true) (bm : isBytes mask = true) :
    (check w mask = some true ∨ check w mask = some false) ∧
    (check w mask = some true ↔ ∀ j, 1 ≤ j → j ≤ 3 → syndrome j (unmask mask w) = 0) := by
  refine ⟨?_, ?_⟩
  · rw [check_eq w mask hw]
    by_cases h : encode (w.take 9) mask = w <;> simp [h]
  · rw [check_iff_syndromes w mask hw hm bw bm, syndromesZero_iff]

/-- the checker accepts exactly the multiples of g (mask removed) -/
theorem check_iff_multiple (w mask : Bytes) (hw : w.length = 12) (hm : mask.length = 3)
    (bw : isBytes w = true) (bm : isBytes mask = true) :
    check w mask = some true ↔ genPoly ∣ wordPoly (unmask mask w) := by
  rw [check_iff_syndromes w mask hw hm bw bm, syndromesZero_iff_dvd _ (unmask_isBytes mask w bw bm)]

/-- equivalently: exactly the generator's outputs -/
theorem check_iff_generated (w mask : Bytes) (hw : w.length = 12) :
    check w mask = some true ↔ ∃ d, d.length = 9 ∧ generate d mask = some w := by
  rw [check_eq w mask hw]
  simp only [Option.some.injEq, decide_eq_true_eq]
  constructor
  · intro h
    exact ⟨w.take 9, by simp [hw], by rw [generate_eq _ _ (by simp [hw]), h]⟩
  · rintro ⟨d, hd, hg⟩
    rw [generate_eq d mask hd] at hg
    cases hg
    have : (encode d mask).take 9 = d := by unfold encode; exact List.take_left' hd
    rw [this]

/-! ## the parity map by divisibility; its kernel (messages q(x)·g(x), parity 00 00 00)

Random messages hit the kernel with probability 2⁻²⁴, so the differential run constructs these
messages algebraically; the statements below fix what must come out for *all* of them. -/

/-- The parity octets `generate` appends are the unique three octets `t` that make `d ++ t` a multiple
of g: under the zero mask `generate d = d ++ t` exactly if g divides the polynomial of `d ++ t`. -/
theorem parity_iff_multiple (d t : Bytes) (hd : d.length = 9) (ht : t.length = 3)
    (bd : isBytes d = true) (bt : isBytes t = true) :
    generate d [0, 0, 0] = some (d ++ t) ↔ genPoly ∣ wordPoly (d ++ t) := by
  rw [← parityBytes_eq_iff d t hd ht bd bt, generate_eq d _ hd]
  unfold encode
  rw [xorBytes_zero_right3 _ (parityBytes_length d)]
  simp only [Option.some.injEq]
  exact ⟨fun h => List.append_cancel_left h, fun h => by rw [h]⟩

/-- Kernel of the parity map: under any mask the generated word is the message followed by the bare
mask exactly if the message polynomial itself is a multiple of g (the message octets are the
coefficients of some q(x)·g(x)) — 256⁶ messages, not only the all-zero one. -/
theorem gen_bare_mask_iff (d mask : Bytes) (hd : d.length = 9) (hm : mask.length = 3)
    (bd : isBytes d = true) :
    generate d mask = some (d ++ mask) ↔ genPoly ∣ wordPoly d := by
  rw [generate_eq d mask hd, ← zero_parity_iff d hd bd, ← encode_bare_mask_iff d mask hm]
  simp only [Option.some.injEq]

/-- … and the checker accepts a word whose FEC field is the bare mask exactly for these messages
(in particular it accepts every such word `generate` produced). -/
theorem check_bare_mask_iff (d mask : Bytes) (hd : d.length = 9) (hm : mask.length = 3)
    (bd : isBytes d = true) :
    check (d ++ mask) mask = some true ↔ genPoly ∣ wordPoly d := by
  rw [check_eq _ _ (by simp [hd, hm]), List.take_left' hd, ← zero_parity_iff d hd bd,
    ← encode_bare_mask_iff d mask hm]
  simp only [Option.some.injEq, decide_eq_true_eq]

/-- product form: if the message is q·g for any octet string q, the word is message ++ mask and passes -/
theorem gen_of_product (q d mask : Bytes) (hd : d.length = 9) (hm : mask.length = 3)
    (bd : isBytes d = true) (h : wordPoly d = wordPoly q * genPoly) :
    generate d mask = some (d ++ mask) ∧ check (d ++ mask) mask = some true :=
  have hdvd : genPoly ∣ wordPoly d := ⟨wordPoly q, by rw [h, mul_comm]⟩
  ⟨(gen_bare_mask_iff d mask hd hm bd).mpr hdvd, (check_bare_mask_iff d mask hd hm bd).mpr hdvd⟩

/-! ## distance 4: every corruption of one to three octets is detected -/

/-- A 12-octet word that differs from a generated word in one, two or three octet positions is
rejected by the checker under the same mask. -/
theorem detect_le3 (d mask c w : Bytes) (hd : d.length = 9) (hm : mask.length = 3)
    (bd : isBytes d = true) (bm : isBytes mask = true) (hc : generate d mask = some c)
    (hw : w.length = 12) (bw : isBytes w = true)
    (h1 : 1 ≤ symDist w c) (h3 : symDist w c ≤ 3) : check w mask = some false := by
  rw [generate_eq d mask hd] at hc
  cases hc
  refine detect_of_close d mask w hd hm hw bd bm bw ?_ h3
  intro h
  rw [h, symDist_self] at h1
  omega

/-- The same with the corruption given as an error pattern: xor-ing a generated word with any
pattern of 12 octets of which one to three are non-zero is detected. -/
theorem detect_le3_xor (d mask c e : Bytes) (hd : d.length = 9) (hm : mask.length = 3)
    (bd : isBytes d = true) (bm : isBytes mask = true) (hc : generate d mask = some c)
    (he : e.length = 12) (be : isBytes e = true)
    (h1 : 1 ≤ symWeight e) (h3 : symWeight e ≤ 3) : check (xorBytes c e) mask = some false := by
  have hc' := hc
  rw [generate_eq d mask hd] at hc'
  cases hc'
  have hl := encode_length d mask hd hm
  have hd' := symDist_xor_error (encode d mask) e (by rw [hl, he])
  exact detect_le3 d mask _ _ hd hm bd bm hc (by simp [xorBytes, hl, he])
    (isBytes_xorBytes _ _ (encode_isBytes d mask bd bm) be) (by rw [hd']; exact h1) (by rw [hd']; exact h3)

/-- Minimum distance 4: two different messages give, under the same mask, words that differ in at
least four octet positions. -/
theorem min_distance (d₁ d₂ mask : Bytes) (h₁ : d₁.length = 9) (h₂ : d₂.length = 9)
    (hm : mask.length = 3) (b₁ : isBytes d₁ = true) (b₂ : isBytes d₂ = true) (bm : isBytes mask = true)
    (hne : d₁ ≠ d₂) : 4 ≤ symDist (encode d₁ mask) (encode d₂ mask) := by
  by_contra hlt
  have h3 : symDist (encode d₁ mask) (encode d₂ mask) ≤ 3 := by omega
  have hne' : encode d₁ mask ≠ encode d₂ mask := by
    intro h
    apply hne
    have := congrArg (List.take 9) h
    unfold encode at this
    rwa [List.take_left' h₁, List.take_left' h₂] at this
  have hrej := detect_of_close d₂ mask (encode d₁ mask) h₂ hm (encode_length _ _ h₁ hm) b₂ bm
    (encode_isBytes _ _ b₁ bm) hne' h3
  have hacc := check_gen d₁ mask _ h₁ hm (generate_eq d₁ mask h₁)
  rw [hacc] at hrej
  cases hrej

/-! ## all three roots are needed: the super-code of a checker that tests only two of them

`checkRoots js` is the checker that evaluates the unmasked word at the roots α^j, j ∈ js, only.  With a
root dropped it still accepts every generated word and still rejects every corruption of one or two
octets; the words it wrongly accepts are, on each of the 220 position triples, the 255 multiples of one
pattern (`subWitness`) — 1.5·10⁻⁵ of the corruptions of three octets, never met by sampling.  The
differential run therefore constructs them (`two_root_families` in `harness/props/c11.py`, all 3·220·255);
the statements below say, for all messages and masks, what must come out. -/

/-- `check` is the checker that tests all three roots -/
theorem check_eq_checkRoots (w mask : Bytes) (hw : w.length = 12) (hm : mask.length = 3)
    (bw : isBytes w = true) (bm : isBytes mask = true) : check w mask = checkRoots [1, 2, 3] w mask :=
  (checkRoots_123 w mask hw hm bw bm).symm

/-- Dropping α³ cannot be seen on corruptions of one or two octets: the checker with the roots α, α² only
still rejects every word that differs from a generated word in one or two octet positions. -/
theorem two_roots_detect_le2 (d mask c w : Bytes) (hd : d.length = 9) (hm : mask.length = 3)
    (bd : isBytes d = true) (bm : isBytes mask = true) (hc : generate d mask = some c)
    (hw : w.length = 12) (bw : isBytes w = true)
    (h1 : 1 ≤ symDist w c) (h2 : symDist w c ≤ 2) : checkRoots [1, 2] w mask = some false := by
  rw [generate_eq d mask hd] at hc
  cases hc
  refine detect2_of_close d mask w hd hm hw bd bm bw ?_ h2
  intro h
  rw [h, symDist_self] at h1
  omega

/-- For each pair of roots `(u, v)` (third root `k`) and **every** position triple `a < b < c` the pattern
`subWitness u v a b c` consists of octets, is non-zero exactly at `a`, `b`, `c` (weight 3), vanishes at
α^u and α^v and does not vanish at α^k.  (Kernel enumeration of the 3 · 220 cases on the extracted tables.) -/
theorem two_root_witness (u v k : Nat) (h : (u, v, k) = (1, 2, 3) ∨ (u, v, k) = (1, 3, 2) ∨ (u, v, k) = (2, 3, 1))
    (a b c : Nat) (hab : a < b) (hbc : b < c) (hc : c < 12) :
    (subWitness u v a b c).length = 12 ∧ isBytes (subWitness u v a b c) = true ∧
    (∀ p, p < 12 → ((subWitness u v a b c).getD p 0 ≠ 0 ↔ p = a ∨ p = b ∨ p = c)) ∧
    symWeight (subWitness u v a b c) = 3 ∧
    syndrome u (subWitness u v a b c) = 0 ∧ syndrome v (subWitness u v a b c) = 0 ∧
    syndrome k (subWitness u v a b c) ≠ 0 := by
  rcases h with h | h | h <;> cases h
  · exact subOkP_spec 1 2 3 a b c (subAllP_spec 1 2 3 subAll_12_3 a b c hab hbc hc)
  · exact subOkP_spec 1 3 2 a b c (subAllP_spec 1 3 2 subAll_13_2 a b c hab hbc hc)
  · exact subOkP_spec 2 3 1 a b c (subAllP_spec 2 3 1 subAll_23_1 a b c hab hbc hc)

/-- Consequently a checker that tests only two of the three roots violates the property for **every**
message, mask and position triple: the generated word with the three octets `a < b < c` changed by
`subWitness` differs from it in exactly three positions, the two-root checker accepts it, and `check`
(all three roots) rejects it. -/
theorem two_root_checker_misses (u v k : Nat)
    (h : (u, v, k) = (1, 2, 3) ∨ (u, v, k) = (1, 3, 2) ∨ (u, v, k) = (2, 3, 1))
    (d mask : Bytes) (hd : d.length = 9) (hm : mask.length = 3) (bd : isBytes d = true)
    (bm : isBytes mask = true) (a b c : Nat) (hab : a < b) (hbc : b < c) (hc : c < 12) :
    symDist (xorBytes (encode d mask) (subWitness u v a b c)) (encode d mask) = 3 ∧
    checkRoots [u, v] (xorBytes (encode d mask) (subWitness u v a b c)) mask = some true ∧
    check (xorBytes (encode d mask) (subWitness u v a b c)) mask = some false := by
  obtain ⟨hl, hb, _, hwt, hu, hv, _⟩ := two_root_witness u v k h a b c hab hbc hc
  have huv : ∀ j ∈ [u, v], 1 ≤ j ∧ j ≤ 3 := by
    intro j hj
    simp only [List.mem_cons, List.not_mem_nil, or_false] at hj
    rcases h with h | h | h <;> cases h <;> rcases hj with rfl | rfl <;> omega
  refine ⟨?_, ?_, ?_⟩
  · rw [symDist_xor_error _ _ (by rw [encode_length d mask hd hm, hl]), hwt]
  · refine checkRoots_accepts [u, v] huv d mask _ hd hm bd hl hb ?_
    intro j hj
    simp only [List.mem_cons, List.not_mem_nil, or_false] at hj
    rcases hj with rfl | rfl
    · exact hu
    · exact hv
  · exact detect_le3_xor d mask _ _ hd hm bd bm (generate_eq d mask hd) hl hb (by omega) (by omega)

/-! ## stationary register: fixed points of the loop body of `generate`

The universal statements above (`gen_syndromes`, `check_iff`, `detect_le3`) hold for every message, in particular for
those on which a pass of the loop changes nothing.  The statements below describe that input class exactly, so that the
differential run can construct it (`stationary_msgs` in `harness/props/c11.py`): random messages meet it with
probability 2⁻²⁴ per step, basis / constant / two-valued messages never. -/

/-- Consuming one more octet `x` leaves the register of `generate` unchanged exactly if the register is the fixed point
`fixOf s` of its feedback symbol `s = x ^^^ parity[2]`. -/
theorem stationary_iff (pre : Bytes) (x : Nat) :
    parity (pre ++ [x]) = parity pre ↔ parity pre = fixOf (Nat.xor x (parity pre).2.2) := by
  rw [parity_snoc]; exact step_eq_self_iff _ _

/-- Every feedback symbol `s` has such a message prefix at every step from the fourth on: after `n` zero octets and the
three octets `s·01, s·0f, s·37` the register is `fixOf s`, and it stays there for as long as the octet `fixSym s = s·77`
is repeated (`j` times, any `j`).  The 256 registers `fixOf s` are pairwise different, so for `s ≠ 0` this is not the
zero register. -/
theorem stationary_reached (s n j : Nat) (hs : s < 256) :
    parity (List.replicate n 0 ++ [logMultiply s 0x01, logMultiply s 0x0f, logMultiply s 0x37]
      ++ List.replicate j (fixSym s)) = fixOf s ∧
    fixSym s = logMultiply s 0x77 ∧ (∀ t, t < 256 → fixOf t = fixOf s → t = s) := by
  refine ⟨?_, (reach_spec s hs).2, fun t ht h => fixOf_inj t s ht hs h⟩
  rw [List.append_assoc, parity_zeros_append]
  unfold parity
  rw [List.foldl_append]
  have := (reach_spec s hs).1
  unfold parity at this
  rw [this, foldl_step_fix]

/-- The register leaves the fixed point as soon as any OTHER octet arrives: if consuming `x` changes nothing, consuming
`y ≠ x` instead does change the register — so the octets after a stationary pass cannot be skipped on the grounds that
"the register no longer moves" unless every one of them equals `x`. -/
theorem stationary_leaves (pre : Bytes) (x y : Nat) (bp : isBytes pre = true) (hx : x < 256) (hy : y < 256)
    (h : parity (pre ++ [x]) = parity pre) (hne : y ≠ x) : parity (pre ++ [y]) ≠ parity pre := by
  intro h2
  rw [parity_snoc] at h h2
  exact hne (stationary_octet_unique _ y x (parity_lt pre bp) hy hx h2 h)

/-! ## non-vacuity: a captured voice LC header of the repository's own test, and corruptions of it -/

example : isBytes [3, 0, 0, 0x26, 0x35, 0xa9, 0x03, 0xd4, 0x75] = true ∧
    isBytes rsMaskVoiceLCHeader = true ∧ rsMaskVoiceLCHeader.length = 3 := by decide +kernel

example : generate [3, 0, 0, 0x26, 0x35, 0xa9, 0x03, 0xd4, 0x75] rsMaskVoiceLCHeader
    = some [3, 0, 0, 0x26, 0x35, 0xa9, 0x03, 0xd4, 0x75, 0xcb, 0x87, 0x95] := by decide +kernel

example : check [3, 0, 0, 0x26, 0x35, 0xa9, 0x03, 0xd4, 0x75, 0xcb, 0x87, 0x95] rsMaskVoiceLCHeader
    = some true := by decide +kernel

/-- three corrupted octets (positions 0, 5, 11): hypotheses of `detect_le3` hold, and it is rejected -/
example : symDist [4, 0, 0, 0x26, 0x35, 0xaa, 0x03, 0xd4, 0x75, 0xcb, 0x87, 0x96]
    [3, 0, 0, 0x26, 0x35, 0xa9, 0x03, 0xd4, 0x75, 0xcb, 0x87, 0x95] = 3 ∧
    check [4, 0, 0, 0x26, 0x35, 0xaa, 0x03, 0xd4, 0x75, 0xcb, 0x87, 0x96] rsMaskVoiceLCHeader
      = some false := by decide +kernel

/-- the same word under the other mask of the standard is rejected as well -/
example : check [3, 0, 0, 0x26, 0x35, 0xa9, 0x03, 0xd4, 0x75, 0xcb, 0x87, 0x95] rsMaskTerminatorWithLC
    = some false := by decide +kernel

/-- a non-zero message in the kernel of the parity map: the coefficients of g itself, 1·x³ + 14x² + 56x + 64
(`gen_bare_mask_iff` is not vacuous): the FEC field is the bare mask and the checker accepts it -/
example : generate [0, 0, 0, 0, 0, 1, 14, 56, 64] rsMaskVoiceLCHeader
      = some ([0, 0, 0, 0, 0, 1, 14, 56, 64] ++ rsMaskVoiceLCHeader) ∧
    check ([0, 0, 0, 0, 0, 1, 14, 56, 64] ++ rsMaskVoiceLCHeader) rsMaskVoiceLCHeader = some true ∧
    generate [1, 14, 56, 64, 0, 0, 0, 0, 0] [0, 0, 0] = some [1, 14, 56, 64, 0, 0, 0, 0, 0, 0, 0, 0] := by
  decide +kernel

/-- the pattern of a trial in which α³ was not tested (octets 2, 6, 8 changed by 01, 4d, 69): it vanishes at
α and α², the two-root checker accepts it on top of the captured header, `check` rejects it; it is 0x32
times `subWitness 1 2 2 6 8` -/
example : (subWitness 1 2 2 6 8).map (logMultiply 0x32) = [0, 0, 1, 0, 0, 0, 0x4d, 0, 0x69, 0, 0, 0] ∧
    syndrome 1 [0, 0, 1, 0, 0, 0, 0x4d, 0, 0x69, 0, 0, 0] = 0 ∧
    syndrome 2 [0, 0, 1, 0, 0, 0, 0x4d, 0, 0x69, 0, 0, 0] = 0 ∧
    syndrome 3 [0, 0, 1, 0, 0, 0, 0x4d, 0, 0x69, 0, 0, 0] = 40 ∧
    checkRoots [1, 2] [3, 0, 1, 0x26, 0x35, 0xa9, 0x4e, 0xd4, 0x1c, 0xcb, 0x87, 0x95] rsMaskVoiceLCHeader = some true ∧
    check [3, 0, 1, 0x26, 0x35, 0xa9, 0x4e, 0xd4, 0x1c, 0xcb, 0x87, 0x95] rsMaskVoiceLCHeader = some false := by
  decide +kernel

/-- the witness of `two_root_witness` on the parity octets 9, 10, 11 for the roots α, α² -/
example : subWitness 1 2 9 10 11 = [0, 0, 0, 0, 0, 0, 0, 0, 0, 6, 20, 48] := by decide +kernel

/-- distance 4 is attained (the bound of `min_distance` is sharp): two messages whose words differ in
exactly four positions -/
example : symDist (encode [0, 0, 0, 0, 0, 0, 0, 0, 0] [0, 0, 0]) (encode [0, 0, 0, 0, 0, 0, 0, 0, 1] [0, 0, 0]) = 4 := by
  decide +kernel

/-- a stationary pass (`stationary_iff` is not vacuous): after `c3 25 9a` the register is `fixOf 0xc3`, the octet
`0x10 = fixSym 0xc3` leaves it unchanged, the next octet `0x12` moves it; the word of the whole message -/
example : parity [0xc3, 0x25, 0x9a] = fixOf 0xc3 ∧ fixSym 0xc3 = 0x10 ∧
    parity [0xc3, 0x25, 0x9a, 0x10] = parity [0xc3, 0x25, 0x9a] ∧
    parity [0xc3, 0x25, 0x9a, 0x10, 0x12] ≠ parity [0xc3, 0x25, 0x9a] ∧
    generate [0xc3, 0x25, 0x9a, 0x10, 0x12, 0x34, 0x56, 0x78, 0x10] rsMaskTerminatorWithLC
      = some [0xc3, 0x25, 0x9a, 0x10, 0x12, 0x34, 0x56, 0x78, 0x10, 0x31, 0x69, 0x7b] := by
  decide +kernel

end Dmr.C11
