import DmrVerif.Props.C16
import DmrVerif.Lemmas.TranslArsMsg
import DmrVerif.Lemmas.TranslTmsMsg

/-!
# C16t — the SOURCE of the Motorola ARS and TMS codecs, translated, equals the models of C16

`Gen/TranslArs.lean` is regenerated on every run by `tools/py2lean_obj.py` (on top of `tools/py2lean_bits.py` / `tools/py2lean.py`)
from `inspect.getsource` of the live `FirstHeader`, `ResponseSecondHeader`, `RegistrationRequestHeader`
(`__init__`, `__len__`, `from_bytes`, `as_bytes`, `context`) and `AutomaticRegistrationService` (`__init__`, `encode_len_val`,
`read_len_val`, `get_payload`, `from_bytes`, `as_bytes`, `__len__`) of `okdmr/dmrlib/motorola/automatic_registration_service.py`,
for the default `endian="big"`; semantics of the Python subset: `Model/Py.lean`, `Model/PyBits.lean`, `Model/PyObj.lean`.

Call boundary (`Ext`, instantiated by `modelExt` of `Model/TranslArsExt.lean`): `bytes_to_bits` / `bits_to_bytes` (bitarray
`frombytes` / `tobytes`) = `bytesToBits` / `bitsToBytes`; `str.encode("utf-8")` / `bytes.decode("utf-8")` = THE MODEL'S CODEC — a
`str` is represented by its UTF-8 encoding (`PyObj.Str`), `encode` is the projection, `decode` accepts exactly the well-formed
octet strings (`Ars.validUtf8`) and raises `UnicodeDecodeError` on the others.  Everything between `from_bytes(data)` /
`as_bytes()` and those four callees is not trusted: it is the translated source.

The equalities hold for ALL inputs: every byte string (`isBytes`: elements < 256, the invariant of a Python `bytes`) of any
length for the parsers — error cases by exception class —, EVERY message of the model for the serialisers (no range
hypothesis: `AttributeError` for a missing second header, `OverflowError` from 256-octet identifiers on, `ValueError` for the two
unimplemented types and for a response header without usable field, …), every natural read position for `read_len_val`,
every `str` / `None` for `encode_len_val`.  Objects are compared attribute by attribute (`arsObj`, `fhObj`, `rrhObj`, `rshObj`
spell out the attributes of the Python object in terms of the model's record).  The headline theorems of C16 are restated about
the translated source (`transl_*`).

Second half (`tms_*`): `Gen/TranslTms.lean`, the same for `okdmr/dmrlib/motorola/text_messaging_service.py` — `FirstHeader`
(`__init__`, `set_has_more_headers`, `from_bytes`, `as_bytes`), `AvailabilitySecondHeader`, `TextMessagingService` (`__init__`,
`decode_sn_and_encoding`, `encode_sn_and_encoding`, `encode_address_field`, `from_bytes`, `as_bytes`) against `Model/Tms.lean`.
A `TMSPDUType` member (pair-valued Enum) is its number in the order of `Gen.Tms.pduTypeVal`.  `TextMessagingService.as_bytes`
calls `self.header.set_has_more_headers(...)`, which CHANGES the header object of the message in place; the translated
definition gives the returned octets only (that side effect is C19's subject, and no translated function calls `as_bytes`).
Addresses and texts are opaque octet strings (no codec at the boundary); the only `Ext` fields are `bytes_to_bits` /
`bits_to_bytes`.
-/

namespace Dmr.C16t
open Dmr Dmr.Py Dmr.PyBits Dmr.PyObj

section ARS
open Dmr.Transl.Ars

/-! ## helpers -/

/-- `encode_len_val(None)` -/
theorem encode_len_val_none_eq :
    AutomaticRegistrationService.encode_len_val_none modelExt () = ofE id (Ars.lv none) := lv_none_eq

/-- `encode_len_val(s)` for every `str` (represented by its UTF-8 encoding): `b"\x00"` for the empty string, else length octet
+ encoding, `OverflowError` from 256 octets on — the length is taken of the ENCODED bytes -/
theorem encode_len_val_str_eq (s : PyObj.Str) :
    AutomaticRegistrationService.encode_len_val_str modelExt s = ofE id (Ars.lv (some s.utf8)) := lv_str_eq s

/-- `encode_len_val(b)` for every `bytes` value (the third form of the `Union[bytes, str, None]` parameter) -/
theorem encode_len_val_bytes_eq (d : Bytes) :
    AutomaticRegistrationService.encode_len_val_bytes modelExt d = ofE id (Ars.lv (some d)) := lv_bytes_eq d

/-- `read_len_val(data, idx)` for every byte string and natural read position (`IndexError` past the end) -/
theorem read_len_val_eq (data : Bytes) (idx : Nat) :
    AutomaticRegistrationService.read_len_val modelExt data (idx : Int)
      = ofE (fun p : Nat × Bytes => ((p.1 : Int), p.2)) (Ars.readLv data idx) := rlv_eq data idx

/-! ## headers -/

/-- `FirstHeader.from_bytes(data)`: `AssertionError` on no data, else the model's `headerOfByte` of the first octet -/
theorem first_header_from_bytes_eq (d : Bytes) (hd : isBytes d) :
    FirstHeader.from_bytes modelExt d = match d with
      | [] => .error .assertion
      | b :: _ => ofE fhObj (Ars.headerOfByte b) := fh_from_bytes_eq d hd

/-- `FirstHeader.as_bytes()` for all 16 × 7 headers -/
theorem first_header_as_bytes_eq (h : Ars.FirstHeader) :
    FirstHeader.as_bytes modelExt (fhObj h) = ofE (fun b => [b]) (Ars.headerByte h) := fh_as_bytes_eq h

theorem registration_header_from_bytes_eq (d : Bytes) (hd : isBytes d) :
    RegistrationRequestHeader.from_bytes modelExt d = match d with
      | [] => .error .assertion
      | b :: _ => ofE rrhObj (Ars.rrhOfByte b) := rrh_from_bytes_eq d hd

theorem registration_header_as_bytes_eq (r : Ars.Rrh) :
    RegistrationRequestHeader.as_bytes modelExt (rrhObj r) = ofE id (Ars.rrhBytes r) := rrh_as_bytes_eq r

/-- `ResponseSecondHeader.from_bytes(data)` (the object before `.context(...)`) -/
theorem response_header_from_bytes_eq (d : Bytes) (hd : isBytes d) :
    ResponseSecondHeader.from_bytes modelExt d = match d with
      | [] => .error .assertion
      | b :: _ => ofE rshObj0 (Ars.rshOfByte b false) := rsh_from_bytes_eq d hd

/-- `.context(header)` -/
theorem response_header_context_eq (r : Ars.Rsh) (h : Ars.FirstHeader) :
    ResponseSecondHeader.context modelExt (rshObj0 r) (fhObj h) = .ok (rshObj h { r with ctx := some h.ack }, ()) :=
  context_eq r h

/-- `ResponseSecondHeader.as_bytes()`: with / without context, every failure reason, every natural refresh time -/
theorem response_header_as_bytes_eq (hdr : Ars.FirstHeader) (r : Ars.Rsh) :
    ResponseSecondHeader.as_bytes modelExt (rshObj hdr r) = ofE id (Ars.rshBytes r) := rsh_as_bytes_eq hdr r

/-- the three `__len__` of the headers -/
theorem header_lens (a : FirstHeader) (b : RegistrationRequestHeader) (c : ResponseSecondHeader) :
    FirstHeader.len modelExt a = .ok 1 ∧ RegistrationRequestHeader.len modelExt b = .ok 1 ∧
      ResponseSecondHeader.len modelExt c = .ok 1 := ⟨rfl, rfl, rfl⟩

/-! ## the message -/

/-- `AutomaticRegistrationService.from_bytes(data)` is `Ars.fromBytes data`: same object or the same exception class, for
every byte string of any length -/
theorem from_bytes_eq (data : Bytes) (hd : isBytes data) :
    AutomaticRegistrationService.from_bytes modelExt data = ofE arsObj (Ars.fromBytes data) :=
  Transl.Ars.from_bytes_eq data hd

/-- `get_payload()` of EVERY message of the model -/
theorem get_payload_eq (m : Ars.Msg) :
    AutomaticRegistrationService.get_payload modelExt (arsObj m) = ofE id (Ars.payload m) := Transl.Ars.get_payload_eq m

/-- `as_bytes()` of EVERY message of the model -/
theorem as_bytes_eq (m : Ars.Msg) :
    AutomaticRegistrationService.as_bytes modelExt (arsObj m) = ofE id (Ars.asBytes m) := Transl.Ars.as_bytes_eq m

/-- `len(message)` = payload + 2 -/
theorem len_eq (m : Ars.Msg) :
    AutomaticRegistrationService.len modelExt (arsObj m) = ofE (fun pl : Bytes => (pl.length : Int) + 2) (Ars.payload m) :=
  len_eq_payload m

/-! ## headline theorems of C16, about the translated source -/

theorem ofE_id_ok {α : Type} {r : Except Tms.Err α} {v : α} (h : ofE id r = .ok v) : r = .ok v := by
  cases r with
  | error e => cases h
  | ok x => cases h; rfl

/-- `C16.ars_len_prefix` about the translated `as_bytes`: whatever it returns starts with the number of octets that follow —
and that number + 2 is what the translated `__len__` answers -/
theorem transl_ars_len_prefix (p : Ars.Msg) (bs : Bytes)
    (h : AutomaticRegistrationService.as_bytes modelExt (arsObj p) = .ok bs) :
    2 ≤ bs.length ∧ Tms.be (bs.take 2) = bs.length - 2 ∧
      AutomaticRegistrationService.len modelExt (arsObj p) = .ok (bs.length : Int) := by
  rw [as_bytes_eq] at h
  have hm := ofE_id_ok h
  obtain ⟨h1, h2⟩ := C16.ars_len_prefix p bs hm
  refine ⟨h1, h2, ?_⟩
  rw [len_eq]
  unfold Ars.asBytes at hm
  cases hp : Ars.payload p with
  | error e => rw [hp] at hm; cases hm
  | ok pl =>
    rw [hp] at hm
    simp only [] at hm
    split at hm
    · cases hm
    · injection hm with hm
      subst hm
      simp
      omega

/-- `C16.ars_serialises` about the translated `as_bytes` -/
theorem transl_ars_serialises (p : Ars.Msg) (h : Ars.wf p = true) :
    ∃ bs, AutomaticRegistrationService.as_bytes modelExt (arsObj p) = .ok bs := by
  obtain ⟨bs, hb⟩ := C16.ars_serialises p h
  exact ⟨bs, by rw [as_bytes_eq, hb]; rfl⟩

/-- `C16.ars_dec_enc` about the translated pair: parsing what the translated `as_bytes` returned (a `bytes`: `isBytes`) gives the
object of the normal form -/
theorem transl_ars_dec_enc (p : Ars.Msg) (h : Ars.wf p = true) (bs : Bytes)
    (hb : AutomaticRegistrationService.as_bytes modelExt (arsObj p) = .ok bs) (hbs : isBytes bs) :
    AutomaticRegistrationService.from_bytes modelExt bs = .ok (arsObj (Ars.norm p)) := by
  rw [as_bytes_eq] at hb
  rw [from_bytes_eq bs hbs, C16.ars_dec_enc p h bs (ofE_id_ok hb)]
  rfl

/-- `C16.ars_enc_dec_enc` about the translated pair: serialise, parse, serialise again — identical octets -/
theorem transl_ars_enc_dec_enc (p : Ars.Msg) (h : Ars.wf p = true) (bs : Bytes)
    (hb : AutomaticRegistrationService.as_bytes modelExt (arsObj p) = .ok bs) (hbs : isBytes bs) :
    ∃ q, AutomaticRegistrationService.from_bytes modelExt bs = .ok q ∧
      AutomaticRegistrationService.as_bytes modelExt q = .ok bs := by
  refine ⟨arsObj (Ars.norm p), transl_ars_dec_enc p h bs hb hbs, ?_⟩
  rw [as_bytes_eq] at hb
  rw [as_bytes_eq, C16.ars_reencode p h, ofE_id_ok hb]
  rfl

/-- the headline "length prefix = bytes that follow" for ONE length-value item, purely between the two TRANSLATED helpers:
what the translated `encode_len_val` returns for a `str` of at most 255 encoded octets (or `None`), embedded anywhere in a byte
string, is read back by the translated `read_len_val` as exactly the encoded octets, ending right behind them -/
theorem transl_ars_lv_roundtrip (s : PyObj.Str) (h : s.utf8.length ≤ 255) (pre rest : Bytes) :
    ∃ bs, AutomaticRegistrationService.encode_len_val_str modelExt s = .ok bs ∧
      bs.length = s.utf8.length + 1 ∧
      AutomaticRegistrationService.read_len_val modelExt (pre ++ bs ++ rest) (pre.length : Int)
        = .ok (((pre.length + bs.length : Nat) : Int), s.utf8) := by
  refine ⟨s.utf8.length :: s.utf8, ?_, by simp, ?_⟩
  · rw [encode_len_val_str_eq]
    cases hu : s.utf8 with
    | nil => rfl
    | cons a t =>
      have : ¬ (a :: t).length ≥ 256 := by rw [← hu]; omega
      simp only [Ars.lv, if_neg this]
      rfl
  · rw [read_len_val_eq]
    have e : pre ++ (s.utf8.length :: s.utf8) ++ rest = pre ++ (s.utf8.length :: (s.utf8 ++ rest)) := by simp
    rw [e, Ars.readLv_at pre s.utf8 rest]
    simp only [ofE_ok, List.length_cons]
    congr 2
    omega

/-- the only response header `Ars.fromBytes` builds is `rshOfByte octet header.ack`: its context is the message's own
acknowledged flag, so `rshObj` (context object = the message's header with that flag) shows exactly the object `from_bytes`
returns -/
theorem from_bytes_ctx (b : Nat) (ack : Bool) (r : Ars.Rsh) (h : Ars.rshOfByte b ack = .ok r) : r.ctx = some ack := by
  unfold Ars.rshOfByte at h
  cases hf : Ars.Failure.ofCode (b % 128) with
  | none => rw [hf] at h; cases h
  | some f => rw [hf] at h; cases h; rfl

/-! ## non-vacuity: kernel evaluation of the translated definitions; expected values computed with the real code -/

def hexb (s : String) : Bytes := (hexToBytes s).getD []

example :
    -- DEVICE_REGISTRATION_REQUEST, has_more + priority, device "2001é", user None -> "", password "x"
    (AutomaticRegistrationService.from_bytes modelExt (hexb "000ca0200632303031c3a9000178")).map
        (fun o => o.header.bind (·.pdu_type)) = .ok (some 0) ∧
    (AutomaticRegistrationService.from_bytes modelExt (hexb "000ca0200632303031c3a9000178")).map
        (fun o => o.device_identifier) = .ok (some (some ⟨hexb "32303031c3a9"⟩)) ∧
    (AutomaticRegistrationService.from_bytes modelExt (hexb "000ca0200632303031c3a9000178")).map
        (fun o => o.user_identifier) = .ok (some (some ⟨[]⟩)) ∧
    (AutomaticRegistrationService.from_bytes modelExt (hexb "000ca0200632303031c3a9000178")).map
        (fun o => o.is_csbk_ars) = .ok (some false) := by
  decide +kernel

example :
    (AutomaticRegistrationService.from_bytes modelExt (hexb "000ca0200632303031c3a9000178") >>=
        AutomaticRegistrationService.as_bytes modelExt) = .ok (hexb "000ca0200632303031c3a9000178") := by
  decide +kernel

example :
    -- acknowledgement with refresh time 5: failure reason TRANSMISSION_FAILURE (255) by _missing_
    (AutomaticRegistrationService.from_bytes modelExt (hexb "0002af05")).map
        (fun o => o.response_second_header.bind (fun r => r.bind (fun r => r.failure_reason)))
      = .ok (some (some 255)) ∧
    AutomaticRegistrationService.from_bytes modelExt (hexb "0001") = .error .assertion ∧
    -- ill-formed UTF-8 in the device identifier
    AutomaticRegistrationService.from_bytes modelExt (hexb "00060001800000") = .error (.other "UnicodeDecodeError") ∧
    AutomaticRegistrationService.encode_len_val_str modelExt ⟨hexb "c3a9"⟩ = .ok (hexb "02c3a9") ∧
    AutomaticRegistrationService.read_len_val modelExt (hexb "0203040506") (-5) = .ok (-2, hexb "0304") ∧
    FirstHeader.from_bytes modelExt (hexb "f2") = .error .value := by
  decide +kernel

end ARS

/-! # TMS -/

section TMS
open Dmr.Transl.Tms

/-- TMS `FirstHeader.from_bytes(data)` -/
theorem tms_first_header_from_bytes_eq (d : Bytes) (hd : Transl.Tms.isBytes d) :
    FirstHeader.from_bytes modelExt d = match d with
      | [] => .error .assertion
      | b :: _ => ofE fhObj (Tms.headerOfByte b) := Transl.Tms.fh_from_bytes_eq d hd

/-- TMS `FirstHeader.as_bytes()` for all 8 × 3 headers (reserved bit forced for text messages) -/
theorem tms_first_header_as_bytes_eq (h : Tms.FirstHeader) :
    FirstHeader.as_bytes modelExt (fhObj h) = ofE (fun b => [b]) (Tms.headerByte h) := Transl.Tms.fh_as_bytes_eq h

/-- `set_has_more_headers(b)` (value and returned object) -/
theorem tms_set_has_more_headers_eq (h : Tms.FirstHeader) (more : Bool) :
    FirstHeader.set_has_more_headers modelExt (fhObj h) more = .ok (fhObj { h with more := more }, ()) :=
  Transl.Tms.set_more_eq h more

/-- `AvailabilitySecondHeader.from_bytes(data)`: `IndexError` on no data, else `TMSDeviceCapability(data[0] & 3)` -/
theorem tms_availability_from_bytes_eq (d : Bytes) (hd : Transl.Tms.isBytes d) :
    AvailabilitySecondHeader.from_bytes modelExt d = match d with
      | [] => .error .index
      | b :: _ => ofE capObj (match Tms.capOfCode (b % 4) with | none => .error .value | some c => .ok c) :=
  Transl.Tms.cap_from_bytes_eq d hd

theorem tms_availability_as_bytes_eq (c : Nat) :
    AvailabilitySecondHeader.as_bytes modelExt (capObj c) = if c ≥ 256 then .error .overflow else .ok [c] :=
  Transl.Tms.cap_as_bytes_eq c

/-- `encode_sn_and_encoding()` for EVERY sequence number (`None`: `TypeError`; ≥ 128: `OverflowError`) and encoding -/
theorem tms_encode_sn_eq (m : Tms.Msg) :
    TextMessagingService.encode_sn_and_encoding modelExt (tmsObj m) = ofE id (Tms.encodeSn m.seq m.encoding) :=
  Transl.Tms.encode_sn_eq m

/-- `decode_sn_and_encoding(data, idx)` for every byte string and natural read position -/
theorem tms_decode_sn_eq (data : Bytes) (hd : Transl.Tms.isBytes data) (idx : Nat) :
    TextMessagingService.decode_sn_and_encoding modelExt data (idx : Int)
      = ofE (fun p : Nat × Nat × Option Tms.Encoding =>
          ((p.1 : Int), (p.2.1 : Int), p.2.2.map (fun e => ((e.val : Nat) : Int)))) (Tms.decodeSn data idx) :=
  Transl.Tms.decode_sn_eq data hd idx

/-- `TextMessagingService.from_bytes(data)` is `Tms.fromBytes data` for every byte string of any length (it never returns
`None`: the three members exhaust the enumeration) -/
theorem tms_from_bytes_eq (data : Bytes) (hd : Transl.Tms.isBytes data) :
    TextMessagingService.from_bytes modelExt data = ofE (fun m => some (tmsObj m)) (Tms.fromBytes data) :=
  Transl.Tms.from_bytes_eq data hd

/-- `TextMessagingService.as_bytes()` (the returned octets) of EVERY message of the model -/
theorem tms_as_bytes_eq (m : Tms.Msg) :
    TextMessagingService.as_bytes modelExt (tmsObj m) = ofE id (Tms.asBytes m) := Transl.Tms.as_bytes_eq m

/-- `C16.tms_len_prefix` about the translated `as_bytes` -/
theorem transl_tms_len_prefix (p : Tms.Msg) (bs : Bytes) (h : TextMessagingService.as_bytes modelExt (tmsObj p) = .ok bs) :
    2 ≤ bs.length ∧ Tms.be (bs.take 2) = bs.length - 2 := by
  rw [tms_as_bytes_eq] at h
  exact C16.tms_len_prefix p bs (ofE_id_ok h)

/-- `C16.tms_serialises` about the translated `as_bytes` -/
theorem transl_tms_serialises (p : Tms.Msg) (h : Tms.wf p = true) :
    ∃ bs, TextMessagingService.as_bytes modelExt (tmsObj p) = .ok bs := by
  obtain ⟨bs, hb⟩ := C16.tms_serialises p h
  exact ⟨bs, by rw [tms_as_bytes_eq, hb]; rfl⟩

/-- `C16.tms_dec_enc` about the translated pair -/
theorem transl_tms_dec_enc (p : Tms.Msg) (h : Tms.wf p = true) (bs : Bytes)
    (hb : TextMessagingService.as_bytes modelExt (tmsObj p) = .ok bs) (hbs : Transl.Tms.isBytes bs) :
    TextMessagingService.from_bytes modelExt bs = .ok (some (tmsObj (Tms.norm p))) := by
  rw [tms_as_bytes_eq] at hb
  rw [tms_from_bytes_eq bs hbs, C16.tms_dec_enc p h bs (ofE_id_ok hb)]
  rfl

/-- `C16.tms_enc_dec_enc` about the translated pair: serialise, parse, serialise again — identical octets -/
theorem transl_tms_enc_dec_enc (p : Tms.Msg) (h : Tms.wf p = true) (bs : Bytes)
    (hb : TextMessagingService.as_bytes modelExt (tmsObj p) = .ok bs) (hbs : Transl.Tms.isBytes bs) :
    ∃ q, TextMessagingService.from_bytes modelExt bs = .ok (some q) ∧
      TextMessagingService.as_bytes modelExt q = .ok bs := by
  refine ⟨tmsObj (Tms.norm p), transl_tms_dec_enc p h bs hb hbs, ?_⟩
  rw [tms_as_bytes_eq] at hb
  rw [tms_as_bytes_eq, C16.tms_reencode p h, ofE_id_ok hb]
  rfl

theorem sn_bytes_table : ∀ (sn : Fin 128) (e : Fin 3),
    (match Tms.encodeSn (some sn.val)
        (match e.val with | 0 => none | 1 => some .undefined | _ => some .ucs2le) with
      | .ok bs => bs.all (fun x => decide (x < 256))
      | .error _ => true) = true := by
  decide +kernel

/-- what `encodeSn` returns are octets -/
theorem encodeSn_isBytes (sn : Nat) (enc : Option Tms.Encoding) (h : sn ≤ 127) (bs : Bytes)
    (hb : Tms.encodeSn (some sn) enc = .ok bs) : Transl.Tms.isBytes bs := by
  have hlt : sn < 128 := by omega
  have key : bs.all (fun x => decide (x < 256)) = true := by
    cases enc with
    | none => have := sn_bytes_table ⟨sn, hlt⟩ ⟨0, by decide⟩; simp only [] at this; rw [hb] at this; exact this
    | some e =>
      cases e with
      | undefined => have := sn_bytes_table ⟨sn, hlt⟩ ⟨1, by decide⟩; simp only [] at this; rw [hb] at this; exact this
      | ucs2le => have := sn_bytes_table ⟨sn, hlt⟩ ⟨2, by decide⟩; simp only [] at this; rw [hb] at this; exact this
  intro x hx
  have := List.all_eq_true.mp key x hx
  simpa using this

/-- `C16.tms_sn_roundtrip` purely between the two TRANSLATED functions: what the translated `encode_sn_and_encoding` returns for
a sequence number 0..127 and any encoding, followed by any octets, is read back by the translated `decode_sn_and_encoding` as the
same sequence number and (normalised) encoding, ending right behind it -/
theorem transl_tms_sn_roundtrip (m : Tms.Msg) (sn : Nat) (hs : m.seq = some sn) (h : sn ≤ 127) (rest : Bytes)
    (hr : Transl.Tms.isBytes rest) :
    ∃ bs, TextMessagingService.encode_sn_and_encoding modelExt (tmsObj m) = .ok bs ∧
      TextMessagingService.decode_sn_and_encoding modelExt (bs ++ rest) ((0 : Nat) : Int)
        = .ok ((bs.length : Int), (sn : Int), (Tms.normEnc m.encoding).map (fun e => ((e.val : Nat) : Int))) := by
  obtain ⟨bs, h1, -, h3⟩ := C16.tms_sn_roundtrip sn m.encoding h rest
  refine ⟨bs, ?_, ?_⟩
  · rw [tms_encode_sn_eq, hs, h1]; rfl
  · have hb : Transl.Tms.isBytes (bs ++ rest) := by
      intro x hx
      rcases List.mem_append.mp hx with hx | hx
      · exact encodeSn_isBytes sn m.encoding h bs h1 x hx
      · exact hr x hx
    rw [tms_decode_sn_eq (bs ++ rest) hb 0, h3]
    rfl

example :
    -- text message built with the library: acknowledged, address "1", sequence number 85, UCS2_LE, text "ab"
    (TextMessagingService.from_bytes modelExt (hexb "0009e00131954461006200")).map
        (fun o => o.bind (fun o => o.sequence_number)) = .ok (some (some 85)) ∧
    (TextMessagingService.from_bytes modelExt (hexb "0009e00131954461006200")).map
        (fun o => o.bind (fun o => o.message)) = .ok (some (some (hexb "61006200"))) ∧
    (TextMessagingService.from_bytes modelExt (hexb "0009e00131954461006200")).map
        (fun o => o.bind (fun o => o.encoding)) = .ok (some (some 4)) ∧
    (TextMessagingService.from_bytes modelExt (hexb "0009e00131954461006200") >>= fun o =>
        match o with
        | some o => TextMessagingService.as_bytes modelExt o
        | none => .error .value) = .ok (hexb "0009e00131954461006200") ∧
    -- acknowledgement of sequence number 3
    (TextMessagingService.from_bytes modelExt (hexb "00039f0003")).map
        (fun o => o.bind (fun o => o.sequence_number)) = .ok (some (some 3)) ∧
    TextMessagingService.from_bytes modelExt (hexb "0003bf00") = .error .index ∧
    TextMessagingService.from_bytes modelExt (hexb "0003") = .error .assertion ∧
    TextMessagingService.decode_sn_and_encoding modelExt (hexb "b544") (-2) = .ok (0, 85, some 4) ∧
    FirstHeader.from_bytes modelExt (hexb "01") = .error .value := by
  decide +kernel

end TMS

end Dmr.C16t
