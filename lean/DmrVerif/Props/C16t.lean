import DmrVerif.Props.C16
import DmrVerif.Lemmas.TranslArs

namespace Dmr.C16t
open Dmr Dmr.Py Dmr.PyBits Dmr.Transl.Ars

theorem first_header_octets : ∀ b : Fin 256, FirstHeader.from_bytes modelExt [b.val] = ofE fhObj (Dmr.Ars.headerOfByte b.val) :=
  fh_table

end Dmr.C16t
