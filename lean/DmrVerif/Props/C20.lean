import DmrVerif.Lemmas.StorageAttrs
import DmrVerif.Lemmas.StorageLookup
import DmrVerif.Gen.Storage

/-!
# C20 — repeater storage keeps one record per source address with a stable identity

Property theorems only.  Model: `Model/Storage.lean` (`RepeaterStorage` over a heap of `Repeater`
objects and an insertion-ordered dictionary, ids from a counter oracle), tied to the code by the
correspondence run of `harness/props/c20.py`; the member names and constructor defaults are the
ones `tools/extract_storage.py` read from `/repo` on this run (`Gen/Storage.lean`).

All theorems quantify over **every finite history** `h : List Op` of the eight operations (unbounded
length, arbitrary values).  Two preconditions are forced by the proofs and are explicit, decidable
(`okHist init h = true`, evaluated operation by operation against the state it meets):

* **P1** no patch entry assigns `id` (the member is documented read-only);
* **P2** `address_in` is only assigned a value that no stored record other than the patched one holds.

What the real code does where they are crossed is replayed in the kernel at the end of this file
and by the harness stream "cross" (model = code there as well).
-/

namespace Dmr.C20
open Dmr.Storage

/-! ## tie to the code's data (regenerated on every run) -/

/-- the nine data members of the model are the members `Repeater.__init__` assigns, in order -/
theorem members_match : Field.all.map Field.name = Gen.Storage.memberNames := by decide

/-- `create_repeater(dmr_id=None, address_in=a)` yields the model's fresh record -/
theorem created_defaults_match :
    Field.all.map (fun f => (f.name, (newRec 0 (.addr [49] 2)).get f)) = Gen.Storage.createdMembers := by
  decide

theorem address_empty_match : addressEmpty = Gen.Storage.addressEmpty := by decide

/-- no method / private member of `Repeater` has the name of a data member (assumption A1 excludes
exactly these names from patches) -/
theorem methods_not_members :
    ∀ m ∈ Gen.Storage.methodNames ++ Gen.Storage.otherMembers, m ∉ Field.all.map Field.name := by decide

/-! ## the property -/

/-- **ids_unique.** After every history respecting P1/P2 no two stored records have the same id, and
no repeater object is stored twice. -/
theorem ids_unique (h : List Op) (ok : okHist init h = true) :
    ((run h).1.records.map Rec.id).Nodup ∧ (run h).1.refs.Nodup := by
  have inv := inv_run h ok
  constructor
  · rw [inv.records_eq]
    apply nodup_map_of_index_inj
    intro i j a b hi hj hab
    have h1 := inv.id_eq i a hi
    have h2 := inv.id_eq j b hj
    rw [h1, h2] at hab
    cases hab; rfl
  · rw [inv.refs_eq]; exact List.nodup_range

/-- the dictionary never holds a key twice — unconditionally, also where P1/P2 are crossed -/
theorem keys_unique (h : List Op) : ((run h).1.dict.map Prod.fst).Nodup := keys_run h

/-- every reference held by the dictionary is an object the storage created (unconditional) -/
theorem refs_valid (h : List Op) : ∀ i ∈ (run h).1.refs, i < (run h).1.objs.length := wf_run h

/-- under P1/P2 incoming addresses are pairwise distinct among the stored records (this is what
makes "the record of an address" well defined) -/
theorem address_in_unique (h : List Op) (ok : okHist init h = true) :
    ((run h).1.records.map Rec.addressIn).Nodup := by
  have inv := inv_run h ok
  rw [inv.records_eq]
  exact nodup_map_of_index_inj _ inv.addr_inj

/-- **same_address_same_object.** Two lookups `match_incoming(a, …)` anywhere in a history (P1/P2) that
both return a repeater return the *same object*, with the same id, provided no patch between them —
that of the first lookup included, that of the second excluded — assigns `address_in`.
(If a patch moves the record to another address in between, a later auto-creating lookup of `a`
creates a new record: see `moved_record_is_recreated`.) -/
theorem same_address_same_object (h1 h2 : List Op) (a : Val) (au1 au2 : Bool) (p1 p2 : Patch) (x y : Nat)
    (ok : okHist init (h1 ++ Op.matchIncoming a au1 p1 :: (h2 ++ [Op.matchIncoming a au2 p2])) = true)
    (hno : ∀ op ∈ Op.matchIncoming a au1 p1 :: h2, op.names .addressIn = false)
    (r1 : (step (run h1).1 (.matchIncoming a au1 p1)).2 = .obj x)
    (r2 : (step (runFrom (step (run h1).1 (.matchIncoming a au1 p1)).1 h2).1 (.matchIncoming a au2 p2)).2 = .obj y) :
    x = y ∧
    ∃ rx ry, (step (run h1).1 (.matchIncoming a au1 p1)).1.objs[x]? = some rx ∧
      (step (runFrom (step (run h1).1 (.matchIncoming a au1 p1)).1 h2).1 (.matchIncoming a au2 p2)).1.objs[y]? = some ry ∧
      rx.id = ry.id := by
  -- invariants along the history
  rw [okHist_append, Bool.and_eq_true] at ok
  obtain ⟨ok1, ok⟩ := ok
  rw [okHist_cons, Bool.and_eq_true] at ok
  obtain ⟨okA, ok⟩ := ok
  rw [okHist_append, Bool.and_eq_true] at ok
  obtain ⟨ok2, okB⟩ := ok
  rw [okHist_cons, Bool.and_eq_true] at okB
  have inv1 : Inv (run h1).1 := inv_run h1 ok1
  simp only [run] at r1 r2 inv1 ⊢
  generalize hs1 : (runFrom init h1).1 = s1 at *
  have inv2 : Inv (step s1 (.matchIncoming a au1 p1)).1 := inv_step inv1 _ okA
  generalize hs2 : step s1 (.matchIncoming a au1 p1) = st2 at *
  have inv3 : Inv (runFrom st2.1 h2).1 := inv_runFrom inv2 h2 ok2
  generalize hs3 : (runFrom st2.1 h2).1 = s3 at *
  have inv4 : Inv (step s3 (.matchIncoming a au2 p2)).1 := inv_step inv3 _ okB.1
  -- the first lookup returns an object that carries the address afterwards
  have r1' : (s1.matchIncoming a au1 p1).2 = .obj x := by rw [← hs2] at r1; exact r1
  obtain ⟨r0, ha0, hobj, _⟩ := matchIncoming_obj r1'
  have hst2 : st2.1.objs[x]? = some (applyPatch p1 r0) := by rw [← hs2]; exact hobj
  have haddr2 : (applyPatch p1 r0).addressIn = a := by
    have := applyPatch_get_unnamed p1 r0 .addressIn (not_names (op := .matchIncoming a au1 p1) (hno _ List.mem_cons_self))
    simpa [Rec.get, ha0] using this
  -- … and still carries it when the second lookup arrives
  obtain ⟨r3, hr3, e3⟩ := runFrom_field_stable st2.1 h2 .addressIn
    (fun op hop => hno op (List.mem_cons_of_mem _ hop)) x _ hst2
  rw [hs3] at hr3
  have haddr3 : r3.addressIn = a := by simpa [Rec.get, haddr2] using e3
  -- so the second lookup finds exactly this object
  have hfirst := inv3.first_addr hr3 haddr3
  have hres : (step s3 (.matchIncoming a au2 p2)) = s3.save (some x) p2 := by
    simp only [step, Store.matchIncoming, hfirst]
  have ht := save_target s3 x p2 r3 hr3
  rw [hres, ht.2] at r2
  cases r2
  refine ⟨rfl, applyPatch p1 r0, applyPatch p2 r3, hst2, ?_, ?_⟩
  · rw [hres]; exact ht.1
  · have e1 := inv2.id_eq x _ hst2
    have e2 := inv4.id_eq x (applyPatch p2 r3) (by rw [hres]; exact ht.1)
    rw [e1, e2]

/-- under P1/P2 a lookup returns the unique record that holds the address -/
theorem lookup_returns_holder (h : List Op) (ok : okHist init h = true) (a : Val) (x : Nat) (r : Rec)
    (hr : (run h).1.objs[x]? = some r) (ha : r.addressIn = a) (au : Bool) :
    (step (run h).1 (.matchIncoming a au [])).2 = .obj x := by
  have inv := inv_run h ok
  simp only [step, Store.matchIncoming, inv.first_addr hr ha]
  exact (save_target _ x [] r hr).2

/-- an address is *seen* when some stored record has it as incoming address -/
def Seen (s : Store) (a : Val) : Prop := ∃ r ∈ s.records, r.addressIn = a

theorem creates_iff (s : Store) (op : Op) :
    creates s op = true ↔
      (∃ a p, op = .matchIncoming a true p ∧ ¬ Seen s a) ∨
      (∃ a pre e, op = .matchIncomingBad a true pre e ∧ ¬ Seen s a) := by
  have key : ∀ a, (s.first (fun r => r.addressIn == a)).isNone = true ↔ ¬ Seen s a := by
    intro a
    simp only [Seen, Store.records, List.mem_filterMap]
    constructor
    · intro hn
      rintro ⟨r, ⟨i, hi, hr⟩, ha⟩
      rw [Option.isNone_iff_eq_none] at hn
      have := first_none hn i hi r hr
      simp [ha] at this
    · intro hn
      rw [Option.isNone_iff_eq_none]
      cases hf : s.first (fun r => r.addressIn == a) with
      | none => rfl
      | some i =>
        obtain ⟨hi, r, hr, hp⟩ := first_some hf
        exact absurd ⟨r, ⟨i, hi, hr⟩, by simpa using hp⟩ hn
  cases op with
  | matchIncoming a au p =>
    cases au with
    | true =>
      simp only [creates, key]
      constructor
      · intro hn; exact Or.inl ⟨a, p, rfl, hn⟩
      · rintro (⟨a', p', he, hn⟩ | ⟨a', p', e', he, _⟩)
        · cases he; exact hn
        · cases he
    | false =>
      simp only [creates, Bool.false_eq_true, false_iff]
      rintro (⟨a', p', he, _⟩ | ⟨a', p', e', he, _⟩) <;> cases he
  | matchIncomingBad a au pre e =>
    cases au with
    | true =>
      simp only [creates, key]
      constructor
      · intro hn; exact Or.inr ⟨a, pre, e, rfl, hn⟩
      · rintro (⟨a', p', he, _⟩ | ⟨a', p', e', he, hn⟩)
        · cases he
        · cases he; exact hn
    | false =>
      simp only [creates, Bool.false_eq_true, false_iff]
      rintro (⟨a', p', he, _⟩ | ⟨a', p', e', he, _⟩) <;> cases he
  | _ =>
    simp only [creates, Bool.false_eq_true, false_iff]
    rintro (⟨a', p', he, _⟩ | ⟨a', p', e', he, _⟩) <;> cases he

/-- **creates_only_on_autocreate_unseen.** In *every* state (no precondition) an operation creates a
repeater object exactly when it is an auto-creating `match_incoming` of an address no stored record
has (whether its patch is well formed or raises: the record is stored before the patch runs); it then
creates exactly one.  Under P1/P2 `len(storage)` is the number of objects created, so
the same holds for `len(storage)`. -/
theorem creates_only_on_autocreate_unseen (h : List Op) (op : Op) :
    (step (run h).1 op).1.objs.length
      = (run h).1.objs.length + (if creates (run h).1 op then 1 else 0) :=
  step_objs_length _ op

theorem len_grows_only_on_autocreate_unseen (h : List Op) (op : Op) (ok : okHist init (h ++ [op]) = true) :
    (step (run h).1 op).1.len = (run h).1.len + (if creates (run h).1 op then 1 else 0) := by
  rw [okHist_append, Bool.and_eq_true] at ok
  have inv := inv_run h ok.1
  have okop : okOp (run h).1 op = true := by
    have := ok.2
    rw [okHist_cons, Bool.and_eq_true] at this
    exact this.1
  rw [(inv_step inv op okop).len_eq, inv.len_eq]
  exact step_objs_length _ op

/-- **lookup_never_grows.** `match_incoming` without auto-create, `match_attr`, `match_ip_incoming`,
`match_uuid` (and `save`, `attr`, `delete_attr`, `patch`) never change `len(storage)` (P1/P2), and
never create an object (unconditionally). -/
theorem lookup_never_grows (h : List Op) (op : Op) (ok : okHist init (h ++ [op]) = true)
    (hop : ∀ a p, op ≠ .matchIncoming a true p) (hop' : ∀ a pre e, op ≠ .matchIncomingBad a true pre e) :
    (step (run h).1 op).1.len = (run h).1.len ∧
    (step (run h).1 op).1.objs.length = (run h).1.objs.length := by
  have hc : creates (run h).1 op = false := by
    cases op with
    | matchIncoming a au p =>
      cases au with
      | true => exact absurd rfl (hop a p)
      | false => rfl
    | matchIncomingBad a au pre e =>
      cases au with
      | true => exact absurd rfl (hop' a pre e)
      | false => rfl
    | _ => rfl
  constructor
  · rw [len_grows_only_on_autocreate_unseen h op ok, hc]; rfl
  · rw [step_objs_length, hc]; rfl

/-- **patch_local (other records).** Whatever the operation and the state, every repeater object
other than the one the operation addresses (`target`: the matched / created record of
`match_incoming`, the argument of `save` / `attr` / `delete_attr` / `patch`) is left exactly as it
was: all data members and all dynamic attributes. -/
theorem patch_local_others (h : List Op) (op : Op) (j : Nat) (hj : j < (run h).1.objs.length)
    (ht : some j ≠ target (run h).1 op) :
    (step (run h).1 op).1.objs[j]? = (run h).1.objs[j]? :=
  step_frame _ op j hj ht

/-- **patch_local (matched record).** The matched record of a successful `match_incoming` is
`Repeater.patch(patch)` applied to the record found (or to the fresh record), … -/
theorem patch_local_target (h : List Op) (a : Val) (au : Bool) (p : Patch) (x : Nat)
    (hres : (step (run h).1 (.matchIncoming a au p)).2 = .obj x) :
    ∃ r0, ((run h).1.objs[x]? = some r0 ∨ (x = (run h).1.objs.length ∧ r0 = newRec x a)) ∧
      (step (run h).1 (.matchIncoming a au p)).1.objs[x]? = some (applyPatch p r0) := by
  obtain ⟨r0, _, hobj, hc⟩ := matchIncoming_obj (s := (run h).1) hres
  refine ⟨r0, ?_, hobj⟩
  rcases hc with ⟨h1, _⟩ | ⟨h1, h2, _⟩
  · exact Or.inl h1
  · exact Or.inr ⟨h1, h2⟩

/-- … and the same for `save` and `Repeater.patch` on a stored object -/
theorem patch_local_target_save (h : List Op) (i : Nat) (p : Patch) (r : Rec)
    (hr : (run h).1.objs[i]? = some r) :
    (step (run h).1 (.save (some i) p)).1.objs[i]? = some (applyPatch p r) ∧
    (step (run h).1 (.patch i p)).1.objs[i]? = some (applyPatch p r) := by
  have hi := getElem?_lt_of_some hr
  constructor
  · simp only [step, if_pos hi]
    exact (save_target _ i p r hr).1
  · simp only [step, hr]
    exact List.getElem?_set_self hi

/-- … where a patch (a Python dict: distinct keys) changes **exactly the named** data members and
dynamic attributes: a named member takes the given value, a named dynamic attribute takes the given
value unless that is `None` (then it is left alone), everything not named keeps its value. -/
theorem patch_exactly_named (p : Patch) (r : Rec) (hn : (p.map Prod.fst).Nodup) :
    (∀ f v, (Key.field f, v) ∈ p → (applyPatch p r).get f = v) ∧
    (∀ k v, (Key.dyn k, v) ∈ p → (applyPatch p r).attr k = if v = .none then r.attr k else v) ∧
    (∀ f, (∀ e ∈ p, e.1 ≠ .field f) → (applyPatch p r).get f = r.get f) ∧
    (∀ k, (∀ e ∈ p, e.1 ≠ .dyn k) → (applyPatch p r).attr k = r.attr k) :=
  ⟨fun f v hm => applyPatch_get_named p r f v hn hm,
   fun k v hm => applyPatch_attr_named p r k v hn hm,
   fun f hf => applyPatch_get_unnamed p r f hf,
   fun k hk => applyPatch_attr_unnamed p r k hk⟩

/-- an operation with a well-formed patch that raises (`save(None, patch)`, `match_incoming` of an unseen
address with a patch and without auto-create, `delete_attr` of a missing key, `match_uuid` miss,
`match_attr` of an unknown or non-`str` name, `match_ip_incoming` over a non-tuple address) leaves the
storage exactly as it was -/
theorem error_leaves_state (h : List Op) (op : Op) (e : Err) (hw : op.malformed = false)
    (he : (step (run h).1 op).2 = .err e) :
    (step (run h).1 op).1 = (run h).1 :=
  step_err_state _ op e hw he

/-! ## error path: malformed patches (a key that is no `str`, a patch that is no mapping)

`Repeater.patch` raises in the middle of its loop.  What is left behind: the entries before the offending
one are applied to the matched record (`malformed_patch_partial`), every other record is untouched
(`patch_local_others`, which holds for every operation), the dictionary is the old one plus the record an
auto-creating lookup of an unseen address created before its patch raised (`malformed_patch_keeps_records`),
and all invariants go on (`ids_unique`, `never_evicts`, `same_address_same_object`, … quantify over
histories that contain such calls).  In particular a record that existed before the call exists after it,
with or without `auto_create`. -/

/-- a call with a malformed patch raises -/
theorem malformed_patch_raises (h : List Op) (op : Op) (hm : op.malformed = true) :
    ∃ e, (step (run h).1 op).2 = .err e :=
  step_malformed_err _ op hm

/-- **malformed_patch_keeps_records.** … and never removes or replaces a dictionary entry (unconditional) -/
theorem malformed_patch_keeps_records (h : List Op) (op : Op) (hm : op.malformed = true) :
    (step (run h).1 op).1.dict =
      if creates (run h).1 op then
        dictSet (run h).1.dict (.uuid (run h).1.objs.length) (run h).1.objs.length
      else (run h).1.dict :=
  step_malformed_dict _ op hm

/-- … under P1/P2 every record stored before the call is stored after it, at the same place -/
theorem malformed_patch_never_evicts (h : List Op) (op : Op) (ok : okHist init (h ++ [op]) = true) :
    (run h).1.refs <+: (step (run h).1 op).1.refs := by
  rw [okHist_append, Bool.and_eq_true] at ok
  have inv := inv_run h ok.1
  have okop : okOp (run h).1 op = true := by
    have := ok.2
    rw [okHist_cons, Bool.and_eq_true] at this
    exact this.1
  rw [(inv_step inv op okop).refs_eq, inv.refs_eq, step_objs_length, List.range_add]
  exact List.prefix_append _ _

/-- **malformed_patch_partial.** the matched record of `match_incoming(a, …, patch)` with a malformed patch
is `Repeater.patch` of the entries before the offending one (for a non-mapping: none) -/
theorem malformed_patch_partial (h : List Op) (a : Val) (au : Bool) (pre : Patch) (e : Err) (x : Nat) (r : Rec)
    (hf : (run h).1.first (fun r => r.addressIn == a) = some x) (hr : (run h).1.objs[x]? = some r) :
    (step (run h).1 (.matchIncomingBad a au pre e)).1.objs[x]? = some (applyPatch pre r) ∧
    (step (run h).1 (.matchIncomingBad a au pre e)).2 = .err e := by
  simp only [step, Store.matchIncomingBad, hf]
  exact saveBad_target _ x pre e r hr

/-! ## dynamic attributes are addressed by the exact key — no normalisation of names

`patch_exactly_named` above already quantifies over *all* strings: a key that is not named keeps its
value however similar it is to a named one (`"…2.4.10.0"` / `"…2.4.1.0"`, case, white space, Unicode
forms, prefixes).  The same for the two direct entry points `attr` / `delete_attr`, and a tie of the
names the library itself stores to the model's notion of "different attribute". -/

private def isMember (k : String) : Bool := match Key.ofName k with | .field _ => true | .dyn _ => false

/-- the attribute names the library stores by itself (`SNMP.OID_*`, the `STORAGE_ATTR_*` constants of
the P2P / RDAC handlers; read from `/repo` on this run) are pairwise distinct strings, and exactly
`callsign` and `serial` of them are data members: all others are pairwise distinct dynamic attributes -/
theorem library_keys_distinct :
    Gen.Storage.libraryKeys.Nodup ∧ Gen.Storage.libraryKeys.filter isMember = ["callsign", "serial"] := by
  decide

/-- **attr_exactly_named.** `rpt.attr(k, v)` with `v` not `None` returns `v`; afterwards `attr(k)` reads
`v`, every other key `k' ≠ k` of the record reads what it read before, all data members are unchanged
(and every other record is untouched: `patch_local_others`). -/
theorem attr_exactly_named (h : List Op) (i : Nat) (k : String) (v : Val) (r : Rec)
    (hr : (run h).1.objs[i]? = some r) (hv : v ≠ .none) :
    ∃ r', (step (run h).1 (.attr i k v)).1.objs[i]? = some r' ∧
      (step (run h).1 (.attr i k v)).2 = .val v ∧
      r'.attr k = v ∧ (∀ k', k' ≠ k → r'.attr k' = r.attr k') ∧ (∀ f, r'.get f = r.get f) := by
  obtain ⟨h1, h2⟩ := step_attr_write (run h).1 i k v r hr hv
  refine ⟨r.setAttr k v, h1, h2, ?_, ?_, ?_⟩
  · rw [Rec.attr_setAttr, if_pos rfl]
  · intro k' hk
    rw [Rec.attr_setAttr, if_neg (fun e => hk e.symm)]
  · intro f; exact Rec.get_setAttr r k v f

/-- reading an attribute changes nothing and answers with the value stored under exactly this key -/
theorem attr_read_pure (h : List Op) (i : Nat) (k : String) (r : Rec) (hr : (run h).1.objs[i]? = some r) :
    step (run h).1 (.attr i k .none) = ((run h).1, .val (r.attr k)) :=
  step_attr_read _ i k r hr

/-- **delete_exactly_named.** A successful `delete_attr(k)` makes `attr(k)` read `None` (the private
dictionary never holds a key twice, after any history) and leaves every other key and all data
members of the record as they were. -/
theorem delete_exactly_named (h : List Op) (i : Nat) (k : String) (r : Rec)
    (hr : (run h).1.objs[i]? = some r) (hres : (step (run h).1 (.deleteAttr i k)).2 = .true) :
    ∃ r', (step (run h).1 (.deleteAttr i k)).1.objs[i]? = some r' ∧
      r'.attr k = .none ∧ (∀ k', k' ≠ k → r'.attr k' = r.attr k') ∧ (∀ f, r'.get f = r.get f) := by
  refine ⟨_, step_delete (run h).1 i k r hr hres, ?_, ?_, ?_⟩
  · have hn := attrsNodup_run h r (List.mem_of_getElem? hr)
    simp only [Rec.attr, dictGet_dictDel_self r.attrs k hn, Option.getD_none]
  · intro k' hk
    simp only [Rec.attr, dictGet_dictDel_ne r.attrs k k' (fun e => hk e.symm)]
  · intro f; cases f <;> rfl

/-- look-alike names are different attributes: the two Hytera OIDs that differ by a `0` before the
instance suffix, a name and its upper-case / padded / NFD spellings — each keeps its own value -/
example :
    let h : List Op :=
      [.matchIncoming (.addr [49] 1) true [(.dyn "1.3.6.1.4.1.40297.1.2.4.1.0", .int 1)],
       .patch 0 [(.dyn "1.3.6.1.4.1.40297.1.2.4.10.0", .int 2), (.dyn "rx_freq", .int 3)],
       .attr 0 "RX_FREQ" (.int 4), .attr 0 "rx_freq " (.int 5), .attr 0 "rx_freq.0" (.int 6),
       .deleteAttr 0 "1.3.6.1.4.1.40297.1.2.4.10.0",
       .attr 0 "1.3.6.1.4.1.40297.1.2.4.1.0" .none, .attr 0 "rx_freq" .none, .attr 0 "rx_freq." .none]
    okHist init h = true ∧
    (run h).2 = [.obj 0, .obj 0, .val (.int 4), .val (.int 5), .val (.int 6), .true,
                 .val (.int 1), .val (.int 3), .val .none] := by decide

/-! ## scale: nothing is ever evicted -/

/-- **never_evicts.** Under P1/P2, after a history of *any* length, the stored objects are exactly the
objects the storage ever created, in creation order; `len(storage)` is their number.  There is no
bound on the number of records and no record is dropped, whether or not it was ever identified
(`dmr_id`), patched or looked up again. -/
theorem never_evicts (h : List Op) (ok : okHist init h = true) :
    (run h).1.refs = List.range (run h).1.objs.length ∧
    (run h).1.len = (run h).1.objs.length ∧
    (run h).1.records = (run h).1.objs := by
  have inv := inv_run h ok
  exact ⟨inv.refs_eq, inv.len_eq, inv.records_eq⟩

/-- the heap of created objects never shrinks (unconditional) -/
theorem objs_never_shrink (h : List Op) (op : Op) :
    (run h).1.objs.length ≤ (step (run h).1 op).1.objs.length := by
  rw [step_objs_length]; omega

/-- a record created at any point of a history is still stored and is the one returned for its
address after any continuation `h2` (any length, any number of other records created meanwhile) that
does not assign `address_in` — with or without auto-create the lookup answers with the same object -/
theorem created_record_survives (h1 h2 : List Op) (a : Val) (p1 : Patch) (x : Nat) (au : Bool)
    (ok : okHist init (h1 ++ Op.matchIncoming a true p1 :: h2) = true)
    (hno : ∀ op ∈ Op.matchIncoming a true p1 :: h2, op.names .addressIn = false)
    (r1 : (step (run h1).1 (.matchIncoming a true p1)).2 = .obj x) :
    (step (runFrom (step (run h1).1 (.matchIncoming a true p1)).1 h2).1 (.matchIncoming a au [])).2 = .obj x := by
  rw [okHist_append, Bool.and_eq_true] at ok
  obtain ⟨ok1, ok⟩ := ok
  rw [okHist_cons, Bool.and_eq_true] at ok
  obtain ⟨okA, ok2⟩ := ok
  have inv1 : Inv (run h1).1 := inv_run h1 ok1
  simp only [run] at r1 inv1 ⊢
  generalize hs1 : (runFrom init h1).1 = s1 at *
  have inv2 : Inv (step s1 (.matchIncoming a true p1)).1 := inv_step inv1 _ okA
  generalize hs2 : step s1 (.matchIncoming a true p1) = st2 at *
  have inv3 : Inv (runFrom st2.1 h2).1 := inv_runFrom inv2 h2 ok2
  generalize hs3 : (runFrom st2.1 h2).1 = s3 at *
  have r1' : (s1.matchIncoming a true p1).2 = .obj x := by rw [← hs2] at r1; exact r1
  obtain ⟨r0, ha0, hobj, _⟩ := matchIncoming_obj r1'
  have hst2 : st2.1.objs[x]? = some (applyPatch p1 r0) := by rw [← hs2]; exact hobj
  have haddr2 : (applyPatch p1 r0).addressIn = a := by
    have := applyPatch_get_unnamed p1 r0 .addressIn (not_names (op := .matchIncoming a true p1) (hno _ List.mem_cons_self))
    simpa [Rec.get, ha0] using this
  obtain ⟨r3, hr3, e3⟩ := runFrom_field_stable st2.1 h2 .addressIn
    (fun op hop => hno op (List.mem_cons_of_mem _ hop)) x _ hst2
  rw [hs3] at hr3
  have haddr3 : r3.addressIn = a := by simpa [Rec.get, haddr2] using e3
  have hfirst := inv3.first_addr hr3 haddr3
  simp only [step, Store.matchIncoming, hfirst]
  exact (save_target s3 x [] r3 hr3).2

/-! ## the hypotheses are satisfiable by non-trivial histories -/

private def A0 : Val := .addr [49, 48] 50000
private def A1 : Val := .addr [49, 48] 50001
private def A2 : Val := .addr [50, 48] 50000

/-- two peers sharing an IP, patches with members, dynamic attributes and `None`, a record moved to
an unheld address, error outcomes: P1/P2 hold, three objects, results as the real code gives them -/
example :
    let h : List Op :=
      [.matchIncoming A0 true [], .matchIncoming A1 true [(.field .dmrId, .int 7), (.dyn "k", .int 1)],
       .matchIncoming A1 false [(.dyn "m", .none)], .matchIpIncoming [49, 48],
       .patch 0 [(.field .addressIn, A2)], .matchIncoming A0 true [], .matchIncoming A2 false [],
       .matchIncoming (.addr [] 1) false [(.dyn "k", .int 2)], .deleteAttr 0 "k", .matchUuid (.uuid 9)]
    okHist init h = true ∧
    (run h).2 = [.obj 0, .obj 1, .obj 1, .obj 0, .obj 0, .obj 2, .obj 0,
                 .err .attributeError, .err .keyError, .err .systemError] ∧
    (run h).1.len = 3 := by decide

/-- same_address_same_object is not vacuous: both lookups return object 1 -/
example :
    (step (run [.matchIncoming A0 true []]).1 (.matchIncoming A1 true [(.dyn "k", .int 1)])).2 = .obj 1 ∧
    (step (runFrom (step (run [.matchIncoming A0 true []]).1 (.matchIncoming A1 true [(.dyn "k", .int 1)])).1
      [.attr 1 "k" (.int 5), .matchIncoming A0 false []]).1 (.matchIncoming A1 false [(.field .addressIn, A2)])).2 = .obj 1 ∧
    okHist init ([.matchIncoming A0 true []] ++ Op.matchIncoming A1 true [(.dyn "k", .int 1)] ::
      ([.attr 1 "k" (.int 5), .matchIncoming A0 false []] ++ [Op.matchIncoming A1 false [(.field .addressIn, A2)]])) = true := by
  decide

/-- peer addresses of other shapes: asyncio hands an AF_INET6 peer over as `(host, port, flowinfo, scope_id)`.
Two peers that differ only in the scope id are two records, the same 4-tuple again is the same record, the
2-tuple `(host, port)` and the list `[host, port]` are other peers again (Python: none of them are `==`) -/
example :
    let a6 : Val := .tupN [102] [50000, 0, 0]
    let b6 : Val := .tupN [102] [50000, 0, 3]
    let h : List Op :=
      [.matchIncoming a6 true [], .matchIncoming b6 true [(.dyn "k", .int 1)], .matchIncoming a6 true [],
       .matchIncoming (.addr [102] 50000) false [], .matchIncoming (.lstN [102] [50000]) true [],
       .matchIncoming b6 false [], .matchIncoming (.addrS [102] [53]) true [], .matchIpIncoming [102]]
    okHist init h = true ∧
    (run h).2 = [.obj 0, .obj 1, .obj 0, .none, .obj 2, .obj 1, .obj 3, .obj 0] ∧ (run h).1.len = 4 := by decide

/-- error path: a known peer, `auto_create=True`, a patch whose second key is no `str` raises `TypeError` with the
first entry applied; a list of pairs raises `AttributeError` with nothing applied, for an unseen address after the
record was created; `save` / `Repeater.patch` alike.  Every record stays and is returned for its address. -/
example :
    let h : List Op :=
      [.matchIncoming A0 true [(.field .dmrId, .int 7)], .matchIncoming A1 true [],
       .matchIncomingBad A0 true [(.dyn "k", .int 5)] .typeError, .matchIncomingBad A2 true [] .attributeError,
       .saveBad (some 1) [] .typeError, .patchBad 1 [(.field .callsign, .str [88])] .typeError,
       .matchIncomingBad (.addr [] 9) false [] .typeError, .saveBad Option.none [] .typeError,
       .matchIncoming A0 false [], .matchUuid (.uuid 0), .attr 0 "k" .none, .matchIncoming A2 false [],
       .matchAttr .bad (.int 1)]
    okHist init h = true ∧
    (run h).2 = [.obj 0, .obj 1, .err .typeError, .err .attributeError, .err .typeError, .err .typeError,
                 .err .attributeError, .err .attributeError, .obj 0, .obj 0, .val (.int 5), .obj 2, .err .typeError] ∧
    (run h).1.len = 3 ∧ (run h).1.records.map Rec.callsign = [.str [], .str [88], .str []] := by decide

/-! ## lookups look at data members only (hardening round 4: names / values the code might treat specially)

No dynamic attribute — whatever its **name** (`"disabled"`, any string literal of any version of the code) and
whatever its value (truthy, falsy, a container) — hides, moves or duplicates a record: `match_incoming`,
`match_attr`, `match_ip_incoming`, `match_uuid`, `save` and `Repeater.patch` answer from the dictionary and the
data members alone.  The harness harvests every string / number / tuple literal and every identifier of the
current source of the storage modules and their callers on every run and uses them as names and values; in the
model they are names and values like any other. -/

/-- **lookups_depend_on_members_only.** Two states with the same dictionary and, object by object, the same data
members (`SameCore`; the dynamic attributes are arbitrary on both sides): every operation that does not read a
dynamic attribute back answers alike, and the states after it are again two such states. -/
theorem lookups_depend_on_members_only (s s' : Store) (hs : SameCore s s') (op : Op) :
    SameCore (step s op).1 (step s' op).1 ∧ (op.readsAttr = false → (step s op).2 = (step s' op).2) :=
  step_sameCore hs op

/-- … along whole continuations: the answers to all operations that do not read a dynamic attribute back agree -/
theorem histories_depend_on_members_only (s s' : Store) (hs : SameCore s s') (ops : List Op) :
    answers ops (runFrom s ops).2 = answers ops (runFrom s' ops).2 ∧
    (runFrom s ops).1.len = (runFrom s' ops).1.len :=
  ⟨runFrom_sameCore_answers hs ops, by simp only [Store.len, (runFrom_sameCore hs ops).dict]⟩

/-- **lookups_ignore_attributes.** Insert `attr(k, v)` — any record, any name, any value — anywhere into a history:
every operation after it that does not read a dynamic attribute back answers exactly as without it, and
`len(storage)` is the same (a record is neither hidden nor created a second time). -/
theorem lookups_ignore_attributes (h1 h2 : List Op) (i : Nat) (k : String) (v : Val) (op : Op)
    (hop : op.readsAttr = false) :
    (step (run (h1 ++ .attr i k v :: h2)).1 op).2 = (step (run (h1 ++ h2)).1 op).2 ∧
    (step (run (h1 ++ .attr i k v :: h2)).1 op).1.len = (step (run (h1 ++ h2)).1 op).1.len := by
  simp only [run, runFrom_append, runFrom_cons]
  have hs := runFrom_sameCore (step_attr_sameCore (runFrom init h1).1 i k v) h2
  have := step_sameCore hs op
  exact ⟨this.2 hop, by simp only [Store.len, this.1.dict]⟩

/-- … and the same for a `Repeater.patch` whose entries all name dynamic attributes -/
theorem lookups_ignore_attribute_patches (h1 h2 : List Op) (i : Nat) (p : Patch) (hp : ∀ e ∈ p, ∃ k, e.1 = .dyn k)
    (op : Op) (hop : op.readsAttr = false) :
    (step (run (h1 ++ .patch i p :: h2)).1 op).2 = (step (run (h1 ++ h2)).1 op).2 ∧
    (step (run (h1 ++ .patch i p :: h2)).1 op).1.len = (step (run (h1 ++ h2)).1 op).1.len := by
  simp only [run, runFrom_append, runFrom_cons]
  have hs := runFrom_sameCore (step_patch_dyn_sameCore (runFrom init h1).1 i p hp) h2
  have := step_sameCore hs op
  exact ⟨this.2 hop, by simp only [Store.len, this.1.dict]⟩

/-- a record whose dynamic attribute `disabled` is truthy — set through `match_incoming`, `attr`, `save` — is found
by its address (no twin is created by an auto-creating lookup), by its id, by its `dmr_id` and by its host -/
example :
    let h : List Op :=
      [.matchIncoming A0 true [(.field .dmrId, .int 1001)], .matchIncoming A1 true [(.dyn "disabled", .int 1)],
       .attr 0 "disabled" (.str [120]), .matchIncoming A0 true [], .matchIncoming A1 true [], .matchUuid (.uuid 0),
       .matchAttr (.field .dmrId) (.int 1001), .matchIpIncoming [49, 48], .save (some 1) [(.dyn "disabled", .int 0)],
       .matchIncoming A1 false [(.dyn "disabled", .none)]]
    okHist init h = true ∧
    (run h).2 = [.obj 0, .obj 1, .val (.str [120]), .obj 0, .obj 1, .obj 0, .obj 0, .obj 0, .obj 1, .obj 1] ∧
    (run h).1.len = 2 := by decide

/-! ## container values (hardening round 4: attribute values with identity)

A `dict` / `list` / `set` / `bytearray` handed over as a value is, for code that only stores and compares values,
an opaque immutable value (`Val.opaque`, `Model/StorageOpaque.lean`): equal to another one iff kind and content
agree, never equal to a Python `str`.  All theorems above quantify over every `Val`, opaque ones included. -/

/-- **patch_replaces_value.** A patch entry *replaces*: whatever is stored under `k` — a container, anything — after a
patch that names `k` with a value other than `None` exactly the given value is stored; nothing of the old value
survives (no merge), and what is stored does not depend on what was stored. -/
theorem patch_replaces_value (p : Patch) (r : Rec) (k : String) (v old : Val) (hn : (p.map Prod.fst).Nodup)
    (hm : (Key.dyn k, v) ∈ p) (hv : v ≠ .none) :
    (applyPatch p r).attr k = v ∧ (applyPatch p (r.setAttr k old)).attr k = v := by
  constructor
  · rw [applyPatch_attr_named p r k v hn hm, if_neg hv]
  · rw [applyPatch_attr_named p _ k v hn hm, if_neg hv]

theorem opaque_values_distinct (k k' : Nat) (c c' : List Nat) :
    (Val.opaque k c = Val.opaque k' c' ↔ k = k' ∧ c = c') ∧
    (∀ v : Val, v.isPyStr = true → Val.opaque k c ≠ v) ∧ Val.opaque k c ≠ .none :=
  ⟨⟨Val.opaque_inj, fun h => by rw [h.1, h.2]⟩, Val.opaque_ne_pystr k c, by simp [Val.opaque]⟩

/-- three peers share one defaults dict `{ts1: 9}` (kind 1); one of them is re-configured with `{ts2: 5}`: it holds
exactly the new value, the two others keep the defaults; a list (kind 2) with the same content text is another value -/
example :
    let d : Val := .opaque 1 [123, 116, 115, 49, 58, 57, 125]
    let e : Val := .opaque 1 [123, 116, 115, 50, 58, 53, 125]
    let h : List Op :=
      [.matchIncoming A0 true [(.dyn "talkgroups", d)], .matchIncoming A1 true [(.dyn "talkgroups", d)],
       .matchIncoming A2 true [], .attr 2 "talkgroups" d, .matchIncoming A0 false [(.dyn "talkgroups", e)],
       .matchAttr (.field .callsign) d, .patch 1 [(.field .callsign, d)], .matchAttr (.field .callsign) d,
       .matchAttr (.field .callsign) (.opaque 2 [123, 116, 115, 49, 58, 57, 125])]
    okHist init h = true ∧
    (run h).1.objs.map (fun r => r.attr "talkgroups") = [e, d, d] ∧
    (run h).2.drop 5 = [.none, .obj 1, .obj 1, .none] := by decide

/-! ## what the code does where the preconditions are crossed (kernel-checked replays)

The harness replays the same histories on the real code (stream "cross"; model = code). -/

/-- P1 crossed: a patch gives record 1 the id of record 0 and a later `save` of record 1 then writes
it under record 0's key — record 0 is *dropped* from the dictionary, record 1 is stored twice, and
two stored entries have the same id.  (`save` evaluates `rpt.id` before the patch runs, so it takes
two operations.)  The dictionary keys stay unique (`keys_unique`). -/
theorem id_patch_breaks_ids_unique :
    let h : List Op := [.matchIncoming A0 true [], .matchIncoming A1 true [(.field .id, .uuid 0)],
                        .save (some 1) [(.dyn "k", .int 1)]]
    okHist init h = false ∧ (run h).1.refs = [1, 1] ∧
    (run h).1.records.map Rec.id = [.uuid 0, .uuid 0] ∧
    (step (run h).1 (.matchIncoming A0 false [])).2 = .none := by decide

/-- P2 crossed: two records with the same incoming address; the first in dictionary order wins every
lookup (the code logs a critical line), the second is unreachable by address -/
theorem duplicate_address_first_wins :
    let h : List Op := [.matchIncoming A0 true [], .matchIncoming A1 true [], .patch 1 [(.field .addressIn, A0)]]
    okHist init h = false ∧ (run h).1.len = 2 ∧
    (step (run h).1 (.matchIncoming A0 false [])).2 = .obj 0 ∧
    (step (run h).1 (.matchIncoming A1 true [])).2 = .obj 2 := by decide

/-- inside P1/P2: a record moved to an unheld address is no longer the record of its old address; an
auto-creating lookup of the old address creates a new record (this is why `same_address_same_object`
excludes `address_in` assignments between the two lookups) -/
theorem moved_record_is_recreated :
    let h : List Op := [.matchIncoming A0 true [], .patch 0 [(.field .addressIn, A1)]]
    okHist init h = true ∧
    (step (run h).1 (.matchIncoming A0 true [])).2 = .obj 1 ∧
    (step (run h).1 (.matchIncoming A1 false [])).2 = .obj 0 := by decide

end Dmr.C20
