import DmrVerif.Lemmas.RsBase

/-!
# C11 (part c) — `log_multiply` = multiplication modulo 0x11D for the operand pairs with 128 ≤ a < 192

The 16,384 pairs of this quarter are enumerated by the kernel **in this module** (the same quarter is
also enumerated in `Lemmas/RsMul*.lean`, where the field structure is built from it), so that the
thorough tier — which rebuilds the `Props` modules from clean and replays them with `leanchecker` —
re-executes the complete 65,536-case enumeration against the tables extracted on that run.
-/

namespace Dmr.C11
open Dmr Dmr.Rs

theorem mul_spec_c (a b : Nat) (h0 : 128 ≤ a) (ha : a < 192) (hb : b < 256) :
    logMultiply a b = clmulMod 0x11D a b :=
  mulCase_spec a b (by omega) hb
    (allBin_spec _ _ _ (by decide +kernel : allBin mulCase 14 32768 = true) _ (by omega) (by simp; omega))

end Dmr.C11
