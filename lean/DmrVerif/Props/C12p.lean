import DmrVerif.Props.C12

/-!
# C12 — `speedFits` is necessary, at the level of the GPS record

`lp_parse_serialise` assumes `speedFits`.  `lp_speed_failing_set` says the record has its 40 octets iff
the speed fits, `lp_speed_overflow_rejected` that an overlong record is rejected.  Together with
`gps_roundtrip` this is an `iff`: for in-range GPS values whose speed is written the way `repr` writes
it, `GPSData.from_bytes(g.as_bytes())` gives the record back **iff** the speed fits, and it returns at
all iff the speed fits — the excluded set of `lp_parse_serialise` is exact for the record.  For the
whole PDU the failure is witnessed (`lp_speed_counterexample`: `LocationProtocol.from_bytes` cuts the
record to 40 octets and reads a truncated direction), not proved for every excluded speed.
-/

namespace Dmr.C12
open Dmr Dmr.Hytera Dmr.Gen.Hytera

/-- the GPS record comes back iff the speed fits its three octets -/
theorem gps_record_roundtrip_iff (g : Gps) (h : g.WF) (hc : g.speed.canonical) :
    Gps.fromBytes g.asBytes = .ok g ↔ g.speedFits := by
  constructor
  · intro hp
    by_cases hs : g.speedFits
    · exact hs
    · rw [lp_speed_overflow_rejected g h hc hs] at hp; cases hp
  · intro hs; exact (gps_roundtrip g h hs).2

/-- … and `from_bytes` returns anything at all iff the speed fits: every excluded record is rejected -/
theorem gps_record_parses_iff (g : Gps) (h : g.WF) (hc : g.speed.canonical) :
    (∃ g', Gps.fromBytes g.asBytes = .ok g') ↔ g.speedFits := by
  constructor
  · rintro ⟨g', hp⟩
    by_cases hs : g.speedFits
    · exact hs
    · rw [lp_speed_overflow_rejected g h hc hs] at hp; cases hp
  · intro hs; exact ⟨g, (gps_roundtrip g h hs).2⟩

example : lpSpeedWitness.gps.WF ∧ lpSpeedWitness.gps.speed.canonical ∧ ¬ lpSpeedWitness.gps.speedFits := by decide
example : (⟨true, some (18, 36, 48), some (26, 10, 15), true, 47188051, true, 18544387, ⟨9, [5]⟩, 121⟩ : Gps).WF
    ∧ (⟨9, [5]⟩ : Dec).canonical ∧ (⟨9, [5]⟩ : Dec).fits := by decide

end Dmr.C12
