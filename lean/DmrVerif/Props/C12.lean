import DmrVerif.Lemmas.HyteraPdu

/-!
# C12 — Hytera HDAP application PDUs: frame, length, checksum, serialise ∘ parse

Property theorems only (the lemmas are in `Lemmas/Hytera*.lean`, the predicates `WF` / `norm` in
`Lemmas/HyteraSpec.lean`, the model in `Model/Hdap.lean`).  `C12a` holds the HRNP nesting, `C12b` the
HSTRP nesting.  Enum member lists and opcode constants are the ones `tools/extract_hytera.py` read from
/repo on this run (`Gen/Hytera.lean`).

Reading of "in-range fields" (`WF`): enum attributes are members, integers fit their wire width
(radio id < 2^24, subnet < 2^8, request / radio ids < 2^32, renew time 1..0xFFFE as the constructor
asserts), payload length < 65536, byte strings (UTF-16 text, short data, option data, raw payloads) are
arbitrary, GPS values lie on the wire grid (`Gps.WF`).  Python's float formatting of the LP fields is
modelled over exact decimals and only cross-checked by the correspondence run.
-/

namespace Dmr.C12
open Dmr Dmr.Hytera Dmr.Gen.Hytera

/-! ## the frame every service shares (`HDAP.as_bytes`, `__len__`, `get_hdap_checksum`) -/

/-- service|reliable, opcode, 16-bit length in the service's byte order, payload, checksum over
opcode‥payload, `0x03` -/
theorem hdap_frame (f : Frame) :
    f.asBytes = [f.service ||| (if f.reliable then 0x80 else 0)] ++ f.opcode
      ++ len16 f.little f.payload.length ++ f.payload
      ++ [hdapChecksum (f.opcode ++ len16 f.little f.payload.length ++ f.payload)] ++ [0x03] := by
  simp [Frame.asBytes, Frame.checked, hdapMsgEnd]

/-- the length field, read in the protocol's endianness, is the actual payload length -/
theorem hdap_length_field (f : Frame) (h : f.payload.length < 65536) :
    (if f.little then ofLe (len16 f.little f.payload.length) else ofBe (len16 f.little f.payload.length))
      = f.payload.length := ofLen16 h

/-- `len(p)` = number of bytes produced = 7 + payload length -/
theorem hdap_len (f : Frame) (ho : f.opcode.length = 2) :
    f.len = f.asBytes.length ∧ f.len = 7 + f.payload.length :=
  ⟨by rw [frame_length f ho]; rfl, rfl⟩

/-- the checksum is reproduced by the independent formula `((255 − Σ mod 256) + 0x33) mod 256` -/
theorem checksum_spec (bs : Bytes) : hdapChecksum bs = ((255 - (bs.sum % 256)) + 0x33) % 256 :=
  hdapChecksum_spec bs

/-- service octet, opcode octets and byte order each PDU kind hands to the frame -/
def Pdu.service : Pdu → Nat
  | .rrs _ => svcRRS | .lp _ => svcLP | .tmp _ => svcTMP | .rcp _ => svcRCP
def Pdu.reliable : Pdu → Bool
  | .rrs p => p.reliable | .lp p => p.reliable | .tmp p => p.reliable | .rcp p => p.reliable
def Pdu.little : Pdu → Bool
  | .rcp _ => true | _ => false
/-- RRS `00 op`; LP the 16-bit opcode big endian; TMP `confirmed<<7 | option<<6`, `op`; RCP the 16-bit
opcode little endian (an unknown service keeps its raw opcode) -/
def Pdu.opcodeBytes : Pdu → Bytes
  | .rrs p => [0x00, p.opcode]
  | .lp p => be2 p.opcode
  | .tmp p => [(if p.confirmed then 0x80 else 0) + (if p.hasOption then 0x40 else 0), p.opcode]
  | .rcp p => match p.body with
    | .unknown ro _ => ro.take 2
    | b => le2 b.opcode

theorem tmp_opcode_octet (c o : Bool) :
    ((0 ||| (if c then 0x80 else 0)) ||| (if o then 0x40 else 0)) = (if c then 0x80 else 0) + (if o then 0x40 else 0) := by
  cases c <;> cases o <;> decide

/-- every in-range PDU serialises to the frame above with its own service, flag, opcode and byte
order, a two-octet opcode and a payload that fits the length field; `len(p)` is the byte count -/
theorem pdu_frame (p : Pdu) (h : p.WF) :
    ∃ f, p.frame = .ok f ∧ p.asBytes = .ok f.asBytes ∧ p.len = .ok f.asBytes.length
      ∧ f.asBytes.length = 7 + f.payload.length ∧ f.payload.length < 65536
      ∧ f.service = Pdu.service p ∧ f.reliable = Pdu.reliable p ∧ f.little = Pdu.little p
      ∧ f.opcode = Pdu.opcodeBytes p ∧ f.opcode.length = 2 := by
  obtain ⟨f, hf, hfit, ho, _⟩ := pdu_frame_roundtrip p h
  obtain ⟨h1, h2, h3⟩ := pdu_len_bytes p f hf ho
  refine ⟨f, hf, h1, h2, h3, hfit, ?_, ?_, ?_, ?_, ho⟩ <;>
  · cases p with
    | rrs q =>
      cases hq : q.payload <;>
        simp [Pdu.frame, Rrs.frame, hq, bind, Except.bind, pure, Except.pure] at hf
      subst hf; rfl
    | lp q =>
      cases hq : q.payload <;>
        simp [Pdu.frame, Lp.frame, hq, bind, Except.bind, pure, Except.pure] at hf
      subst hf; rfl
    | tmp q =>
      cases hq : q.payload <;>
        simp [Pdu.frame, Tmp.frame, hq, bind, Except.bind, pure, Except.pure] at hf
      subst hf
      first | rfl | (simp only [Pdu.opcodeBytes, Tmp.opcodeBytes, tmp_opcode_octet])
    | rcp q =>
      cases hq : q.body.payload <;>
        simp [Pdu.frame, Rcp.frame, hq, bind, Except.bind, pure, Except.pure] at hf
      subst hf
      first | rfl | (obtain ⟨rel, b⟩ := q; cases b <;> rfl)

/-! ## serialise then parse, per service -/

/-- RRS, all five opcodes: parsing the serialisation gives the fields back (result / renew time only
exist in the registration answer, the radio state only in the status answer: `Rrs.norm`) -/
theorem rrs_parse_serialise (p : Rrs) (h : p.WF) :
    ∃ bs, (Pdu.rrs p).asBytes = .ok bs ∧ Hdap.fromBytes bs = .ok (some (.rrs p.norm)) := by
  obtain ⟨f, hf, _, ho, hp⟩ := pdu_frame_roundtrip (.rrs p) h
  exact ⟨f.asBytes, (pdu_len_bytes _ f hf ho).1, hp⟩

/-- LP request and report (GPS record of ten ASCII fields incl. the NUL-filled absent forms), given
that the speed fits its three octets -/
theorem lp_parse_serialise (p : Lp) (h : p.WF) (hs : p.opcode = lpStandardReport → p.gps.speedFits) :
    ∃ bs, (Pdu.lp p).asBytes = .ok bs ∧ Hdap.fromBytes bs = .ok (some (.lp p.norm)) := by
  obtain ⟨f, hf, _, ho, hp⟩ := pdu_frame_roundtrip (.lp p) ⟨h, hs⟩
  exact ⟨f.asBytes, (pdu_len_bytes _ f hf ho).1, hp⟩

/-- TMP, the eight implemented opcodes, with and without option data (also empty option data) -/
theorem tmp_parse_serialise (p : Tmp) (h : p.WF) :
    ∃ bs, (Pdu.tmp p).asBytes = .ok bs ∧ Hdap.fromBytes bs = .ok (some (.tmp p.norm)) := by
  obtain ⟨f, hf, _, ho, hp⟩ := pdu_frame_roundtrip (.tmp p) h
  exact ⟨f.asBytes, (pdu_len_bytes _ f hf ho).1, hp⟩

/-- RCP, all 17 implemented opcodes (unknown service with raw opcode and payload, call request /
reply, repeater broadcast transmit status, broadcast message configuration request / reply, radio
id / ip query request / reply, broadcast status configuration request / reply, send talker alias
request / reply, zone and channel operation request / reply, status change notification request /
reply, radio status report): every attribute comes back unchanged -/
theorem rcp_parse_serialise (p : Rcp) (h : p.WF) :
    ∃ bs, (Pdu.rcp p).asBytes = .ok bs ∧ Hdap.fromBytes bs = .ok (some (.rcp p)) := by
  obtain ⟨f, hf, _, ho, hp⟩ := pdu_frame_roundtrip (.rcp p) h
  exact ⟨f.asBytes, (pdu_len_bytes _ f hf ho).1, hp⟩

/-- any application PDU -/
theorem pdu_parse_serialise (p : Pdu) (h : p.WF) :
    ∃ bs, p.asBytes = .ok bs ∧ p.len = .ok bs.length ∧ Hdap.fromBytes bs = .ok (some p.norm) := by
  obtain ⟨f, hf, _, ho, hp⟩ := pdu_frame_roundtrip p h
  obtain ⟨h1, h2, _⟩ := pdu_len_bytes p f hf ho
  exact ⟨f.asBytes, h1, h2, hp⟩

/-- canonical bytes = the serialisation of some in-range PDU -/
def Canonical (bs : Bytes) : Prop := ∃ p : Pdu, p.WF ∧ p.asBytes = .ok bs

/-- canonical bytes parse, and what they parse to serialises back to the same bytes with the same
reported length -/
theorem pdu_reserialise (bs : Bytes) (hc : Canonical bs) :
    ∃ q, Hdap.fromBytes bs = .ok (some q) ∧ q.asBytes = .ok bs ∧ q.len = .ok bs.length := by
  obtain ⟨p, hwf, hb⟩ := hc
  obtain ⟨bs', h1, h2, h3⟩ := pdu_parse_serialise p hwf
  have : bs' = bs := by rw [h1] at hb; exact Except.ok.inj hb
  subst this
  exact ⟨p.norm, h3, by rw [pdu_asBytes_norm p hwf]; exact h1, by rw [pdu_len_norm p hwf]; exact h2⟩

/-! ## what `norm` keeps: every serialised attribute, the flags, all byte strings -/

theorem rrs_norm_fields (p : Rrs) :
    p.norm.reliable = p.reliable ∧ p.norm.opcode = p.opcode ∧ p.norm.ip = p.ip
      ∧ (p.opcode = rrsRadioRegistrationAnswer → p.norm.result = p.result ∧ p.norm.renew = p.renew)
      ∧ (p.opcode = rrsRegistrationStatusCheckAnswer → p.norm.state = p.state)
      ∧ p.norm.norm = p.norm := by
  refine ⟨rfl, rfl, rfl, fun h => by simp [Rrs.norm, h], fun h => by simp [Rrs.norm, h], ?_⟩
  by_cases h1 : p.opcode = rrsRadioRegistrationAnswer <;>
    by_cases h2 : p.opcode = rrsRegistrationStatusCheckAnswer <;>
    first
      | (simp only [Rrs.norm, if_pos h1, if_pos h2]; done)
      | (simp only [Rrs.norm, if_pos h1, if_neg h2]; done)
      | (simp only [Rrs.norm, if_neg h1, if_pos h2]; done)
      | (simp only [Rrs.norm, if_neg h1, if_neg h2]; done)

theorem lp_norm_fields (p : Lp) :
    p.norm.reliable = p.reliable ∧ p.norm.opcode = p.opcode ∧ p.norm.requestId = p.requestId
      ∧ p.norm.ip = p.ip ∧ (p.opcode = lpStandardReport → p.norm = p) ∧ p.norm.norm = p.norm := by
  by_cases h : p.opcode = lpStandardReport
  · simp [Lp.norm, h]
  · simp [Lp.norm, h]

theorem tmp_norm_fields (p : Tmp) :
    p.norm.reliable = p.reliable ∧ p.norm.confirmed = p.confirmed ∧ p.norm.hasOption = p.hasOption
      ∧ p.norm.opcode = p.opcode ∧ p.norm.requestId = p.requestId ∧ p.norm.dst = p.dst
      ∧ (Tmp.isGroupAck p.opcode = false → p.norm.src = p.src)
      ∧ (Tmp.isMessage p.opcode = true → p.norm.text = p.text)
      ∧ (Tmp.isShort p.opcode = true → p.norm.shortData = p.shortData)
      ∧ (Tmp.isAck p.opcode = true → p.norm.result = p.result)
      ∧ (p.hasOption = true → p.norm.optionData = p.optionData)
      ∧ p.norm.norm = p.norm := by
  refine ⟨rfl, rfl, rfl, rfl, rfl, rfl, fun h => by simp [Tmp.norm, h], fun h => by simp [Tmp.norm, h],
    fun h => by simp [Tmp.norm, h], fun h => by simp [Tmp.norm, h], fun h => by simp [Tmp.norm, h], ?_⟩
  cases h1 : Tmp.isGroupAck p.opcode <;> cases h2 : Tmp.isMessage p.opcode <;> cases h3 : Tmp.isShort p.opcode <;>
    cases h4 : Tmp.isAck p.opcode <;> cases h5 : p.hasOption <;> simp [Tmp.norm, h1, h2, h3, h4, h5]

/-! ## the known finding: LP speed ≥ 10 kn (and most fractional speeds)

`GPSData.as_bytes` writes `f"{speed_knots:03}"`; the minimum width 3 does not truncate, so any speed
whose `repr` is longer than `d.d` makes the record 41+ octets long while the parser reads 40.
`lp_parse_serialise` above therefore carries `speedFits`; here the full statement fails at 10.0 kn. -/

def lpSpeedWitness : Lp :=
  ⟨false, lpStandardReport, 1, ⟨10, 1001⟩, 0,
    ⟨true, some (12, 34, 56), some (29, 2, 24), true, 47188051, true, 18544387, ⟨10, [0]⟩, 45⟩⟩

/-- the witness is in range in every other respect, its speed does not fit, its record has 41
octets, and parsing its serialisation does not give the fields back (the direction comes back as 4) -/
theorem lp_speed_counterexample :
    lpSpeedWitness.WF ∧ ¬ lpSpeedWitness.gps.speedFits ∧ lpSpeedWitness.gps.asBytes.length = 41
      ∧ (∃ bs, (Pdu.lp lpSpeedWitness).asBytes = .ok bs
          ∧ Hdap.fromBytes bs ≠ .ok (some (.lp lpSpeedWitness.norm))
          ∧ (Hdap.fromBytes bs >>= fun q => match q with | some q => q.asBytes | none => pure []) ≠ .ok bs) := by
  refine ⟨by decide, by decide, by decide +kernel, ?_⟩
  refine ⟨((Pdu.lp lpSpeedWitness).asBytes.toOption.getD []), by decide +kernel, by decide +kernel, by decide +kernel⟩

/-- the failing set, exactly: for in-range GPS values whose speed is written the way `repr` writes a
float (`Dec.canonical`), the record has the 40 octets the parser insists on if and only if the speed
fits — i.e. the finding is "speed ≠ 0 whose repr is not `d.d`", nothing else in the record can
overflow -/
theorem lp_speed_failing_set (g : Gps) (h : g.WF) (hc : g.speed.canonical) :
    g.asBytes.length = 40 ↔ g.speedFits := by
  rw [gps_length g h, ← show (fmtSpeed g.speed).length = 3 ↔ g.speedFits from fmtSpeed_length_iff g.speed hc]
  omega

/-- … and when it does not fit, `GPSData.from_bytes` rejects the record as a whole (`assert len == 40`);
`LocationProtocol.from_bytes` instead cuts the payload to 40 octets and reads a truncated direction —
the counter-example above -/
theorem lp_speed_overflow_rejected (g : Gps) (h : g.WF) (hc : g.speed.canonical) (hs : ¬ g.speedFits) :
    Gps.fromBytes g.asBytes = .error .assertion := by
  have : g.asBytes.length ≠ 40 := fun h40 => hs ((lp_speed_failing_set g h hc).mp h40)
  simp [Gps.fromBytes, this, bind, Except.bind, throw, throwThe, MonadExceptOf.throw]

/-! ## non-vacuity -/

example : lpSpeedWitness.gps.WF ∧ lpSpeedWitness.gps.speed.canonical ∧ ¬ lpSpeedWitness.gps.speedFits := by decide
example : (Pdu.rrs ⟨true, rrsRadioRegistrationAnswer, ⟨10, 80⟩, rrsResultSuccess, 3600, rrsStateOnline⟩).WF := by decide
example : (Pdu.lp ⟨true, lpStandardReport, 1, ⟨10, 2167005⟩, 0,
    ⟨true, some (18, 36, 48), some (26, 10, 15), true, 47188051, true, 18544387, ⟨0, [1]⟩, 121⟩⟩).WF := by decide
example : (Pdu.tmp ⟨false, true, true, tmpSendPrivateMessageAck, 2, some ⟨10, 111111⟩, some ⟨10, 196608⟩, [],
    some [1, 2, 3], some 0, []⟩).WF := by decide
example : (Pdu.tmp ⟨true, false, true, tmpSendGroupMessage, 4294967295, some ⟨10, 1⟩, some ⟨10, 16777215⟩,
    [0x4f, 0, 0x4b, 0], some [], none, []⟩).WF := by decide
example : (Pdu.rcp ⟨false, .statusNotifyReq [(11, 1), (6, 1), (5, 0), (18, 1)]⟩).WF := by decide
example : (Pdu.rcp ⟨true, .unknown [0xd4, 0x82] [0, 15, 105]⟩).WF := by decide
/-- the captured RRS answer of test_rrs.py is what the model serialises -/
example : (Pdu.rrs ⟨true, rrsRadioRegistrationAnswer, ⟨10, 80⟩, rrsResultSuccess, 3600, rrsStateOnline⟩).asBytes
    = .ok [0x91, 0x00, 0x80, 0x00, 0x09, 0x0a, 0x00, 0x00, 0x50, 0x00, 0x00, 0x00, 0x0e, 0x10, 0x31, 0x03] := by
  decide +kernel

end Dmr.C12
