import DmrVerif.Gen.Elements
import DmrVerif.Spec.ElementsRef

/-!
C03e — the information-element enumerations of this run's source tree are the reviewed reference.

`Gen/Elements.lean` is regenerated from `/repo` on every run and **is** the element functions (the complete graph
`v ↦ member | error`), so every theorem of `Props/C03` is re-proved about whatever values the tree has: a member
renumbered, added or deleted, or a `_missing_` hook that folds onto another member, keeps all round trips intact.
`elements_reference` ties the regenerated graphs to `Spec/ElementsRef.lean`, a hand-maintained file reviewed against
ETSI TS 102 361-1 §9.3, -2 §7.2 and -4 §7.2 (DESIGN §2.1, §8 "Constant tables"): same elements in the same order,
same widths, same members in declaration order, and every undefined value of the width does what the reference says
(rejected, or folded onto the named reserved member).
-/

namespace Dmr.C03e
open Dmr Dmr.Gen Dmr.Spec

/-- the complete graph a reference entry describes -/
def expand (R : ElemRef) : List ElemRes :=
  (List.range (2 ^ R.w)).map fun v =>
    if R.members.contains v then .member v else (R.mixed.lookup v).getD R.fold

/-- element `E` of the tree is what reference entry `R` says -/
def agrees (E : Elem) (R : ElemRef) : Bool :=
  E.name == R.name && E.w == R.w && E.members == R.members && E.graph == expand R

/-- all elements, position by position -/
def allAgree : Bool :=
  allElems.length == elementsRef.length && ((allElems.zip elementsRef).all fun p => agrees p.1 p.2)
  && fsnIsLast == fsnIsLastRef && [rate12Lens, rate34Lens, rate1Lens] == rateLensRef
  && skippedElems == ["BurstTypes", "CrcMasks", "SyncPatterns", "VoiceBursts"]

/-- **Reference theorem.** The element enumerations extracted from this tree equal the reviewed reference. -/
theorem elements_reference : allAgree = true := by decide +kernel

/-- a reference entry never accepts `nothing` and only folds onto one of its own members -/
def refSane (R : ElemRef) : Bool :=
  (R.fold :: R.mixed.map (·.2)).all fun r => match r with
    | .member m => R.members.contains m
    | .valueError => true
    | _ => false

theorem reference_sane : elementsRef.all refSane = true := by decide +kernel

/-- non-vacuity: the reference distinguishes a renumbered member (FLCO `GPSInfo` 8 → 9) -/
example : agrees { eFLCOs with members := [0, 3, 4, 5, 6, 7, 9, 48] } rFLCOs = false := by decide +kernel

/-- non-vacuity: the reference has 31 entries, 8-bit `FeatureSetIDs` among them with its three fold targets -/
example : elementsRef.length = 31 ∧ (expand rFeatureSetIDs).length = 256 ∧
    (expand rFeatureSetIDs)[2]? = some (.member 1) := by
  refine ⟨by decide +kernel, by decide +kernel, by decide +kernel⟩

end Dmr.C03e
