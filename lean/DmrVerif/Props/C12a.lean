import DmrVerif.Lemmas.HyteraPdu
import DmrVerif.Lemmas.HyteraHrnp

/-!
# C12a — an application PDU nested in HRNP

`HRNP(opcode=DATA, data=p, …).as_bytes()`: header, version, block, opcode, source, destination, packet
number, length, checksum, inner HDAP bytes.  The length field is the actual length `12 + len(p)`,
`len(h)` agrees, the 16-bit ones-complement sum over the whole packet is `0xFFFF`, and
`HRNP.from_bytes` gives the same header fields, the inner PDU's fields (`norm`), a checksum that
verifies, and the same bytes when serialised again.  The header and version are single octets;
addresses, block and packet number are unrestricted beyond the packet number's 16 bits.
-/

namespace Dmr.C12
open Dmr Dmr.Hytera Dmr.Gen.Hytera

/-- the end-around-carry loop computes the residue modulo 65535 (representative 65535 for non-zero
multiples): `verify_checksum` is the ones-complement sum -/
theorem fold16_is_ones_complement_sum (c : Nat) :
    fold16 c < 65536 ∧ fold16 c % 65535 = c % 65535 ∧ (fold16 c = 0 ↔ c = 0) := fold16_spec c

/-- ones-complement identity: summing the 16-bit words of any serialised packet, checksum field
included (odd length padded with `0x00`), folds to `0xFFFF` — for arbitrary inner bytes -/
theorem ones_complement_identity (h v block opcode src dst pn : Nat) (inner : Bytes) :
    fold16 (words16 (hrnpPacket h v block opcode src dst pn inner)).sum = 0xFFFF :=
  hrnp_ones_complement h v block opcode src dst pn inner

/-- HDAP in HRNP -/
theorem hrnp_wrap (p : Pdu) (hp : p.WF) (h v block src dst pn : Nat) (hpn : pn < 65536) :
    ∃ bs, p.asBytes = .ok bs ∧ (12 + bs.length < 65536 →
      ∃ q b, Hrnp.init (some p) hrnpDATA src dst block pn 0 [h] [v] = .ok q
        ∧ q.asBytes = .ok b ∧ q.len = .ok b.length
        -- length field = actual length = 12 + inner; payload = the HDAP bytes
        ∧ ofBe (sl b 8 10) = b.length ∧ b.length = 12 + bs.length ∧ b.drop 12 = bs
        -- the ones-complement checksum verifies (independent identity)
        ∧ fold16 (words16 b).sum = 0xFFFF
        -- parse: equal fields, checksum accepted, same bytes again
        ∧ ∃ q', Hrnp.fromBytes b = .ok q' ∧ q'.checksumCorrect = true ∧ q'.asBytes = .ok b
          ∧ q' = { q with data := some p.norm, checksumCorrect := true }) := by
  obtain ⟨f, hf, hfit, ho, hparse⟩ := pdu_frame_roundtrip p hp
  obtain ⟨hb, hl, _⟩ := pdu_len_bytes p f hf ho
  refine ⟨f.asBytes, hb, fun hlen => ?_⟩
  have hb' : p.norm.asBytes = .ok f.asBytes := by rw [pdu_asBytes_norm p hp]; exact hb
  have hl' : p.norm.len = .ok f.asBytes.length := by rw [pdu_len_norm p hp]; exact hl
  have hlit : p.norm.little = f.little := by
    rw [pdu_frame_little p f hf]; cases p <;> rfl
  have hfl : f.asBytes.length = 7 + (if p.norm.little then ofLe (sl f.asBytes 3 5) else ofBe (sl f.asBytes 3 5)) := by
    rw [hlit]; exact frame_len_field f ho hfit
  obtain ⟨h1, h2, h3, h4, h5⟩ := hrnp_roundtrip p p.norm f.asBytes h v block src dst pn hb hl hparse hb' hl' hfl hpn hlen
  refine ⟨_, _, h1, h2, h3, ?_, hrnpPacket_length .., ?_, hrnp_ones_complement .., _, h4, rfl, h5, rfl⟩
  · have e := Nat.mod_eq_of_lt hlen
    simp [hrnpPacket, hrnpHead, sl, be2, ofBe2', e]; omega
  · simp [hrnpPacket, hrnpHead, be2]

/-- HRNP packets without data (every opcode but DATA): 12 octets, length field 12, same fields and a
verifying checksum after parsing, same bytes again -/
theorem hrnp_nodata (h v block opcode src dst pn : Nat) (hop : opcode ∈ hrnpValues) (hnd : opcode ≠ hrnpDATA)
    (hpn : pn < 65536) :
    ∃ q b, Hrnp.init none opcode src dst block pn 0 [h] [v] = .ok q ∧ q.asBytes = .ok b ∧ b.length = 12
      ∧ ofBe (sl b 8 10) = 12 ∧ fold16 (words16 b).sum = 0xFFFF
      ∧ ∃ q', Hrnp.fromBytes b = .ok q' ∧ q'.checksumCorrect = true ∧ q'.asBytes = .ok b
        ∧ q' = { q with checksumCorrect := true } := by
  obtain ⟨h1, h2, h3, h4, h5, h6⟩ := hrnp_nodata_roundtrip h v block opcode src dst pn hop hnd hpn
  exact ⟨_, _, h1, h2, h3, h4, hrnp_ones_complement .., _, h5, rfl, h6, rfl⟩

/-! ## non-vacuity -/

/-- the captured packet `7e04000020100001001b43b5 0247180800070000…c403` (test_hrnp_rcp_stability) is
what the model builds around the broadcast message configuration request -/
example : (Hrnp.init (some (.rcp ⟨false, .bcastMsgCfgReq 7⟩)) hrnpDATA 0x20 0x10 0 1 0 [0x7e] [0x04] >>= Hrnp.asBytes)
    = .ok [0x7e, 0x04, 0x00, 0x00, 0x20, 0x10, 0x00, 0x01, 0x00, 0x1b, 0x43, 0xb5,
           0x02, 0x47, 0x18, 0x08, 0x00, 0x07, 0, 0, 0, 0, 0, 0, 0, 0xc4, 0x03] := by decide +kernel

end Dmr.C12
