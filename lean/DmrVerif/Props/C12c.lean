import DmrVerif.Lemmas.HyteraText
import DmrVerif.Props.C12

/-!
# C12 — the text of a TMP message, handed to the constructor as octets or as a `str`

`TextMessageProtocol.__init__` keeps octets as they are and encodes a `str` with the strict UTF-16-LE
codec (`Model/Hdap.lean`, `TextArg.stored`).  The theorems say that nothing about the text is special:
octets are stored verbatim whatever they start with; every `str` of Unicode scalar values is accepted
and becomes whole code units; the codec is a homomorphism for concatenation (so no character is
treated differently at the start, in the middle or at the end — in particular U+FEFF / U+FFFE are
written like any other character and no byte order mark is added or removed); the octets determine the
text (strict decoding gives the code points back, the codec is injective); and a message built from
such a text comes back from serialise-then-parse with exactly these octets.
The lemmas are in `Lemmas/HyteraText.lean`.
-/

namespace Dmr.C12
open Dmr Dmr.Hytera Dmr.Gen.Hytera

/-- octets handed to the constructor are the text field, verbatim — whatever their first code unit is -/
theorem text_octets_kept (b : Bytes) : (TextArg.octets b).stored = some b := rfl

/-- every `str` of scalar values is accepted and stored as whole code units, two or four octets per
character -/
theorem text_str_stored (cps : List Nat) (h : ∀ c ∈ cps, isScalar c) :
    ∃ b, (TextArg.str cps).stored = some b ∧ b.length % 2 = 0 ∧ 2 * cps.length ≤ b.length
      ∧ b.length ≤ 4 * cps.length := by
  obtain ⟨b, hb⟩ := utf16le_total cps h
  exact ⟨b, hb, utf16le_length cps b hb⟩

/-- the stored octets of a concatenation are the concatenation of the stored octets: no position of
the text is special -/
theorem text_str_append (x y : List Nat) (bx b : Bytes) (hx : (TextArg.str x).stored = some bx)
    (hy : (TextArg.str y).stored = some b) : (TextArg.str (x ++ y)).stored = some (bx ++ b) := by
  simp only [TextArg.stored] at *
  rw [utf16le_append, hx, hy]

/-- U+FEFF (and U+FFFE) at the start of a `str` is stored as its two octets in front of the unchanged
rest: no byte order mark is interpreted, added or dropped -/
theorem text_str_bom (cps : List Nat) (b : Bytes) (h : (TextArg.str cps).stored = some b) :
    (TextArg.str (0xFEFF :: cps)).stored = some ([0xFF, 0xFE] ++ b)
      ∧ (TextArg.str (0xFFFE :: cps)).stored = some ([0xFE, 0xFF] ++ b) := by
  simp only [TextArg.stored] at *
  rw [(utf16le_bom cps).1, (utf16le_bom cps).2, h]
  exact ⟨rfl, rfl⟩

/-- the stored octets determine the text -/
theorem text_str_decode (cps : List Nat) (b : Bytes) (h : (TextArg.str cps).stored = some b) :
    utf16leDecode b = some cps := utf16le_decode cps b h

theorem text_str_injective (x y : List Nat) (b : Bytes) (hx : (TextArg.str x).stored = some b)
    (hy : (TextArg.str y).stored = some b) : x = y := utf16le_injective x y b hx hy

/-- a text message (private or group) whose text field is what the constructor stored for the text
argument: serialise-then-parse returns a PDU whose text field is exactly these octets — equal to the
octets handed over, resp. decoding to the code points of the `str` handed over -/
theorem tmp_text_roundtrip (p : Tmp) (a : TextArg) (h : p.WF) (hm : Tmp.isMessage p.opcode = true)
    (hs : a.stored = some p.text) :
    ∃ bs q, (Pdu.tmp p).asBytes = .ok bs ∧ Hdap.fromBytes bs = .ok (some (.tmp q)) ∧ q.text = p.text
      ∧ (∀ b, a = .octets b → q.text = b) ∧ (∀ cps, a = .str cps → utf16leDecode q.text = some cps) := by
  obtain ⟨bs, h1, h2⟩ := tmp_parse_serialise p h
  have ht : p.norm.text = p.text := (tmp_norm_fields p).2.2.2.2.2.2.2.1 hm
  refine ⟨bs, p.norm, h1, h2, ht, ?_, ?_⟩
  · intro b hb
    subst hb
    rw [ht]
    exact (Option.some.inj hs).symm
  · intro cps hc
    subst hc
    rw [ht]
    exact utf16le_decode cps p.text hs

/-! ## non-vacuity: the texts a byte-order-mark-aware shortcut gets wrong -/

/-- U+FEFF `H` is stored as `FF FE 48 00`, U+FFFE `H` as `FE FF 48 00`, U+1F600 as a surrogate pair,
and a lone surrogate code point is refused -/
example : (TextArg.str [0xFEFF, 0x48]).stored = some [0xFF, 0xFE, 0x48, 0x00]
    ∧ (TextArg.str [0xFFFE, 0x48]).stored = some [0xFE, 0xFF, 0x48, 0x00]
    ∧ (TextArg.str [0x1F600]).stored = some [0x3D, 0xD8, 0x00, 0xDE]
    ∧ (TextArg.str [0xD800]).stored = none
    ∧ utf16leDecode [0xFF, 0xFE, 0x48, 0x00] = some [0xFEFF, 0x48] := by decide

example : (Tmp.mk true false false tmpSendPrivateMessage 7 (some ⟨10, 2001⟩) (some ⟨10, 1001⟩)
    [0xFF, 0xFE, 0x48, 0x00] none none []).WF := by decide

end Dmr.C12
