import DmrVerif.Lemmas.IntegrityContext
import DmrVerif.Lemmas.IntegrityHrnpFix
import DmrVerif.Props.C04

/-!
# C04 — two further input classes (core Lean)

**The PDU embedded in a longer buffer.**  `DataHeader.from_bits` (`len(bits) >= 96`),
`ShortLinkControl.from_bits` (`len(bits) >= 36`) and `HRNP.from_bytes` (`len(data) >=` announced length:
back-to-back packets of a stream, a padded datagram) accept a buffer that is longer than the PDU.
Whatever follows the PDU — zeros, ones, the next PDU, octets that would complete a checksum word — the
verdict is the verdict of the exact-length buffer (`*_trailing`), so selfcheck and detection carry over
(`*_in_context`).  Slot type, EMB and the confirmed blocks take exactly their length (`exact_length_reject`);
`PIHeader.from_bits` reads the CRC from the *end* of whatever it is given, a longer buffer is a longer PI
header (no statement).

**Special check-field values.**  A received word that carries the data bits of a valid word and *any*
other check field — all-ones, the bare mask of the kind (0xCCCC for a data header), another kind's mask,
a single bit, the complement of the right value — is never accepted, provided the received field is not
all-zero (the recorded sentinel; `…_partial` for that reason; PI header and HRNP have no sentinel).
This is the statement "an error confined to the check field is detected" without reference to bursts:
validity determines the check field from the data bits.  Valid words whose *correct* check value is
special and whose data bits are hit are instances of the `…_detect_partial` theorems of `Props/C04`.
-/

namespace Dmr.C04
open Dmr Dmr.Crc Dmr.Integrity Dmr.Gen Dmr.Gen.Integrity

/-! ## trailing context -/

/-- data header: bits after the 96th do not matter -/
theorem dh_trailing (w t : Bits) (fieldsFail : Bool) (hw : 96 ≤ w.length) :
    dhDec (w ++ t) fieldsFail = dhDec w fieldsFail := dhDec_append w t fieldsFail hw

/-- short LC: bits after the 36th do not matter -/
theorem slc_trailing (w t : Bits) (hw : 36 ≤ w.length) : slcDec (w ++ t) = slcDec w :=
  slcDec_append w t hw

/-- HRNP: octets after the announced packet length do not matter (`d` holds at least the 12 header
octets and the announced length) -/
theorem hrnp_trailing (d t : Bytes) (hdapFails : Bool) (h12 : 12 ≤ d.length)
    (hl : be16 ((d.take 10).drop 8) ≤ d.length) : hrnpDec (d ++ t) hdapFails = hrnpDec d hdapFails :=
  hrnpDec_append' d t hdapFails h12 hl

/-- slot type, EMB and the confirmed blocks take exactly their length: anything longer is rejected -/
theorem exact_length_reject (t : Bits) (ht : t ≠ []) :
    (∀ w : Bits, w.length = 20 → slotDec (w ++ t) = .error .assertionError)
    ∧ (∀ w : Bits, w.length = 16 → embDec (w ++ t) = .error .assertionError)
    ∧ (∀ (c : RateCfg) (last : Bool) (w : Bits), w.length = c.total →
        rateDec c last (w ++ t) = .error .assertionError) := by
  have hpos : 0 < t.length := List.length_pos_iff.mpr ht
  refine ⟨fun w hw => ?_, fun w hw => ?_, fun c last w hw => ?_⟩
  · unfold slotDec; rw [if_pos (by simp; omega)]
  · unfold embDec; rw [if_pos (by simp; omega)]
  · unfold rateDec; rw [if_pos (by simp; omega)]

/-- **selfcheck in context** (data header) -/
theorem dh_selfcheck_in_context (body t : Bits) (hb : body.length = 80) :
    ∃ s, dhEnc body = .ok s ∧ dhDec (s ++ t) false = .ok true := by
  obtain ⟨s, hs, hl, _, hdec⟩ := dh_selfcheck body hb
  exact ⟨s, hs, by rw [dh_trailing s t false (by omega)]; exact hdec⟩

/-- **detection in context** (data header; partial: received CRC field ≠ 0) -/
theorem dh_detect_in_context_partial (s e t : Bits) (hs : s.length = 96) (he : e.length = 96)
    (hv : ccittValid maskDataHeader s) (hc : InClass16 e)
    (hz : bitsToNat (sl (xorBits s e) 80 96) ≠ 0) (fieldsFail : Bool) :
    dhDec (xorBits s e ++ t) fieldsFail ≠ .ok true := by
  rw [dh_trailing _ t fieldsFail (by simp [hs, he])]
  exact dh_detect_partial s e hs he hv hc hz fieldsFail

/-- **selfcheck in context** (short LC) -/
theorem slc_selfcheck_in_context (pl : SlcPayload) (h : pl.WF) (t : Bits) :
    ∃ o, slcInit pl (zeros 8) = .ok o ∧ ∃ q, slcDec (o.enc ++ t) = .ok q ∧ q.ok = true := by
  obtain ⟨o, ho, _, hl, q, hq, hok, _⟩ := slc_selfcheck pl h
  exact ⟨o, ho, q, by rw [slc_trailing o.enc t (by omega)]; exact hq, hok⟩

/-- **detection in context** (short LC; partial: received CRC field ≠ 0) -/
theorem slc_detect_in_context_partial (s e t : Bits) (hs : s.length = 36) (he : e.length = 36)
    (hv : slcValid s) (hc : InClass8 e) (hz : bitsToNat (sl (xorBits s e) 28 36) ≠ 0) :
    match slcDec (xorBits s e ++ t) with
    | .error _ => True
    | .ok q => q.ok = false := by
  rw [slc_trailing _ t (by simp [hs, he])]
  exact slc_detect_partial s e hs he hv hc hz

/-- **selfcheck in context** (HRNP): what `as_bytes` assembles, followed by anything, parses with
`checksum_correct` — for every parity of the packet length -/
theorem hrnp_selfcheck_in_context (hd ver blk opc src dst pn : Nat) (inner t : Bytes)
    (hop : hrnpOpcodes.contains opc = true) (hlen : 12 + inner.length < 65536)
    (hin : opc = hrnpData → HdapFramed inner) :
    hrnpDec (hrnpEnc hd ver blk opc src dst pn inner ++ t) false = .ok true := by
  have h := hrnp_selfcheck hd ver blk opc src dst pn inner hop hlen hin
  obtain ⟨h12, hP, _⟩ := hrnpDecOld_true _ false ((hrnpDec_true_iff _ _).mp h).1
  rw [hrnp_trailing _ t false h12 hP]
  exact h

/-- **one inverted bit, in context** (partial: not in the two packet-length octets; full statement for
DATA packets: `hrnp_single_bit_in_context`, `Props/C04p`): never accepted, whatever follows the packet
in the buffer -/
theorem hrnp_single_bit_in_context_partial (d t : Bytes) (hd : hrnpDec d false = .ok true) (j y b : Nat)
    (hj : j < be16 ((d.take 10).drop 8)) (h8 : j ≠ 8) (h9 : j ≠ 9) (hb : b < 8)
    (hy : y = d.getD j 0 + 2 ^ b ∨ d.getD j 0 = y + 2 ^ b) (hdapFails : Bool) :
    hrnpDec (d.set j y ++ t) hdapFails ≠ .ok true := by
  obtain ⟨h12, hP, _⟩ := hrnpDecOld_true d false ((hrnpDec_true_iff d false).mp hd).1
  have hlenf : ((d.set j y).take 10).drop 8 = (d.take 10).drop 8 := by
    rw [slice_set, if_neg (by omega)]
  rw [hrnp_trailing _ t hdapFails (by simp; omega) (by rw [hlenf]; simp; omega)]
  exact hrnp_single_bit_partial d hd j y b hj h8 h9 hb hy hdapFails

/-! ## special check-field values -/

/-- data header (partial: received CRC field ≠ 0): the data bits of a valid header under any other
check field — never `crc_ok` -/
theorem dh_special_check_value_partial (s r : Bits) (hr : r.length = 96)
    (hv : ccittValid maskDataHeader s) (hd : sl r 0 80 = sl s 0 80) (hne : sl r 80 96 ≠ sl s 80 96)
    (hz : bitsToNat (sl r 80 96) ≠ 0) (fieldsFail : Bool) : dhDec r fieldsFail ≠ .ok true :=
  dh_wrong_check s r hr hv hd hne hz fieldsFail

/-- PI header, unconditional -/
theorem pi_special_check_value (s r : Bits) (hr : r.length = 96) (hv : ccittValid maskPiHeader s)
    (hd : sl r 0 80 = sl s 0 80) (hne : sl r 80 96 ≠ sl s 80 96) :
    ∃ q, piDec r = .ok q ∧ q.ok = false := pi_wrong_check s r hr hv hd hne

/-- short LC (partial: received CRC field ≠ 0): decode error or `crc_ok = false` -/
theorem slc_special_check_value_partial (s r : Bits) (hr : r.length = 36) (hv : slcValid s)
    (hd : sl r 0 28 = sl s 0 28) (hne : sl r 28 36 ≠ sl s 28 36) (hz : bitsToNat (sl r 28 36) ≠ 0) :
    match slcDec r with
    | .error _ => True
    | .ok q => q.ok = false := by
  split
  · trivial
  · rename_i q hq
    exact slc_wrong_check s r hr hv hd hne hz q hq

/-- confirmed (last) block (partial: received CRC-9 field ≠ 0, for a last block received CRC-32 ≠ 0):
data, [CRC-32,] serial number of a valid block under any other CRC-9 field -/
theorem rate_special_check_value_partial (c : RateCfg) (k kl : Nat) (hc : RateOk c k kl) (last : Bool)
    (s r : Bits) (hr : r.length = c.total) (hv : rateValid c s)
    (hd : sl r 16 c.total = sl s 16 c.total) (hsn : sl r 0 7 = sl s 0 7) (hne : sl r 7 16 ≠ sl s 7 16)
    (hz : bitsToNat (sl r 7 16).reverse ≠ 0)
    (hz32 : last = true → bitsToNat (sl r (c.total - 32) c.total) ≠ 0) :
    match rateDec c last r with
    | .error _ => True
    | .ok q => q.ok = false := by
  split
  · trivial
  · rename_i q hq
    exact rate_wrong_check c k kl hc last s r hr hv hd hsn hne hz hz32 q hq

/-- HRNP, unconditional (no sentinel: 0x0000 and 0xFFFF are values like any other): an accepted packet
with its two checksum octets replaced by another value is not accepted -/
theorem hrnp_special_check_value (d : Bytes) (hd : hrnpDec d false = .ok true) (a b : Nat)
    (hne : be16 [a, b] ≠ be16 ((d.take 12).drop 10)) (hdapFails : Bool) :
    hrnpDec ((d.set 10 a).set 11 b) hdapFails ≠ .ok true :=
  hrnpDec_ne_of_old _ _ (hrnp_wrong_check d ((hrnpDec_true_iff d false).mp hd).1 a b hne hdapFails)

/-! ## non-vacuity / concrete instances (kernel-evaluated) -/

/-- the valid header `dhSent` with its CRC field replaced by the bare mask 0xCCCC, by all-ones, and the
same followed by more bits: `crc_ok = false` -/
def isOk (b : Bool) : Except IErr Bool → Bool
  | .ok v => v == b
  | .error _ => false

def specialCheck : Bool :=
  isOk false (dhDec (sl dhSent 0 80 ++ natToBits 16 maskDataHeader) false)
  && isOk false (dhDec (sl dhSent 0 80 ++ natToBits 16 0xFFFF) false)
  && isOk false (dhDec (sl dhSent 0 80 ++ natToBits 16 maskDataHeader ++ natToBits 16 maskDataHeader) false)
  && isOk true (dhDec (dhSent ++ [true, true, false]) false)
  && (sl (sl dhSent 0 80 ++ natToBits 16 maskDataHeader) 80 96 != sl dhSent 80 96)

theorem special_enum : specialCheck = true := by decide +kernel

/-- an odd-length HRNP packet (27 octets) followed by the first octet of the next packet -/
example : hrnpDec ([0x7e, 0x04, 0x00, 0x00, 0x20, 0x10, 0x00, 0x01, 0x00, 0x1b, 0x43, 0xb5, 0x02, 0x47, 0x18,
    0x08, 0x00, 0x07, 0x00, 0x00, 0x00, 0x00, 0x00, 0x00, 0x00, 0xc4, 0x03] ++ [0x7e]) false = .ok true := by
  rfl

end Dmr.C04
