import DmrVerif.Lemmas.Purity
import DmrVerif.Gen.HiddenState

/-!
# C19 — codec calls are pure: results do not depend on earlier calls or alter inputs

**Level: partial.**  A Lean function is pure by construction, so these theorems are about the *hidden state the
Python has*, made explicit in `Model/Purity.lean` (`S`, `step : S → Call → S × Out × Call`).  What is proved:
the inventoried state cannot leak into a result (non-interference), argument buffers are left alone except by
the documented in-place Hamming repair, and this holds along every finite history.  What is NOT proved here —
that the Python has no *other* hidden state, and that `step` mirrors the Python — is established by
(a) `inventory_baseline`: the AST inventory of the source as it is now equals the list reviewed below, so a new
mutable default / cache / class-level container / in-place parameter write breaks this file, and
(b) the interleaving runs of `harness/props/c19.py` (every call compared with the same call made first in a fresh
interpreter; shared objects probed after every history; the modelled calls compared with this model line by line).

Full statement of the property (for all interleavings of ALL public codec entry points) is therefore carried by
theorem + inventory + runs together; the theorems below are the full statement for the modelled entry points.
-/

namespace Dmr.C19
open Dmr Dmr.Purity

/-! ## the state after import satisfies the invariant (kernel-checked against the extracted values) -/

/-- the cached lookup tables extracted from the imported package are the derived ones (`bits_create_lookup_table`
as modelled by `mkTable`), every table-based shared calculator finds its table, registers alias the cache object -/
def initChk : Bool :=
  init.tableCache.all (fun e => e.2 == mkTable e.1.1 e.1.2)
  && sharedCfgs.all (fun c => !c.2 || init.tableCache.any (fun e => e.1 == (c.1.width, c.1.poly)))
  && Gen.PurityInit.tablesAliased
  && sharedCfgs.length == 4

theorem init_tables : initChk = true := by decide +kernel

theorem init_inv : Inv init := by
  have h := init_tables
  simp only [initChk, Bool.and_eq_true, List.all_eq_true, beq_iff_eq] at h
  obtain ⟨⟨⟨hc, hs⟩, _⟩, _⟩ := h
  refine ⟨fun e he => hc e he, ?_, rfl, rfl, rfl, rfl, rfl, rfl, rfl, rfl, rfl⟩
  intro c hc' ht
  have := hs c hc'
  simp only [ht, Bool.not_true, Bool.false_or, List.any_eq_true, beq_iff_eq] at this
  exact this

/-! ## the property -/

/-- **non-interference**: whatever the registers, kept calculators, header flag and debug flag hold, and whatever
was cached so far, a call answers what the history-free function answers, and leaves the invariant intact -/
theorem noninterference (s : S) (c : Call) (h : Inv s) :
    (step s c).2.1 = pureOut c ∧ Inv (step s c).1 :=
  ⟨(good s c h).1, (good s c h).2.1⟩

/-- argument buffers after a call are the arguments, … -/
theorem args_unchanged (s : S) (c : Call) (h : Inv s) (hc : ∀ i w, c ≠ .hamCac i w) : (step s c).2.2 = c := by
  have := (good s c h).2.2
  cases c <;> first | exact this | exact absurd rfl (hc _ _)

/-- … except for `check_and_correct`, which leaves in its argument exactly the buffer it returns -/
theorem cac_buffer_is_result (s : S) (i : Nat) (w : Bits) (h : Inv s) (ok : Bool) (b : Bits)
    (hr : (step s (.hamCac i w)).2.1 = .flagBits ok b) : (step s (.hamCac i w)).2.2 = .hamCac i b := by
  obtain ⟨h1, _, h3⟩ := good s (.hamCac i w) h
  rw [h3]
  show Call.hamCac i (cacBuffer i w) = _
  have h1' : pureHamCac i w = .flagBits ok b := by rw [← hr, h1]; rfl
  unfold cacBuffer
  rw [h1']

/-- the CRC registers (shared and kept), the TMS header flag and `MBXML.DEBUG` are irrelevant: overwrite them with
anything, every call answers the same -/
theorem scratch_irrelevant (s : S) (h : Inv s) (regs : List Nat) (kept : List (CrcCfg × Bool × Nat)) (f d : Bool) (c : Call) :
    (step { s with sharedRegs := regs, kept := kept, tmsFlag := f, mbxmlDebug := d } c).2.1 = (step s c).2.1 := by
  rw [(noninterference _ c (h.scratch regs kept f d)).1, (noninterference s c h).1]

/-- **histories**: for any finite sequence of calls from the state after import, the results are the history-free
function of the respective arguments, … -/
theorem history (cs : List Call) : (run init cs).2 = cs.map pureOut :=
  (run_good cs init init_inv).1

/-- … in particular the `i`-th result is the pure function of the `i`-th arguments, … -/
theorem history_nth (cs : List Call) (i : Nat) (hi : i < cs.length) :
    (run init cs).2[i]? = some (pureOut cs[i]) := by
  rw [history, List.getElem?_map, List.getElem?_eq_getElem hi]; rfl

/-- … the same call answers the same after any two histories, … -/
theorem same_after_any_history (h₁ h₂ : List Call) (c : Call) :
    (step (after init h₁) c).2.1 = (step (after init h₂) c).2.1 := by
  have e₁ := (noninterference (after init h₁) c (run_good h₁ init init_inv).2).1
  have e₂ := (noninterference (after init h₂) c (run_good h₂ init init_inv).2).1
  rw [e₁, e₂]

/-- … and the invariant holds after every history (so do all of the above from any reachable state) -/
theorem reachable_inv (cs : List Call) : Inv (after init cs) := (run_good cs init init_inv).2

/-- from any state satisfying the invariant -/
theorem history_from (s : S) (h : Inv s) (cs : List Call) : (run s cs).2 = cs.map pureOut ∧ Inv (run s cs).1 :=
  run_good cs s h

/-- the executable invariant printed by the driver (`inv` line) implies the invariant -/
theorem invB_sound (s : S) (h : invB s = true) (hd : s.codes.map (·.d) = theCodes.map (·.d)) : Inv s :=
  inv_of_invB h hd

/-! ## the hypotheses are satisfiable by non-trivial values -/

/-- a state with garbage registers, a kept calculator, a stale header flag and extra cached tables satisfies `Inv` -/
example : Inv (after { init with sharedRegs := [1, 2, 3, 4], tmsFlag := true, mbxmlDebug := true }
    [.crcKept ⟨12, 0x80F, 0, 0, false, false⟩ true [true, false, true] false, .crcNew ⟨5, 0x15, 0, 0, false, false⟩ true [true] false]) :=
  (run_good _ _ (init_inv.scratch [1, 2, 3, 4] [] true true)).2

example : (step init (.hamCac 0 [true, false, false, false, true, false, false])).2.1
    = .flagBits true [true, false, false, false, true, false, true] := by decide +kernel

/-! ## teeth: the code before the repairs violates the statements (kernel-checked counter-examples) -/

/-- `get_token("result", attributes={0x22: 5}, is_request=False)` -/
def tokCall : Call := .getToken false (.str "result") [(.num 0x22, some 5)]

/-- before d571898: the second identical `get_token` call answers differently (another token) … -/
theorem buggy_getToken_history_dependent :
    (stepBuggy (stepBuggy init tokCall).1 tokCall).2.1 ≠ (stepBuggy init tokCall).2.1 := by decide +kernel

/-- … because the first call broke the invariant (wrote into the shared token table); the repaired `step` does not -/
theorem buggy_getToken_breaks_inv : invB (stepBuggy init tokCall).1 = false ∧ invB (step init tokCall).1 = true := by
  decide +kernel

/-- before a980052: `calculate_checksum` with `reverse_input_bytes` altered the caller's buffer -/
theorem buggy_crc_alters_argument :
    (stepBuggy init (.crcNew ⟨16, 0x8005, 0, 0, true, true⟩ false (natToBits 16 0x0123) false)).2.2
      ≠ .crcNew ⟨16, 0x8005, 0, 0, true, true⟩ false (natToBits 16 0x0123) false := by
  intro h
  injection h with _ _ hd _
  revert hd
  decide +kernel

/-- before 2d27283: `byteswap_bytearray` swapped an even-length argument in place -/
theorem buggy_byteswap_alters_argument : (stepBuggy init (.byteswap [1, 2, 3, 4])).2.2 ≠ .byteswap [1, 2, 3, 4] := by
  intro h
  injection h with hd
  revert hd
  decide +kernel

/-- why `calculate_checksum` is pure: it calls `init()` first.  Without it the answer depends on the register -/
theorem crc_without_init_depends_on_register :
    (crcRunFrom ⟨8, 7, 0, 0, false, false⟩ none false 1 [true, false, true]).2
      ≠ (crcRunFrom ⟨8, 7, 0, 0, false, false⟩ none false 0 [true, false, true]).2 := by decide +kernel

/-! ## a memo in front of the entry points: which keys are safe

The model's entry points with a "same as last time" shortcut (`memoStep`: remembered key and result; not in the code).
A shortcut is the typical *new* hidden state a change introduces; whether it breaks the property depends on the key only. -/

/-- **a memo whose key determines the result is invisible**: in every history, from any state satisfying the
invariant and any memo content that is the result of some earlier call, every call answers the history-free function -/
theorem memo_transparent {κ : Type} [DecidableEq κ] (key : Call → κ)
    (hk : ∀ c c', key c = key c' → pureOut c = pureOut c') (cs : List Call) :
    memoRun key (init, none) cs = cs.map pureOut :=
  memoRun_good key hk cs init none init_inv (fun _ _ e => nomatch e)

/-- … and only then: if the key identifies two calls with different results, the history `c; c'` answers `c'` wrongly -/
theorem memo_collision_history_dependent {κ : Type} [DecidableEq κ] (key : Call → κ) (c c' : Call)
    (hk : key c = key c') (hne : pureOut c ≠ pureOut c') :
    memoRun key (init, none) [c, c'] ≠ [c, c'].map pureOut :=
  memoRun_collision key init init_inv c c' hk hne

/-- the hypotheses are satisfiable: the full argument list is a safe key, and so is the coarsest one, the result itself -/
example (cs : List Call) : memoRun (fun c => c) (init, none) cs = cs.map pureOut := memo_transparent _ (fun _ _ h => by rw [h]) cs
example (cs : List Call) : memoRun pureOut (init, none) cs = cs.map pureOut := memo_transparent _ (fun _ _ h => h) cs

/-- the 28 bits of a short LC (activity update) -/
def slcBits : Bits := natToBits 28 0x182B24D

/-- **the bit order of a `bitarray` is part of the argument**: `CRC8.CALC` (table driven, `ba2int` of every chunk) answers
74 for the big-endian and 25 for the little-endian array of the same 0/1 values -/
theorem bit_order_is_part_of_the_argument :
    pureOut (.crcShared 0 slcBits false) = .bits (natToBits 8 74) ∧ pureOut (.crcShared 0 slcBits true) = .bits (natToBits 8 25) := by
  decide +kernel

/-- so a shortcut keyed by what `bitarray.__eq__` / `to01()` see is history dependent: after the big-endian call the
little-endian call of the same 0/1 values gets the remembered (wrong) checksum -/
theorem memo_keyed_by_bit_values_history_dependent :
    memoRun keyBitValues (init, none) [.crcShared 0 slcBits false, .crcShared 0 slcBits true]
      ≠ [.crcShared 0 slcBits false, .crcShared 0 slcBits true].map pureOut :=
  memo_collision_history_dependent keyBitValues _ _ rfl (by decide +kernel)

/-- a shortcut keyed by `tobytes()` loses the number of bits used in the last octet: 28 bits and the same 28 bits followed by four zeros -/
theorem memo_keyed_by_octets_history_dependent :
    memoRun keyOctets (init, none) [.crcShared 0 slcBits false, .crcShared 0 (slcBits ++ [false, false, false, false]) false]
      ≠ [.crcShared 0 slcBits false, .crcShared 0 (slcBits ++ [false, false, false, false]) false].map pureOut :=
  memo_collision_history_dependent keyOctets _ _ (by decide +kernel) (by decide +kernel)

/-- CRC-16/CCITT-FALSE (initial value 0xFFFF), table driven, on a calculator the caller keeps -/
def ccittFalse : CrcCfg := ⟨16, 0x1021, 0xFFFF, 0, false, false⟩

/-- a shortcut keyed by `ba2int()` loses the length: with a non-zero initial value leading zeros change the checksum -/
theorem memo_keyed_by_int_history_dependent :
    memoRun keyInt (init, none) [.crcKept ccittFalse true (natToBits 16 0x0123) false, .crcKept ccittFalse true (natToBits 8 0 ++ natToBits 16 0x0123) false]
      ≠ [.crcKept ccittFalse true (natToBits 16 0x0123) false, .crcKept ccittFalse true (natToBits 8 0 ++ natToBits 16 0x0123) false].map pureOut :=
  memo_collision_history_dependent keyInt _ _ (by decide +kernel) (by decide +kernel)

/-! ## an argument in another accepted form; the wall clock at import

`CRC9.calculate_from_parts(data, …)` converts `data` with `bytes_to_bits` and then appends to the converted array IN PLACE.
That is harmless as long as the conversion hands back a new object for EVERY form of `data` its own code accepts (bytes,
bytearray, memoryview, a bit array of either bit order): the model takes the form as part of the call. -/

/-- **no accepted form of `data` is altered** (the instance of `args_unchanged` for `calculate_from_parts`), … -/
theorem conversion_copies (s : S) (h : Inv s) (form : BufForm) (data : Bits) (sn mask : Nat) (crc32 : Option Bytes) :
    (step s (.crc9Parts form data sn mask crc32)).2.2 = .crc9Parts form data sn mask crc32 :=
  args_unchanged s _ h (fun _ _ hc => nomatch hc)

/-- … so the caller can hand the very same object over again - after the first call, from any state satisfying the
invariant - and gets the same answer -/
theorem same_object_again (s : S) (h : Inv s) (form : BufForm) (data : Bits) (sn mask : Nat) (crc32 : Option Bytes) :
    (step (step s (.crc9Parts form data sn mask crc32)).1 (step s (.crc9Parts form data sn mask crc32)).2.2).2.1
      = (step s (.crc9Parts form data sn mask crc32)).2.1 := by
  rw [conversion_copies s h, (noninterference _ _ (noninterference s _ h).2).1, (noninterference s _ h).1]

/-- on whole octets the form does not matter: octets and the big-endian bit array holding them give the same CRC-9, and a
little-endian bit array gives the CRC-9 of its buffer octets -/
theorem form_irrelevant_on_octets (data : Bits) (sn mask : Nat) (crc32 : Option Bytes) :
    pureOut (.crc9Parts (.bits false) data sn mask crc32) = pureOut (.crc9Parts .octets data sn mask crc32)
    ∧ (data.length % 8 = 0 →
        pureOut (.crc9Parts (.bits true) data sn mask crc32) = pureOut (.crc9Parts .octets (byteReverse data) sn mask crc32)) := by
  refine ⟨rfl, fun h8 => ?_⟩
  have hl : (byteReverse data).length = data.length := byteReverse_length data
  show pureCrc9Parts _ _ _ _ _ = pureCrc9Parts _ _ _ _ _
  unfold pureCrc9Parts crc9Source convBig
  simp only [hl, h8, Nat.sub_zero, Nat.mod_self, List.replicate_zero, List.append_nil]

/-- the century of a GPS date is a constant of the code, **the wall clock at import is irrelevant**: replace it by anything,
every call answers the same (as `scratch_irrelevant` for the registers) -/
theorem import_clock_irrelevant (s : S) (h : Inv s) (y : Nat) (c : Call) :
    (step { s with importClock := y } c).2.1 = (step s c).2.1 := by
  rw [(noninterference _ c (h.withClock y)).1, (noninterference s c h).1]

/-- 29 February 2024 under an import clock of 1999, 2026 and 2101; 29 February 2100 does not exist whatever the clock -/
example : (step { init with importClock := 1999 } (.gpsDate 29 2 24)).2.1 = .nat 20240229
    ∧ (step { init with importClock := 2101 } (.gpsDate 29 2 24)).2.1 = .nat 20240229
    ∧ (step init (.gpsDate 29 2 0)).2.1 = .nat 20000229 ∧ (step init (.gpsDate 31 4 26)).2.1 = .err "ValueError" := by decide +kernel

/-! ### teeth: the two hazards (`stepUnsafe`, not code that ever existed) violate the statements -/

/-- ten octets of user data of a confirmed block, handed over as a big-endian bit array; serial number 5, no mask, no CRC-32 -/
def partsCall : Call := .crc9Parts (.bits false) (bytesToBits [0x12, 0x34, 0x56, 0x78, 0x9A, 0xBC, 0xDE, 0xF0, 0x0F, 0xA5]) 5 0 none

/-- with a conversion that hands back a whole-octet bit array of the requested bit order as it is, the caller's buffer is
seven bits longer after the call (the serial number `0000101`) … -/
theorem unsafe_conversion_alters_argument :
    (stepUnsafe init partsCall).2.2 = .crc9Parts (.bits false) (bytesToBits [0x12, 0x34, 0x56, 0x78, 0x9A, 0xBC, 0xDE, 0xF0, 0x0F, 0xA5]
        ++ [false, false, false, false, true, false, true]) 5 0 none
    ∧ (stepUnsafe init partsCall).2.2 ≠ partsCall := by decide +kernel

/-- … the first answer is still the right one, the same call with the same object then answers differently (a checker built
on it rejects the correct CRC-9), … -/
theorem unsafe_conversion_second_call_differs :
    (stepUnsafe init partsCall).2.1 = (step init partsCall).2.1
    ∧ (stepUnsafe (stepUnsafe init partsCall).1 (stepUnsafe init partsCall).2.2).2.1 ≠ (stepUnsafe init partsCall).2.1 := by
  decide +kernel

/-- … the buffer grows also when the call RAISES afterwards (serial number 200: the CRC-32 octets are appended before `int2ba` fails), … -/
theorem unsafe_conversion_alters_argument_when_raising :
    (stepUnsafe init (.crc9Parts (.bits false) (bytesToBits [1, 2]) 200 0 (some [0xDE, 0xAD, 0xBE, 0xEF]))).2.1 = .err "OverflowError"
    ∧ (stepUnsafe init (.crc9Parts (.bits false) (bytesToBits [1, 2]) 200 0 (some [0xDE, 0xAD, 0xBE, 0xEF]))).2.2
        = .crc9Parts (.bits false) (bytesToBits [1, 2, 0xDE, 0xAD, 0xBE, 0xEF]) 200 0 (some [0xDE, 0xAD, 0xBE, 0xEF]) := by
  decide +kernel

/-- … and no other form is affected (octets, little-endian, a bit array that does not fill its last octet) -/
theorem unsafe_conversion_other_forms_unaffected (s : S) (form : BufForm) (data : Bits) (sn mask : Nat) (crc32 : Option Bytes)
    (hf : form ≠ .bits false ∨ data.length % 8 ≠ 0) :
    stepUnsafe s (.crc9Parts form data sn mask crc32) = step s (.crc9Parts form data sn mask crc32) := by
  show (if (form == BufForm.bits false && data.length % 8 == 0) = true then _ else _) = _
  have : (form == BufForm.bits false && data.length % 8 == 0) = false := by
    rcases hf with hf | hf
    · simp [hf]
    · simp [hf]
  rw [this]; rfl

/-- a two-digit year completed with the century of the clock AT IMPORT: the same octets parse to 2024, 2124 or 1924 -/
theorem unsafe_century_depends_on_import_clock :
    (stepUnsafe { init with importClock := 2026 } (.gpsDate 29 2 24)).2.1 = .nat 20240229
    ∧ (stepUnsafe { init with importClock := 2101 } (.gpsDate 29 2 24)).2.1 = .nat 21240229
    ∧ (stepUnsafe { init with importClock := 1999 } (.gpsDate 29 2 24)).2.1 = .nat 19240229
    ∧ (stepUnsafe { init with importClock := 2101 } (.gpsDate 29 2 0)).2.1 = .err "ValueError" := by decide +kernel

/-! ## element Enums: what a member hands out is the caller's (round 4)

The members of an Enum are created once, when the module is imported, and live as long as the process: anything a member
keeps is hidden state shared by every later call.  In the code as it is `as_bits` builds a new bit array from the member's value
on every call (`int2ba(self.value, length=…)`), so nothing the caller does to a returned buffer can reach a later call. -/

/-- **element_bits_stateless.** In EVERY state (no invariant needed) the call answers the table value of that member, changes
nothing and keeps nothing: the result does not depend on the history, in particular not on what callers did with the buffers
earlier calls handed out. -/
theorem element_bits_stateless (s : S) (cls : String) (i : Nat) :
    (step s (.elementBits cls i)).2.1 = pureOut (.elementBits cls i) ∧ (step s (.elementBits cls i)).1 = s
      ∧ (step s (.elementBits cls i)).2.2 = .elementBits cls i := ⟨rfl, rfl, rfl⟩

/-- per class: every member that serialises does so to the same width, and no two members to the same bits (a corrupted
stored pattern would collide with, or differ in width from, nothing it should) -/
def elementTableOk : Bool :=
  Gen.PurityInit.elementBits.all (fun e =>
    let ok := (e.2.filter (fun m => m.1 == "")).map (·.2)
    (match ok with | [] => true | b :: _ => ok.all (fun x => x.length == b.length)) && ok.eraseDups.length == ok.length)

theorem element_table_ok : elementTableOk = true := by decide +kernel

/-- pinned (ETSI TS 102 361-1 table 9.2): the BS sourced data SYNC pattern is `DFF57D75DF5D`; the embedded-signalling
pseudo-member (-1) has no bits: `as_bits` raises -/
example : pureOut (.elementBits "sync_patterns.SyncPatterns" 1) = .bits (natToBits 48 0xDFF57D75DF5D)
    ∧ pureOut (.elementBits "sync_patterns.SyncPatterns" 0) = .bits (natToBits 48 0x755FD7DF75F7)
    ∧ (match pureOut (.elementBits "sync_patterns.SyncPatterns" 10) with | .err _ => true | _ => false) = true
    ∧ pureOut (.elementBits "sync_patterns.SyncPatterns" 11) = .err "no-such-member" := by decide +kernel

/-! ### teeth: members that keep the buffer they hand out (`stepStored`, not code that ever existed) -/

/-- the caller inverted the 48 bits it was handed for member 1; with stored buffers that is what the member holds now -/
def scribbledStore : String → Nat → Option Bits :=
  fun cls i => if cls == "sync_patterns.SyncPatterns" && i == 1 then some ((natToBits 48 0xDFF57D75DF5D).map not) else none

theorem stored_pattern_history_dependent :
    (stepStored scribbledStore init (.elementBits "sync_patterns.SyncPatterns" 1)).2.1 ≠ pureOut (.elementBits "sync_patterns.SyncPatterns" 1)
    ∧ (stepStored (fun _ _ => none) init (.elementBits "sync_patterns.SyncPatterns" 1)).2.1 = pureOut (.elementBits "sync_patterns.SyncPatterns" 1) := by
  decide +kernel

/-! ## the inventory of hidden state equals the reviewed list

`Gen.hiddenState` is regenerated from the source on every run (`tools/scan_state.py`).  The list below was
reviewed item by item; judgement per kind:

* `class-mutable`, `enum-call-value`, `module-global`: tables and singletons built at import.  Every one is probed
  after every history by the harness (`shared-state-invariant`); the library never writes to them.  The four
  `CALC` calculators, the block-code matrices and the LRRP token tables are modelled in `S`.
* `mutable-default`: evaluated once, aliased by every object built with the default; listed individually below.
  The three `patch = {}` defaults belong to the repeater storage (C20), outside the codec entry points.
* `cache`: the one `functools.lru_cache`.
* `self-mutation` (codec modules only): CRC registers (scratch, re-initialised), per-object lazily derived fields,
  builder methods (`add_option`, `context`), and the two flags discussed below.
* `param-mutation`: the documented in-place repairs, table-filling helpers that are handed a fresh table
  (`fill_encoding_table`, `set_parity`), parameters that are rebound to a private copy before the write (marked
  by the scanner), and the P2P handler's `data` (rebound to a `bytearray` copy; handlers are C18).
* `shared-mutation`: `get_token` / `get_attribute`, see below; `cls.DEBUG =` in `MBXML.from_bytes` (an attribute of the
  class assigned inside a method - `cls.X = …`, `ClassName.X = …`, `type(self).X = …`, `self.__class__.X = …`,
  `function.attr = …`, `globals()[…] = …` are all inventoried, for every module).
* `ambient-read`: `date.today()` inside `GPSData.zero()` (a default argument), `datetime.strptime` on an argument.
* `ambient-read-at-import`: a clock / randomness / environment CALL evaluated when a module is imported (module level, class
  body, decorator, parameter default), directly or through a function of the package.  Exactly one: the default
  `GPSData.zero()` of `LocationProtocol.__init__`.  A second one is how a parser comes to depend on the wall clock of the
  interpreter at import time (`CENTURY = date.today().year // 100 * 100`); the harness compares every entry point under
  eight clock settings applied BEFORE the import (model: `S.importClock`, `import_clock_irrelevant` below).
* `returns-argument`: a function that may hand back one of its parameters itself.  The caller of such a function holds the
  ARGUMENT: an in-place operation on the "result" lands in the caller's buffer (`x = bytes_to_bits(data); x += …`), which is
  why the scanner lets the taint of `param-mutation` flow through them.  On the reviewed tree: the documented in-place
  repairs, `correct_numpy_array` (argument handed back untouched), table helpers working on their caller's fresh table,
  identities of the not-interleaved IPSC packet types, and handlers / storage / tracker (C08, C18, C20).  No conversion of
  `utils/bits_bytes.py` is among them: each returns a new object for every accepted form of its argument (harness: identity
  and shared-memory test between argument and result for every form; model: `Call.crc9Parts`, `conversion_copies` below).
-/

def reviewed : List (String × String × String × String) := [
  ("okdmr/dmrlib/etsi/crc/crc.py", "BitCrcCalculator.calculate_checksum", "self-mutation", "self._crc_register: self._crc_register.update()"),
  ("okdmr/dmrlib/etsi/crc/crc.py", "BitCrcRegister._process_bits", "self-mutation", "self: self.register op="),
  ("okdmr/dmrlib/etsi/crc/crc.py", "BitCrcRegisterBase.digest", "self-mutation", "self: self.reverse()"),
  ("okdmr/dmrlib/etsi/crc/crc.py", "BitCrcRegisterBase.init", "self-mutation", "self: self.register ="),
  ("okdmr/dmrlib/etsi/crc/crc.py", "BitCrcRegisterBase.reverse", "self-mutation", "rev: rev.reverse()"),
  ("okdmr/dmrlib/etsi/crc/crc.py", "BitCrcRegisterBase.reverse", "self-mutation", "self: self.register ="),
  -- since a980052 the byte reversal works on a copy (`bits = bits.copy()`): reviewed, modelled by `fedBits`
  ("okdmr/dmrlib/etsi/crc/crc.py", "BitCrcRegisterBase.update", "param-mutation", "bits: bits.bytereverse() [parameter is also rebound in the function]"),
  ("okdmr/dmrlib/etsi/crc/crc.py", "Crc16", "enum-call-value", "ETSI_DMR: call BitCrcConfiguration"),
  ("okdmr/dmrlib/etsi/crc/crc.py", "Crc32", "enum-call-value", "ETSI_DMR: call BitCrcConfiguration"),
  ("okdmr/dmrlib/etsi/crc/crc.py", "Crc7", "enum-call-value", "ETSI_DMR: call BitCrcConfiguration"),
  ("okdmr/dmrlib/etsi/crc/crc.py", "Crc8", "enum-call-value", "ETSI_DMR: call BitCrcConfiguration"),
  ("okdmr/dmrlib/etsi/crc/crc.py", "Crc9", "enum-call-value", "ETSI_DMR: call BitCrcConfiguration"),
  ("okdmr/dmrlib/etsi/crc/crc.py", "TableBasedBitCrcRegister._process_bits", "self-mutation", "self: self.register ="),
  -- shared list of mutable bit arrays per (width, polynomial): modelled (`tableCache`), only ever read
  ("okdmr/dmrlib/etsi/crc/crc.py", "bits_create_lookup_table", "cache", "@functools.lru_cache"),
  ("okdmr/dmrlib/etsi/crc/crc16.py", "CRC16", "class-mutable", "CALC: call BitCrcCalculator"),
  ("okdmr/dmrlib/etsi/crc/crc32.py", "CRC32", "class-mutable", "CALC: call BitCrcCalculator"),
  ("okdmr/dmrlib/etsi/crc/crc8.py", "CRC8", "class-mutable", "CALC: call BitCrcCalculator"),
  ("okdmr/dmrlib/etsi/crc/crc9.py", "CRC9", "class-mutable", "CALC: call BitCrcCalculator"),
  ("okdmr/dmrlib/etsi/fec/bptc_196_96.py", "BPTC19696", "class-mutable", "DEINTERLEAVE_INFO_BITS_ONLY_MAP: call dict"),
  ("okdmr/dmrlib/etsi/fec/bptc_196_96.py", "BPTC19696", "class-mutable", "FULL_DEINTERLEAVING_MAP: call dict"),
  ("okdmr/dmrlib/etsi/fec/bptc_196_96.py", "BPTC19696", "class-mutable", "FULL_INTERLEAVING_MAP: call dict"),
  ("okdmr/dmrlib/etsi/fec/bptc_196_96.py", "BPTC19696", "class-mutable", "INTERLEAVE_INFO_BITS_ONLY_MAP: call dict"),
  ("okdmr/dmrlib/etsi/fec/bptc_196_96.py", "BPTC19696", "class-mutable", "INTERLEAVING_INDICES: dict"),
  ("okdmr/dmrlib/etsi/fec/bptc_196_96.py", "BPTC19696.fill_encoding_table", "param-mutation", "table: table[rownum - 1][..] ="),
  -- table helper: fills and returns the table its caller has just made (make_encoding_table); no caller hands it a buffer of its own caller
  ("okdmr/dmrlib/etsi/fec/bptc_196_96.py", "BPTC19696.fill_encoding_table", "returns-argument", "table"),
  -- in place only with deinterleaved=True, where it returns that very buffer (treated like the Hamming repair); otherwise works on the copy made by deinterleave_all_bits
  ("okdmr/dmrlib/etsi/fec/bptc_196_96.py", "BPTC19696.repair_if_necessary", "param-mutation", "bits: bits[..] = [parameter is also rebound in the function]"),
  -- with deinterleaved=True returns its argument - the documented in-place repair; otherwise `bits` is rebound to the copy made by deinterleave_all_bits first (harness: bptc.repair / bptc.repair_deinterleaved, identity test between argument and result)
  ("okdmr/dmrlib/etsi/fec/bptc_196_96.py", "BPTC19696.repair_if_necessary", "returns-argument", "bits [parameter is also rebound in the function]"),
  ("okdmr/dmrlib/etsi/fec/golay_20_8_7.py", "Golay2087", "class-mutable", "CORRECT_SYNDROME: call numpy.array"),
  ("okdmr/dmrlib/etsi/fec/golay_20_8_7.py", "Golay2087", "class-mutable", "GENERATOR_MATRIX: call numpy.array"),
  ("okdmr/dmrlib/etsi/fec/golay_20_8_7.py", "Golay2087", "class-mutable", "PARITY_CHECK_MATRIX: call derive_parity_check_matrix_from_generator"),
  ("okdmr/dmrlib/etsi/fec/hamming_13_9_3.py", "Hamming1393", "class-mutable", "CORRECT_SYNDROME: call numpy.array"),
  ("okdmr/dmrlib/etsi/fec/hamming_13_9_3.py", "Hamming1393", "class-mutable", "GENERATOR_MATRIX: call numpy.array"),
  ("okdmr/dmrlib/etsi/fec/hamming_13_9_3.py", "Hamming1393", "class-mutable", "PARITY_CHECK_MATRIX: call derive_parity_check_matrix_from_generator"),
  ("okdmr/dmrlib/etsi/fec/hamming_15_11_3.py", "Hamming15113", "class-mutable", "CORRECT_SYNDROME: call numpy.array"),
  ("okdmr/dmrlib/etsi/fec/hamming_15_11_3.py", "Hamming15113", "class-mutable", "GENERATOR_MATRIX: call numpy.array"),
  ("okdmr/dmrlib/etsi/fec/hamming_15_11_3.py", "Hamming15113", "class-mutable", "PARITY_CHECK_MATRIX: call derive_parity_check_matrix_from_generator"),
  ("okdmr/dmrlib/etsi/fec/hamming_16_11_4.py", "Hamming16114", "class-mutable", "CORRECT_SYNDROME: call numpy.array"),
  ("okdmr/dmrlib/etsi/fec/hamming_16_11_4.py", "Hamming16114", "class-mutable", "GENERATOR_MATRIX: call numpy.array"),
  ("okdmr/dmrlib/etsi/fec/hamming_16_11_4.py", "Hamming16114", "class-mutable", "PARITY_CHECK_MATRIX: call derive_parity_check_matrix_from_generator"),
  ("okdmr/dmrlib/etsi/fec/hamming_17_12_3.py", "Hamming17123", "class-mutable", "CORRECT_SYNDROME: call numpy.array"),
  ("okdmr/dmrlib/etsi/fec/hamming_17_12_3.py", "Hamming17123", "class-mutable", "GENERATOR_MATRIX: call numpy.array"),
  ("okdmr/dmrlib/etsi/fec/hamming_17_12_3.py", "Hamming17123", "class-mutable", "PARITY_CHECK_MATRIX: call derive_parity_check_matrix_from_generator"),
  ("okdmr/dmrlib/etsi/fec/hamming_7_4_3.py", "Hamming743", "class-mutable", "CORRECT_SYNDROME: call numpy.array"),
  ("okdmr/dmrlib/etsi/fec/hamming_7_4_3.py", "Hamming743", "class-mutable", "GENERATOR_MATRIX: call numpy.array"),
  ("okdmr/dmrlib/etsi/fec/hamming_7_4_3.py", "Hamming743", "class-mutable", "PARITY_CHECK_MATRIX: call derive_parity_check_matrix_from_generator"),
  -- THE documented in-place repair: returns the repaired argument (modelled, `cac_buffer_is_result`)
  ("okdmr/dmrlib/etsi/fec/hamming_common.py", "HammingCommon.check_and_correct", "param-mutation", "bits: bits.invert()"),
  -- THE documented in-place repair: hands back the repaired argument (`cac_buffer_is_result`)
  ("okdmr/dmrlib/etsi/fec/hamming_common.py", "HammingCommon.check_and_correct", "returns-argument", "bits"),
  -- hands its argument back UNTOUCHED when the word cannot be repaired (works on a bitarray copy otherwise): reviewed aliasing, listed in ALIAS_OK of harness/props/c19.py
  ("okdmr/dmrlib/etsi/fec/hamming_common.py", "HammingCommon.correct_numpy_array", "returns-argument", "bits"),
  ("okdmr/dmrlib/etsi/fec/quadratic_residue_16_7_6.py", "QuadraticResidue1676", "class-mutable", "CORRECT_SYNDROME: call numpy.array"),
  ("okdmr/dmrlib/etsi/fec/quadratic_residue_16_7_6.py", "QuadraticResidue1676", "class-mutable", "GENERATOR_MATRIX: call numpy.array"),
  ("okdmr/dmrlib/etsi/fec/quadratic_residue_16_7_6.py", "QuadraticResidue1676", "class-mutable", "PARITY_CHECK_MATRIX: call derive_parity_check_matrix_from_generator"),
  ("okdmr/dmrlib/etsi/fec/trellis.py", "Trellis34", "class-mutable", "TRELLIS34_CONSTELLATION_POINTS: dict"),
  ("okdmr/dmrlib/etsi/fec/trellis.py", "Trellis34", "class-mutable", "TRELLIS34_CONSTELLATION_POINTS_REVERSE: call dict"),
  ("okdmr/dmrlib/etsi/fec/trellis.py", "Trellis34", "class-mutable", "TRELLIS34_DIBITS: dict"),
  ("okdmr/dmrlib/etsi/fec/trellis.py", "Trellis34", "class-mutable", "TRELLIS34_DIBITS_REVERSE: call dict"),
  ("okdmr/dmrlib/etsi/fec/trellis.py", "Trellis34", "class-mutable", "TRELLIS34_ENCODER_STATE_TRANSITION: list"),
  ("okdmr/dmrlib/etsi/fec/trellis.py", "Trellis34", "class-mutable", "TRELLIS34_INTERLEAVE_MATRIX: list"),
  ("okdmr/dmrlib/etsi/fec/vbptc_128_72.py", "VBPTC12873", "class-mutable", "DEINTERLEAVE_5BIT_CHECKSUM: call dict"),
  ("okdmr/dmrlib/etsi/fec/vbptc_128_72.py", "VBPTC12873", "class-mutable", "DEINTERLEAVE_INFO_BITS_ONLY_MAP: call dict"),
  ("okdmr/dmrlib/etsi/fec/vbptc_128_72.py", "VBPTC12873", "class-mutable", "FULL_DEINTERLEAVING_MAP: call dict"),
  ("okdmr/dmrlib/etsi/fec/vbptc_128_72.py", "VBPTC12873", "class-mutable", "FULL_INTERLEAVING_MAP: call dict"),
  ("okdmr/dmrlib/etsi/fec/vbptc_128_72.py", "VBPTC12873", "class-mutable", "INTERLEAVE_INFO_BITS_ONLY_MAP: call dict"),
  ("okdmr/dmrlib/etsi/fec/vbptc_128_72.py", "VBPTC12873", "class-mutable", "INTERLEAVING_INDICES: dict"),
  ("okdmr/dmrlib/etsi/fec/vbptc_128_72.py", "VBPTC12873.fill_encoding_table", "param-mutation", "table: table[row_no - 1][..] ="),
  -- table helper: fills and returns the table its caller has just made
  ("okdmr/dmrlib/etsi/fec/vbptc_128_72.py", "VBPTC12873.fill_encoding_table", "returns-argument", "table"),
  ("okdmr/dmrlib/etsi/fec/vbptc_128_72.py", "VBPTC12873.set_parity", "param-mutation", "column: column[..] = [parameter is also rebound in the function]"),
  -- table helper on a row / column of the caller's fresh table (a 7-element column is rebound to an appended copy)
  ("okdmr/dmrlib/etsi/fec/vbptc_128_72.py", "VBPTC12873.set_parity", "returns-argument", "column [parameter is also rebound in the function]"),
  ("okdmr/dmrlib/etsi/fec/vbptc_32_11.py", "VBPTC3211", "class-mutable", "DEINTERLEAVE_INFO_BITS_ONLY_MAP: call dict"),
  ("okdmr/dmrlib/etsi/fec/vbptc_32_11.py", "VBPTC3211", "class-mutable", "FULL_DEINTERLEAVING_MAP: call dict"),
  ("okdmr/dmrlib/etsi/fec/vbptc_32_11.py", "VBPTC3211", "class-mutable", "FULL_INTERLEAVING_MAP: call dict"),
  ("okdmr/dmrlib/etsi/fec/vbptc_32_11.py", "VBPTC3211", "class-mutable", "INTERLEAVE_INFO_BITS_ONLY_MAP: call dict"),
  ("okdmr/dmrlib/etsi/fec/vbptc_32_11.py", "VBPTC3211", "class-mutable", "INTERLEAVING_INDICES: dict"),
  ("okdmr/dmrlib/etsi/fec/vbptc_32_11.py", "VBPTC3211.fill_encoding_table", "param-mutation", "table: table[row_no - 1][..] ="),
  -- table helper: fills and returns the table its caller has just made
  ("okdmr/dmrlib/etsi/fec/vbptc_32_11.py", "VBPTC3211.fill_encoding_table", "returns-argument", "table"),
  ("okdmr/dmrlib/etsi/fec/vbptc_32_11.py", "VBPTC3211.set_parity", "param-mutation", "column: column[..] ="),
  -- table helper on a column of the caller's fresh table
  ("okdmr/dmrlib/etsi/fec/vbptc_32_11.py", "VBPTC3211.set_parity", "returns-argument", "column"),
  ("okdmr/dmrlib/etsi/fec/vbptc_68_28.py", "VBPTC6828", "class-mutable", "DEINTERLEAVE_8BIT_CHECKSUM: call dict"),
  ("okdmr/dmrlib/etsi/fec/vbptc_68_28.py", "VBPTC6828", "class-mutable", "DEINTERLEAVE_INFO_BITS_ONLY_MAP: call dict"),
  ("okdmr/dmrlib/etsi/fec/vbptc_68_28.py", "VBPTC6828", "class-mutable", "FULL_DEINTERLEAVING_MAP: call dict"),
  ("okdmr/dmrlib/etsi/fec/vbptc_68_28.py", "VBPTC6828", "class-mutable", "FULL_INTERLEAVING_MAP: call dict"),
  ("okdmr/dmrlib/etsi/fec/vbptc_68_28.py", "VBPTC6828", "class-mutable", "INTERLEAVE_INFO_BITS_ONLY_MAP: call dict"),
  ("okdmr/dmrlib/etsi/fec/vbptc_68_28.py", "VBPTC6828", "class-mutable", "INTERLEAVING_INDICES: dict"),
  ("okdmr/dmrlib/etsi/fec/vbptc_68_28.py", "VBPTC6828.fill_encoding_table", "param-mutation", "table: table[row_no - 1][..] ="),
  -- table helper: fills and returns the table its caller has just made
  ("okdmr/dmrlib/etsi/fec/vbptc_68_28.py", "VBPTC6828.fill_encoding_table", "returns-argument", "table"),
  ("okdmr/dmrlib/etsi/fec/vbptc_68_28.py", "VBPTC6828.set_parity", "param-mutation", "column: column[..] = [parameter is also rebound in the function]"),
  -- table helper on a row / column of the caller's fresh table (rebound to an appended copy when short)
  ("okdmr/dmrlib/etsi/fec/vbptc_68_28.py", "VBPTC6828.set_parity", "returns-argument", "column [parameter is also rebound in the function]"),
  -- aliased as self.full_bits, never written by the library: modelled (`burstBits`)
  -- (round 5: the row now says how the default is used) stored AS IS: every Burst built without full_bits holds the one default bitarray - the library never writes to it, a caller who edits burst.full_bits in place changes every later Burst(); reported (construction probe, c19.aliases.json)
  ("okdmr/dmrlib/etsi/layer2/burst.py", "Burst.__init__", "mutable-default", "full_bits = bitarray([0] * 264) [call bitarray] -> self.full_bits: as is; self.info_bits_original: derived value; self.voice_bits: derived value"),
  -- lazy per-object memo of a value derived from the object's own data
  ("okdmr/dmrlib/etsi/layer2/burst.py", "Burst.target_radio_id", "self-mutation", "self: self._target_radio_id =; self._target_radio_id_resolve_attempt ="),
  ("okdmr/dmrlib/etsi/layer2/pdu/csbk.py", "CSBK", "class-mutable", "TSCC_BACKOFF_MAP: dict"),
  -- only sliced: modelled (`csbkParams`)
  -- (round 5) stored AS IS, only sliced by the library; same caveat as Burst.full_bits (construction probe, c19.aliases.json)
  ("okdmr/dmrlib/etsi/layer2/pdu/csbk.py", "CSBK.__init__", "mutable-default", "broadcast_params = bitarray() [call bitarray] -> self.broadcast_params: as is"),
  -- per-object: fills crc from the object's own fields (called by the constructor)
  ("okdmr/dmrlib/etsi/layer2/pdu/csbk.py", "CSBK.calculate_crc_ccit", "self-mutation", "self: self.crc ="),
  -- only concatenated: modelled (`dhPadding`)
  -- (round 5) stored AS IS, only concatenated by the library; same caveat (construction probe, c19.aliases.json)
  ("okdmr/dmrlib/etsi/layer2/pdu/data_header.py", "DataHeader.__init__", "mutable-default", "bit_padding = bitarray() [call bitarray] -> self.bit_padding: as is"),
  -- sliced into a copy on construction: modelled (`soReserved`)
  -- (round 5) the ONE mutable default that is copied on construction (slice): objects built with the default own their two bits.  A change to `as is` changes this row
  ("okdmr/dmrlib/etsi/layer3/elements/service_options.py", "ServiceOptions.__init__", "mutable-default", "reserved = bitarray('00') [call bitarray] -> self.reserved: slice copy"),
  -- the parameter name is rebound to the new object before the attribute writes: no write to the argument
  ("okdmr/dmrlib/hytera/hytera_ipsc.py", "HyteraIPSC.from_ipsc_bytes", "param-mutation", "ipsc: ipsc.first_header =; ipsc.payload_pad =; ipsc.reserved_1 =; ipsc.reserved_2a =; ipsc.reserved_2b =; ipsc.reserved_3 =; ipsc.reserved_7a =; ipsc.second_header = [parameter is also rebound in the function]"),
  -- the parameter name is rebound to the NEW HyteraIPSC object, which is what is returned; the argument octets are only sliced
  ("okdmr/dmrlib/hytera/hytera_ipsc.py", "HyteraIPSC.from_ipsc_bytes", "returns-argument", "ipsc [parameter is also rebound in the function]"),
  -- returns an int argument as it is (immutable)
  ("okdmr/dmrlib/hytera/hytera_ipsc.py", "HyteraIPSC.from_kaitai.<locals>.get_kaitai_val", "returns-argument", "attribute"),
  -- IPSC sync is not interleaved: identity, nothing is written; not a catalogued entry point (Burst.deinterleave does not dispatch to it)
  ("okdmr/dmrlib/hytera/hytera_ipsc_sync.py", "HyteraIPSCSync.deinterleave", "returns-argument", "bits"),
  -- IPSC wake-up is not interleaved: identity, nothing is written; not a catalogued entry point
  ("okdmr/dmrlib/hytera/hytera_ipsc_wakeup.py", "HyteraIPSCWakeup.deinterleave", "returns-argument", "bits"),
  ("okdmr/dmrlib/hytera/pdu/hstrp.py", "HSTRPOptions.add_option", "self-mutation", "self.options: self.options.append()"),
  ("okdmr/dmrlib/hytera/pdu/location_protocol.py", "GPSData.__init__", "ambient-read", "datetime.date"),
  ("okdmr/dmrlib/hytera/pdu/location_protocol.py", "GPSData.__init__", "ambient-read", "datetime.time"),
  -- date.today(): only inside the default argument above / explicit zero()
  ("okdmr/dmrlib/hytera/pdu/location_protocol.py", "GPSData.zero", "ambient-read", "datetime.date.today"),
  -- date.today(): only inside the default argument above / explicit zero()
  ("okdmr/dmrlib/hytera/pdu/location_protocol.py", "GPSData.zero", "ambient-read", "datetime.time"),
  -- GPSData.zero() evaluated at import (date.today()); immutable afterwards; reaches as_bytes of a default-built StandardReport only
  -- (round 5) stored AS IS: every LocationProtocol built without gpsdata holds the one GPSData.zero() of the import; same caveat (construction probe, c19.aliases.json)
  ("okdmr/dmrlib/hytera/pdu/location_protocol.py", "LocationProtocol.__init__", "mutable-default", "gpsdata = GPSData.zero() [call GPSData.zero] -> self.gpsdata: as is"),
  -- the ONE wall-clock read at import: the default GPSData.zero() carries the import day; reaches as_bytes of a default-built StandardReport only (harness: lp.default_gps compares it with the import date; the eight clock settings are applied before import). No parse path reads it
  ("okdmr/dmrlib/hytera/pdu/location_protocol.py", "LocationProtocol.__init__.<default>", "ambient-read-at-import", "datetime.date.today() through GPSData.zero()"),
  -- aliased as self.status_change_settings, only iterated: modelled (`rcpSettings`)
  -- (round 5) stored AS IS, only iterated by the library; same caveat (construction probe, c19.aliases.json)
  ("okdmr/dmrlib/hytera/pdu/radio_control_protocol.py", "RadioControlProtocol.__init__", "mutable-default", "status_change_settings = dict() [call dict] -> self.status_change_settings: as is"),
  ("okdmr/dmrlib/hytera/snmp.py", "<module>", "module-global", "community: call sys.argv[2].lower"),
  ("okdmr/dmrlib/hytera/snmp.py", "SNMP", "class-mutable", "ALL_FLOATS: list"),
  ("okdmr/dmrlib/hytera/snmp.py", "SNMP", "class-mutable", "ALL_KNOWN: list"),
  ("okdmr/dmrlib/hytera/snmp.py", "SNMP", "class-mutable", "ALL_STRINGS: list"),
  ("okdmr/dmrlib/hytera/snmp.py", "SNMP", "class-mutable", "READABLE_LABELS: dict"),
  -- `data` is rebound to a slice (bytes: a copy) before it is returned
  ("okdmr/dmrlib/motorola/automatic_registration_service.py", "AutomaticRegistrationService.read_len_val", "returns-argument", "data [parameter is also rebound in the function]"),
  ("okdmr/dmrlib/motorola/automatic_registration_service.py", "ResponseSecondHeader.context", "self-mutation", "self: self.first_header ="),
  ("okdmr/dmrlib/motorola/lrrp.py", "LRRP", "class-mutable", "ANSWER_AND_REPORT_MESSAGES_ELEMENT_TOKENS: dict"),
  ("okdmr/dmrlib/motorola/lrrp.py", "LRRP", "class-mutable", "ATTRIBUTE_TOKENS: dict"),
  ("okdmr/dmrlib/motorola/lrrp.py", "LRRP", "class-mutable", "COMMON_ELEMENT_TOKENS: dict"),
  ("okdmr/dmrlib/motorola/lrrp.py", "LRRP", "class-mutable", "LRRP_CONSTANT_TABLE: dict"),
  ("okdmr/dmrlib/motorola/lrrp.py", "LRRP", "class-mutable", "QUERY_REQUEST_MESSAGES_ELEMENT_TOKENS: dict"),
  -- hands out the class-level attribute table itself (inside a fresh list): the library's own callers only read it (get_attribute copies the definition it returns); the table is in the model state (`lrrpAttributes`, invariant `Inv`) and in the run-time probe, a write through it by the library would break both.  A CALLER that edits the table it was handed edits library state: out of the property (no library call), noted as a residual risk
  ("okdmr/dmrlib/motorola/lrrp.py", "LRRP.get_known_attributes", "returns-shared", "cls.ATTRIBUTE_TOKENS"),
  -- as above (`lrrpRequestTokens`)
  ("okdmr/dmrlib/motorola/lrrp.py", "LRRP.get_known_tokens", "returns-shared", "cls.ANSWER_AND_REPORT_MESSAGES_ELEMENT_TOKENS"),
  -- as above (`lrrpRequestTokens`)
  ("okdmr/dmrlib/motorola/lrrp.py", "LRRP.get_known_tokens", "returns-shared", "cls.COMMON_ELEMENT_TOKENS"),
  -- as above (`lrrpRequestTokens`)
  ("okdmr/dmrlib/motorola/lrrp.py", "LRRP.get_known_tokens", "returns-shared", "cls.QUERY_REQUEST_MESSAGES_ELEMENT_TOKENS"),
  -- class flag DEBUG: printing only, reset at the start of every from_bytes: in `S`, unconstrained, read by nothing modelled (was listed as self-mutation of `cls` before the scanner told class methods apart)
  ("okdmr/dmrlib/motorola/mbxml.py", "MBXML.from_bytes", "shared-mutation", "cls: cls.DEBUG ="),
  ("okdmr/dmrlib/motorola/mbxml.py", "MBXML.write_infotime", "ambient-read", "datetime.datetime"),
  ("okdmr/dmrlib/motorola/mbxml.py", "MBXML.write_infotime", "ambient-read", "datetime.datetime.strptime"),
  -- over-approximation of the scanner (taint flows through `copy`): what is returned is a SHALLOW COPY of the attribute definition whose fields are scalars (name, token id, value): nothing of the table is reachable for writing through it; entry point lrrp.get_attribute is run with its result held and overwritten
  ("okdmr/dmrlib/motorola/mbxml.py", "MBXMLDocument.get_attribute", "returns-shared", "cls.get_known_attributes()"),
  -- writes to a shallow copy of the definition (token_id, value are rebinding of scalars): no shared write
  ("okdmr/dmrlib/motorola/mbxml.py", "MBXMLDocument.get_attribute", "shared-mutation", "cls.get_known_attributes(): a.token_id =; a.value ="),
  -- over-approximation (taint through `copy`): the returned token is a shallow copy whose only mutable field, the attribute list, is re-created since d571898 (`t.attributes = list(t.attributes)`); modelled (`getTokenAux`); entry points lrrp.get_token / get_token_twice hold the result and compare later calls
  ("okdmr/dmrlib/motorola/mbxml.py", "MBXMLDocument.get_token", "returns-shared", "cls.get_known_tokens()"),
  -- since d571898 the attribute list is copied before remove/append: modelled (`getTokenAux`, buggy variant `stepBuggy`)
  ("okdmr/dmrlib/motorola/mbxml.py", "MBXMLDocument.get_token", "shared-mutation", "cls.get_known_tokens(): t.attributes =; t.attributes.append(); t.attributes.remove(); t.token_id =; t.value ="),
  -- header flag recomputed from the other fields on every call: modelled (`tmsFlag`, idempotent)
  ("okdmr/dmrlib/motorola/text_messaging_service.py", "TextMessagingService.as_bytes", "self-mutation", "self.header: self.header.set_has_more_headers()"),
  ("okdmr/dmrlib/protocols/hytera/p2p_datagram_protocol.py", "P2PDatagramProtocol", "class-mutable", "KNOWN_PACKET_TYPES: list"),
  ("okdmr/dmrlib/protocols/hytera/p2p_datagram_protocol.py", "P2PDatagramProtocol.get_redirect_packet", "param-mutation", "data: data Add= (in place if the object is mutable); data[..] = [parameter is also rebound in the function]"),
  -- protocol handler (C18), `data` rebound to a bytearray copy first
  ("okdmr/dmrlib/protocols/hytera/p2p_datagram_protocol.py", "P2PDatagramProtocol.get_redirect_packet", "returns-argument", "data [parameter is also rebound in the function]"),
  ("okdmr/dmrlib/protocols/hytera/p2p_datagram_protocol.py", "P2PDatagramProtocol.handle_dmr_request", "param-mutation", "data: data.append(); data[..] =; data[..] op= [parameter is also rebound in the function]"),
  ("okdmr/dmrlib/protocols/hytera/p2p_datagram_protocol.py", "P2PDatagramProtocol.handle_ping", "param-mutation", "data: data[..] = [parameter is also rebound in the function]"),
  ("okdmr/dmrlib/protocols/hytera/p2p_datagram_protocol.py", "P2PDatagramProtocol.handle_rdac_request", "param-mutation", "data: data.append(); data[..] =; data[..] op= [parameter is also rebound in the function]"),
  ("okdmr/dmrlib/protocols/hytera/p2p_datagram_protocol.py", "P2PDatagramProtocol.handle_registration", "param-mutation", "data: data.append(); data[..] =; data[..] op= [parameter is also rebound in the function]"),
  -- storage (C20): returns the value it was given to store
  ("okdmr/dmrlib/storage/repeater.py", "Repeater.attr", "returns-argument", "value"),
  -- storage (C20): the default dict is only read (iterated), never stored
  ("okdmr/dmrlib/storage/repeater.py", "Repeater.patch", "mutable-default", "patch = {} [dict] -> not stored in an attribute"),
  -- storage (C20): the default dict is only handed on to Repeater.patch, never stored
  ("okdmr/dmrlib/storage/repeater_storage.py", "RepeaterStorage.match_incoming", "mutable-default", "patch = {} [dict] -> not stored in an attribute"),
  -- storage (C20): the default dict is only handed on, never stored
  ("okdmr/dmrlib/storage/repeater_storage.py", "RepeaterStorage.save", "mutable-default", "patch = {} [dict] -> not stored in an attribute"),
  -- storage (C20): returns the repeater it was given to save
  ("okdmr/dmrlib/storage/repeater_storage.py", "RepeaterStorage.save", "returns-argument", "rpt"),
  -- transmission tracker (C08): sequence / stream numbers are set on the burst object that process_packet hands back (the argument); outside the codec entry points
  ("okdmr/dmrlib/transmission/timeslot.py", "Timeslot.process_burst", "param-mutation", "dmrdata: self.transmission.process_packet(dmrdata).set_seq..()"),
  ("okdmr/dmrlib/transmission/transmission.py", "Transmission.fix_voice_burst_type", "param-mutation", "burst: burst.set_is_voice()"),
  -- transmission tracker (C08): returns the burst it (possibly) re-typed
  ("okdmr/dmrlib/transmission/transmission.py", "Transmission.fix_voice_burst_type", "returns-argument", "burst"),
  -- transmission tracker (C08): returns the burst it was given
  ("okdmr/dmrlib/transmission/transmission.py", "Transmission.process_packet", "returns-argument", "burst [parameter is also rebound in the function]"),
  -- since 2d27283 swaps a private copy (`data = bytearray(data)`): modelled (`byteswap`)
  ("okdmr/dmrlib/utils/bits_bytes.py", "byteswap_bytearray", "param-mutation", "data: data[..] = [parameter is also rebound in the function]"),
  ("okdmr/dmrlib/utils/log_color_formatter.py", "LogColorFormatter", "class-mutable", "FORMATS: dict")]

/-- a NEW mutable default, cache, class-level container, in-place write to a parameter or to shared / own state,
or ambient read anywhere in the package (or the disappearance of a reviewed one) breaks this theorem -/
theorem inventory_baseline : Gen.hiddenState = reviewed := by decide +kernel

end Dmr.C19
