import DmrVerif.Props.C12
import DmrVerif.Props.C12a
import DmrVerif.Lemmas.TranslHytera

/-!
# C12t — the SOURCE of the two Hytera checksum functions, translated, equals the model of C12 (and C04)

`Gen/TranslHytera.lean` is regenerated on every run by `tools/py2lean.py` from `inspect.getsource` of the live
`HDAP.get_hdap_checksum` (hdap.py) and `HRNP.calculate_checksum` (hrnp.py); semantics of the Python subset:
`Model/Py.lean`.  Both equalities hold for ALL byte strings (no hypothesis at all: every intermediate value is reduced
below 256 / 65536 by the code itself), the fuel bound of the `while check >> 16` loop (`check + 1` passes) is proved
sufficient, and the headline checksum theorems of C12 are restated about the translated source (`transl_*`).
-/

namespace Dmr.C12t
open Dmr Dmr.Py Dmr.Hytera Dmr.Transl.Hytera

/-- `HDAP.get_hdap_checksum(checked_data)` is the one octet `hdapChecksum checked_data` of the model -/
theorem get_hdap_checksum_eq (d : Bytes) : get_hdap_checksum d = .ok [hdapChecksum d] :=
  Transl.Hytera.get_hdap_checksum_eq d

/-- `HRNP.calculate_checksum(checked_data)` is the model's check value `hrnpCheck`, big endian, two octets; it never
raises and the `while` loop never runs out of fuel -/
theorem calculate_checksum_eq (d : Bytes) : calculate_checksum d = .ok (be2 (hrnpCheck d)) :=
  Transl.Hytera.calculate_checksum_eq d

/-- `C12.checksum_spec` about the translated source: the HDAP checksum is `((255 − Σ mod 256) + 0x33) mod 256` -/
theorem transl_hdap_checksum_spec (bs : Bytes) :
    get_hdap_checksum bs = .ok [((255 - (bs.sum % 256)) + 0x33) % 256] := by
  rw [get_hdap_checksum_eq, C12.checksum_spec]

/-- `C12.ones_complement_identity` about the translated source: put what the translated `calculate_checksum` returns for
header ++ inner bytes into the checksum field, and the 16-bit words of the packet fold to `0xFFFF` -/
theorem transl_hrnp_ones_complement (h v block opcode src dst pn : Nat) (inner : Bytes) :
    ∃ c, calculate_checksum (hrnpHead [h] [v] block opcode src dst pn (12 + inner.length) ++ inner) = .ok c ∧
      c.length = 2 ∧
      fold16 (words16 (hrnpHead [h] [v] block opcode src dst pn (12 + inner.length) ++ c ++ inner)).sum = 0xFFFF := by
  refine ⟨_, calculate_checksum_eq _, rfl, ?_⟩
  exact C12.ones_complement_identity h v block opcode src dst pn inner

/-- the checksum of the translated source is a 16-bit value -/
theorem transl_hrnp_checksum_octets (d : Bytes) :
    ∃ a b, calculate_checksum d = .ok [a, b] ∧ a < 256 ∧ b < 256 := by
  refine ⟨hrnpCheck d / 256 % 256, hrnpCheck d % 256, calculate_checksum_eq d, ?_, ?_⟩ <;> omega

/-! ## non-vacuity: kernel evaluation of the translated definitions; expected values computed with the real code -/

example : get_hdap_checksum [126, 4, 0, 254, 32, 16, 0, 0, 0, 12, 96, 225] = .ok [53] ∧
    get_hdap_checksum [] = .ok [50] ∧
    calculate_checksum [126, 4, 0, 254, 32, 16, 0, 0, 0, 12, 96, 225] = .ok [0, 0] ∧
    calculate_checksum [126, 4, 0, 254, 32, 16, 0, 0, 0, 12, 96] = .ok [0, 225] ∧
    calculate_checksum [] = .ok [255, 255] ∧
    calculate_checksum [255, 255, 255, 255, 255, 255, 255, 255] = .ok [0, 0] := by decide +kernel

end Dmr.C12t
