import DmrVerif.Lemmas.PduDataHeader
import DmrVerif.Lemmas.PduFullLc

/-!
# C03 — part 2: data header (five formats), full link control (seven opcodes, 96 / 77 bits)

Same shape as part 1: `X_enc_length`, `X_dec_enc` (norm = the constructor's CRC rule `init`, which can
change only an all-zero CRC field), `X_fixpoint`, `X_dec_total`.
-/

namespace Dmr.C03a
open Dmr Dmr.Gen

/-! ## data header -/

/-- the five data packet formats with a layout are defined `DataPacketFormats` members -/
theorem dh_formats_defined :
    [DataHeader.dpfUdt, DataHeader.dpfResponse, DataHeader.dpfUnconfirmed, DataHeader.dpfConfirmed,
     DataHeader.dpfShortDataDefined].all eDataPacketFormats.defined = true := by decide +kernel

theorem dh_enc_length (p : DataHeader) (h : p.WF) : (DataHeader.enc p).length = 96 :=
  DataHeader.enc_length p h

/-- every field of every format is read back (response-requested bit of the response header included) -/
theorem dh_dec_enc (f : Bits → Nat) (p : DataHeader) (h : p.WF) :
    DataHeader.dec f (DataHeader.enc p) = .ok (DataHeader.init f p) := DataHeader.dec_enc f p h

/-- what `norm = DataHeader.init f` can change: only a CRC attribute that is all-zero (or not 16 bits) -/
theorem dh_init_fields (f : Bits → Nat) (p : DataHeader) :
    (DataHeader.init f p).payload = p.payload
    ∧ (p.crc.length = 16 → allZero p.crc = false → DataHeader.init f p = p) := by
  refine ⟨DataHeader.init_payload f p, fun h1 h2 => ?_⟩
  unfold DataHeader.init
  rw [if_neg (by simp [h1, h2])]

/-- for an object as the constructor leaves it the round trip is the identity -/
theorem dh_roundtrip (f : Bits → Nat) (p : DataHeader) (h : p.WF) :
    DataHeader.dec f (DataHeader.enc (DataHeader.init f p)) = .ok (DataHeader.init f p) := by
  rw [DataHeader.dec_enc f _ (DataHeader.init_wf f p h), DataHeader.init_idem f p h]

theorem dh_fixpoint (f : Bits → Nat) (bs : Bits) (hl : bs.length = 96) (p : DataHeader)
    (h : DataHeader.dec f bs = .ok p) :
    DataHeader.dec f (DataHeader.enc p) = .ok p ∧ (DataHeader.enc p).length = 96 :=
  DataHeader.fixpoint f bs hl p h

/-- any 96-bit string decodes, or raises `NotImplementedError` (reserved / raw short data /
proprietary format) or `ValueError` (undefined UDT opcode) -/
theorem dh_dec_total (f : Bits → Nat) (bs : Bits) (hl : bs.length = 96) :
    (∃ p, DataHeader.dec f bs = .ok p) ∨ DataHeader.dec f bs = .error .valueError
      ∨ DataHeader.dec f bs = .error .notImplemented := by
  cases h : DataHeader.dec f bs with
  | ok p => exact Or.inl ⟨p, rfl⟩
  | error e =>
    rcases DataHeader.dec_errors f bs hl e h with rfl | rfl
    · exact Or.inr (Or.inl rfl)
    · exact Or.inr (Or.inr rfl)

/-! ## full link control -/

/-- the seven FLCOs with a layout are defined `FLCOs` members -/
theorem flc_opcodes_defined :
    [FullLc.flcoGroup, FullLc.flcoUnitToUnit, FullLc.flcoTalkerAliasHeader, FullLc.flcoTalkerAliasBlock1,
     FullLc.flcoTalkerAliasBlock2, FullLc.flcoTalkerAliasBlock3, FullLc.flcoGpsInfo].all eFLCOs.defined = true := by
  decide +kernel

/-- 96 bits with a 24-bit check field, 77 bits with a 5-bit one -/
theorem flc_enc_length (p : FullLc) (h : p.WF) : (FullLc.enc p).length = 72 + p.crc.length :=
  FullLc.enc_length p h

/-- every field is read back unchanged (norm = identity); the GPS coordinates as raw signed integers -/
theorem flc_dec_enc (p : FullLc) (h : p.WF) : FullLc.dec (FullLc.enc p) = .ok p := FullLc.dec_enc p h

theorem flc_fixpoint (bs : Bits) (hl : bs.length = 96 ∨ bs.length = 77) (p : FullLc)
    (h : FullLc.dec bs = .ok p) :
    FullLc.dec (FullLc.enc p) = .ok p ∧ (FullLc.enc p).length = bs.length := by
  refine ⟨FullLc.fixpoint bs hl p h, ?_⟩
  rw [FullLc.enc_length p (FullLc.dec_wf bs hl p h), FullLc.dec_crc_length bs hl p h]

/-- any 96- / 77-bit string decodes, or raises `ValueError` (undefined FLCO) or `KeyError` (terminator
data link control, which has no layout) -/
theorem flc_dec_total (bs : Bits) (hl : bs.length = 96 ∨ bs.length = 77) :
    (∃ p, FullLc.dec bs = .ok p) ∨ FullLc.dec bs = .error .valueError ∨ FullLc.dec bs = .error .keyError := by
  cases h : FullLc.dec bs with
  | ok p => exact Or.inl ⟨p, rfl⟩
  | error e =>
    rcases FullLc.dec_errors bs hl e h with rfl | rfl
    · exact Or.inr (Or.inl rfl)
    · exact Or.inr (Or.inr rfl)

/-- the raw coordinate ↔ two's complement field maps are inverse on the whole range -/
theorem gps_raw_roundtrip (w : Nat) (hw : 0 < w) (n : Int) (h : signedInRange w n) :
    toSigned w (fromSigned w n) = n ∧ fromSigned w n < 2 ^ w :=
  ⟨toSigned_fromSigned w n hw h, fromSigned_lt w n⟩

/-! ## relations among the fields do not matter (input class of the differential run, round 4)

`flc_dec_enc` quantifies over all in-range field tuples, hence also over those whose fields satisfy arithmetic relations
among each other — met by independent sampling with probability 2⁻ʷ per relation and therefore CONSTRUCTED by the
differential run (`relation_cases` in `harness/props/c03.py`).  Spelled out for the unit-to-unit voice channel user LC:
the check field and the service options may be ANY functions of the two addresses. -/

/-- Unit-to-unit voice channel user: target and source come back in the order given whatever the check field `g tgt src`
and the service options `s tgt src` are as functions of the addresses (e.g. check field = target xor source, options
octet = low octet of target + source). -/
theorem flc_uu_relations (pf : Bool) (fid : Nat) (g : Nat → Nat → Bits) (s : Nat → Nat → ServiceOptions) (tgt src : Nat)
    (hfid : eFeatureSetIDs.defined fid = true) (hg : (g tgt src).length = 24 ∨ (g tgt src).length = 5)
    (hs : (s tgt src).WF) (ht : tgt < 2 ^ 24) (hsrc : src < 2 ^ 24) :
    FullLc.dec (FullLc.enc ⟨pf, fid, g tgt src, .unitToUnit (s tgt src) tgt src⟩)
      = .ok ⟨pf, fid, g tgt src, .unitToUnit (s tgt src) tgt src⟩ :=
  FullLc.dec_enc _ ⟨hfid, hg, hs, ht, hsrc⟩

/-- an instance with both relations at once: check field = target xor source (0x2345a7 ^^^ 0x61b2c9 = 0x42f76e), service
options octet = (target + source) mod 256 = 0x70; the serialisation is `03 00 70 2345a7 61b2c9 42f76e` and decodes back -/
example : FullLc.enc ⟨false, 0, natToBits 24 (0x2345a7 ^^^ 0x61b2c9), .unitToUnit ⟨false, true, [true, true], false, false, 0⟩ 0x2345a7 0x61b2c9⟩
      = natToBits 96 0x0300702345a761b2c942f76e ∧
    (⟨false, true, [true, true], false, false, 0⟩ : ServiceOptions).enc = natToBits 8 ((0x2345a7 + 0x61b2c9) % 256) ∧
    (FullLc.dec (natToBits 96 0x0300702345a761b2c942f76e)).toOption
      = some ⟨false, 0, natToBits 24 0x42f76e, .unitToUnit ⟨false, true, [true, true], false, false, 0⟩ 0x2345a7 0x61b2c9⟩ := by
  decide +kernel

/-! ## non-vacuity -/

/-- a response header with the response-requested bit set (the bit the encoder used to drop) -/
example : (⟨zeros 16, .response true 4 1234 2623266 1 5 2 1 7⟩ : DataHeader).WF := by decide
example : (DataHeader.dec (fun _ => 9) (DataHeader.enc ⟨zeros 16, .response true 4 1234 2623266 1 5 2 1 7⟩)).toOption.map
    (·.payload) = some (.response true 4 1234 2623266 1 5 2 1 7) := by decide +kernel
example : (⟨false, 0, zeros 24, .gpsInfo 3 (-16777216) 8388607⟩ : FullLc).WF := by decide
example : (⟨true, 16, zeros 5, .talkerAliasBlock 6 [1, 2, 3, 4, 5, 6, 255]⟩ : FullLc).WF := by decide

end Dmr.C03a
