import DmrVerif.Props.C05
import DmrVerif.Lemmas.CrcCross
import DmrVerif.Lemmas.CrcFrontEtsi

/-!
# C05 — parts that repeat a check sum of each other (round 4)

The front ends with several parts / arguments do not look at relations among them: `CRC9.calculate_from_parts`
covers data ‖ crc32 ‖ serial number with every part exactly once — also when the data ends with the very
octets handed over as `crc32` and these are the CRC-32 of the octets before —, the `crc32` part is
protected like any other bit, and `CRC16.check` on data that ends with the value asked about, this being
the CRC of the octets before, accepts for exactly one value of that CRC.
-/

namespace Dmr.C05
open Dmr Dmr.Crc

/-- **Every part exactly once, whatever the parts are**: for any four octets `T` handed over as `crc32`
the CRC-9 is the inverted remainder of data ‖ `T` ‖ serial number xor the mask — no condition on `data`,
in particular none on its last four octets -/
theorem crc9_every_part_once (data T : Bytes) (sn mask : Nat) (hsn : sn < 128) (hT : T.length = 4) :
    Crc.crc9 data sn mask (.bytes T)
      = .ok (Nat.xor (bitsToNat (inv (crcBits Gen.crc9
          (bytesToBits data ++ bytesToBits T ++ natToBits 7 sn)))) mask) :=
  crc9_front data sn mask (.bytes T) _ ((crc9_parts data sn hsn).2.2.2 T hT)

/-- … so when the data is `head ‖ T` (`T` = the CRC-32 of `head` in any notation, or anything else) and
`crc32 = T`, `T` is covered twice -/
theorem crc9_tail_repeats_crc32 (head T : Bytes) (sn mask : Nat) (hsn : sn < 128) (hT : T.length = 4) :
    Crc.crc9 (head ++ T) sn mask (.bytes T)
      = .ok (Nat.xor (bitsToNat (inv (crcBits Gen.crc9
          (bytesToBits head ++ bytesToBits T ++ bytesToBits T ++ natToBits 7 sn)))) mask) := by
  rw [crc9_every_part_once _ _ _ _ hsn hT, bytesToBits_append]

/-- the same value as a big-endian integer argument -/
theorem crc9_every_part_once_int (data : Bytes) (sn mask v : Nat) (hsn : sn < 128) (h0 : 0 < v)
    (hv : v < 2 ^ 32) :
    Crc.crc9 data sn mask (.int v)
      = .ok (Nat.xor (bitsToNat (inv (crcBits Gen.crc9
          (bytesToBits data ++ natToBits 32 v ++ natToBits 7 sn)))) mask) :=
  crc9_front data sn mask (.int v) _ ((crc9_parts data sn hsn).2.2.1 v h0 hv)

theorem bytesToBits_length (d : Bytes) : (bytesToBits d).length = 8 * d.length := by
  induction d with
  | nil => rfl
  | cons x xs ih =>
    rw [bytesToBits_cons, List.length_append, natToBits_length, ih, List.length_cons]; omega

/-- **The `crc32` part is protected**: two `crc32` arguments that differ by a burst of at most 9 bits give
different CRC-9s, for every data — also data that ends with one of them -/
theorem crc9_crc32_part_protected (data b b' : Bytes) (sn mask : Nat) (hsn : sn < 128)
    (hb : b.length = 4) (hb' : b'.length = 4) (i j : Nat) (burst : Bits)
    (hx : xorBits (bytesToBits b) (bytesToBits b') = zeros i ++ burst ++ zeros j)
    (hl : burst.length ≤ 9) (hne : burst ≠ zeros burst.length) :
    Crc.crc9 data sn mask (.bytes b) ≠ Crc.crc9 data sn mask (.bytes b') := by
  rw [crc9_every_part_once _ _ _ _ hsn hb, crc9_every_part_once _ _ _ _ hsn hb']
  intro heq
  have hr := masked_injective _ _ mask (by rw [calcBitwise_length, calcBitwise_length])
    (Except.ok.inj heq)
  have hlb : (bytesToBits b).length = (bytesToBits b').length := by
    rw [bytesToBits_length, bytesToBits_length, hb, hb']
  refine burst_detect Gen.crc9 (by simp [configs]) _ _ ?_ ((bytesToBits data).length + i) (j + 7) burst ?_
    (by have : Gen.crc9.w = 9 := by decide
        omega) hne hr
  · simp [List.length_append, hlb]
  · rw [xorBits_append _ _ _ _ (by simp [List.length_append, hlb]),
      xorBits_append _ _ _ _ rfl, xorBits_self, xorBits_self, hx, natToBits_length]
    simp only [zeros, List.replicate_add, List.append_assoc]

/-- the one CRC-CCITT value under `mask` for which data ‖ (that value) has that value as its CRC again -/
def selfrefConst16 (mask : Nat) : Nat :=
  Nat.xor (bitsToNat (inv (crcBits Gen.crc16 (affK 16 mask)))) mask

/-- **Data that ends with the CRC of the octets before**: its CRC-CCITT does not depend on these octets -/
theorem crc16_selfref_const (head : Bytes) (mask v : Nat) (hm : mask < 65536)
    (h : Crc.crc16 head mask = .ok v) :
    Crc.crc16 (head ++ [v / 256, v % 256]) mask = .ok (selfrefConst16 mask) := by
  have hok : OkCfg Gen.crc16 := ok (by simp [configs])
  have hw : (polyBits Gen.crc16).length = 16 := by rw [polyBits_length]; decide
  rw [crc16_front] at h
  have hv := (Except.ok.inj h).symm
  have hrl : (crcBits Gen.crc16 (bytesToBits head)).length = 16 := by
    rw [calcBitwise_length]; decide
  have hil : (inv (crcBits Gen.crc16 (bytesToBits head))).length = 16 := by rw [inv_length, hrl]
  have hbits : natToBits 16 v
      = xorBits (crcBits Gen.crc16 (bytesToBits head)) (affK 16 mask) := by
    have := natToBits_xor (inv (crcBits Gen.crc16 (bytesToBits head))) mask (by rw [hil]; exact hm)
    rw [hil] at this
    rw [hv, this, inv_eq_xor_ones, affK, xorBits_assoc, hrl]
  rw [crc16_front, bytesToBits_append, bytesToBits_two_octets, hbits]
  unfold selfrefConst16
  show Except.ok (Nat.xor (bitsToNat (inv (calcBitwise Gen.crc16
    (bytesToBits head ++ xorBits (calcBitwise Gen.crc16 (bytesToBits head)) (affK 16 mask))))) mask) = _
  rw [calcBitwise_eq_feed _ hok, calcBitwise_eq_feed _ hok,
    feed_selfref _ _ _ (by rw [affK_length, hw]), ← calcBitwise_eq_feed _ hok]

/-- … so `CRC16.check(head ‖ v, v, mask)` with `v = CRC16.calculate(head, mask)` — the data ends with the
value asked about, which is the CRC of the octets before — answers true for exactly one `v` in 65536 -/
theorem crc16_selfref_check (head : Bytes) (mask v : Nat) (hm : mask < 65536)
    (h : Crc.crc16 head mask = .ok v) :
    ∃ b, crc16Check (head ++ [v / 256, v % 256]) v mask = .ok b ∧ (b = true ↔ selfrefConst16 mask = v) := by
  have hlt : v ≤ 65535 := by
    rw [crc16_front] at h
    have hv := (Except.ok.inj h).symm
    have : v < 2 ^ 16 := by
      rw [hv]
      exact Nat.xor_lt_two_pow (by
        have := bitsToNat_lt (inv (crcBits Gen.crc16 (bytesToBits head)))
        rwa [inv_length, calcBitwise_length] at this) (by simpa using hm)
    omega
  obtain ⟨b, hb, hiff⟩ := (check_iff (head ++ [v / 256, v % 256]) [] mask v).2.1 hlt
  refine ⟨b, hb, ?_⟩
  rw [hiff, crc16_selfref_const head mask v hm h]
  constructor
  · intro h'; exact Except.ok.inj h'
  · intro h'; rw [h']

/-! ## non-vacuity -/

/-- data header mask: the constant is `0x65C5`; CSBK mask: `0x4091`; PI header mask: `0xC7A4` -/
example : selfrefConst16 0xCCCC = 0x65C5 ∧ selfrefConst16 0xA5A5 = 0x4091 ∧ selfrefConst16 0x6969 = 0xC7A4 := by
  decide +kernel

/-- `41 00` ‖ its CRC-32 as a little-endian trailer, the same four octets as `crc32`, serial number 5,
rate 1/2 mask: the CRC-9 covers the trailer twice; it is not the value over data ‖ serial number alone -/
example :
    Crc.crc32 [0x41, 0x00] = .ok 0x30476DC0
    ∧ Crc.crc9 [0x41, 0x00, 0xC0, 0x6D, 0x47, 0x30] 5 0x0F0 (.bytes [0xC0, 0x6D, 0x47, 0x30]) = .ok 121
    ∧ Crc.crc9 [0x41, 0x00, 0xC0, 0x6D, 0x47, 0x30] 5 0x0F0 (.int 0xC06D4730) = .ok 121
    ∧ Crc.crc9 [0x41, 0x00, 0xC0, 0x6D, 0x47, 0x30] 5 0x0F0 .none = .ok 313
    ∧ crc9Check [0x41, 0x00, 0xC0, 0x6D, 0x47, 0x30] 5 121 0x0F0 (.bytes [0xC0, 0x6D, 0x47, 0x30]) = .ok true
    ∧ crc9Check [0x41, 0x00, 0xC0, 0x6D, 0x47, 0x30] 5 313 0x0F0 (.bytes [0xC0, 0x6D, 0x47, 0x30]) = .ok false := by
  decide +kernel

end Dmr.C05
