import DmrVerif.Props.C04
import DmrVerif.Lemmas.TranslPduSmall

/-!
# C04t — the SOURCE of the small bit-field PDUs, translated, equals the models of C04 / C03

`Gen/TranslPduSmall.lean` is regenerated on every run by `tools/py2lean_bits.py` (on top of `tools/py2lean.py`) from
`inspect.getsource` of the live `SlotType.{__init__, as_bits, from_bits}` (slot_type.py), `EmbeddedSignalling.*`
(embedded_signalling.py), `ShortLinkControl.*` (short_link_control.py), `ServiceOptions.*` (service_options.py) and the
`from_bits` / `as_bits` of the `SLCOs` / `ActivityID` elements; semantics of the Python subset: `Model/Py.lean`,
`Model/PyBits.lean`.  The library functions those methods call but that are not translated — `Golay2087.generate / check`,
`QuadraticResidue1676.generate / check`, `numpy_array_to_int`, `CRC8.calculate / check` — are the `Ext` parameter of every
translated definition; here it is instantiated with the model's functions (`modelExt`, `Model/TranslPduExt.lean`): the call
boundary is trusted, everything between `from_bits(bits)` and the returned object is not.

The equalities hold for ALL bit strings, wrong lengths included (no hypothesis), result objects compared attribute by
attribute (`slotObj`, `embObj`, `slcObj`, `soObj` spell out the attributes of the Python object in terms of the model's
record), exceptions by class.  The headline theorems of C04 are restated about the translated source (`transl_*`).
-/

namespace Dmr.C04t
open Dmr Dmr.Py Dmr.PyBits Dmr.Gen Dmr.Integrity Dmr.Transl.PduSmall

/-- `SlotType.from_bits(bits)` is `Integrity.slotDec bits`: same object (colour code, data type member, parity,
`fec_parity_ok`) or the same exception class, for every bit string of any length -/
theorem slot_from_bits_eq (bits : Bits) : SlotType.from_bits modelExt bits = ofI slotObj (slotDec bits) :=
  Transl.PduSmall.slot_from_bits_eq bits

/-- `SlotType(colour_code, data_type: int, parity)` is `Integrity.slotInit` for all natural arguments (asserts included) -/
theorem slot_init_eq (cc dt par : Nat) :
    SlotType.init modelExt (cc : Int) (dt : Int) (par : Int) = ofI slotObj (slotInit cc dt par) :=
  Transl.PduSmall.slot_init_eq cc dt par

/-- `SlotType.as_bits()` of an object with in-range attributes is the model's `SlotObj.enc` -/
theorem slot_as_bits_eq (o : SlotObj) (h1 : o.colourCode < 16) (h2 : o.dataType < 16) (h3 : o.parity < 4096) :
    SlotType.as_bits modelExt (slotObj o) = .ok o.enc :=
  Transl.PduSmall.slot_as_bits o.colourCode o.dataType o.parity (some o.ok) h1 h2 h3

/-- `EmbeddedSignalling.from_bits(bits)` is `Integrity.embDec bits`, for every bit string of any length -/
theorem emb_from_bits_eq (bits : Bits) : EmbeddedSignalling.from_bits modelExt bits = ofI embObj (embDec bits) :=
  Transl.PduSmall.emb_from_bits_eq bits

/-- `EmbeddedSignalling(colour_code, pi, lcss: int, emb_parity: int)` is `Integrity.embInit` for all natural arguments,
including a parity of 2^9 or more: `int2ba(…, length=9)` inside `as_bits()` raises `OverflowError` there, and so does
`embInit` -/
theorem emb_init_eq (cc pv lc par : Nat) :
    EmbeddedSignalling.init modelExt (cc : Int) (pv : Int) (lc : Int) (par : Int) = ofI embObj (embInit cc pv lc par) :=
  Transl.PduSmall.emb_init_eq cc pv lc par

/-- `ShortLinkControl.from_bits(bits)` is `Integrity.slcDec bits`, for every bit string of any length: opcode dispatch,
activity ids, addresses, the CRC field as stored (regenerated least significant bit first when it is zero) and `crc_ok`
over the received bits -/
theorem slc_from_bits_eq (bits : Bits) : ShortLinkControl.from_bits modelExt bits = ofI slcObj (slcDec bits) :=
  Transl.PduSmall.slc_from_bits_eq bits

/-- `ServiceOptions.from_bits(bits)` is the C03 model's `ServiceOptions.dec`, for every bit string of any length -/
theorem so_from_bits_eq (bits : Bits) :
    Transl.PduSmall.ServiceOptions.from_bits modelExt bits = ofE soObj (Dmr.ServiceOptions.dec bits) :=
  Transl.PduSmall.so_from_bits_eq bits

/-- `ServiceOptions.as_bits()` of an in-range object is the C03 model's `ServiceOptions.enc` -/
theorem so_as_bits_eq (s : Dmr.ServiceOptions) (h : s.WF) :
    Transl.PduSmall.ServiceOptions.as_bits modelExt (soObj s) = .ok s.enc :=
  Transl.PduSmall.so_as_bits_eq s h

/-! ## headline theorems of C04, about the translated source -/

/-- `C04.slot_indicator` about the translated `SlotType.from_bits`: for every received 20-bit word whose parity field
is not all-zero the call succeeds and `fec_parity_ok` is Golay(20,8) membership of the word -/
theorem transl_slot_indicator (w : Bits) (hw : w.length = 20) (hp : bitsToNat (sl w 8 20) ≠ 0) :
    ∃ o, SlotType.from_bits modelExt w = .ok o ∧ o.fec_parity_ok = some (golay2087.check w) := by
  obtain ⟨o, hdec, hok⟩ := C04.slot_indicator w hw hp
  refine ⟨slotObj o, ?_, ?_⟩
  · rw [slot_from_bits_eq, hdec]; rfl
  · rw [← hok]; rfl

/-- `C04.slot_failset` about the translated `SlotType.from_bits`: it never raises on a 20-bit word, and the indicator
differs from membership exactly when the parity field is all-zero and the data field is not (the recorded sentinel) -/
theorem transl_slot_failset (w : Bits) (hw : w.length = 20) :
    ∃ o b, SlotType.from_bits modelExt w = .ok o ∧ o.fec_parity_ok = some b ∧
      (b ≠ golay2087.check w ↔ (bitsToNat (sl w 8 20) = 0 ∧ sl w 0 8 ≠ zeros 8)) := by
  obtain ⟨o, hdec, hiff⟩ := C04.slot_failset w hw
  refine ⟨slotObj o, o.ok, ?_, rfl, hiff⟩
  rw [slot_from_bits_eq, hdec]; rfl

/-- `C04.emb_indicator` about the translated `EmbeddedSignalling.from_bits` -/
theorem transl_emb_indicator (w : Bits) (hw : w.length = 16) (hp : bitsToNat (sl w 7 16) ≠ 0) :
    ∃ o, EmbeddedSignalling.from_bits modelExt w = .ok o ∧ o.emb_parity_ok = some (qr1676.check w) := by
  obtain ⟨o, hdec, hok⟩ := C04.emb_indicator w hw hp
  refine ⟨embObj o, ?_, ?_⟩
  · rw [emb_from_bits_eq, hdec]; rfl
  · rw [← hok]; rfl

/-- `C04.slc_detect_partial` about the translated `ShortLinkControl.from_bits`: a valid short LC hit by an error of the
guaranteed class (received CRC field ≠ 0) raises or comes back with `crc_ok = False` -/
theorem transl_slc_detect_partial (s e : Bits) (hs : s.length = 36) (he : e.length = 36) (hv : slcValid s)
    (hc : C04.InClass8 e) (hz : bitsToNat (sl (xorBits s e) 28 36) ≠ 0) :
    match ShortLinkControl.from_bits modelExt (xorBits s e) with
    | .error _ => True
    | .ok q => q.crc_ok = some false := by
  have h := C04.slc_detect_partial s e hs he hv hc hz
  rw [slc_from_bits_eq]
  cases hd : slcDec (xorBits s e) with
  | error x => trivial
  | ok q =>
    rw [hd] at h
    show (slcObj q).crc_ok = some false
    rw [← h]
    cases q with
    | mk pl crc ok => cases pl <;> rfl

/-! ## non-vacuity: kernel evaluation of the translated definitions; expected values computed with the real code -/

def bb (s : String) : Bits := (bitsOfString s).getD []

example :
    SlotType.from_bits modelExt (bb "00010011000000000000")
      = .ok { colour_code := some 1, data_type := some 3, fec_parity := some 690, fec_parity_ok := some true } ∧
    SlotType.from_bits modelExt (bb "00011101101010101011")
      = .ok { colour_code := some 1, data_type := some 12, fec_parity := some 2731, fec_parity_ok := some false } ∧
    SlotType.from_bits modelExt (bb "0001110110101010101") = .error .assertion ∧
    EmbeddedSignalling.from_bits modelExt (bb "0001011000010001")
      = .ok { colour_code := some 1, preemption_and_power_control_indicator := some 0, link_control_start_stop := some 3,
              emb_parity := some 17, emb_parity_ok := some false } ∧
    ShortLinkControl.from_bits modelExt (bb "001000101110101010100101010110100000") = .error (.other "KeyError") := by
  decide +kernel

end Dmr.C04t
