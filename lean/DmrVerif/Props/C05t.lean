import DmrVerif.Props.C05
import DmrVerif.Lemmas.TranslBitsBytes

/-!
# C05t — the byte-order helpers of `utils/bits_bytes.py`, translated, equal the models of C05 (CRC-32 front end) and C13

`Gen/TranslBitsBytes.lean` is regenerated on every run by `tools/py2lean_arr.py` from `inspect.getsource` of the live
`byteswap_bytearray`, `byteswap_bytes`, `half_byte_to_bytes` (module-level functions; `bytearray` is carried like `bytes`, the
swap `data[0::2], data[1::2] = data[1::2], data[0::2]` on the function's private copy is `PyArr.swapPairs`).
`bits_create_lookup_table` is NOT translated: it is not integer code but drives `BitCrcConfiguration` / `BitCrcRegister` objects
(`init` / `update` / `digest`), outside this translator's subset (see TRANSL_NOTES.md).
-/

namespace Dmr.C05t
open Dmr Dmr.Py Dmr.Transl.BitsBytes

/-- `byteswap_bytearray(data)`, every octet string: the model's `byteswap` (`Model/Crc.lean`); never raises -/
theorem byteswap_bytearray_eq (d : Bytes) (hd : isOctets d) : byteswap_bytearray d = .ok (Crc.byteswap d) :=
  Transl.BitsBytes.byteswap_bytearray_eq d hd

/-- `byteswap_bytes(data)`, every octet string: the model's `byteswap` -/
theorem byteswap_bytes_eq (d : Bytes) (hd : isOctets d) : byteswap_bytes d = .ok (Crc.byteswap d) :=
  Transl.BitsBytes.byteswap_bytes_eq d hd

/-- C13's model of the same function (`Model/Ipsc.lean`) is the same function -/
theorem byteswap_models (d : Bytes) : Ipsc.byteswap d = Crc.byteswap d :=
  Transl.BitsBytes.byteswap_models d

/-- `half_byte_to_bytes(h, n)` for naturals: C13's `halfByte` (`ValueError` when `h | h << 4` is not an octet) -/
theorem half_byte_eq (h n : Nat) :
    half_byte_to_bytes (h : Int) (n : Int) = match Ipsc.halfByte h n with
      | .ok b => .ok b
      | .error _ => .error .value :=
  Transl.BitsBytes.half_byte_eq h n

/-- the CRC-32 front end of C05 on the translated source: `CRC32.calculate(data)` feeds the register the little-endian bits
of exactly what the translated `byteswap_bytes` returns -/
theorem transl_crc32_front (cal : Crc.Calc) (d : Bytes) (hd : isOctets d) :
    ∃ s, byteswap_bytes d = .ok s ∧ s.length = d.length ∧
      Crc.crc32With cal d = (cal true (Crc.bytesToBitsLE s)).map bitsToNat := by
  refine ⟨Crc.byteswap d, byteswap_bytes_eq d hd, ?_, rfl⟩
  rw [← Transl.BitsBytes.swapList_crc, Transl.BitsBytes.swapList_length]

example : byteswap_bytes [1, 2, 3, 4, 5] = .ok [2, 1, 4, 3, 5] ∧ byteswap_bytes [] = .ok [] ∧
    half_byte_to_bytes 10 = .ok [170, 170] ∧ half_byte_to_bytes 3 3 = .ok [51, 51, 51] ∧
    half_byte_to_bytes 16 = .error .value ∧ half_byte_to_bytes (-1) = .error .value := by decide +kernel

end Dmr.C05t
