import DmrVerif.Lemmas.FragmentMain
import DmrVerif.Gen.Fragment
import DmrVerif.Gen.Tracker

/-!
# C07 — a generated data transmission is received back as the same payload, checks ok

Property theorems only.  Generator = `Model/Fragment.lean` (`generate_full_data_transmission` and what it
calls, after fix 6db02eb), receiver = the tracker of C08 (`Model/Tracker.lean`) driven through
`Terminal.step`.  A generated burst reaches the receiver as the same abstract burst (`AbsBurst`): per-burst
`parse (serialise b) = b` is C01's theorem (with C02 / C10 for the FEC and C03 for the PDUs); CRC-32 and
CRC-9 are abstract functions with only their ranges assumed (C05).  What is proved here is everything in
between: block count, padding, slicing, which block gets which CRC, the preamble count-down, the receiver's
counting and last-block detection, and that its typed re-parse of each block reads back exactly the fields
the generator wrote (bit level).
-/

namespace Dmr.C07
open Dmr Dmr.Tracker Dmr.Fragment

/-! ## the table literals of `generate_data_bursts`, as extracted from the source on this run -/

def rateId : Rate → Nat
  | .r12 => 0 | .r34 => 1 | .r1 => 2

def tablesChk : Bool :=
  Gen.Fragment.octets.length == 6 && Gen.Fragment.sliceTypes.length == 6
    && [Rate.r12, Rate.r34, Rate.r1].all fun r => [true, false].all fun c =>
      Gen.Fragment.octets.contains (rateId r, c, (octets r c).1, (octets r c).2)
        && Gen.Fragment.sliceTypes.contains
            (rateId r, c, dataOctets r (resolve c false), dataOctets r (resolve c true))

/-- the model's octets-per-block table is the literal of the source (whatever its key order), and the block
types the generator asks for are the types the receiver resolves for (confirmed, last) — both compared
through their enum values = numbers of data octets -/
theorem tables : tablesChk = true := by decide

/-- octets per (last) block = data octets of the type the receiver resolves: the two ends agree on sizes -/
theorem octets_are_type_octets (r : Rate) (c : Bool) :
    (octets r c).1 = dataOctets r (resolve c false) ∧ (octets r c).2 = dataOctets r (resolve c true) :=
  ⟨(octets_facts r c).2.2.1, (octets_facts r c).2.2.2⟩

/-! ## fragmentation arithmetic -/

/-- the padded payload fills N blocks exactly, with fewer pad octets than one block holds; N ≥ 1 -/
theorem fragment_arithmetic (r : Rate) (conf : Bool) (payload : Bytes) :
    1 ≤ nBlocks r conf payload
      ∧ payload.length + padOf r conf payload
          = (nBlocks r conf payload - 1) * (octets r conf).1 + (octets r conf).2
      ∧ padOf r conf payload < (octets r conf).1 := by
  refine ⟨nBlocks_pos r conf payload, ?_, pad_lt r conf payload.length⟩
  have := total_ge r conf payload.length
  simp only [padOf, nBlocks, padCount, dataOctetsTotal] at this ⊢
  omega

/-- preamble `j` (0-based) of `k` announces `m + (k - 1 - j)` blocks to follow: a count-down that ends at
`m`, where the generator passes `m` = 1 + number of data blocks = the bursts that follow the last preamble -/
theorem preamble_countdown (k m j : Nat) (hj : j < k) :
    (preambleBtfs k m).length = k ∧ (preambleBtfs k m)[j]? = some (m + (k - 1 - j)) :=
  ⟨preambleBtfs_length k m, preambleBtfs_get k m j hj⟩

/-! ## the property -/

/-- For every payload (octets), rate, mode (= the header's A bit), preamble count, colour code, time slot and
observers, and every caller-supplied header announcing the generator's pad count and block count:
the generator succeeds with k + 1 + N bursts; the receiver processes them without failing and delivers exactly
one `started data` and one `data ended` with the header, the k preambles and the N data blocks; the data
blocks concatenate to the payload followed by exactly the announced pad octets; the final block (and only
it) is typed last and carries the CRC-32 of that padded payload; every block's CRC-9 is accepted, and a
non-last block's CRC-9 is over (data, serial number 0) without any CRC-32; all blocks-to-follow fit their
fields; afterwards the slot is idle. -/
theorem generated_received (C : Crc) (raw : CsbkRaw) (r : Rate) (payload : Bytes) (gh : GenHeader)
    (k cc : Nat) (raises : List Bool) (two : Bool)
    (hbytes : ∀ b ∈ payload, b < 256)
    (hcrc32 : ∀ d, C.crc32 d < 2 ^ 32) (hcrc9 : ∀ r d s c, C.crc9 r d s c < 2 ^ 9)
    (hpoc : gh.poc = padOf r gh.hdr.a payload)
    (hbtf : gh.hdr.btf = some (nBlocks r gh.hdr.a payload))
    (hn : nBlocks r gh.hdr.a payload ≤ 127) (hk : k ≤ 16) :
    ∃ (bursts : List AbsBurst) (t : Terminal) (recs : List Rec) (gs : List GenBlock),
      generate C raw r payload gh k cc = .ok bursts
      ∧ bursts.length = k + 1 + nBlocks r gh.hdr.a payload
      ∧ run (Terminal.init raises) (bursts.map fun b => (two, b)) = .ok (t, recs)
      ∧ allEvents recs =
          [.started .data,
           .dataEnded (.data gh.hdr)
             ((preambleBtfs k (nBlocks r gh.hdr.a payload + 1)).map (fun b => Block.csbk (raw b))
               ++ [.hdr gh.hdr] ++ gs.map typed)]
      ∧ gs.length = nBlocks r gh.hdr.a payload
      ∧ userData (gs.map typed) = payload ++ List.replicate gh.poc 0
      ∧ (∃ g, gs.getLast? = some g ∧ g.ptype.isLast = true
            ∧ blockCrc32 g.rate g.ptype g.asBits = C.crc32 (payload ++ List.replicate gh.poc 0)
            ∧ ∀ g' ∈ gs.dropLast, g'.ptype.isLast = false)
      ∧ (∀ g ∈ gs, g.rate = r ∧ g.ptype.isConfirmed = gh.hdr.a ∧ crc9Ok C g.rate g.ptype g.asBits = true
            ∧ (g.ptype.isLast = false → g.crc9 = C.crc9 r g.data 0 0))
      ∧ (∀ b ∈ preambleBtfs k (nBlocks r gh.hdr.a payload + 1), b < 256)
      ∧ (t.slot two).tx.isIdleFresh = true := by
  have hgen := generate_ok C raw r payload gh k cc hpoc
  have hfeed := fun sn o => feed_generated C raw r payload gh.hdr k sn o hbtf hbytes
  -- the receiver: `feed` on the slot's transmission, lifted to the terminal
  have hinit : ((Terminal.init raises).slot two).tx = idleTx (if two then 1 else 0) := by
    cases two <;> rfl
  obtain ⟨t, recs, hrun, htx, _, hev, _, _⟩ :=
    run_feed two
      ((preambleBtfs k (nBlocks r gh.hdr.a payload + 1)).map
          (fun btf => (⟨.csbk true btf (raw btf), some cc⟩ : AbsBurst))
        ++ [⟨.dataHeader gh.hdr, some 5⟩]
        ++ (gens C r gh.hdr.a payload).map (fun b => (⟨.rate r b.asBits, some cc⟩ : AbsBurst)))
      (Terminal.init raises) _ _ _
      (by
        rw [hinit]
        simp only [List.map_append, List.map_map, Function.comp_def, List.map_cons, List.map_nil]
        exact hfeed _ _)
  refine ⟨_, t, recs, gens C r gh.hdr.a payload, hgen, ?_, hrun, ?_, gens_length _ _ _ _, ?_, ?_, ?_, ?_, ?_⟩
  · simp only [List.length_append, List.length_map, preambleBtfs_length, gens_length, List.length_cons,
      List.length_nil]
  · rw [hev]
    simp only [events_append', events_map_append, List.append_nil]
    simp [events, Act.event?]
  · rw [hpoc]; exact userData_gens C r gh.hdr.a payload hbytes
  · rw [hpoc]; exact last_gens C r gh.hdr.a payload hbytes hcrc32
  · intro g hg
    obtain ⟨h1, _, _, _, h5, h6⟩ := gens_facts C r gh.hdr.a payload hbytes g hg
    refine ⟨h1, ?_, crc9Ok_gens C r gh.hdr.a payload hbytes hcrc32 hcrc9 g hg, ?_⟩
    · simp only [gens, List.mem_map] at hg
      obtain ⟨i, _, rfl⟩ := hg
      simp only [blockAt]
      cases gh.hdr.a <;> cases (i == nBlocks r _ payload - 1) <;> rfl
    · intro hl
      rw [h5, h6]
      simp [hl]
  · intro b hb
    simp only [preambleBtfs, List.mem_reverse, List.mem_map, List.mem_range] at hb
    obtain ⟨i, hi, rfl⟩ := hb
    omega
  · rw [htx]; rfl

/-! ## non-vacuity -/

/-- a concrete instance: 20 octets, rate 1/2 confirmed (3 blocks, 6 pad octets), 2 preambles -/
def crcEx : Crc :=
  { crc32 := fun d => (d.foldl (· + ·) 7) % 2 ^ 32
    crc9 := fun _ d s c => (d.foldl (· + ·) (s + c)) % 2 ^ 9 }

def payloadEx : Bytes := (List.range 20).map (· + 1)

def headerEx : GenHeader := { hdr := { btf := some 3, a := true, sap := 4, raw := [1] }, poc := 6 }

example : nBlocks .r12 true payloadEx = 3 ∧ padOf .r12 true payloadEx = 6 := by decide

example : ∃ bursts, generate crcEx (fun b => [b]) .r12 payloadEx headerEx 2 1 = .ok bursts ∧ bursts.length = 6 := by
  obtain ⟨bursts, _, _, _, h1, h2, _⟩ :=
    generated_received crcEx (fun b => [b]) .r12 payloadEx headerEx 2 1 [true, false] false
      (by decide) (fun d => Nat.mod_lt _ (by decide)) (fun _ _ _ _ => Nat.mod_lt _ (by decide))
      (by decide) (by decide) (by decide) (by decide)
  exact ⟨bursts, h1, by rw [h2]; decide⟩

end Dmr.C07
