import DmrVerif.Lemmas.FragmentMain
import DmrVerif.Gen.Fragment
import DmrVerif.Gen.Tracker

/-!
# C07 — a generated data transmission is received back as the same payload, checks ok

Property theorems only.  Generator = `Model/Fragment.lean` (`generate_full_data_transmission` and what it
calls, after fix 6db02eb), receiver = the tracker of C08 (`Model/Tracker.lean`) driven through
`Terminal.step`.  A generated burst reaches the receiver as the same abstract burst (`AbsBurst`): per-burst
`parse (serialise b) = b` is C01's theorem (with C02 / C10 for the FEC and C03 for the PDUs); CRC-32 and
CRC-9 are abstract functions with only their ranges assumed (C05).  What is proved here is everything in
between: block count, padding, slicing, which block gets which CRC, the preamble count-down, the receiver's
counting and last-block detection, and that its typed re-parse of each block reads back exactly the fields
the generator wrote (bit level).
-/

namespace Dmr.C07
open Dmr Dmr.Tracker Dmr.Fragment

/-! ## the table literals of `generate_data_bursts`, as extracted from the source on this run -/

def rateId : Rate → Nat
  | .r12 => 0 | .r34 => 1 | .r1 => 2

def tablesChk : Bool :=
  Gen.Fragment.octets.length == 6 && Gen.Fragment.sliceTypes.length == 6
    && [Rate.r12, Rate.r34, Rate.r1].all fun r => [true, false].all fun c =>
      Gen.Fragment.octets.contains (rateId r, c, (octets r c).1, (octets r c).2)
        && Gen.Fragment.sliceTypes.contains
            (rateId r, c, dataOctets r (resolve c false), dataOctets r (resolve c true))

/-- the model's octets-per-block table is the literal of the source (whatever its key order), and the block
types the generator asks for are the types the receiver resolves for (confirmed, last) — both compared
through their enum values = numbers of data octets -/
theorem tables : tablesChk = true := by decide

/-- octets per (last) block = data octets of the type the receiver resolves: the two ends agree on sizes -/
theorem octets_are_type_octets (r : Rate) (c : Bool) :
    (octets r c).1 = dataOctets r (resolve c false) ∧ (octets r c).2 = dataOctets r (resolve c true) :=
  ⟨(octets_facts r c).2.2.1, (octets_facts r c).2.2.2⟩

/-! ## fragmentation arithmetic -/

/-- the padded payload fills N blocks exactly, with fewer pad octets than one block holds; N ≥ 1 -/
theorem fragment_arithmetic (r : Rate) (conf : Bool) (payload : Bytes) :
    1 ≤ nBlocks r conf payload
      ∧ payload.length + padOf r conf payload
          = (nBlocks r conf payload - 1) * (octets r conf).1 + (octets r conf).2
      ∧ padOf r conf payload < (octets r conf).1 := by
  refine ⟨nBlocks_pos r conf payload, ?_, pad_lt r conf payload.length⟩
  have := total_ge r conf payload.length
  simp only [padOf, nBlocks, padCount, dataOctetsTotal] at this ⊢
  omega

/-- preamble `j` (0-based) of `k` announces `m + (k - 1 - j)` blocks to follow: a count-down that ends at
`m`, where the generator passes `m` = 1 + number of data blocks = the bursts that follow the last preamble -/
theorem preamble_countdown (k m j : Nat) (hj : j < k) :
    (preambleBtfs k m).length = k ∧ (preambleBtfs k m)[j]? = some (m + (k - 1 - j)) :=
  ⟨preambleBtfs_length k m, preambleBtfs_get k m j hj⟩

/-! ## the property -/

/-- For every payload (octets), rate, mode (= the header's A bit), preamble count, colour code, time slot and
observers, and every caller-supplied header announcing the generator's pad count and block count:
the generator succeeds with k + 1 + N bursts; the receiver processes them without failing and delivers exactly
one `started data` and one `data ended` with the header, the k preambles and the N data blocks; the data
blocks concatenate to the payload followed by exactly the announced pad octets; the final block (and only
it) is typed last and carries the CRC-32 of that padded payload; every block's CRC-9 is accepted, and a
non-last block's CRC-9 is over (data, serial number 0) without any CRC-32; all blocks-to-follow fit their
fields; afterwards the slot is idle. -/
theorem generated_received (C : Crc) (raw : CsbkRaw) (r : Rate) (payload : Bytes) (gh : GenHeader)
    (k cc : Nat) (raises : List Bool) (two : Bool)
    (hbytes : ∀ b ∈ payload, b < 256)
    (hcrc32 : ∀ d, C.crc32 d < 2 ^ 32) (hcrc9 : ∀ r d s c, C.crc9 r d s c < 2 ^ 9)
    (hpoc : gh.poc = padOf r gh.hdr.a payload)
    (hbtf : gh.hdr.btf = some (nBlocks r gh.hdr.a payload))
    (hn : nBlocks r gh.hdr.a payload ≤ 127) (hk : k ≤ 16) :
    ∃ (bursts : List AbsBurst) (t : Terminal) (recs : List Rec) (gs : List GenBlock),
      generate C raw r payload gh k cc = .ok bursts
      ∧ bursts.length = k + 1 + nBlocks r gh.hdr.a payload
      ∧ run (Terminal.init raises) (bursts.map fun b => (two, b)) = .ok (t, recs)
      ∧ allEvents recs =
          [.started .data,
           .dataEnded (.data gh.hdr)
             ((preambleBtfs k (nBlocks r gh.hdr.a payload + 1)).map (fun b => Block.csbk (raw b))
               ++ [.hdr gh.hdr] ++ gs.map typed)]
      ∧ gs.length = nBlocks r gh.hdr.a payload
      ∧ userData (gs.map typed) = payload ++ List.replicate gh.poc 0
      ∧ (∃ g, gs.getLast? = some g ∧ g.ptype.isLast = true
            ∧ blockCrc32 g.rate g.ptype g.asBits = C.crc32 (payload ++ List.replicate gh.poc 0)
            ∧ ∀ g' ∈ gs.dropLast, g'.ptype.isLast = false)
      ∧ (∀ g ∈ gs, g.rate = r ∧ g.ptype.isConfirmed = gh.hdr.a ∧ crc9Ok C g.rate g.ptype g.asBits = true
            ∧ (g.ptype.isLast = false → g.crc9 = C.crc9 r g.data 0 0))
      ∧ (∀ b ∈ preambleBtfs k (nBlocks r gh.hdr.a payload + 1), b < 256)
      ∧ (t.slot two).tx.isIdleFresh = true := by
  have hgen := generate_ok C raw r payload gh k cc hpoc
  have hfeed := fun sn o => feed_generated C raw r payload gh.hdr k sn o hbtf hbytes
  -- the receiver: `feed` on the slot's transmission, lifted to the terminal
  have hinit : ((Terminal.init raises).slot two).tx = idleTx (if two then 1 else 0) := by
    cases two <;> rfl
  obtain ⟨t, recs, hrun, htx, _, hev, _, _⟩ :=
    run_feed two
      ((preambleBtfs k (nBlocks r gh.hdr.a payload + 1)).map
          (fun btf => (⟨.csbk true btf (raw btf), some cc⟩ : AbsBurst))
        ++ [⟨.dataHeader gh.hdr, some 5⟩]
        ++ (gens C r gh.hdr.a payload).map (fun b => (⟨.rate r b.asBits, some cc⟩ : AbsBurst)))
      (Terminal.init raises) _ _ _
      (by
        rw [hinit]
        simp only [List.map_append, List.map_map, Function.comp_def, List.map_cons, List.map_nil]
        exact hfeed _ _)
  refine ⟨_, t, recs, gens C r gh.hdr.a payload, hgen, ?_, hrun, ?_, gens_length _ _ _ _, ?_, ?_, ?_, ?_, ?_⟩
  · simp only [List.length_append, List.length_map, preambleBtfs_length, gens_length, List.length_cons,
      List.length_nil]
  · rw [hev]
    simp only [events_append', events_map_append, List.append_nil]
    simp [events, Act.event?]
  · rw [hpoc]; exact userData_gens C r gh.hdr.a payload hbytes
  · rw [hpoc]; exact last_gens C r gh.hdr.a payload hbytes hcrc32
  · intro g hg
    obtain ⟨h1, _, _, _, h5, h6⟩ := gens_facts C r gh.hdr.a payload hbytes g hg
    refine ⟨h1, ?_, crc9Ok_gens C r gh.hdr.a payload hbytes hcrc32 hcrc9 g hg, ?_⟩
    · simp only [gens, List.mem_map] at hg
      obtain ⟨i, _, rfl⟩ := hg
      simp only [blockAt]
      cases gh.hdr.a <;> cases (i == nBlocks r _ payload - 1) <;> rfl
    · intro hl
      rw [h5, h6]
      simp [hl]
  · intro b hb
    simp only [preambleBtfs, List.mem_reverse, List.mem_map, List.mem_range] at hb
    obtain ⟨i, hi, rfl⟩ := hb
    omega
  · rw [htx]; rfl

/-! ## non-vacuity -/

/-- a concrete instance: 20 octets, rate 1/2 confirmed (3 blocks, 6 pad octets), 2 preambles -/
def crcEx : Crc :=
  { crc32 := fun d => (d.foldl (· + ·) 7) % 2 ^ 32
    crc9 := fun _ d s c => (d.foldl (· + ·) (s + c)) % 2 ^ 9 }

def payloadEx : Bytes := (List.range 20).map (· + 1)

def headerEx : GenHeader := { hdr := { btf := some 3, a := true, sap := 4, raw := [1] }, poc := 6 }

example : nBlocks .r12 true payloadEx = 3 ∧ padOf .r12 true payloadEx = 6 := by decide

example : ∃ bursts, generate crcEx (fun b => [b]) .r12 payloadEx headerEx 2 1 = .ok bursts ∧ bursts.length = 6 := by
  obtain ⟨bursts, _, _, _, h1, h2, _⟩ :=
    generated_received crcEx (fun b => [b]) .r12 payloadEx headerEx 2 1 [true, false] false
      (by decide) (fun d => Nat.mod_lt _ (by decide)) (fun _ _ _ _ => Nat.mod_lt _ (by decide))
      (by decide) (by decide) (by decide) (by decide)
  exact ⟨bursts, h1, by rw [h2]; decide⟩

/-! ## structured payload content: a checksum of one part of the payload inside the payload

`generated_received` quantifies over every payload, so payloads that talk about themselves are included; the
class is made explicit here because two realistic "robustness" changes (a receiver that closes the packet as
soon as the last four octets received are the CRC-32 of everything before them; a generator that drops such a
tail from its input) are invisible to every payload that is not of this shape. -/

/-- the four octets of a CRC-32 field as they are sent in the last block (`natToBits 32` of the block's
`crc32` attribute, most significant octet first = `CRC32.calculate(..).to_bytes(4, "little")`) -/
def crcOctets (v : Nat) : Bytes := [v / 2 ^ 24 % 256, v / 2 ^ 16 % 256, v / 2 ^ 8 % 256, v % 256]

theorem crcOctets_lt (v : Nat) : ∀ b ∈ crcOctets v, b < 256 := by
  intro b hb
  simp only [crcOctets, List.mem_cons, List.not_mem_nil, or_false] at hb
  omega

/-- Self-referential payloads are delivered whole.  Let the payload be `pre ++ enc (C.crc32 pre) ++ post`: the
octets `pre`, then ANY octet encoding `enc` of the CRC-32 of `pre` (`crcOctets` = exactly what a last block
would carry for `pre`; other octet orders, shorter fields, … likewise), then `post` — so with suitable lengths
the checksum sits right in front of the end of a non-last block (`post ≠ []`), or is the payload's own tail
(`post = []`), with or without pad octets behind it.  Still: one `started data`, one `data ended` with all
N = `nBlocks` data blocks (N computed from the FULL payload length, nothing dropped by the generator), and the
blocks concatenate to the full payload followed by the announced pad octets (nothing cut by the receiver). -/
theorem selfref_delivered_whole (C : Crc) (raw : CsbkRaw) (r : Rate) (pre post : Bytes) (enc : Nat → Bytes)
    (gh : GenHeader) (k cc : Nat) (raises : List Bool) (two : Bool)
    (hpre : ∀ b ∈ pre, b < 256) (hpost : ∀ b ∈ post, b < 256) (henc : ∀ v, ∀ b ∈ enc v, b < 256)
    (hcrc32 : ∀ d, C.crc32 d < 2 ^ 32) (hcrc9 : ∀ r d s c, C.crc9 r d s c < 2 ^ 9)
    (hpoc : gh.poc = padOf r gh.hdr.a (pre ++ enc (C.crc32 pre) ++ post))
    (hbtf : gh.hdr.btf = some (nBlocks r gh.hdr.a (pre ++ enc (C.crc32 pre) ++ post)))
    (hn : nBlocks r gh.hdr.a (pre ++ enc (C.crc32 pre) ++ post) ≤ 127) (hk : k ≤ 16) :
    ∃ (bursts : List AbsBurst) (t : Terminal) (recs : List Rec) (gs : List GenBlock),
      generate C raw r (pre ++ enc (C.crc32 pre) ++ post) gh k cc = .ok bursts
      ∧ run (Terminal.init raises) (bursts.map fun b => (two, b)) = .ok (t, recs)
      ∧ allEvents recs =
          [.started .data,
           .dataEnded (.data gh.hdr)
             ((preambleBtfs k (nBlocks r gh.hdr.a (pre ++ enc (C.crc32 pre) ++ post) + 1)).map
                 (fun b => Block.csbk (raw b))
               ++ [.hdr gh.hdr] ++ gs.map typed)]
      ∧ gs.length = nBlocks r gh.hdr.a (pre ++ enc (C.crc32 pre) ++ post)
      ∧ userData (gs.map typed) = pre ++ enc (C.crc32 pre) ++ post ++ List.replicate gh.poc 0
      ∧ (∃ g, gs.getLast? = some g ∧ g.ptype.isLast = true ∧ ∀ g' ∈ gs.dropLast, g'.ptype.isLast = false) := by
  have hbytes : ∀ b ∈ pre ++ enc (C.crc32 pre) ++ post, b < 256 := by
    intro b hb
    simp only [List.mem_append] at hb
    rcases hb with (hb | hb) | hb
    · exact hpre b hb
    · exact henc _ b hb
    · exact hpost b hb
  obtain ⟨bursts, t, recs, gs, h1, _, h3, h4, h5, h6, ⟨g, hg1, hg2, _, hg4⟩, _⟩ :=
    generated_received C raw r _ gh k cc raises two hbytes hcrc32 hcrc9 hpoc hbtf hn hk
  exact ⟨bursts, t, recs, gs, h1, h3, h4, h5, h6, g, hg1, hg2, hg4⟩

/-- non-vacuity, the receiver-side shape: rate 1/2 unconfirmed (12 octets per block, 8 in the last), the first
block = 8 octets followed by the on-air octets of their CRC-32, then 5 more octets: 2 blocks, 3 pad octets —
block 1 of 2 ends with the CRC-32 of everything before it and the packet is nevertheless not closed there -/
def selfPre : Bytes := [17, 34, 51, 68, 85, 102, 119, 136]

def selfPost : Bytes := [1, 2, 3, 4, 5]

def selfHeader : GenHeader := { hdr := { btf := some 2, a := false, sap := 4, raw := [2] }, poc := 3 }

example : (selfPre ++ crcOctets (crcEx.crc32 selfPre)).length = (octets .r12 false).1
    ∧ crcOctets (crcEx.crc32 selfPre) ≠ [0, 0, 0, 0]
    ∧ nBlocks .r12 false (selfPre ++ crcOctets (crcEx.crc32 selfPre) ++ selfPost) = 2
    ∧ padOf .r12 false (selfPre ++ crcOctets (crcEx.crc32 selfPre) ++ selfPost) = 3 := by decide

example : ∃ gs : List GenBlock, gs.length = 2
    ∧ userData (gs.map typed) = selfPre ++ crcOctets (crcEx.crc32 selfPre) ++ selfPost ++ [0, 0, 0] := by
  obtain ⟨_, _, _, gs, _, _, _, h4, h5, _⟩ :=
    selfref_delivered_whole crcEx (fun b => [b]) .r12 selfPre selfPost crcOctets selfHeader 0 1 [false] false
      (by decide) (by decide) crcOctets_lt (fun d => Nat.mod_lt _ (by decide))
      (fun _ _ _ _ => Nat.mod_lt _ (by decide)) (by decide) (by decide) (by decide) (by decide)
  exact ⟨gs, by rw [h4]; decide, by rw [h5]; decide⟩

/-- the generator-side shape: the payload's own last four octets are the on-air CRC-32 of its head (12
octets, rate 1/2 unconfirmed: 2 blocks, 8 pad octets); all 12 octets are sent and delivered -/
example : ∃ gs : List GenBlock, gs.length = 2
    ∧ userData (gs.map typed) = selfPre ++ crcOctets (crcEx.crc32 selfPre) ++ List.replicate 8 0 := by
  obtain ⟨_, _, _, gs, _, _, _, h4, h5, _⟩ :=
    selfref_delivered_whole crcEx (fun b => [b]) .r12 selfPre [] crcOctets
      { hdr := { btf := some 2, a := false, sap := 4, raw := [2] }, poc := 8 } 3 1 [] true
      (by decide) (by decide) crcOctets_lt (fun d => Nat.mod_lt _ (by decide))
      (fun _ _ _ _ => Nat.mod_lt _ (by decide)) (by decide) (by decide) (by decide) (by decide)
  exact ⟨gs, by rw [h4]; decide, by rw [h5]; simp [List.append_nil]⟩

/-! ## structured payload content: payload octets that are themselves a PDU of the protocol

Round 4.  Two realistic receiver changes are invisible to every payload that does not contain protocol data
units of its own: (1) "two blocks in a row that read as confirmed blocks with serial numbers k, k+1 and a true
CRC-9 switch the tracker to confirmed mode" — needs an unconfirmed payload with two adjacent blocks that are
serialised confirmed blocks; (2) "a block whose bits equal the header's is a repeated header and is dropped
from the hand-over" — needs a payload block equal to the transmission's OWN header, which exists because the
header depends on the payload through its length only (pad count, blocks to follow).  Both are instances of
`generated_received`; they are stated here so that the class is explicit: whatever the octets `pdu` inside the
payload are, all N blocks are handed over, they concatenate to the whole payload, and every block is typed in
the mode of the header (the A bit), never in a mode read off the payload. -/

theorem pdu_content_delivered_whole (C : Crc) (raw : CsbkRaw) (r : Rate) (pre pdu post : Bytes)
    (gh : GenHeader) (k cc : Nat) (raises : List Bool) (two : Bool)
    (hpre : ∀ b ∈ pre, b < 256) (hpdu : ∀ b ∈ pdu, b < 256) (hpost : ∀ b ∈ post, b < 256)
    (hcrc32 : ∀ d, C.crc32 d < 2 ^ 32) (hcrc9 : ∀ r d s c, C.crc9 r d s c < 2 ^ 9)
    (hpoc : gh.poc = padOf r gh.hdr.a (pre ++ pdu ++ post))
    (hbtf : gh.hdr.btf = some (nBlocks r gh.hdr.a (pre ++ pdu ++ post)))
    (hn : nBlocks r gh.hdr.a (pre ++ pdu ++ post) ≤ 127) (hk : k ≤ 16) :
    ∃ (bursts : List AbsBurst) (t : Terminal) (recs : List Rec) (gs : List GenBlock),
      generate C raw r (pre ++ pdu ++ post) gh k cc = .ok bursts
      ∧ run (Terminal.init raises) (bursts.map fun b => (two, b)) = .ok (t, recs)
      ∧ allEvents recs =
          [.started .data,
           .dataEnded (.data gh.hdr)
             ((preambleBtfs k (nBlocks r gh.hdr.a (pre ++ pdu ++ post) + 1)).map (fun b => Block.csbk (raw b))
               ++ [.hdr gh.hdr] ++ gs.map typed)]
      ∧ gs.length = nBlocks r gh.hdr.a (pre ++ pdu ++ post)
      ∧ userData (gs.map typed) = pre ++ pdu ++ post ++ List.replicate gh.poc 0
      ∧ (∀ g ∈ gs, g.rate = r ∧ g.ptype.isConfirmed = gh.hdr.a)
      ∧ (∃ g, gs.getLast? = some g ∧ g.ptype.isLast = true ∧ ∀ g' ∈ gs.dropLast, g'.ptype.isLast = false) := by
  have hbytes : ∀ b ∈ pre ++ pdu ++ post, b < 256 := by
    intro b hb
    simp only [List.mem_append] at hb
    rcases hb with (hb | hb) | hb
    · exact hpre b hb
    · exact hpdu b hb
    · exact hpost b hb
  obtain ⟨bursts, t, recs, gs, h1, _, h3, h4, h5, h6, ⟨g, hg1, hg2, _, hg4⟩, h8, _⟩ :=
    generated_received C raw r _ gh k cc raises two hbytes hcrc32 hcrc9 hpoc hbtf hn hk
  exact ⟨bursts, t, recs, gs, h1, h3, h4, h5, h6, fun g hg => ⟨(h8 g hg).1, (h8 g hg).2.1⟩, g, hg1, hg2, hg4⟩

/-- the own header quoted: `pdu` := the octets of the header of this very transmission.  The hand-over still has
the header once and all N data blocks behind it. -/
theorem own_header_quoted_delivered_whole (C : Crc) (raw : CsbkRaw) (r : Rate) (pre post : Bytes)
    (gh : GenHeader) (k cc : Nat) (raises : List Bool) (two : Bool)
    (hpre : ∀ b ∈ pre, b < 256) (hraw : ∀ b ∈ gh.hdr.raw, b < 256) (hpost : ∀ b ∈ post, b < 256)
    (hcrc32 : ∀ d, C.crc32 d < 2 ^ 32) (hcrc9 : ∀ r d s c, C.crc9 r d s c < 2 ^ 9)
    (hpoc : gh.poc = padOf r gh.hdr.a (pre ++ gh.hdr.raw ++ post))
    (hbtf : gh.hdr.btf = some (nBlocks r gh.hdr.a (pre ++ gh.hdr.raw ++ post)))
    (hn : nBlocks r gh.hdr.a (pre ++ gh.hdr.raw ++ post) ≤ 127) (hk : k ≤ 16) :
    ∃ (t : Terminal) (recs : List Rec) (gs : List GenBlock) (bursts : List AbsBurst),
      generate C raw r (pre ++ gh.hdr.raw ++ post) gh k cc = .ok bursts
      ∧ run (Terminal.init raises) (bursts.map fun b => (two, b)) = .ok (t, recs)
      ∧ allEvents recs =
          [.started .data,
           .dataEnded (.data gh.hdr)
             ((preambleBtfs k (nBlocks r gh.hdr.a (pre ++ gh.hdr.raw ++ post) + 1)).map (fun b => Block.csbk (raw b))
               ++ [.hdr gh.hdr] ++ gs.map typed)]
      ∧ gs.length = nBlocks r gh.hdr.a (pre ++ gh.hdr.raw ++ post)
      ∧ userData (gs.map typed) = pre ++ gh.hdr.raw ++ post ++ List.replicate gh.poc 0 := by
  obtain ⟨bursts, t, recs, gs, h1, h2, h3, h4, h5, _⟩ :=
    pdu_content_delivered_whole C raw r pre gh.hdr.raw post gh k cc raises two hpre hraw hpost hcrc32 hcrc9
      hpoc hbtf hn hk
  exact ⟨t, recs, gs, bursts, h1, h2, h3, h4, h5⟩

/-- non-vacuity (1): rate 1/2 unconfirmed, 12 octets, then two serialised CONFIRMED rate 1/2 blocks numbered 5 and 6
with the CRC-9 of the example CRC (12 octets each = exactly blocks 2 and 3 of the transmission), then 5 octets:
4 blocks, 3 pad octets, all four typed unconfirmed -/
def numPre : Bytes := (List.range 12).map (· + 100)

def numBlock (dbsn : Nat) (d : Bytes) : GenBlock :=
  { rate := .r12, ptype := .confirmed, data := d, dbsn := dbsn, crc9 := crcEx.crc9 .r12 d dbsn 0, crc32 := 0 }

/-- the 24 octets of the two serialised confirmed blocks (serial number, CRC-9 field least significant bit first,
ten data octets each) -/
def numPdu : Bytes :=
  [10, 120, 1, 2, 3, 4, 5, 6, 7, 8, 9, 10, 13, 45, 31, 32, 33, 34, 35, 36, 37, 38, 39, 40]

example : bytesToBits numPdu
    = (numBlock 5 ((List.range 10).map (· + 1))).asBits ++ (numBlock 6 ((List.range 10).map (· + 31))).asBits := by
  decide +kernel

def numHeader : GenHeader := { hdr := { btf := some 4, a := false, sap := 4, raw := [3] }, poc := 3 }

example : numPdu.length = 2 * (octets .r12 false).1
    ∧ nBlocks .r12 false (numPre ++ numPdu ++ selfPost) = 4 ∧ padOf .r12 false (numPre ++ numPdu ++ selfPost) = 3 := by
  decide

example : ∃ gs : List GenBlock, gs.length = 4
    ∧ userData (gs.map typed) = numPre ++ numPdu ++ selfPost ++ [0, 0, 0]
    ∧ ∀ g ∈ gs, g.ptype.isConfirmed = false := by
  obtain ⟨_, _, _, gs, _, _, _, h4, h5, h6, _⟩ :=
    pdu_content_delivered_whole crcEx (fun b => [b]) .r12 numPre numPdu selfPost numHeader 1 1 [false] false
      (by decide) (by decide) (by decide) (fun d => Nat.mod_lt _ (by decide))
      (fun _ _ _ _ => Nat.mod_lt _ (by decide)) (by decide) (by decide) (by decide) (by decide)
  exact ⟨gs, by rw [h4]; decide, by rw [h5]; decide, fun g hg => (h6 g hg).2⟩

/-- non-vacuity (2): the header quotes itself — its 12 octets are block 2 of 3 of its own rate 1/2 unconfirmed
transmission (12 + 12 + 5 octets: 3 blocks, 3 pad octets, which is what the header announces) -/
def ownHeader : GenHeader :=
  { hdr := { btf := some 3, a := false, sap := 4, raw := [2, 67, 0, 4, 210, 0, 22, 46, 131, 8, 17, 34] }, poc := 3 }

example : ∃ gs : List GenBlock, gs.length = 3
    ∧ userData (gs.map typed) = numPre ++ ownHeader.hdr.raw ++ selfPost ++ [0, 0, 0] := by
  obtain ⟨_, _, gs, _, _, _, _, h4, h5⟩ :=
    own_header_quoted_delivered_whole crcEx (fun b => [b]) .r12 numPre selfPost ownHeader 2 1 [true, false] true
      (by decide) (by decide) (by decide) (fun d => Nat.mod_lt _ (by decide))
      (fun _ _ _ _ => Nat.mod_lt _ (by decide)) (by decide) (by decide) (by decide) (by decide)
  exact ⟨gs, by rw [h4]; decide, by rw [h5]; decide⟩

/-! ## round 6: the caller's header, every field on its own

`generated_received` is stated for an abstract header (`raw`: its twelve octets, with the data packet format, SAP, flags
and addresses inside), so every combination of format and A bit is covered: the block layout is the one of the A bit.
The two statements below make the class explicit: nothing but the A bit and the pad count of the header reaches the
preambles and data bursts, and a pad count that is not the one of the A bit's mode is refused. -/

/-- the bursts of a generated transmission other than the header burst -/
def notHeader (b : AbsBurst) : Bool :=
  match b.payload with
  | .dataHeader _ => false
  | _ => true

theorem layout_from_a_bit_only (C : Crc) (raw : CsbkRaw) (r : Rate) (payload : Bytes) (gh gh' : GenHeader)
    (k cc : Nat) (ha : gh.hdr.a = gh'.hdr.a) (hp : gh.poc = gh'.poc) :
    (generate C raw r payload gh k cc).map (·.filter notHeader)
      = (generate C raw r payload gh' k cc).map (·.filter notHeader) := by
  unfold generate
  rw [ha, hp]
  cases genBlocks C r gh'.hdr.a payload with
  | error e => rfl
  | ok v =>
    obtain ⟨blocks, pad⟩ := v
    simp only
    split
    · rfl
    · simp [Except.map, List.filter_append, notHeader]

/-- a header that announces another pad octet count than is generated for the mode of its A bit is refused, whatever
its data packet format suggests -/
theorem wrong_pad_refused (C : Crc) (raw : CsbkRaw) (r : Rate) (payload : Bytes) (gh : GenHeader) (k cc : Nat)
    (hpoc : gh.poc ≠ padOf r gh.hdr.a payload) :
    generate C raw r payload gh k cc = .error .assertion := by
  unfold generate
  rw [genBlocks_ok]
  have : (gh.poc != padCount (octets r gh.hdr.a).1 (octets r gh.hdr.a).2 payload.length) = true := by
    simpa [padOf] using hpoc
  simp only [this, if_true]

/-- the data header the generator receives enters its output only as the header burst; the (format, A) = (confirmed
data packet, A clear) combination: unconfirmed blocks -/
example : ∃ bursts, generate crcEx (fun b => [b]) .r12 payloadEx
      { hdr := { btf := some 2, a := false, sap := 4, raw := [0x03] }, poc := 0 } 1 1 = .ok bursts
    ∧ bursts.length = 4 := by
  refine ⟨_, generate_ok _ _ _ _ _ _ _ (by decide), by decide⟩

end Dmr.C07
