import DmrVerif.Lemmas.E2EMain
import DmrVerif.Lemmas.E2EParse
import DmrVerif.Props.C07

/-!
# C07a — C07 composed with C01 (bursts) and C05 (CRCs): no abstract channel, no abstract check sums

`C07.generated_received` is stated over an abstract per-burst channel (the generator hands the receiver the
abstraction `AbsBurst` of every burst: "`parse (serialise b) = b` is C01") and over abstract CRC-32 / CRC-9
functions with only their ranges assumed ("C05").  This module discharges both interfaces with the theorems
that exist for them:

* `burst_channel` — the concrete burst model of `Model/Burst.lean` (assemble as `TransmissionGenerator` does,
  `as_bits`, `Burst.__init__`; BPTC(196,96) of C02, the rate ¾ trellis of C10, slot type / Golay of C06 and the
  PDU codecs of C03 inside) satisfies that channel hypothesis for every payload object the library builds,
  every colour code and every announced burst type: `C01.data_roundtrip`;
  `generation_commutes` — the abstraction of the payload objects the generator builds is what C07's
  generator model produces; `abstraction_reads_info_bits` — on every parsed burst the abstraction hands the
  tracker the de-interleaved information bits, as the real tracker reads them;
* `crc_instance` — the concrete front ends of `Model/CrcFront.lean` (`CRC32.calculate`, byte order of the block
  attribute, `CRC9.calculate_from_parts` with the extracted masks) satisfy the range side conditions, never
  raise on the arguments that occur, and are the polynomial remainders of C05;
* **`generated_received_concrete`** — the composition, with no hypothesis about a channel or a check sum left;
  `loopback_events` — the same as one equation about the executable loop-back function.

Definitions (the glue between the models) are in `Lemmas/E2EDefs.lean`; they are listed there.
-/

namespace Dmr.C07a
open Dmr Dmr.Tracker Dmr.E2E Polynomial
open Dmr.Fragment (GenBlock gens nBlocks padOf preambleBtfs typed)

/-! ## 1. the channel hypothesis of C07 is C01's theorem -/

/-- **Instantiation of the per-burst channel.**  For every payload object the library builds (`Built`: PI header,
voice LC header / terminator, CSBK × 9 — the preamble among them —, data header × 5, rate ½ / ¾ / 1 block ×
confirmed / unconfirmed / last), with the concrete CRC functions, every colour code and whatever burst type the
receiver announces: the burst assembled by the generator serialises to 264 bits, and what the tracker reads
from the parse of those bits is the abstraction of the payload object and the colour code — exactly the
abstract burst C07's generator model hands to the receiver. -/
theorem burst_channel (p : Dmr.Payload) (hp : Burst.Built crcsC p) (cc : Nat) (hcc : cc < 16) (bt : BurstType) :
    ∃ x, wire (p, cc) = .ok x ∧ x.length = 264 ∧ receive bt x = .ok ⟨payloadAbs p, some cc⟩ :=
  channel p hp cc hcc bt

/-- **What the abstraction reads, for every burst the parser accepts.**  The burst model of C01 has no
`info_bits_deinterleaved` / `full_bits` attributes (which the real tracker and the harness's `alpha` read); the
abstraction `absOf` reads the parsed payload object.  For every 264-bit string parsed to a burst with a slot
type that is the same: the colour code is the slot type's, the payload object is `extract_data` of the
de-interleaved information bits, and for the rate ½ / ¾ / 1 data types the bits handed to the tracker are
exactly the de-interleaved information bits of the burst. -/
theorem abstraction_reads_info_bits (x : Bits) (bt : BurstType) (q : Dmr.Burst)
    (hq : Burst.parse crcsC x bt = .ok q) (st : SlotType) (hst : q.slotType = some st) :
    (absOf q).cc = some st.colourCode
    ∧ ∃ deint, Burst.deinterleave (x.take 98 ++ x.drop 166) st.dataType = .ok deint
        ∧ Burst.extractData crcsC st.dataType deint = .ok q.data
        ∧ ∀ r, rateOfDt st.dataType = some r → (absOf q).payload = .rate r deint :=
  absOf_reads_info_bits crcsC x bt q hq st hst

/-- **The abstraction commutes with generation.**  The generator on the level of payload objects
(`genPayloads`: `Fragment.generate` with `Csbk` / `DataHeader` / `RateData` records of C03 in place of their
abstractions) succeeds whenever the header announces the generator's pad count; every object it builds is
`Built` (so `burst_channel` applies); and abstracting its output gives the output of C07's abstract generator
for the concrete CRCs, the octets of the generated preambles and the abstraction of the caller's header. -/
theorem generation_commutes (h : DataHeader) (r : Rate) (payload : Bytes) (k cc : Nat)
    (hh : h.WF ∧ DataHeader.init crcsC.dh h = h) (hbytes : ∀ b ∈ payload, b < 256)
    (hpoc : dhPoc h.payload = padOf r (dhA h.payload) payload)
    (hbtf : dhBtf h.payload = some (nBlocks r (dhA h.payload) payload)) (hk : k ≤ 16) (hcc : cc < 16) :
    ∃ pls, genPayloads h r payload k cc = .ok pls
      ∧ (∀ pc ∈ pls, Burst.Built crcsC pc.1 ∧ pc.2 < 16)
      ∧ Fragment.generate crcC (rawOf h) r payload (ghOf h) k cc = .ok (pls.map absGen) := by
  have hn : nBlocks r (dhA h.payload) payload ≤ 127 := by
    have := dhBtf_lt h hh.1 _ hbtf; omega
  refine ⟨_, genPayloads_ok h r payload k cc hpoc, genList_built h r payload k cc hh hbytes hn hk hcc, ?_⟩
  rw [genList_abs h r payload k cc hbytes]
  exact Fragment.generate_ok crcC (rawOf h) r payload (ghOf h) k cc hpoc

/-! ## 2. the abstract check sums of C07 are C05's front ends -/

/-- **Instantiation of the CRC parameters.**  With `crcC` = (`crc32c`, `crc9c`):
the two range side conditions of `C07.generated_received` hold;
`CRC32.calculate` never raises, its value `v` is < 2^32 and its 32 bits are the remainder of
`swapped(d)(x)·x^32` modulo the CRC-32 generator (C05), the block attribute is `v` with its octets reversed
and the receiver's `CRC32.check` accepts it;
`CRC9.calculate_from_parts` never raises for a serial number < 128 and an integer CRC-32 < 2^32 (what blocks
hold), its value is the inverted remainder of data ‖ [CRC-32 unless 0] ‖ serial number modulo the CRC-9
generator xor the extracted mask of the rate (C05), and `CRC9.check` accepts it. -/
theorem crc_instance :
    (∀ d, crcC.crc32 d < 2 ^ 32) ∧ (∀ r d s c, crcC.crc9 r d s c < 2 ^ 9)
    ∧ (∀ d, ∃ v, Crc.crc32 d = .ok v ∧ v < 2 ^ 32 ∧ crcC.crc32 d = rev4 v
          ∧ Crc.toPoly (natToBits 32 v)
              = (Crc.toPoly (bytesToBits (Crc.byteswap d)) * X ^ 32) %ₘ Crc.genPoly Gen.crc32
          ∧ Crc.crc32Check d (rev4 (crcC.crc32 d) : Nat) = .ok true)
    ∧ (∀ (r : Rate) (d : Bytes) (s c : Nat), s < 128 → c < 2 ^ 32 →
          Crc.crc9 d (s : Int) (mask9 r) (.int (c : Int)) = .ok (crcC.crc9 r d s c)
          ∧ crcC.crc9 r d s c
              = Nat.xor (bitsToNat (Crc.inv (C05.crcBits Gen.crc9
                  (bytesToBits d ++ (if c = 0 then [] else natToBits 32 c) ++ natToBits 7 s)))) (mask9 r)
          ∧ Crc.crc9Check d (s : Int) (crcC.crc9 r d s c : Nat) (mask9 r) (.int (c : Int)) = .ok true) :=
  ⟨crc32c_lt, crc9c_lt,
   fun d => ⟨crc32v d, crc32_ok d, crc32v_lt d, crc32c_eq d, crc32v_rem d, crc32Check_ok d⟩,
   fun r d s c hs hc =>
    ⟨by rw [crc9_ok r d s c hs hc]; exact congrArg _ (crc9c_eq r d s c hs hc).symm, crc9c_eq r d s c hs hc,
      crc9Check_ok r d s c hs hc⟩⟩

/-! ## 3. the composition -/

/-- **generated_received_concrete.**  For every payload (octets), rate, preamble count k ≤ 16, colour code
< 16, time slot, observers, announced burst type, and every caller-supplied data header object `h` as its
constructor leaves it (any of the formats with a blocks-to-follow, mode = its A bit) that announces the
generator's pad count and block count:

the generator builds k + 1 + N payload objects; each is assembled and serialised to 264 bits by the concrete
burst model; each of those bit strings is parsed back by the concrete parser; the tracker, fed with what it reads
from the parsed bursts, never fails and delivers exactly `[started data, data ended hdr (preambles ++ hdr ++
blocks)]`; the received blocks are the typed views of the generated blocks (`gens`), N of them; their data
concatenates to payload ++ pad zeros; the final block and only it is typed last, and the CRC-32 field the
receiver reads from it is the octet-reversed value `v` of `CRC32.calculate(payload ++ pad)`, where the 32 bits
of `v` are the remainder of C05, and `CRC32.check` accepts it; every block has the rate and mode of the
transmission, its CRC-9 is accepted by the receiver's rule (`crc9_ok`) computed with the concrete CRC-9, and for
every confirmed block `CRC9.check` on the data, serial number, CRC-9 field and CRC-32 the receiver reads from
the block's bits returns `True`; a non-last block's CRC-9 covers (data, serial number 0) without CRC-32;
preamble counts fit their field; the slot is idle afterwards.

No function or channel is left abstract: `crcC` / `crcsC` are the front ends of `Model/CrcFront.lean`
(`crc_instance`), `wire` / `receive` are `Burst.build` / `serialise` / `parse` of `Model/Burst.lean`. -/
theorem generated_received_concrete (h : DataHeader) (r : Rate) (payload : Bytes) (k cc : Nat)
    (raises : List Bool) (two : Bool) (bt : BurstType)
    (hh : h.WF ∧ DataHeader.init crcsC.dh h = h)
    (hbytes : ∀ b ∈ payload, b < 256)
    (hpoc : dhPoc h.payload = padOf r (dhA h.payload) payload)
    (hbtf : dhBtf h.payload = some (nBlocks r (dhA h.payload) payload))
    (hk : k ≤ 16) (hcc : cc < 16) :
    ∃ (pls : List (Dmr.Payload × Nat)) (xs : List Bits) (rx : List AbsBurst) (t : Terminal) (recs : List Rec)
      (gs : List GenBlock) (v : Nat),
      genPayloads h r payload k cc = .ok pls
      ∧ mapE wire pls = .ok xs
      ∧ xs.length = k + 1 + nBlocks r (dhA h.payload) payload
      ∧ (∀ x ∈ xs, x.length = 264)
      ∧ mapE (receive bt) xs = .ok rx
      ∧ run (Terminal.init raises) (rx.map fun b => (two, b)) = .ok (t, recs)
      ∧ allEvents recs =
          [.started .data,
           .dataEnded (.data (hdrAbs h))
             ((preambleBtfs k (nBlocks r (dhA h.payload) payload + 1)).map (fun b => Block.csbk (rawOf h b))
               ++ [.hdr (hdrAbs h)] ++ gs.map typed)]
      ∧ gs.map typed = (gens crcC r (dhA h.payload) payload).map typed
      ∧ gs.length = nBlocks r (dhA h.payload) payload
      ∧ userData (gs.map typed) = payload ++ List.replicate (dhPoc h.payload) 0
      ∧ (∃ g, gs.getLast? = some g ∧ g.ptype.isLast = true
            ∧ Crc.crc32 (payload ++ List.replicate (dhPoc h.payload) 0) = .ok v
            ∧ Crc.toPoly (natToBits 32 v)
                = (Crc.toPoly (bytesToBits (Crc.byteswap (payload ++ List.replicate (dhPoc h.payload) 0))) * X ^ 32)
                    %ₘ Crc.genPoly Gen.crc32
            ∧ blockCrc32 g.rate g.ptype g.asBits = rev4 v
            ∧ Crc.crc32Check (payload ++ List.replicate (dhPoc h.payload) 0)
                (rev4 (blockCrc32 g.rate g.ptype g.asBits) : Nat) = .ok true
            ∧ ∀ g' ∈ gs.dropLast, g'.ptype.isLast = false)
      ∧ (∀ g ∈ gs, g.rate = r ∧ g.ptype.isConfirmed = dhA h.payload
            ∧ Fragment.crc9Ok crcC g.rate g.ptype g.asBits = true
            ∧ RxCrc9 g.rate g.ptype g.asBits
            ∧ (g.ptype.isLast = false → g.crc9 = crc9c r g.data 0 0))
      ∧ (∀ b ∈ preambleBtfs k (nBlocks r (dhA h.payload) payload + 1), b < 256)
      ∧ (t.slot two).tx.isIdleFresh = true := by
  have hn : nBlocks r (dhA h.payload) payload ≤ 127 := by
    have := dhBtf_lt h hh.1 _ hbtf; omega
  -- the channel, burst by burst (C01), and the abstraction of what was generated
  obtain ⟨xs, hx1, hx2, hx3, hx4⟩ := channel_list (genList h r payload k cc) bt
    (genList_built h r payload k cc hh hbytes hn hk hcc)
  rw [genList_abs h r payload k cc hbytes] at hx4
  rw [genList_length] at hx2
  -- C07, instantiated with the concrete check sums (C05)
  obtain ⟨bursts, t, recs, gs, g1, _, g3, g4, g5, g6, ⟨g, g7a, g7b, g7c, g7d⟩, g8, g9, g10⟩ :=
    C07.generated_received crcC (rawOf h) r payload (ghOf h) k cc raises two hbytes crcC_ranges.1
      crcC_ranges.2 hpoc hbtf hn hk
  rw [Fragment.generate_ok crcC (rawOf h) r payload (ghOf h) k cc hpoc] at g1
  obtain rfl := Except.ok.inj g1
  -- the receiver is a function: the blocks it delivers are the typed views of the generated blocks
  obtain ⟨t', recs', hrun', hev'⟩ :=
    run_generated crcC (rawOf h) r payload (ghOf h).hdr k cc raises two hbytes hbtf
  have hsame : (t, recs) = (t', recs') := Except.ok.inj (g3.symm.trans hrun')
  obtain ⟨rfl, rfl⟩ := Prod.mk.inj hsame
  have hE := g4.symm.trans hev'
  simp only [List.cons.injEq, Event.dataEnded.injEq, and_true, true_and] at hE
  have htyped : gs.map typed = (gens crcC r (dhA h.payload) payload).map typed := List.append_cancel_left hE
  have hrx := rxCrc9_transfer gs _ htyped (rxCrc9_gens r (dhA h.payload) payload hbytes)
  -- the CRC-32 the last block carries (C05)
  have hc32 : blockCrc32 g.rate g.ptype g.asBits
      = crc32c (payload ++ List.replicate (dhPoc h.payload) 0) := g7c
  refine ⟨_, xs, _, t, recs, gs, crc32v (payload ++ List.replicate (dhPoc h.payload) 0),
    genPayloads_ok h r payload k cc hpoc, hx1, hx2, hx3, hx4, g3, g4, htyped, g5, g6,
    ⟨g, g7a, g7b, crc32_ok _, crc32v_rem _, by rw [hc32, crc32c_eq], by rw [hc32]; exact crc32Check_ok _, g7d⟩,
    fun g' hg' => ⟨(g8 g' hg').1, (g8 g' hg').2.1, (g8 g' hg').2.2.1, hrx g' hg', (g8 g' hg').2.2.2⟩, g9, g10⟩

/-- **The loop-back run as one equation.**  Under the same hypotheses the executable composition
generator → `as_bits` of every burst → `Burst.__init__` on the 264 bits → terminal returns exactly the two
events, with the caller's header, the generated preambles and the typed views of the generated blocks. -/
theorem loopback_events (h : DataHeader) (r : Rate) (payload : Bytes) (k cc : Nat)
    (raises : List Bool) (two : Bool) (bt : BurstType)
    (hh : h.WF ∧ DataHeader.init crcsC.dh h = h)
    (hbytes : ∀ b ∈ payload, b < 256)
    (hpoc : dhPoc h.payload = padOf r (dhA h.payload) payload)
    (hbtf : dhBtf h.payload = some (nBlocks r (dhA h.payload) payload))
    (hk : k ≤ 16) (hcc : cc < 16) :
    loopback h r payload k cc bt raises two =
      .ok [.started .data,
           .dataEnded (.data (hdrAbs h))
             ((preambleBtfs k (nBlocks r (dhA h.payload) payload + 1)).map (fun b => Block.csbk (rawOf h b))
               ++ [.hdr (hdrAbs h)] ++ (gens crcC r (dhA h.payload) payload).map typed)] := by
  obtain ⟨pls, xs, rx, t, recs, gs, v, h1, h2, _, _, h5, h6, h7, h8, _⟩ :=
    generated_received_concrete h r payload k cc raises two bt hh hbytes hpoc hbtf hk hcc
  unfold loopback
  simp only [h1, h2, h5, h6]
  rw [← h8]
  exact congrArg _ h7

/-! ## non-vacuity

(The numbers below were also produced by the real library on the same inputs when this module was written;
kernel evaluation of one full BPTC(196,96) burst through the list model costs ≈ 45 s / 4 GB, so the complete
loop-back is evaluated through `loopback_events`, and a rate-1 burst — no BPTC — directly.) -/

/-- a caller's header: confirmed data packet, A bit set, 5 pad octets, SAP 4, 2 blocks to follow -/
def hEx : DataHeader :=
  ⟨[false, false, true, false, false, true, true, true, true, false, true, true, true, false, true, false],
   .confirmed false true 5 4 2623266 1234 1 2 0 0 8⟩

def payloadEx : Bytes := [1, 2, 3, 4, 5, 6, 7, 8, 9, 10, 11]

/-- its CRC is what the constructor computes for the all-zero CRC argument (CRC-CCITT through the front end) -/
example : DataHeader.init crcsC.dh ⟨zeros 16, hEx.payload⟩ = hEx := by decide +kernel

def hdrEx : DataHdr :=
  { btf := some 2, a := true, sap := 4, raw := [67, 69, 40, 7, 34, 0, 4, 210, 130, 8, 39, 186] }

/-- the hypotheses of `generated_received_concrete` hold for it: 11 octets at rate ½ confirmed are 2 blocks
with 5 pad octets -/
example : (hEx.WF ∧ DataHeader.init crcsC.dh hEx = hEx) ∧ (∀ b ∈ payloadEx, b < 256)
    ∧ dhPoc hEx.payload = padOf .r12 (dhA hEx.payload) payloadEx
    ∧ dhBtf hEx.payload = some (nBlocks .r12 (dhA hEx.payload) payloadEx) := by decide +kernel

/-- the loop-back run on it — 2 preambles, colour code 3, slot 2, a raising and a quiet observer, burst type
not announced — delivers the header, the two preambles counting 4, 3, and two typed blocks whose 96 bits are
serial number 0, CRC-9 307 / 354 (least significant bit first), the data octets and, in the last block, the
CRC-32 field 0xE26B67A3 -/
example : loopback hEx .r12 payloadEx 2 3 .undefined [true, false] true
    = .ok [.started .data,
           .dataEnded (.data hdrEx)
             [.csbk [189, 0, 128, 4, 40, 7, 34, 0, 4, 210, 5, 202],
              .csbk [189, 0, 128, 3, 40, 7, 34, 0, 4, 210, 28, 142],
              .hdr hdrEx,
              .rate .r12 .confirmed (natToBits 96 494455419699658554985679114),
              .rate .r12 .confirmedLast (natToBits 96 170510486596974283529611171)]] := by
  rw [loopback_events hEx .r12 payloadEx 2 3 [true, false] true .undefined (by decide +kernel) (by decide)
    (by decide +kernel) (by decide +kernel) (by decide) (by decide)]
  decide +kernel

/-- the check sums in those blocks, recomputed by the front ends of C05 on the received fields:
`CRC32.calculate(payload ++ pad) = 0xA3676BE2`, octets reversed = the field; `CRC9.check` accepts 307 over
(data, 0) and 354 over (data, CRC-32, 0) with the rate ½ mask -/
example : Crc.crc32 (payloadEx ++ List.replicate 5 0) = .ok 2741464034 ∧ rev4 2741464034 = 3798689699
    ∧ userData [.rate .r12 .confirmed (natToBits 96 494455419699658554985679114),
                .rate .r12 .confirmedLast (natToBits 96 170510486596974283529611171)]
        = payloadEx ++ List.replicate 5 0
    ∧ blockCrc32 .r12 .confirmedLast (natToBits 96 170510486596974283529611171) = 3798689699
    ∧ blockCrc9 .confirmed (natToBits 96 494455419699658554985679114) = 307
    ∧ blockCrc9 .confirmedLast (natToBits 96 170510486596974283529611171) = 354
    ∧ Crc.crc9Check [1, 2, 3, 4, 5, 6, 7, 8, 9, 10] 0 307 (mask9 .r12) (.int 0) = .ok true
    ∧ Crc.crc9Check [11, 0, 0, 0, 0, 0] 0 354 (mask9 .r12) (.int 3798689699) = .ok true
    ∧ Crc.crc9Check [11, 0, 0, 0, 0, 0] 0 354 (mask9 .r12) (.int 0) = .ok false := by decide +kernel

/-- one burst through the concrete channel, evaluated by the kernel alone (no theorem involved): a confirmed
rate-1 block, colour code 3 — assembled, serialised to 264 bits, parsed, abstracted: the tracker reads the
192 information bits the block serialises to (serial number 0, CRC-9 412, 22 data octets) -/
example :
    (match wire (.rate1 ⟨(List.range 22).map (· * 11 + 3), 0, 412, 0⟩, 3) with
      | .ok x => if x.length = 264 then receive .undefined x else .error .other
      | .error e => .error e)
    = .ok ⟨.rate .r1 (natToBits 7 0 ++ (natToBits 9 412).reverse
              ++ bytesToBits ((List.range 22).map (· * 11 + 3))), some 3⟩
    ∧ crc9c .r1 ((List.range 22).map (· * 11 + 3)) 0 0 = 412 := by decide +kernel

end Dmr.C07a
