import DmrVerif.Lemmas.PduCsbk

/-!
# C03 — layer-2/3 PDUs and information elements survive encode–decode (part 1: elements, CSBK)

Statements only; proofs are in `Lemmas/Elem.lean`, `Lemmas/Layout.lean`, `Lemmas/Pdu*.lean`.

* Elements: `Gen/Elements.lean` holds, for every w-bit element (w ≤ 8), the complete graph obtained
  by calling the real class on all 2^w values; the statements are decided on those graphs by the
  kernel, so for elements the model *is* the code.
* PDUs: `X.enc` mirrors `as_bits`, `X.dec` mirrors `from_bits`, `X.init` the constructor's
  "CRC field 0 ⇒ compute it" rule.  The CRC functions are parameters (`f`), so every statement holds
  for whatever `CRC16.calculate` computes (its correctness is C05's subject).

Part 2 (`C03a`): data header, full LC; part 3 (`C03b`): short LC, PI header, rate ½ / ¾ / 1 data,
UDP/IPv4 compressed header.
-/

namespace Dmr.C03
open Dmr Dmr.Gen

/-! ## information elements -/

/-- **Element totality.**  For every extracted element `E` and every value `v` of its bit width: the
class never yields nothing; a defined value maps to itself; an undefined one maps to a defined member
(the standard's reserved member) that maps to itself, or raises. -/
theorem elem_total {E : Elem} (hE : E ∈ allElems) (v : Nat) (hv : v < 2 ^ E.w) :
    E.lookup v ≠ .nothing
    ∧ (E.defined v = true → E.lookup v = .member v)
    ∧ (∀ r, E.lookup v = .member r → E.defined r = true ∧ E.lookup r = .member r ∧ r < 2 ^ E.w) := by
  have ht := Elem.total_of_mem hE
  have hlen : E.graph.length = 2 ^ E.w := by
    simp only [Elem.total, Bool.and_eq_true, beq_iff_eq] at ht
    exact ht.1.1.1.1.1
  have hmem : E.lookup v ∈ E.graph := by
    unfold Elem.lookup
    rw [List.getD_eq_getElem?_getD, List.getElem?_eq_getElem (by omega), Option.getD_some]
    exact List.getElem_mem _
  refine ⟨?_, fun hd => (Elem.total_members ht hd).2, ?_⟩
  · simp only [Elem.total, Bool.and_eq_true, List.all_eq_true] at ht
    have := ht.1.1.1.1.2 _ hmem
    simpa using this
  · intro r hr
    have hdec : E.dec v = .ok r := by simp [Elem.dec, hr]
    have hd := Elem.defined_of_dec ht hdec
    exact ⟨hd, (Elem.total_members ht hd).2, (Elem.total_members ht hd).1⟩

/-- the only exception an element constructor raises inside its bit width is `ValueError`
("… is undefined"); range assertions cannot fire -/
theorem elem_errors {E : Elem} (hE : E ∈ allElems) (v : Nat) (e : Err) (h : E.dec v = .error e) :
    e = .valueError := Elem.err_valueError_mem h hE

/-- `from_bits(int2ba(v, w))` agrees with the constructor call, and `as_bits()` of a member is its
value on `w` bits (for the elements that have these methods) -/
theorem elem_bits {E : Elem} (hE : E ∈ allElems) :
    (E.fromBits = [] ∨ E.fromBits = E.graph) ∧ (E.asBits = [] ∨ E.asBits = E.members.map (natToBits E.w)) := by
  have ht := Elem.total_of_mem hE
  simp only [Elem.total, Bool.and_eq_true, Bool.or_eq_true, List.isEmpty_iff, beq_iff_eq] at ht
  exact ⟨ht.1.2, ht.2⟩

/-- the nine CSBK opcodes with a layout are defined `CsbkOpcodes` members -/
theorem csbk_opcodes_defined :
    [Csbk.opBsDwnAct, Csbk.opUuVReq, Csbk.opUuAnsRsp, Csbk.opNackRsp, Csbk.opPreamble,
     Csbk.opChannelTiming, Csbk.opHyteraIpscSync, Csbk.opAloha, Csbk.opBroadcast].all eCsbkOpcodes.defined = true := by
  decide +kernel

/-! ## ServiceOptions -/

theorem so_enc_length (s : ServiceOptions) : s.enc.length = 8 := ServiceOptions.enc_length s

theorem so_dec_enc (s : ServiceOptions) (h : s.WF) : ServiceOptions.dec s.enc = .ok s :=
  ServiceOptions.dec_enc s h

theorem so_fixpoint (bs : Bits) (s : ServiceOptions) (h : ServiceOptions.dec bs = .ok s) :
    ServiceOptions.dec s.enc = .ok s :=
  ServiceOptions.dec_enc s (ServiceOptions.dec_wf bs s h)

theorem so_dec_total (bs : Bits) (h : bs.length = 8) : ∃ s, ServiceOptions.dec bs = .ok s :=
  ServiceOptions.dec_total bs h

/-! ## CSBK (nine opcodes) -/

/-- a CSBK built from in-range field values serialises to 96 bits -/
theorem csbk_enc_length (p : Csbk) (h : p.WF) : (Csbk.enc p).length = 96 := Csbk.enc_length p h

/-- … and decodes back to the same object: **every** field of every opcode equal.  `Csbk.init` is the
constructor's CRC rule; it changes nothing but `crc`, and only if `crc = 0` (`csbk_init_fields`). -/
theorem csbk_dec_enc (f : Bits → Nat) (p : Csbk) (h : p.WF) : Csbk.dec f (Csbk.enc p) = .ok (Csbk.init f p) :=
  Csbk.dec_enc f p h

/-- what `norm = Csbk.init f` can change: only the CRC field, and only the sentinel value 0 -/
theorem csbk_init_fields (f : Bits → Nat) (p : Csbk) :
    (Csbk.init f p).lastBlock = p.lastBlock ∧ (Csbk.init f p).protectFlag = p.protectFlag
    ∧ (Csbk.init f p).fid = p.fid ∧ (Csbk.init f p).payload = p.payload
    ∧ (p.crc ≠ 0 → Csbk.init f p = p) := by
  unfold Csbk.init
  split <;> simp_all

/-- for an object as the constructor leaves it (`init` applied) the round trip is the identity, and
so are the bits: `from_bits(as_bits(p)) = p`, `as_bits(from_bits(as_bits(p))) = as_bits(p)` -/
theorem csbk_roundtrip (f : Bits → Nat) (hf : ∀ x, f x < 2 ^ 16) (p : Csbk) (h : p.WF) :
    Csbk.dec f (Csbk.enc (Csbk.init f p)) = .ok (Csbk.init f p) := by
  rw [Csbk.dec_enc f _ (Csbk.init_wf f hf p h), Csbk.init_idem f p h]

/-- decoding any 96-bit string that succeeds yields an object whose serialisation has 96 bits and is
a fixed point of decode-then-encode -/
theorem csbk_fixpoint (f : Bits → Nat) (hf : ∀ x, f x < 2 ^ 16) (bs : Bits) (hl : bs.length = 96)
    (p : Csbk) (h : Csbk.dec f bs = .ok p) :
    Csbk.dec f (Csbk.enc p) = .ok p ∧ (Csbk.enc p).length = 96 :=
  Csbk.fixpoint f hf bs hl p h

/-- any 96-bit string decodes, or raises `ValueError` (undefined opcode / answer response / reason
code / service type) or `NotImplementedError` (defined opcode without a layout) — nothing else -/
theorem csbk_dec_total (f : Bits → Nat) (bs : Bits) (hl : bs.length = 96) :
    (∃ p, Csbk.dec f bs = .ok p) ∨ Csbk.dec f bs = .error .valueError
      ∨ Csbk.dec f bs = .error .notImplemented := by
  cases h : Csbk.dec f bs with
  | ok p => exact Or.inl ⟨p, rfl⟩
  | error e =>
    rcases Csbk.dec_errors f bs hl e h with rfl | rfl
    · exact Or.inr (Or.inl rfl)
    · exact Or.inr (Or.inr rfl)

/-! ## non-vacuity -/

/-- a negative acknowledgement with `additional_information_field = Ignore` (the value the encoder
used to overwrite with 1), an Aloha with `last_block = False` (the flag the decoder used to drop) -/
example : (⟨true, false, 0, 0, .nackRsp 0 1 4 33 2623266 1234⟩ : Csbk).WF := by decide
example : (⟨false, false, 16, 0x1234, .aloha true false 3 false true 21 2 7 true 5 0xBEEF 2623266⟩ : Csbk).WF := by
  decide
example : (Csbk.dec (fun _ => 7) (Csbk.enc ⟨true, false, 0, 0, .nackRsp 0 1 4 33 2623266 1234⟩)).toOption.map
    (·.payload) = some (.nackRsp 0 1 4 33 2623266 1234) := by decide +kernel
example : (Csbk.dec (fun _ => 7) (Csbk.enc
      ⟨false, false, 16, 0x1234, .aloha true false 3 false true 21 2 7 true 5 0xBEEF 2623266⟩)).toOption.map
    (·.lastBlock) = some false := by decide +kernel

end Dmr.C03
