import DmrVerif.Lemmas.Ipsc

/-!
# C13 — Hytera IPSC frames map to bursts identically by either decoder and re-encode

Property theorems only.  The model is `Model/Ipsc.lean` (`HyteraIPSC.from_ipsc_bytes`, the field map of
the generated Kaitai parser followed by `from_kaitai`, `as_ipsc_bytes`, `byteswap_bytes`,
`half_byte_to_bytes`, the dispatch of `Burst.from_hytera_ipsc`; tied to the code by the correspondence
run), the enumeration graphs are the ones `tools/extract_ipsc.py` obtained from `/repo` on this run by
calling the enums on all 2^8 / 2^16 values (`Gen/Ipsc.lean`).  `Frame`, `Frame.bytes` (the 72 octets a
frame with given fields consists of), `Frame.wf`, `Frame.obj` and `Frame.view` are in `Lemmas/Ipsc.lean`.
The content of the burst is opaque here (264 bits handed to the `Burst` constructor, property C01).
-/

namespace Dmr.C13
open Dmr Dmr.Ipsc

/-- the extracted tables are the ones of the property: packet types 41/42/43/01, call types 0/1/2/0C,
frame types 0000/1111/3333/6666/BBBB/EEEE, slot types k·0x1111 (k = 0..15), timeslots 1111/2222;
undefined packet / frame type values fall back to TypeA / Data, all others are rejected -/
theorem tables :
    Gen.Ipsc.packetTypeVal = [0x41, 0x42, 0x43, 0x01] ∧ Gen.Ipsc.packetTypeDefault = some 0 ∧
    Gen.Ipsc.callTypeVal = [0, 1, 2, 0x0C] ∧ Gen.Ipsc.callTypeDefault = none ∧
    Gen.Ipsc.frameTypeVal = [0x0000, 0x1111, 0x3333, 0x6666, 0xBBBB, 0xEEEE] ∧ Gen.Ipsc.frameTypeDefault = some 0 ∧
    Gen.Ipsc.slotTypeVal = (List.range 16).map (· * 0x1111) ∧ Gen.Ipsc.slotTypeDefault = none ∧
    Gen.Ipsc.timeslotVal = [0x1111, 0x2222] ∧ Gen.Ipsc.timeslotDefault = none := by
  decide

/-- **paths agree, for every buffer**: on any 72 octets with the fixed second header `5a 5a` the
raw-bytes decoder and the generic-parser decoder return the same result — the same `HyteraIPSC`
object (all 18 attributes) or the same error — hence the same burst class, requested burst type,
payload bits, timeslot, sequence number, colour code and radio ids.  No assumption on the field values:
undefined type values are rejected / defaulted alike, although one path reads the 16-bit type words
big-endian and the other little-endian (every member value has two equal octets). -/
theorem paths_agree_all (d : Bytes) (hlen : d.length = 72) (hb : ∀ b ∈ d, b < 256)
    (hh : (d.drop 2).take 2 = [0x5a, 0x5a]) :
    kaitaiPath d = fromIpscBytes d ∧ burstKaitai d = burstRaw d := by
  have hs : slice d 2 4 = [0x5a, 0x5a] := by
    unfold slice; rw [List.drop_take]; exact hh
  have h := Ipsc.paths_agree_all d hlen hb hs
  exact ⟨h, by unfold burstKaitai burstRaw; rw [h]⟩

/-- **paths agree on well-formed frames and decode what the frame encodes** (`ids_cc_spec`): both
decoders return `f.obj`, whose sequence number, colour code (4 bit), source and destination id (24 bit),
type members and reserved octets are the fields of `f`, whose payload is the byte-swapped payload field
without its last octet and whose pad is that octet -/
theorem paths_agree (f : Frame) (h : f.wf = true) :
    fromIpscBytes f.bytes = .ok f.obj ∧ kaitaiPath f.bytes = .ok f.obj ∧
    f.obj.seq = f.seq ∧ f.obj.cc = f.cc ∧ f.obj.src = f.src ∧ f.obj.dst = f.dst ∧
    f.obj.timeslot = f.ts ∧ f.obj.slotType = f.st ∧ f.obj.frameType = f.ft ∧ f.obj.packetType = f.pt ∧
    f.obj.callType = f.ct ∧ f.obj.payload = (byteswap f.payload).dropLast ∧ f.obj.payload.length = 33 :=
  ⟨decode_raw f h, decode_kaitai f h, rfl, rfl, rfl, rfl, rfl, rfl, rfl, rfl, rfl, rfl, by
    have : f.payload.length = 34 := by
      simp only [Frame.wf, Bool.and_eq_true, decide_eq_true_eq] at h
      exact h.1.1.1.1.1.1.2
    simp [Frame.obj, byteswap_length, this]⟩

/-- the burst built by `Burst.from_hytera_ipsc` from the bytes and from the parser object: same class
(sync for the sync slot type, wake-up for the wake-up slot / call types, else a plain burst requested
as vocoder or data by slot type), the 33 payload octets, timeslot 1/2, and the frame's sequence number,
colour code and ids -/
theorem bursts_agree (f : Frame) (h : f.wf = true) :
    burstRaw f.bytes = .ok f.view ∧ burstKaitai f.bytes = .ok f.view ∧
    f.view.seq = f.seq ∧ f.view.cc = f.cc ∧ f.view.src = f.src ∧ f.view.dst = f.dst ∧
    f.view.timeslot = (if f.ts = 0 then 1 else 2) ∧ f.view.payload = (byteswap f.payload).dropLast := by
  refine ⟨?_, ?_, rfl, rfl, rfl, rfl, ?_, rfl⟩
  · unfold burstRaw; rw [decode_raw f h]; exact burstOf_obj f h
  · unfold burstKaitai; rw [decode_kaitai f h]; exact burstOf_obj f h
  · have : Gen.Ipsc.timeslot1Idx = 0 := by decide
    simp [Frame.view, this]

/-- **reserialise**: the frame decoded by either path serialises to the original 72 octets, whatever
the reserved octets and the 34 payload octets are (the 34th payload octet is kept as `pad`) -/
theorem reserialise (f : Frame) (h : f.wf = true) :
    f.bytes.length = 72 ∧
    (fromIpscBytes f.bytes).bind asIpscBytes = .ok f.bytes ∧
    (kaitaiPath f.bytes).bind asIpscBytes = .ok f.bytes := by
  refine ⟨(frame_facts f h).1, ?_, ?_⟩
  · rw [decode_raw f h]; exact Ipsc.reserialise f h
  · rw [decode_kaitai f h]; exact Ipsc.reserialise f h

/-- `byteswap_bytes` is an involution and keeps the length — for every length (the property asks for
even lengths; with an odd length the last octet stays in place) -/
theorem byteswap_involution (bs : Bytes) :
    byteswap (byteswap bs) = bs ∧ (byteswap bs).length = bs.length :=
  ⟨byteswap_byteswap bs, byteswap_length bs⟩

/-- on an even length the swap exchanges the octets of every 16-bit word -/
theorem byteswap_even (a b : Nat) (r : Bytes) (h : r.length % 2 = 0) :
    byteswap (a :: b :: r) = b :: a :: byteswap r := by
  have h2 : (a :: b :: r).length % 2 = 0 := by simp; omega
  unfold byteswap
  rw [if_pos h2, if_pos h]
  rfl

/-- `half_byte_to_bytes` repeats the nibble: colour codes 0..15 give the word `cc·0x1111` -/
theorem half_byte_spec (c : Nat) (h : c < 16) : halfByte c 2 = .ok [17 * c, 17 * c] := by
  unfold halfByte
  rw [lor_nibble c h, if_neg (by omega)]
  rfl

/-- the hypotheses are satisfiable by non-trivial values: two captured frames of the test-suite are
`bytes` of well-formed `Frame`s — a voice-sync frame (destination 111, source 2308090, colour code 5)
and a wake-up frame whose 34th payload octet (the pad) is `ef`, not 0 — and the decoders compute on
them what the theorems say -/
def exFrame : Frame :=
  { first := [0x5a, 0x5a], seq := 0, r3 := [0, 0, 0], pt := 1, r7 := [0, 5, 1, 1, 0, 0, 0], ts := 0, st := 14,
    cc := 5, ft := 1, r2a := [0x40, 0x28],
    payload := [0x00, 0x00, 0x00, 0x00, 0x00, 0x00, 0x00, 0x00, 0x00, 0x00, 0x6f, 0x00, 0x23, 0x00, 0x37, 0x00, 0xfa,
      0x00, 0x34, 0x2a, 0x2c, 0x10, 0x94, 0x2a, 0x2c, 0x10, 0xf4, 0x2a, 0x2c, 0x10, 0x83, 0x56, 0x00, 0xf0],
    r2b := [0x36, 0x08], ct := 1, dst := 111, src := 2308090, r1 := [0] }

example : exFrame.wf = true ∧ exFrame.bytes.length = 72 ∧
    exFrame.bytes.take 8 = [0x5a, 0x5a, 0x5a, 0x5a, 0, 0, 0, 0] ∧
    exFrame.bytes.drop 60 = [0x36, 0x08, 0x01, 0x00, 0x6f, 0x00, 0x00, 0x00, 0xfa, 0x37, 0x23, 0x00] := by
  decide

example : (fromIpscBytes exFrame.bytes).map (fun x => (x.src, x.dst, x.cc, x.pad))
    = .ok (2308090, 111, 5, [0x00]) := by rfl

/-- `5a5a5a5a0000000042000501020000002222dddd5555000040000000…0100020002000100…00ffffef0891d1000000000000fa372300` -/
def exWakeup : Frame :=
  { first := [0x5a, 0x5a], seq := 0, r3 := [0, 0, 0], pt := 1, r7 := [0, 5, 1, 2, 0, 0, 0], ts := 1, st := 13,
    cc := 5, ft := 0, r2a := [0x40, 0x00],
    payload := [0x00, 0x00, 0x00, 0x00, 0x00, 0x00, 0x00, 0x00, 0x00, 0x00, 0x01, 0x00, 0x02, 0x00, 0x02, 0x00, 0x01,
      0x00, 0x00, 0x00, 0x00, 0x00, 0x00, 0x00, 0x00, 0x00, 0x00, 0x00, 0x00, 0x00, 0xff, 0xff, 0xef, 0x08],
    r2b := [0x91, 0xd1], ct := 0, dst := 0, src := 2308090, r1 := [0] }

example : exWakeup.wf = true ∧ exWakeup.bytes.drop 56 = [0xff, 0xff, 0xef, 0x08, 0x91, 0xd1, 0x00, 0x00, 0x00, 0x00,
    0x00, 0x00, 0xfa, 0x37, 0x23, 0x00] := by
  decide

set_option maxRecDepth 8192 in
example : (burstRaw exWakeup.bytes).map (fun v => (v.cls, v.timeslot, v.src, v.cc))
      = .ok (.wakeup, 2, 2308090, 5) ∧
    (fromIpscBytes exWakeup.bytes).map (fun x => x.pad) = .ok [0xef] ∧
    (fromIpscBytes exWakeup.bytes).bind asIpscBytes = .ok exWakeup.bytes := ⟨by rfl, by rfl, by rfl⟩

end Dmr.C13
