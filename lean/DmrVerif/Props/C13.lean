import DmrVerif.Lemmas.Ipsc

/-!
# C13 — Hytera IPSC frames map to bursts identically by either decoder and re-encode

Property theorems only.  The model is `Model/Ipsc.lean` (`HyteraIPSC.from_ipsc_bytes`, the field map of
the generated Kaitai parser followed by `from_kaitai`, `as_ipsc_bytes`, `byteswap_bytes`,
`half_byte_to_bytes`, the dispatch of `Burst.from_hytera_ipsc`; tied to the code by the correspondence
run), the enumeration graphs are the ones `tools/extract_ipsc.py` obtained from `/repo` on this run by
calling the enums on all 2^8 / 2^16 values (`Gen/Ipsc.lean`).  `Frame`, `Frame.bytes` (the 72 octets a
frame with given fields consists of), `Frame.wf`, `Frame.obj` and `Frame.view` are in `Lemmas/Ipsc.lean`.
The content of the burst is opaque here (264 bits handed to the `Burst` constructor, property C01).
-/

namespace Dmr.C13
open Dmr Dmr.Ipsc

/-- the extracted tables are the ones of the property: packet types 41/42/43/01, call types 0/1/2/0C,
frame types 0000/1111/3333/6666/BBBB/EEEE, slot types k·0x1111 (k = 0..15), timeslots 1111/2222;
undefined packet / frame type values fall back to TypeA / Data, all others are rejected -/
theorem tables :
    Gen.Ipsc.packetTypeVal = [0x41, 0x42, 0x43, 0x01] ∧ Gen.Ipsc.packetTypeDefault = some 0 ∧
    Gen.Ipsc.callTypeVal = [0, 1, 2, 0x0C] ∧ Gen.Ipsc.callTypeDefault = none ∧
    Gen.Ipsc.frameTypeVal = [0x0000, 0x1111, 0x3333, 0x6666, 0xBBBB, 0xEEEE] ∧ Gen.Ipsc.frameTypeDefault = some 0 ∧
    Gen.Ipsc.slotTypeVal = (List.range 16).map (· * 0x1111) ∧ Gen.Ipsc.slotTypeDefault = none ∧
    Gen.Ipsc.timeslotVal = [0x1111, 0x2222] ∧ Gen.Ipsc.timeslotDefault = none := by
  decide

/-- **paths agree, for every buffer**: on any 72 octets with the fixed second header `5a 5a` the
raw-bytes decoder and the generic-parser decoder return the same result — the same `HyteraIPSC`
object (all 18 attributes) or the same error — hence the same burst class, requested burst type,
payload bits, timeslot, sequence number, colour code and radio ids.  No assumption on the field values:
undefined type values are rejected / defaulted alike, although one path reads the 16-bit type words
big-endian and the other little-endian (every member value has two equal octets). -/
theorem paths_agree_all (d : Bytes) (hlen : d.length = 72) (hb : ∀ b ∈ d, b < 256)
    (hh : (d.drop 2).take 2 = [0x5a, 0x5a]) :
    kaitaiPath d = fromIpscBytes d ∧ burstKaitai d = burstRaw d := by
  have hs : slice d 2 4 = [0x5a, 0x5a] := by
    unfold slice; rw [List.drop_take]; exact hh
  have h := Ipsc.paths_agree_all d hlen hb hs
  exact ⟨h, by unfold burstKaitai burstRaw; rw [h]⟩

/-- **paths agree on well-formed frames and decode what the frame encodes** (`ids_cc_spec`): both
decoders return `f.obj`, whose sequence number, colour code (4 bit), source and destination id (24 bit),
type members and reserved octets are the fields of `f`, whose payload is the byte-swapped payload field
without its last octet and whose pad is that octet -/
theorem paths_agree (f : Frame) (h : f.wf = true) :
    fromIpscBytes f.bytes = .ok f.obj ∧ kaitaiPath f.bytes = .ok f.obj ∧
    f.obj.seq = f.seq ∧ f.obj.cc = f.cc ∧ f.obj.src = f.src ∧ f.obj.dst = f.dst ∧
    f.obj.timeslot = f.ts ∧ f.obj.slotType = f.st ∧ f.obj.frameType = f.ft ∧ f.obj.packetType = f.pt ∧
    f.obj.callType = f.ct ∧ f.obj.payload = (byteswap f.payload).dropLast ∧ f.obj.payload.length = 33 :=
  ⟨decode_raw f h, decode_kaitai f h, rfl, rfl, rfl, rfl, rfl, rfl, rfl, rfl, rfl, rfl, by
    have : f.payload.length = 34 := by
      simp only [Frame.wf, Bool.and_eq_true, decide_eq_true_eq] at h
      exact h.1.1.1.1.1.1.2
    simp [Frame.obj, byteswap_length, this]⟩

/-- the burst built by `Burst.from_hytera_ipsc` from the bytes and from the parser object: same class
(sync for the sync slot type, wake-up for the wake-up slot / call types, else a plain burst requested
as vocoder or data by slot type), the 33 payload octets, timeslot 1/2, and the frame's sequence number,
colour code and ids -/
theorem bursts_agree (f : Frame) (h : f.wf = true) :
    burstRaw f.bytes = .ok f.view ∧ burstKaitai f.bytes = .ok f.view ∧
    f.view.seq = f.seq ∧ f.view.cc = f.cc ∧ f.view.src = f.src ∧ f.view.dst = f.dst ∧
    f.view.timeslot = (if f.ts = 0 then 1 else 2) ∧ f.view.payload = (byteswap f.payload).dropLast := by
  refine ⟨?_, ?_, rfl, rfl, rfl, rfl, ?_, rfl⟩
  · unfold burstRaw; rw [decode_raw f h]; exact burstOf_obj f h
  · unfold burstKaitai; rw [decode_kaitai f h]; exact burstOf_obj f h
  · have : Gen.Ipsc.timeslot1Idx = 0 := by decide
    simp [Frame.view, this]

/-- **reserialise**: the frame decoded by either path serialises to the original 72 octets, whatever
the reserved octets and the 34 payload octets are (the 34th payload octet is kept as `pad`) -/
theorem reserialise (f : Frame) (h : f.wf = true) :
    f.bytes.length = 72 ∧
    (fromIpscBytes f.bytes).bind asIpscBytes = .ok f.bytes ∧
    (kaitaiPath f.bytes).bind asIpscBytes = .ok f.bytes := by
  refine ⟨(frame_facts f h).1, ?_, ?_⟩
  · rw [decode_raw f h]; exact Ipsc.reserialise f h
  · rw [decode_kaitai f h]; exact Ipsc.reserialise f h

/-! ## histories: results the caller keeps, re-stamps and serialises

`Heap` lists the `HyteraIPSC` objects handed out so far, `HOp.run` is one call of a decoder entry point
(`from_ipsc_bytes`, `from_kaitai`, `Burst.from_hytera_ipsc` on bytes / on the parser object — the burst
keeps the decoded object as `hytera_ipsc`), one attribute assignment by the caller, or one
`as_ipsc_bytes` (`Model/Ipsc.lean`).  The correspondence run keeps every object the real code returns,
assigns every public attribute, decodes the same and other octets again and reads all kept objects back. -/

/-- **decoding is a function of the octets, not of the history**: after *any* history (earlier decodes
of the same or other frames by any entry point, any re-stamping of their results, any serialisation)
each of the four entry points, given the octets of a well-formed frame, hands out a *new* object that
is the one the frame describes (and serialises to the frame), and touches none of the objects handed
out before -/
theorem decode_any_history (f : Frame) (hf : f.wf = true) (h0 : Heap) (ops : List HOp)
    (op : HOp) (hop : op ∈ decoders f.bytes) :
    (op.run (runHistory h0 ops)).read (runHistory h0 ops).size = some f.obj ∧
    asIpscBytes f.obj = .ok f.bytes ∧ burstOf f.obj = .ok f.view ∧
    ∀ r, r < (runHistory h0 ops).size → (op.run (runHistory h0 ops)).read r = (runHistory h0 ops).read r := by
  rw [decoder_push f hf _ op hop]
  exact ⟨Heap.read_push_new _ _, Ipsc.reserialise f hf, burstOf_obj f hf,
    fun r hr => Heap.read_push_old _ _ r hr⟩

/-- **the same octets again after the first result was re-stamped**: frame `f` is decoded (entry point
`op1`), the caller does anything — in particular assigns attributes of that first result — and the
same octets are decoded again (entry point `op2`): the second result is another object than the first
(`h.size < h2.size`, its handle) and reads as the frame encodes, not as the re-stamped first one -/
theorem redecode_after_restamp (f : Frame) (hf : f.wf = true) (h : Heap) (ops : List HOp)
    (op1 op2 : HOp) (h1 : op1 ∈ decoders f.bytes) (h2 : op2 ∈ decoders f.bytes) :
    h.size < (runHistory (op1.run h) ops).size ∧
    (op2.run (runHistory (op1.run h) ops)).read (runHistory (op1.run h) ops).size = some f.obj := by
  refine ⟨?_, (decode_any_history f hf (op1.run h) ops op2 h2).1⟩
  have := size_runHistory_le (op1.run h) ops
  rw [decoder_push f hf h op1 h1, Heap.size_push] at this
  rw [decoder_push f hf h op1 h1]
  omega

/-- **a held result keeps its value**: the object handed out for a well-formed frame still reads as
the frame encodes, and serialises to the original 72 octets, after any further history that does not
assign to *this* object (other decodes, assignments to other results, serialisations) -/
theorem held_decoded (f : Frame) (hf : f.wf = true) (h : Heap) (op : HOp) (hop : op ∈ decoders f.bytes)
    (ops : List HOp) (hops : ∀ o ∈ ops, o.target ≠ some h.size) :
    (runHistory (op.run h) ops).read h.size = some f.obj ∧ asIpscBytes f.obj = .ok f.bytes := by
  refine ⟨?_, Ipsc.reserialise f hf⟩
  rw [read_runHistory _ ops h.size (by rw [decoder_push f hf h op hop, Heap.size_push]; omega) hops,
    decoder_push f hf h op hop]
  exact Heap.read_push_new _ _

/-- **re-stamp, then serialise**: assigning timeslot, sequence number, colour code and both ids of a
decoded frame gives exactly the object of the frame with those fields replaced, so (when the new
values are in range) it serialises to that frame's 72 octets: all other octets — reserved blocks,
payload, pad, type words — are the original ones -/
theorem restamp_reserialise (f : Frame) (ts seq cc src dst : Nat)
    (hg : ({ f with ts := ts, seq := seq, cc := cc, src := src, dst := dst } : Frame).wf = true) :
    asIpscBytes (((((f.obj.set .timeslot (.nat ts)).set .seq (.nat seq)).set .cc (.nat cc)).set .src (.nat src)).set
      .dst (.nat dst))
      = .ok ({ f with ts := ts, seq := seq, cc := cc, src := src, dst := dst } : Frame).bytes :=
  Ipsc.reserialise _ hg

/-- `byteswap_bytes` is an involution and keeps the length — for every length (the property asks for
even lengths; with an odd length the last octet stays in place) -/
theorem byteswap_involution (bs : Bytes) :
    byteswap (byteswap bs) = bs ∧ (byteswap bs).length = bs.length :=
  ⟨byteswap_byteswap bs, byteswap_length bs⟩

/-- on an even length the swap exchanges the octets of every 16-bit word -/
theorem byteswap_even (a b : Nat) (r : Bytes) (h : r.length % 2 = 0) :
    byteswap (a :: b :: r) = b :: a :: byteswap r := by
  have h2 : (a :: b :: r).length % 2 = 0 := by simp; omega
  unfold byteswap
  rw [if_pos h2, if_pos h]
  rfl

/-- `half_byte_to_bytes` repeats the nibble: colour codes 0..15 give the word `cc·0x1111` -/
theorem half_byte_spec (c : Nat) (h : c < 16) : halfByte c 2 = .ok [17 * c, 17 * c] := by
  unfold halfByte
  rw [lor_nibble c h, if_neg (by omega)]
  rfl

/-- the hypotheses are satisfiable by non-trivial values: two captured frames of the test-suite are
`bytes` of well-formed `Frame`s — a voice-sync frame (destination 111, source 2308090, colour code 5)
and a wake-up frame whose 34th payload octet (the pad) is `ef`, not 0 — and the decoders compute on
them what the theorems say -/
def exFrame : Frame :=
  { first := [0x5a, 0x5a], seq := 0, r3 := [0, 0, 0], pt := 1, r7 := [0, 5, 1, 1, 0, 0, 0], ts := 0, st := 14,
    cc := 5, ft := 1, r2a := [0x40, 0x28],
    payload := [0x00, 0x00, 0x00, 0x00, 0x00, 0x00, 0x00, 0x00, 0x00, 0x00, 0x6f, 0x00, 0x23, 0x00, 0x37, 0x00, 0xfa,
      0x00, 0x34, 0x2a, 0x2c, 0x10, 0x94, 0x2a, 0x2c, 0x10, 0xf4, 0x2a, 0x2c, 0x10, 0x83, 0x56, 0x00, 0xf0],
    r2b := [0x36, 0x08], ct := 1, dst := 111, src := 2308090, r1 := [0] }

example : exFrame.wf = true ∧ exFrame.bytes.length = 72 ∧
    exFrame.bytes.take 8 = [0x5a, 0x5a, 0x5a, 0x5a, 0, 0, 0, 0] ∧
    exFrame.bytes.drop 60 = [0x36, 0x08, 0x01, 0x00, 0x6f, 0x00, 0x00, 0x00, 0xfa, 0x37, 0x23, 0x00] := by
  decide

example : (fromIpscBytes exFrame.bytes).map (fun x => (x.src, x.dst, x.cc, x.pad))
    = .ok (2308090, 111, 5, [0x00]) := by rfl

/-- `5a5a5a5a0000000042000501020000002222dddd5555000040000000…0100020002000100…00ffffef0891d1000000000000fa372300` -/
def exWakeup : Frame :=
  { first := [0x5a, 0x5a], seq := 0, r3 := [0, 0, 0], pt := 1, r7 := [0, 5, 1, 2, 0, 0, 0], ts := 1, st := 13,
    cc := 5, ft := 0, r2a := [0x40, 0x00],
    payload := [0x00, 0x00, 0x00, 0x00, 0x00, 0x00, 0x00, 0x00, 0x00, 0x00, 0x01, 0x00, 0x02, 0x00, 0x02, 0x00, 0x01,
      0x00, 0x00, 0x00, 0x00, 0x00, 0x00, 0x00, 0x00, 0x00, 0x00, 0x00, 0x00, 0x00, 0xff, 0xff, 0xef, 0x08],
    r2b := [0x91, 0xd1], ct := 0, dst := 0, src := 2308090, r1 := [0] }

example : exWakeup.wf = true ∧ exWakeup.bytes.drop 56 = [0xff, 0xff, 0xef, 0x08, 0x91, 0xd1, 0x00, 0x00, 0x00, 0x00,
    0x00, 0x00, 0xfa, 0x37, 0x23, 0x00] := by
  decide

set_option maxRecDepth 8192 in
example : (burstRaw exWakeup.bytes).map (fun v => (v.cls, v.timeslot, v.src, v.cc))
      = .ok (.wakeup, 2, 2308090, 5) ∧
    (fromIpscBytes exWakeup.bytes).map (fun x => x.pad) = .ok [0xef] ∧
    (fromIpscBytes exWakeup.bytes).bind asIpscBytes = .ok exWakeup.bytes := ⟨by rfl, by rfl, by rfl⟩

/-- a history of the seeded kind: the wake-up frame is decoded from raw bytes, the result is moved to
the other timeslot and given another sequence number, colour code and ids, then the same 72 octets
arrive again: object 1 is the frame as encoded, object 0 the re-stamped one, and it serialises with
exactly the five re-stamped fields changed -/
def exHistory : Heap :=
  runHistory Heap.empty
    [.burstRaw exWakeup.bytes, .set 0 .timeslot (.nat 0), .set 0 .seq (.nat 64), .set 0 .cc (.nat 6),
     .set 0 .src (.nat 2300001), .set 0 .dst (.nat 9990), .ser 0, .decRaw exWakeup.bytes]

set_option maxRecDepth 8192 in
example : exHistory.size = 2 ∧ exHistory.read 1 = some exWakeup.obj ∧
    (exHistory.read 0).map (fun x => (x.timeslot, x.seq, x.cc, x.src, x.dst, x.reserved7a))
      = some (0, 64, 6, 2300001, 9990, [0, 5, 1, 2, 0, 0, 0]) ∧
    (exHistory.read 0).map asIpscBytes
      = some (.ok ({ exWakeup with ts := 0, seq := 64, cc := 6, src := 2300001, dst := 9990 } : Frame).bytes) :=
  ⟨by rfl, by rfl, by rfl, by rfl⟩

/-! ## the frame's own fields against the values inside its payload, and against each other

`Frame.wf` puts no condition on the 34 payload octets beyond being octets, and none relating `src`,
`dst`, `cc`, `seq`, `ts`: `paths_agree`, `bursts_agree` and `reserialise` therefore already cover every
frame whose trailer ids are equal to, crossed with or one off the ids its payload carries (link-layer
ids of a data header, CSBK / full-LC addresses, the ids a sync payload repeats), every `src = dst`,
every colour / timeslot / sequence coincidence.  The statements below spell that out; the run exercises
the class on the real code (`rel:*` counters of the evidence: payloads built with the library's PDU
classes and FEC encoders, every relation x every payload kind x both decoders). -/

/-- **the decoded fields come from the frame's own octets, never from the payload it carries or from a
sibling field**: take a frame `f`, put ANY 34 payload octets `p` in it (in particular a payload that
carries — FEC-encoded or verbatim — ids equal to, crossed with or one off the trailer ids, another
colour code, a TDMA sync pattern of the other timeslot, copies of the frame's own header) and ANY ids
`s`, `d` (equal, swapped, one apart, equal to the sequence number …); provided the result is a
well-formed frame, both decoder paths report exactly `s` and `d`, and colour code, sequence number,
timeslot and burst class are those of `f`, whatever `p`, `s`, `d` are; and the frame re-serialises -/
theorem fields_from_own_octets (f : Frame) (p : Bytes) (s d : Nat)
    (hg : ({ f with payload := p, src := s, dst := d } : Frame).wf = true) :
    burstRaw ({ f with payload := p, src := s, dst := d } : Frame).bytes
      = .ok ({ f with payload := p, src := s, dst := d } : Frame).view ∧
    burstKaitai ({ f with payload := p, src := s, dst := d } : Frame).bytes
      = .ok ({ f with payload := p, src := s, dst := d } : Frame).view ∧
    ({ f with payload := p, src := s, dst := d } : Frame).view.src = s ∧
    ({ f with payload := p, src := s, dst := d } : Frame).view.dst = d ∧
    ({ f with payload := p, src := s, dst := d } : Frame).view.cc = f.view.cc ∧
    ({ f with payload := p, src := s, dst := d } : Frame).view.seq = f.view.seq ∧
    ({ f with payload := p, src := s, dst := d } : Frame).view.timeslot = f.view.timeslot ∧
    ({ f with payload := p, src := s, dst := d } : Frame).view.cls = f.view.cls ∧
    ({ f with payload := p, src := s, dst := d } : Frame).view.btype = f.view.btype ∧
    (fromIpscBytes ({ f with payload := p, src := s, dst := d } : Frame).bytes).bind asIpscBytes
      = .ok ({ f with payload := p, src := s, dst := d } : Frame).bytes ∧
    (kaitaiPath ({ f with payload := p, src := s, dst := d } : Frame).bytes).bind asIpscBytes
      = .ok ({ f with payload := p, src := s, dst := d } : Frame).bytes := by
  have hb := bursts_agree _ hg
  have hr := reserialise _ hg
  exact ⟨hb.1, hb.2.1, rfl, rfl, rfl, rfl, rfl, rfl, rfl, hr.2.1, hr.2.2⟩

/-- the reply to a frame (trailer ids swapped, payload untouched — so crossed against whatever ids the
payload carries) decodes to the swapped ids by both paths -/
theorem ids_swapped (f : Frame) (hg : ({ f with src := f.dst, dst := f.src } : Frame).wf = true) :
    (burstRaw ({ f with src := f.dst, dst := f.src } : Frame).bytes).map (fun v => (v.src, v.dst)) = .ok (f.dst, f.src) ∧
    (burstKaitai ({ f with src := f.dst, dst := f.src } : Frame).bytes).map (fun v => (v.src, v.dst)) = .ok (f.dst, f.src) := by
  have hb := bursts_agree _ hg
  rw [hb.1, hb.2.1]
  exact ⟨rfl, rfl⟩

/-- the captured sync frame (its payload repeats destination 111 at octets 7/9/11 and source 2308090 at
13/15/17, 00-padded) relayed with destination := source: both paths report destination 2308090, the
trailer's, not the 111 of the payload copy -/
def exSelfAddressed : Frame := { exFrame with dst := 2308090 }

set_option maxRecDepth 8192 in
example : exSelfAddressed.wf = true ∧
    (burstRaw exSelfAddressed.bytes).map (fun v => (v.cls, v.src, v.dst)) = .ok (.sync, 2308090, 2308090) ∧
    (burstKaitai exSelfAddressed.bytes).map (fun v => (v.cls, v.src, v.dst)) = .ok (.sync, 2308090, 2308090) ∧
    (fromIpscBytes exSelfAddressed.bytes).bind asIpscBytes = .ok exSelfAddressed.bytes :=
  ⟨by decide, by rfl, by rfl, by rfl⟩

/-- the captured data-header frame (BPTC-encoded header: link-layer source 2308195, destination 2308155)
relayed with the trailer ids the other way round (source 2308155, destination 2308195 — crossed against
the header inside the payload): both paths report the trailer's ids -/
def exCrossed : Frame :=
  { first := [0x5a, 0x5a], seq := 210, r3 := [0x2b, 0, 0], pt := 0, r7 := [0, 5, 1, 2, 0, 0, 0], ts := 1, st := 4,
    cc := 5, ft := 0, r2a := [0x40, 0x95],
    payload := [0x0a, 0x39, 0x1d, 0x32, 0x80, 0x2b, 0xb9, 0x3b, 0x92, 0x21, 0xc1, 0x63, 0xbd, 0x15, 0x57, 0xff, 0x5d,
      0xd7, 0xd5, 0xf5, 0x2d, 0x5c, 0x52, 0x11, 0xf0, 0x21, 0x87, 0x29, 0xd3, 0x4a, 0xaa, 0x06, 0x00, 0x6d],
    r2b := [0x1d, 0x32], ct := 0, dst := 2308195, src := 2308155, r1 := [0] }

set_option maxRecDepth 8192 in
example : exCrossed.wf = true ∧
    exCrossed.bytes.drop 60 = [0x1d, 0x32, 0x00, 0x00, 0x63, 0x38, 0x23, 0x00, 0x3b, 0x38, 0x23, 0x00] ∧
    (burstRaw exCrossed.bytes).map (fun v => (v.cls, v.btype, v.src, v.dst)) = .ok (.burst, .dataAndControl, 2308155, 2308195) ∧
    (burstKaitai exCrossed.bytes).map (fun v => (v.src, v.dst)) = .ok (2308155, 2308195) :=
  ⟨by decide, by decide, by rfl, by rfl⟩

end Dmr.C13
