import DmrVerif.Props.C18

/-!
# C18 — authorisation as a statement about the output trace of a whole history

`p2p_authorised` / `p2p_reject_unregistered` are stated as "after any history `h`, the reaction to the
next datagram …" (they quantify over all histories, so they are history-level already).  Here the same
two statements are read off the **trace** `(P2p.run cfg h).2` of one history: whatever stands at position
`i` of the trace is the reaction to `h[i]` in the state the first `i` inputs lead to (`run_trace_get`),
hence a start-up acceptance / redirect / ping answer at position `i` implies a registration of that
source completed among the first `i` inputs of the same history (`p2p_trace_authorised`), and a request
from a source with no completed registration among the first `i` inputs has exactly the one-octet reject
at position `i` (`p2p_trace_reject`).
-/

namespace Dmr.C18
open Dmr Dmr.Storage Dmr.P2p Dmr.Rdac

theorem runFrom_trace_get (cfg : Cfg) (s : Store) (h : List Input) (i : Nat) (hi : i < h.length) :
    (P2p.runFrom cfg s h).2[i]?
      = some ((P2p.step cfg (P2p.runFrom cfg s (h.take i)).1 h[i]).2.1,
              (P2p.step cfg (P2p.runFrom cfg s (h.take i)).1 h[i]).2.2) := by
  induction h generalizing s i with
  | nil => simp at hi
  | cons m t ih =>
    rw [P2p.runFrom_cons]
    cases i with
    | zero => rfl
    | succ i =>
      have hi' : i < t.length := by simpa using hi
      simp only [List.getElem?_cons_succ, List.take_succ_cons, List.getElem_cons_succ]
      rw [ih _ i hi', P2p.runFrom_cons]

/-- position `i` of the trace is the reaction to the `i`-th input in the state after the first `i` -/
theorem run_trace_get (cfg : Cfg) (h : List Input) (i : Nat) (hi : i < h.length) :
    (P2p.run cfg h).2[i]?
      = some ((P2p.step cfg (P2p.run cfg (h.take i)).1 h[i]).2.1,
              (P2p.step cfg (P2p.run cfg (h.take i)).1 h[i]).2.2) :=
  runFrom_trace_get cfg Storage.init h i hi

theorem all_take {α : Type} (p : α → Bool) (l : List α) (n : Nat) (h : l.all p = true) :
    (l.take n).all p = true := by
  rw [List.all_eq_true] at h ⊢
  exact fun x hx => h x (List.mem_of_mem_take hx)

/-- **authorisation, on the trace.**  A restricted answer at position `i` of the trace of `h` was
emitted for a datagram whose source completed a registration among the first `i` inputs of `h`. -/
theorem p2p_trace_authorised (cfg : Cfg) (h : List Input) (henv : h.all envOk = true)
    (i : Nat) (hi : i < h.length) (a : Addr) (data : Bytes) (f : Bool) (hin : h[i] = .datagram a data f)
    (outs : List Out) (res : P2p.Res) (htr : (P2p.run cfg h).2[i]? = some (outs, res))
    (o : Out) (ho : o ∈ outs) (hk : restricted o.kind = true) :
    registeredIn (h.take i) a = true := by
  rw [run_trace_get cfg h i hi, hin] at htr
  have houts : outs = (P2p.step cfg (P2p.run cfg (h.take i)).1 (.datagram a data f)).2.1 := by
    injection htr with htr; exact (congrArg Prod.fst htr).symm
  subst houts
  exact (p2p_authorised cfg (h.take i) (all_take _ _ _ henv) a data f o ho hk).1

/-- **reject, on the trace.**  A request at position `i` from a source with no registration completed
among the first `i` inputs is answered by exactly the single octet `0x00` to the requester. -/
theorem p2p_trace_reject (cfg : Cfg) (h : List Input) (henv : h.all envOk = true)
    (i : Nat) (hi : i < h.length) (a : Addr) (data : Bytes) (f : Bool) (hin : h[i] = .datagram a data f)
    (hreq : dispatch data = .rdacRequest ∨ dispatch data = .dmrRequest ∨ dispatch data = .ping)
    (hun : registeredIn (h.take i) a = false) :
    (P2p.run cfg h).2[i]? = some ([{ kind := .reject, data := [0x00], dest := a.val }], .ok) := by
  rw [run_trace_get cfg h i hi, hin,
    p2p_reject_unregistered cfg (h.take i) (all_take _ _ _ henv) a data f hreq hun]

end Dmr.C18
