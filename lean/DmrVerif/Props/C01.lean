import DmrVerif.Lemmas.BurstData
import DmrVerif.Lemmas.BurstProbes
import DmrVerif.Lemmas.BurstEntry
import DmrVerif.Lemmas.BurstForeign

/-!
# C01 — a burst the library assembles is parsed back identically, and re-assembles

Statements only; proofs in `Lemmas/Burst.lean` (slot type, EMB, framing, voice bursts) and
`Lemmas/BurstData.lean` (composition with C02 BPTC, C10 trellis and the C03 PDU round trips).

`Burst.parse` mirrors `Burst.__init__`, `Burst.serialise` mirrors `as_bits`, `Burst.build` mirrors the
assembly done by `TransmissionGenerator`.  `c : Crcs` holds the CRC functions of the PDU constructors
as parameters (C05), so every statement holds for whatever they compute.
-/

namespace Dmr.C01
open Dmr Dmr.Gen Dmr.Gen.Burst

/-! ## finite facts about the tables extracted from `/repo` (kernel-decided) -/

/-- sync patterns are 48-bit values and pairwise distinct; the four voice and the four data patterns
are patterns, and no pattern is both -/
theorem sync_patterns :
    syncValues.all (fun v => decide (v < 2 ^ 48)) = true ∧ syncValues.Nodup ∧
    voiceSyncs.all syncValues.contains = true ∧ dataSyncs.all syncValues.contains = true ∧
    voiceSyncs.all (fun v => !dataSyncs.contains v) = true ∧ voiceSyncs.length = 4 ∧ dataSyncs.length = 4 :=
  sync_tables

/-- the SYNC patterns are those of ETSI TS 102 361-1 table 9.2 (written out here, independently of `/repo`;
the property speaks of "the four data sync patterns" and of "a voice sync pattern", i.e. of the standard's),
and the library's voice / data classification of them is the standard's.  A changed constant keeps every
round trip of the library with itself intact — model, code and tests agree — and is caught only here. -/
theorem sync_patterns_etsi :
    syncPatterns =
      [("BsSourcedVoice", 0x755FD7DF75F7), ("BsSourcedData", 0xDFF57D75DF5D), ("MsSourcedVoice", 0x7F7D5DD57DFD),
       ("MsSourcedData", 0xD5D7F77FD757), ("MsSourcedRcSync", 0x77D55F7DFD77), ("Tdma1Voice", 0x5D577F7757FF),
       ("Tdma1Data", 0xF7FDD5DDFD55), ("Tdma2Voice", 0x7DFFD5F55D5F), ("Tdma2Data", 0xD7557F5FF7F5),
       ("Reserved", 0xDD7FF5D757DD)]
    ∧ voiceSyncs = [0x755FD7DF75F7, 0x7F7D5DD57DFD, 0x5D577F7757FF, 0x7DFFD5F55D5F]
    ∧ dataSyncs = [0xDFF57D75DF5D, 0xD5D7F77FD757, 0xF7FDD5DDFD55, 0xD7557F5FF7F5] := by decide

/-- no sync pattern collides with a valid EMB word: the outer 16 bits of no pattern form a QR(16,7,6)
code word -/
theorem sync_never_valid_emb :
    syncValues.all (fun v => !qr1676.check (outer16 (natToBits 48 v))) = true := sync_not_emb

/-- **structured centres next to the SYNC patterns** (hardening after seeded change C01-C).  The
translator records how `Burst.__init__` classifies the 48 centre bits at minimal Hamming distance from
every SYNC pattern `S`: `S` itself, its 48 single-bit neighbours, for every valid EMB word `E` (all 128
(cc, PI, LCSS)) the voice-burst centre `E[0:8] ++ S[8:40] ++ E[8:16]`, and the 32 single-bit neighbours
of `S[8:40]` around the EMB words nearest to the outer bits of `S`.  The model's exact lookup
`Sync.resolve` decides every recorded centre the same way, and every pattern resolves to itself.
(A tolerant / masked / prefix comparison in `SyncPatterns` or `Burst.__init__` changes the extracted
table `resolvedToPattern` and breaks this obligation; its entries with centre ≠ pattern and a QR code
word in the outer bits are voice bursts with valid EMB on which `voice_emb_roundtrip` fails for the code.) -/
theorem resolve_probes :
    resolvedToPattern.all (fun p => Sync.resolve p.1 == .pattern p.2) = true
    ∧ resolvedToEmbedded.all (fun c => Sync.resolve c == .embedded) = true
    ∧ syncValues.all (fun v => resolvedToPattern.contains (v, v)) = true := by
  have h := resolve_probes_ok
  simp only [resolveProbesChk, Bool.and_eq_true] at h
  exact ⟨h.1.1, h.1.2, h.2⟩

/-- the outer 16 bits of every SYNC pattern differ from every valid EMB word (the 128 QR(16,7,6) code
words) in at least two bits, and distance two occurs: a SYNC lookup that forgives two bit errors already
takes some voice burst with valid EMB for a SYNC burst -/
theorem sync_emb_margin :
    embWords.all (fun e => syncValues.all (fun v => decide (2 ≤ hamming (outer16 (natToBits 48 v)) e))) = true
    ∧ embWords.any (fun e => syncValues.any (fun v => hamming (outer16 (natToBits 48 v)) e == 2)) = true := by
  have h := sync_emb_margin_ok
  simp only [syncEmbMarginChk, Bool.and_eq_true] at h
  exact h

/-- only the all-zero information bits have zero parity, for the slot type's Golay(20,8) and the EMB's
QR(16,7,6): the "parity field 0 ⇒ regenerate" rule of both constructors can only fire on the zero word
of a valid code word -/
theorem zero_parity_only_zero :
    (List.range 256).all (fun d => decide (bitsToNat ((golay2087.gen (natToBits 8 d)).drop 8) = 0 → d = 0)) = true
    ∧ (List.range 128).all (fun d => decide (bitsToNat ((qr1676.gen (natToBits 7 d)).drop 7) = 0 → d = 0)) = true := by
  decide +kernel

/-- the data types with a PDU layout are defined `DataTypes` members other than Reserved, and the
rate-coded classes announce the matching data type -/
theorem supported_data_types :
    [dtPIHeader, dtVoiceLCHeader, dtTerminatorWithLC, dtCSBK, dtDataHeader, dtRate12Data, dtRate34Data,
     dtRate1Data].all (fun d => eDataTypes.defined d && decide (d ≠ dtReserved)) = true
    ∧ dtOfRate12 = dtRate12Data ∧ dtOfRate34 = dtRate34Data ∧ dtOfRate1 = dtRate1Data := data_types_defined

/-! ## slot type and embedded signalling -/

/-- `SlotType(colour_code, data_type)` generates the Golay parity and is read back unchanged -/
theorem slot_type_roundtrip (cc dt : Nat) (hcc : cc < 16) (hdt : eDataTypes.defined dt = true) :
    SlotType.init cc dt 0 = .ok ⟨cc, dt, SlotType.genParity cc dt⟩
    ∧ (SlotType.enc ⟨cc, dt, SlotType.genParity cc dt⟩).length = 20
    ∧ SlotType.dec (SlotType.enc ⟨cc, dt, SlotType.genParity cc dt⟩) = .ok ⟨cc, dt, SlotType.genParity cc dt⟩ :=
  ⟨SlotType.init_gen cc dt hcc hdt, SlotType.enc_length _, SlotType.dec_enc cc dt hcc hdt⟩

/-- `EmbeddedSignalling(cc, pi, lcss)` generates the QR parity, is a code word, and is read back -/
theorem emb_roundtrip (cc pi lcss : Nat) (hcc : cc < 16) (hpi : pi < 2) (hl : lcss < 4) :
    Emb.init cc pi lcss 0 = .ok ⟨cc, pi, lcss, Emb.genParity cc pi lcss⟩
    ∧ qr1676.check (Emb.enc ⟨cc, pi, lcss, Emb.genParity cc pi lcss⟩) = true
    ∧ Emb.dec (Emb.enc ⟨cc, pi, lcss, Emb.genParity cc pi lcss⟩) = .ok ⟨cc, pi, lcss, Emb.genParity cc pi lcss⟩ :=
  ⟨Emb.init_gen cc pi lcss hcc hpi hl, Emb.enc_check cc pi lcss, Emb.dec_enc cc pi lcss hcc hpi hl⟩

/-! ## data bursts -/

/-- **data_roundtrip.**  For every supported payload object `p` as the library builds it (`Built`:
PI header, voice LC header / terminator in the 96-bit form, CSBK, data header, rate ½ / ¾ / 1 block of
any of the four variants), every colour code, every data sync pattern and whatever burst type the
caller announces: the assembled burst serialises to 264 bits `x`; `x` parses to a data burst with the
same data type, colour code (slot type with the generated parity) and sync pattern; its payload is `p`
itself — for rate-coded blocks the untyped view of the same bits, see `rate_fields` — and it
serialises to `x` again. -/
theorem data_roundtrip (c : Crcs) (p : Payload) (hp : Burst.Built c p) (cc : Nat) (hcc : cc < 16) (s : Nat)
    (hs : s ∈ dataSyncs) (bt : BurstType) :
    ∃ b x q, Burst.build p cc s = .ok b ∧ Burst.serialise b = .ok x ∧ x.length = 264
      ∧ Burst.parse c x bt = .ok q ∧ q.isDataOrControl = true ∧ q.hasEmb = false
      ∧ q.slotType = some ⟨cc, p.dataType, SlotType.genParity cc p.dataType⟩
      ∧ q.sync = .pattern s ∧ q.data = some (Burst.parsedView c p) ∧ (Burst.parsedView c p).bits = p.bits
      ∧ Burst.serialise q = .ok x :=
  Burst.data_roundtrip c p hp cc hcc s hs bt

/-- for every payload kind but the rate-coded blocks the parsed payload *is* the payload: all field
values equal -/
theorem parsed_fields (c : Crcs) (p : Payload)
    (h : match p with | .rate12 _ => False | .rate34 _ => False | .rate1 _ => False | _ => True) :
    Burst.parsedView c p = p := by
  cases p <;> first | rfl | exact absurd h (by simp)

/-- rate-coded blocks: the burst parser cannot know the variant, it holds the block untyped;
`convert(original type)` of that object gives back the original object with every field -/
theorem rate_fields (cfg : RateCfg) (hc : cfg = rate12 ∨ cfg = rate34 ∨ cfg = rate1) (f9 : Bytes → Nat → Nat → Nat)
    (hf : ∀ d s x, f9 d s x < 2 ^ 9) (t : RateType) (a p : RateData) (hw : RateData.WF cfg t a)
    (hi : RateData.init cfg f9 t a = .ok p) :
    RateData.convert cfg f9 ⟨bitsToBytes (RateData.enc cfg p), 0, f9 (bitsToBytes (RateData.enc cfg p)) 0 0, 0⟩ t
      = .ok p :=
  Burst.rate_convert cfg hc f9 hf t a p hw hi

/-! ## voice bursts -/

/-- **voice_sync_roundtrip.**  Any 216 vocoder bits around any of the four voice sync patterns, parsed
with any announced burst type: a vocoder burst, serialised to the identical 264 bits. -/
theorem voice_sync_roundtrip (c : Crcs) (v : Bits) (hv : v.length = 216) (s : Nat) (hs : s ∈ voiceSyncs)
    (bt : BurstType) :
    ∃ q, Burst.parse c (Burst.voiceFrame v (natToBits 48 s)) bt = .ok q ∧ q.isVocoder = true
      ∧ q.isDataOrControl = false ∧ q.sync = .pattern s ∧ q.voiceBits = v
      ∧ Burst.serialise q = .ok (Burst.voiceFrame v (natToBits 48 s)) :=
  Burst.voice_sync_roundtrip c v hv s hs bt

/-- **voice_emb_roundtrip.**  Any 216 vocoder bits around valid embedded signalling (any colour code,
PI, LCSS with the QR parity) with any 32 embedded bits, not announced as data: parsed as a burst with
EMB — never mistaken for a SYNC — and serialised to the identical 264 bits. -/
theorem voice_emb_roundtrip (c : Crcs) (v : Bits) (hv : v.length = 216) (cc pi lcss : Nat)
    (hcc : cc < 16) (hpi : pi < 2) (hl : lcss < 4) (e32 : Bits) (he : e32.length = 32) (bt : BurstType)
    (hbt : bt ≠ .dataAndControl) :
    let emb : Emb := ⟨cc, pi, lcss, Emb.genParity cc pi lcss⟩
    let x := Burst.voiceFrame v (Burst.embCenter emb.enc e32)
    ∃ q, Burst.parse c x bt = .ok q ∧ q.hasEmb = true ∧ q.emb = some emb ∧ q.embBits = e32 ∧ q.voiceBits = v
      ∧ q.isDataOrControl = false ∧ Burst.serialise q = .ok x :=
  Burst.voice_emb_roundtrip c v hv cc pi lcss hcc hpi hl e32 he bt hbt

/-- the reverse-channel and reserved sync patterns (neither voice nor data) also survive when the
burst is not announced as data -/
theorem other_sync_roundtrip (c : Crcs) (v : Bits) (hv : v.length = 216) (s : Nat)
    (hs : syncValues.contains s = true) (hnv : voiceSyncs.contains s = false) (hnd : dataSyncs.contains s = false)
    (bt : BurstType) (hbt : bt ≠ .dataAndControl) :
    ∃ q, Burst.parse c (Burst.voiceFrame v (natToBits 48 s)) bt = .ok q ∧ q.isDataOrControl = false
      ∧ Burst.serialise q = .ok (Burst.voiceFrame v (natToBits 48 s)) :=
  Burst.other_sync_roundtrip c v hv s hs hnv hnd bt hbt

/-! ## object reuse (hardening after seeded change C01-D)

The model is a function of the attribute values, so a re-used burst object cannot remember anything:
the statements below say which attributes `as_bits` reads and that re-assigning payload, slot type and
sync pattern on an assembled or parsed burst object yields the freshly assembled burst — to which
`data_roundtrip` applies.  The real object is compared with this on reuse histories (serialise, change
fields of the same payload object in place / replace slot type / sync / payload, serialise again) by the
harness. -/

/-- `as_bits` of a data burst depends on the current slot type, payload, `has_emb`, EMB, sync only -/
theorem serialise_reads_data (a b : Burst) (ha : a.isDataOrControl = true) (hb : b.isDataOrControl = true)
    (h1 : a.slotType = b.slotType) (h2 : a.data = b.data) (h3 : a.hasEmb = b.hasEmb) (h4 : a.emb = b.emb)
    (h5 : a.sync = b.sync) : Burst.serialise a = Burst.serialise b :=
  Burst.serialise_data_congr a b ha hb h1 h2 h3 h4 h5

/-- `as_bits` of a voice burst depends on the vocoder bits, embedded bits, `has_emb`, EMB, sync only -/
theorem serialise_reads_voice (a b : Burst) (ha : a.isDataOrControl = false) (hb : b.isDataOrControl = false)
    (h1 : a.voiceBits = b.voiceBits) (h2 : a.embBits = b.embBits) (h3 : a.hasEmb = b.hasEmb) (h4 : a.emb = b.emb)
    (h5 : a.sync = b.sync) : Burst.serialise a = Burst.serialise b :=
  Burst.serialise_voice_congr a b ha hb h1 h2 h3 h4 h5

/-- re-using an assembled burst object: after assigning another payload, its slot type and a sync
pattern, the object is the burst assembled from those values -/
theorem reuse_assembled (p1 p2 : Payload) (cc1 cc2 s1 s2 : Nat) (b1 b2 : Burst)
    (h1 : Burst.build p1 cc1 s1 = .ok b1) (h2 : Burst.build p2 cc2 s2 = .ok b2) :
    { b1 with sync := .pattern s2, slotType := b2.slotType, data := some p2 } = b2 :=
  Burst.reassign_is_build p1 p2 cc1 cc2 s1 s2 b1 b2 h1 h2

/-- re-using a parsed data burst object: after the same assignments (and `has_emb = False`) it
serialises as the freshly assembled burst -/
theorem reuse_parsed (q b2 : Burst) (p2 : Payload) (cc2 s2 : Nat) (hq : q.isDataOrControl = true)
    (h2 : Burst.build p2 cc2 s2 = .ok b2) :
    Burst.serialise { q with sync := .pattern s2, slotType := b2.slotType, data := some p2, hasEmb := false }
      = Burst.serialise b2 :=
  Burst.reassign_parsed q b2 p2 cc2 s2 hq h2

/-! ## every entry point that yields a burst object; attributes set by hand (hardening after seeded change C01-F)

`Burst.from_mmdvm` and `Burst.from_hytera_ipsc` are the constructor on the 264 burst bits with an announced
burst type derived from the transport frame, followed by assignments to the attributes outside the ETSI
burst (`Aux`: timeslot — the only way a library path sets it to 2 —, sequence number, radio ids, stream
number, the IPSC frame).  The serialisation of a burst object (`BurstObj.serialise`) is that of its ETSI
part: none of these attributes is read, whoever sets them.  So the three round trips hold through every
entry point, for both timeslots and every value of the other frame fields.  The real entry points are
compared with `fromMmdvm` / `fromIpsc` by the correspondence (driver ops `burst.mmdvm`, `burst.ipsc`), and
the harness sets every public attribute by hand on objects of every entry point × every SYNC pattern. -/

/-- `as_bits` reads none of the attributes outside the ETSI burst: whatever values they are given (by
an entry point or by hand) the object serialises the same -/
theorem serialise_ignores_aux (o : BurstObj) (a : Aux) :
    ({ o with aux := a } : BurstObj).serialise = o.serialise := rfl

/-- the `timeslot` attribute `from_mmdvm` sets is 1 or 2; an `Enum` member in `frame_type` (every frame
the Kaitai parser returns) is announced as vocoder; both IPSC timeslot values map to 1 and 2 -/
theorem entry_timeslots (f : MmdvmFrame) :
    ((Burst.mmdvmAux f).timeslot = 1 ∨ (Burst.mmdvmAux f).timeslot = 2)
    ∧ (∀ v, f.frameType = .member v → Burst.mmdvmAnnounced f = .vocoder)
    ∧ ipscTimeslots.map (·.2) = [1, 2] :=
  ⟨Burst.mmdvmAux_timeslot f, Burst.mmdvmAnnounced_member f, Burst.ipsc_timeslots⟩

/-- **data bursts through `from_mmdvm`**: the burst assembled from any supported payload, colour code
and data SYNC, carried in a DMRD frame with ANY slot bit, frame type, sequence number, ids and stream:
parsed to the same slot type, sync and payload, and the object — timeslot 1 or 2 — serialises to the
identical 264 bits -/
theorem mmdvm_data_roundtrip (c : Crcs) (p : Payload) (hp : Burst.Built c p) (cc : Nat) (hcc : cc < 16) (s : Nat)
    (hs : s ∈ dataSyncs) (f : MmdvmFrame) (b : Burst) (hb : Burst.build p cc s = .ok b)
    (hx : Burst.serialise b = .ok f.dmrBits) :
    ∃ o, Burst.fromMmdvm c f = .ok o ∧ o.aux = Burst.mmdvmAux f
      ∧ o.core.slotType = some ⟨cc, p.dataType, SlotType.genParity cc p.dataType⟩ ∧ o.core.sync = .pattern s
      ∧ o.core.data = some (Burst.parsedView c p) ∧ o.serialise = .ok f.dmrBits := by
  obtain ⟨b', x, q, h1, h2, _, h4, _, _, h7, h8, h9, _, h11⟩ :=
    Burst.data_roundtrip c p hp cc hcc s hs (Burst.mmdvmAnnounced f)
  have hbb : b' = b := by rw [hb] at h1; exact (Except.ok.inj h1).symm
  subst hbb
  have hxx : x = f.dmrBits := by rw [h2] at hx; exact Except.ok.inj hx
  subst hxx
  exact ⟨⟨q, Burst.mmdvmAux f⟩, Burst.fromMmdvm_of_parse c f q h4, rfl, h7, h8, h9, h11⟩

/-- **data bursts through `from_hytera_ipsc`** (every slot type / call type that yields a `Burst`, both
timeslots) -/
theorem ipsc_data_roundtrip (c : Crcs) (p : Payload) (hp : Burst.Built c p) (cc : Nat) (hcc : cc < 16) (s : Nat)
    (hs : s ∈ dataSyncs) (f : IpscFrame) (bt : BurstType) (hk : Burst.ipscKind f = .ok (.plain bt)) (b : Burst)
    (hb : Burst.build p cc s = .ok b) (hx : Burst.serialise b = .ok f.payloadBits) :
    ∃ o, Burst.fromIpsc c f = .ok (some o) ∧ o.aux = Burst.ipscAux f
      ∧ o.core.slotType = some ⟨cc, p.dataType, SlotType.genParity cc p.dataType⟩ ∧ o.core.sync = .pattern s
      ∧ o.core.data = some (Burst.parsedView c p) ∧ o.serialise = .ok f.payloadBits := by
  obtain ⟨b', x, q, h1, h2, _, h4, _, _, h7, h8, h9, _, h11⟩ := Burst.data_roundtrip c p hp cc hcc s hs bt
  have hbb : b' = b := by rw [hb] at h1; exact (Except.ok.inj h1).symm
  subst hbb
  have hxx : x = f.payloadBits := by rw [h2] at hx; exact Except.ok.inj hx
  subst hxx
  exact ⟨⟨q, Burst.ipscAux f⟩, Burst.fromIpsc_of_parse c f bt q hk h4, rfl, h7, h8, h9, h11⟩

/-- **voice bursts around a voice SYNC through both transports**, whatever the frame announces -/
theorem entry_voice_sync_roundtrip (c : Crcs) (v : Bits) (hv : v.length = 216) (s : Nat) (hs : s ∈ voiceSyncs) :
    (∀ f : MmdvmFrame, f.dmrBits = Burst.voiceFrame v (natToBits 48 s) →
      ∃ o, Burst.fromMmdvm c f = .ok o ∧ o.serialise = .ok f.dmrBits)
    ∧ (∀ (f : IpscFrame) (bt : BurstType), Burst.ipscKind f = .ok (.plain bt) →
      f.payloadBits = Burst.voiceFrame v (natToBits 48 s) →
      ∃ o, Burst.fromIpsc c f = .ok (some o) ∧ o.serialise = .ok f.payloadBits) := by
  constructor
  · intro f hf
    obtain ⟨q, h1, _, _, _, _, h6⟩ := Burst.voice_sync_roundtrip c v hv s hs (Burst.mmdvmAnnounced f)
    rw [← hf] at h1 h6
    exact ⟨⟨q, Burst.mmdvmAux f⟩, Burst.fromMmdvm_of_parse c f q h1, h6⟩
  · intro f bt hk hf
    obtain ⟨q, h1, _, _, _, _, h6⟩ := Burst.voice_sync_roundtrip c v hv s hs bt
    rw [← hf] at h1 h6
    exact ⟨⟨q, Burst.ipscAux f⟩, Burst.fromIpsc_of_parse c f bt q hk h1, h6⟩

/-- **voice bursts around valid EMB through both transports**: every DMRD frame object the Kaitai parser
returns (`frame_type` an `Enum` member — or any int but 2), every IPSC frame whose slot type is a
vocoder slot type -/
theorem entry_voice_emb_roundtrip (c : Crcs) (v : Bits) (hv : v.length = 216) (cc pi lcss : Nat)
    (hcc : cc < 16) (hpi : pi < 2) (hl : lcss < 4) (e32 : Bits) (he : e32.length = 32) :
    let x := Burst.voiceFrame v (Burst.embCenter (Emb.enc ⟨cc, pi, lcss, Emb.genParity cc pi lcss⟩) e32)
    (∀ f : MmdvmFrame, f.frameType.eqInt 2 = false → f.dmrBits = x →
      ∃ o, Burst.fromMmdvm c f = .ok o ∧ o.core.hasEmb = true ∧ o.serialise = .ok x)
    ∧ (∀ f : IpscFrame, Burst.ipscKind f = .ok (.plain .vocoder) → f.payloadBits = x →
      ∃ o, Burst.fromIpsc c f = .ok (some o) ∧ o.core.hasEmb = true ∧ o.serialise = .ok x) := by
  intro x
  constructor
  · intro f hft hf
    have ha : Burst.mmdvmAnnounced f = .vocoder := by simp [Burst.mmdvmAnnounced, hft]
    obtain ⟨q, h1, h2, _, _, _, _, h7⟩ :=
      Burst.voice_emb_roundtrip c v hv cc pi lcss hcc hpi hl e32 he .vocoder (by decide)
    have h1' : Burst.parse c f.dmrBits (Burst.mmdvmAnnounced f) = .ok q := by rw [ha, hf]; exact h1
    exact ⟨⟨q, Burst.mmdvmAux f⟩, Burst.fromMmdvm_of_parse c f q h1', h2, h7⟩
  · intro f hk hf
    obtain ⟨q, h1, h2, _, _, _, _, h7⟩ :=
      Burst.voice_emb_roundtrip c v hv cc pi lcss hcc hpi hl e32 he .vocoder (by decide)
    have h1' : Burst.parse c f.payloadBits .vocoder = .ok q := by rw [hf]; exact h1
    exact ⟨⟨q, Burst.ipscAux f⟩, Burst.fromIpsc_of_parse c f .vocoder q hk h1', h2, h7⟩

/-! ## payload content that is itself a valid object of another kind (hardening after seeded changes C01-G, C01-H)

"Any 216 vocoder bits" and "any 32 embedded bits" include every bit string the library itself serialises
for something else: the two halves of a data burst (a Golay-valid slot type word at the slot type
positions, a BPTC / trellis payload passing its CRC at the payload positions), code words of
VBPTC(32,11) of either parity, fragments of an embedded LC, SYNC patterns.  `voice_sync_roundtrip` and
`voice_emb_roundtrip` already quantify over all of them; the statements below name the class, so that
the model definition the harness generates such bursts with (`Burst.transplant`, driver op
`burst.transplant`) is the one a theorem speaks about.  The real code is run on the whole class by the
harness: every payload kind × variant as donor × every LCSS / PI / equal and different colour code ×
every announced burst type; all 2 × 2^11 VBPTC(32,11) words, embedded-LC fragments, every other encoder. -/

/-- **transplant_roundtrip.**  Take the 264 bits `x` the library serialises for ANY supported payload,
colour code and data SYNC, and replace the 48-bit centre: (1) by valid embedded signalling (any colour
code — equal to the slot type's or not —, PI, LCSS) around any 32 embedded bits, not announced as data:
the burst is parsed as a voice burst with that EMB — no slot type and no payload are read from the
vocoder bits, however valid they look — and serialises to the identical 264 bits; (2) by a voice SYNC,
whatever burst type is announced: likewise. -/
theorem transplant_roundtrip (c : Crcs) (p : Payload) (hp : Burst.Built c p) (cc : Nat) (hcc : cc < 16) (s : Nat)
    (hs : s ∈ dataSyncs) (b : Burst) (x : Bits) (hb : Burst.build p cc s = .ok b) (hx : Burst.serialise b = .ok x) :
    (∀ (cc' pi lcss : Nat) (e32 : Bits) (bt : BurstType), cc' < 16 → pi < 2 → lcss < 4 → e32.length = 32 →
      bt ≠ .dataAndControl →
      let emb : Emb := ⟨cc', pi, lcss, Emb.genParity cc' pi lcss⟩
      let y := Burst.transplant x (Burst.embCenter emb.enc e32)
      ∃ q, Burst.parse c y bt = .ok q ∧ q.hasEmb = true ∧ q.emb = some emb ∧ q.embBits = e32
        ∧ q.voiceBits = x.take 108 ++ x.drop 156 ∧ q.isDataOrControl = false ∧ q.slotType = none ∧ q.data = none
        ∧ y.length = 264 ∧ Burst.serialise q = .ok y)
    ∧ (∀ (s' : Nat) (bt : BurstType), s' ∈ voiceSyncs →
      let y := Burst.transplant x (natToBits 48 s')
      ∃ q, Burst.parse c y bt = .ok q ∧ q.isVocoder = true ∧ q.isDataOrControl = false ∧ q.slotType = none
        ∧ q.data = none ∧ y.length = 264 ∧ Burst.serialise q = .ok y) := by
  obtain ⟨b', x', _, h1, h2, h3, _⟩ := Burst.data_roundtrip c p hp cc hcc s hs .undefined
  have hbb : b' = b := by rw [hb] at h1; exact (Except.ok.inj h1).symm
  subst hbb
  have hxx : x' = x := by rw [h2] at hx; exact Except.ok.inj hx
  subst hxx
  exact ⟨fun cc' pi lcss e32 bt g1 g2 g3 g4 g5 => Burst.transplant_emb c x' h3 cc' pi lcss g1 g2 g3 e32 g4 bt g5,
    fun s' bt g => Burst.transplant_voice_sync c x' h3 s' g bt⟩

/-- the same for ANY 264 bits in place of a library-serialised burst (a corrupted one, the complement,
a slot type word of another data type over the same payload, another voice burst, …) -/
theorem transplant_any (c : Crcs) (x : Bits) (hx : x.length = 264) (cc pi lcss : Nat) (hcc : cc < 16)
    (hpi : pi < 2) (hl : lcss < 4) (e32 : Bits) (he : e32.length = 32) (bt : BurstType)
    (hbt : bt ≠ .dataAndControl) :
    let emb : Emb := ⟨cc, pi, lcss, Emb.genParity cc pi lcss⟩
    let y := Burst.transplant x (Burst.embCenter emb.enc e32)
    ∃ q, Burst.parse c y bt = .ok q ∧ q.hasEmb = true ∧ q.emb = some emb ∧ q.embBits = e32
      ∧ q.voiceBits = x.take 108 ++ x.drop 156 ∧ q.isDataOrControl = false ∧ q.slotType = none ∧ q.data = none
      ∧ y.length = 264 ∧ Burst.serialise q = .ok y :=
  Burst.transplant_emb c x hx cc pi lcss hcc hpi hl e32 he bt hbt

/-- **vocoder and embedded bits are serialised verbatim.**  The 264 bits a voice burst object with EMB
serialises to determine its vocoder bits and its embedded bits: two objects that differ in either never
serialise alike.  So `as_bits` cannot normalise content that happens to be a valid object of another
kind — e.g. re-encode embedded bits that are a VBPTC(32,11) word of the odd-parity family as the
even-parity word of the same 11 information bits (seeded change C01-H), or repair vocoder bits. -/
theorem voice_serialise_injective (a b : Burst) (ha : a.isDataOrControl = false) (hb : b.isDataOrControl = false)
    (hea : a.hasEmb = true) (heb : b.hasEmb = true) (hva : a.voiceBits.length = 216) (hvb : b.voiceBits.length = 216)
    (hla : a.embBits.length = 32) (hlb : b.embBits.length = 32) (x : Bits) (h1 : Burst.serialise a = .ok x)
    (h2 : Burst.serialise b = .ok x) : a.voiceBits = b.voiceBits ∧ a.embBits = b.embBits :=
  Burst.serialise_voice_injective a b ha hb hea heb hva hvb hla hlb x h1 h2

/-! ## non-vacuity -/

example : (246245464858461 : Nat) ∈ dataSyncs := by decide
example : (129054504089079 : Nat) ∈ voiceSyncs := by decide
/-- a negative acknowledgement CSBK with a non-zero CRC satisfies `Built` for every CRC function -/
example (c : Crcs) : Burst.Built c (.csbk ⟨true, false, 0, 0x1234, .nackRsp 0 1 4 33 2623266 1234⟩) :=
  ⟨by decide, by simp [Csbk.init]⟩
example (c : Crcs) : Burst.Built c (.rate34 ⟨List.replicate 16 0xAB, 5, 77, 0⟩) :=
  ⟨.confirmed, ⟨List.replicate 16 0xAB, 5, 77, 0⟩, by decide, by rfl⟩

/-- the hypotheses of `transplant_roundtrip` are satisfiable: the negative acknowledgement CSBK is assembled
and serialised (to 264 bits) for every CRC function -/
example (c : Crcs) : ∃ b x, Burst.build (.csbk ⟨true, false, 0, 0x1234, .nackRsp 0 1 4 33 2623266 1234⟩) 5 246245464858461 = .ok b
    ∧ Burst.serialise b = .ok x ∧ x.length = 264 := by
  obtain ⟨b, x, _, h1, h2, h3, _⟩ := Burst.data_roundtrip c (.csbk ⟨true, false, 0, 0x1234, .nackRsp 0 1 4 33 2623266 1234⟩)
    ⟨by decide, by simp [Csbk.init]⟩ 5 (by decide) 246245464858461 (by decide) .undefined
  exact ⟨b, x, h1, h2, h3⟩

/-- a DMRD frame object as the Kaitai parser returns it, slot bit 1: timeslot attribute 2, announced as vocoder -/
example : (Burst.mmdvmAux ⟨.member 2, .member 1, 7, 1, 2, 3, []⟩).timeslot = 2
    ∧ Burst.mmdvmAnnounced ⟨.member 2, .member 1, 7, 1, 2, 3, []⟩ = .vocoder
    ∧ Burst.mmdvmAnnounced ⟨.int 2, .member 1, 7, 1, 2, 3, []⟩ = .dataAndControl := by decide
/-- IPSC: CSBK slot type on timeslot 2 is a `Burst` announced as data with timeslot attribute 2; the voice
frame slot types are vocoder; the sync slot type and the wakeup call types give pseudo bursts -/
example : Burst.ipscKind ⟨0x3333, 1, 0x2222, 0, 0, 0, []⟩ = .ok (.plain .dataAndControl)
    ∧ (Burst.ipscAux ⟨0x3333, 1, 0x2222, 0, 0, 0, []⟩).timeslot = 2
    ∧ Burst.ipscKind ⟨0x7777, 0, 0x1111, 0, 0, 0, []⟩ = .ok (.plain .vocoder)
    ∧ Burst.ipscKind ⟨0xEEEE, 0, 0x1111, 0, 0, 0, []⟩ = .ok .sync
    ∧ Burst.ipscKind ⟨0x3333, 12, 0x1111, 0, 0, 0, []⟩ = .ok .wakeup
    ∧ Burst.ipscKind ⟨0x1234, 0, 0x1111, 0, 0, 0, []⟩ = .error .valueError :=
  ⟨rfl, rfl, rfl, rfl, rfl, rfl⟩

end Dmr.C01
