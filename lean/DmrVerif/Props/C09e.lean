import DmrVerif.Lemmas.VbptcPacked

/-!
# C09 (part e) — kernel evaluation of the (68,28) and (32,11) encoder cores on their bases, and of all
three cores on the zero word

(68,28): 28 message bits + 8 CRC bits + parity flag = 37 unit words; (32,11): 11 + 0 + 1 = 12.
-/

namespace Dmr.C09
open Dmr Dmr.Vbptc

theorem zero128 : v128.chkN (genC v128.H) (zeros (v128.k + v128.c + 1)) = true := by decide +kernel
theorem zero68 : v68.chkN (genC v68.H) (zeros (v68.k + v68.c + 1)) = true := by decide +kernel
theorem zero32 : v32.chkN (genC v32.H) (zeros (v32.k + v32.c + 1)) = true := by decide +kernel

theorem basis68 : v68.basisRange (genC v68.H) 0 37 = true := by decide +kernel
theorem basis32 : v32.basisRange (genC v32.H) 0 12 = true := by decide +kernel

end Dmr.C09
