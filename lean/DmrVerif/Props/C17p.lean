import DmrVerif.Lemmas.HstrpHistory
import DmrVerif.Props.C17

/-!
# C17 — the acknowledgement / heartbeat / answer discipline as statements about whole histories

`Props/C17` proves `acks_exactly_once`, `heartbeat_iff_connected`, `registration_answered_once` for one
datagram in an arbitrary state, and `connected_eq_last`, `registry_spec`, `never_raises_history`,
`own_sn_bounded` for histories.  Here the three per-datagram statements are lifted to the whole output
trace of `runFrom s h` / `run c h` (any history of parsed datagrams `h`, unbounded, garbage = `none`
included), by induction over the datagram list:

* `acks_history` — position by position, the acknowledgements sent in reaction to the `i`-th datagram
  are exactly `[ack of that datagram]` if it is well-formed connect / close / data (no ack bit, not
  heartbeat-class) and none otherwise; `acks_trace` — the acknowledgements of the whole trace, in order,
  are the acknowledgements of the ackable datagrams of the history, in order (each carries the S/N,
  version and options of its datagram and no payload: `acks_exactly_once`); `acks_count_history` — as
  many as there are ackable datagrams.
* `heartbeat_history` — the `i`-th datagram is echoed by one heartbeat iff it is heartbeat-class and
  the last connect / close among the first `i` datagrams (the initial flag if none) was a connect.
* `answers_history` — the `i`-th datagram is answered by one registration answer iff it carries a
  registration request; its S/N is the handler's counter after the requests among the first `i`
  datagrams, incremented, and fits 16 bits.
* `trace_kinds` — nothing else is ever sent in reaction to a datagram.
* `acks_only_history_silent` — a history of acknowledgements (no heartbeat bit, no registration request)
  is answered by nothing at all: however long two handlers feed each other's acknowledgements back,
  there is no ping-pong.
-/

namespace Dmr.C17
open Dmr Dmr.HstrpHandler

/-- **acks, position by position.** -/
theorem acks_history (s : St) (h : List (Option Msg)) (ht : s.transport.isSome = true) :
    (runFrom s h).2.length = h.length
    ∧ (runFrom s h).2.map (List.filter Out.isAck) = h.map ackOf :=
  ⟨runFrom_length s h, runFrom_acks s h ht⟩

/-- **acks of the whole trace**: in order, one per ackable datagram, built from that datagram -/
theorem acks_trace (s : St) (h : List (Option Msg)) (ht : s.transport.isSome = true) :
    (runFrom s h).2.flatten.filter Out.isAck = (h.filterMap ackable).map Out.ack := by
  rw [List.filter_flatten, runFrom_acks s h ht, flatten_ackOf]

/-- **count**: as many acknowledgements as well-formed connect / close / data datagrams -/
theorem acks_count_history (s : St) (h : List (Option Msg)) (ht : s.transport.isSome = true) :
    ((runFrom s h).2.flatten.filter Out.isAck).length = (h.filterMap ackable).length := by
  rw [acks_trace s h ht, List.length_map]

/-- the same for a new handler of any configuration -/
theorem acks_trace_init (c : Cfg) (h : List (Option Msg)) :
    (run c h).2.flatten.filter Out.isAck = (h.filterMap ackable).map Out.ack :=
  acks_trace (ready c) h rfl

/-- pairing by sequence number: the `k`-th acknowledgement of the trace carries the S/N (version,
options) of the `k`-th ackable datagram, the ack bit, no payload -/
theorem acks_trace_sn (s : St) (h : List (Option Msg)) (ht : s.transport.isSome = true) :
    ((runFrom s h).2.flatten.filter Out.isAck).map Out.asMsg
      = (h.filterMap ackable).map (fun m => some { m with pktType := ackType m.pktType, payload := .none }) := by
  rw [acks_trace s h ht, List.map_map]; rfl

/-- **heartbeats along a history.** -/
theorem heartbeat_history (s : St) (h : List (Option Msg)) (ht : s.transport.isSome = true)
    (i : Nat) (hi : i < h.length) :
    ((runFrom s h).2[i]?.map (List.filter Out.isHeartbeat))
      = some (heartbeatOf ((((h.take i).filterMap ccOf).getLast?).getD s.connected) h[i]) := by
  rw [runFrom_outs_get s h i hi, Option.map_some,
    step_heartbeats _ _ (by rw [runFrom_transport]; exact ht), runFrom_connected]

/-- **registration answers along a history.** -/
theorem answers_history (s : St) (h : List (Option Msg)) (ht : s.transport.isSome = true)
    (i : Nat) (hi : i < h.length) :
    ((runFrom s h).2[i]?.map (List.filter Out.isAnswer)) = some (answerOf (snAfter s.sn (h.take i)) h[i])
    ∧ nextSn (snAfter s.sn (h.take i)) < 65536 := by
  refine ⟨?_, Nat.lt_trans (nextSn_lt _) (by decide)⟩
  rw [runFrom_outs_get s h i hi, Option.map_some,
    step_answers _ _ (by rw [runFrom_transport]; exact ht), runFrom_sn]

/-- nothing but acknowledgements, heartbeats and registration answers is sent in reaction to datagrams -/
theorem trace_kinds (s : St) (h : List (Option Msg)) (o : Out) (ho : o ∈ (runFrom s h).2.flatten) :
    o.isAck = true ∨ o.isHeartbeat = true ∨ o.isAnswer = true := by
  induction h generalizing s with
  | nil => simp [runFrom] at ho
  | cons m t ih =>
    rw [runFrom_cons] at ho
    simp only [List.flatten_cons, List.mem_append] at ho
    rcases ho with ho | ho
    · exact step_outs_kinds s m o ho
    · exact ih _ ho

/-- **no ping-pong, for histories**: acknowledgements (ack bit, not heartbeat-class, no registration
request inside) are answered by nothing, however many are delivered, in whatever state -/
theorem acks_only_history_silent (s : St) (h : List (Option Msg))
    (hh : ∀ x, some x ∈ h → x.pktType.isAck = true ∧ x.heartbeatClass = false ∧ x.request = Option.none) :
    (runFrom s h).2.flatten = [] := by
  induction h generalizing s with
  | nil => rfl
  | cons m t ih =>
    rw [runFrom_cons]
    simp only [List.flatten_cons]
    rw [ih _ (fun x hx => hh x (List.mem_cons_of_mem _ hx)), List.append_nil]
    cases m with
    | none => rfl
    | some x =>
      obtain ⟨h1, h2, h3⟩ := hh x List.mem_cons_self
      rw [(acks_unanswered s x h1 h2).2, h3]

/-! ## non-vacuity -/

private def mk (tb sn : Nat) (pl : Payload := .none) (opt : Bytes := []) : Option Msg :=
  some { version := 0, pktType := PktType.ofByte tb, sn := sn, optBytes := opt, payload := pl }

/-- connect, its ack, heartbeat, registration, garbage, close, heartbeat: three ackable datagrams -/
example : ([mk 4 7, mk 5 0, mk 2 0, mk 0x20 9 (.rrs 3 [10, 0, 0, 100]), Option.none, mk 8 11, mk 2 0].filterMap ackable).map
    (fun m => m.sn) = [7, 9, 11] := by decide
example : (ready { port := 30001 }).transport.isSome = true := rfl
example : ((run { port := 1 } [mk 4 7, mk 2 0, mk 8 11, mk 2 0]).2.map (List.filter Out.isHeartbeat))
    = [[], [.heartbeat], [], []] := by decide

end Dmr.C17
