import DmrVerif.Props.C04
import DmrVerif.Lemmas.TranslHytera

/-!
# C04u — the HRNP checksum of C04's model is the translated SOURCE of `HRNP.calculate_checksum`

`Model/Integrity.lean` carries its own copy of the ones-complement checksum (`Integrity.hrnpChecksum`, with its own
`words16` / `foldGo`).  It is the same function as `Hytera.hrnpCheck` (C12's model), and therefore — by
`C12t.calculate_checksum_eq` — exactly what the definition translated from the source of `HRNP.calculate_checksum`
(`Gen/TranslHytera.lean`, regenerated on every run) returns, for ALL byte strings.  The self-check headline theorem of C04
is restated with the translated function producing the checksum octets.
-/

namespace Dmr.C04u
open Dmr Dmr.Py Dmr.Transl.Hytera

theorem words16_same (d : Bytes) : Integrity.words16 d = Hytera.words16 d := by
  induction d using Integrity.words16.induct with
  | case1 => rfl
  | case2 a => rfl
  | case3 a b rest ih => simp only [Integrity.words16, Hytera.words16, ih]

theorem fold_same (f c : Nat) : Integrity.foldGo f c = Hytera.fold16Go f c := by
  induction f generalizing c with
  | zero => rfl
  | succ f ih => simp only [Integrity.foldGo, Hytera.fold16Go, ih]

/-- the two models of the HRNP checksum are one function -/
theorem hrnpChecksum_same (d : Bytes) : Integrity.hrnpChecksum d = Hytera.hrnpCheck d := by
  simp only [Integrity.hrnpChecksum, Hytera.hrnpCheck, Integrity.fold16, Hytera.fold16, words16_same, fold_same]

/-- `HRNP.calculate_checksum` (translated source) returns the two octets of C04's `hrnpChecksum`, big endian, for every
byte string; it never raises -/
theorem calculate_checksum_eq (d : Bytes) :
    calculate_checksum d = .ok [Integrity.hrnpChecksum d / 256 % 256, Integrity.hrnpChecksum d % 256] := by
  rw [Transl.Hytera.calculate_checksum_eq, hrnpChecksum_same]; rfl

/-- `C04.hrnp_selfcheck` with the translated function: assemble header octets, length, the two octets the TRANSLATED
`calculate_checksum` returns for header ‖ payload, payload — the parser's verdict is `checksum_correct` (for a DATA packet
the payload is one framed HDAP message, `HdapFramed`: the length cross-check of /repo bc140b5) -/
theorem transl_hrnp_selfcheck (hd ver blk opc src dst pn : Nat) (inner : Bytes)
    (hop : Gen.Integrity.hrnpOpcodes.contains opc = true) (hlen : 12 + inner.length < 65536)
    (hf : opc = Gen.Integrity.hrnpData → Integrity.HdapFramed inner) :
    let head : Bytes := [hd, ver, blk, opc, src, dst, pn / 256 % 256, pn % 256,
      (12 + inner.length) / 256 % 256, (12 + inner.length) % 256]
    ∃ c, calculate_checksum (head ++ inner) = .ok c ∧ c.length = 2 ∧
      Integrity.hrnpDec (head ++ c ++ inner) false = .ok true := by
  intro head
  refine ⟨_, calculate_checksum_eq _, rfl, ?_⟩
  exact C04.hrnp_selfcheck hd ver blk opc src dst pn inner hop hlen hf

/-- the two octets the translated function returns determine the model's checksum value: equal answers of the translated
`calculate_checksum` mean equal `hrnpChecksum` (what `C04.hrnp_single_bit_partial` compares is therefore the translated
function's answer on the two octet ranges) -/
theorem transl_hrnp_checksum_detects (a b : Bytes) (h : calculate_checksum a = calculate_checksum b) :
    Integrity.hrnpChecksum a = Integrity.hrnpChecksum b := by
  rw [calculate_checksum_eq, calculate_checksum_eq] at h
  have ha : Integrity.hrnpChecksum a < 65536 := by unfold Integrity.hrnpChecksum; omega
  have hb : Integrity.hrnpChecksum b < 65536 := by unfold Integrity.hrnpChecksum; omega
  simp only [Except.ok.injEq, List.cons.injEq, and_true] at h
  omega

example : calculate_checksum [0x7e, 0x04, 0x00, 0xfe, 0x20, 0x10, 0x00, 0x00, 0x00, 0x0c] = .ok [0x60, 0xe1] ∧
    Integrity.hrnpDec [0x7e, 0x04, 0x00, 0xfe, 0x20, 0x10, 0x00, 0x00, 0x00, 0x0c, 0x60, 0xe1] false = .ok true := by
  decide +kernel

end Dmr.C04u
