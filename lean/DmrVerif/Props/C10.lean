import DmrVerif.Lemmas.Trellis
import DmrVerif.Lemmas.TrellisStore

/-!
# C10 — rate ¾ trellis coding is lossless for every 144-bit block

Property theorems only.  The model (`Model/Trellis.lean`) mirrors `okdmr/dmrlib/etsi/fec/trellis.py`
function by function, with every `assert` / subscript / dict access that can raise as an explicit
error; the tables are the ones `tools/extract_trellis.py` read from `/repo` on this run
(`Gen/Trellis.lean`).  Finite facts about the tables are decided by the kernel (`decide +kernel`, no
axioms); everything that quantifies over blocks or received streams is structural
(`Lemmas/Trellis.lean`).

`R α = Except Err α`; `x >>= f = .ok v` says that `x` succeeded **and** `f` of its result is `v`.
-/

namespace Dmr.C10
open Dmr Dmr.Trellis Dmr.Gen.Trellis

/-! ## finite facts about the extracted tables -/

/-- the tables are those of ETSI TS 102 361-1 annex B.2.4 (written out here, independently of `/repo`): the
interleaving schedule (four passes over the dibit pairs `8k + 2r, 8k + 2r + 1`), the trellis encoder state
transition table (B.7), the constellation-to-dibit-pair mapping (B.8) and the dibit symbol mapping.  Losslessness
holds for any consistent set of tables; that the tables are the standard's is this fact. -/
theorem tables_etsi :
    interleaveMatrix
      = (List.range 4).flatMap (fun r => (List.range 13).flatMap (fun k =>
          if 8 * k + 2 * r + 1 < 98 then [8 * k + 2 * r, 8 * k + 2 * r + 1] else []))
    ∧ transition =
      [0, 8, 4, 12, 2, 10, 6, 14,   4, 12, 2, 10, 6, 14, 0, 8,   1, 9, 5, 13, 3, 11, 7, 15,   5, 13, 3, 11, 7, 15, 1, 9,
       3, 11, 7, 15, 1, 9, 5, 13,   7, 15, 1, 9, 5, 13, 3, 11,   2, 10, 6, 14, 0, 8, 4, 12,   6, 14, 0, 8, 4, 12, 2, 10]
    ∧ constellationReverse =
      [(0, (1, -1)), (1, (-1, -1)), (2, (3, -3)), (3, (-3, -3)), (4, (-3, -1)), (5, (3, -1)), (6, (-1, -3)), (7, (1, -3)),
       (8, (-3, 3)), (9, (3, 3)), (10, (-1, 1)), (11, (1, 1)), (12, (1, 3)), (13, (-1, 3)), (14, (3, 1)), (15, (-3, 1))]
    ∧ dibits = [((false, true), 3), ((false, false), 1), ((true, false), -1), ((true, true), -3)] := by
  decide +kernel

/-- the interleave matrix is a permutation of the 98 dibit positions 0..97 -/
theorem matrix_perm : interleaveMatrix.Perm (List.range 98) :=
  List.isPerm_iff.mp (by decide +kernel)

/-- the dict has exactly the four bit pairs as keys and four distinct dibit values -/
theorem dibit_dict_bijective :
    dibits.length = 4 ∧ (dibits.map Prod.fst).Nodup ∧ (dibits.map Prod.snd).Nodup
      ∧ dibitsReverse.length = 4 ∧ (dibitsReverse.map Prod.fst).Nodup := by decide +kernel

/-- the reverse dibit dict is the inverse of the dibit dict, in both directions -/
theorem dibit_dicts_inverse : chkDibitRev = true ∧ chkDibitFwd = true := by decide +kernel

/-- 16 dibit pairs ↔ 16 points: keys distinct, values distinct -/
theorem constellation_dict_bijective :
    constellation.length = 16 ∧ (constellation.map Prod.fst).Nodup
      ∧ (constellation.map Prod.snd).Nodup
      ∧ constellationReverse.length = 16 ∧ (constellationReverse.map Prod.fst).Nodup := by
  decide +kernel

/-- the reverse constellation dict is the inverse of the constellation dict, in both directions:
all points 0..15 and all 16 pairs of dibit values -/
theorem constellation_dicts_inverse : chkPointRev = true ∧ chkPointFwd = true := by decide +kernel

/-- the transition table has 8 rows of 8 **distinct** points below 16 -/
theorem transition_rows_distinct :
    transition.length = 64 ∧ transition.all (fun p => decide (p < 16)) = true
      ∧ (List.range 8).all (fun s => decide ((transition.drop (s * 8)).take 8).Nodup) = true := by
  decide +kernel

/-- for every one of the 64 (state, tribit) pairs the decoder's search of row `state` — which does
not `break` and so keeps the **last** hit — for the point `T[state*8+tribit]` ends at `tribit` -/
theorem transitions_invertible : chkTrans = true := by decide +kernel

/-- all table values fit the `array("b")` / `array("B")` element types the code stores them in
(the model has no `OverflowError`) -/
theorem tables_fit_arrays :
    dibitVals.all (fun d => decide (-128 ≤ d ∧ d ≤ 127)) = true
      ∧ (constellation.map Prod.fst).all
          (fun xy => decide (-128 ≤ xy.1 ∧ xy.1 ≤ 127 ∧ -128 ≤ xy.2 ∧ xy.2 ≤ 127)) = true
      ∧ transition.all (fun p => decide (p ≤ 255)) = true
      ∧ (constellation.map Prod.snd).all (fun p => decide (p ≤ 255)) = true := by decide +kernel

/-- everything the structural lemmas need, about the tables of this run -/
theorem tablesOk : TablesOk where
  dibitRev := dibit_dicts_inverse.1
  dibitFwd := dibit_dicts_inverse.2
  pointRev := constellation_dicts_inverse.1
  pointFwd := constellation_dicts_inverse.2
  trans := transitions_invertible
  matrix := by decide +kernel
  matrixNodup := (List.Perm.nodup_iff matrix_perm).mpr List.nodup_range

theorem octets_ok : chkOctets = true := by decide +kernel

/-! ## the property: lossless for every 144-bit block -/

/-- encoding any 144-bit block succeeds and yields exactly 196 bits -/
theorem encode_length (b : Bits) (h : b.length = 144) :
    ∃ s, encode b = .ok s ∧ s.length = 196 := by
  obtain ⟨s, h1, h2, _⟩ := encode_decode tablesOk b h
  exact ⟨s, h1, h2⟩

/-- decoding the encoding of any 144-bit block succeeds and returns the block -/
theorem decode_encode (b : Bits) (h : b.length = 144) : (encode b >>= decode) = .ok b := by
  obtain ⟨s, h1, _, h3⟩ := encode_decode tablesOk b h
  rw [h1]; exact h3

/-- `encode` asserts only `len ≥ 144` and truncates: a longer argument is coded as its first 144 bits -/
theorem decode_encode_longer (b : Bits) (h : 144 ≤ b.length) :
    (encode b >>= decode) = .ok (b.take 144) := by
  have e : encode b = encode (b.take 144) := by
    have n1 : ¬ b.length < 144 := by omega
    have n2 : ¬ (b.take 144).length < 144 := by simp; omega
    simp only [encode, encodeEndian, n1, n2, if_false, List.take_take, Nat.min_self]
  rw [e]
  exact decode_encode _ (by simp; omega)

/-- fewer than 144 bits are refused by the encoder's assertion, any other length than 196 by the decoder's -/
theorem length_asserts (b s : Bits) :
    (b.length < 144 → encode b = .error .assertion) ∧ (s.length ≠ 196 → decode s = .error .assertion) := by
  constructor
  · intro h; simp [encode, encodeEndian, h]
  · intro h; simp [decode, h]

/-- the bytes entry point is the bits entry point on the big-endian expansion of the octets, and
`as_bytes=True` is `tobytes()` of the same decoded bits -/
theorem bytes_bits_agree (bs : Bytes) (s : Bits) :
    encodeBytes bs = encode (bytesToBits bs)
      ∧ decodeAsBytes s = (decode s).map bitsToBytes := by
  refine ⟨rfl, ?_⟩
  unfold decodeAsBytes
  cases decode s <;> rfl

/-- 18 octets in, `as_bytes` out: the round trip returns the octets -/
theorem decode_encode_bytes (bs : Bytes) (h : bs.length = 18) (hb : ∀ x ∈ bs, x < 256) :
    (encodeBytes bs >>= decodeAsBytes) = .ok bs := by
  have hl : (bytesToBits bs).length = 144 := by rw [bytesToBits_length octets_ok bs hb, h]
  obtain ⟨s, h1, _, h3⟩ := encode_decode tablesOk (bytesToBits bs) hl
  show (encode (bytesToBits bs) >>= decodeAsBytes) = .ok bs
  rw [h1]
  show decodeAsBytes s = .ok bs
  simp only [decodeAsBytes, h3, bitsToBytes_bytesToBits octets_ok bs hb]

/-- octets in, bits out: the 144 bits of the octets; bits in, octets out: `tobytes()` of the block -/
theorem decode_encode_mixed (bs : Bytes) (h : bs.length = 18) (hb : ∀ x ∈ bs, x < 256)
    (b : Bits) (hbl : b.length = 144) :
    (encodeBytes bs >>= decode) = .ok (bytesToBits bs)
      ∧ (encode b >>= decodeAsBytes) = .ok (bitsToBytes b) := by
  have hl : (bytesToBits bs).length = 144 := by rw [bytesToBits_length octets_ok bs hb, h]
  refine ⟨decode_encode _ hl, ?_⟩
  obtain ⟨s, h1, _, h3⟩ := encode_decode tablesOk b hbl
  rw [h1]
  show decodeAsBytes s = .ok (bitsToBytes b)
  simp only [decodeAsBytes, h3]

/-! ## interleaving -/

/-- on 98 dibits `interleave` is `out[i] = d[M[i]]`, i.e. the position permutation `matrix_perm` … -/
theorem interleave_positions (d : List Int) (h : d.length = 98) :
    interleave d = .ok (interleaveMatrix.map (fun m => d.getD m 0)) :=
  interleave_eq tablesOk d h

/-- … and `deinterleave` is its inverse, in both directions -/
theorem interleave_perm (d : List Int) (h : d.length = 98) :
    (interleave d >>= deinterleave) = .ok d ∧ (deinterleave d >>= interleave) = .ok d := by
  obtain ⟨y, h1, _, _, h2⟩ := deinterleave_interleave tablesOk d h
  obtain ⟨x, h3, _, _, h4⟩ := interleave_deinterleave tablesOk d h
  constructor
  · rw [h1]; exact h2
  · rw [h3]; exact h4

/-- both keep the length: they permute the 98 positions -/
theorem interleave_length (d : List Int) (h : d.length = 98) :
    (∃ y, interleave d = .ok y ∧ y.length = 98) ∧ (∃ x, deinterleave d = .ok x ∧ x.length = 98) := by
  obtain ⟨y, h1, h2, _, _⟩ := deinterleave_interleave tablesOk d h
  obtain ⟨x, h3, h4, _, _⟩ := interleave_deinterleave tablesOk d h
  exact ⟨⟨y, h1, h2⟩, ⟨x, h3, h4⟩⟩

/-! ## rejection of unreachable constellation points -/

/-- every 196-bit stream gets through the table look-ups of the decoder: 49 points below 16 -/
theorem stream_points (s : Bits) (h : s.length = 196) :
    ∃ pts, streamPoints s = .ok pts ∧ pts.length = 49 ∧ ∀ p ∈ pts, p < 16 :=
  streamPoints_total tablesOk s h

/-- a received stream whose `i`-th constellation point is not one of the eight points the encoder
can emit from the state the decoder has reached at position `i` is rejected with the assertion
error — at every one of the 49 positions, the flush position included — never decoded -/
theorem reject_unreachable (s : Bits) (pts : List Nat) (hp : streamPoints s = .ok pts)
    (i : Nat) (hi : i < 49) (st p : Nat) (row : List Nat)
    (hst : stateBefore pts i = .ok st) (hpi : pts[i]? = some p)
    (hrow : rowOf st = .ok row) (hnot : p ∉ row) :
    decode s = .error .assertion :=
  decode_reject s pts hp i hi st p row hst hpi hrow hnot

/-- what the hypotheses of `reject_unreachable` mean in terms of the encoder: the row of a state is
exactly the set of points `tribits_to_points` emits from that state (for the eight tribits) … -/
theorem row_is_emittable (st : Nat) (row : List Nat) (h : rowOf st = .ok row) (p : Nat) :
    p ∈ row ↔ ∃ t, t < 8 ∧ emit st [t] = .ok [p] :=
  mem_row_iff_emit st row h p

/-- … and on an encoder output the decoder's state before point `i` is the encoder's own state
there (0 at the start, else the previous tribit): decoder `last` = encoder `state` -/
theorem state_is_encoder_state (ts pts : List Nat) (hts : ∀ t ∈ ts, t < 8)
    (he : tribitsToPoints ts = .ok pts) (i : Nat) (hi : i ≤ ts.length) :
    ∃ st, (0 :: ts)[i]? = some st ∧ stateBefore pts i = .ok st :=
  walkState_emit tablesOk ts 0 i pts (by omega) hts hi he

/-- the same at the stage function (any list of points, the loop always runs 49 times) -/
theorem reject_unreachable_points (pts : List Nat) (i : Nat) (hi : i < 49) (st p : Nat)
    (row : List Nat) (hst : stateBefore pts i = .ok st) (hpi : pts[i]? = some p)
    (hrow : rowOf st = .ok row) (hnot : p ∉ row) :
    pointsToTribits pts = .error .assertion :=
  walk_reject i 49 0 pts st p row hi hst hpi hrow hnot

/-- conversely: what `points_to_tribits` accepts is a path through the encoder's table -/
theorem accepted_is_path (pts ts : List Nat) (h : pointsToTribits pts = .ok ts) (i : Nat)
    (hi : i < 49) :
    ∃ st row p, stateBefore pts i = .ok st ∧ rowOf st = .ok row ∧ pts[i]? = some p ∧ p ∈ row :=
  walk_ok_path 49 0 pts ts h i hi

/-- the decoder does not look at the value of the 49th (flush) tribit: it only has to be reachable -/
theorem flush_dropped (ts : List Nat) (h : ts.length = 48) (x : Nat) :
    tribitsToBits (ts ++ [x]) = .ok (ts.flatMap tribitBits) :=
  tribitsToBits_flush ts h x

/-! ## arguments and results as objects the caller keeps

The theorems above speak about values.  A caller holds *objects*: he keeps the streams and blocks he
got back, edits them in place (channel errors, padding, trimming), passes the same argument object
again.  `Model/TrellisStore.lean` makes this explicit: `Store` = the objects held so far, `HOp.call`
appends the result of a call as a **new** object, `HOp.edit` is an in-place edit by the caller,
`runOps` a whole history.  The correspondence run executes the same histories on the real code, keeps
every object and reads all of them back. -/

/-- whatever the caller holds (an argument he built, a stream or block he got back) keeps its content
through any further history of calls and edits, as long as he does not edit *that* object -/
theorem held_object_stable (h : Store) (ops : List HOp) (r : Nat) (hr : r < h.size)
    (ht : ∀ op ∈ ops, op.target ≠ some r) : (runOps h ops).read r = h.read r :=
  read_runOps h ops r hr ht

/-- a call hands out a new object whose content is the function of the argument's *current* content —
the same after any two histories `h`, `h'` and for any two argument objects `r`, `r'` with that content —
and it changes nothing the caller already holds, the argument included -/
theorem call_is_history_free (h h' : Store) (f : Fn) (r r' : Nat) (o : Obj)
    (hr : h.read r = some o) (hr' : h'.read r' = some o) :
    ((HOp.call f r).run h).read h.size = some (f.apply o)
      ∧ ((HOp.call f r').run h').read h'.size = some (f.apply o)
      ∧ ((HOp.call f r).run h).size = h.size + 1
      ∧ ∀ k, k < h.size → ((HOp.call f r).run h).read k = h.read k := by
  obtain ⟨a1, a2, a3⟩ := HOp.run_call h f r o hr
  obtain ⟨_, b2, _⟩ := HOp.run_call h' f r' o hr'
  exact ⟨a2, b2, a1, a3⟩

/-- two results are two objects: after `x = f(a); y = g(b)` the caller holds `f(a)` **and** `g(b)` -/
theorem two_results_coexist (h : Store) (f g : Fn) (r1 r2 : Nat) (o1 o2 : Obj)
    (h1 : h.read r1 = some o1) (h2 : h.read r2 = some o2) :
    (runOps h [.call f r1, .call g r2]).read h.size = some (f.apply o1)
      ∧ (runOps h [.call f r1, .call g r2]).read (h.size + 1) = some (g.apply o2) := by
  obtain ⟨a1, a2, a3⟩ := HOp.run_call h f r1 o1 h1
  have h2' : ((HOp.call f r1).run h).read r2 = some o2 := by
    rw [a3 r2 (Store.read_lt h r2 o2 h2)]; exact h2
  obtain ⟨_, b2, b3⟩ := HOp.run_call ((HOp.call f r1).run h) g r2 o2 h2'
  simp only [runOps, List.foldl_cons, List.foldl_nil]
  refine ⟨?_, ?_⟩
  · rw [b3 h.size (by omega)]; exact a2
  · rw [← a1]; exact b2

/-- the property inside any history: after whatever happened before (`h`), encoding a 144-bit block
hands out a 196-bit stream; after whatever happens next (`ops`: further encodes of the same or other
blocks, in-place edits of the argument, of earlier streams, of anything but this stream) the stream
is still there and decoding it returns the block -/
theorem round_trip_in_history (h : Store) (b : Bits) (hb : b.length = 144) (ops : List HOp)
    (ht : ∀ op ∈ ops, op.target ≠ some (h.size + 1)) :
    ∃ s, s.length = 196
      ∧ (runOps (runOps h [.new (.bits false b), .call .encode h.size]) ops).read (h.size + 1)
          = some (.bits false s)
      ∧ ((HOp.call .decode (h.size + 1)).run
            (runOps (runOps h [.new (.bits false b), .call .encode h.size]) ops)).read
          (runOps (runOps h [.new (.bits false b), .call .encode h.size]) ops).size
          = some (.bits false b) := by
  obtain ⟨s, he, hl, hd⟩ := encode_decode tablesOk b hb
  obtain ⟨c1, _, c3⟩ := runOps_new_call h (.bits false b) .encode
  have hs : Fn.apply .encode (.bits false b) = .bits false s := by
    show Obj.ofR Obj.big (encode b) = _
    rw [he]; rfl
  have hread := read_runOps (runOps h [.new (.bits false b), .call .encode h.size]) ops (h.size + 1)
    (by omega) ht
  rw [c3, hs] at hread
  refine ⟨s, hl, hread, ?_⟩
  obtain ⟨_, d2, _⟩ := HOp.run_call _ .decode (h.size + 1) _ hread
  rw [d2]
  show some (Obj.ofR Obj.big (decode s)) = _
  rw [hd]; rfl

/-- the same for 18 octets in, `as_bytes=True` out -/
theorem round_trip_in_history_bytes (h : Store) (bs : Bytes) (hl : bs.length = 18)
    (hb : ∀ x ∈ bs, x < 256) (ops : List HOp)
    (ht : ∀ op ∈ ops, op.target ≠ some (h.size + 1)) :
    ∃ s, s.length = 196
      ∧ (runOps (runOps h [.new (.octets bs), .call .encode h.size]) ops).read (h.size + 1)
          = some (.bits false s)
      ∧ ((HOp.call .decodeBytes (h.size + 1)).run
            (runOps (runOps h [.new (.octets bs), .call .encode h.size]) ops)).read
          (runOps (runOps h [.new (.octets bs), .call .encode h.size]) ops).size
          = some (.octets bs) := by
  have hlen : (bytesToBits bs).length = 144 := by rw [bytesToBits_length octets_ok bs hb, hl]
  obtain ⟨s, he, hsl, hd⟩ := encode_decode tablesOk (bytesToBits bs) hlen
  obtain ⟨c1, _, c3⟩ := runOps_new_call h (.octets bs) .encode
  have hs : Fn.apply .encode (.octets bs) = .bits false s := by
    show Obj.ofR Obj.big (encode (bytesToBits bs)) = _
    rw [he]; rfl
  have hread := read_runOps (runOps h [.new (.octets bs), .call .encode h.size]) ops (h.size + 1)
    (by omega) ht
  rw [c3, hs] at hread
  refine ⟨s, hsl, hread, ?_⟩
  obtain ⟨_, d2, _⟩ := HOp.run_call _ .decodeBytes (h.size + 1) _ hread
  rw [d2]
  show some (Obj.ofR Obj.octets (decodeAsBytes s)) = _
  simp only [decodeAsBytes, hd, bitsToBytes_bytesToBits octets_ok bs hb]
  rfl

/-! ## error paths: a call that raises leaves nothing behind

In the store model a refused call hands out `Obj.raised` and — like every call — touches no object and no
state (`HOp.run_call`, `held_object_stable`); `round_trip_in_history` therefore holds after any prefix `h`
that contains refused calls.  The special case the hardening round asks for, spelled out: the FIRST call of a
process is an arbitrary one (any of the 13 callables on any argument object, refused or answered), then the
property.  The correspondence run executes such histories on the real code for every callable and every class
of refused / unusual argument (`error-path` histories of `harness/props/c10.py`). -/

theorem round_trip_after_refused_first_call (o : Obj) (f : Fn) (b : Bits) (hb : b.length = 144) :
    ∃ s, s.length = 196
      ∧ (runOps (runOps Store.empty [.new o, .call f 0]) [.new (.bits false b), .call .encode 2]).read 3
          = some (.bits false s)
      ∧ (runOps (runOps Store.empty [.new o, .call f 0])
          [.new (.bits false b), .call .encode 2, .call .decode 3]).read 4 = some (.bits false b) := by
  have hsz := size_first_call o f
  obtain ⟨s, hl, h1, h2⟩ := round_trip_in_history (runOps Store.empty [.new o, .call f 0]) b hb [] (by simp)
  rw [hsz] at h1 h2
  refine ⟨s, hl, by simpa [runOps] using h1, ?_⟩
  have hsz2 : (runOps (runOps Store.empty [.new o, .call f 0])
      [.new (.bits false b), .call .encode 2]).size = 4 := by
    have := (runOps_new_call (runOps Store.empty [.new o, .call f 0]) (.bits false b) .encode).1
    rw [hsz] at this
    exact this
  simp only [runOps, List.foldl_nil] at h2 hsz2
  simp only [runOps, List.foldl_cons, List.foldl_nil]
  rw [hsz2] at h2
  exact h2

/-! ## outside the property's assumption: a little-endian bitarray argument

`bits_to_tribits` uses `ba2int` on slices, which honours the endianness of the caller's bitarray,
while `tribits_to_bits` always writes most-significant-bit first.  The library's callers pass
big-endian bitarrays (bitarray's default); for a little-endian one the code is *not* lossless in index
order, and this is exactly what happens: -/

theorem little_endian_argument (b : Bits) (h : b.length = 144) :
    (encodeEndian true b >>= decode) = .ok (rev3 b) := by
  rw [encodeEndian_little b h]
  exact decode_encode _ (by rw [rev3_length 48 b (by omega)])

/-! ## non-vacuity

The examples are evaluated by the kernel on the tables of this run.  They are phrased so that they
hold for *any* tables for which the property holds (no captured code word is pinned here: that the
model reproduces the captured packets of `test_trellis.py` is the job of the correspondence run). -/

/-- decoded octets of a captured packet of `test_trellis.py` -/
def sampleOctets : Bytes :=
  [0x02, 0xf2, 0x44, 0x00, 0x59, 0x00, 0x20, 0x00, 0x4d, 0x00, 0x41, 0x00, 0x52, 0x00, 0x45, 0x00, 0x4b, 0x00]

/-- `r` succeeded with a value equal to `v` -/
def okIs {α : Type} [BEq α] (r : R α) (v : α) : Bool :=
  match r with
  | .ok x => x == v
  | .error _ => false

example : sampleOctets.length = 18 ∧ ∀ x ∈ sampleOctets, x < 256 := by decide +kernel
example : (bytesToBits sampleOctets).length = 144 := by decide +kernel
example : okIs (encodeBytes sampleOctets >>= decodeAsBytes) sampleOctets = true := by decide +kernel
example : okIs (encode (bytesToBits sampleOctets) >>= fun s => pure s.length) 196 = true := by
  decide +kernel

/-- the hypotheses of `reject_unreachable` are satisfiable: take the smallest point `q` that row 0
lacks, put it first (where the decoder is in state 0) in front of 48 arbitrary points, and map the 49
points to a 196-bit stream with the encoder's own stages; the stream has exactly these points, `q` is
not in the row of `stateBefore … 0 = 0`, and the decoder answers with the assertion error -/
def rejectWitness : Bool :=
  match rowOf 0 with
  | .ok row =>
    match (List.range 16).find? (fun q => !row.contains q) with
    | some q =>
      let pts := q :: List.replicate 48 0
      match pointsToDibits pts >>= interleave >>= dibitsToBits with
      | .ok s =>
        s.length == 196 && okIs (streamPoints s) pts && okIs (stateBefore pts 0) 0
          && !row.contains q
          && (match decode s with | .error .assertion => true | _ => false)
      | .error _ => false
    | none => false
  | .error _ => false

example : rejectWitness = true := by decide +kernel

/-- a history of the kind the hypotheses of `round_trip_in_history` allow, evaluated by the kernel:
encode a block (object 1), damage the returned stream in place (flip, extend), encode the same block
again (object 2), decode that (3); encode the octets (5), wipe the first argument object, decode the
third stream as bytes (6).  The damaged stream stays damaged, the later ones are intact. -/
def historyWitness : Bool :=
  let b := bytesToBits sampleOctets
  let h := runOps Store.empty
    [.new (.bits false b), .call .encode 0, .edit 1 (.flip 0), .edit 1 (.extend (.bits false [true, false])),
     .call .encode 0, .call .decode 2, .new (.octets sampleOctets), .call .encode 4, .edit 0 .clear,
     .call .decodeBytes 5]
  match h.read 0, h.read 1, h.read 2, h.read 3, h.read 5, h.read 6 with
  | some (.bits _ a), some (.bits _ s1), some (.bits _ s2), some (.bits _ d), some (.bits _ s3),
      some (.octets o) =>
    a.isEmpty && s1.length == 198 && s2.length == 196 && s1.take 196 != s2
      && (flipAt 0 (s1.take 196)) == s2 && d == b && s3 == s2 && o == sampleOctets && h.size == 7
  | _, _, _, _, _, _ => false

example : historyWitness = true := by decide +kernel

/-- an error-path history evaluated by the kernel: the first call is `tribits_to_points([3, 5, 9, 2])`, which
walks two valid non-zero tribits, accepts the out-of-row subscript 9 and then runs off the table (`IndexError`
with the encoder in a non-zero state); the block encoded next decodes to itself, and the refused call is
refused in the same way afterwards -/
def errorPathWitness : Bool :=
  let b := bytesToBits sampleOctets
  let h := runOps Store.empty
    [.new (.nats [3, 5, 9, 2]), .call .tribitsToPoints 0, .new (.bits false b), .call .encode 2, .call .decode 3,
     .call .tribitsToPoints 0]
  match h.read 1, h.read 4, h.read 5 with
  | some (.raised e1), some (.bits _ d), some (.raised e2) => d == b && h.size == 6 && e1 == e2
  | _, _, _ => false

example : errorPathWitness = true := by decide +kernel

/-- a little-endian bitarray argument really differs: `110…` comes back as `011…` -/
example : rev3 (bytesToBits sampleOctets) ≠ bytesToBits sampleOctets := by decide +kernel

end Dmr.C10
