import DmrVerif.Model.Lrrp
import DmrVerif.Lemmas.LrrpRef

/-! # C15 — LRRP/MBXML documents (work in progress: table pin only) -/

namespace Dmr.C15
open Dmr Dmr.Lrrp

/-- the tables extracted on this run are the reference LRRP tables the theorems and the generator are about -/
theorem tables_are_reference :
    Gen.Lrrp.docIds = Ref.Lrrp.docIds ∧ Gen.Lrrp.elements0 = Ref.Lrrp.elements0
    ∧ Gen.Lrrp.elements1 = Ref.Lrrp.elements1 ∧ Gen.Lrrp.elements2 = Ref.Lrrp.elements2
    ∧ Gen.Lrrp.attributes0 = Ref.Lrrp.attributes0 ∧ Gen.Lrrp.constants0 = Ref.Lrrp.constants0 := by
  decide

end Dmr.C15
