import DmrVerif.Lemmas.LrrpApi
import DmrVerif.Lemmas.LrrpRef

/-!
# C15 — LRRP/MBXML documents re-serialise to the bytes they were parsed from

Property theorems only.  Model: `Model/Lrrp.lean` (`MBXML.from_bytes`, `read_document`, `write_part`,
`as_bytes`, `get_token` / `get_attribute`) on top of the C14 codecs, tied to the code by the
correspondence run of `harness/props/c15.py`; tables from `Gen/Lrrp.lean`, regenerated on every run and
pinned to the frozen reference `Lemmas/LrrpRef.lean` by the first theorem.

*Canonical documents* (`docOk`, `partOk`, `valueOk` in the model): tokens of the document's own table with
implemented value forms, values in range, floats `± (i + f/128)` (one-septet fraction, no negative zero),
every wire attribute present, constant table default (NCDT ids) / inline of length ≠ 1 / inherited, body
length below 2^32.  *Canonical octets* are the serialiser's output on canonical documents; by the C14
theorems (`writeU_canonical`, `writeU_unique`, `writeS_canonical`, `writeS_unique`, `fraction_one_septet`)
these are exactly the shortest-varint, one-septet-fraction encodings.  The theorems hold for any number of
documents per buffer and any number of tokens per document.
-/

namespace Dmr.C15
open Dmr Dmr.Mbxml Dmr.Lrrp

/-! ## the tables -/

/-- the tables extracted on this run are the reference LRRP tables (what the tokens *are*): a changed
token type, length, attribute list, document id or constant breaks this theorem -/
theorem tables_are_reference :
    Gen.Lrrp.docIds = Ref.Lrrp.docIds ∧ Gen.Lrrp.elements0 = Ref.Lrrp.elements0
    ∧ Gen.Lrrp.elements1 = Ref.Lrrp.elements1 ∧ Gen.Lrrp.elements2 = Ref.Lrrp.elements2
    ∧ Gen.Lrrp.attributes0 = Ref.Lrrp.attributes0 ∧ Gen.Lrrp.constants0 = Ref.Lrrp.constants0
    ∧ Gen.Lrrp.knownTokensRequest = Ref.Lrrp.knownTokensRequest
    ∧ Gen.Lrrp.knownTokensAnswer = Ref.Lrrp.knownTokensAnswer
    ∧ Gen.Lrrp.knownAttributesRequest = Ref.Lrrp.knownAttributesRequest
    ∧ Gen.Lrrp.knownAttributesAnswer = Ref.Lrrp.knownAttributesAnswer := by
  decide

/-- the document ids that have a configuration are exactly the 18 LRRP ids 4 … 21 -/
theorem lrrp_ids : (List.range 64).filter (fun i => (configOf i).toOption.isSome)
    = [4, 5, 6, 7, 8, 9, 10, 11, 12, 13, 14, 15, 16, 17, 18, 19, 20, 21] := by decide

/-- the model's `build_constants_table` gives the octets the code computed on this run -/
theorem constants_built : buildConstants Gen.Lrrp.constants0 = Gen.Lrrp.constants0Built := by decide

/-- every definition the lookup API can return is the definition the parser uses for that id in the
request (`elements0`) resp. answer / report (`elements1`) documents; the common tokens are in every table -/
theorem known_tokens_in_tables :
    (knownTokens true).flatten.all (fun tc => lookupElem Gen.Lrrp.elements0 tc.id == some tc) = true
    ∧ (knownTokens false).flatten.all (fun tc => lookupElem Gen.Lrrp.elements1 tc.id == some tc) = true
    ∧ Gen.Lrrp.elements2.all (fun tc => lookupElem Gen.Lrrp.elements0 tc.id == some tc
        && lookupElem Gen.Lrrp.elements1 tc.id == some tc) = true := by
  decide

/-! ## parse ∘ serialise -/

/-- canonical documents, one or several per buffer: the serialiser accepts them and the parser returns
them (NCDT documents with the default constant table filled in: `normDoc`) -/
theorem parse_ser (ds : List Doc) (hne : ds ≠ []) (hok : docsOk none ds = true) :
    ∃ x, asBytesAll ds = .ok x ∧ parse x = .ok (ds.map normDoc) := by
  obtain ⟨x, hx, _, hp⟩ := parseDocs_ser ds none hne hok
  exact ⟨x, hx, hp _ (Nat.le_refl _)⟩

/-- canonical octets re-serialise to themselves: if `x` is the serialisation of canonical documents,
then parsing `x` and serialising every parsed document gives `x` back (whole buffer) … -/
theorem reserialise (x : Bytes) (ds : List Doc) (hne : ds ≠ []) (hok : docsOk none ds = true)
    (hx : asBytesAll ds = .ok x) :
    ∃ ps, parse x = .ok ps ∧ ps.length = ds.length ∧ asBytesAll ps = .ok x := by
  obtain ⟨x', hx', hp⟩ := parse_ser ds hne hok
  rw [hx] at hx'
  have hxx : x' = x := by simpa using hx'.symm
  subst hxx
  exact ⟨ds.map normDoc, hp, by simp, by rw [asBytesAll_map_normDoc ds none hok]; exact hx⟩

/-- … and document by document: every parsed document serialises to the octets of its own segment -/
theorem reserialise_each (ds : List Doc) (hne : ds ≠ []) (hok : docsOk none ds = true) :
    ∃ x, asBytesAll ds = .ok x ∧
      (parse x).map (fun ps => ps.map asBytes) = .ok (ds.map asBytes) := by
  obtain ⟨x, hx, hp⟩ := parse_ser ds hne hok
  refine ⟨x, hx, ?_⟩
  rw [hp]
  simp only [Except.map, List.map_map]
  congr 1
  -- asBytes ∘ normDoc = asBytes on every canonical document of the chain
  have : ∀ (l : List Doc) (prev : Option Doc), docsOk prev l = true →
      l.map (asBytes ∘ normDoc) = l.map asBytes := by
    intro l
    induction l with
    | nil => intro _ _; rfl
    | cons d t ih =>
      intro prev h
      simp only [docsOk, Bool.and_eq_true] at h
      simp only [List.map_cons, Function.comp, asBytes_normDoc h.1]
      congr 1
      exact ih _ h.2
  exact this ds none hok

/-- `normDoc` only fills in the default constant table: ids, flags and parts (token ids, values,
attributes) are untouched -/
theorem normDoc_obs (d : Doc) :
    (normDoc d).id = d.id ∧ (normDoc d).parts = d.parts ∧ (normDoc d).cdtDefault = d.cdtDefault
      ∧ (normDoc d).cdtInherited = d.cdtInherited := by
  unfold normDoc
  split
  · split <;> simp
  · simp

/-! ## an inline constant table that the library also knows as a default

`docOk` puts no condition on the CONTENT of an inline table (only: length ≠ 1, the inheritance marker), so
`parse_ser` / `reserialise` cover a document whose inline table is octet for octet the built default table
of its type, the table its predecessor carries, or any near miss of those.  The statements below spell that
out: such a document keeps CDT_LEN and the table on the wire and parses back as "not default". -/

/-- the LRRP document ids that carry a constant table on the wire (not NCDT) -/
def tableIds : List Nat := [4, 6, 8, 10, 12, 14, 16, 18]

theorem table_ids : (List.range 64).filter (fun i => match configOf i with
    | .ok (di, _) => !di.ncdt | .error _ => false) = tableIds := by decide

theorem inline_table_on_the_wire (d : Doc) (hok : docOk none d = true)
    (di : DocId) (cfg : Config) (hcfg : configOf d.id = .ok (di, cfg)) (hn : di.ncdt = false)
    (hi : d.cdtInherited = false) :
    d.cdtDefault = false ∧ ∃ ps, writeParts d.parts = .ok ps ∧
      asBytes d = .ok (writeURaw d.id ++ (writeURaw (writeURaw d.cdt.length ++ (d.cdt ++ ps)).length
        ++ (writeURaw d.cdt.length ++ (d.cdt ++ ps))))
      ∧ ∃ x, asBytes d = .ok x ∧ parse x = .ok [d] := by
  obtain ⟨di', cfg', hcfg', hid, hp, hcdt, b, hb, hbl⟩ := docOk_unfold hok
  rw [hcfg] at hcfg'
  have hdi : di' = di := by simp at hcfg'; exact hcfg'.1.symm
  subst hdi
  unfold cdtCond at hcdt
  simp only [hn, hi, Bool.false_eq_true, if_false, Bool.and_eq_true, Bool.not_eq_true', bne_iff_ne, ne_eq,
    decide_eq_true_eq] at hcdt
  obtain ⟨⟨hd, _⟩, hl⟩ := hcdt
  refine ⟨hd, ?_⟩
  have hwc : writeCdt d = .ok (writeURaw d.cdt.length ++ d.cdt) := by simp [writeCdt, hi, hd, writeU_ok hl]
  cases hwp : writeParts d.parts with
  | error e => simp [bodyOf, hwc, hwp] at hb
  | ok ps =>
    have hbody : b = writeURaw d.cdt.length ++ (d.cdt ++ ps) := by
      simp [bodyOf, hwc, hwp] at hb; exact hb.symm
    have hnorm : normDoc d = d := by simp [normDoc, hcfg, hn]
    have hbl' : (writeURaw d.cdt.length).length + (d.cdt.length + ps.length) ≤ UINTVAR_MAX := by
      rw [hbody] at hbl; simpa using hbl
    refine ⟨ps, rfl, ?_, ?_⟩
    · simp [asBytes, writeU_ok hid, hwc, hwp, writeU_ok hbl']
    · have h1 : docsOk none [d] = true := by simp [docsOk, hok]
      obtain ⟨x, hx, _, hp⟩ := parseDocs_ser [d] none (by simp) h1
      cases ha : asBytes d with
      | error e => simp [asBytesAll, ha] at hx
      | ok y =>
        have hxy : x = y := by simp [asBytesAll, ha] at hx; exact hx.symm
        subst hxy
        refine ⟨x, rfl, ?_⟩
        have := hp (x.length + 1) (Nat.le_refl _)
        simpa [parse, hnorm] using this

/-- the hypotheses of `inline_table_on_the_wire` hold for the built default table itself, spelled out inline,
for every table-carrying document id (alone, and followed by a document that inherits it), and for its
near misses (one octet shorter / longer) -/
theorem inline_default_table_canonical :
    tableIds.all (fun i =>
      docOk none ⟨i, Gen.Lrrp.constants0Built, false, false, []⟩
      && docsOk none [⟨i, Gen.Lrrp.constants0Built, false, false, []⟩, ⟨i, Gen.Lrrp.constants0Built, false, true, []⟩]
      && docOk none ⟨i, Gen.Lrrp.constants0Built.dropLast, false, false, []⟩
      && docOk none ⟨i, Gen.Lrrp.constants0Built ++ [0], false, false, []⟩) = true := by decide

/-- … and the octets: id, document length 85, CDT_LEN 84, the 84 octets of the table; parsed back as a
document that is NOT marked "default table", so `as_bytes` writes the table again -/
theorem inline_default_table_octets :
    tableIds.all (fun i =>
      asBytes ⟨i, Gen.Lrrp.constants0Built, false, false, []⟩ == .ok (i :: 85 :: 84 :: Gen.Lrrp.constants0Built)
      && parse (i :: 85 :: 84 :: Gen.Lrrp.constants0Built) == .ok [⟨i, Gen.Lrrp.constants0Built, false, false, []⟩]) = true := by
  decide

/-! ## the token lookup API -/

/-- a document assembled from `get_token` results, whose parts are canonical for the document's table,
serialises to octets that parse back into one document with the same parts (token ids, values, attribute
values); `getToken_sound` / `known_tokens_in_tables` say what `get_token` returns.  The hypothesis `docOk`
excludes exactly the two recorded shortcomings below and ill-typed / out-of-range values. -/
theorem token_api (docId : Nat) (isReq : Bool) (calls : List (Key × Val × List (Key × Option Nat)))
    (ps : List Part) (_hb : getTokens isReq calls = .ok ps) (hok : docOk none (newDoc docId ps) = true) :
    ∃ x d, asBytes (newDoc docId ps) = .ok x ∧ parse x = .ok [d] ∧ d.id = docId ∧ d.parts = ps := by
  have h1 : docsOk none [newDoc docId ps] = true := by simp [docsOk, hok]
  obtain ⟨x, hx, hp⟩ := parse_ser [newDoc docId ps] (by simp) h1
  cases ha : asBytes (newDoc docId ps) with
  | error e => simp [asBytesAll, ha] at hx
  | ok b =>
    have hxb : x = b := by simp [asBytesAll, ha] at hx; exact hx.symm
    subst hxb
    refine ⟨x, normDoc (newDoc docId ps), rfl, by simpa using hp, ?_, ?_⟩
    · exact (normDoc_obs _).1
    · exact (normDoc_obs _).2.1

/-- what `get_token` returns: one of the known definitions matching the key, carrying the caller's value -/
theorem get_token_sound (isReq : Bool) (k : Key) (v : Val) (attrs : List (Key × Option Nat)) (p : Part)
    (h : getToken isReq k v attrs = .ok p) :
    ∃ tc ∈ (knownTokens isReq).flatten, k.matchesId tc.id tc.name = true ∧ p.tokenId = tc.id
      ∧ p.ty = tc.ty ∧ p.length = tc.length ∧ p.value = v :=
  getToken_sound isReq k v attrs p h

/-- lookup by number: the definition returned is the one the parser uses for that id in documents of the
requested kind (request: `elements0`, answer / report: `elements1`) — whatever was parsed or looked up
before (the model has no state: `getToken` is a function of its arguments and the extracted tables) -/
theorem get_token_by_number (isReq : Bool) (id : Nat) (v : Val) (attrs : List (Key × Option Nat)) (p : Part)
    (h : getToken isReq (.id id) v attrs = .ok p) :
    ∃ tc, lookupElem (if isReq then Gen.Lrrp.elements0 else Gen.Lrrp.elements1) id = some tc
      ∧ p.tokenId = id ∧ p.ty = tc.ty ∧ p.length = tc.length ∧ p.value = v := by
  obtain ⟨tc, hmem, hk, hid, hty, hlen, hv⟩ := getToken_sound isReq (.id id) v attrs p h
  have hid' : tc.id = id := by simpa [Key.matchesId] using hk
  have hall : (knownTokens isReq).flatten.all (fun tc => lookupElem (if isReq then Gen.Lrrp.elements0 else Gen.Lrrp.elements1) tc.id == some tc) = true := by
    cases isReq <;> decide
  have := List.all_eq_true.mp hall tc hmem
  refine ⟨tc, ?_, by rw [hid, hid'], hty, hlen, hv⟩
  rw [← hid']; simpa using this

/-- the token ids that both the request and the answer / report table define with DIFFERENT definitions:
by number they resolve to the request definition with `is_request` and to the answer definition without -/
theorem shared_ids_resolve_by_kind :
    (Gen.Lrrp.elements0.filter (fun t => match lookupElem Gen.Lrrp.elements1 t.id with
        | some u => u != t | none => false)).map (·.id) = [52, 84, 85, 86, 102, 105, 81]
    ∧ [52, 84, 85, 86, 102, 105, 81].all (fun i =>
        (match getToken true (.id i) .none [], lookupElem Gen.Lrrp.elements0 i with
          | .ok p, some tc => p.ty == tc.ty && p.length == tc.length && p.attrs == tc.attrs.map AttrRef.id
          | _, _ => false)
        && (match getToken false (.id i) .none [], lookupElem Gen.Lrrp.elements1 i with
          | .ok p, some tc => p.ty == tc.ty && p.length == tc.length && p.attrs == tc.attrs.map AttrRef.id
          | _, _ => false)) = true := by
  constructor <;> decide

/-- recorded shortcoming 1 (KNOWN_FINDINGS api-length0-explicit-attribute), kernel-checked: token 0x37
(fixed length 0) given an explicit result-code: the attribute is written, never read back -/
theorem api_length0_explicit_attribute_fails :
    ∃ p, getToken false (.id 0x37) (.bytes []) [(.id 0x22, some 5)] = .ok p
      ∧ asBytes (newDoc 7 [p]) = .ok [7, 2, 0x37, 5] ∧ parse [7, 2, 0x37, 5] = .error .key
      ∧ docOk none (newDoc 7 [p]) = false := by
  refine ⟨⟨0x37, .OPAQUE_I, some 0, [.inst ⟨0x22, 5⟩], .bytes []⟩, ?_, ?_, ?_, ?_⟩ <;> decide

/-- recorded shortcoming 2 (KNOWN_FINDINGS api-wire-attribute-omitted), kernel-checked: token 0x39 without
its result-code: no attribute octet is written although the parser always reads one -/
theorem api_wire_attribute_omitted_fails :
    ∃ p, getToken false (.id 0x39) (.bytes [0x61, 0x62, 0x63]) [] = .ok p
      ∧ asBytes (newDoc 7 [p]) = .ok [7, 5, 0x39, 3, 0x61, 0x62, 0x63]
      ∧ parse [7, 5, 0x39, 3, 0x61, 0x62, 0x63] = .error .index
      ∧ docOk none (newDoc 7 [p]) = false := by
  refine ⟨⟨0x39, .OPAQUE_I, none, [.id 0x22], .bytes [0x61, 0x62, 0x63]⟩, ?_, ?_, ?_, ?_⟩ <;> decide

/-! ## termination and consumption -/

/-- parsing terminates on every octet string: the model's recursion budget (octets left) is never
exhausted, so the result is a list of documents or one of the modelled Python exceptions -/
theorem parse_total (x : Bytes) : parse x ≠ .error .fuel := by
  intro h
  exact parseDocs_nf (x.length + 1) x none (Nat.le_refl _) _ h rfl

/-- the token loop of one document terminates likewise -/
theorem read_document_total (docId : Nat) (body : Bytes) (prev : Option Doc) :
    readDocument docId body prev ≠ .error .fuel := by
  intro h
  exact readDocument_nf' h rfl

/-- a successful parse consumed exactly the announced lengths: the buffer is a sequence of
`id, length, length octets`, every document was read from exactly its own octets, the last one ends
with the buffer -/
theorem consumed (x : Bytes) (ds : List Doc) (h : parse x = .ok ds) : Consumed x none ds :=
  parseDocs_consumed _ _ _ _ h

/-- a parse never returns an empty list of documents, and an empty buffer raises -/
theorem parse_nonempty (x : Bytes) (ds : List Doc) (h : parse x = .ok ds) : ds ≠ [] ∧ x ≠ [] := by
  have hc := consumed x ds h
  constructor
  · cases hc <;> simp
  · intro hx
    subst hx
    simp [parse, parseDocs, readUL, readUGo] at h

/-! ## the hypotheses are satisfiable by non-trivial documents -/

/-- the standard example report with error (test_lrrp): request-id 2468ACE0 and result 0x39 with
result-code 5, assembled through the lookup API -/
example : ∃ ps, getTokens false [(.id 0x22, .bytes [0x24, 0x68, 0xAC, 0xE0], []),
      (.id 0x39, .bytes [0x51, 0x53, 0x55], [(.id 0x22, some 5)])] = .ok ps
    ∧ docOk none (newDoc 7 ps) = true
    ∧ asBytes (newDoc 7 ps) = .ok [0x07, 0x0C, 0x22, 0x04, 0x24, 0x68, 0xAC, 0xE0, 0x39, 0x05, 0x03, 0x51, 0x53, 0x55] := by
  refine ⟨[⟨0x22, .OPAQUE_I, none, [], .bytes [0x24, 0x68, 0xAC, 0xE0]⟩,
    ⟨0x39, .OPAQUE_I, none, [.inst ⟨0x22, 5⟩], .bytes [0x51, 0x53, 0x55]⟩], ?_, ?_, ?_⟩ <;> decide

/-- three documents in one buffer: inline constant table, inherited table, NCDT; request-id of 0 octets,
interval 128 (a multiple of 128), altitude −10/128 (zero integer part, negative fraction) -/
def exampleDocs : List Doc :=
  [⟨4, [5, 0x41, 0x50, 0x43, 0x4F], false, false, [⟨0x22, .OPAQUE_I, none, [], .bytes []⟩, ⟨0x31, .UINTVAR, none, [], .nat 128⟩]⟩,
   ⟨6, [5, 0x41, 0x50, 0x43, 0x4F], false, true, [⟨0x69, .POINT_3D, none, [], .point3 [1, 2, 3, 4] [5, 6, 7, 8] ⟨true, 10, 7⟩⟩]⟩,
   ⟨17, [], true, false, [⟨0x38, .OPAQUE_I, some 0, [.id 0x23], .bytes []⟩]⟩]

example : docsOk none exampleDocs = true := by decide

end Dmr.C15
