import DmrVerif.Lemmas.IntegrityFec
import DmrVerif.Lemmas.IntegritySelf
import DmrVerif.Lemmas.IntegrityHrnpFix
import DmrVerif.Props.C04a
import DmrVerif.Props.C05a
import DmrVerif.Spec.EtsiCodes

/-!
# C04 — integrity indicators of parsed PDUs tell the truth about the received bits

Property theorems only (core Lean, no Mathlib).  Model: `Model/Integrity.lean` (the constructors' /
parsers' check logic as written, including the in-band sentinel "check field 0 ⇒ regenerate and report
ok") on top of the block codes of C06 and the CRC model of C05; tables re-extracted from `/repo` on
this run (`Gen/Codes`, `Gen/Crc`, `Gen/Integrity`).

Reading of the property.
* *Selfcheck*: a PDU built from field values, serialised and parsed back has its indicator true.
* *Slot type / EMB*: for **every** received word the indicator equals code word membership, except
  exactly when the parity field is all-zero and the data field is not (255 / 127 words): the full
  statement is therefore false, `slot_failset` / `emb_failset` say precisely where (known finding
  `zero-check-field`).
* *CRC PDUs*: a valid word hit by an error of the code's guaranteed class and received with a non-zero
  check field gives a decode error or indicator false (`…_detect_partial`; so it is never accepted, with
  or without different fields).  The guaranteed class: 1–3 bits or a burst ≤ 16 (96-bit CCITT words);
  1–2 bits or a burst ≤ 8 (short LC); a burst ≤ 9, in particular every single bit (CRC-9 blocks).
  Bursts are bursts of the order in which the CRC covers the bits (`slcOrder`, `rateOrder`): the short LC
  sends its CRC least significant bit first and a confirmed block is covered in the order data,
  [CRC-32,] serial number, CRC-9.  Without "check field ≠ 0" the statement is false
  (`crc_detect_full_false`).  The PI header has no sentinel: `pi_detect` is unconditional.
* *HRNP*: one inverted bit anywhere except in the two packet-length octets is detected
  (`hrnp_single_bit_partial`, this file); a changed length makes the parser check a different octet range, which
  the ones' complement sum alone does not exclude — since /repo bc140b5 the parser cross-checks the announced length
  with the length the carried HDAP message accounts for, and `Props/C04p.lean` proves the full statement
  (`hrnp_single_bit`, `hrnp_single_bit_in_context`: every octet of a DATA packet, length octets included) together
  with the exact burst characterisation of the checksum (`hrnp_burst_iff`; known finding hrnp-burst16-zero-ones).
-/

namespace Dmr.C04
open Dmr Dmr.Crc Dmr.Integrity Dmr.Gen Dmr.Gen.Integrity

/-! ## extracted tables -/

/-- reserved data types fold to 12; PI, LCSS are the identity; block sizes; masks used -/
theorem tables :
    dataTypesGraph = [0, 1, 2, 3, 4, 5, 6, 7, 8, 9, 10, 11, 12, 12, 12, 12]
    ∧ lcssGraph = [0, 1, 2, 3] ∧ preemptionPowerGraph = [0, 1]
    ∧ slcosGraph = [0, 1, 2, 3, 4, 4, 4, 4, 4, 4, 4, 4, 12, 12, 12, 12]
    ∧ activityIdGraph = [0, 1, 2, 3, 1, 1, 1, 1, 8, 9, 10, 11, 12, 13, 1, 1]
    ∧ (slcoNull, slcoActivity) = (0, 1)
    ∧ [rate12, rate34, rate1].map (fun c => (c.total, c.lens, c.mask))
        = [(96, [12, 10, 8, 6], 0x0F0), (144, [18, 16, 14, 12], 0x1FF), (192, [24, 22, 20, 18], 0x10F)]
    ∧ (maskDataHeader, maskPiHeader) = (0xCCCC, 0x6969)
    ∧ hrnpOpcodes = [0xFE, 0xFD, 0xFC, 0xFB, 0xFA, 0x00, 0x10] ∧ hrnpData = 0 := by decide

/-! ## slot type (Golay(20,8)) and EMB (QR(16,7)) -/

/-- "code word" below means a word of the ETSI TS 102 361-1 Annex B.3 codes: the extracted generator
matrices are the standard's (reference copy `Spec/EtsiCodes.lean`, shared with C06) -/
theorem codes_are_etsi : golay2087.G = Spec.golay2087G ∧ qr1676.G = Spec.qr1676G := by decide +kernel

/-- **selfcheck**: a slot type built from any colour code and data type value has `fec_parity_ok`, its
serialisation is a Golay code word and parses back with `fec_parity_ok` -/
theorem slot_selfcheck (cc dt : Nat) (hcc : cc < 16) (hdt : dt < 16) :
    ∃ o, slotInit cc dt 0 = .ok o ∧ o.ok = true ∧ golay2087.check o.enc = true
      ∧ ∃ q, slotDec o.enc = .ok q ∧ q.ok = true := by
  obtain ⟨dtv, _, _, hinit, henc⟩ := slotInit_zero cc dt hcc hdt
  refine ⟨_, hinit, rfl, ?_, ?_⟩
  · rw [henc]; exact Code.check_gen golay_wf _ (by rw [golay_nk.2]; simp [Crc.natToBits_length])
  · rw [henc]; exact slotDec_gen _ (by simp [Crc.natToBits_length])

/-- **indicator = membership** for every received word whose parity field is not all-zero -/
theorem slot_indicator (w : Bits) (hw : w.length = 20) (hp : bitsToNat (sl w 8 20) ≠ 0) :
    ∃ o, slotDec w = .ok o ∧ o.ok = golay2087.check w := by
  obtain ⟨dtv, _, _, hdec⟩ := slotDec_eq w hw
  rw [if_neg hp] at hdec
  exact ⟨_, hdec, rfl⟩

/-- **the fail set, exactly**: `from_bits` never raises on a 20-bit word, and the indicator differs
from membership exactly when the parity field is all-zero and the data field is not -/
theorem slot_failset (w : Bits) (hw : w.length = 20) :
    ∃ o, slotDec w = .ok o ∧
      (o.ok ≠ golay2087.check w ↔ (bitsToNat (sl w 8 20) = 0 ∧ sl w 0 8 ≠ zeros 8)) := by
  obtain ⟨dtv, _, _, hdec⟩ := slotDec_eq w hw
  refine ⟨_, hdec, ?_⟩
  by_cases hp : bitsToNat (sl w 8 20) = 0
  · rw [if_pos hp]
    have hz : sl w 8 20 = zeros 12 := by
      have := bitsToNat_eq_zero _ hp
      rwa [show (sl w 8 20).length = 12 by simp [sl_length, hw]] at this
    have hsplit : w = sl w 0 8 ++ zeros 12 := by
      rw [← hz, sl_append_sl w 0 8 20 (by omega) (by omega), ← hw, sl_self]
    have hm := golay_zero_parity' (sl w 0 8) (by simp [sl_length, hw])
    rw [← hsplit] at hm
    constructor
    · intro h
      refine ⟨hp, fun h0 => h ?_⟩
      exact (hm.mpr h0).symm
    · rintro ⟨_, hne⟩ h
      exact hne (hm.mp h.symm)
  · rw [if_neg hp]
    constructor
    · intro h; exact absurd rfl h
    · rintro ⟨h, _⟩; exact absurd h hp

/-- there are 255 such data fields (hence 255 failing words) -/
theorem slot_failset_count : ((allBits 8).filter (fun d => d != zeros 8)).length = 255 := by
  decide +kernel

/-- **selfcheck** for EMB -/
theorem emb_selfcheck (cc pi lc : Nat) (hcc : cc < 16) (hpi : pi < 2) (hlc : lc < 4) :
    ∃ o, embInit cc pi lc 0 = .ok o ∧ o.ok = true ∧ qr1676.check o.enc = true
      ∧ ∃ q, embDec o.enc = .ok q ∧ q.ok = true := by
  obtain ⟨hinit, henc⟩ := embInit_zero cc pi lc hcc hpi hlc
  refine ⟨_, hinit, rfl, ?_, ?_⟩
  · rw [henc]; exact Code.check_gen qr_wf _ (by rw [qr_nk.2]; simp [Crc.natToBits_length])
  · rw [henc]; exact embDec_gen _ (by simp [Crc.natToBits_length])

theorem emb_indicator (w : Bits) (hw : w.length = 16) (hp : bitsToNat (sl w 7 16) ≠ 0) :
    ∃ o, embDec w = .ok o ∧ o.ok = qr1676.check w := by
  have hdec := embDec_eq w hw
  rw [if_neg hp] at hdec
  exact ⟨_, hdec, rfl⟩

theorem emb_failset (w : Bits) (hw : w.length = 16) :
    ∃ o, embDec w = .ok o ∧
      (o.ok ≠ qr1676.check w ↔ (bitsToNat (sl w 7 16) = 0 ∧ sl w 0 7 ≠ zeros 7)) := by
  have hdec := embDec_eq w hw
  refine ⟨_, hdec, ?_⟩
  by_cases hp : bitsToNat (sl w 7 16) = 0
  · rw [if_pos hp]
    have hz : sl w 7 16 = zeros 9 := by
      have := bitsToNat_eq_zero _ hp
      rwa [show (sl w 7 16).length = 9 by simp [sl_length, hw]] at this
    have hsplit : w = sl w 0 7 ++ zeros 9 := by
      rw [← hz, sl_append_sl w 0 7 16 (by omega) (by omega), ← hw, sl_self]
    have hm := qr_zero_parity' (sl w 0 7) (by simp [sl_length, hw])
    rw [← hsplit] at hm
    constructor
    · intro h
      refine ⟨hp, fun h0 => h ?_⟩
      exact (hm.mpr h0).symm
    · rintro ⟨_, hne⟩ h
      exact hne (hm.mp h.symm)
  · rw [if_neg hp]
    constructor
    · intro h; exact absurd rfl h
    · rintro ⟨h, _⟩; exact absurd h hp

theorem emb_failset_count : ((allBits 7).filter (fun d => d != zeros 7)).length = 127 := by
  decide +kernel

/-! ## error classes -/

/-- a non-zero pattern confined to a window of at most `L` bits -/
def IsBurst (L : Nat) (x : Bits) : Prop :=
  ∃ (i j : Nat) (b : Bits), x = zeros i ++ b ++ zeros j ∧ b.length ≤ L ∧ b ≠ zeros b.length

/-- 96-bit CCITT words: one to three bits, or a burst of at most 16 -/
def InClass16 (e : Bits) : Prop := (1 ≤ weight e ∧ weight e ≤ 3) ∨ IsBurst 16 e

/-- short LC: one or two bits, or a burst of at most 8 in code order -/
def InClass8 (e : Bits) : Prop := (1 ≤ weight e ∧ weight e ≤ 2) ∨ IsBurst 8 (slcOrder e)

/-- confirmed block of `n` bits: a burst of at most 9 in code order (in particular any single bit) -/
def InClass9 (n : Nat) (e : Bits) : Prop := IsBurst 9 (rateOrder e n)

theorem p_const : p8.getLast? = some true ∧ p9.getLast? = some true ∧ p16.getLast? = some true := by
  decide

theorem burst_feed_of (p : Bits) (hp : p.getLast? = some true) (x : Bits) (h : IsBurst p.length x) :
    feed p x ≠ zeros p.length := by
  obtain ⟨i, j, b, rfl, hb, hne⟩ := h
  exact burst_feed p hp i j b hb hne

theorem class16_feed (e : Bits) (he : e.length = 96) (h : InClass16 e) : feed p16 e ≠ zeros 16 := by
  rcases h with ⟨h1, h3⟩ | hb
  · have := weight_detect p16 96 3
      (show wdetTop 3 (rtabAux p16 96).2 = true from Dmr.C05.ccitt96_enum) e he h1 h3
    rwa [p16_length] at this
  · have := burst_feed_of p16 p_const.2.2 e (by rw [p16_length]; exact hb)
    rwa [p16_length] at this

theorem slcOrder_weight (e : Bits) (he : e.length = 36) : weight (slcOrder e) = weight e := by
  unfold slcOrder
  rw [weight_append, weight_reverse, ← weight_append, sl_append_sl e 0 28 36 (by omega) (by omega),
    ← he, sl_self]

theorem class8_feed (e : Bits) (he : e.length = 36) (h : InClass8 e) : feed p8 (slcOrder e) ≠ zeros 8 := by
  rcases h with ⟨h1, h2⟩ | hb
  · have hl : (slcOrder e).length = 36 := by simp [slcOrder, sl_length, he]
    have := weight_detect p8 36 2 slc_w2_enum (slcOrder e) hl
      (by rw [slcOrder_weight e he]; exact h1) (by rw [slcOrder_weight e he]; exact h2)
    rwa [p8_length] at this
  · have := burst_feed_of p8 p_const.1 _ (by rw [p8_length]; exact hb)
    rwa [p8_length] at this

theorem class9_feed (n : Nat) (e : Bits) (h : InClass9 n e) : feed p9 (rateOrder e n) ≠ zeros 9 := by
  have := burst_feed_of p9 p_const.2.1 _ (by rw [p9_length]; exact h)
  rwa [p9_length] at this

/-- every single-bit error of a block is in the class: in code order it is a burst of length 1 -/
theorem single_bit_class9 (n : Nat) (e : Bits) (he : e.length = n) (hn : 16 ≤ n) (hw : weight e = 1) :
    InClass9 n e := by
  have hwo : weight (rateOrder e n) = 1 := by
    unfold rateOrder rateSrc
    rw [weight_append, weight_append, weight_reverse, ← hw]
    have h1 : e = sl e 0 7 ++ sl e 7 16 ++ sl e 16 n := by
      rw [sl_append_sl e 0 7 16 (by omega) (by omega), sl_append_sl e 0 16 n (by omega) hn, ← he, sl_self]
    conv => rhs; rw [h1, weight_append, weight_append]
    omega
  -- a weight-1 string is zeros, a one, zeros
  have key : ∀ x : Bits, weight x = 1 → ∃ i j, x = zeros i ++ [true] ++ zeros j := by
    intro x
    induction x with
    | nil => intro h; simp [weight] at h
    | cons a xs ih =>
      intro h
      cases a with
      | false =>
        rw [Crc.weight_cons_false] at h
        obtain ⟨i, j, hx⟩ := ih h
        exact ⟨i + 1, j, by rw [hx]; simp⟩
      | true =>
        rw [Crc.weight_cons_true] at h
        have h0 : weight xs = 0 := by omega
        have : xs = zeros xs.length := by
          clear ih h
          induction xs with
          | nil => rfl
          | cons b ys ihy =>
            cases b with
            | true => rw [Crc.weight_cons_true] at h0; omega
            | false =>
              rw [Crc.weight_cons_false] at h0
              rw [List.length_cons, zeros_succ, ← ihy h0]
        exact ⟨0, xs.length, by rw [this]; simp⟩
  obtain ⟨i, j, hx⟩ := key _ hwo
  exact ⟨i, j, [true], hx, by simp, by simp [zeros]⟩

/-! ## data header and PI header (CRC-CCITT, 96 bits) -/

/-- the serialisation step never raises -/
theorem dhEnc_ok (body : Bits) : ∃ s, dhEnc body = .ok s := by
  unfold dhEnc
  rw [crc16_feed]
  simp only [ofCrc, bind, Except.bind, pure, Except.pure]
  have hlt : Nat.xor (bitsToNat (inv (feed p16 (bytesToBits (bitsToBytes body))))) maskDataHeader < 2 ^ 16 :=
    Nat.xor_lt_two_pow (by
      have := Crc.bitsToNat_lt (inv (feed p16 (bytesToBits (bitsToBytes body))))
      rwa [inv_length, feed_length, p16_length] at this) maskDataHeader_lt
  rw [if_neg (by omega)]
  exact ⟨_, rfl⟩

/-- **selfcheck**: a data header the library built from 80 field bits (no CRC given) serialises to a
valid 96-bit word that parses back with `crc_ok` (whenever the field decoder does not raise, C03) -/
theorem dh_selfcheck (body : Bits) (hb : body.length = 80) :
    ∃ s, dhEnc body = .ok s ∧ s.length = 96 ∧ ccittValid maskDataHeader s ∧ dhDec s false = .ok true := by
  obtain ⟨s, hs⟩ := dhEnc_ok body
  obtain ⟨hl, hv⟩ := dhEnc_valid body s hb hs
  refine ⟨s, hs, hl, hv, ?_⟩
  by_cases hz : bitsToNat (sl s 80 96) = 0
  · unfold dhDec
    rw [if_neg (by simp), if_neg (by omega)]
  · rw [dhDec_ok s hl hz, decide_eq_true hv]

/-- **detection** (partial: received CRC field ≠ 0): a valid header hit by 1–3 bit errors or a burst of
at most 16 bits is never reported `crc_ok` -/
theorem dh_detect_partial (s e : Bits) (hs : s.length = 96) (he : e.length = 96)
    (hv : ccittValid maskDataHeader s) (hc : InClass16 e)
    (hz : bitsToNat (sl (xorBits s e) 80 96) ≠ 0) (fieldsFail : Bool) :
    dhDec (xorBits s e) fieldsFail ≠ .ok true := by
  cases fieldsFail with
  | true => rw [dhDec_fail]; simp
  | false =>
    rw [dhDec_ok _ (by simp [hs, he]) hz]
    have := ccitt_detect maskDataHeader s e hs he hv (class16_feed e he hc)
    simp [this]

/-- **selfcheck** for the PI header (10 data octets) -/
theorem pi_selfcheck (data : Bytes) (hd : data.length = 10) :
    ∃ o, piInit data 0 = .ok o ∧ o.enc.length = 96 ∧ ∃ q, piDec o.enc = .ok q ∧ q.ok = true :=
  pi_selfcheck_lemma data hd

/-- **detection**, unconditional (the PI header has no zero sentinel) -/
theorem pi_detect (s e : Bits) (hs : s.length = 96) (he : e.length = 96)
    (hv : ccittValid maskPiHeader s) (hc : InClass16 e) :
    ∃ q, piDec (xorBits s e) = .ok q ∧ q.ok = false := by
  obtain ⟨q, hq, hok⟩ := piDec_ok (xorBits s e) (by simp [hs, he])
  refine ⟨q, hq, ?_⟩
  rw [hok]
  have := ccitt_detect maskPiHeader s e hs he hv (class16_feed e he hc)
  simp [this]

/-- a word the PI header parser accepts is valid (so `pi_detect` applies to every accepted word) -/
theorem pi_accept_iff (r : Bits) (hl : r.length = 96) :
    ∃ q, piDec r = .ok q ∧ (q.ok = true ↔ ccittValid maskPiHeader r) := by
  obtain ⟨q, hq, hok⟩ := piDec_ok r hl
  exact ⟨q, hq, by rw [hok, decide_eq_true_iff]⟩

/-! ## short LC (CRC-8) -/

/-- **selfcheck** -/
theorem slc_selfcheck (pl : SlcPayload) (h : pl.WF) :
    ∃ o, slcInit pl (zeros 8) = .ok o ∧ o.ok = true ∧ o.enc.length = 36 ∧
      ∃ q, slcDec o.enc = .ok q ∧ q.ok = true ∧ q.enc = o.enc :=
  slc_selfcheck_lemma pl h

/-- **detection** (partial: received CRC field ≠ 0): decode error or `crc_ok = false` -/
theorem slc_detect_partial (s e : Bits) (hs : s.length = 36) (he : e.length = 36) (hv : slcValid s)
    (hc : InClass8 e) (hz : bitsToNat (sl (xorBits s e) 28 36) ≠ 0) :
    match slcDec (xorBits s e) with
    | .error _ => True
    | .ok q => q.ok = false := by
  split
  · trivial
  · rename_i q hq
    exact slc_detect s e hs he hv (class8_feed e he hc) hz q hq

/-- what the library serialises is valid -/
theorem slc_enc_valid (pl : SlcPayload) (h : pl.WF) (o : SlcObj) (ho : slcInit pl (zeros 8) = .ok o) :
    slcValid o.enc := by
  rw [slcInit_zero] at ho
  injection ho with ho
  subst ho
  have hb := slcBody_length pl h
  unfold slcValid
  simp only [SlcObj.enc]
  rw [sl_append_left _ _ _ _ (by omega), sl_append_right _ _ _ _ (by omega), hb]
  have h1 : sl (slcBody pl) 0 28 = slcBody pl := by rw [← hb, sl_self]
  have h2 : sl (feed p8 (slcBody pl)).reverse (28 - 28) (36 - 28) = (feed p8 (slcBody pl)).reverse := by
    have := sl_self (feed p8 (slcBody pl)).reverse
    rwa [List.length_reverse, feed_length, p8_length] at this
  rw [h1, h2, List.reverse_reverse]

/-! ## confirmed data blocks (CRC-9) -/

/-- the three block families -/
theorem rate_cfgs : RateOk rate12 10 6 ∧ RateOk rate34 16 12 ∧ RateOk rate1 22 18 :=
  ⟨rate12_ok, rate34_ok, rate1_ok⟩

/-- **selfcheck**: a confirmed (last) block built from data octets, serial number (and CRC-32) with no
CRC-9 given has `crc9_ok`, and its serialisation parses back with `crc9_ok` -/
theorem rate_selfcheck (c : RateCfg) (k kl : Nat) (hc : RateOk c k kl) (last : Bool) (data : Bytes)
    (hdl : data.length = (if last then kl else k)) (dbsn c32 : Nat) (hdb : dbsn < 128)
    (h32 : c32 < 4294967296) (hnl : last = false → c32 = 0) :
    ∃ o, rateInit c (if last then kl else k) (bytesToBits data) (natToBits 7 dbsn) (zeros 9) c32 = .ok o
      ∧ o.ok = true ∧ (o.enc last).length = c.total
      ∧ ∃ q, rateDec c last (o.enc last) = .ok q ∧ q.ok = true :=
  rate_selfcheck_lemma c k kl hc last data hdl dbsn c32 hdb h32 hnl

/-- **detection** (partial: received CRC-9 field ≠ 0, and for a last block a received CRC-32 field ≠ 0;
`s` valid in the sense that its CRC-9 field is the CRC-9 of data ‖ CRC-32 ‖ serial number): decode error
or `crc9_ok = false` -/
theorem rate_detect_partial (c : RateCfg) (k kl : Nat) (hc : RateOk c k kl) (last : Bool) (s e : Bits)
    (hs : s.length = c.total) (he : e.length = c.total) (hv : rateValid c s) (hcl : InClass9 c.total e)
    (hz : bitsToNat (sl (xorBits s e) 7 16).reverse ≠ 0)
    (hz32 : last = true → bitsToNat (sl (xorBits s e) (c.total - 32) c.total) ≠ 0) :
    match rateDec c last (xorBits s e) with
    | .error _ => True
    | .ok q => q.ok = false := by
  split
  · trivial
  · rename_i q hq
    rw [rateDec_ok c k kl hc last _ (by simp [hs, he]) hz hz32 q hq, decide_eq_false_iff_not]
    exact rate_detect c s e hs he hv (class9_feed _ e hcl)

/-- a block the parser accepts with non-zero CRC-9 (and CRC-32) fields is valid in that sense -/
theorem rate_accept_valid (c : RateCfg) (k kl : Nat) (hc : RateOk c k kl) (last : Bool) (r : Bits)
    (hl : r.length = c.total) (hz : bitsToNat (sl r 7 16).reverse ≠ 0)
    (hz32 : last = true → bitsToNat (sl r (c.total - 32) c.total) ≠ 0) (q : RateObj)
    (h : rateDec c last r = .ok q) (hok : q.ok = true) : rateValid c r := by
  rw [rateDec_ok c k kl hc last r hl hz hz32 q h, decide_eq_true_iff] at hok
  exact hok

/-! ## the full detection statement is false (the zero sentinel) -/

/-- Library-serialised PDUs (valid words), errors of the guaranteed class, accepted with different
data bits — because the error zeroes the check field and the constructor then regenerates it.  One
witness each for the short LC (2 bits), the data header (3 bits) and a rate-1/2 confirmed block (burst
of 2 in code order); evaluated by the kernel (`witness_enum`). -/
theorem crc_detect_full_false :
    (∃ s e q, s.length = 36 ∧ e.length = 36 ∧ slcValid s ∧ InClass8 e
        ∧ slcDec (xorBits s e) = .ok q ∧ q.ok = true ∧ sl q.enc 0 28 ≠ sl s 0 28)
    ∧ (∃ s e, s.length = 96 ∧ e.length = 96 ∧ ccittValid maskDataHeader s ∧ InClass16 e
        ∧ dhDec (xorBits s e) false = .ok true ∧ sl (xorBits s e) 0 80 ≠ sl s 0 80)
    ∧ (∃ s e q, s.length = 96 ∧ e.length = 96 ∧ rateValid rate12 s ∧ InClass9 96 e
        ∧ rateDec rate12 false (xorBits s e) = .ok q ∧ q.ok = true ∧ q.dbsn ≠ 5) := by
  have h := witness_enum
  simp only [witnessCheck, Bool.and_eq_true, decide_eq_true_iff] at h
  obtain ⟨⟨⟨⟨⟨hv1, hv2⟩, hv3⟩, h1⟩, h2⟩, h3⟩ := h
  refine ⟨?_, ?_, ?_⟩
  · split at h1
    · rename_i q hq
      simp only [Bool.and_eq_true, bne_iff_ne, ne_eq] at h1
      exact ⟨slcSent, slcErr, q, by decide, by decide, hv1, Or.inl (by decide), hq, h1.1, h1.2⟩
    · exact absurd h1 (by simp)
  · split at h2
    · rename_i b hb
      simp only [Bool.and_eq_true, bne_iff_ne, ne_eq] at h2
      refine ⟨dhSent, dhErr, by decide, by decide, hv2, Or.inl (by decide), ?_, h2.2⟩
      rw [hb, h2.1]
    · exact absurd h2 (by simp)
  · split at h3
    · rename_i q hq
      simp only [Bool.and_eq_true, bne_iff_ne, ne_eq] at h3
      refine ⟨r12Sent, r12Err, q, by decide, by decide, hv3, ?_, hq, h3.1, h3.2⟩
      exact ⟨86, 8, [true, true], by decide, by decide, by decide⟩
    · exact absurd h3 (by simp)

/-! ## HRNP -/

/-- **selfcheck**: what `as_bytes` assembles parses back with `checksum_correct` (`inner` = the HDAP
serialisation of a DATA packet, empty for the other opcodes; `len(self)` = 12 + its length).  For a DATA
packet `inner` is an HDAP message as `HDAP.as_bytes` frames it (`HdapFramed`: 7 octets longer than the
payload length it states — C12 `hdap_frame`); the parser cross-checks exactly that since the repair of
the length octets. -/
theorem hrnp_selfcheck (hd ver blk opc src dst pn : Nat) (inner : Bytes)
    (hop : hrnpOpcodes.contains opc = true) (hlen : 12 + inner.length < 65536)
    (hin : opc = hrnpData → HdapFramed inner) :
    hrnpDec (hrnpEnc hd ver blk opc src dst pn inner) false = .ok true :=
  (hrnpDec_true_iff _ _).mpr ⟨hrnp_selfcheck_lemma hd ver blk opc src dst pn inner hop hlen,
    hrnpEnc_lenOk hd ver blk opc src dst pn inner hin hlen⟩

/-- **one inverted bit** (partial: not in the two packet-length octets 8, 9; the full statement for DATA
packets is `hrnp_single_bit` in `Props/C04p`): `d` is accepted, `d'` differs from it in octet `j`
(inside the announced length) by a power of two below 256 — never accepted, whatever the HDAP stage does -/
theorem hrnp_single_bit_partial (d : Bytes) (hd : hrnpDec d false = .ok true) (j y b : Nat)
    (hj : j < be16 ((d.take 10).drop 8)) (h8 : j ≠ 8) (h9 : j ≠ 9) (hb : b < 8)
    (hy : y = d.getD j 0 + 2 ^ b ∨ d.getD j 0 = y + 2 ^ b) (hdapFails : Bool) :
    hrnpDec (d.set j y) hdapFails ≠ .ok true :=
  hrnpDec_ne_of_old _ _
    (hrnp_single_bit d ((hrnpDec_true_iff d false).mp hd).1 j y b hj h8 h9 hb hy hdapFails)

/-! ## non-vacuity -/

example : (SlcPayload.activity 8 13 (natToBits 8 0xA5) (natToBits 8 0x3C)).WF := by
  refine ⟨by decide, by decide, by rfl, by rfl, by decide, by decide⟩
example : slcValid slcSent ∧ InClass8 slcErr := ⟨by decide +kernel, Or.inl (by decide +kernel)⟩
example : ccittValid maskDataHeader dhSent := by decide +kernel
example : InClass16 (zeros 40 ++ [true, false, false, true, true, false, false, false, false, false, false,
    false, false, false, false, true] ++ zeros 40) :=
  Or.inr ⟨40, 40, _, rfl, by decide +kernel, by decide +kernel⟩
example : hrnpDec [0x7e, 0x04, 0x00, 0xfe, 0x20, 0x10, 0x00, 0x00, 0x00, 0x0c, 0x60, 0xe1] false = .ok true := by
  rfl

end Dmr.C04
