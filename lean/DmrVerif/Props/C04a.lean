import DmrVerif.Lemmas.IntegrityCrc

/-!
# C04 — kernel-evaluated facts

* the enumeration behind "every 1- or 2-bit error of a short LC is detected" (all 666 patterns over the
  36 unit-vector syndromes of CRC-8, in code order);
* three concrete received words showing that the detection statement is **false without the hypothesis
  "received check field ≠ 0"**: each is a library-serialised PDU hit by an error of the guaranteed
  class that zeroes the check field, and is accepted (the constructor regenerates the check value) with
  different field values.  Found on the real code (`ShortLinkControl`, `DataHeader`, `Rate12Data`),
  re-evaluated here on the model by the kernel.
-/

namespace Dmr.C04
open Dmr Dmr.Crc Dmr.Integrity

def slcW2Check : Bool := wdetTop 2 (rtabAux p8 36).2

theorem slc_w2_enum : slcW2Check = true := by decide +kernel

/-- short LC (activity update), 28 data bits ++ CRC-8 (LSB first) -/
def slcSent : Bits := [false, false, false, true, false, false, false, false, false, false, false, false, false, false, true, false, true, false, false, false, false, false, false, false, false, false, false, false, false, false, false, false, true, false, false, false]
/-- bits 27 (last address bit) and 32 (the only set CRC bit) inverted: weight 2 -/
def slcErr : Bits := [false, false, false, false, false, false, false, false, false, false, false, false, false, false, false, false, false, false, false, false, false, false, false, false, false, false, false, true, false, false, false, false, true, false, false, false]

/-- unconfirmed data header, 80 field bits ++ CRC-CCITT -/
def dhSent : Bits := [true, true, false, true, false, false, true, false, false, true, false, false, false, true, true, true, true, true, false, false, true, true, false, true, false, false, false, false, false, false, true, false, true, true, false, false, false, true, false, true, true, true, true, false, false, false, false, true, false, false, false, true, false, true, true, false, false, false, true, true, false, true, false, true, false, false, true, true, true, true, false, true, false, false, false, false, false, false, true, true, false, false, false, false, false, false, false, true, false, false, false, false, true, false, false, false]
/-- bits 39 (destination address), 87 and 92 (the two set CRC bits) inverted: weight 3 -/
def dhErr : Bits := [false, false, false, false, false, false, false, false, false, false, false, false, false, false, false, false, false, false, false, false, false, false, false, false, false, false, false, false, false, false, false, false, false, false, false, false, false, false, false, true, false, false, false, false, false, false, false, false, false, false, false, false, false, false, false, false, false, false, false, false, false, false, false, false, false, false, false, false, false, false, false, false, false, false, false, false, false, false, false, false, false, false, false, false, false, false, false, true, false, false, false, false, true, false, false, false]

/-- rate-1/2 confirmed block: serial number 5, CRC-9 (LSB first) = 0b100000000, 10 data octets -/
def r12Sent : Bits := [false, false, false, false, true, false, true, false, false, false, false, false, false, false, false, true, false, false, false, true, false, false, false, true, true, false, false, true, true, false, false, false, true, true, false, true, false, true, false, false, true, false, true, true, false, false, true, false, true, true, true, true, true, false, true, true, false, true, true, false, true, true, false, false, false, false, false, true, true, true, false, false, true, true, false, true, false, true, false, false, true, false, true, true, true, true, true, true, true, true, true, false, false, true, false, false]
/-- bits 6 (last serial number bit) and 15 (the only set CRC bit) inverted: adjacent in code order -/
def r12Err : Bits := [false, false, false, false, false, false, true, false, false, false, false, false, false, false, false, true, false, false, false, false, false, false, false, false, false, false, false, false, false, false, false, false, false, false, false, false, false, false, false, false, false, false, false, false, false, false, false, false, false, false, false, false, false, false, false, false, false, false, false, false, false, false, false, false, false, false, false, false, false, false, false, false, false, false, false, false, false, false, false, false, false, false, false, false, false, false, false, false, false, false, false, false, false, false, false, false]

/-- the sent words are valid and are accepted; the corrupted ones are accepted too (zero check field),
with other data bits -/
def witnessCheck : Bool :=
  decide (slcValid slcSent) && decide (ccittValid Gen.maskDataHeader dhSent) && decide (rateValid rate12 r12Sent)
  && (match slcDec (xorBits slcSent slcErr) with
      | .ok q => q.ok && (sl q.enc 0 28 != sl slcSent 0 28) | .error _ => false)
  && (match dhDec (xorBits dhSent dhErr) false with
      | .ok b => b && (sl (xorBits dhSent dhErr) 0 80 != sl dhSent 0 80) | .error _ => false)
  && (match rateDec rate12 false (xorBits r12Sent r12Err) with
      | .ok q => q.ok && (q.dbsn != 5) | .error _ => false)

theorem witness_enum : witnessCheck = true := by decide +kernel

end Dmr.C04
