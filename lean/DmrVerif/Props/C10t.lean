import DmrVerif.Props.C10
import DmrVerif.Gen.TranslTrellis
import DmrVerif.Lemmas.TranslTrellis

/-!
# C10t — the SOURCE of `etsi/fec/trellis.py`, translated (`Gen/TranslTrellis.lean`, `tools/py2lean_arr.py`)

All fourteen definitions (ten stages, `decode` / `decode(as_bytes=True)`, `encode(bitarray)` / `encode(bytes)`) are regenerated
from `inspect.getsource` on every run and validated differentially (`t.tr.*`).  Proved here: the tables written in the source
are the tables of `Gen/Trellis.lean` the C10 theorems are about (`tables_eq`), ALL ten stage equalities and the four entry
points against `Model/Trellis.lean` for all inputs (hypotheses: items of dibit arrays fit `array('b')`, lengths below 2^53
where the code goes through a float division), and the property itself restated on the translated functions only.  The `example`s evaluate the translated `encode` /
`decode` in the kernel on a vector computed with the real code.
-/

namespace Dmr.C10t
open Dmr Dmr.Py Dmr.Transl.Trellis

/-- the six tables as written in the source (dict items in dict order, bits as 0 / 1) are the tables the table extractor read
from the live class -/
theorem tables_eq :
    TRELLIS34_INTERLEAVE_MATRIX = Gen.Trellis.interleaveMatrix ∧
    TRELLIS34_ENCODER_STATE_TRANSITION = Gen.Trellis.transition ∧
    TRELLIS34_DIBITS = Gen.Trellis.dibits.map (fun e => ((ofBool e.1.1, ofBool e.1.2), e.2)) ∧
    TRELLIS34_DIBITS_REVERSE = Gen.Trellis.dibitsReverse.map (fun e => (e.1, (ofBool e.2.1, ofBool e.2.2))) ∧
    TRELLIS34_CONSTELLATION_POINTS = Gen.Trellis.constellation.map (fun e => (e.1, (e.2 : Int))) ∧
    TRELLIS34_CONSTELLATION_POINTS_REVERSE = Gen.Trellis.constellationReverse.map (fun e => ((e.1 : Int), e.2)) := by
  decide +kernel

/-- `bits_to_tribits(original)` for every bit string: the model's `bitsToTribits` (big-endian bitarray); never raises (every
slice handed to `ba2int` is non-empty, every value fits `array('B')`) -/
theorem bits_to_tribits_eq (original : Bits) :
    bits_to_tribits original = .ok ((Trellis.bitsToTribits false original).map (fun x : Nat => (x : Int))) :=
  Transl.Trellis.bits_to_tribits_eq original

/-- `points_to_dibits(constellations)` for every array of naturals: the model's `pointsToDibits`, `KeyError` for a point that is
not in the reverse table included; no `OverflowError` of `array('b')` is reachable -/
theorem points_to_dibits_eq (ps : List Nat) :
    points_to_dibits (ps.map (fun x : Nat => (x : Int))) = Transl.Trellis.ofR id (Trellis.pointsToDibits ps) :=
  Transl.Trellis.points_to_dibits_eq ps

/-- `tribits_to_points`, every array of naturals: the model's `tribitsToPoints`, `IndexError` of the table read included -/
theorem tribits_to_points_eq (ts : List Nat) :
    tribits_to_points (ts.map (fun x : Nat => (x : Int)))
      = Transl.Trellis.ofR (List.map (fun x : Nat => (x : Int))) (Trellis.tribitsToPoints ts) :=
  Transl.Trellis.tribits_to_points_eq ts

/-- `interleave`, every array whose items fit `array('b')` (`isChars`: what an array of dibits can hold): the model's
`interleave`, `IndexError` for a short array included -/
theorem interleave_eq (d : List Int) (hd : Transl.Trellis.isChars d) :
    Transl.Trellis.interleave d = Transl.Trellis.ofR id (Trellis.interleave d) :=
  Transl.Trellis.interleave_eq d hd

/-- `deinterleave`, likewise (`IndexError`s of a short input / a matrix entry beyond the output included) -/
theorem deinterleave_eq (d : List Int) (hd : Transl.Trellis.isChars d) :
    Transl.Trellis.deinterleave d = Transl.Trellis.ofR id (Trellis.deinterleave d) :=
  Transl.Trellis.deinterleave_eq d hd

/-- `dibits_to_bits`, every array: the model's `dibitsToBits`, `KeyError` included -/
theorem dibits_to_bits_eq (ds : List Int) : dibits_to_bits ds = Transl.Trellis.ofR id (Trellis.dibitsToBits ds) :=
  Transl.Trellis.dibits_to_bits_eq ds

/-- `encode(bitarray)`, EVERY bit string (`AssertionError` below 144 bits, only the first 144 bits are used): the model's
`encode` -/
theorem encode_eq (b : Bits) : Transl.Trellis.encode b = Transl.Trellis.ofR id (Trellis.encode b) :=
  Transl.Trellis.encode_eq b

/-- `encode(bytes)`, every byte string: the model's `encodeBytes` -/
theorem encode_bytes_eq (d : Bytes) : Transl.Trellis.encode_bytes d = Transl.Trellis.ofR id (Trellis.encodeBytes d) :=
  Transl.Trellis.encode_bytes_eq d

/-- `bits_to_dibits`, every bit string shorter than 2^53 bits (`int(len / 2)` goes through a float): the model's
`bitsToDibits`, `IndexError` for an odd length included -/
theorem bits_to_dibits_eq (s : Bits) (hs : s.length < 2 ^ 53) :
    bits_to_dibits s = Transl.Trellis.ofR id (Trellis.bitsToDibits s) :=
  Transl.Trellis.bits_to_dibits_eq s hs

/-- `dibits_to_points`, every array shorter than 2^53 items: the model's `dibitsToPoints` (`KeyError`, `IndexError`) -/
theorem dibits_to_points_eq (d : List Int) (hd : d.length < 2 ^ 53) :
    dibits_to_points d = Transl.Trellis.ofR (List.map (fun x : Nat => (x : Int))) (Trellis.dibitsToPoints d) :=
  Transl.Trellis.dibits_to_points_eq d hd

/-- `points_to_tribits`, every array of naturals: the model's `pointsToTribits` — 49 passes of the nested loop from state 0,
`AssertionError` for a point outside the row of the current state, `IndexError` for a short array -/
theorem points_to_tribits_eq (ps : List Nat) :
    points_to_tribits (ps.map (fun x : Nat => (x : Int)))
      = Transl.Trellis.ofR (List.map (fun x : Nat => (x : Int))) (Trellis.pointsToTribits ps) :=
  Transl.Trellis.points_to_tribits_eq ps

/-- `tribits_to_bits`, every array of naturals: the model's `tribitsToBits` (`AssertionError` unless 49 tribits) -/
theorem tribits_to_bits_eq (ts : List Nat) :
    tribits_to_bits (ts.map (fun x : Nat => (x : Int))) = Transl.Trellis.ofR id (Trellis.tribitsToBits ts) :=
  Transl.Trellis.tribits_to_bits_eq ts

/-- `decode(encoded)` (`as_bytes=False`), EVERY bit string: the model's `decode` -/
theorem decode_eq (e : Bits) : Transl.Trellis.decode e = Transl.Trellis.ofR id (Trellis.decode e) :=
  Transl.Trellis.decode_eq e

/-- `decode(encoded, as_bytes=True)`, every bit string: the model's `decodeAsBytes` -/
theorem decode_as_bytes_eq (e : Bits) :
    Transl.Trellis.decode_as_bytes e = Transl.Trellis.ofR id (Trellis.decodeAsBytes e) :=
  Transl.Trellis.decode_as_bytes_eq e

/-! ## the property, stated on the translated source only -/

/-- LOSSLESS: for every 144-bit block the translated `encode` returns a 196-bit stream (no exception) and the translated
`decode` of that stream returns the block -/
theorem transl_decode_encode (b : Bits) (h : b.length = 144) :
    ∃ s, Transl.Trellis.encode b = .ok s ∧ s.length = 196 ∧ Transl.Trellis.decode s = .ok b := by
  obtain ⟨s, hs, hl⟩ := C10.encode_length b h
  have hd := C10.decode_encode b h
  rw [hs] at hd
  refine ⟨s, by rw [encode_eq, hs]; rfl, hl, ?_⟩
  rw [decode_eq]
  have : Trellis.decode s = .ok b := hd
  rw [this]; rfl

/-- the same through the bytes forms: 18 octets → `encode(bytes)` → `decode(…, as_bytes=True)` gives the 18 octets back -/
theorem transl_decode_encode_bytes (bs : Bytes) (h : bs.length = 18) (hb : ∀ x ∈ bs, x < 256) :
    ∃ s, Transl.Trellis.encode_bytes bs = .ok s ∧ s.length = 196 ∧ Transl.Trellis.decode_as_bytes s = .ok bs := by
  have hd := C10.decode_encode_bytes bs h hb
  cases he : Trellis.encodeBytes bs with
  | error x => rw [he] at hd; cases hd
  | ok s =>
    rw [he] at hd
    have hd' : Trellis.decodeAsBytes s = .ok bs := hd
    have hl : s.length = 196 := by
      have hdec : Trellis.decodeAsBytes s = (Trellis.decode s).map bitsToBytes := (C10.bytes_bits_agree bs s).2
      by_cases hq : s.length = 196
      · exact hq
      · have := (C10.length_asserts s s).2 hq
        rw [hdec, this] at hd'
        cases hd'
    refine ⟨s, by rw [encode_bytes_eq, he]; rfl, hl, ?_⟩
    rw [decode_as_bytes_eq, hd']; rfl

/-- a longer argument is coded as its first 144 bits, a shorter one and a stream that is not 196 bits long are refused with
`AssertionError` — on the translated source -/
theorem transl_length_asserts (b s : Bits) :
    (b.length < 144 → Transl.Trellis.encode b = .error .assertion) ∧
    (s.length ≠ 196 → Transl.Trellis.decode s = .error .assertion) := by
  obtain ⟨h1, h2⟩ := C10.length_asserts b s
  exact ⟨fun h => by rw [encode_eq, h1 h]; rfl, fun h => by rw [decode_eq, h2 h]; rfl⟩

/-- REJECTION: a received stream whose `i`-th constellation point is not one of the eight points the encoder can emit from
the state the decoder has reached there is refused by the translated `decode` with `AssertionError` — at each of the 49
positions (`C10.reject_unreachable`; the points / state / row are those of the model, which the stage equalities identify with
what the translated stages compute) -/
theorem transl_reject_unreachable (s : Bits) (pts : List Nat) (hp : Trellis.streamPoints s = .ok pts)
    (i : Nat) (hi : i < 49) (st p : Nat) (row : List Nat)
    (hst : Trellis.stateBefore pts i = .ok st) (hpi : pts[i]? = some p)
    (hrow : Trellis.rowOf st = .ok row) (hnot : p ∉ row) :
    Transl.Trellis.decode s = .error .assertion := by
  rw [decode_eq, C10.reject_unreachable s pts hp i hi st p row hst hpi hrow hnot]; rfl

/-- the same at the translated stage function: `points_to_tribits` of ANY array of naturals with such a point -/
theorem transl_reject_unreachable_points (pts : List Nat) (i : Nat) (hi : i < 49) (st p : Nat)
    (row : List Nat) (hst : Trellis.stateBefore pts i = .ok st) (hpi : pts[i]? = some p)
    (hrow : Trellis.rowOf st = .ok row) (hnot : p ∉ row) :
    points_to_tribits (pts.map (fun x : Nat => (x : Int))) = .error .assertion := by
  rw [points_to_tribits_eq, C10.reject_unreachable_points pts i hi st p row hst hpi hrow hnot]; rfl

/-! ## non-vacuity / pin: a random 144-bit block, its code word computed with the real `Trellis34.encode`, the round trip,
and a single inverted bit of the code word that the translated `decode` rejects like the real one (`AssertionError`) -/

def blk : List Bool := [true, false, true, false, false, false, true, false, false, false, false, true, true, false, false, false, true, false, false, false, false, true, false, false, false, false, true, true, false, false, true, false, false, false, true, false, false, false, false, true, true, true, true, true, true, true, false, false, false, false, true, true, true, true, true, false, false, true, false, true, false, true, true, false, false, true, true, true, true, true, false, false, true, true, false, false, true, true, true, true, true, false, true, true, false, false, true, false, false, true, false, false, true, true, true, false, false, true, true, true, false, true, true, true, true, true, false, false, false, false, false, false, false, false, true, false, true, true, false, false, true, true, true, false, false, true, true, true, true, true, false, true, true, false, false, false, false, true, false, false, true, false, false, false]
def cw : List Bool := [true, false, false, false, true, false, true, true, false, false, false, false, true, false, true, false, false, false, false, false, false, true, false, true, false, true, true, false, true, false, false, true, false, true, false, false, true, true, true, true, true, false, false, true, false, true, true, false, false, false, true, false, false, false, true, true, false, false, true, true, true, false, true, true, false, true, false, false, true, true, false, true, true, false, false, true, false, true, false, false, false, false, false, true, true, true, false, false, false, false, true, false, false, true, false, false, false, false, false, false, false, true, true, true, true, false, true, false, true, false, true, false, true, false, false, false, true, true, true, false, true, true, false, true, false, true, false, true, false, false, false, true, false, false, false, false, true, false, false, false, true, true, false, true, false, false, false, true, false, false, false, false, false, true, true, true, false, false, true, true, true, true, true, false, false, true, false, true, true, true, true, false, true, true, false, true, false, false, true, false, true, true, true, false, false, true, true, false, false, false, false, true, true, true, true, false]

example : encode blk = .ok cw ∧ decode cw = .ok blk ∧ cw.length = 196 ∧
    bits_to_tribits blk = .ok [5, 0, 4, 1, 4, 2, 0, 4, 1, 4, 4, 2, 0, 7, 7, 4, 1, 7, 4, 5, 3, 1, 7, 4, 6, 3, 7, 3, 1, 1, 1, 6, 3, 5, 7, 4, 0, 0, 5, 4, 7, 1, 7, 5, 4, 1, 1, 0, 0] ∧
    decode (cw.set 5 (!cw.getD 5 false)) = .error .assertion := by decide +kernel

end Dmr.C10t
