import DmrVerif.Props.C10
import DmrVerif.Gen.TranslTrellis
import DmrVerif.Lemmas.TranslTrellis

/-!
# C10t — the SOURCE of `etsi/fec/trellis.py`, translated (`Gen/TranslTrellis.lean`, `tools/py2lean_arr.py`)

All fourteen definitions (ten stages, `decode` / `decode(as_bytes=True)`, `encode(bitarray)` / `encode(bytes)`) are regenerated
from `inspect.getsource` on every run and validated differentially (`t.tr.*`).  Proved here: the tables written in the source
are the tables of `Gen/Trellis.lean` the C10 theorems are about (`tables_eq`), and the stage equalities listed below; the
remaining stages are NOT yet proved equal to `Model/Trellis.lean` (see TRANSL_NOTES.md) — for them the chain still goes
through the hand-written model and its correspondence run, as before.  The `example`s evaluate the translated `encode` /
`decode` in the kernel on a vector computed with the real code.
-/

namespace Dmr.C10t
open Dmr Dmr.Py Dmr.Transl.Trellis

/-- the six tables as written in the source (dict items in dict order, bits as 0 / 1) are the tables the table extractor read
from the live class -/
theorem tables_eq :
    TRELLIS34_INTERLEAVE_MATRIX = Gen.Trellis.interleaveMatrix ∧
    TRELLIS34_ENCODER_STATE_TRANSITION = Gen.Trellis.transition ∧
    TRELLIS34_DIBITS = Gen.Trellis.dibits.map (fun e => ((ofBool e.1.1, ofBool e.1.2), e.2)) ∧
    TRELLIS34_DIBITS_REVERSE = Gen.Trellis.dibitsReverse.map (fun e => (e.1, (ofBool e.2.1, ofBool e.2.2))) ∧
    TRELLIS34_CONSTELLATION_POINTS = Gen.Trellis.constellation.map (fun e => (e.1, (e.2 : Int))) ∧
    TRELLIS34_CONSTELLATION_POINTS_REVERSE = Gen.Trellis.constellationReverse.map (fun e => ((e.1 : Int), e.2)) := by
  decide +kernel

/-- `bits_to_tribits(original)` for every bit string: the model's `bitsToTribits` (big-endian bitarray); never raises (every
slice handed to `ba2int` is non-empty, every value fits `array('B')`) -/
theorem bits_to_tribits_eq (original : Bits) :
    bits_to_tribits original = .ok ((Trellis.bitsToTribits false original).map (fun x : Nat => (x : Int))) :=
  Transl.Trellis.bits_to_tribits_eq original

/-- `points_to_dibits(constellations)` for every array of naturals: the model's `pointsToDibits`, `KeyError` for a point that is
not in the reverse table included; no `OverflowError` of `array('b')` is reachable -/
theorem points_to_dibits_eq (ps : List Nat) :
    points_to_dibits (ps.map (fun x : Nat => (x : Int))) = Transl.Trellis.ofR id (Trellis.pointsToDibits ps) :=
  Transl.Trellis.points_to_dibits_eq ps

/-- `tribits_to_points`, every array of naturals: the model's `tribitsToPoints`, `IndexError` of the table read included -/
theorem tribits_to_points_eq (ts : List Nat) :
    tribits_to_points (ts.map (fun x : Nat => (x : Int)))
      = Transl.Trellis.ofR (List.map (fun x : Nat => (x : Int))) (Trellis.tribitsToPoints ts) :=
  Transl.Trellis.tribits_to_points_eq ts

/-- `interleave`, every array whose items fit `array('b')` (`isChars`: what an array of dibits can hold): the model's
`interleave`, `IndexError` for a short array included -/
theorem interleave_eq (d : List Int) (hd : Transl.Trellis.isChars d) :
    Transl.Trellis.interleave d = Transl.Trellis.ofR id (Trellis.interleave d) :=
  Transl.Trellis.interleave_eq d hd

/-- `deinterleave`, likewise (`IndexError`s of a short input / a matrix entry beyond the output included) -/
theorem deinterleave_eq (d : List Int) (hd : Transl.Trellis.isChars d) :
    Transl.Trellis.deinterleave d = Transl.Trellis.ofR id (Trellis.deinterleave d) :=
  Transl.Trellis.deinterleave_eq d hd

/-- `dibits_to_bits`, every array: the model's `dibitsToBits`, `KeyError` included -/
theorem dibits_to_bits_eq (ds : List Int) : dibits_to_bits ds = Transl.Trellis.ofR id (Trellis.dibitsToBits ds) :=
  Transl.Trellis.dibits_to_bits_eq ds

/-- `encode(bitarray)`, EVERY bit string (`AssertionError` below 144 bits, only the first 144 bits are used): the model's
`encode` -/
theorem encode_eq (b : Bits) : Transl.Trellis.encode b = Transl.Trellis.ofR id (Trellis.encode b) :=
  Transl.Trellis.encode_eq b

/-- `encode(bytes)`, every byte string: the model's `encodeBytes` -/
theorem encode_bytes_eq (d : Bytes) : Transl.Trellis.encode_bytes d = Transl.Trellis.ofR id (Trellis.encodeBytes d) :=
  Transl.Trellis.encode_bytes_eq d

/-! ## non-vacuity / pin: a random 144-bit block, its code word computed with the real `Trellis34.encode`, the round trip,
and a single inverted bit of the code word that the translated `decode` rejects like the real one (`AssertionError`) -/

def blk : List Bool := [true, false, true, false, false, false, true, false, false, false, false, true, true, false, false, false, true, false, false, false, false, true, false, false, false, false, true, true, false, false, true, false, false, false, true, false, false, false, false, true, true, true, true, true, true, true, false, false, false, false, true, true, true, true, true, false, false, true, false, true, false, true, true, false, false, true, true, true, true, true, false, false, true, true, false, false, true, true, true, true, true, false, true, true, false, false, true, false, false, true, false, false, true, true, true, false, false, true, true, true, false, true, true, true, true, true, false, false, false, false, false, false, false, false, true, false, true, true, false, false, true, true, true, false, false, true, true, true, true, true, false, true, true, false, false, false, false, true, false, false, true, false, false, false]
def cw : List Bool := [true, false, false, false, true, false, true, true, false, false, false, false, true, false, true, false, false, false, false, false, false, true, false, true, false, true, true, false, true, false, false, true, false, true, false, false, true, true, true, true, true, false, false, true, false, true, true, false, false, false, true, false, false, false, true, true, false, false, true, true, true, false, true, true, false, true, false, false, true, true, false, true, true, false, false, true, false, true, false, false, false, false, false, true, true, true, false, false, false, false, true, false, false, true, false, false, false, false, false, false, false, true, true, true, true, false, true, false, true, false, true, false, true, false, false, false, true, true, true, false, true, true, false, true, false, true, false, true, false, false, false, true, false, false, false, false, true, false, false, false, true, true, false, true, false, false, false, true, false, false, false, false, false, true, true, true, false, false, true, true, true, true, true, false, false, true, false, true, true, true, true, false, true, true, false, true, false, false, true, false, true, true, true, false, false, true, true, false, false, false, false, true, true, true, true, false]

example : encode blk = .ok cw ∧ decode cw = .ok blk ∧ cw.length = 196 ∧
    bits_to_tribits blk = .ok [5, 0, 4, 1, 4, 2, 0, 4, 1, 4, 4, 2, 0, 7, 7, 4, 1, 7, 4, 5, 3, 1, 7, 4, 6, 3, 7, 3, 1, 1, 1, 6, 3, 5, 7, 4, 0, 0, 5, 4, 7, 1, 7, 5, 4, 1, 1, 0, 0] ∧
    decode (cw.set 5 (!cw.getD 5 false)) = .error .assertion := by decide +kernel

end Dmr.C10t
