import DmrVerif.Props.C13
import DmrVerif.Lemmas.TranslIpsc

/-!
# C13t — the SOURCE of `HyteraIPSC.from_ipsc_bytes` / `as_ipsc_bytes`, translated, equals the model of C13

`Gen/TranslIpsc.lean` is regenerated on every run by `tools/py2lean_rec.py` from `inspect.getsource` of the two live functions
and of `HyteraIPSC.__init__` (the class is a plain record: a generated Lean `structure`, `__init__` inlined at the constructor
call, attribute stores on the object made in the function as functional updates); the five IPSC enums are called through
their tables in `Gen/Ipsc.lean` (members as their index in definition order, as in `Model/Ipsc.lean`; the member values of the
live classes are pinned by `example`s in the generated file); `byteswap_bytes` / `half_byte_to_bytes` are the definitions of
`Gen/TranslBitsBytes.lean` (`Props/C05t`).  The `payload` attribute is translated in its `bytes` form (`Union[bytes, Burst]`).
-/

namespace Dmr.C13t
open Dmr Dmr.Py Dmr.Transl.Ipsc

/-- `from_ipsc_bytes(ipsc)`, every octet string of EVERY length (slices clamp, an empty slice is the integer 0): the model's
`fromIpscBytes`; `ValueError` of the five enum calls in the order of the source -/
theorem from_ipsc_bytes_eq (d : Bytes) (hd : Transl.BitsBytes.isOctets d) :
    from_ipsc_bytes d = ofI toObj (Ipsc.fromIpscBytes d) :=
  Transl.Ipsc.from_ipsc_bytes_eq d hd

/-- `as_ipsc_bytes()` of every object (any naturals in the numeric attributes, any lengths of the byte strings; the payload and
pad hold octets): the model's `asIpscBytes` — `OverflowError` for a sequence number ≥ 256 or an id ≥ 2^24, `ValueError` for a
colour code whose doubled nibble is not an octet, in the order of the source -/
theorem as_ipsc_bytes_eq (x : Ipsc.Ipsc) (hp : Transl.BitsBytes.isOctets x.payload) (hpad : Transl.BitsBytes.isOctets x.pad) :
    as_ipsc_bytes (toObj x) = ofI id (Ipsc.asIpscBytes x) :=
  Transl.Ipsc.as_ipsc_bytes_eq x hp hpad

/-- decode then serialise with the translated functions = the model's composition, every octet string -/
theorem roundtrip_eq (d : Bytes) (hd : Transl.BitsBytes.isOctets d) :
    (from_ipsc_bytes d >>= as_ipsc_bytes) = ofI id ((Ipsc.fromIpscBytes d).bind Ipsc.asIpscBytes) :=
  Transl.Ipsc.roundtrip_general d hd

/-- `C13.paths_agree` on the translated source: the translated `from_ipsc_bytes` of a well-formed frame is the object the
specification describes (and the generic Kaitai path of the model gives the same object) -/
theorem transl_decode (f : Ipsc.Frame) (h : f.wf = true) :
    from_ipsc_bytes f.bytes = .ok (toObj f.obj) ∧ Ipsc.kaitaiPath f.bytes = .ok f.obj := by
  obtain ⟨h1, h2, _⟩ := C13.paths_agree f h
  obtain ⟨_, hb, _⟩ := Ipsc.frame_facts f h
  exact ⟨by rw [from_ipsc_bytes_eq f.bytes hb, h1]; rfl, h2⟩

/-- `C13.reserialise` on the translated source only: every well-formed 72-octet frame decoded by the translated
`from_ipsc_bytes` and serialised by the translated `as_ipsc_bytes` is the frame again -/
theorem transl_reserialise (f : Ipsc.Frame) (h : f.wf = true) :
    f.bytes.length = 72 ∧ (from_ipsc_bytes f.bytes >>= as_ipsc_bytes) = .ok f.bytes := by
  obtain ⟨hl, hr, _⟩ := C13.reserialise f h
  obtain ⟨_, hb, _⟩ := Ipsc.frame_facts f h
  refine ⟨hl, ?_⟩
  rw [roundtrip_eq f.bytes hb, hr]; rfl

/-! ## non-vacuity: kernel evaluation of the translated definitions on a frame; the expected values were computed with the real
code (timeslot 2, sync slot type, colour code 5, group call, ids 0x123456 / 0xABCDEF) -/

def frame : Bytes := [90, 90, 90, 90, 7, 0, 0, 0, 67, 0, 5, 1, 1, 0, 0, 0, 34, 34, 238, 238, 85, 85, 102, 102, 64, 0, 1, 2, 3, 4, 5, 6, 7, 8, 9, 10, 11, 12, 13, 14, 15, 16, 17, 18, 19, 20, 21, 22, 23, 24, 25, 26, 27, 28, 29, 30, 31, 32, 33, 34, 226, 8, 1, 0, 86, 52, 18, 0, 239, 205, 171, 0]

example : from_ipsc_bytes frame = .ok (HyteraIPSC.mk 1 3 2 14 1 7 5 [2, 1, 4, 3, 6, 5, 8, 7, 10, 9, 12, 11, 14, 13, 16, 15, 18, 17, 20, 19, 22, 21, 24, 23, 26, 25, 28, 27, 30, 29, 32, 31, 34] 1193046 11259375
      [90, 90] [90, 90] [0, 0, 0] [0, 5, 1, 1, 0, 0, 0] [64, 0] [226, 8] [0] [33]) ∧
    (from_ipsc_bytes frame >>= as_ipsc_bytes) = .ok frame ∧
    from_ipsc_bytes (frame.set 62 10) = .error .value := by decide +kernel

end Dmr.C13t
