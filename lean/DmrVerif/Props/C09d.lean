import DmrVerif.Lemmas.VbptcPacked

/-!
# C09 (part d) — kernel evaluation of the (128,72) encoder core on the unit words 60 … 77

One of four slices of the 78-word basis (72 message bits, 5 checksum bits, the parity flag) of
`v128.F`; see `Props/C09.lean` for the property theorems that use it.  The packed mirror that is
evaluated here is proved equal to the list model in `Lemmas/VbptcPacked.lean`.
-/

namespace Dmr.C09
open Dmr Dmr.Vbptc

theorem basis128_d : v128.basisRange (genC v128.H) 60 18 = true := by decide +kernel

end Dmr.C09
