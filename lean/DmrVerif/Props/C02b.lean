import DmrVerif.Lemmas.BptcMain

/-! # C02 (part b) — kernel-decided facts about the BPTC(196,96) position lists (see `C02a`) -/

namespace Dmr.C02
open Dmr Dmr.Bptc

set_option maxRecDepth 100000

/-- … and the 195 on-air positions feeding the table are pairwise distinct (an inverted on-air bit
inverts at most one cell) -/
theorem cell_nodup : chkCellNodup = true := by decide +kernel

/-- the 96 info bits are read from the 9×11 data block of the table -/
theorem data_cells : chkDataCells = true := by decide +kernel

/-- `repair_if_necessary` of (received word, unchanged table of that word) writes every bit back to
where it came from, bit 0 (R(3), not in the table) included -/
theorem rep_clean : chkRepClean = true := by decide +kernel

end Dmr.C02
