import DmrVerif.Props.C14
import DmrVerif.Lemmas.TranslMbxml
import DmrVerif.Lemmas.TranslMbxmlW

/-!
# C14t — the SOURCE of the MBXML readers, translated, equals the model of C14

`Gen/TranslMbxml.lean` is regenerated on every run by `tools/py2lean.py` from `inspect.getsource` of the live
`MBXML.read_uintvar / read_sintvar / read_uint8 / read_opaque / read_opaque_defined_size` (semantics of the Python subset:
`Model/Py.lean`).  For all byte strings and all natural read positions the translated `read_uintvar` equals the model's
`readU` (value, new index, `IndexError` when the octets run out), the `while True` loop never exhausts its fuel, and the
three slice readers have closed forms; the round-trip theorem of C14 is restated with the translated reader.
`read_sintvar` equals the model's `readS` (Python's `sign` ∈ {−1, 1} is `signOf` of the model's flag).
Negative read positions (Python counts them from the end) are outside the model's domain (`idx : Nat`); the translated
definitions cover them and the differential run exercises them.
-/

namespace Dmr.C14t
open Dmr Dmr.Py Dmr.Mbxml Dmr.Transl.Mbxml

/-- `read_uintvar(data, idx)` = the model's `readU data idx` -/
theorem read_uintvar_eq (data : Bytes) (idx : Nat) :
    read_uintvar data (idx : Int) = ofR (fun p : Nat × Nat => ((p.1 : Int), (p.2 : Int))) (readU data idx) :=
  Transl.Mbxml.read_uintvar_eq data idx

/-- `read_sintvar(data, idx)` = the model's `readS data idx` (value with sign, new index, sign as −1 / 1) -/
theorem read_sintvar_eq (data : Bytes) (idx : Nat) :
    read_sintvar data (idx : Int) =
      ofR (fun p : Int × Nat × Bool => (p.1, ((p.2.1 : Nat) : Int), signOf p.2.2)) (readS data idx) :=
  Transl.Mbxml.read_sintvar_eq data idx

/-- `C14.read_write_sintvar` with the translated reader: what the writer produces for `|v| ≤ 2^31 − 1`, at any position of
any buffer, is read back by the translated source as `v` with its sign, ending exactly behind it -/
theorem transl_read_write_sintvar (v : Int) (hv : v.natAbs ≤ 2 ^ 31 - 1) (pre rest : Bytes) :
    ∃ bs, writeS v = .ok bs ∧
      read_sintvar (pre ++ bs ++ rest) (pre.length : Int) =
        .ok (v, ((pre.length + bs.length : Nat) : Int), if v < 0 then -1 else 1) := by
  obtain ⟨bs, hw, hr⟩ := C14.read_write_sintvar v hv pre rest
  refine ⟨bs, hw, ?_⟩
  rw [read_sintvar_eq, hr]
  by_cases h : v < 0 <;> simp [ofR, signOf, h]

/-- `read_uint8(data, idx)` never raises; past the end it reads 0 -/
theorem read_uint8_eq (data : Bytes) (idx : Nat) :
    read_uint8 data (idx : Int) = .ok (((data.getD idx 0 : Nat) : Int), ((idx + 1 : Nat) : Int)) :=
  Transl.Mbxml.read_uint8_eq data idx

/-- `read_opaque_defined_size(data, idx, size)` never raises and returns `data[idx : idx + size]`, `idx + size` -/
theorem read_opaque_defined_size_eq (data : Bytes) (idx size : Nat) :
    read_opaque_defined_size data (idx : Int) (size : Int) =
      .ok ((data.drop idx).take size, ((idx + size : Nat) : Int)) :=
  Transl.Mbxml.read_opaque_defined_size_eq data idx size

/-- `read_opaque(data, idx)`: length by `read_uintvar` (model: `readU`), then that many octets (cut at the end) -/
theorem read_opaque_eq (data : Bytes) (idx : Nat) :
    read_opaque data (idx : Int) = ofR (fun p : Nat × Nat => ((data.drop p.2).take p.1, ((p.2 + p.1 : Nat) : Int)))
      (readU data idx) :=
  Transl.Mbxml.read_opaque_eq data idx

/-- `C14.read_write_uintvar` with the translated reader: what the writer produces for `v ≤ 2^32 − 1`, at any position
of any buffer, is read back by the translated source as `v`, ending exactly behind it -/
theorem transl_read_write_uintvar (v : Nat) (hv : v ≤ 2 ^ 32 - 1) (pre rest : Bytes) :
    ∃ bs, writeU v = .ok bs ∧
      read_uintvar (pre ++ bs ++ rest) (pre.length : Int) = .ok ((v : Int), ((pre.length + bs.length : Nat) : Int)) := by
  obtain ⟨bs, hw, hr⟩ := C14.read_write_uintvar v hv pre rest
  exact ⟨bs, hw, by rw [read_uintvar_eq, hr]; rfl⟩

/-- `C14.writeU_unique` with the translated reader: a canonical octet string is read completely by the translated source,
and the writer gives it back -/
theorem transl_writeU_unique (bs : Bytes) (hc : canonicalU bs = true) :
    ∃ v : Nat, read_uintvar bs 0 = .ok ((v : Int), (bs.length : Int)) ∧ writeURaw v = bs := by
  obtain ⟨v, hr, hw⟩ := C14.writeU_unique bs hc
  refine ⟨v, ?_, hw⟩
  have := read_uintvar_eq bs 0
  rw [hr] at this
  exact this

/-- an opaque field written as length prefix + octets is read back by the translated `read_opaque` -/
theorem transl_read_opaque_roundtrip (payload pre rest : Bytes) (hv : payload.length ≤ 2 ^ 32 - 1) :
    ∃ lp, writeU payload.length = .ok lp ∧
      read_opaque (pre ++ lp ++ (payload ++ rest)) (pre.length : Int) =
        .ok (payload, ((pre.length + lp.length + payload.length : Nat) : Int)) := by
  obtain ⟨lp, hw, hr⟩ := C14.read_write_uintvar payload.length hv pre (payload ++ rest)
  refine ⟨lp, hw, ?_⟩
  rw [read_opaque_eq, hr]
  simp only [ofR]
  have : (pre ++ lp ++ (payload ++ rest)).drop (pre.length + lp.length) = payload ++ rest := by
    rw [← List.length_append]; exact List.drop_left' rfl
  rw [this, List.take_left' rfl]

/-! ## the writers -/

/-- `write_uintvar(value)`, every Python int: the model's `writeUInt` (both assertions; no `ValueError` of `int(s, 2)`, no
`unsupported` of `math.ceil` / `int(s, 2)` is reachable) -/
theorem write_uintvar_eq (v : Int) : write_uintvar v = ofR id (writeUInt v) :=
  Transl.Mbxml.write_uintvar_eq v

/-- `write_sintvar(value, negative_zero)`, every Python int and flag: the model's `writeS` -/
theorem write_sintvar_eq (v : Int) (nz : Bool) : write_sintvar v nz = ofR id (writeS v nz) :=
  Transl.Mbxml.write_sintvar_eq v nz

/-- `write_fraction(dec_part, precision)` for natural arguments: the model's `writeFraction` (descending `range`, the septet
list comprehension, the `while … pop()` loop with fuel `len(septets) + 1`, the flagged list) — it never raises -/
theorem write_fraction_eq (d p : Nat) : write_fraction (d : Int) (p : Int) = .ok (writeFraction d p) :=
  Transl.Mbxml.write_fraction_eq d p

/-- the translated writer accepts exactly `0 ≤ v ≤ 2^32 − 1` (`C14.writeU_range`) -/
theorem transl_write_uintvar_range (v : Int) :
    (∃ bs, write_uintvar v = .ok bs) ↔ 0 ≤ v ∧ v ≤ 2 ^ 32 - 1 := by
  rw [write_uintvar_eq]
  unfold writeUInt
  by_cases hv : v < 0
  · rw [if_pos hv]
    constructor
    · intro ⟨_, h⟩; cases h
    · intro ⟨h, _⟩; omega
  · rw [if_neg hv]
    have hr := C14.writeU_range v.toNat
    constructor
    · intro ⟨bs, h⟩
      cases hw : writeU v.toNat with
      | error e => rw [hw] at h; cases h
      | ok b => have := hr.mp ⟨b, hw⟩; omega
    · intro ⟨_, h2⟩
      obtain ⟨b, hb⟩ := hr.mpr (by omega)
      exact ⟨b, by rw [hb]; rfl⟩

/-- ROUND TRIP PURELY BETWEEN TRANSLATED FUNCTIONS: what the translated `write_uintvar` returns for `0 ≤ v ≤ 2^32 − 1`,
placed anywhere in a buffer, is read back by the translated `read_uintvar` as `v`, ending exactly behind it -/
theorem transl_roundtrip_uintvar (v : Nat) (hv : v ≤ 2 ^ 32 - 1) (pre rest : Bytes) :
    ∃ bs, write_uintvar (v : Int) = .ok bs ∧
      read_uintvar (pre ++ bs ++ rest) (pre.length : Int) = .ok ((v : Int), ((pre.length + bs.length : Nat) : Int)) := by
  obtain ⟨bs, hw, hr⟩ := transl_read_write_uintvar v hv pre rest
  refine ⟨bs, ?_, hr⟩
  rw [write_uintvar_eq]
  unfold writeUInt
  have : ¬ ((v : Int) < 0) := by omega
  rw [if_neg this, Int.toNat_natCast, hw]; rfl

/-- the same for the signed pair: `read_sintvar (write_sintvar v) = v` with the sign, for `|v| ≤ 2^31 − 1` -/
theorem transl_roundtrip_sintvar (v : Int) (hv : v.natAbs ≤ 2 ^ 31 - 1) (pre rest : Bytes) :
    ∃ bs, write_sintvar v = .ok bs ∧
      read_sintvar (pre ++ bs ++ rest) (pre.length : Int) =
        .ok (v, ((pre.length + bs.length : Nat) : Int), if v < 0 then -1 else 1) := by
  obtain ⟨bs, hw, hr⟩ := transl_read_write_sintvar v hv pre rest
  exact ⟨bs, by rw [write_sintvar_eq, hw]; rfl, hr⟩

/-- canonical shortest form (`C14.writeU_canonical`, `writeU_shortest`) about the translated writer: its output is canonical,
and no well-flagged octet string that the translated reader reads as the same value is shorter -/
theorem transl_write_uintvar_canonical (v : Nat) (hv : v ≤ 2 ^ 32 - 1) :
    ∃ bs, write_uintvar (v : Int) = .ok bs ∧ canonicalU bs = true ∧
      ∀ other : Bytes, wellFlagged other = true →
        read_uintvar other 0 = .ok ((v : Int), (other.length : Int)) → bs.length ≤ other.length := by
  have hc := C14.constants.1
  have hw : writeU v = .ok (writeURaw v) := by unfold writeU; rw [if_neg (by omega)]
  refine ⟨writeURaw v, ?_, C14.writeU_canonical v, ?_⟩
  · rw [write_uintvar_eq]
    unfold writeUInt
    have : ¬ ((v : Int) < 0) := by omega
    rw [if_neg this, Int.toNat_natCast, hw]; rfl
  · intro other hwf hread
    obtain ⟨u, hru, hlen⟩ := C14.writeU_shortest other hwf
    have h := read_uintvar_eq other 0
    rw [hru] at h
    have h' : read_uintvar other 0 = .ok ((u : Int), (other.length : Int)) := h
    rw [h'] at hread
    have : u = v := by
      have := (Prod.mk.injEq _ _ _ _).mp (Except.ok.inj hread)
      exact_mod_cast this.1
    rw [← this]; exact hlen

/-! ## non-vacuity: kernel evaluation of the translated definitions; expected values computed with the real code -/

example :
    let d : Bytes := [0x05, 0x8f, 0xff, 0xff, 0xff, 0x7f, 0xc1, 0x01, 0x03, 0xaa, 0xbb, 0xcc]
    read_uintvar d 1 = .ok (4294967295, 6) ∧ read_sintvar d 6 = .ok (-129, 8, -1) ∧
    read_uint8 d 20 = .ok (0, 21) ∧ read_opaque d 8 = .ok ([0xaa, 0xbb, 0xcc], 12) ∧
    read_opaque_defined_size d 10 5 = .ok ([0xbb, 0xcc], 15) ∧
    read_uintvar d (-1) = .ok (9733, 1) ∧ read_uintvar d (-13) = .error .index ∧ read_uintvar d (-4) = .ok (3, -3) ∧
    read_uintvar [0x80, 0x80] 0 = .error .index := by decide +kernel

example : write_uintvar 4294967295 = .ok [0x8f, 0xff, 0xff, 0xff, 0x7f] ∧ write_uintvar 0 = .ok [0] ∧
    write_uintvar 4294967296 = .error .assertion ∧ write_uintvar (-1) = .error .assertion ∧
    write_sintvar (-129) = .ok [0xc1, 0x01] ∧ write_sintvar 64 = .ok [0x80, 0x40] ∧ write_sintvar 0 true = .ok [0x40] ∧
    write_fraction 8192 3 = .ok [0x80, 0x40] ∧ write_fraction 0 3 = .ok [0] := by decide +kernel

end Dmr.C14t
