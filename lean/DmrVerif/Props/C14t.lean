import DmrVerif.Props.C14
import DmrVerif.Lemmas.TranslMbxml

/-!
# C14t — the SOURCE of the MBXML readers, translated, equals the model of C14

`Gen/TranslMbxml.lean` is regenerated on every run by `tools/py2lean.py` from `inspect.getsource` of the live
`MBXML.read_uintvar / read_sintvar / read_uint8 / read_opaque / read_opaque_defined_size` (semantics of the Python subset:
`Model/Py.lean`).  For all byte strings and all natural read positions the translated `read_uintvar` equals the model's
`readU` (value, new index, `IndexError` when the octets run out), the `while True` loop never exhausts its fuel, and the
three slice readers have closed forms; the round-trip theorem of C14 is restated with the translated reader.
`read_sintvar` equals the model's `readS` (Python's `sign` ∈ {−1, 1} is `signOf` of the model's flag).
Negative read positions (Python counts them from the end) are outside the model's domain (`idx : Nat`); the translated
definitions cover them and the differential run exercises them.
-/

namespace Dmr.C14t
open Dmr Dmr.Py Dmr.Mbxml Dmr.Transl.Mbxml

/-- `read_uintvar(data, idx)` = the model's `readU data idx` -/
theorem read_uintvar_eq (data : Bytes) (idx : Nat) :
    read_uintvar data (idx : Int) = ofR (fun p : Nat × Nat => ((p.1 : Int), (p.2 : Int))) (readU data idx) :=
  Transl.Mbxml.read_uintvar_eq data idx

/-- `read_sintvar(data, idx)` = the model's `readS data idx` (value with sign, new index, sign as −1 / 1) -/
theorem read_sintvar_eq (data : Bytes) (idx : Nat) :
    read_sintvar data (idx : Int) =
      ofR (fun p : Int × Nat × Bool => (p.1, ((p.2.1 : Nat) : Int), signOf p.2.2)) (readS data idx) :=
  Transl.Mbxml.read_sintvar_eq data idx

/-- `C14.read_write_sintvar` with the translated reader: what the writer produces for `|v| ≤ 2^31 − 1`, at any position of
any buffer, is read back by the translated source as `v` with its sign, ending exactly behind it -/
theorem transl_read_write_sintvar (v : Int) (hv : v.natAbs ≤ 2 ^ 31 - 1) (pre rest : Bytes) :
    ∃ bs, writeS v = .ok bs ∧
      read_sintvar (pre ++ bs ++ rest) (pre.length : Int) =
        .ok (v, ((pre.length + bs.length : Nat) : Int), if v < 0 then -1 else 1) := by
  obtain ⟨bs, hw, hr⟩ := C14.read_write_sintvar v hv pre rest
  refine ⟨bs, hw, ?_⟩
  rw [read_sintvar_eq, hr]
  by_cases h : v < 0 <;> simp [ofR, signOf, h]

/-- `read_uint8(data, idx)` never raises; past the end it reads 0 -/
theorem read_uint8_eq (data : Bytes) (idx : Nat) :
    read_uint8 data (idx : Int) = .ok (((data.getD idx 0 : Nat) : Int), ((idx + 1 : Nat) : Int)) :=
  Transl.Mbxml.read_uint8_eq data idx

/-- `read_opaque_defined_size(data, idx, size)` never raises and returns `data[idx : idx + size]`, `idx + size` -/
theorem read_opaque_defined_size_eq (data : Bytes) (idx size : Nat) :
    read_opaque_defined_size data (idx : Int) (size : Int) =
      .ok ((data.drop idx).take size, ((idx + size : Nat) : Int)) :=
  Transl.Mbxml.read_opaque_defined_size_eq data idx size

/-- `read_opaque(data, idx)`: length by `read_uintvar` (model: `readU`), then that many octets (cut at the end) -/
theorem read_opaque_eq (data : Bytes) (idx : Nat) :
    read_opaque data (idx : Int) = ofR (fun p : Nat × Nat => ((data.drop p.2).take p.1, ((p.2 + p.1 : Nat) : Int)))
      (readU data idx) :=
  Transl.Mbxml.read_opaque_eq data idx

/-- `C14.read_write_uintvar` with the translated reader: what the writer produces for `v ≤ 2^32 − 1`, at any position
of any buffer, is read back by the translated source as `v`, ending exactly behind it -/
theorem transl_read_write_uintvar (v : Nat) (hv : v ≤ 2 ^ 32 - 1) (pre rest : Bytes) :
    ∃ bs, writeU v = .ok bs ∧
      read_uintvar (pre ++ bs ++ rest) (pre.length : Int) = .ok ((v : Int), ((pre.length + bs.length : Nat) : Int)) := by
  obtain ⟨bs, hw, hr⟩ := C14.read_write_uintvar v hv pre rest
  exact ⟨bs, hw, by rw [read_uintvar_eq, hr]; rfl⟩

/-- `C14.writeU_unique` with the translated reader: a canonical octet string is read completely by the translated source,
and the writer gives it back -/
theorem transl_writeU_unique (bs : Bytes) (hc : canonicalU bs = true) :
    ∃ v : Nat, read_uintvar bs 0 = .ok ((v : Int), (bs.length : Int)) ∧ writeURaw v = bs := by
  obtain ⟨v, hr, hw⟩ := C14.writeU_unique bs hc
  refine ⟨v, ?_, hw⟩
  have := read_uintvar_eq bs 0
  rw [hr] at this
  exact this

/-- an opaque field written as length prefix + octets is read back by the translated `read_opaque` -/
theorem transl_read_opaque_roundtrip (payload pre rest : Bytes) (hv : payload.length ≤ 2 ^ 32 - 1) :
    ∃ lp, writeU payload.length = .ok lp ∧
      read_opaque (pre ++ lp ++ (payload ++ rest)) (pre.length : Int) =
        .ok (payload, ((pre.length + lp.length + payload.length : Nat) : Int)) := by
  obtain ⟨lp, hw, hr⟩ := C14.read_write_uintvar payload.length hv pre (payload ++ rest)
  refine ⟨lp, hw, ?_⟩
  rw [read_opaque_eq, hr]
  simp only [ofR]
  have : (pre ++ lp ++ (payload ++ rest)).drop (pre.length + lp.length) = payload ++ rest := by
    rw [← List.length_append]; exact List.drop_left' rfl
  rw [this, List.take_left' rfl]

/-! ## non-vacuity: kernel evaluation of the translated definitions; expected values computed with the real code -/

example :
    let d : Bytes := [0x05, 0x8f, 0xff, 0xff, 0xff, 0x7f, 0xc1, 0x01, 0x03, 0xaa, 0xbb, 0xcc]
    read_uintvar d 1 = .ok (4294967295, 6) ∧ read_sintvar d 6 = .ok (-129, 8, -1) ∧
    read_uint8 d 20 = .ok (0, 21) ∧ read_opaque d 8 = .ok ([0xaa, 0xbb, 0xcc], 12) ∧
    read_opaque_defined_size d 10 5 = .ok ([0xbb, 0xcc], 15) ∧
    read_uintvar d (-1) = .ok (9733, 1) ∧ read_uintvar d (-13) = .error .index ∧ read_uintvar d (-4) = .ok (3, -3) ∧
    read_uintvar [0x80, 0x80] 0 = .error .index := by decide +kernel

end Dmr.C14t
