import DmrVerif.Lemmas.HyteraLp
import DmrVerif.Props.C12

/-!
# C12 — the same field value handed to a constructor in another form

`GPSData.__init__` / `LocationProtocol.__init__` take `Union[bytes, X]` arguments and keep an `X` object
as it is.  Such an object may carry more than is serialised — a `datetime.time` has microseconds, a UTC
offset and `fold`; a `datetime` is a `date` with a time of day — or be of another numeric type.
`Model/Hdap.lean` (`TimeArg`, `DateArg`, `CoordArg`, `SpeedArg`, `DirArg`, `GpsArgs.init`, `IntArg`) gives
every form its reading; the theorems say that the serialised record depends on the readings only: it
has its fixed width and parses back to the values, whatever form the arguments had.  The correspondence
run compares `GpsArgs.init` with the real constructor on every form (`arg.gps` lines).
-/

namespace Dmr.C12
open Dmr Dmr.Hytera Dmr.Gen.Hytera

/-! ## a `datetime.time` that carries more than `hhmmss` -/

/-- microseconds, UTC offset and `fold` of the time object are not read: every `datetime.time` with
the same hour, minute and second is the same GPS time -/
theorem time_arg_extras_not_read (h m s us us2 : Nat) (tz tz2 : Option Int) (fold fold2 : Nat) :
    (TimeArg.time h m s us tz fold).stored = (TimeArg.time h m s us2 tz2 fold2).stored := rfl

/-- whatever form the time argument had, its field in the record is six octets -/
theorem time_arg_width (a : TimeArg) (t : Option (Nat × Nat × Nat)) (_h : a.stored = .ok t) :
    (timeBytes t).length = 6 := by
  match t with
  | none => rfl
  | some (h, m, s) => simp [timeBytes, d2]

/-- the octet form of a time is read back as that time -/
theorem time_arg_octets (t : Option (Nat × Nat × Nat)) (h : timeOk t) :
    (TimeArg.octets (timeBytes t)).stored = .ok t := by
  obtain ⟨a, b, c, d, e, f, e1, e2⟩ := time_field t h
  simp only [TimeArg.stored, e1, e2]

/-! ## a `datetime` (or other subclass of `date`) where a date is expected -/

theorem date_arg_time_of_day_not_read (d m y h mi s us : Nat) (tz : Option Int) :
    (DateArg.datetime d m y h mi s us tz).stored = (DateArg.date d m y).stored := rfl

theorem date_arg_width (a : DateArg) (t : Option (Nat × Nat × Nat)) (_h : a.stored = .ok t) :
    (dateBytes t).length = 6 := by
  match t with
  | none => rfl
  | some (d, m, y) => simp [dateBytes, d2]

theorem date_arg_octets (t : Option (Nat × Nat × Nat)) (h : dateOk t) :
    (DateArg.octets (dateBytes t)).stored = .ok t := by
  obtain ⟨a, b, c, d, e, f, e1, e2⟩ := date_field t h
  simp only [DateArg.stored, e1, e2]

/-! ## numbers of another type -/

/-- an `int` coordinate is the float with the same value -/
theorem coord_arg_int (n : Nat) : (CoordArg.int n).stored = (CoordArg.fixed4 (n * 10000)).stored := rfl

theorem coord_arg_octets_lat (v : Nat) (h : v < 100000000) : (CoordArg.octets (fmtLat v)).stored = .ok v := by
  obtain ⟨a0, a1, a2, a3, a4, a5, a6, a7, a8, e1, e2⟩ := lat_field v h
  simp only [CoordArg.stored, e1, e2]

theorem coord_arg_octets_lon (v : Nat) (h : v < 1000000000) : (CoordArg.octets (fmtLon v)).stored = .ok v := by
  obtain ⟨a0, a1, a2, a3, a4, a5, a6, a7, a8, a9, e1, e2⟩ := lon_field v h
  simp only [CoordArg.stored, e1, e2]

theorem speed_arg_octets (s : Dec) (h : s.fits) : (SpeedArg.octets (fmtSpeed s)).stored = .ok s := by
  obtain ⟨a, b, c, e1, e2⟩ := speed_field s h
  simp only [SpeedArg.stored, e1, e2]

theorem dir_arg_octets (v : Nat) (h : v < 1000) : (DirArg.octets (fmtDir v)).stored = .ok v := by
  obtain ⟨a, b, c, e1, e2⟩ := dir_field v h
  simp only [DirArg.stored, e1, e2]

/-! ## the record -/

/-- **the GPS record does not depend on the form of the constructor arguments.**  Whatever forms the
nine arguments have — a time with microseconds / UTC offset / fold, a datetime for the date, ints or
octets for the numbers — if their readings are the values of `g` (in range, speed fitting), the
constructed object serialises to the record of `g`: 40 octets that parse back to `g`. -/
theorem gps_record_of_any_form (a : GpsArgs) (g : Gps) (hv : a.valid = g.valid) (hn : a.north = g.north)
    (he : a.east = g.east) (ht : a.time.stored = .ok g.time) (hd : a.date.stored = .ok g.date)
    (hla : a.lat.stored = .ok g.lat4) (hlo : a.lon.stored = .ok g.lon4) (hs : a.speed.stored = .ok g.speed)
    (hdi : a.dir.stored = .ok g.direction) (hw : g.WF) (hf : g.speedFits) :
    a.init = .ok g ∧ g.asBytes.length = 40 ∧ Gps.fromBytes g.asBytes = .ok g := by
  refine ⟨?_, gps_roundtrip g hw hf⟩
  obtain ⟨valid, time, date, north, lat, east, lon, speed, dir⟩ := g
  simp only at hv hn he ht hd hla hlo hs hdi
  simp [GpsArgs.init, hv, hn, he, ht, hd, hla, hlo, hs, hdi, bind, Except.bind, pure, Except.pure]

/-- the plain form (objects without anything extra, absent time / date as six NULs) is one of them -/
theorem gps_plain_args (g : Gps) : g.plainArgs.init = .ok g := by
  obtain ⟨valid, time, date, north, lat, east, lon, speed, dir⟩ := g
  cases time <;> cases date <;>
    simp [Gps.plainArgs, GpsArgs.init, TimeArg.stored, DateArg.stored, CoordArg.stored, SpeedArg.stored, DirArg.stored,
      parseTime, parseDate, allNul, nul6, bind, Except.bind, pure, Except.pure]

/-- the class behind the missed change: the time handed over with microseconds, a UTC offset and
`fold`, the date as a `datetime` — the constructed object is the one built from the plain values -/
theorem gps_rich_time_date (g : Gps) (h m s us fold d mo y hh mi ss us2 : Nat) (tz tz2 : Option Int)
    (ht : g.time = some (h, m, s)) (hd : g.date = some (d, mo, y)) :
    ({ g.plainArgs with time := .time h m s us tz fold, date := .datetime d mo y hh mi ss us2 tz2 } : GpsArgs).init
      = g.plainArgs.init := by
  obtain ⟨valid, time, date, north, lat, east, lon, speed, dir⟩ := g
  simp only at ht hd
  subst ht hd
  rfl

/-- every argument as octets (the form `from_bytes` uses) gives the same object again -/
theorem gps_octet_args (g : Gps) (hw : g.WF) (hf : g.speedFits) :
    (⟨g.valid, .octets (timeBytes g.time), .octets (dateBytes g.date), g.north, .octets (fmtLat g.lat4), g.east,
      .octets (fmtLon g.lon4), .octets (fmtSpeed g.speed), .octets (fmtDir g.direction)⟩ : GpsArgs).init = .ok g := by
  obtain ⟨ht, hd, hla, hlo, hdi⟩ := hw
  exact (gps_record_of_any_form _ g rfl rfl rfl (time_arg_octets _ ht) (date_arg_octets _ hd) (coord_arg_octets_lat _ hla)
    (coord_arg_octets_lon _ hlo) (speed_arg_octets _ hf) (dir_arg_octets _ hdi) ⟨ht, hd, hla, hlo, hdi⟩ hf).1

/-! ## integers handed over as octets (`Union[int, bytes]`) -/

theorem int_arg_be4 (n : Nat) (h : n < 4294967296) : (IntArg.octets (be4 n)).be = (IntArg.int n).be := ofBe_be4 h
theorem int_arg_be3 (n : Nat) (h : n < 16777216) : (IntArg.octets (be3 n)).be = (IntArg.int n).be := ofBe_be3 h
theorem int_arg_be2 (n : Nat) (h : n < 65536) : (IntArg.octets (be2 n)).be = (IntArg.int n).be := ofBe_be2 h
theorem int_arg_le4 (n : Nat) (h : n < 4294967296) : (IntArg.octets (le4 n)).le = (IntArg.int n).le := ofLe_le4 h

/-! ## the hypotheses are satisfiable: 07:05:09.000001+05:30 (fold 1) on a datetime of 29 Feb 2024 -/

def argWitness : GpsArgs :=
  ⟨true, .time 7 5 9 1 (some 330) 1, .datetime 29 2 24 23 59 59 999999 (some (-480)), true, .int 4700, false,
   .octets [48, 49, 56, 53, 52, 46, 52, 51, 56, 55], .octets [57, 46, 57], .octets [0, 0, 0]⟩

example : argWitness.init = .ok ⟨true, some (7, 5, 9), some (29, 2, 24), true, 47000000, false, 18544387, ⟨9, [9]⟩, 0⟩ := by
  decide
example : (argWitness.init.map (·.asBytes.length)) = .ok 40 := by decide
example : (Gps.mk true (some (7, 5, 9)) (some (29, 2, 24)) true 47000000 false 18544387 ⟨9, [9]⟩ 0).WF := by decide

end Dmr.C12
