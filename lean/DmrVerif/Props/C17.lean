import DmrVerif.Lemmas.HstrpHandler
import DmrVerif.Gen.HstrpHandler

/-!
# C17 — the HSTRP/RRS handler acknowledges each peer message exactly once, whatever the history

Property theorems only.  Model: `Model/HstrpHandler.lean` (`stepBase` = `HSTRPDatagramProtocol.
datagram_received`, `step` = `RRSDatagramProtocol.datagram_received`) over **parsed** messages: the
input of a step is the abstraction of what the real `HSTRP.from_bytes` returned for the datagram
(`none` for "returned None / raised": truncated, garbage, unknown option or service, …).  The tie to
the code is the correspondence run of `harness/props/c17.py`, which derives that abstraction from the
real parser and compares `sendto` bytes, return value, connected flag, S/N and registry.

All theorems hold for **every** state and message, or every finite history (`List (Option Msg)`,
unbounded).  Message classes follow the dispatch priority of the code
(`is_connect` > `is_heartbeat` > `is_close` > `is_ack` > `is_reject` > data), which decides what a
datagram with several type bits set is:

* connect-class: the connect bit is set (whatever else is set);
* heartbeat-class: heartbeat bit, no connect bit;  close-class: close bit, neither of the former;
* "an acknowledgement": the ack bit is set and the message is not heartbeat-class (the ack of a
  connect/close carries the connect/close bit *and* the ack bit — defect repaired by ac2ad50);
* everything without ack bit that is not heartbeat-class — connect, close, data, and also a *reject* —
  is acknowledged exactly once (the code acknowledges a peer's reject through its generic rule).
-/

namespace Dmr.C17
open Dmr Dmr.HstrpHandler

/-! ## tie to the code's tables (regenerated on every run) -/

theorem header_match : header = Gen.HstrpHandler.header := by decide

/-- `PktType.byte` is `HSTRPPacketType.as_bytes` on all 64 flag combinations -/
theorem type_byte_graph :
    (List.range 64).map (fun v => (PktType.ofByte v).byte) = Gen.HstrpHandler.typeByteGraph := by
  decide +kernel

/-- `PktType.ofByte` is `HSTRPPacketType.from_bytes` on all 256 octets (the two reserved bits are dropped) -/
theorem type_parse_graph :
    (List.range 256).map (fun v => (PktType.ofByte v).byte) = Gen.HstrpHandler.typeParseGraph := by
  decide +kernel

/-- `ofByte` and `byte` are inverse on the 64 flag combinations, so the two graphs above determine both -/
theorem type_byte_roundtrip : ∀ v < 64, (PktType.ofByte v).byte = v := by decide +kernel

theorem opcodes_match :
    opRequest = Gen.HstrpHandler.opRequest ∧ opOffline = Gen.HstrpHandler.opOffline ∧
    opAnswer = Gen.HstrpHandler.opAnswer := by decide

/-- the three answers, serialised by the model, equal what the library's serialisers produce -/
theorem golden_heartbeat : Out.heartbeat.bytes = Gen.HstrpHandler.goldenHeartbeat := by decide

theorem golden_answer : (Out.rrsAnswer 0xFFFE [10, 0, 1, 200]).bytes = Gen.HstrpHandler.goldenAnswer := by
  decide

theorem golden_ack :
    (Out.ack { version := 0, pktType := PktType.ofByte 0x24, sn := 0x123,
               optBytes := [0x83, 4, 0, 1, 0x86, 0x9f, 4, 1, 2], payload := .none }).bytes
      = Gen.HstrpHandler.goldenAck := by decide

/-! ## never raises -/

/-- **never_raises (one datagram).** For every state and every message `HSTRP.from_bytes` can return
(`Msg.WF`: one-octet version, two-octet S/N, octet options, 4-octet radio ip) — and for "not an HSTRP" —
no `to_bytes` of an answer overflows: the faithful outcome `stepE` is the total `step`. -/
theorem never_raises (s : St) (m : Option Msg) (hm : ∀ x, m = some x → x.WF = true) :
    stepE s m = .ok (step s m) := by
  simp only [stepE, step_not_raises s m hm, Bool.false_eq_true, if_false]

/-- **never_raises (histories).** The faithful run of any history of parsed datagrams, from any state,
never stops at an exception. -/
theorem never_raises_history (s : St) (h : List (Option Msg)) (hm : ∀ x, some x ∈ h → x.WF = true) :
    runE s h = .ok (runFrom s h) := runE_ok s h hm

/-- a datagram that is no HSTRP is ignored: no output, `(False, None)`, state unchanged -/
theorem non_hstrp_ignored (s : St) : step s Option.none = (s, [], (false, false)) := rfl

/-! ## acknowledgements -/

/-- **acks_exactly_once.** Every message without the ack bit that is not heartbeat-class — connect,
close, data (and reject) — is answered by exactly one acknowledgement: the one built from this
message, which carries its S/N, its version and options, the ack bit, no reject bit and **no payload**
(`bytes` ends after the options; a peer parses it as a message with `payload = None`). -/
theorem acks_exactly_once (s : St) (m : Msg) (hack : m.pktType.isAck = false) (hhb : m.heartbeatClass = false) :
    (step s (some m)).2.1.filter Out.isAck = [.ack m] ∧
    (stepBase s (some m)).2.1 = [.ack m] ∧
    (Out.ack m).bytes = header ++ [m.version, (ackType m.pktType).byte] ++ be16 m.sn ++ m.optBytes ∧
    (ackType m.pktType).isAck = true ∧ (ackType m.pktType).isReject = false ∧
    (Out.ack m).asMsg = some { m with pktType := ackType m.pktType, payload := .none } := by
  refine ⟨?_, ?_, rfl, rfl, rfl, rfl⟩
  · rw [step_outs, stepBase_outs, hhb, hack]
    cases m.request <;> simp [List.filter, Out.isAck]
  · rw [stepBase_outs, hhb, hack]; rfl

/-- in general: the number of acknowledgements sent for a message is 1 in the case above, 0 otherwise
(heartbeats and messages with the ack bit are never acknowledged) -/
theorem acks_count (s : St) (m : Msg) :
    ((step s (some m)).2.1.filter Out.isAck).length =
      if m.pktType.isAck = false ∧ m.heartbeatClass = false then 1 else 0 := by
  rw [step_outs, stepBase_outs]
  by_cases h1 : m.heartbeatClass = true
  · by_cases h2 : s.connected = true <;> cases m.request <;> simp [h1, h2, List.filter, Out.isAck]
  · by_cases h2 : m.pktType.isAck = true <;> cases m.request <;> simp [h1, h2, List.filter, Out.isAck]

/-- **acks_unanswered.** A message with the ack bit that is not heartbeat-class (plain ack, ack of a
connect, ack of a close, ack+reject, …) makes the base handler send nothing; the RRS handler sends
nothing either, except the registration answer when the message carries an RRS registration request
(the registry rule below applies to every parsed message, whatever its HSTRP type). -/
theorem acks_unanswered (s : St) (m : Msg) (hack : m.pktType.isAck = true) (hhb : m.heartbeatClass = false) :
    (stepBase s (some m)).2.1 = [] ∧
    (step s (some m)).2.1 =
      (match m.request with | some ip => [.rrsAnswer (nextSn s.sn) ip] | Option.none => []) := by
  constructor
  · rw [stepBase_outs, hhb, hack]; rfl
  · rw [step_outs, stepBase_outs, hhb, hack]; rfl

/-- **no datagram the handler sends — other than the heartbeat echo — is answered by a peer handler**,
in whatever state the peer is: acknowledgements produce nothing, and the registration answer is not
even parsed by `HSTRP.from_bytes` (option flag without options). -/
theorem replies_unanswered (s s' : St) (m : Option Msg) (o : Out) (ho : o ∈ (step s m).2.1)
    (hne : o ≠ .heartbeat) : (step s' o.asMsg).2.1 = [] := by
  rcases mem_outs s m o ho with ⟨x, _, rfl, _, hhb⟩ | ⟨rfl, _⟩ | ⟨x, ip, _, _, rfl⟩
  · exact ack_unanswered s' x hhb
  · exact absurd rfl hne
  · rfl

/-- **two composed handlers reach quiescence.** Deliver any datagram that is not heartbeat-class to
handler A (any state) and all of A's answers to handler B (any state): B answers nothing.  So an
exchange between two handlers ends after one reply — the ping-pong of the repaired defect cannot
happen. -/
theorem pingpong_quiescent (sA sB : St) (m : Option Msg) (hm : ∀ x, m = some x → x.heartbeatClass = false) :
    (deliver sB ((step sA m).2.1.map Out.asMsg)).2 = [] := by
  have hall : ∀ o ∈ (step sA m).2.1, ∀ s', (step s' o.asMsg).2.1 = [] := by
    intro o ho s'
    apply replies_unanswered sA s' m o ho
    rintro rfl
    rcases mem_outs sA m _ ho with ⟨x, _, h, _⟩ | ⟨_, x, hx, hb, _⟩ | ⟨x, ip, _, _, h⟩
    · cases h
    · rw [hm x hx] at hb; cases hb
    · cases h
  generalize (step sA m).2.1 = outs at hall
  induction outs generalizing sB with
  | nil => rfl
  | cons o t ih =>
    rw [List.map_cons, deliver_cons, hall o List.mem_cons_self sB, List.nil_append]
    exact ih _ (fun o' ho' => hall o' (List.mem_cons_of_mem _ ho'))

/-! ## heartbeats -/

/-- **heartbeat_iff_connected.** The handler sends a heartbeat exactly when the message is
heartbeat-class and the handler is connected, and then exactly one; a heartbeat is never acknowledged. -/
theorem heartbeat_iff_connected (s : St) (m : Msg) :
    (step s (some m)).2.1.filter Out.isHeartbeat =
      (if m.heartbeatClass = true ∧ s.connected = true then [.heartbeat] else []) ∧
    (m.heartbeatClass = true → (stepBase s (some m)).2.1 = if s.connected then [.heartbeat] else []) := by
  constructor
  · rw [step_outs, stepBase_outs]
    by_cases h1 : m.heartbeatClass = true
    · by_cases h2 : s.connected = true <;> cases m.request <;> simp [h1, h2, List.filter, Out.isHeartbeat]
    · by_cases h2 : m.pktType.isAck = true <;> cases m.request <;> simp [h1, h2, List.filter, Out.isHeartbeat]
  · intro h1
    rw [stepBase_outs, h1]; rfl

/-- the echo is by design: the heartbeat a connected handler sends is itself a heartbeat for the peer,
which echoes it while connected and does not change state — so an exchange *started by a heartbeat*
between two connected handlers of this library never ends (this is why `pingpong_quiescent` excludes
heartbeat-class datagrams; real repeaters send heartbeats on a timer and do not echo echoes). -/
theorem heartbeat_echo_is_echoed (s' : St) :
    step s' Out.heartbeat.asMsg =
      (s', (if s'.connected then [.heartbeat] else []), (true, false)) := by
  cases s' with
  | mk c sn reg => cases c <;> rfl

/-! ## connected flag -/

/-- **connected_eq_last.** After any history from any state the connected flag is `true` iff the last
connect-class or close-class message seen was connect-class; with none seen it is the initial value
(`false` for a new handler). -/
theorem connected_eq_last (s : St) (h : List (Option Msg)) :
    (runFrom s h).1.connected = ((h.filterMap ccOf).getLast?).getD s.connected :=
  runFrom_connected s h

theorem connected_eq_last_init (h : List (Option Msg)) :
    (run h).1.connected = ((h.filterMap ccOf).getLast?).getD false :=
  runFrom_connected init h

/-! ## registry and registration answers -/

/-- **registry_spec.** After any history the registry holds for every radio address the state of that
radio's last registration request (`Online` = `true`) or going-offline message (`Offline` = `false`) in
the history — carried by a parsed message of any HSTRP type — and otherwise what it held before
(nothing, for a new handler). -/
theorem registry_spec (s : St) (h : List (Option Msg)) (ip : Bytes) :
    Storage.dictGet (runFrom s h).1.registry ip =
      (match lastReg ip h with | some b => some b | Option.none => Storage.dictGet s.registry ip) :=
  runFrom_registry s h ip

theorem registry_spec_init (h : List (Option Msg)) (ip : Bytes) :
    Storage.dictGet (run h).1.registry ip = lastReg ip h := by
  have := runFrom_registry init h ip
  rw [run, this]
  cases lastReg ip h <;> rfl

/-- **answer_sn_lt_2_16.** Every registration request is answered by exactly one registration answer —
result Success, renewal 300 s, the radio address of the request — whose S/N is the handler's
incremented counter and fits 16 bits; nothing else triggers a registration answer, and the counter only
moves with an answer. -/
theorem registration_answered_once (s : St) (m : Msg) :
    (step s (some m)).2.1.filter Out.isAnswer =
      (match m.request with | some ip => [.rrsAnswer (nextSn s.sn) ip] | Option.none => []) ∧
    nextSn s.sn < 65536 ∧
    (step s (some m)).1.sn = (match m.request with | some _ => nextSn s.sn | Option.none => s.sn) := by
  refine ⟨?_, Nat.lt_trans (nextSn_lt _) (by decide), step_sn s m⟩
  rw [step_outs, stepBase_outs]
  by_cases h1 : m.heartbeatClass = true
  · by_cases h2 : s.connected = true <;> cases m.request <;> simp [h1, h2, List.filter, Out.isAnswer]
  · by_cases h2 : m.pktType.isAck = true <;> cases m.request <;> simp [h1, h2, List.filter, Out.isAnswer]

/-- layout of the answer: `2B`, version 0, type "options", S/N, then the RRS frame
`11 | 00 80 | 00 09 | radio ip | 00 (Success) | 00 00 01 2C (300 s) | checksum | 03` -/
theorem answer_bytes (sn : Nat) (a b c d : Nat) :
    (Out.rrsAnswer sn [a, b, c, d]).bytes =
      [0x32, 0x42, 0, 0x20, sn / 256 % 256, sn % 256, 0x11, 0, 0x80, 0, 9, a, b, c, d, 0, 0, 0, 1, 0x2C,
       hdapChecksum [0, 0x80, 0, 9, a, b, c, d, 0, 0, 0, 1, 0x2C], 3] := by
  simp [Out.bytes, rrsAnswerBytes, header, be16, opAnswer]

/-- the handler's own S/N stays below 0xFFFF (`% 0xFFFF`), hence fits 16 bits, along every history -/
theorem own_sn_bounded (s : St) (h : List (Option Msg)) (hs : s.sn < 0xFFFF) : (runFrom s h).1.sn < 0xFFFF :=
  runFrom_sn_lt s h hs

theorem own_sn_bounded_init (h : List (Option Msg)) : (run h).1.sn < 0xFFFF :=
  runFrom_sn_lt init h (by decide)

/-! ## the hypotheses are satisfiable; concrete runs -/

private def mk (tb sn : Nat) (pl : Payload := .none) (opt : Bytes := []) : Option Msg :=
  some { version := 0, pktType := PktType.ofByte tb, sn := sn, optBytes := opt, payload := pl }

/-- connect, its ack (not answered), heartbeat (echoed), registration (ack + answer), ack carrying a
registration (answer only), offline, close, heartbeat (not echoed), garbage -/
example :
    (run [mk 4 0, mk 5 0, mk 2 0, mk 0x20 1 (.rrs 3 [10, 0, 0, 100]) [0x83, 4, 0, 1, 0x86, 0x9f, 4, 1, 2],
          mk 0x21 5 (.rrs 3 [10, 0, 0, 101]), mk 0x20 2 (.rrs 1 [10, 0, 0, 100]), mk 8 0, mk 2 0, Option.none]).2.map
        (fun outs => outs.map Out.bytes)
      = [[[0x32, 0x42, 0, 5, 0, 0]], [], [[0x32, 0x42, 0, 2, 0, 0]],
         [[0x32, 0x42, 0, 0x21, 0, 1, 0x83, 4, 0, 1, 0x86, 0x9f, 4, 1, 2],
          [0x32, 0x42, 0, 0x20, 0, 1, 0x11, 0, 0x80, 0, 9, 10, 0, 0, 100, 0, 0, 0, 1, 0x2C, 0x0E, 3]],
         [[0x32, 0x42, 0, 0x20, 0, 2, 0x11, 0, 0x80, 0, 9, 10, 0, 0, 101, 0, 0, 0, 1, 0x2C, 0x0D, 3]],
         [[0x32, 0x42, 0, 0x21, 0, 2]], [[0x32, 0x42, 0, 9, 0, 0]], [], []] := by decide

example : (mk 4 0).all Msg.WF = true ∧ (mk 0x20 1 (.rrs 3 [10, 0, 0, 100])).all Msg.WF = true := by decide

/-- the S/N wraps from 0xFFFE to 0 (never 0xFFFF) -/
example : nextSn 0xFFFD = 0xFFFE ∧ nextSn 0xFFFE = 0 := by decide

/-- several type bits: connect+close is a connect; heartbeat+ack is a heartbeat (echoed while
connected, never acknowledged); reject is acknowledged with the reject bit cleared -/
example :
    (step { init with connected := false } (mk 0x0C 9)).1.connected = true ∧
    (step { init with connected := true } (mk 0x03 0)).2.1 = [.heartbeat] ∧
    ((step init (mk 0x10 7)).2.1.map Out.bytes) = [[0x32, 0x42, 0, 1, 0, 7]] := by decide

end Dmr.C17
