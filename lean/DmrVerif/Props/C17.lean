import DmrVerif.Lemmas.HstrpHandler
import DmrVerif.Gen.HstrpHandler

/-!
# C17 — the HSTRP/RRS handler acknowledges each peer message exactly once, whatever the history

Property theorems only.  Model: `Model/HstrpHandler.lean` (`stepBase` = `HSTRPDatagramProtocol.
datagram_received`, `step` = `RRSDatagramProtocol.datagram_received`) over **parsed** messages: the
input of a step is the abstraction of what the real `HSTRP.from_bytes` returned for the datagram
(`none` for "returned None / raised": truncated, garbage, unknown option or service, …).  The tie to
the code is the correspondence run of `harness/props/c17.py`, which derives that abstraction from the
real parser and compares `sendto` bytes, return value, connected flag, S/N and registry.

**Configuration.**  The state carries the handler's configuration: `activePeer` (`be_active_peer`),
`port`, and `transport` (what `connection_made` stored; `none` before).  Every theorem quantifies over
the whole state, hence over every configuration — active and passive, any port — and `config_irrelevant`
/ `config_irrelevant_history` say outright that `be_active_peer` and `port` (constructor value or
re-assigned between datagrams) never influence what is sent, returned or stored.  Statements about what
is *sent* assume a transport (`s.transport.isSome`: `connection_made` was called, as asyncio guarantees
before any datagram); `no_transport_silent` / `no_transport_raises_iff` say what happens without one.
Histories may also contain `connection_lost`, `connection_made`, re-configuration and
`periodic_maintenance` iterations (`Ev`): `connected_eq_last_events`, `registry_spec_events`.

All theorems hold for **every** state and message, or every finite history (`List (Option Msg)`,
unbounded).  Message classes follow the dispatch priority of the code
(`is_connect` > `is_heartbeat` > `is_close` > `is_ack` > `is_reject` > data), which decides what a
datagram with several type bits set is:

* connect-class: the connect bit is set (whatever else is set);
* heartbeat-class: heartbeat bit, no connect bit;  close-class: close bit, neither of the former;
* "an acknowledgement": the ack bit is set and the message is not heartbeat-class (the ack of a
  connect/close carries the connect/close bit *and* the ack bit — defect repaired by ac2ad50);
* everything without ack bit that is not heartbeat-class — connect, close, data, and also a *reject* —
  is acknowledged exactly once (the code acknowledges a peer's reject through its generic rule).
-/

namespace Dmr.C17
open Dmr Dmr.HstrpHandler

/-! ## tie to the code's tables (regenerated on every run) -/

theorem header_match : header = Gen.HstrpHandler.header := by decide

/-- `PktType.byte` is `HSTRPPacketType.as_bytes` on all 64 flag combinations -/
theorem type_byte_graph :
    (List.range 64).map (fun v => (PktType.ofByte v).byte) = Gen.HstrpHandler.typeByteGraph := by
  decide +kernel

/-- `PktType.ofByte` is `HSTRPPacketType.from_bytes` on all 256 octets (the two reserved bits are dropped) -/
theorem type_parse_graph :
    (List.range 256).map (fun v => (PktType.ofByte v).byte) = Gen.HstrpHandler.typeParseGraph := by
  decide +kernel

/-- `ofByte` and `byte` are inverse on the 64 flag combinations, so the two graphs above determine both -/
theorem type_byte_roundtrip : ∀ v < 64, (PktType.ofByte v).byte = v := by decide +kernel

theorem opcodes_match :
    opRequest = Gen.HstrpHandler.opRequest ∧ opOffline = Gen.HstrpHandler.opOffline ∧
    opAnswer = Gen.HstrpHandler.opAnswer := by decide

/-- the three answers, serialised by the model, equal what the library's serialisers produce -/
theorem golden_heartbeat : Out.heartbeat.bytes = Gen.HstrpHandler.goldenHeartbeat := by decide

theorem golden_answer : (Out.rrsAnswer 0xFFFE [10, 0, 1, 200]).bytes = Gen.HstrpHandler.goldenAnswer := by
  decide

theorem golden_ack :
    (Out.ack { version := 0, pktType := PktType.ofByte 0x24, sn := 0x123,
               optBytes := [0x83, 4, 0, 1, 0x86, 0x9f, 4, 1, 2], payload := .none }).bytes
      = Gen.HstrpHandler.goldenAck := by decide

theorem golden_connect : Out.connect.bytes = [0x32, 0x42, 0, 4, 0, 0] := by decide

/-- the constructor takes `port` and `be_active_peer` (default `False`) and nothing else — the two fields
of `Cfg`; a new configuration parameter breaks this -/
theorem ctor_params_match :
    Gen.HstrpHandler.ctorParamsBase = ["port", "be_active_peer="] ∧
    Gen.HstrpHandler.ctorParamsRrs = ["port", "be_active_peer="] ∧
    ({ port := 1 } : Cfg).activePeer = Gen.HstrpHandler.defaultActivePeer := by decide

/-- the instance attributes are the fields of `St` (plus the two contact timestamps nothing reads) — a new
mode attribute breaks this -/
theorem attrs_match :
    Gen.HstrpHandler.attrsBase =
      ["transport", "hstrp_connected", "hstrp_last_contact", "hstrp_last_heartbeat", "port", "sn", "be_active_peer"] ∧
    Gen.HstrpHandler.attrsRrs = Gen.HstrpHandler.attrsBase ++ ["registry"] := by decide

/-- `init` is what `__init__` leaves, for both classes and both values of `be_active_peer` -/
theorem new_handler_match :
    ([false, true, false, true].map fun a =>
        let s := init { port := 30123, activePeer := a }
        (s.connected, s.sn, s.registry.length, s.activePeer, s.port, s.transport.isSome))
      = Gen.HstrpHandler.newHandler := by decide

/-- `tick` is one iteration of `periodic_maintenance`, for class × `be_active_peer` × connected: CONNECT to
`tickHost` while not connected, whatever `be_active_peer` is -/
theorem maintenance_match :
    ([false, true].flatMap fun (_rrs : Bool) => [false, true].flatMap fun a => [false, true].map fun c =>
        (a, c, (tick { ready { port := 30123, activePeer := a } with connected := c }).map
          fun o => (o.bytes, tickHost)))
      = Gen.HstrpHandler.maintenance := by decide

/-! ## never raises -/

/-- **never_raises (one datagram).** For every state with a transport — every configuration — and every
message `HSTRP.from_bytes` can return (`Msg.WF`: one-octet version, two-octet S/N, octet options, 4-octet
radio ip) — and for "not an HSTRP" — no `to_bytes` of an answer overflows and nothing else can raise:
the faithful outcome `stepE` is the total `step`. -/
theorem never_raises (s : St) (m : Option Msg) (ht : s.transport.isSome = true)
    (hm : ∀ x, m = some x → x.WF = true) :
    stepE s m = .ok (step s m) := stepE_ok s m ht hm

/-- the base handler guards every send: it never raises, with or without transport -/
theorem never_raises_base (s : St) (m : Option Msg) (hm : ∀ x, m = some x → x.WF = true) :
    stepBaseE s m = .ok (stepBase s m) := by
  simp only [stepBaseE, stepBase_not_raises s m hm, Bool.false_eq_true, if_false]

/-- **never_raises (histories).** The faithful run of any history of parsed datagrams, from any state
with a transport, never stops at an exception. -/
theorem never_raises_history (s : St) (h : List (Option Msg)) (ht : s.transport.isSome = true)
    (hm : ∀ x, some x ∈ h → x.WF = true) :
    runE s h = .ok (runFrom s h) := runE_ok s h ht hm

/-- the precondition is exact: on a handler that never got a transport (`connection_made` not called —
cannot happen under asyncio) the RRS handler raises exactly for the messages that carry a registration
request (`rrs_confirm` sends unguarded), after updating registry and S/N; everything else is handled
silently. -/
theorem no_transport_raises_iff (s : St) (m : Option Msg) (ht : s.transport = Option.none)
    (hm : ∀ x, m = some x → x.WF = true) :
    stepE s m = if isRequest m then .error (.noTransport (step s m).1) else .ok (step s m) := by
  simp only [stepE, raisesNoTransport, ht, Option.isNone_none, Bool.true_and, step_not_raises s m hm,
    Bool.false_eq_true, if_false]

/-- without a transport nothing is sent, and the state moves exactly as it does with one -/
theorem no_transport_silent (s : St) (m : Option Msg) (ht : s.transport = Option.none) (t : Nat) :
    (step s m).2.1 = [] ∧ (stepBase s m).2.1 = [] ∧
    (step { s with transport := some t } m).1 = { (step s m).1 with transport := some t } ∧
    (step { s with transport := some t } m).2.2 = (step s m).2.2 := by
  refine ⟨(step_outs_no_transport s m ht).1, (step_outs_no_transport s m ht).2, ?_, ?_⟩ <;>
  · cases m with
    | none => rfl
    | some m =>
      obtain ⟨v, ⟨o, r, cl, co, hb, a⟩, sn, ob, pl⟩ := m
      cases pl with
      | none => cases co <;> cases hb <;> cases cl <;> cases a <;> cases r <;> simp [step, stepBase]
      | other => cases co <;> cases hb <;> cases cl <;> cases a <;> cases r <;> simp [step, stepBase]
      | rrs op ip =>
        by_cases h1 : op = opRequest
        · cases co <;> cases hb <;> cases cl <;> cases a <;> cases r <;> simp [step, stepBase, h1]
        · by_cases h2 : op = opOffline
          · subst h2
            cases co <;> cases hb <;> cases cl <;> cases a <;> cases r <;>
              simp [step, stepBase, opOffline_ne_opRequest]
          · cases co <;> cases hb <;> cases cl <;> cases a <;> cases r <;> simp [step, stepBase, h1, h2]

/-- a datagram that is no HSTRP is ignored: no output, `(False, None)`, state unchanged -/
theorem non_hstrp_ignored (s : St) : step s Option.none = (s, [], (false, false)) := rfl

/-! ## acknowledgements -/

/-- **acks_exactly_once.** For every handler with a transport, in every configuration: every message
without the ack bit that is not heartbeat-class — connect, close, data (and reject) — is answered by
exactly one acknowledgement: the one built from this message, which carries its S/N, its version and
options, the ack bit, no reject bit and **no payload** (`bytes` ends after the options; a peer parses it
as a message with `payload = None`). -/
theorem acks_exactly_once (s : St) (m : Msg) (ht : s.transport.isSome = true)
    (hack : m.pktType.isAck = false) (hhb : m.heartbeatClass = false) :
    (step s (some m)).2.1.filter Out.isAck = [.ack m] ∧
    (stepBase s (some m)).2.1 = [.ack m] ∧
    (Out.ack m).bytes = header ++ [m.version, (ackType m.pktType).byte] ++ be16 m.sn ++ m.optBytes ∧
    (ackType m.pktType).isAck = true ∧ (ackType m.pktType).isReject = false ∧
    (Out.ack m).asMsg = some { m with pktType := ackType m.pktType, payload := .none } := by
  refine ⟨?_, ?_, rfl, rfl, rfl, rfl⟩
  · rw [step_outs, stepBase_outs, hhb, hack]
    simp only [St.send_of_some s ht]
    cases m.request <;> simp [List.filter, Out.isAck]
  · rw [stepBase_outs, hhb, hack, St.send_of_some s ht]; rfl

/-- in general: the number of acknowledgements sent for a message is 1 in the case above, 0 otherwise
(heartbeats and messages with the ack bit are never acknowledged; without a transport nothing is sent) -/
theorem acks_count (s : St) (m : Msg) :
    ((step s (some m)).2.1.filter Out.isAck).length =
      if s.transport.isSome = true ∧ m.pktType.isAck = false ∧ m.heartbeatClass = false then 1 else 0 := by
  rw [step_outs, stepBase_outs]
  cases ht : s.transport with
  | none => cases m.request <;> simp [St.send, ht]
  | some t =>
    simp only [St.send, ht, Option.isSome_some, if_true, true_and]
    by_cases h1 : m.heartbeatClass = true
    · by_cases h2 : s.connected = true <;> cases m.request <;> simp [h1, h2, List.filter, Out.isAck]
    · by_cases h2 : m.pktType.isAck = true <;> cases m.request <;> simp [h1, h2, List.filter, Out.isAck]

/-- **acks_unanswered.** A message with the ack bit that is not heartbeat-class (plain ack, ack of a
connect, ack of a close, ack+reject, …) makes the base handler send nothing; the RRS handler sends
nothing either, except the registration answer when the message carries an RRS registration request
(the registry rule below applies to every parsed message, whatever its HSTRP type). -/
theorem acks_unanswered (s : St) (m : Msg) (hack : m.pktType.isAck = true) (hhb : m.heartbeatClass = false) :
    (stepBase s (some m)).2.1 = [] ∧
    (step s (some m)).2.1 =
      (match m.request with | some ip => s.send [.rrsAnswer (nextSn s.sn) ip] | Option.none => []) := by
  constructor
  · rw [stepBase_outs, hhb, hack]; simp
  · rw [step_outs, stepBase_outs, hhb, hack]
    simp only [Bool.false_eq_true, if_false, if_true, St.send_nil, List.nil_append]
    cases m.request <;> rfl

/-- **no datagram the handler sends — other than the heartbeat echo — is answered by a peer handler**,
in whatever state the peer is: acknowledgements produce nothing, and the registration answer is not
even parsed by `HSTRP.from_bytes` (option flag without options). -/
theorem replies_unanswered (s s' : St) (m : Option Msg) (o : Out) (ho : o ∈ (step s m).2.1)
    (hne : o ≠ .heartbeat) : (step s' o.asMsg).2.1 = [] := by
  rcases mem_outs s m o ho with ⟨x, _, rfl, _, hhb⟩ | ⟨rfl, _⟩ | ⟨x, ip, _, _, rfl⟩
  · exact ack_unanswered s' x hhb
  · exact absurd rfl hne
  · rfl

/-- **two composed handlers reach quiescence.** Deliver any datagram that is not heartbeat-class to
handler A (any state) and all of A's answers to handler B (any state): B answers nothing.  So an
exchange between two handlers ends after one reply — the ping-pong of the repaired defect cannot
happen. -/
theorem pingpong_quiescent (sA sB : St) (m : Option Msg) (hm : ∀ x, m = some x → x.heartbeatClass = false) :
    (deliver sB ((step sA m).2.1.map Out.asMsg)).2 = [] := by
  have hall : ∀ o ∈ (step sA m).2.1, ∀ s', (step s' o.asMsg).2.1 = [] := by
    intro o ho s'
    apply replies_unanswered sA s' m o ho
    rintro rfl
    rcases mem_outs sA m _ ho with ⟨x, _, h, _⟩ | ⟨_, x, hx, hb, _⟩ | ⟨x, ip, _, _, h⟩
    · cases h
    · rw [hm x hx] at hb; cases hb
    · cases h
  generalize (step sA m).2.1 = outs at hall
  induction outs generalizing sB with
  | nil => rfl
  | cons o t ih =>
    rw [List.map_cons, deliver_cons, hall o List.mem_cons_self sB, List.nil_append]
    exact ih _ (fun o' ho' => hall o' (List.mem_cons_of_mem _ ho'))

/-! ## heartbeats -/

/-- **heartbeat_iff_connected.** In every configuration — `be_active_peer` true or false, any port — the
handler sends a heartbeat exactly when the message is heartbeat-class and the handler is connected (and
has a transport), and then exactly one; a heartbeat is never acknowledged. -/
theorem heartbeat_iff_connected (s : St) (m : Msg) :
    (step s (some m)).2.1.filter Out.isHeartbeat =
      (if m.heartbeatClass = true ∧ s.connected = true ∧ s.transport.isSome = true then [.heartbeat] else []) ∧
    (m.heartbeatClass = true →
      (stepBase s (some m)).2.1 = s.send (if s.connected then [.heartbeat] else [])) := by
  constructor
  · rw [step_outs, stepBase_outs]
    cases ht : s.transport with
    | none => cases m.request <;> simp [St.send, ht]
    | some t =>
      simp only [St.send, ht, Option.isSome_some, if_true, and_true]
      by_cases h1 : m.heartbeatClass = true
      · by_cases h2 : s.connected = true <;> cases m.request <;> simp [h1, h2, List.filter, Out.isHeartbeat]
      · by_cases h2 : m.pktType.isAck = true <;> cases m.request <;> simp [h1, h2, List.filter, Out.isHeartbeat]
  · intro h1
    rw [stepBase_outs, h1]; rfl

/-- the same, spelled out for a handler built with either value of `be_active_peer` and any port, with
its transport, in either link state: an active-peer handler whose link is down does **not** echo -/
theorem heartbeat_iff_connected_any_mode (c : Cfg) (t : Nat) (conn : Bool) (sn : Nat)
    (reg : List (Bytes × Bool)) (m : Msg) (hhb : m.heartbeatClass = true) :
    (step { ready c t with connected := conn, sn := sn, registry := reg } (some m)).2.1.filter Out.isHeartbeat =
      (if conn then [.heartbeat] else []) ∧
    (stepBase { ready c t with connected := conn, sn := sn, registry := reg } (some m)).2.1 =
      (if conn then [.heartbeat] else []) := by
  constructor
  · rw [(heartbeat_iff_connected _ m).1]
    cases conn <;> simp [hhb, ready, connectionMade]
  · rw [(heartbeat_iff_connected _ m).2 hhb]
    cases conn <;> simp [St.send, ready, connectionMade]

/-- the echo is by design: the heartbeat a connected handler sends is itself a heartbeat for the peer,
which echoes it while connected and does not change state — so an exchange *started by a heartbeat*
between two connected handlers of this library never ends (this is why `pingpong_quiescent` excludes
heartbeat-class datagrams; real repeaters send heartbeats on a timer and do not echo echoes). -/
theorem heartbeat_echo_is_echoed (s' : St) :
    step s' Out.heartbeat.asMsg =
      (s', s'.send (if s'.connected then [.heartbeat] else []), (true, false)) := by
  obtain ⟨c, sn, reg, a, p, t⟩ := s'
  cases c <;> rfl

/-! ## configuration -/

/-- **config_irrelevant (one datagram).** `be_active_peer` and `port` — as given to the constructor or
re-assigned later — do not influence datagram handling of either class: with other values the same
datagrams are sent, the same value is returned, the same state results (and the two attributes
themselves are left alone). -/
theorem config_irrelevant (k : Bool) (s : St) (a : Bool) (p : Nat) (m : Option Msg) :
    stepK k { s with activePeer := a, port := p } m =
      ({ (stepK k s m).1 with activePeer := a, port := p }, (stepK k s m).2) := stepK_cfg k s a p m

/-- **config_irrelevant (histories with re-configuration).** Two runs of either class whose start states
agree up to `be_active_peer` / `port` and whose event histories (datagrams, `connection_made`,
`connection_lost`, maintenance iterations, re-configurations) agree up to the *values* assigned by the
re-configurations send the same datagrams at every step and end in states that agree up to
`be_active_peer` / `port`. -/
theorem config_irrelevant_history (k : Bool) (s s' : St) (h h' : List Ev) (hs : s.core = s'.core)
    (hh : h.map Ev.core = h'.map Ev.core) :
    (runEv k s h).2 = (runEv k s' h').2 ∧ (runEv k s h).1.core = (runEv k s' h').1.core :=
  runEv_core k s s' h h' hs hh

/-- datagram handling never writes the configuration or the transport; after any event history
`be_active_peer` is the last value assigned to it (the constructor's, if none) -/
theorem config_frame (k : Bool) (s : St) (m : Option Msg) (h : List Ev) :
    (stepK k s m).1.activePeer = s.activePeer ∧ (stepK k s m).1.port = s.port ∧
    (stepK k s m).1.transport = s.transport ∧
    (runEv k s h).1.activePeer = ((h.filterMap activeEv).getLast?).getD s.activePeer := by
  refine ⟨?_, ?_, ?_, runEv_active k s h⟩ <;> cases k <;>
    simp [stepK, stepBase_frame s m, step_frame s m]

/-- `periodic_maintenance`, one iteration: a CONNECT (S/N 0) while not connected — for the active and the
passive peer alike — nothing while connected, state untouched; a peer handler acknowledges that CONNECT
once and the acknowledgement, delivered back, is not answered. -/
theorem maintenance_spec (k : Bool) (s s' : St) (ht : s.transport.isSome = true) (ht' : s'.transport.isSome = true) :
    (applyEv k s .tick).1 = s ∧
    (applyEv k s .tick).2 = (if s.connected then [] else [.connect]) ∧
    (step s' Out.connect.asMsg).2.1.filter Out.isAck = (step s' Out.connect.asMsg).2.1 ∧
    ((step s' Out.connect.asMsg).2.1.filter Out.isAck).length = 1 ∧
    (∀ o ∈ (step s' Out.connect.asMsg).2.1, (step (applyEv k s .tick).1 o.asMsg).2.1 = []) := by
  have hout : (step s' Out.connect.asMsg).2.1 =
      [.ack { version := 0, pktType := PktType.ofByte 4, sn := 0, optBytes := [], payload := .none }] := by
    simp only [Out.asMsg]
    rw [step_outs, stepBase_outs, St.send_of_some s' ht']
    rfl
  refine ⟨rfl, ?_, ?_, ?_, ?_⟩
  · simp only [applyEv, tick, St.send_of_some s ht]
  · rw [hout]; rfl
  · rw [hout]; rfl
  · intro o ho
    rw [hout, List.mem_singleton] at ho
    subst ho
    exact ack_unanswered _ _ rfl

/-! ## connected flag -/

/-- **connected_eq_last.** After any history from any state (any configuration) the connected flag is
`true` iff the last connect-class or close-class message seen was connect-class; with none seen it is
the initial value (`false` for a new handler). -/
theorem connected_eq_last (s : St) (h : List (Option Msg)) :
    (runFrom s h).1.connected = ((h.filterMap ccOf).getLast?).getD s.connected :=
  runFrom_connected s h

theorem connected_eq_last_init (c : Cfg) (h : List (Option Msg)) :
    (run c h).1.connected = ((h.filterMap ccOf).getLast?).getD false :=
  runFrom_connected (ready c) h

/-- **connected_eq_last (event histories, both classes).** With `connection_lost`, `connection_made`,
re-configuration and maintenance iterations between the datagrams: `connection_lost` counts as a close,
nothing else touches the flag — a handler that is re-used after `connection_lost` / `connection_made`
starts from "not connected" and follows the datagrams again. -/
theorem connected_eq_last_events (k : Bool) (s : St) (h : List Ev) :
    (runEv k s h).1.connected = ((h.filterMap ccEv).getLast?).getD s.connected :=
  runEv_connected k s h

/-! ## registry and registration answers -/

/-- **registry_spec.** After any history the registry holds for every radio address the state of that
radio's last registration request (`Online` = `true`) or going-offline message (`Offline` = `false`) in
the history — carried by a parsed message of any HSTRP type — and otherwise what it held before
(nothing, for a new handler). -/
theorem registry_spec (s : St) (h : List (Option Msg)) (ip : Bytes) :
    Storage.dictGet (runFrom s h).1.registry ip =
      (match lastReg ip h with | some b => some b | Option.none => Storage.dictGet s.registry ip) :=
  runFrom_registry s h ip

theorem registry_spec_init (c : Cfg) (h : List (Option Msg)) (ip : Bytes) :
    Storage.dictGet (run c h).1.registry ip = lastReg ip h := by
  have := runFrom_registry (ready c) h ip
  rw [run, this]
  cases lastReg ip h <;> rfl

/-- **registry_spec (event histories).** `connection_lost`, `connection_made`, re-configuration and
maintenance iterations leave registry and S/N alone: after an event history the RRS handler's registry is
the one implied by the datagrams of the history, and the base handler's never changes. -/
theorem registry_spec_events (s : St) (h : List Ev) (ip : Bytes) :
    Storage.dictGet (runEv true s h).1.registry ip =
      (match lastReg ip (h.filterMap rxOf) with
       | some b => some b | Option.none => Storage.dictGet s.registry ip) ∧
    (runEv false s h).1.registry = s.registry ∧ (runEv false s h).1.sn = s.sn := by
  refine ⟨?_, (runEv_base_registry_sn s h).1, (runEv_base_registry_sn s h).2⟩
  rw [(runEv_registry_sn s h).1]
  exact runFrom_registry s _ ip

/-- **answer_sn_lt_2_16.** Every registration request is answered by exactly one registration answer —
result Success, renewal 300 s, the radio address of the request — whose S/N is the handler's
incremented counter and fits 16 bits; nothing else triggers a registration answer, and the counter only
moves with an answer. -/
theorem registration_answered_once (s : St) (m : Msg) :
    (step s (some m)).2.1.filter Out.isAnswer =
      (match m.request with | some ip => s.send [.rrsAnswer (nextSn s.sn) ip] | Option.none => []) ∧
    nextSn s.sn < 65536 ∧
    (step s (some m)).1.sn = (match m.request with | some _ => nextSn s.sn | Option.none => s.sn) := by
  refine ⟨?_, Nat.lt_trans (nextSn_lt _) (by decide), step_sn s m⟩
  rw [step_outs, stepBase_outs]
  cases ht : s.transport with
  | none => cases m.request <;> simp [St.send, ht]
  | some t =>
    simp only [St.send, ht, Option.isSome_some, if_true]
    by_cases h1 : m.heartbeatClass = true
    · by_cases h2 : s.connected = true <;> cases m.request <;> simp [h1, h2, List.filter, Out.isAnswer]
    · by_cases h2 : m.pktType.isAck = true <;> cases m.request <;> simp [h1, h2, List.filter, Out.isAnswer]

/-- layout of the answer: `2B`, version 0, type "options", S/N, then the RRS frame
`11 | 00 80 | 00 09 | radio ip | 00 (Success) | 00 00 01 2C (300 s) | checksum | 03` -/
theorem answer_bytes (sn : Nat) (a b c d : Nat) :
    (Out.rrsAnswer sn [a, b, c, d]).bytes =
      [0x32, 0x42, 0, 0x20, sn / 256 % 256, sn % 256, 0x11, 0, 0x80, 0, 9, a, b, c, d, 0, 0, 0, 1, 0x2C,
       hdapChecksum [0, 0x80, 0, 9, a, b, c, d, 0, 0, 0, 1, 0x2C], 3] := by
  simp [Out.bytes, rrsAnswerBytes, header, be16, opAnswer]

/-- the handler's own S/N stays below 0xFFFF (`% 0xFFFF`), hence fits 16 bits, along every history -/
theorem own_sn_bounded (s : St) (h : List (Option Msg)) (hs : s.sn < 0xFFFF) : (runFrom s h).1.sn < 0xFFFF :=
  runFrom_sn_lt s h hs

theorem own_sn_bounded_init (c : Cfg) (h : List (Option Msg)) : (run c h).1.sn < 0xFFFF :=
  runFrom_sn_lt (ready c) h (by show (0 : Nat) < 0xFFFF; decide)

/-! ## the hypotheses are satisfiable; concrete runs -/

private def mk (tb sn : Nat) (pl : Payload := .none) (opt : Bytes := []) : Option Msg :=
  some { version := 0, pktType := PktType.ofByte tb, sn := sn, optBytes := opt, payload := pl }

/-- connect, its ack (not answered), heartbeat (echoed), registration (ack + answer), ack carrying a
registration (answer only), offline, close, heartbeat (not echoed), garbage -/
example :
    (run { port := 30001, activePeer := true } [mk 4 0, mk 5 0, mk 2 0, mk 0x20 1 (.rrs 3 [10, 0, 0, 100]) [0x83, 4, 0, 1, 0x86, 0x9f, 4, 1, 2],
          mk 0x21 5 (.rrs 3 [10, 0, 0, 101]), mk 0x20 2 (.rrs 1 [10, 0, 0, 100]), mk 8 0, mk 2 0, Option.none]).2.map
        (fun outs => outs.map Out.bytes)
      = [[[0x32, 0x42, 0, 5, 0, 0]], [], [[0x32, 0x42, 0, 2, 0, 0]],
         [[0x32, 0x42, 0, 0x21, 0, 1, 0x83, 4, 0, 1, 0x86, 0x9f, 4, 1, 2],
          [0x32, 0x42, 0, 0x20, 0, 1, 0x11, 0, 0x80, 0, 9, 10, 0, 0, 100, 0, 0, 0, 1, 0x2C, 0x0E, 3]],
         [[0x32, 0x42, 0, 0x20, 0, 2, 0x11, 0, 0x80, 0, 9, 10, 0, 0, 101, 0, 0, 0, 1, 0x2C, 0x0D, 3]],
         [[0x32, 0x42, 0, 0x21, 0, 2]], [[0x32, 0x42, 0, 9, 0, 0]], [], []] := by decide

example : (mk 4 0).all Msg.WF = true ∧ (mk 0x20 1 (.rrs 3 [10, 0, 0, 100])).all Msg.WF = true := by decide

/-- the S/N wraps from 0xFFFE to 0 (never 0xFFFF) -/
example : nextSn 0xFFFD = 0xFFFE ∧ nextSn 0xFFFE = 0 := by decide

/-- several type bits: connect+close is a connect; heartbeat+ack is a heartbeat (echoed while
connected, never acknowledged); reject is acknowledged with the reject bit cleared -/
example :
    (step { ready { port := 1 } with connected := false } (mk 0x0C 9)).1.connected = true ∧
    (step { ready { port := 1 } with connected := true } (mk 0x03 0)).2.1 = [.heartbeat] ∧
    ((step (ready { port := 1 }) (mk 0x10 7)).2.1.map Out.bytes) = [[0x32, 0x42, 0, 1, 0, 7]] := by decide

/-- the missed class, concretely: a handler built with `be_active_peer=True` whose link is down does not
echo a heartbeat; after a connect it does; after `connection_lost` it does not again -/
example :
    (runEv true (ready { port := 30001, activePeer := true }) [.rx (mk 2 0), .rx (mk 4 0), .rx (mk 2 0), .lost, .rx (mk 2 0),
        .setActive false, .rx (mk 2 0), .tick]).2
      = [[], [.ack { version := 0, pktType := PktType.ofByte 4, sn := 0, optBytes := [], payload := .none }],
         [.heartbeat], [], [], [], [], [.connect]] := by decide

/-- a handler that never got a transport: silent, and a registration request raises after the update -/
example :
    (step (init { port := 1 }) (mk 4 0)).2.1 = [] ∧ (step (init { port := 1 }) (mk 4 0)).1.connected = true ∧
    stepE (init { port := 1 }) (mk 0x20 1 (.rrs 3 [10, 0, 0, 100])) =
      .error (.noTransport { init { port := 1 } with sn := 1, registry := [([10, 0, 0, 100], true)] }) :=
  ⟨by decide, by decide, by rfl⟩

end Dmr.C17
