import DmrVerif.Model.Tms
import DmrVerif.Model.Ars

namespace Dmr.C16

theorem placeholder : True := trivial

end Dmr.C16
