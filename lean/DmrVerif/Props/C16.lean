import DmrVerif.Lemmas.Tms
import DmrVerif.Lemmas.Ars

/-!
# C16 — Motorola TMS and ARS messages keep length framing and fields over a round trip

Property theorems only.  The models are `Model/Tms.lean` / `Model/Ars.lean` (line-by-line models of
`text_messaging_service.py` / `automatic_registration_service.py`, tied to the code by the
correspondence run); the enumeration values and `Enum(v)` lookups are the ones `tools/extract_tms.py`
read from `/repo` on this run (`Gen/Tms.lean`, `Gen/Ars.lean`).  The range predicates `wf`, the normal
forms `norm` and all lemmas are in `Lemmas/Tms.lean`, `Lemmas/Ars.lean`.

For both protocols:
* `…_len_prefix`   the leading 16-bit length equals the number of octets that follow — for *every*
                   message that serialises at all, not only the ones in range;
* `…_serialises`   every message in the property's range serialises (no exception);
* `…_dec_enc`      `from_bytes (as_bytes p) = ok (norm p)`;
* `…_norm_fields`  what `norm` can change, field by field (everything else is preserved);
* `…_reencode`     `as_bytes (norm p) = as_bytes p`, and `…_enc_dec_enc`: `as_bytes ∘ from_bytes ∘ as_bytes
                   = as_bytes`.
* `ars_trailer_sites` … `ars_straddle_device_user`: where the trailer octets `10 80` can occur across item
                   boundaries of a serialised registration, and the round trip on exactly those messages.
* `ars_nested_lv_device`, `ars_interleaved_nul_valid`: values that read as another structure of the protocol
                   (an identifier that is its own length-value form, whose length octet equals a header) or as
                   text in another encoding (ASCII separated by NULs) are identifiers like any other.
Text, addresses and identifiers are opaque octet strings; Python's UTF-8 / UTF-16-LE codecs are
trusted (identifiers are assumed to be what `str.encode("utf-8")` yields: well-formed UTF-8).
-/

namespace Dmr.C16
open Dmr

/-! ## TMS (text messaging service) -/

/-- the model's constructors cover the enumerations of this run's source tree -/
theorem tms_tables : Gen.Tms.pduTypeCount = 3 ∧ Gen.Tms.encodingCount = 2 :=
  ⟨Tms.ptype_count, Tms.enc_count⟩

/-- the leading length is the number of octets that follow (any message that serialises) -/
theorem tms_len_prefix (p : Tms.Msg) (bs : Bytes) (h : Tms.asBytes p = .ok bs) :
    2 ≤ bs.length ∧ Tms.be (bs.take 2) = bs.length - 2 := by
  obtain ⟨more, b, hb, -, -, -, -, rfl⟩ := Tms.asBytes_shape p bs h
  refine ⟨by simp, ?_⟩
  simp [Tms.be]; omega

/-- every message in range serialises -/
theorem tms_serialises (p : Tms.Msg) (h : Tms.wf p = true) : ∃ bs, Tms.asBytes p = .ok bs :=
  Tms.asBytes_total p h

/-- parsing the serialisation gives the fields back (normal form `Tms.norm`) -/
theorem tms_dec_enc (p : Tms.Msg) (h : Tms.wf p = true) (bs : Bytes) (hb : Tms.asBytes p = .ok bs) :
    Tms.fromBytes bs = .ok (Tms.norm p) :=
  Tms.dec_enc p h bs hb

/-- what the normal form preserves: address, acknowledged flag, PDU type; the capability of an
availability message; the sequence number of acknowledgements and text messages; the text; the
encoding up to `UNDEFINED ≡ None` (`hasEnc` is "encoding is UCS2_LE").  `has_more_headers` and the
reserved bit are the values the encoder writes. -/
theorem tms_norm_fields (p : Tms.Msg) :
    (Tms.norm p).address = p.address ∧ (Tms.norm p).header.ack = p.header.ack ∧
    (Tms.norm p).header.ptype = p.header.ptype ∧
    (Tms.norm p).header.reserved = (p.header.reserved || p.header.ptype == .text) ∧
    (p.header.ptype = .availability →
      (Tms.norm p).capability = p.capability ∧ (Tms.norm p).header.more = p.capability.isSome) ∧
    (p.header.ptype = .ack →
      (Tms.norm p).seq = p.seq ∧ (Tms.norm p).header.more = p.seq.isSome ∧
      Tms.hasEnc (Tms.norm p).encoding = Tms.hasEnc p.encoding) ∧
    (p.header.ptype = .text →
      (Tms.norm p).seq = p.seq ∧ (Tms.norm p).message = p.message ∧ (Tms.norm p).header.more = true ∧
      Tms.hasEnc (Tms.norm p).encoding = Tms.hasEnc p.encoding) := by
  obtain ⟨⟨hm, ha, hr, t⟩, addr, cap, seq, enc, msg⟩ := p
  cases t <;> simp [Tms.norm, Tms.hasEnc_normEnc]

theorem tms_norm_idem (p : Tms.Msg) : Tms.norm (Tms.norm p) = Tms.norm p := Tms.norm_idem p

theorem tms_norm_wf (p : Tms.Msg) (h : Tms.wf p = true) : Tms.wf (Tms.norm p) = true := Tms.wf_norm p h

/-- the normal form serialises to the same octets -/
theorem tms_reencode (p : Tms.Msg) (h : Tms.wf p = true) : Tms.asBytes (Tms.norm p) = Tms.asBytes p :=
  Tms.reencode p h

/-- serialise, parse, serialise again: the same octets -/
theorem tms_enc_dec_enc (p : Tms.Msg) (h : Tms.wf p = true) (bs : Bytes) (hb : Tms.asBytes p = .ok bs) :
    ∃ q, Tms.fromBytes bs = .ok q ∧ Tms.asBytes q = .ok bs :=
  ⟨Tms.norm p, Tms.dec_enc p h bs hb, by rw [Tms.reencode p h, hb]⟩

/-- the optional header: sequence numbers 0..31 without encoding take one octet, everything else two
(5 low bits + 2 high bits); the decoder inverts the split whatever follows -/
theorem tms_sn_roundtrip (sn : Nat) (enc : Option Tms.Encoding) (h : sn ≤ 127) (rest : Bytes) :
    ∃ bs, Tms.encodeSn (some sn) enc = .ok bs ∧
      bs.length = (if sn > 31 ∨ Tms.hasEnc enc = true then 2 else 1) ∧
      Tms.decodeSn (bs ++ rest) 0 = .ok (bs.length, sn, Tms.normEnc enc) := by
  exact Tms.sn_roundtrip sn enc h rest

/-- the hypotheses are satisfiable by non-trivial values: the captured text message of the test-suite
("ahoj", sequence number 85, address 01) is in range and serialises to the captured octets; an
acknowledgement of sequence number 0 keeps its optional header (repaired defect 25ab0e1) -/
def exText : Tms.Msg := ⟨⟨false, true, false, .text⟩, [1], none, some 85, some .ucs2le,
  some [0x61, 0, 0x68, 0, 0x6F, 0, 0x6A, 0]⟩

example : Tms.wf exText = true ∧
    Tms.asBytes exText = .ok [0x00, 0x0D, 0xE0, 0x01, 0x01, 0x95, 0x44, 0x61, 0, 0x68, 0, 0x6F, 0, 0x6A, 0] :=
  ⟨by decide, by rfl⟩

def exAck0 : Tms.Msg := ⟨⟨false, false, false, .ack⟩, [], none, some 0, none, none⟩

example : Tms.wf exAck0 = true ∧ Tms.asBytes exAck0 = .ok [0, 3, 0x9F, 0, 0] ∧
    Tms.fromBytes [0, 3, 0x9F, 0, 0] = .ok (Tms.norm exAck0) ∧ (Tms.norm exAck0).seq = some 0 :=
  ⟨by decide, by rfl, by rfl, by rfl⟩

/-! ### text and address are opaque (hardening: special leading / trailing characters)

`tms_dec_enc` + `tms_norm_fields` already imply it; stated on its own because it is the statement a
change such as "drop a leading CR LF", "strip trailing NULs", "skip a byte-order mark" contradicts:
whatever octets the text or the address starts with, ends with or contains, they come back exactly. -/

theorem tms_text_exact (p : Tms.Msg) (h : Tms.wf p = true) (ht : p.header.ptype = .text) (bs : Bytes)
    (hb : Tms.asBytes p = .ok bs) :
    ∃ q, Tms.fromBytes bs = .ok q ∧ q.message = p.message ∧ q.address = p.address ∧ q.seq = p.seq ∧
      Tms.hasEnc q.encoding = Tms.hasEnc p.encoding := by
  have hf := tms_norm_fields p
  obtain ⟨h1, h2, h3, h4⟩ := hf.2.2.2.2.2.2 ht
  exact ⟨Tms.norm p, Tms.dec_enc p h bs hb, h2, hf.1, h1, h4⟩

theorem tms_address_exact (p : Tms.Msg) (h : Tms.wf p = true) (bs : Bytes) (hb : Tms.asBytes p = .ok bs) :
    ∃ q, Tms.fromBytes bs = .ok q ∧ q.address = p.address :=
  ⟨Tms.norm p, Tms.dec_enc p h bs hb, (tms_norm_fields p).1⟩

/-- a token `tok` in front of, inside (`pre`, `post`) or behind a text keeps the message in range (the
range does not look at the content) and comes back as the same octets, for every encoding -/
theorem tms_text_decorated (hd : Tms.FirstHeader) (addr pre tok post : Bytes) (sn : Nat) (enc : Option Tms.Encoding)
    (ht : hd.ptype = .text) (ha : addr.length ≤ 255) (hs : sn ≤ 127) (hl : (pre ++ tok ++ post).length ≤ 65000) :
    ∃ bs q, Tms.asBytes ⟨hd, addr, none, some sn, enc, some (pre ++ tok ++ post)⟩ = .ok bs ∧
      Tms.fromBytes bs = .ok q ∧ q.message = some (pre ++ tok ++ post) := by
  have hwf : Tms.wf ⟨hd, addr, none, some sn, enc, some (pre ++ tok ++ post)⟩ = true := by
    simp only [Tms.wf, ht, Bool.and_eq_true, decide_eq_true_eq]
    exact ⟨ha, hs, hl⟩
  obtain ⟨bs, hb⟩ := Tms.asBytes_total _ hwf
  obtain ⟨q, hq, hm, -⟩ := tms_text_exact _ hwf ht bs hb
  exact ⟨bs, q, hb, hq, hm⟩

/-- kernel-checked instances: the UCS-2 text CR LF + "a" under UCS2_LE (the input of seeded change C16-C), a
text that is only a byte-order mark, a text ending in NULs, a text equal to the CSBK trailer octets -/
def exCrLf : Tms.Msg := ⟨⟨false, false, false, .text⟩, [], none, some 5, some .ucs2le, some [0x0D, 0, 0x0A, 0, 0x61, 0]⟩

example : Tms.wf exCrLf = true ∧ Tms.asBytes exCrLf = .ok [0, 0x0A, 0xA0, 0, 0x85, 0x04, 0x0D, 0, 0x0A, 0, 0x61, 0] ∧
    Tms.fromBytes [0, 0x0A, 0xA0, 0, 0x85, 0x04, 0x0D, 0, 0x0A, 0, 0x61, 0] = .ok (Tms.norm exCrLf) ∧
    (Tms.norm exCrLf).message = some [0x0D, 0, 0x0A, 0, 0x61, 0] :=
  ⟨by decide, by rfl, by rfl, by rfl⟩

example : ∀ m ∈ ([[0xFF, 0xFE], [0x61, 0, 0, 0, 0, 0], [0x10, 0x80], [0x00, 0xD8]] : List Bytes),
    ∀ enc ∈ [none, some Tms.Encoding.undefined, some Tms.Encoding.ucs2le],
      (Tms.asBytes ⟨⟨false, true, false, .text⟩, [1], none, some 85, enc, some m⟩).toOption.bind
        (fun bs => (Tms.fromBytes bs).toOption.map (·.message)) = some (some m) := by decide

/-! ## ARS (automatic registration service) -/

theorem ars_tables : Gen.Ars.pduTypeCount = 7 ∧ Gen.Ars.eventCount = 3 ∧ Gen.Ars.encodingCount = 1 ∧
    Gen.Ars.failureCount = 4 ∧ Gen.Ars.csbkEnd = [0x10, 0x80] :=
  ⟨Ars.ptype_count, Ars.event_count, Ars.enc_count, Ars.failure_count, Ars.csbk_val⟩

/-- the leading length is the number of octets that follow (any message that serialises, with or
without the CSBK trailer) -/
theorem ars_len_prefix (p : Ars.Msg) (bs : Bytes) (h : Ars.asBytes p = .ok bs) :
    2 ≤ bs.length ∧ Tms.be (bs.take 2) = bs.length - 2 := by
  obtain ⟨hb, b, -, -, -, rfl⟩ := Ars.asBytes_shape p bs h
  refine ⟨by simp, ?_⟩
  simp [Tms.be]; omega

theorem ars_serialises (p : Ars.Msg) (h : Ars.wf p = true) : ∃ bs, Ars.asBytes p = .ok bs :=
  Ars.asBytes_total p h

/-- parsing the serialisation gives the fields back (normal form `Ars.norm`); in particular the CSBK
trailer is detected exactly when it was written -/
theorem ars_dec_enc (p : Ars.Msg) (h : Ars.wf p = true) (bs : Bytes) (hb : Ars.asBytes p = .ok bs) :
    Ars.fromBytes bs = .ok (Ars.norm p) :=
  Ars.dec_enc p h bs hb

/-- what the normal form preserves: the whole first header (four flags and type) and the CSBK flag;
in registration requests the three identifiers up to `None ≡ ""` and the registration header when
`has_more_headers` is set; in acknowledgements with `has_more_headers` the failure reason (failure =
acknowledged flag set) respectively the refresh time (success) -/
theorem ars_norm_fields (p : Ars.Msg) (h : Ars.wf p = true) :
    (Ars.norm p).header = p.header ∧ (Ars.norm p).csbk = p.csbk ∧
    (p.header.ptype.isReg = true →
      ((Ars.norm p).device.getD [] = p.device.getD [] ∧ (Ars.norm p).user.getD [] = p.user.getD [] ∧
       (Ars.norm p).password.getD [] = p.password.getD []) ∧
      (p.header.more = true → (Ars.norm p).rrh = p.rrh)) ∧
    (p.header.ptype = .response → p.header.more = true →
      ∃ r r', p.rsh = some r ∧ (Ars.norm p).rsh = some r' ∧ r'.ctx = some p.header.ack ∧
        (p.header.ack = true → r'.failure = r.failure) ∧
        (p.header.ack = false → r'.refresh = r.refresh)) := by
  obtain ⟨⟨hm, ha, hp, hc, t⟩, rrh, rsh, dev, user, pw, csbk⟩ := p
  cases t <;> simp [Ars.norm, Ars.PduType.isReg, Ars.normId]
  · intro hm'; simp [hm']
  · intro hm'; simp [hm']
  · intro hm'
    subst hm'
    cases rsh with
    | none => simp [Ars.wf] at h
    | some r =>
      have hr : Ars.okRsh ha r = true := by simpa [Ars.wf] using h
      obtain ⟨f, rt, c⟩ := r
      simp only [Ars.okRsh, Bool.and_eq_true, beq_iff_eq] at hr
      obtain ⟨hc', hr⟩ := hr
      cases ha with
      | true =>
        cases f with
        | none => simp at hr
        | some f => simp [Ars.normRsh]
      | false =>
        cases rt with
        | none => simp at hr
        | some rt => simp [Ars.normRsh]

theorem ars_norm_idem (p : Ars.Msg) : Ars.norm (Ars.norm p) = Ars.norm p := Ars.norm_idem p

theorem ars_norm_wf (p : Ars.Msg) (h : Ars.wf p = true) : Ars.wf (Ars.norm p) = true := Ars.wf_norm p h

/-- the normal form serialises to the same octets -/
theorem ars_reencode (p : Ars.Msg) (h : Ars.wf p = true) : Ars.asBytes (Ars.norm p) = Ars.asBytes p :=
  Ars.reencode p h

/-- serialise, parse, serialise again: the same octets -/
theorem ars_enc_dec_enc (p : Ars.Msg) (h : Ars.wf p = true) (bs : Bytes) (hb : Ars.asBytes p = .ok bs) :
    ∃ q, Ars.fromBytes bs = .ok q ∧ Ars.asBytes q = .ok bs :=
  ⟨Ars.norm p, Ars.dec_enc p h bs hb, by rw [Ars.reencode p h, hb]⟩

/-- why the trailer test cannot misfire on identifiers: well-formed UTF-8 never ends in `10 80` -/
theorem ars_utf8_no_trailer (pre : Bytes) : Ars.validUtf8 (pre ++ [0x10, 0x80]) = false := by
  cases h : Ars.validUtf8 (pre ++ [0x10, 0x80])
  · rfl
  · exact (Ars.valid_not_csbk pre h).elim

/-- the hypotheses are satisfiable by non-trivial values: the captured device registration and the
captured CSBK acknowledgement of the test-suite, and a success acknowledgement with refresh time 127
and trailer -/
def exDevReg : Ars.Msg := ⟨⟨true, true, true, true, .devReg⟩, some ⟨.initial, .utf8⟩, none,
  some [0x31, 0x31], some [], none, false⟩

example : Ars.wf exDevReg = true ∧
    Ars.asBytes exDevReg = .ok [0x00, 0x07, 0xF0, 0x20, 0x02, 0x31, 0x31, 0x00, 0x00] :=
  ⟨by decide, by rfl⟩

def exCsbk : Ars.Msg := ⟨⟨false, false, true, true, .response⟩, none, none, none, none, none, true⟩

example : Ars.wf exCsbk = true ∧ Ars.asBytes exCsbk = .ok [0x00, 0x03, 0x3F, 0x10, 0x80] :=
  ⟨by decide, by rfl⟩

def exRefresh : Ars.Msg := ⟨⟨true, false, true, true, .response⟩, none,
  some ⟨none, some 127, some false⟩, none, none, none, true⟩

example : Ars.wf exRefresh = true ∧ Ars.asBytes exRefresh = .ok [0x00, 0x04, 0xBF, 0x7F, 0x10, 0x80] ∧
    Ars.fromBytes [0x00, 0x04, 0xBF, 0x7F, 0x10, 0x80] = .ok (Ars.norm exRefresh) :=
  ⟨by decide, by rfl, by rfl⟩

/-! ### identifiers and password are opaque (hardening: special leading / trailing characters) -/

/-- the three identifiers come back as exactly the octets they were built from (`None ≡ ""`) -/
theorem ars_ids_exact (p : Ars.Msg) (h : Ars.wf p = true) (ht : p.header.ptype.isReg = true) (bs : Bytes)
    (hb : Ars.asBytes p = .ok bs) :
    ∃ q, Ars.fromBytes bs = .ok q ∧ q.device.getD [] = p.device.getD [] ∧ q.user.getD [] = p.user.getD [] ∧
      q.password.getD [] = p.password.getD [] ∧ q.csbk = p.csbk := by
  have hf := ars_norm_fields p h
  obtain ⟨⟨h1, h2, h3⟩, -⟩ := hf.2.2.1 ht
  exact ⟨Ars.norm p, Ars.dec_enc p h bs hb, h1, h2, h3, hf.2.1⟩

/-- a well-formed token (`Ars.specialTokens`: byte-order mark, CR LF, NUL, … all well-formed by `decide`)
in front of, inside or behind a well-formed value stays in range up to 255 octets -/
theorem ars_id_decorated (pre tok post : Bytes) (h1 : Ars.validUtf8 pre = true) (h2 : Ars.validUtf8 tok = true)
    (h3 : Ars.validUtf8 post = true) (hl : pre.length + tok.length + post.length ≤ 255) :
    Ars.okId (some (pre ++ tok ++ post)) = true :=
  Ars.okId_decorate pre tok post h1 h2 h3 hl

theorem ars_special_tokens : Ars.specialTokens.all Ars.validUtf8 = true := Ars.specialTokens_valid

/-- kernel-checked instance: device identifier U+FEFF "2001" (the input of seeded change C16-D), user
identifier CR LF, password NUL NUL, with registration header and CSBK trailer -/
def exBom : Ars.Msg := ⟨⟨true, false, false, false, .devReg⟩, some ⟨.initial, .utf8⟩, none,
  some [0xEF, 0xBB, 0xBF, 0x32, 0x30, 0x30, 0x31], some [0x0D, 0x0A], some [0, 0], true⟩

example : Ars.wf exBom = true ∧
    Ars.asBytes exBom = .ok [0, 18, 0x80, 0x20, 7, 0xEF, 0xBB, 0xBF, 0x32, 0x30, 0x30, 0x31, 2, 0x0D, 0x0A, 2, 0, 0, 0x10, 0x80] ∧
    Ars.fromBytes [0, 18, 0x80, 0x20, 7, 0xEF, 0xBB, 0xBF, 0x32, 0x30, 0x30, 0x31, 2, 0x0D, 0x0A, 2, 0, 0, 0x10, 0x80]
      = .ok exBom :=
  ⟨by decide, by rfl, by rfl⟩

theorem ars_norm_csbk (p : Ars.Msg) : (Ars.norm p).csbk = p.csbk := by
  obtain ⟨⟨hm, ha, hp, hc, t⟩, rrh, rsh, dev, user, pw, csbk⟩ := p
  cases t <;> rfl

/-! ### the trailer octets `10 80` across a field boundary (hardening: a protocol constant straddling two items)

`ars_utf8_no_trailer` excludes `10 80` at the END of a field.  The octets do occur INSIDE serialised
registration requests, formed by two neighbouring items: an identifier ending in U+0010 followed by a
field of exactly 128 octets.  A serialiser that "does not emit the trailer twice" or a parser that looks
for the trailer anywhere behind the header (seeded changes C16-F, C16-E) is wrong exactly there. -/

/-- general form: for an ASCII octet `a` and a continuation octet `b` (0x80..0xBF) the pair `a b` never lies
inside an identifier; in the part of a registration request in front of the trailer (length prefix `hi lo`,
header octet, optional registration header `r`, three len-value fields) it can only be formed at an item
boundary: inside the length prefix, length prefix + header, header + next octet, registration header +
device length, last octet of the device item + user length, last octet of the user item + password length
(`lastOf v` is the last octet of `v`, or the length octet 0 of an empty field) -/
theorem ars_front_pairs (a b : Nat) (ha : a < 0x80) (hb : Ars.isCont b = true) (r d u w : Bytes)
    (hi lo hbyte : Nat) (hr : r.length ≤ 1) (vd : Ars.validUtf8 d = true) (vu : Ars.validUtf8 u = true)
    (vw : Ars.validUtf8 w = true) :
    Ars.hasPair a b (hi :: lo :: hbyte :: (r ++ (d.length :: d) ++ (u.length :: u) ++ (w.length :: w)))
      = ((hi == a && lo == b) || (lo == a && hbyte == b)
          || (hbyte == a && (r ++ [d.length]).head? == some b)
          || (r.getLast? == some a && d.length == b)
          || (Ars.lastOf d == a && u.length == b) || (Ars.lastOf u == a && w.length == b)) :=
  Ars.reg_front_pairs a b ha hb r d u w hi lo hbyte hr vd vu vw

/-- where exactly `10 80` occurs in a serialised registration request, the trailer itself set aside
(`front` = everything in front of the trailer): (1) low octet of the length prefix 0x10 + header octet 0x80
(has_more_headers only, device registration), (2) header octet 0x10 (control flag only, device
registration, no registration header) + device identifier of 128 octets, (3) device identifier ending in
U+0010 + user identifier of 128 octets, (4) user identifier ending in U+0010 + password of 128 octets —
and nowhere else -/
theorem ars_trailer_sites (p : Ars.Msg) (h : Ars.wf p = true) (ht : p.header.ptype.isReg = true) (bs : Bytes)
    (hb : Ars.asBytes p = .ok bs) :
    ∃ hbyte front, Ars.headerByte p.header = .ok hbyte ∧ bs = front ++ Ars.trailer p ∧
      (Ars.hasPair 0x10 0x80 front = true ↔
        ((bs.length - 2) % 256 = 0x10 ∧ hbyte = 0x80) ∨
        (hbyte = 0x10 ∧ (p.device.getD []).length = 0x80) ∨
        ((p.device.getD []).getLast? = some 0x10 ∧ (p.user.getD []).length = 0x80) ∨
        ((p.user.getD []).getLast? = some 0x10 ∧ (p.password.getD []).length = 0x80)) :=
  Ars.reg_trailer_sites p h ht bs hb

/-- query, de-registration and acknowledgement messages: `10 80` occurs nowhere but as the trailer -/
theorem ars_trailer_sites_other (p : Ars.Msg) (h : Ars.wf p = true) (ht : p.header.ptype.isReg = false)
    (bs : Bytes) (hb : Ars.asBytes p = .ok bs) :
    ∃ front, bs = front ++ Ars.trailer p ∧ Ars.hasPair 0x10 0x80 front = false :=
  Ars.other_trailer_sites p h ht bs hb

/-- the instance of `ars_dec_enc` / `ars_reencode` on exactly those messages: with `10 80` present in front
of the trailer position (any of the four sites), with or without the real trailer, parsing gives the
normal form, the CSBK flag is the one the message was built with, and re-serialising gives the same octets -/
theorem ars_straddle_roundtrip (p : Ars.Msg) (h : Ars.wf p = true) (ht : p.header.ptype.isReg = true)
    (bs : Bytes) (hb : Ars.asBytes p = .ok bs)
    (hs : ((bs.length - 2) % 256 = 0x10 ∧ Ars.headerByte p.header = .ok 0x80) ∨
          (Ars.headerByte p.header = .ok 0x10 ∧ (p.device.getD []).length = 0x80) ∨
          ((p.device.getD []).getLast? = some 0x10 ∧ (p.user.getD []).length = 0x80) ∨
          ((p.user.getD []).getLast? = some 0x10 ∧ (p.password.getD []).length = 0x80)) :
    ∃ front, bs = front ++ Ars.trailer p ∧ Ars.hasPair 0x10 0x80 front = true ∧
      Ars.fromBytes bs = .ok (Ars.norm p) ∧ (Ars.norm p).csbk = p.csbk ∧
      Ars.asBytes (Ars.norm p) = .ok bs := by
  obtain ⟨hbyte, front, hh, hf, hiff⟩ := Ars.reg_trailer_sites p h ht bs hb
  refine ⟨front, hf, hiff.mpr ?_, Ars.dec_enc p h bs hb, ars_norm_csbk p, by rw [Ars.reencode p h, hb]⟩
  rcases hs with ⟨h1, h2⟩ | ⟨h1, h2⟩ | h3 | h4
  · rw [hh] at h2; injection h2 with h2; exact Or.inl ⟨h1, h2⟩
  · rw [hh] at h1; injection h1 with h1; exact Or.inr (Or.inl ⟨h1, h2⟩)
  · exact Or.inr (Or.inr (Or.inl h3))
  · exact Or.inr (Or.inr (Or.inr h4))

/-- the input class of C16-E / C16-F, built from parts: ANY registration header and flags, a device
identifier `pre` + U+0010, a user identifier of exactly 128 octets, any password, with or without trailer:
the message serialises, contains `10 80` across the device / user boundary, and still parses back to the
fields it was built from (CSBK flag included) and re-serialises to the same octets -/
theorem ars_straddle_device_user (hd : Ars.FirstHeader) (rrh : Option Ars.Rrh) (pre u w : Bytes) (csbk : Bool)
    (ht : hd.ptype.isReg = true) (hr : hd.more = false ∨ rrh.isSome = true)
    (h1 : Ars.validUtf8 pre = true) (l1 : pre.length ≤ 254)
    (h2 : Ars.validUtf8 u = true) (l2 : u.length = 0x80)
    (h3 : Ars.validUtf8 w = true) (l3 : w.length ≤ 255) :
    ∃ bs front q, Ars.asBytes ⟨hd, rrh, none, some (pre ++ [0x10]), some u, some w, csbk⟩ = .ok bs ∧
      bs = front ++ (if csbk then [0x10, 0x80] else []) ∧ Ars.hasPair 0x10 0x80 front = true ∧
      Ars.fromBytes bs = .ok q ∧ q.csbk = csbk ∧ q.device = some (pre ++ [0x10]) ∧ q.user = some u ∧
      q.password = some w ∧ Ars.asBytes q = .ok bs := by
  have hv : Ars.okId (some (pre ++ [0x10])) = true := by
    have := Ars.okId_decorate pre [0x10] [] h1 (by decide) rfl (by simp; omega)
    simpa using this
  have hwf : Ars.wf ⟨hd, rrh, none, some (pre ++ [0x10]), some u, some w, csbk⟩ = true := by
    obtain ⟨hm, ha, hp, hc, t⟩ := hd
    have hu : Ars.okId (some u) = true := by simp [Ars.okId, h2]; omega
    have hw : Ars.okId (some w) = true := by simp [Ars.okId, h3]; omega
    have h0 : (!hm || rrh.isSome) = true := by
      rcases hr with hr | hr
      · simp only at hr; simp [hr]
      · simp [hr]
    cases t <;> simp [Ars.PduType.isReg] at ht <;> simp only [Ars.wf, h0, hv, hu, hw, Bool.and_self]
  obtain ⟨bs, hb⟩ := Ars.asBytes_total _ hwf
  obtain ⟨front, hf, hp, hdec, hc, hre⟩ := ars_straddle_roundtrip _ hwf ht bs hb
    (Or.inr (Or.inr (Or.inl ⟨by simp, by simpa using l2⟩)))
  refine ⟨bs, front, _, hb, ?_, hp, hdec, hc, ?_, ?_, ?_, hre⟩
  · rw [hf]; simp [Ars.trailer, Ars.csbk_val]
  · obtain ⟨hm, ha, hp, hc, t⟩ := hd
    cases t <;> simp [Ars.PduType.isReg] at ht <;> simp [Ars.norm, Ars.normId]
  · obtain ⟨hm, ha, hp, hc, t⟩ := hd
    cases t <;> simp [Ars.PduType.isReg] at ht <;> simp [Ars.norm, Ars.normId]
  · obtain ⟨hm, ha, hp, hc, t⟩ := hd
    cases t <;> simp [Ars.PduType.isReg] at ht <;> simp [Ars.norm, Ars.normId]

/-- kernel-checked instances of all four sites, each without and with the real trailer (`Ars.straddleChk`:
in range, serialises, `10 80` present in front of the trailer, parses to the normal form with the CSBK flag
it was built with, re-serialises to the same octets): device "AB" U+0010 + 128-octet user identifier (the
demo input of C16-E / C16-F); the same coincidence at both field boundaries of one message; header octet
0x10 + 128-octet device identifier; low length octet 0x10 + header octet 0x80 -/
def exStraddle (c : Bool) : Ars.Msg := ⟨⟨false, false, false, false, .userReg⟩, none, none,
  some [0x41, 0x42, 0x10], some (List.replicate 128 0x75), some [0x70, 0x77], c⟩

def exStraddleTwice (c : Bool) : Ars.Msg := ⟨⟨true, true, true, false, .devReg⟩, some ⟨.refresh, .utf8⟩, none,
  some [0x10], some (List.replicate 127 0x75 ++ [0x10]), some (List.replicate 64 0xC2 |>.flatMap (fun x => [x, 0x80])), c⟩

def exHeaderLength (c : Bool) : Ars.Msg := ⟨⟨false, false, false, true, .devReg⟩, none, none,
  some (List.replicate 128 0x31), none, some [], c⟩

def exLengthHeader (c : Bool) : Ars.Msg := ⟨⟨true, false, false, false, .devReg⟩, some ⟨.initial, .utf8⟩, none,
  some (List.replicate (if c then 9 else 11) 0x31), some [], none, c⟩

example : ∀ c ∈ [false, true], Ars.straddleChk (exStraddle c) = true ∧ Ars.straddleChk (exStraddleTwice c) = true ∧
    Ars.straddleChk (exHeaderLength c) = true ∧ Ars.straddleChk (exLengthHeader c) = true := by decide +kernel

example : (Ars.asBytes (exStraddle true)).toOption =
    some ([0, 139, 0x05, 3, 0x41, 0x42, 0x10, 0x80] ++ List.replicate 128 0x75 ++ [2, 0x70, 0x77, 0x10, 0x80]) ∧
    (Ars.asBytes (exHeaderLength false)).toOption = some ([0, 132, 0x10, 0x80] ++ List.replicate 128 0x31 ++ [0, 0]) ∧
    (Ars.asBytes (exLengthHeader true)).toOption =
      some ([0, 0x10, 0x80, 0x20, 9] ++ List.replicate 9 0x31 ++ [0, 0, 0x10, 0x80]) := by decide +kernel

/-- TMS: addresses and texts are opaque, so constants across the address / optional header / text boundaries
are instances of `tms_dec_enc`; kernel-checked: UCS-2 CR LF formed by address tail + one-octet optional
header (s/n 0), by optional header 0x0D (s/n 13) + text head, `10 80` formed by address tail + optional
header 80 04 and by address length 0x10 + address head, `FF FE` by address tail + text head position -/
example : ∀ x ∈ ([([0x0D, 0x00, 0x0A], 0, none, [0x61, 0]), ([], 13, none, [0x00, 0x0A, 0x00, 0x61]),
      ([0x41, 0x10], 0, some Tms.Encoding.ucs2le, [0x0D, 0, 0x0A, 0]),
      (0x80 :: List.replicate 15 0, 85, some Tms.Encoding.ucs2le, [0x10, 0x80]),
      ([0xFF], 30, none, [0xFE, 0xFF])] : List (Bytes × Nat × Option Tms.Encoding × Bytes)),
    ∀ ack ∈ [false, true],
      (Tms.asBytes ⟨⟨false, ack, false, .text⟩, x.1, none, some x.2.1, x.2.2.1, some x.2.2.2⟩).toOption.bind
        (fun bs => (Tms.fromBytes bs).toOption.map (fun q => (q.address, q.seq, q.message, (Tms.asBytes q).toOption == some bs)))
        = some (x.1, some x.2.1, some x.2.2.2, true) := by decide +kernel

/-! ### a value that reads as ANOTHER structure of the protocol, or as text in another encoding (round 4)

The format has no way to tell such a value from any other: the presence of the registration header is
said by the has-more flag alone, identifiers are opaque octets.  The theorems build the input classes
from parts and state the round trip on exactly those messages. -/

theorem validUtf8_ascii_cons (b : Nat) (rest : Bytes) (h : b < 0x80) :
    Ars.validUtf8 (b :: rest) = Ars.validUtf8 rest := by
  rcases rest with _ | ⟨b1, _ | ⟨b2, _ | ⟨b3, r⟩⟩⟩ <;> simp [Ars.validUtf8, h]

/-- ASCII characters separated by NULs (what UTF-16-LE text of ASCII characters looks like) are
well-formed UTF-8: such a value is an identifier like any other -/
theorem ars_interleaved_nul_valid (cs : Bytes) (h : ∀ c ∈ cs, c < 0x80) :
    Ars.validUtf8 (cs.flatMap fun c => [c, 0]) = true := by
  induction cs with
  | nil => rfl
  | cons c r ih =>
    have hc : c < 0x80 := h c (by simp)
    have := ih (fun x hx => h x (by simp [hx]))
    simp only [List.flatMap_cons, List.cons_append, List.nil_append]
    rw [validUtf8_ascii_cons _ _ hc, validUtf8_ascii_cons _ _ (by decide)]
    exact this

/-- the input class of C16-G, built from parts: ANY flags with the has-more flag CLEAR, a device
identifier that is its own length-value form (first octet = number of octets that follow), ANY user
identifier and password, with or without trailer.  Whatever the lengths are — in particular when the
identifier's length octet `rest.length + 1` equals a registration header (0x20, 0x40) — the octet behind
the first header is that length, the parsed message has NO registration header, the identifier comes
back with its first octet, and the octets re-serialise -/
theorem ars_nested_lv_device (hd : Ars.FirstHeader) (rest u w : Bytes) (csbk : Bool)
    (ht : hd.ptype.isReg = true) (hm : hd.more = false)
    (h1 : Ars.validUtf8 (rest.length :: rest) = true) (l1 : rest.length ≤ 254)
    (h2 : Ars.validUtf8 u = true) (l2 : u.length ≤ 255)
    (h3 : Ars.validUtf8 w = true) (l3 : w.length ≤ 255) :
    ∃ bs q, Ars.asBytes ⟨hd, none, none, some (rest.length :: rest), some u, some w, csbk⟩ = .ok bs ∧
      bs[3]? = some (rest.length + 1) ∧ bs[4]? = some rest.length ∧
      Ars.fromBytes bs = .ok q ∧ q.header = hd ∧ q.rrh = none ∧ q.device = some (rest.length :: rest) ∧
      q.user = some u ∧ q.password = some w ∧ q.csbk = csbk ∧ Ars.asBytes q = .ok bs := by
  have hwf : Ars.wf ⟨hd, none, none, some (rest.length :: rest), some u, some w, csbk⟩ = true := by
    obtain ⟨m, a, p, c, t⟩ := hd
    simp only at hm; subst hm
    have hd' : Ars.okId (some (rest.length :: rest)) = true := by simp [Ars.okId, h1]; omega
    have hu : Ars.okId (some u) = true := by simp [Ars.okId, h2]; omega
    have hw : Ars.okId (some w) = true := by simp [Ars.okId, h3]; omega
    cases t <;> simp [Ars.PduType.isReg] at ht <;> simp [Ars.wf, hd', hu, hw]
  obtain ⟨bs, hb⟩ := Ars.asBytes_total _ hwf
  have hdec := Ars.dec_enc _ hwf bs hb
  have hre := Ars.reencode _ hwf
  obtain ⟨hbyte, b, -, hbody, -, hshape⟩ := Ars.asBytes_shape _ bs hb
  obtain ⟨r, hr, -, -, -, -, -, -, hbody'⟩ := Ars.body_reg _ hwf ht
  simp only [hm] at hr
  subst hr
  rw [hbody] at hbody'
  injection hbody' with hbody'
  refine ⟨bs, _, hb, ?_, ?_, hdec, ?_, ?_, ?_, ?_, ?_, ?_, by rw [hre]; exact hb⟩
  · subst hshape hbody'; simp
  · subst hshape hbody'; simp
  all_goals
    obtain ⟨m, a, p, c, t⟩ := hd
    simp only at hm; subst hm
    cases t <;> simp [Ars.PduType.isReg] at ht <;> simp [Ars.norm, Ars.normId]

/-- kernel-checked instances: the inputs of the seeded changes C16-G (device identifier of 32 octets whose first
character is U+001F, no flag, empty user / password, with trailer: the octets behind the first header read `20 1F …`
like an INITIAL registration header followed by a 31-octet identifier) and C16-H (device identifier `4 NUL 7 NUL 1 NUL 1
NUL`, the UTF-16-LE octets of "4711") parse back to exactly the fields they were built from -/
def exNested : Ars.Msg := ⟨⟨false, false, false, false, .devReg⟩, none, none,
  some (0x1F :: List.replicate 31 0x72), some [], some [], true⟩

def exUtf16 : Ars.Msg := ⟨⟨false, false, false, false, .userReg⟩, none, none,
  some [0x34, 0, 0x37, 0, 0x31, 0, 0x31, 0], some [], some [], false⟩

example : Ars.wf exNested = true ∧
    (Ars.asBytes exNested).toOption = some ([0, 0x26, 0x00, 0x20, 0x1F] ++ List.replicate 31 0x72 ++ [0, 0, 0x10, 0x80]) ∧
    (Ars.asBytes exNested).toOption.bind (fun bs => (Ars.fromBytes bs).toOption) = some exNested := by decide +kernel

example : Ars.wf exUtf16 = true ∧
    (Ars.asBytes exUtf16).toOption = some [0, 0x0C, 0x05, 8, 0x34, 0, 0x37, 0, 0x31, 0, 0x31, 0, 0, 0] ∧
    (Ars.asBytes exUtf16).toOption.bind (fun bs => (Ars.fromBytes bs).toOption) = some exUtf16 := by decide +kernel

/-! ## member values of the TMS / ARS enumerations (reference, DESIGN §2.1 / §8 "Constant tables")

`Gen/Tms`, `Gen/Ars` are regenerated on every run and the models read the member values from them, so every round-trip
theorem above is re-proved about whatever values the tree has.  The two protocols are Motorola proprietary (no public
standard); the right-hand sides below are the values of the reviewed tree, which agree with the captured packets of the
test-suite, written out in the statement — a renumbered or deleted member, or a `_missing_` hook that folds differently,
no longer proves. -/

/-- TMS: PDU types `(control, 4-bit type)` = availability (1, 0), acknowledgement (1, 15), text message (0, 0) and nothing
else of the 32 combinations; encodings UNDEFINED 0, UCS2_LE 4, every other 5-bit value folds onto UNDEFINED;
device capabilities 0..3 -/
theorem tms_values_reference :
    Gen.Tms.pduTypeVal = [(true, 0), (true, 15), (false, 0)] ∧
    Gen.Tms.pduTypeGraph = (List.range 32).map (fun i => if i = 0 then some 2 else if i = 16 then some 0 else if i = 31 then some 1 else none) ∧
    Gen.Tms.encodingVal = [0, 4] ∧
    Gen.Tms.encodingGraph = (List.range 32).map (fun v => if v = 4 then some 1 else some 0) ∧
    Gen.Tms.capabilityVal = [0, 1, 2, 3] ∧ Gen.Tms.capabilityGraph = [some 0, some 1, some 2, some 3] := by
  decide +kernel

/-- ARS: PDU types 0, 1, 5, 6, 7, 4, 15 (declaration order) and no other 4-bit value; registration events 0, 1, 2;
encoding UTF8 = 0 only; failure reasons 0, 1, 2 and 255, every other value below 128 folds onto TRANSMISSION_FAILURE -/
theorem ars_values_reference :
    Gen.Ars.pduTypeVal = [0, 1, 5, 6, 7, 4, 15] ∧
    Gen.Ars.pduTypeGraph = [some 0, some 1, none, none, some 5, some 2, some 3, some 4, none, none, none, none, none, none, none, some 6] ∧
    Gen.Ars.eventVal = [0, 1, 2] ∧ Gen.Ars.eventGraph = [some 0, some 1, some 2, none] ∧
    Gen.Ars.encodingVal = [0] ∧ Gen.Ars.encodingGraph = (List.range 32).map (fun v => if v = 0 then some 0 else none) ∧
    Gen.Ars.failureVal = [0, 1, 2, 255] ∧
    Gen.Ars.failureGraph = (List.range 128).map (fun v => if v < 3 then some v else some 3) ∧
    Gen.Ars.csbkEnd = [0x10, 0x80] := by
  decide +kernel

end Dmr.C16
