import DmrVerif.Lemmas.Tms
import DmrVerif.Lemmas.Ars

/-!
# C16 — Motorola TMS and ARS messages keep length framing and fields over a round trip

Property theorems only.  The models are `Model/Tms.lean` / `Model/Ars.lean` (line-by-line models of
`text_messaging_service.py` / `automatic_registration_service.py`, tied to the code by the
correspondence run); the enumeration values and `Enum(v)` lookups are the ones `tools/extract_tms.py`
read from `/repo` on this run (`Gen/Tms.lean`, `Gen/Ars.lean`).  The range predicates `wf`, the normal
forms `norm` and all lemmas are in `Lemmas/Tms.lean`, `Lemmas/Ars.lean`.

For both protocols:
* `…_len_prefix`   the leading 16-bit length equals the number of octets that follow — for *every*
                   message that serialises at all, not only the ones in range;
* `…_serialises`   every message in the property's range serialises (no exception);
* `…_dec_enc`      `from_bytes (as_bytes p) = ok (norm p)`;
* `…_norm_fields`  what `norm` can change, field by field (everything else is preserved);
* `…_reencode`     `as_bytes (norm p) = as_bytes p`, and `…_enc_dec_enc`: `as_bytes ∘ from_bytes ∘ as_bytes
                   = as_bytes`.
Text, addresses and identifiers are opaque octet strings; Python's UTF-8 / UTF-16-LE codecs are
trusted (identifiers are assumed to be what `str.encode("utf-8")` yields: well-formed UTF-8).
-/

namespace Dmr.C16
open Dmr

/-! ## TMS (text messaging service) -/

/-- the model's constructors cover the enumerations of this run's source tree -/
theorem tms_tables : Gen.Tms.pduTypeCount = 3 ∧ Gen.Tms.encodingCount = 2 :=
  ⟨Tms.ptype_count, Tms.enc_count⟩

/-- the leading length is the number of octets that follow (any message that serialises) -/
theorem tms_len_prefix (p : Tms.Msg) (bs : Bytes) (h : Tms.asBytes p = .ok bs) :
    2 ≤ bs.length ∧ Tms.be (bs.take 2) = bs.length - 2 := by
  obtain ⟨more, b, hb, -, -, -, -, rfl⟩ := Tms.asBytes_shape p bs h
  refine ⟨by simp, ?_⟩
  simp [Tms.be]; omega

/-- every message in range serialises -/
theorem tms_serialises (p : Tms.Msg) (h : Tms.wf p = true) : ∃ bs, Tms.asBytes p = .ok bs :=
  Tms.asBytes_total p h

/-- parsing the serialisation gives the fields back (normal form `Tms.norm`) -/
theorem tms_dec_enc (p : Tms.Msg) (h : Tms.wf p = true) (bs : Bytes) (hb : Tms.asBytes p = .ok bs) :
    Tms.fromBytes bs = .ok (Tms.norm p) :=
  Tms.dec_enc p h bs hb

/-- what the normal form preserves: address, acknowledged flag, PDU type; the capability of an
availability message; the sequence number of acknowledgements and text messages; the text; the
encoding up to `UNDEFINED ≡ None` (`hasEnc` is "encoding is UCS2_LE").  `has_more_headers` and the
reserved bit are the values the encoder writes. -/
theorem tms_norm_fields (p : Tms.Msg) :
    (Tms.norm p).address = p.address ∧ (Tms.norm p).header.ack = p.header.ack ∧
    (Tms.norm p).header.ptype = p.header.ptype ∧
    (Tms.norm p).header.reserved = (p.header.reserved || p.header.ptype == .text) ∧
    (p.header.ptype = .availability →
      (Tms.norm p).capability = p.capability ∧ (Tms.norm p).header.more = p.capability.isSome) ∧
    (p.header.ptype = .ack →
      (Tms.norm p).seq = p.seq ∧ (Tms.norm p).header.more = p.seq.isSome ∧
      Tms.hasEnc (Tms.norm p).encoding = Tms.hasEnc p.encoding) ∧
    (p.header.ptype = .text →
      (Tms.norm p).seq = p.seq ∧ (Tms.norm p).message = p.message ∧ (Tms.norm p).header.more = true ∧
      Tms.hasEnc (Tms.norm p).encoding = Tms.hasEnc p.encoding) := by
  obtain ⟨⟨hm, ha, hr, t⟩, addr, cap, seq, enc, msg⟩ := p
  cases t <;> simp [Tms.norm, Tms.hasEnc_normEnc]

theorem tms_norm_idem (p : Tms.Msg) : Tms.norm (Tms.norm p) = Tms.norm p := Tms.norm_idem p

theorem tms_norm_wf (p : Tms.Msg) (h : Tms.wf p = true) : Tms.wf (Tms.norm p) = true := Tms.wf_norm p h

/-- the normal form serialises to the same octets -/
theorem tms_reencode (p : Tms.Msg) (h : Tms.wf p = true) : Tms.asBytes (Tms.norm p) = Tms.asBytes p :=
  Tms.reencode p h

/-- serialise, parse, serialise again: the same octets -/
theorem tms_enc_dec_enc (p : Tms.Msg) (h : Tms.wf p = true) (bs : Bytes) (hb : Tms.asBytes p = .ok bs) :
    ∃ q, Tms.fromBytes bs = .ok q ∧ Tms.asBytes q = .ok bs :=
  ⟨Tms.norm p, Tms.dec_enc p h bs hb, by rw [Tms.reencode p h, hb]⟩

/-- the optional header: sequence numbers 0..31 without encoding take one octet, everything else two
(5 low bits + 2 high bits); the decoder inverts the split whatever follows -/
theorem tms_sn_roundtrip (sn : Nat) (enc : Option Tms.Encoding) (h : sn ≤ 127) (rest : Bytes) :
    ∃ bs, Tms.encodeSn (some sn) enc = .ok bs ∧
      bs.length = (if sn > 31 ∨ Tms.hasEnc enc = true then 2 else 1) ∧
      Tms.decodeSn (bs ++ rest) 0 = .ok (bs.length, sn, Tms.normEnc enc) := by
  exact Tms.sn_roundtrip sn enc h rest

/-- the hypotheses are satisfiable by non-trivial values: the captured text message of the test-suite
("ahoj", sequence number 85, address 01) is in range and serialises to the captured octets; an
acknowledgement of sequence number 0 keeps its optional header (repaired defect 25ab0e1) -/
def exText : Tms.Msg := ⟨⟨false, true, false, .text⟩, [1], none, some 85, some .ucs2le,
  some [0x61, 0, 0x68, 0, 0x6F, 0, 0x6A, 0]⟩

example : Tms.wf exText = true ∧
    Tms.asBytes exText = .ok [0x00, 0x0D, 0xE0, 0x01, 0x01, 0x95, 0x44, 0x61, 0, 0x68, 0, 0x6F, 0, 0x6A, 0] :=
  ⟨by decide, by rfl⟩

def exAck0 : Tms.Msg := ⟨⟨false, false, false, .ack⟩, [], none, some 0, none, none⟩

example : Tms.wf exAck0 = true ∧ Tms.asBytes exAck0 = .ok [0, 3, 0x9F, 0, 0] ∧
    Tms.fromBytes [0, 3, 0x9F, 0, 0] = .ok (Tms.norm exAck0) ∧ (Tms.norm exAck0).seq = some 0 :=
  ⟨by decide, by rfl, by rfl, by rfl⟩

/-! ### text and address are opaque (hardening: special leading / trailing characters)

`tms_dec_enc` + `tms_norm_fields` already imply it; stated on its own because it is the statement a
change such as "drop a leading CR LF", "strip trailing NULs", "skip a byte-order mark" contradicts:
whatever octets the text or the address starts with, ends with or contains, they come back exactly. -/

theorem tms_text_exact (p : Tms.Msg) (h : Tms.wf p = true) (ht : p.header.ptype = .text) (bs : Bytes)
    (hb : Tms.asBytes p = .ok bs) :
    ∃ q, Tms.fromBytes bs = .ok q ∧ q.message = p.message ∧ q.address = p.address ∧ q.seq = p.seq ∧
      Tms.hasEnc q.encoding = Tms.hasEnc p.encoding := by
  have hf := tms_norm_fields p
  obtain ⟨h1, h2, h3, h4⟩ := hf.2.2.2.2.2.2 ht
  exact ⟨Tms.norm p, Tms.dec_enc p h bs hb, h2, hf.1, h1, h4⟩

theorem tms_address_exact (p : Tms.Msg) (h : Tms.wf p = true) (bs : Bytes) (hb : Tms.asBytes p = .ok bs) :
    ∃ q, Tms.fromBytes bs = .ok q ∧ q.address = p.address :=
  ⟨Tms.norm p, Tms.dec_enc p h bs hb, (tms_norm_fields p).1⟩

/-- a token `tok` in front of, inside (`pre`, `post`) or behind a text keeps the message in range (the
range does not look at the content) and comes back as the same octets, for every encoding -/
theorem tms_text_decorated (hd : Tms.FirstHeader) (addr pre tok post : Bytes) (sn : Nat) (enc : Option Tms.Encoding)
    (ht : hd.ptype = .text) (ha : addr.length ≤ 255) (hs : sn ≤ 127) (hl : (pre ++ tok ++ post).length ≤ 65000) :
    ∃ bs q, Tms.asBytes ⟨hd, addr, none, some sn, enc, some (pre ++ tok ++ post)⟩ = .ok bs ∧
      Tms.fromBytes bs = .ok q ∧ q.message = some (pre ++ tok ++ post) := by
  have hwf : Tms.wf ⟨hd, addr, none, some sn, enc, some (pre ++ tok ++ post)⟩ = true := by
    simp only [Tms.wf, ht, Bool.and_eq_true, decide_eq_true_eq]
    exact ⟨ha, hs, hl⟩
  obtain ⟨bs, hb⟩ := Tms.asBytes_total _ hwf
  obtain ⟨q, hq, hm, -⟩ := tms_text_exact _ hwf ht bs hb
  exact ⟨bs, q, hb, hq, hm⟩

/-- kernel-checked instances: the UCS-2 text CR LF + "a" under UCS2_LE (the input of seeded change C16-C), a
text that is only a byte-order mark, a text ending in NULs, a text equal to the CSBK trailer octets -/
def exCrLf : Tms.Msg := ⟨⟨false, false, false, .text⟩, [], none, some 5, some .ucs2le, some [0x0D, 0, 0x0A, 0, 0x61, 0]⟩

example : Tms.wf exCrLf = true ∧ Tms.asBytes exCrLf = .ok [0, 0x0A, 0xA0, 0, 0x85, 0x04, 0x0D, 0, 0x0A, 0, 0x61, 0] ∧
    Tms.fromBytes [0, 0x0A, 0xA0, 0, 0x85, 0x04, 0x0D, 0, 0x0A, 0, 0x61, 0] = .ok (Tms.norm exCrLf) ∧
    (Tms.norm exCrLf).message = some [0x0D, 0, 0x0A, 0, 0x61, 0] :=
  ⟨by decide, by rfl, by rfl, by rfl⟩

example : ∀ m ∈ ([[0xFF, 0xFE], [0x61, 0, 0, 0, 0, 0], [0x10, 0x80], [0x00, 0xD8]] : List Bytes),
    ∀ enc ∈ [none, some Tms.Encoding.undefined, some Tms.Encoding.ucs2le],
      (Tms.asBytes ⟨⟨false, true, false, .text⟩, [1], none, some 85, enc, some m⟩).toOption.bind
        (fun bs => (Tms.fromBytes bs).toOption.map (·.message)) = some (some m) := by decide

/-! ## ARS (automatic registration service) -/

theorem ars_tables : Gen.Ars.pduTypeCount = 7 ∧ Gen.Ars.eventCount = 3 ∧ Gen.Ars.encodingCount = 1 ∧
    Gen.Ars.failureCount = 4 ∧ Gen.Ars.csbkEnd = [0x10, 0x80] :=
  ⟨Ars.ptype_count, Ars.event_count, Ars.enc_count, Ars.failure_count, Ars.csbk_val⟩

/-- the leading length is the number of octets that follow (any message that serialises, with or
without the CSBK trailer) -/
theorem ars_len_prefix (p : Ars.Msg) (bs : Bytes) (h : Ars.asBytes p = .ok bs) :
    2 ≤ bs.length ∧ Tms.be (bs.take 2) = bs.length - 2 := by
  obtain ⟨hb, b, -, -, -, rfl⟩ := Ars.asBytes_shape p bs h
  refine ⟨by simp, ?_⟩
  simp [Tms.be]; omega

theorem ars_serialises (p : Ars.Msg) (h : Ars.wf p = true) : ∃ bs, Ars.asBytes p = .ok bs :=
  Ars.asBytes_total p h

/-- parsing the serialisation gives the fields back (normal form `Ars.norm`); in particular the CSBK
trailer is detected exactly when it was written -/
theorem ars_dec_enc (p : Ars.Msg) (h : Ars.wf p = true) (bs : Bytes) (hb : Ars.asBytes p = .ok bs) :
    Ars.fromBytes bs = .ok (Ars.norm p) :=
  Ars.dec_enc p h bs hb

/-- what the normal form preserves: the whole first header (four flags and type) and the CSBK flag;
in registration requests the three identifiers up to `None ≡ ""` and the registration header when
`has_more_headers` is set; in acknowledgements with `has_more_headers` the failure reason (failure =
acknowledged flag set) respectively the refresh time (success) -/
theorem ars_norm_fields (p : Ars.Msg) (h : Ars.wf p = true) :
    (Ars.norm p).header = p.header ∧ (Ars.norm p).csbk = p.csbk ∧
    (p.header.ptype.isReg = true →
      ((Ars.norm p).device.getD [] = p.device.getD [] ∧ (Ars.norm p).user.getD [] = p.user.getD [] ∧
       (Ars.norm p).password.getD [] = p.password.getD []) ∧
      (p.header.more = true → (Ars.norm p).rrh = p.rrh)) ∧
    (p.header.ptype = .response → p.header.more = true →
      ∃ r r', p.rsh = some r ∧ (Ars.norm p).rsh = some r' ∧ r'.ctx = some p.header.ack ∧
        (p.header.ack = true → r'.failure = r.failure) ∧
        (p.header.ack = false → r'.refresh = r.refresh)) := by
  obtain ⟨⟨hm, ha, hp, hc, t⟩, rrh, rsh, dev, user, pw, csbk⟩ := p
  cases t <;> simp [Ars.norm, Ars.PduType.isReg, Ars.normId]
  · intro hm'; simp [hm']
  · intro hm'; simp [hm']
  · intro hm'
    subst hm'
    cases rsh with
    | none => simp [Ars.wf] at h
    | some r =>
      have hr : Ars.okRsh ha r = true := by simpa [Ars.wf] using h
      obtain ⟨f, rt, c⟩ := r
      simp only [Ars.okRsh, Bool.and_eq_true, beq_iff_eq] at hr
      obtain ⟨hc', hr⟩ := hr
      cases ha with
      | true =>
        cases f with
        | none => simp at hr
        | some f => simp [Ars.normRsh]
      | false =>
        cases rt with
        | none => simp at hr
        | some rt => simp [Ars.normRsh]

theorem ars_norm_idem (p : Ars.Msg) : Ars.norm (Ars.norm p) = Ars.norm p := Ars.norm_idem p

theorem ars_norm_wf (p : Ars.Msg) (h : Ars.wf p = true) : Ars.wf (Ars.norm p) = true := Ars.wf_norm p h

/-- the normal form serialises to the same octets -/
theorem ars_reencode (p : Ars.Msg) (h : Ars.wf p = true) : Ars.asBytes (Ars.norm p) = Ars.asBytes p :=
  Ars.reencode p h

/-- serialise, parse, serialise again: the same octets -/
theorem ars_enc_dec_enc (p : Ars.Msg) (h : Ars.wf p = true) (bs : Bytes) (hb : Ars.asBytes p = .ok bs) :
    ∃ q, Ars.fromBytes bs = .ok q ∧ Ars.asBytes q = .ok bs :=
  ⟨Ars.norm p, Ars.dec_enc p h bs hb, by rw [Ars.reencode p h, hb]⟩

/-- why the trailer test cannot misfire on identifiers: well-formed UTF-8 never ends in `10 80` -/
theorem ars_utf8_no_trailer (pre : Bytes) : Ars.validUtf8 (pre ++ [0x10, 0x80]) = false := by
  cases h : Ars.validUtf8 (pre ++ [0x10, 0x80])
  · rfl
  · exact (Ars.valid_not_csbk pre h).elim

/-- the hypotheses are satisfiable by non-trivial values: the captured device registration and the
captured CSBK acknowledgement of the test-suite, and a success acknowledgement with refresh time 127
and trailer -/
def exDevReg : Ars.Msg := ⟨⟨true, true, true, true, .devReg⟩, some ⟨.initial, .utf8⟩, none,
  some [0x31, 0x31], some [], none, false⟩

example : Ars.wf exDevReg = true ∧
    Ars.asBytes exDevReg = .ok [0x00, 0x07, 0xF0, 0x20, 0x02, 0x31, 0x31, 0x00, 0x00] :=
  ⟨by decide, by rfl⟩

def exCsbk : Ars.Msg := ⟨⟨false, false, true, true, .response⟩, none, none, none, none, none, true⟩

example : Ars.wf exCsbk = true ∧ Ars.asBytes exCsbk = .ok [0x00, 0x03, 0x3F, 0x10, 0x80] :=
  ⟨by decide, by rfl⟩

def exRefresh : Ars.Msg := ⟨⟨true, false, true, true, .response⟩, none,
  some ⟨none, some 127, some false⟩, none, none, none, true⟩

example : Ars.wf exRefresh = true ∧ Ars.asBytes exRefresh = .ok [0x00, 0x04, 0xBF, 0x7F, 0x10, 0x80] ∧
    Ars.fromBytes [0x00, 0x04, 0xBF, 0x7F, 0x10, 0x80] = .ok (Ars.norm exRefresh) :=
  ⟨by decide, by rfl, by rfl⟩

/-! ### identifiers and password are opaque (hardening: special leading / trailing characters) -/

/-- the three identifiers come back as exactly the octets they were built from (`None ≡ ""`) -/
theorem ars_ids_exact (p : Ars.Msg) (h : Ars.wf p = true) (ht : p.header.ptype.isReg = true) (bs : Bytes)
    (hb : Ars.asBytes p = .ok bs) :
    ∃ q, Ars.fromBytes bs = .ok q ∧ q.device.getD [] = p.device.getD [] ∧ q.user.getD [] = p.user.getD [] ∧
      q.password.getD [] = p.password.getD [] ∧ q.csbk = p.csbk := by
  have hf := ars_norm_fields p h
  obtain ⟨⟨h1, h2, h3⟩, -⟩ := hf.2.2.1 ht
  exact ⟨Ars.norm p, Ars.dec_enc p h bs hb, h1, h2, h3, hf.2.1⟩

/-- a well-formed token (`Ars.specialTokens`: byte-order mark, CR LF, NUL, … all well-formed by `decide`)
in front of, inside or behind a well-formed value stays in range up to 255 octets -/
theorem ars_id_decorated (pre tok post : Bytes) (h1 : Ars.validUtf8 pre = true) (h2 : Ars.validUtf8 tok = true)
    (h3 : Ars.validUtf8 post = true) (hl : pre.length + tok.length + post.length ≤ 255) :
    Ars.okId (some (pre ++ tok ++ post)) = true :=
  Ars.okId_decorate pre tok post h1 h2 h3 hl

theorem ars_special_tokens : Ars.specialTokens.all Ars.validUtf8 = true := Ars.specialTokens_valid

/-- kernel-checked instance: device identifier U+FEFF "2001" (the input of seeded change C16-D), user
identifier CR LF, password NUL NUL, with registration header and CSBK trailer -/
def exBom : Ars.Msg := ⟨⟨true, false, false, false, .devReg⟩, some ⟨.initial, .utf8⟩, none,
  some [0xEF, 0xBB, 0xBF, 0x32, 0x30, 0x30, 0x31], some [0x0D, 0x0A], some [0, 0], true⟩

example : Ars.wf exBom = true ∧
    Ars.asBytes exBom = .ok [0, 18, 0x80, 0x20, 7, 0xEF, 0xBB, 0xBF, 0x32, 0x30, 0x30, 0x31, 2, 0x0D, 0x0A, 2, 0, 0, 0x10, 0x80] ∧
    Ars.fromBytes [0, 18, 0x80, 0x20, 7, 0xEF, 0xBB, 0xBF, 0x32, 0x30, 0x30, 0x31, 2, 0x0D, 0x0A, 2, 0, 0, 0x10, 0x80]
      = .ok exBom :=
  ⟨by decide, by rfl, by rfl⟩

end Dmr.C16
