import DmrVerif.Lemmas.CrcDetect
import DmrVerif.Gen.Crc

/-!
# C05 — kernel enumeration for CRC-CCITT over 96-bit code words

All 147 536 patterns of weight 1, 2 or 3 over the 96 positions of a (80 data + 16 check) word, via the
table of the 96 unit-vector syndromes `x^(i+16) mod G` packed as `Nat`s (`Lemmas/CrcDetect.lean`:
`wdetTop`, `rtabAux`).  Kept in its own module so that Lake builds it in parallel with the rest.
The polynomial is the one extracted from `/repo` on this run.
-/

namespace Dmr.C05
open Dmr Dmr.Crc

/-- the closed Boolean the kernel evaluates -/
def ccitt96Check : Bool := wdetTop 3 (rtabAux (polyBits Gen.crc16) 96).2

set_option maxRecDepth 100000 in
theorem ccitt96_enum : ccitt96Check = true := by decide +kernel

end Dmr.C05
