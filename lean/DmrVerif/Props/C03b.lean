import DmrVerif.Lemmas.PduShort
import DmrVerif.Lemmas.PduRate
import DmrVerif.Lemmas.PduUdp

/-!
# C03 — part 3: short LC, PI header, rate ½ / ¾ / 1 data blocks, UDP/IPv4 compressed header
-/

namespace Dmr.C03b
open Dmr Dmr.Gen

/-! ## short link control (36 bits) -/

theorem slc_opcodes_defined : [ShortLc.slcoNull, ShortLc.slcoActivity].all eSLCOs.defined = true := by
  decide +kernel

theorem slc_enc_length (p : ShortLc) (h : p.WF) : (ShortLc.enc p).length = 36 := ShortLc.enc_length p h

/-- `g` = the eight bits the constructor stores for a zero CRC field -/
theorem slc_dec_enc (g : Bits → Bits) (p : ShortLc) (h : p.WF) :
    ShortLc.dec g (ShortLc.enc p) = .ok (ShortLc.init g p) := ShortLc.dec_enc g p h

/-- what `norm = ShortLc.init g` can change: only an all-zero CRC field -/
theorem slc_init_fields (g : Bits → Bits) (p : ShortLc) :
    (ShortLc.init g p).payload = p.payload ∧ (allZero p.crc = false → ShortLc.init g p = p) := by
  unfold ShortLc.init
  split <;> simp_all

theorem slc_roundtrip (g : Bits → Bits) (hg : ∀ x, (g x).length = 8) (p : ShortLc) (h : p.WF) :
    ShortLc.dec g (ShortLc.enc (ShortLc.init g p)) = .ok (ShortLc.init g p) := by
  rw [ShortLc.dec_enc g _ (ShortLc.init_wf g hg p h), ShortLc.init_idem g hg p h]

theorem slc_fixpoint (g : Bits → Bits) (hg : ∀ x, (g x).length = 8) (bs : Bits) (hl : bs.length = 36)
    (p : ShortLc) (h : ShortLc.dec g bs = .ok p) :
    ShortLc.dec g (ShortLc.enc p) = .ok p ∧ (ShortLc.enc p).length = 36 :=
  ShortLc.fixpoint g hg bs hl p h

/-- any 36-bit string decodes or raises `KeyError` (SLCO without layout) / `ValueError` -/
theorem slc_dec_total (g : Bits → Bits) (bs : Bits) (hl : bs.length = 36) :
    (∃ p, ShortLc.dec g bs = .ok p) ∨ ShortLc.dec g bs = .error .valueError
      ∨ ShortLc.dec g bs = .error .keyError := by
  cases h : ShortLc.dec g bs with
  | ok p => exact Or.inl ⟨p, rfl⟩
  | error e =>
    rcases ShortLc.dec_errors g bs hl e h with rfl | rfl
    · exact Or.inr (Or.inl rfl)
    · exact Or.inr (Or.inr rfl)

/-! ## PI header (96 bits) -/

theorem pi_enc_length (f : Bits → Nat) (p : PiHeader) (h : p.WF f) : (PiHeader.enc p).length = 96 :=
  PiHeader.enc_length f p h

/-- the object the constructor builds from any octet string is read back (data and CRC) -/
theorem pi_dec_enc (f : Bits → Nat) (data : Bytes) (hb : isBytes data = true) :
    PiHeader.dec f (PiHeader.enc (PiHeader.init f data)) = .ok (PiHeader.init f data) :=
  PiHeader.dec_enc f data hb

theorem pi_fixpoint (f : Bits → Nat) (bs : Bits) (hl : bs.length = 96) (p : PiHeader)
    (h : PiHeader.dec f bs = .ok p) :
    PiHeader.dec f (PiHeader.enc p) = .ok p ∧ (PiHeader.enc p).length = 96 := PiHeader.fixpoint f bs hl p h

theorem pi_dec_total (f : Bits → Nat) (bs : Bits) (hl : bs.length = 96) : ∃ p, PiHeader.dec f bs = .ok p :=
  PiHeader.dec_total f bs hl

/-! ## rate ½ (96 bits), rate ¾ (144 bits), rate 1 (192 bits) data blocks -/

/-- the extracted data-length tables: block size minus 0 / 2 / 4 / 6 octets -/
theorem rate_tables : [rate12, rate34, rate1].map (fun c => (c.total, c.lens))
    = [(12, [12, 10, 8, 6, 0]), (18, [18, 16, 14, 12, 0]), (24, [24, 22, 20, 18, 0])] := by decide +kernel

theorem rate_enc_length (c : RateCfg) (hc : c = rate12 ∨ c = rate34 ∨ c = rate1) (t : RateType) (a p : RateData)
    (f9 : Bytes → Nat → Nat → Nat) (h : RateData.WF c t a) (hp : RateData.init c f9 t a = .ok p) :
    (RateData.enc c p).length = 8 * c.total := by
  rw [RateData.init_ok c hc f9 t a h.2.1] at hp
  cases hp
  exact RateData.enc_length c hc t _ h.1 h.2.1

/-- the constructor accepts in-range arguments and only fills in the CRC-9 sentinel … -/
theorem rate_init (c : RateCfg) (hc : c = rate12 ∨ c = rate34 ∨ c = rate1) (t : RateType) (a : RateData)
    (f9 : Bytes → Nat → Nat → Nat) (h : RateData.WF c t a) :
    RateData.init c f9 t a = .ok { a with crc9 := if a.crc9 = 0 then f9 a.data a.dbsn a.crc32 else a.crc9 } :=
  RateData.init_ok c hc f9 t a h.2.1

/-- … and the object is read back by `from_bits_typed(as_bits(), t)`: data, serial number, CRC-9 and
CRC-32 all equal, for the four variants of the three block sizes -/
theorem rate_dec_enc (c : RateCfg) (hc : c = rate12 ∨ c = rate34 ∨ c = rate1) (f9 : Bytes → Nat → Nat → Nat)
    (hf : ∀ d s x, f9 d s x < 2 ^ 9) (t : RateType) (a p : RateData) (h : RateData.WF c t a)
    (hp : RateData.init c f9 t a = .ok p) : RateData.dec c f9 t (RateData.enc c p) = .ok p :=
  RateData.dec_enc c hc f9 hf t a p h hp

theorem rate_fixpoint (c : RateCfg) (hc : c = rate12 ∨ c = rate34 ∨ c = rate1) (f9 : Bytes → Nat → Nat → Nat)
    (hf : ∀ d s x, f9 d s x < 2 ^ 9) (t : RateType) (bs : Bits) (hl : bs.length = 8 * c.total) (p : RateData)
    (h : RateData.dec c f9 t bs = .ok p) :
    RateData.dec c f9 (RateData.normType t) (RateData.enc c p) = .ok p
      ∧ (RateData.enc c p).length = 8 * c.total :=
  RateData.fixpoint c hc f9 hf t bs hl p h

/-- a right-length block decodes as every variant without exception -/
theorem rate_dec_total (c : RateCfg) (hc : c = rate12 ∨ c = rate34 ∨ c = rate1) (f9 : Bytes → Nat → Nat → Nat)
    (t : RateType) (bs : Bits) (hl : bs.length = 8 * c.total) : ∃ p, RateData.dec c f9 t bs = .ok p :=
  RateData.dec_total c hc f9 t bs hl

/-! ## UDP/IPv4 compressed header -/

theorem udp_enc_length (p : UdpHeader) :
    (UdpHeader.enc p).length = 40 + (UdpHeader.optBits p.extendedHeader1).length
      + (UdpHeader.optBits p.extendedHeader2).length + p.userData.length := UdpHeader.enc_length p

/-- every field is read back unchanged (norm = identity), with 0, 1 or 2 extended headers and any
user data -/
theorem udp_dec_enc (p : UdpHeader) (h : p.WF) : UdpHeader.dec (UdpHeader.enc p) = .ok p :=
  UdpHeader.dec_enc p h

theorem udp_fixpoint (bs : Bits) (p : UdpHeader) (h : UdpHeader.dec bs = .ok p) :
    UdpHeader.dec (UdpHeader.enc p) = .ok p ∧ (UdpHeader.enc p).length = bs.length :=
  ⟨UdpHeader.fixpoint bs p h, UdpHeader.dec_length bs p h⟩

/-- a bit string of any length decodes or raises `AssertionError` (too short for the header and the
extended headers it announces) -/
theorem udp_dec_total (bs : Bits) :
    (∃ p, UdpHeader.dec bs = .ok p) ∨ UdpHeader.dec bs = .error .assertionError := by
  cases h : UdpHeader.dec bs with
  | ok p => exact Or.inl ⟨p, rfl⟩
  | error e => rw [UdpHeader.dec_errors bs e h]; exact Or.inr rfl

/-! ## relations among the words of a block do not matter (input class of the differential run, round 4)

`rate_dec_enc` quantifies over all data octets and check values, hence also over blocks whose 32-bit words satisfy
arithmetic relations among each other and with the CRC-32 (two independent 32-bit coincidences: probability 2⁻⁶⁴ under
sampling; constructed by `relation_cases` in `harness/props/c03.py`). -/

/-- twenty data octets whose 32-bit words satisfy w₀ ^^^ w₁ = w₂ -/
abbrev relData : Bytes :=
  [0x4d, 0x6f, 0x72, 0x69, 0x1a, 0x2b, 0x3c, 0x4d, 0x57, 0x44, 0x4e, 0x24, 0x00, 0xc0, 0xff, 0xee, 0x5e, 0xed, 0x12, 0x34]

/-- an unconfirmed last block of rate 1 whose data words satisfy w₀ ^^^ w₁ = w₂ and w₃ ^^^ w₄ = CRC-32 rotated left by
eight bits: the CRC-32 is written after the twenty data octets and everything is read back -/
example :
    (0x4d6f7269 ^^^ 0x1a2b3c4d = 0x57444e24 ∧ 0x00c0ffee ^^^ 0x5eed1234 = (0xda5e2ded * 256 + 0xda5e2ded / 2 ^ 24) % 2 ^ 32) ∧
    RateData.WF rate1 .unconfirmedLast ⟨relData, 0, 0, 0xda5e2ded⟩ ∧
    RateData.enc rate1 ⟨relData, 0, 7, 0xda5e2ded⟩ = bytesToBits relData ++ natToBits 32 0xda5e2ded ∧
    (RateData.dec rate1 (fun _ _ _ => 7) .unconfirmedLast (RateData.enc rate1 ⟨relData, 0, 7, 0xda5e2ded⟩)).toOption
      = some ⟨relData, 0, 7, 0xda5e2ded⟩ := by
  decide +kernel

/-! ## non-vacuity -/

example : (⟨zeros 8, .activity 8 3 (natToBits 8 0xA5) (natToBits 8 0x5A)⟩ : ShortLc).WF := by decide
example : RateData.WF rate34 .confirmedLast ⟨List.replicate 12 0xAB, 127, 0, 0xDEADBEEF⟩ := by decide
example : RateData.WF rate1 .unconfirmed ⟨List.replicate 24 7, 0, 0, 0⟩ := by decide
example : (⟨0xBEEF, 0, 2, 0, 5, some 4007, none, [true, false, true]⟩ : UdpHeader).WF := by decide
example : (⟨1, 12, 0, 0, 0, some 4007, some 4005, []⟩ : UdpHeader).WF := by decide

end Dmr.C03b
