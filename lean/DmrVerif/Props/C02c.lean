import DmrVerif.Lemmas.BptcMain
import DmrVerif.Lemmas.BptcHist

/-! # C02 (part c) — kernel-decided facts about the BPTC(196,96) position lists (see `C02a`) -/

namespace Dmr.C02
open Dmr Dmr.Bptc

set_option maxRecDepth 100000

/-- row-major / column-major index lists of the 13×15 table are consistent -/
theorem idx_ok : idxOk = true := by decide +kernel

/-- the three reserved cells of row 1 are not fed by any of the 96 info bits -/
theorem fill_head : chkFillHead = true := by decide +kernel

/-- info bit `i` is placed into the cell from which info bit `i` is read -/
theorem data_fill : chkDataFill = true := by decide +kernel

/-- with repair the 96 info bits are read from the (repaired) table, from the same cells -/
theorem rep_data : chkRepData = true := by decide +kernel

/-- the loop of `fill_encoding_table` writes every one of the 195 cells of the table (so nothing a table
held before survives it) -/
theorem fill_cover : chkFillCover = true := by decide +kernel

end Dmr.C02
