import DmrVerif.Lemmas.PduOpaque

/-!
# C03 — part 4: opaque / text-like payload fields are carried verbatim (hardening)

The round-trip theorems of parts 1–3 quantify over **all** field values, so they already cover every
payload content.  This part states the consequence that matters for payload fields directly, on the
decode side and for arbitrary received bits: the decoder returns exactly the received bits at the
field's position, for every value of the selector fields (alias data format, FLCO, opcode,
announcement type, port identifiers, block type) — it neither interprets nor drops nor rewrites a byte
order mark, a NUL, a line end or any other token — and the encoder writes the field's bits verbatim at
that position.  The harness drives the real code with a dictionary of such tokens at every octet
offset of every such field, crossed with every selector value, against these models.

Non-vacuity: kernel-evaluated witnesses with byte order marks / NUL / CR LF in a Talker Alias header,
for all four data formats and every octet offset.
-/

namespace Dmr.C03c
open Dmr Dmr.Gen

/-! ## decode side: what is returned is what was received -/

/-- Talker Alias header (any data format): six data octets, 49th bit, length = the received bits -/
theorem flc_alias_header_verbatim (bs : Bits) (p : FullLc) (h : FullLc.dec bs = .ok p)
    (fmt len : Nat) (msb : Bool) (data : Bytes) (hp : p.payload = .talkerAliasHeader fmt len msb data) :
    data = bitsToBytes (slice bs 24 48) ∧ msb = getBit bs 23 ∧ len = getField bs 18 5 :=
  FullLc.dec_alias_header_verbatim bs p h fmt len msb data hp

/-- … and all six octets are there, whatever they are (96- and 77-bit form) -/
theorem flc_alias_header_six_octets (bs : Bits) (hl : bs.length = 96 ∨ bs.length = 77) (p : FullLc)
    (h : FullLc.dec bs = .ok p) (fmt len : Nat) (msb : Bool) (data : Bytes)
    (hp : p.payload = .talkerAliasHeader fmt len msb data) : data.length = 6 := by
  have hw := FullLc.dec_wf bs hl p h
  unfold FullLc.WF at hw
  rw [hp] at hw
  exact hw.2.2.2.2.1

/-- Talker Alias blocks 1–3: seven data octets = the received bits -/
theorem flc_alias_block_verbatim (bs : Bits) (p : FullLc) (h : FullLc.dec bs = .ok p)
    (c : Nat) (data : Bytes) (hp : p.payload = .talkerAliasBlock c data) :
    data = bitsToBytes (slice bs 16 56) := FullLc.dec_alias_block_verbatim bs p h c data hp

/-- full LC check field (kept verbatim) = the received tail -/
theorem flc_crc_verbatim (bs : Bits) (p : FullLc) (h : FullLc.dec bs = .ok p) :
    p.crc = if bs.length ≥ 96 then slice bs 72 24 else slice bs 72 5 := FullLc.dec_crc_verbatim bs p h

/-- CSBK Hytera IPSC sync: eight raw octets = the received bits -/
theorem csbk_raw_verbatim (f : Bits → Nat) (bs : Bits) (p : Csbk) (h : Csbk.dec f bs = .ok p)
    (raw : Bytes) (hp : p.payload = .hyteraIpscSync raw) : raw = bitsToBytes (slice bs 16 64) :=
  Csbk.dec_raw_verbatim f bs p h raw hp

/-- CSBK C_BCAST (any announcement type): the 38 parameter bits = received bits 21..34 ++ 56..79 -/
theorem csbk_broadcast_verbatim (f : Bits → Nat) (bs : Bits) (p : Csbk) (h : Csbk.dec f bs = .ok p)
    (at' : Nat) (params : Bits) (reg : Bool) (backoff sys : Nat)
    (hp : p.payload = .broadcast at' params reg backoff sys) :
    params = slice bs 21 14 ++ slice bs 56 24 :=
  Csbk.dec_broadcast_verbatim f bs p h at' params reg backoff sys hp

/-- PI header: data octets = the received bits without the last 16 -/
theorem pi_data_verbatim (f : Bits → Nat) (bs : Bits) (p : PiHeader) (h : PiHeader.dec f bs = .ok p) :
    p.data = bitsToBytes (bs.take (bs.length - 16)) := PiHeader.dec_data_verbatim f bs p h

/-- short LC activity update: the two hashed addresses = the received bits -/
theorem slc_addresses_verbatim (g : Bits → Bits) (bs : Bits) (p : ShortLc) (h : ShortLc.dec g bs = .ok p)
    (t1 t2 : Nat) (a1 a2 : Bits) (hp : p.payload = .activity t1 t2 a1 a2) :
    a1 = slice bs 12 8 ∧ a2 = slice bs 20 8 := ShortLc.dec_addresses_verbatim g bs p h t1 t2 a1 a2 hp

/-- UDP/IPv4 compressed header: user data = everything received after the 40 / 56 / 72 header bits,
whatever its content and length -/
theorem udp_user_data_verbatim (bs : Bits) (p : UdpHeader) (h : UdpHeader.dec bs = .ok p) :
    p.userData = bs.drop (40 + 16 * ((if p.extendedHeader1.isSome then 1 else 0)
      + (if p.extendedHeader2.isSome then 1 else 0))) := UdpHeader.dec_user_data_verbatim bs p h

/-- rate ½ / ¾ / 1 blocks: data octets = the received bits at the position the block type fixes -/
theorem rate_data_verbatim (c : RateCfg) (f9 : Bytes → Nat → Nat → Nat) (t : RateType) (bs : Bits) (p : RateData)
    (h : RateData.dec c f9 t bs = .ok p) :
    p.data = match t with
      | .undefined | .unconfirmed => bitsToBytes bs
      | .confirmed => bitsToBytes (slice bs 16 (8 * c.total - 16))
      | .confirmedLast => bitsToBytes (slice bs 16 (8 * c.total - 48))
      | .unconfirmedLast => bitsToBytes (slice bs 0 (8 * c.total - 32)) :=
  RateData.dec_data_verbatim c f9 t bs p h

/-! ## check fields: the received field, verbatim (round 3)

The CRC-field instances of the statements above.  They hold for **every** opcode, feature set id, data packet
format and block type (all are quantified through `bs`) and for every relation between the received check value
and the right one — right, octets exchanged, bits reversed, complemented, rotated, masked with another data
type's mask, unmasked, not inverted, computed by another CRC convention: `f` / `g` / `f9` (the right value) do not
occur in the conclusions.  The one value a constructor replaces is its all-zero "compute it" sentinel.  The harness
drives the real code with all those transforms of the right value (taken from the library's CRC and from an
independent computation), crossed with every opcode / feature set id / selector value, against these models. -/

/-- CSBK (all nine opcodes, every feature set id): a non-zero received CRC field is returned as it is -/
theorem csbk_crc_verbatim (f : Bits → Nat) (bs : Bits) (p : Csbk) (h : Csbk.dec f bs = .ok p)
    (hz : getField bs 80 16 ≠ 0) : p.crc = getField bs 80 16 := Csbk.dec_crc_verbatim f bs p h hz

/-- … and an all-zero one is the sentinel: replaced by the CRC function of the 80 bits the object serialises to -/
theorem csbk_crc_zero (f : Bits → Nat) (bs : Bits) (p : Csbk) (h : Csbk.dec f bs = .ok p)
    (hz : getField bs 80 16 = 0) : p.crc = f (slice (Csbk.enc { p with crc := 0 }) 0 80) :=
  Csbk.dec_crc_zero f bs p h hz

/-- … and `as_bits` writes the CRC attribute at bits 80..95 as it is -/
theorem csbk_crc_enc_verbatim (p : Csbk) (h : p.WF) : slice (Csbk.enc p) 80 16 = natToBits 16 p.crc :=
  Csbk.enc_crc_verbatim p h

/-- data header (all five formats): a non-zero received CRC field is returned as it is -/
theorem dh_crc_verbatim (f : Bits → Nat) (bs : Bits) (p : DataHeader) (h : DataHeader.dec f bs = .ok p)
    (hz : allZero (slice bs 80 16) = false) : p.crc = slice bs 80 16 := DataHeader.dec_crc_verbatim f bs p h hz

theorem dh_crc_enc_verbatim (p : DataHeader) (h : p.WF) : slice (DataHeader.enc p) 80 16 = p.crc :=
  DataHeader.enc_crc_verbatim p h

/-- short LC (both SLCOs): a non-zero received CRC-8 is returned as it is, in the order it was received -/
theorem slc_crc_verbatim (g : Bits → Bits) (bs : Bits) (p : ShortLc) (h : ShortLc.dec g bs = .ok p)
    (hz : allZero (slice bs 28 8) = false) : p.crc = slice bs 28 8 := ShortLc.dec_crc_verbatim g bs p h hz

theorem slc_crc_enc_verbatim (p : ShortLc) (h : p.WF) : slice (ShortLc.enc p) 28 8 = p.crc :=
  ShortLc.enc_crc_verbatim p h

/-- rate ½ / ¾ / 1 blocks: serial number, CRC-9 (sent least significant bit first; non-zero) and CRC-32 are the
received bits at the position the block type fixes -/
theorem rate_checks_verbatim (c : RateCfg) (f9 : Bytes → Nat → Nat → Nat) (t : RateType) (bs : Bits) (p : RateData)
    (h : RateData.dec c f9 t bs = .ok p) :
    (t = .confirmed ∨ t = .confirmedLast →
        p.dbsn = getField bs 0 7 ∧ (bitsToNat (slice bs 7 9).reverse ≠ 0 → p.crc9 = bitsToNat (slice bs 7 9).reverse))
    ∧ (t = .unconfirmedLast ∨ t = .confirmedLast → p.crc32 = getField bs (8 * c.total - 32) 32) :=
  RateData.dec_checks_verbatim c f9 t bs p h

/-- non-vacuity, the shape of the seeded change: a Hytera IPSC sync CSBK with feature set id 0x08 / 0x68 whose CRC
field is the right CRC (whatever `f` says it is: here the constant 0xD834) with its two octets exchanged decodes to
that exchanged value, and re-serialises to the received bits -/
example : ([0x08, 0x68].all fun fid =>
    let bs := bytesToBits [0x88, fid, 0x00, 0x00, 0x09, 0x5A, 0x23, 0x43, 0xAE, 0x20, 0x34, 0xD8]
    match Csbk.dec (fun _ => 0xD834) bs with
    | .ok p => p.crc == 0x34D8 && Csbk.enc p == bs && p.payload == .hyteraIpscSync [0x00, 0x00, 0x09, 0x5A, 0x23, 0x43, 0xAE, 0x20]
    | .error _ => false) = true := by decide +kernel

/-! ## encode side: the field's bits stand at the field's position -/

theorem flc_alias_header_enc_verbatim (pf : Bool) (fid : Nat) (crc : Bits) (fmt len : Nat) (msb : Bool)
    (data : Bytes) (hd : data.length = 6) :
    slice (FullLc.enc ⟨pf, fid, crc, .talkerAliasHeader fmt len msb data⟩) 24 48 = bytesToBits data :=
  FullLc.enc_alias_header_verbatim pf fid crc fmt len msb data hd

theorem flc_alias_block_enc_verbatim (pf : Bool) (fid : Nat) (crc : Bits) (c : Nat) (data : Bytes)
    (hd : data.length = 7) :
    slice (FullLc.enc ⟨pf, fid, crc, .talkerAliasBlock c data⟩) 16 56 = bytesToBits data :=
  FullLc.enc_alias_block_verbatim pf fid crc c data hd

theorem csbk_raw_enc_verbatim (lb pf : Bool) (fid crc : Nat) (raw : Bytes) (hd : raw.length = 8) :
    slice (Csbk.enc ⟨lb, pf, fid, crc, .hyteraIpscSync raw⟩) 16 64 = bytesToBits raw :=
  Csbk.enc_raw_verbatim lb pf fid crc raw hd

theorem pi_data_enc_verbatim (p : PiHeader) :
    (PiHeader.enc p).take ((PiHeader.enc p).length - 16) = bytesToBits p.data := PiHeader.enc_data_verbatim p

theorem udp_user_data_enc_verbatim (p : UdpHeader) :
    (UdpHeader.enc p).drop (40 + (UdpHeader.optBits p.extendedHeader1).length
      + (UdpHeader.optBits p.extendedHeader2).length) = p.userData := UdpHeader.enc_user_data_verbatim p

/-! ## non-vacuity: special tokens in a Talker Alias header, every format, every octet offset -/

/-- byte order marks (UTF-16 LE / BE, UTF-8), NUL run, CR LF, all-ones -/
def tokens : List Bytes := [[0xFF, 0xFE], [0xFE, 0xFF], [0xEF, 0xBB, 0xBF], [0, 0], [0x0D, 0x0A], [0xFF, 0xFF]]

/-- six octets `0x41 …` with the token written at octet offset `off` (truncated at the end) -/
def place (tok : Bytes) (off : Nat) : Bytes :=
  ((List.replicate off 0x41 ++ tok) ++ List.replicate 6 0x41).take 6

/-- one header with the token: built, serialised to 96 bits, decoded to the same object -/
def headerOk (fmt : Nat) (tok : Bytes) (off : Nat) : Bool :=
  let p : FullLc := ⟨false, 0, zeros 24, .talkerAliasHeader fmt 7 false (place tok off)⟩
  decide p.WF && (FullLc.enc p).length == 96 &&
    (match FullLc.dec (FullLc.enc p) with
     | .ok q => decide (q = p)
     | .error _ => false)

def tokenHeadersOk : Bool :=
  [0, 1, 2, 3].all fun fmt => tokens.all fun tok => (List.range 6).all fun off => headerOk fmt tok off

/-- 4 formats × 6 tokens × 6 octet offsets: every header round-trips with all six octets (kernel evaluation) -/
theorem flc_alias_header_tokens : tokenHeadersOk = true := by decide +kernel

/-- the header of the seeded counter-example class: UTF-16-LE format, `FF FE` at octets 1..2 -/
example : place [0xFF, 0xFE] 1 = [0x41, 0xFF, 0xFE, 0x41, 0x41, 0x41] := by decide
example : headerOk 3 [0xFF, 0xFE] 1 = true := by decide +kernel

/-- a received header `04 00 da 00 ff fe 4f 00 4b 12 34 56` keeps its six alias octets `00 ff fe 4f 00 4b`
and re-serialises to the 96 bits that were received -/
example : (FullLc.dec (bytesToBits [0x04, 0x00, 0xDA, 0x00, 0xFF, 0xFE, 0x4F, 0x00, 0x4B, 0x12, 0x34, 0x56])).toOption.map
    (fun q => (q.payload, FullLc.enc q == bytesToBits [0x04, 0x00, 0xDA, 0x00, 0xFF, 0xFE, 0x4F, 0x00, 0x4B, 0x12, 0x34, 0x56]))
    = some (.talkerAliasHeader 3 13 false [0x00, 0xFF, 0xFE, 0x4F, 0x00, 0x4B], true) := by decide +kernel

end Dmr.C03c
