import DmrVerif.Lemmas.IntegrityHrnpFix
import DmrVerif.Props.C04

/-!
# C04 — HRNP: the two packet-length octets and bursts (core Lean)

**The length octets, now.**  `HRNP.from_bytes` cross-checks the announced length of a DATA packet with the
length its HDAP message states (`hrnpLenOk`, repair of the defect below).  `hrnp_single_bit`: one inverted
bit **anywhere** in an accepted DATA packet — header, the two length octets, checksum field, payload —
is never accepted; `hrnp_single_bit_in_context`: the same with any octets following the packet in the
buffer; `hrnp_serialised_single_bit`: spelled out for what `as_bytes` assembles.  `hrnp_length_octet_any`:
a length octet of a DATA packet replaced by *any* other value.  `hrnp_length_witness_rejected`: the
historical witness.  (`hrnp_single_bit_partial` of `Props/C04` stays: it needs no opcode.)

**The length octets, before the repair** (`hrnpDecOld` = the code between 4e51d6f and the repair, kept in
the model; these theorems are history and explain the defect).  A bit of the length that is set in an
exact-length buffer was rejected by `assert len(data) >= hrnp_packet_len` (`hrnp_old_length_bit_set_exact`);
a cleared bit made the parser sum a shorter range and was accepted iff `2^b·w` + the word sum of the
octets cut off ≡ 0 (mod 65535) (`hrnp_old_length_bit_cleared_iff`; `…_set_iff` with trailing context;
`hrnp_old_relength_iff` for any other length; `hrnp_old_single_bit_iff` the exact accepted set).
`hrnp_old_single_bit_false`: a packet the library serialises (TMP private short data in HRNP DATA) whose
length bit 36 → 32 was accepted with a shorter `short_data` — replayed on the code before the repair.

**Bursts.**  The covered octets spell one big-endian number; 65536 ≡ 1 (mod 65535) makes the word sum
congruent to it, and a power of two is invertible modulo 65535.  Hence (`hrnp_burst_iff`,
`hrnp_burst_in_payload_iff`): a change confined to sixteen consecutive bits — at *any* bit offset — keeps
the check sum iff the sixteen bits went from all-zero to all-one or back (and some other bit is set).
Every burst of at most 15 bits is detected (`hrnp_burst_short_detected`: a window in which at least one bit
is unchanged); a burst of exactly the check width, 16 bits, is **not** always detected: the classical
`0x0000 ↔ 0xFFFF` exception of the ones' complement sum, inherent to the checksum the protocol prescribes
(known finding `hrnp-burst16-zero-ones`; `hrnp_burst_witness`, a captured packet, aligned and unaligned
window, accepted by the real code with another RCP payload).
-/

namespace Dmr.C04
open Dmr Dmr.Crc Dmr.Integrity Dmr.Gen Dmr.Gen.Integrity

/-! ## the announced length before the repair (`hrnpDecOld`) -/

/-- **another announced length.**  `d` is accepted under its announced length `P`; `d'` is the same
buffer with the length octets replaced by `a`, `c` (`Q = a·256 + c`).  Shorter: accepted iff the HDAP
stage does not raise, `P - Q` + the word sum of the octets cut off is a multiple of 65535 and the shorter
range does not sum to zero.  Longer: the same with the roles exchanged, and the buffer must hold `Q`
octets. -/
theorem hrnp_old_relength_iff (d d' : Bytes) (a c : Nat) (hd : hrnpDecOld d false = .ok true)
    (r : Relen d d' a c) (hf : Bool) :
    (a * 256 + c < be16 ((d.take 10).drop 8) →
      (hrnpDecOld d' hf = .ok true ↔ hf = false
        ∧ (be16 ((d.take 10).drop 8) - (a * 256 + c)
            + lenTail d (a * 256 + c) (be16 ((d.take 10).drop 8))) % 65535 = 0
        ∧ a * 256 + c + (words16 (d.take 8)).sum ≠ 0))
    ∧ (be16 ((d.take 10).drop 8) < a * 256 + c →
      (hrnpDecOld d' hf = .ok true ↔ hf = false ∧ a * 256 + c ≤ d.length
        ∧ (a * 256 + c - be16 ((d.take 10).drop 8)
            + lenTail d (be16 ((d.take 10).drop 8)) (a * 256 + c)) % 65535 = 0
        ∧ be16 ((d.take 10).drop 8) + (words16 (d.take 8)).sum ≠ 0)) :=
  hrnp_relen d d' a c hd r hf

/-- **one cleared bit of the packet length** (octet `j` ∈ {8, 9} lowered by `2^b`; weight 256 / 1):
accepted iff the HDAP stage does not raise and `2^b·w` + the word sum of the octets cut off ≡ 0
(mod 65535) (and the shorter range does not sum to zero) -/
theorem hrnp_old_length_bit_cleared_iff (d : Bytes) (hd : hrnpDecOld d false = .ok true) (j y b : Nat)
    (hj : j = 8 ∨ j = 9) (hy : d.getD j 0 = y + 2 ^ b) (hdapFails : Bool) :
    hrnpDecOld (d.set j y) hdapFails = .ok true ↔ hdapFails = false
      ∧ (2 ^ b * wt j + lenTail d (be16 ((d.take 10).drop 8) - 2 ^ b * wt j)
          (be16 ((d.take 10).drop 8))) % 65535 = 0
      ∧ be16 ((d.take 10).drop 8) - 2 ^ b * wt j + (words16 (d.take 8)).sum ≠ 0 :=
  hrnp_length_lowered d hd j y (2 ^ b) hj (Nat.two_pow_pos b) hy hdapFails

/-- **one set bit of the packet length**: accepted iff the HDAP stage does not raise, the buffer holds
the longer length, and `2^b·w` + the word sum of the octets read beyond the packet ≡ 0 (mod 65535) -/
theorem hrnp_old_length_bit_set_iff (d : Bytes) (hd : hrnpDecOld d false = .ok true) (j y b : Nat)
    (hj : j = 8 ∨ j = 9) (hy : y = d.getD j 0 + 2 ^ b) (hdapFails : Bool) :
    hrnpDecOld (d.set j y) hdapFails = .ok true ↔ hdapFails = false
      ∧ be16 ((d.take 10).drop 8) + 2 ^ b * wt j ≤ d.length
      ∧ (2 ^ b * wt j + lenTail d (be16 ((d.take 10).drop 8))
          (be16 ((d.take 10).drop 8) + 2 ^ b * wt j)) % 65535 = 0
      ∧ be16 ((d.take 10).drop 8) + (words16 (d.take 8)).sum ≠ 0 :=
  hrnp_length_raised d hd j y (2 ^ b) hj (Nat.two_pow_pos b) hy hdapFails

/-- **one set bit of the packet length, exact-length buffer**: `assert len(data) >= hrnp_packet_len`
fails — a decode error -/
theorem hrnp_old_length_bit_set_exact (d : Bytes) (hd : hrnpDecOld d false = .ok true)
    (hex : d.length = be16 ((d.take 10).drop 8)) (j y b : Nat) (hj : j = 8 ∨ j = 9)
    (hy : y = d.getD j 0 + 2 ^ b) (hdapFails : Bool) :
    hrnpDecOld (d.set j y) hdapFails = .error .assertionError :=
  hrnp_length_raised_exact d (hrnpDecOld_true d false hd).1 hex j y (2 ^ b) hj (Nat.two_pow_pos b) hy hdapFails

/-- the packet `HRNP(data=TextMessageProtocol(PrivateShortData, request_id=1, destination 2001, source
2002, short_data=b6 00 00 00 f8), opcode=DATA, packet_number=7).as_bytes()` -/
def lenSent : Bytes :=
  [0x7e, 0x04, 0x00, 0x00, 0x20, 0x10, 0x00, 0x07, 0x00, 0x24, 0xf4, 0xe9, 0x09, 0x00, 0xae, 0x00, 0x11,
   0x00, 0x00, 0x00, 0x01, 0x0a, 0x00, 0x07, 0xd1, 0x0a, 0x00, 0x07, 0xd2, 0xb6, 0x00, 0x00, 0x00, 0xf8,
   0xff, 0x03]

/-- **the full statement is false**: `lenSent` is accepted, holds exactly its announced 36 octets, and
with bit 2 of octet 9 inverted (36 → 32) it is accepted again (HDAP stage of the real code does not
raise: it reads `short_data = b6 00 00`) -/
theorem hrnp_old_single_bit_false :
    ∃ (d : Bytes) (j y b : Nat), hrnpDecOld d false = .ok true ∧ d.length = be16 ((d.take 10).drop 8)
      ∧ j < be16 ((d.take 10).drop 8) ∧ b < 8 ∧ d.getD j 0 = y + 2 ^ b
      ∧ hrnpDecOld (d.set j y) false = .ok true :=
  ⟨lenSent, 9, 0x20, 2, by rfl, by rfl, by decide, by decide, by rfl, by rfl⟩

/-- **one inverted bit, every octet inside the announced length — the exact accepted set**: accepted
iff the octet is one of the two length octets and the arithmetic condition of its direction holds -/
theorem hrnp_old_single_bit_iff (d : Bytes) (hd : hrnpDecOld d false = .ok true) (j y b : Nat)
    (hj : j < be16 ((d.take 10).drop 8)) (hb : b < 8)
    (hy : y = d.getD j 0 + 2 ^ b ∨ d.getD j 0 = y + 2 ^ b) (hdapFails : Bool) :
    hrnpDecOld (d.set j y) hdapFails = .ok true ↔ (j = 8 ∨ j = 9) ∧ hdapFails = false
      ∧ ((d.getD j 0 = y + 2 ^ b
          ∧ (2 ^ b * wt j + lenTail d (be16 ((d.take 10).drop 8) - 2 ^ b * wt j)
              (be16 ((d.take 10).drop 8))) % 65535 = 0
          ∧ be16 ((d.take 10).drop 8) - 2 ^ b * wt j + (words16 (d.take 8)).sum ≠ 0)
        ∨ (y = d.getD j 0 + 2 ^ b
          ∧ be16 ((d.take 10).drop 8) + 2 ^ b * wt j ≤ d.length
          ∧ (2 ^ b * wt j + lenTail d (be16 ((d.take 10).drop 8))
              (be16 ((d.take 10).drop 8) + 2 ^ b * wt j)) % 65535 = 0
          ∧ be16 ((d.take 10).drop 8) + (words16 (d.take 8)).sum ≠ 0)) := by
  have hpos := Nat.two_pow_pos b
  by_cases h89 : j = 8 ∨ j = 9
  · rcases hy with hy | hy
    · rw [hrnp_old_length_bit_set_iff d hd j y b h89 hy hdapFails]
      constructor
      · rintro ⟨h1, h2⟩; exact ⟨h89, h1, Or.inr ⟨hy, h2⟩⟩
      · rintro ⟨_, h1, h | h⟩
        · omega
        · exact ⟨h1, h.2⟩
    · rw [hrnp_old_length_bit_cleared_iff d hd j y b h89 hy hdapFails]
      constructor
      · rintro ⟨h1, h2⟩; exact ⟨h89, h1, Or.inl ⟨hy, h2⟩⟩
      · rintro ⟨_, h1, h | h⟩
        · exact ⟨h1, h.2⟩
        · omega
  · constructor
    · intro h
      exact absurd h (hrnp_single_bit d hd j y b hj (by omega) (by omega) hb hy hdapFails)
    · rintro ⟨h, _⟩; exact absurd h h89

/-! ## the announced length after the repair -/

/-- a length octet of an accepted DATA packet replaced by **any** other value: never accepted -/
theorem hrnp_length_octet_any (d : Bytes) (hd : hrnpDec d false = .ok true)
    (hop : d.getD 3 0 = hrnpData) (j y : Nat) (hj : j = 8 ∨ j = 9) (hy : y ≠ d.getD j 0)
    (hdapFails : Bool) : hrnpDec (d.set j y) hdapFails ≠ .ok true :=
  hrnp_length_octet_detected d hd hop j y hj hy hdapFails

/-- **one inverted bit anywhere in an accepted DATA packet** (every octet inside the announced length:
header, the two length octets, the checksum field, the payload): never accepted — indicator false or a
decode error —, whatever the HDAP stage does -/
theorem hrnp_single_bit (d : Bytes) (hd : hrnpDec d false = .ok true) (hop : d.getD 3 0 = hrnpData)
    (j y b : Nat) (hj : j < be16 ((d.take 10).drop 8)) (hb : b < 8)
    (hy : y = d.getD j 0 + 2 ^ b ∨ d.getD j 0 = y + 2 ^ b) (hdapFails : Bool) :
    hrnpDec (d.set j y) hdapFails ≠ .ok true := by
  have hpos := Nat.two_pow_pos b
  by_cases h89 : j = 8 ∨ j = 9
  · exact hrnp_length_octet_detected d hd hop j y h89 (by omega) hdapFails
  · exact hrnp_single_bit_partial d hd j y b hj (by omega) (by omega) hb hy hdapFails

/-- **the same with anything following the packet in the buffer** (a set length bit then makes the
parser read into what follows: rejected all the same) -/
theorem hrnp_single_bit_in_context (d t : Bytes) (hd : hrnpDec d false = .ok true)
    (hop : d.getD 3 0 = hrnpData) (j y b : Nat) (hj : j < be16 ((d.take 10).drop 8)) (hb : b < 8)
    (hy : y = d.getD j 0 + 2 ^ b ∨ d.getD j 0 = y + 2 ^ b) (hdapFails : Bool) :
    hrnpDec (d.set j y ++ t) hdapFails ≠ .ok true := by
  obtain ⟨h12, hP, _⟩ := hrnpDecOld_true d false ((hrnpDec_true_iff d false).mp hd).1
  have hdt : hrnpDec (d ++ t) false = .ok true := by rw [hrnpDec_append' d t false h12 hP]; exact hd
  have hopt : (d ++ t).getD 3 0 = hrnpData := by rw [getD_append_left' _ _ _ (by omega)]; exact hop
  have hjd : j < d.length := by omega
  have hP' : be16 (((d ++ t).take 10).drop 8) = be16 ((d.take 10).drop 8) := by
    rw [List.take_append_of_le_length (by omega)]
  rw [← List.set_append_left _ _ hjd]
  apply hrnp_single_bit (d ++ t) hdt hopt j y b (by rw [hP']; exact hj) hb
  rw [getD_append_left' _ _ _ hjd]; exact hy

/-- **library-serialised DATA packets**: what `as_bytes` assembles around an HDAP message, one bit
inverted anywhere, anything after it in the buffer — never accepted -/
theorem hrnp_serialised_single_bit (hd ver blk src dst pn : Nat) (inner t : Bytes)
    (hlen : 12 + inner.length < 65536) (hin : HdapFramed inner) (j y b : Nat)
    (hj : j < be16 (((hrnpEnc hd ver blk hrnpData src dst pn inner).take 10).drop 8)) (hb : b < 8)
    (hy : y = (hrnpEnc hd ver blk hrnpData src dst pn inner).getD j 0 + 2 ^ b
      ∨ (hrnpEnc hd ver blk hrnpData src dst pn inner).getD j 0 = y + 2 ^ b) (hdapFails : Bool) :
    hrnpDec ((hrnpEnc hd ver blk hrnpData src dst pn inner).set j y ++ t) hdapFails ≠ .ok true :=
  hrnp_single_bit_in_context _ t
    (hrnp_selfcheck hd ver blk hrnpData src dst pn inner (by decide) hlen (fun _ => hin)) rfl j y b hj hb hy
    hdapFails

/-- the historical witness: accepted as sent; with bit 2 of octet 9 inverted the checksum still matches
(`hrnpDecOld`), the cross-check fails (36 − 4 ≠ 19 + 17) and the verdict is `checksum_correct = False` -/
theorem hrnp_length_witness_rejected :
    hrnpDec lenSent false = .ok true ∧ hrnpDecOld (lenSent.set 9 0x20) false = .ok true
      ∧ hrnpDec (lenSent.set 9 0x20) false = .ok false
      ∧ hrnpDec (lenSent.set 9 0x20 ++ [0x7e, 0x04]) false = .ok false :=
  ⟨by rfl, by rfl, by rfl, by rfl⟩

/-! ## bursts -/

/-- **sixteen consecutive bits of the covered octets** (`m` = the octets the checksum covers, as one
big-endian number after the zero padding of an odd string; the window lies `k` bits from the end, held
`V`, holds `V' ≠ V`; `X` = all other bits): the check sums agree iff the window was inverted from
all-zero to all-one or back, and some bit outside is set -/
theorem hrnp_burst_iff (m m' : Bytes) (X V V' k : Nat) (hN : beNat (padded m) = X + V * 2 ^ k)
    (hN' : beNat (padded m') = X + V' * 2 ^ k) (hV : V < 65536) (hV' : V' < 65536) (hne : V ≠ V') :
    hrnpChecksum m' = hrnpChecksum m ↔ ((V = 0 ∧ V' = 65535) ∨ (V = 65535 ∧ V' = 0)) ∧ X ≠ 0 :=
  hrnp_window_iff m m' X V V' k hN hN' hV hV' hne

/-- **the same for the parser**: `d` accepted, `d'` of the same length with the same first twelve
octets (header, length, checksum field untouched) and a 16-bit window of the payload changed; the
length cross-check reads payload octets 12, 15, 16, so it stays a condition on `d'` -/
theorem hrnp_burst_in_payload_iff (d d' : Bytes) (hd : hrnpDec d false = .ok true)
    (hl : d'.length = d.length) (hh : d'.take 12 = d.take 12) (X V V' k : Nat)
    (hN : beNat (padded (hrnpCovered d)) = X + V * 2 ^ k)
    (hN' : beNat (padded (hrnpCovered d')) = X + V' * 2 ^ k) (hV : V < 65536) (hV' : V' < 65536)
    (hne : V ≠ V') (hdapFails : Bool) :
    hrnpDec d' hdapFails = .ok true ↔ (hdapFails = false
      ∧ ((V = 0 ∧ V' = 65535) ∨ (V = 65535 ∧ V' = 0)) ∧ X ≠ 0) ∧ hrnpLenOk d' = true := by
  rw [hrnpDec_true_iff, hrnpDecOld_same_head d d' ((hrnpDec_true_iff d false).mp hd).1 hl hh hdapFails,
    hrnp_window_iff _ _ X V V' k hN hN' hV hV' hne]

/-- **every burst of at most 15 bits is detected** — more generally every change inside a 16-bit window
that leaves at least one bit of the window as it was (`V xor V' ≠ 0xFFFF`) -/
theorem hrnp_burst_short_detected (d d' : Bytes) (hd : hrnpDec d false = .ok true)
    (hl : d'.length = d.length) (hh : d'.take 12 = d.take 12) (X V V' k : Nat)
    (hN : beNat (padded (hrnpCovered d)) = X + V * 2 ^ k)
    (hN' : beNat (padded (hrnpCovered d')) = X + V' * 2 ^ k) (hV : V < 65536) (hV' : V' < 65536)
    (hne : V ≠ V') (hx : V ^^^ V' ≠ 65535) (hdapFails : Bool) :
    hrnpDec d' hdapFails ≠ .ok true := by
  intro h
  rw [hrnp_burst_in_payload_iff d d' hd hl hh X V V' k hN hN' hV hV' hne] at h
  rcases h.1.2.1 with ⟨rfl, rfl⟩ | ⟨rfl, rfl⟩ <;> exact hx (by decide)

/-- a captured RCP packet (corpus of the harness) -/
def burstSent : Bytes :=
  [0x7e, 0x04, 0x00, 0x00, 0x20, 0x10, 0x00, 0x01, 0x00, 0x18, 0x9b, 0x60, 0x02, 0x04, 0x00, 0x05, 0x00,
   0x64, 0x00, 0x00, 0x00, 0x01, 0xc4, 0x03]
/-- octets 18, 19: `00 00 → ff ff` -/
def burstAligned : Bytes := (burstSent.set 18 0xff).set 19 0xff
/-- the sixteen bits from bit 4 of octet 18: `00 00 00 → 0f ff f0` -/
def burstUnaligned : Bytes := ((burstSent.set 18 0x0f).set 19 0xff).set 20 0xf0

/-- **a burst of the check width is not always detected**: the classical `0x0000 ↔ 0xFFFF` exception,
in a word of the sum and across two words; both instances of `hrnp_burst_in_payload_iff` -/
theorem hrnp_burst_witness :
    hrnpDec burstSent false = .ok true
    ∧ hrnpDec burstAligned false = .ok true ∧ hrnpDec burstUnaligned false = .ok true
    ∧ beNat (padded (hrnpCovered burstSent)) = beNat (padded (hrnpCovered burstSent)) + 0 * 2 ^ 32
    ∧ beNat (padded (hrnpCovered burstAligned)) = beNat (padded (hrnpCovered burstSent)) + 65535 * 2 ^ 32
    ∧ beNat (padded (hrnpCovered burstUnaligned)) = beNat (padded (hrnpCovered burstSent)) + 65535 * 2 ^ 28 := by
  refine ⟨by rfl, by rfl, by rfl, by rfl, by decide +kernel, by decide +kernel⟩

/-! ## non-vacuity -/

example : Relen lenSent (lenSent.set 9 0x20) 0x00 0x20 := relen_set9 lenSent (by decide) 0x20
example : hrnpDec lenSent false = .ok true ∧ lenSent.getD 3 0 = hrnpData ∧ lenSent.getD 9 0 = 0x20 + 2 ^ 2 := ⟨by rfl, by rfl, by rfl⟩
/-- the arithmetic condition of `hrnp_old_length_bit_cleared_iff` on the witness: 4 + 0x00f8 + 0xff03 = 65535 -/
example : (2 ^ 2 * wt 9 + lenTail lenSent (36 - 2 ^ 2 * wt 9) 36) % 65535 = 0 := by decide +kernel
/-- a 15-bit burst in the same place is an instance of `hrnp_burst_short_detected` -/
example : hrnpDec ((burstSent.set 18 0x7f).set 19 0xff) false = .ok false := by rfl
example : (0 : Nat) ^^^ 0x7fff ≠ 65535 := by decide

end Dmr.C04
