import DmrVerif.Lemmas.Codes
import DmrVerif.Lemmas.Count
import DmrVerif.Lemmas.CodesStore
import DmrVerif.Gen.Codes
import DmrVerif.Spec.EtsiCodes

/-!
# C06 — Hamming, Golay and quadratic-residue codes: exact code word sets and correction

Property theorems only.  The matrices are the ones `tools/extract.py` read from `/repo` on this run
(`Gen/Codes.lean`); the finite facts about them are decided by the kernel (`decide +kernel`, no
axioms), everything that quantifies over messages / received words is structural.
-/

namespace Dmr.C06
open Dmr Dmr.Code Dmr.Gen

/-- the seven codes of the property -/
def codes : List Code := [h743, h1393, h15113, h16114, h17123, golay2087, qr1676]
/-- the five codes served by `HammingCommon.check_and_correct` -/
def hammingCodes : List Code := [h743, h1393, h15113, h16114, h17123]

/-! ## finite facts about the extracted tables -/

theorem dims : codes.map (fun C => (C.n, C.k, C.d))
    = [(7,4,3), (13,9,3), (15,11,3), (16,11,4), (17,12,3), (20,8,7), (16,7,6)] := by decide +kernel

/-- every extracted generator is `[I | P]`, every extracted parity-check matrix is `[Pᵀ | I]` of the
same `P` (so the library's derivation of `H` is right), reference syndromes are zero -/
theorem all_wf : codes.all Code.WF = true := by decide +kernel

theorem all_minWeight : codes.all Code.minWeightOk = true := by decide +kernel

theorem hamming_cols : hammingCodes.all Code.colsOk = true := by decide +kernel

theorem h16114_pairs : h16114.pairsOk = true := by decide +kernel

/-- the generator matrices in /repo are the ones of ETSI TS 102 361-1 Annex B.3 (reference copy in
`Spec/EtsiCodes.lean`): the code word sets are *exactly* the standard's -/
theorem generators_are_etsi : codes.map (·.G)
    = [Spec.h743G, Spec.h1393G, Spec.h15113G, Spec.h16114G, Spec.h17123G, Spec.golay2087G, Spec.qr1676G] := by
  decide +kernel

theorem wf {C : Code} (h : C ∈ codes) : C.WFProp :=
  Code.wf_of_WF C (List.all_eq_true.mp all_wf C h)

theorem hamming_sub {C : Code} (h : C ∈ hammingCodes) : C ∈ codes := by
  simp only [hammingCodes, codes, List.mem_cons, List.not_mem_nil, or_false] at h ⊢
  rcases h with h | h | h | h | h <;> simp [h]

/-! ## the property -/

/-- the encoder output has `n` bits and starts with the message (systematic) -/
theorem gen_systematic {C : Code} (hC : C ∈ codes) (m : Bits) (hm : m.length = C.k) :
    (C.gen m).length = C.n ∧ (C.gen m).take C.k = m :=
  ⟨Code.gen_length m, Code.gen_take (wf hC) m hm⟩

/-- every encoder output passes the checker -/
theorem check_gen {C : Code} (hC : C ∈ codes) (m : Bits) (hm : m.length = C.k) :
    C.check (C.gen m) = true :=
  Code.check_gen (wf hC) m hm

/-- among all `2^n` words the checker accepts exactly the code words … -/
theorem check_iff {C : Code} (hC : C ∈ codes) (w : Bits) (hw : w.length = C.n) :
    C.check w = true ↔ ∃ m, m.length = C.k ∧ C.gen m = w := by
  have hwf := wf hC
  constructor
  · intro h
    exact ⟨w.take C.k, by simp [hw, hwf.kn], ((Code.check_iff hwf w hw).mp h).symm⟩
  · rintro ⟨m, hm, rfl⟩
    exact Code.check_gen hwf m hm

/-- … and there are exactly `2^k` of them: the encoder is injective on the `2^k` messages -/
theorem gen_injective {C : Code} (hC : C ∈ codes) (a b : Bits) (ha : a.length = C.k)
    (hb : b.length = C.k) (h : C.gen a = C.gen b) : a = b :=
  Code.gen_injective (wf hC) a b ha hb h

theorem message_count (k : Nat) : (allBits k).length = 2 ^ k := allBits_length k

/-- counted outright: of the `2^n` words of length `n` exactly `2^k` pass the checker -/
theorem accepted_count {C : Code} (hC : C ∈ codes) :
    (allBits C.n).length = 2 ^ C.n ∧ ((allBits C.n).filter C.check).length = 2 ^ C.k :=
  ⟨allBits_length C.n, Code.accepted_count (wf hC)⟩

/-- distinct code words differ in at least the advertised minimum distance -/
theorem min_distance {C : Code} (hC : C ∈ codes) (a b : Bits) (ha : a.length = C.k)
    (hb : b.length = C.k) (hab : a ≠ b) : C.d ≤ hammingDist (C.gen a) (C.gen b) :=
  Code.min_distance_of (wf hC) (List.all_eq_true.mp all_minWeight C hC) a b ha hb hab

/-- every Hamming code word with one inverted bit is repaired to the original -/
theorem correct_single {C : Code} (hC : C ∈ hammingCodes) (m : Bits) (hm : m.length = C.k)
    (i : Nat) (hi : i < C.n) :
    C.checkAndCorrect (flipAt i (C.gen m)) = (true, C.gen m) :=
  Code.correct_single_of (wf (hamming_sub hC)) (List.all_eq_true.mp hamming_cols C hC) m hm i hi

/-- an error-free word is returned unchanged -/
theorem correct_clean {C : Code} (hC : C ∈ codes) (m : Bits) (hm : m.length = C.k) :
    C.checkAndCorrect (C.gen m) = (true, C.gen m) := by
  unfold Code.checkAndCorrect
  rw [check_gen hC m hm]; rfl

/-- Hamming(16,11,4) reports every double error as uncorrectable and returns the word untouched -/
theorem h16114_double (m : Bits) (hm : m.length = 11) (i j : Nat) (hij : i < j) (hj : j < 16) :
    h16114.checkAndCorrect (flipAt i (flipAt j (h16114.gen m)))
      = (false, flipAt i (flipAt j (h16114.gen m))) :=
  Code.double_detected_of (wf (by simp [codes])) h16114_pairs m hm i j hij hj

/-! ## the argument as a buffer: the bit order of the bitarray is not observable

`storeOfBits e w` is `tobytes()` of a bitarray holding the logical bits `w` with `endian()` = big
(`e = false`) or little (`e = true`); `genStore / checkStore / cacStore` are the entry points seen
from the buffer (`Model/CodesStore.lean`).  The correspondence run feeds the real code bitarrays of
both bit orders and compares with these. -/

/-- the encoder output does not depend on the bit order of the message container -/
theorem gen_any_endian {C : Code} (e : Bool) (m : Bits) (hm : m.length = C.k) :
    C.genStore e (storeOfBits e m) C.k = C.gen m := by
  rw [← hm]; exact Code.genStore_store C e m

/-- in either bit order the checker accepts exactly the code words -/
theorem check_iff_any_endian {C : Code} (hC : C ∈ codes) (e : Bool) (w : Bits) (hw : w.length = C.n) :
    C.checkStore e (storeOfBits e w) C.n = true ↔ ∃ m, m.length = C.k ∧ C.gen m = w := by
  rw [← hw, Code.checkStore_store C e w]
  exact check_iff hC w hw

theorem flipAt_length (i : Nat) (w : Bits) : (flipAt i w).length = w.length := by simp [flipAt]

/-- in either bit order every Hamming code word with one inverted bit is repaired to the original
(verdict and buffer afterwards) -/
theorem correct_single_any_endian {C : Code} (hC : C ∈ hammingCodes) (e : Bool) (m : Bits)
    (hm : m.length = C.k) (i : Nat) (hi : i < C.n) :
    C.cacStore e (storeOfBits e (flipAt i (C.gen m))) C.n = (true, storeOfBits e (C.gen m)) := by
  have hl : (flipAt i (C.gen m)).length = C.n := by rw [flipAt_length, Code.gen_length]
  rw [← hl, Code.cacStore_store, correct_single hC m hm i hi]

/-- in either bit order Hamming(16,11,4) reports every double error and leaves the buffer alone -/
theorem h16114_double_any_endian (e : Bool) (m : Bits) (hm : m.length = 11) (i j : Nat) (hij : i < j)
    (hj : j < 16) :
    h16114.cacStore e (storeOfBits e (flipAt i (flipAt j (h16114.gen m)))) 16
      = (false, storeOfBits e (flipAt i (flipAt j (h16114.gen m)))) := by
  have hl : (flipAt i (flipAt j (h16114.gen m))).length = 16 := by
    rw [flipAt_length, flipAt_length, Code.gen_length]; rfl
  rw [← hl, Code.cacStore_store, h16114_double m hm i j hij hj]

/-! ## histories: results that the caller keeps

`Heap` lists the objects handed out so far, `HOp.run` is one call (or one overwrite by the caller),
`runHistory` a whole history (`Model/CodesStore.lean`).  The correspondence run keeps every object
the real code returns and reads all of them back at the end of the history. -/

/-- the array returned by `generate` still holds its code word after any further history of calls
and caller overwrites of *other* objects -/
theorem held_codeword (C : Code) (h : Heap) (m : Bits) (ops : List HOp)
    (hops : ∀ op ∈ ops, op.target ≠ some h.size) :
    (runHistory ((HOp.gen C m).run h) ops).read h.size = some (C.gen m) := by
  rw [read_runHistory _ ops h.size (by simp [HOp.run, Heap.size_push]) hops]
  exact Heap.read_push_new h (C.gen m)

/-- the code book `[X.generate(m) for m in ms]`, read after all encodes and after any further
history that overwrites none of its arrays: entry `i` is systematic for message `i`, passes the
checker, and entries of distinct messages differ in at least `d` positions -/
theorem held_codebook {C : Code} (hC : C ∈ codes) (ms : List Bits) (hms : ∀ m ∈ ms, m.length = C.k)
    (ops : List HOp) (hops : ∀ op ∈ ops, ∀ r, op.target = some r → ms.length ≤ r)
    (i j : Nat) (hi : i < ms.length) (hj : j < ms.length) :
    ∃ a b, (runHistory (C.genAll Heap.empty ms) ops).read i = some a
      ∧ (runHistory (C.genAll Heap.empty ms) ops).read j = some b
      ∧ a.length = C.n ∧ a.take C.k = ms[i] ∧ C.check a = true
      ∧ (ms[i] ≠ ms[j] → C.d ≤ hammingDist a b) := by
  have hsize : ms.length ≤ (C.genAll Heap.empty ms).size := by
    rw [Code.size_genAll]; simp [Heap.empty, Heap.size]
  have hread : ∀ r (hr : r < ms.length),
      (runHistory (C.genAll Heap.empty ms) ops).read r = some (C.gen ms[r]) := by
    intro r hr
    rw [read_runHistory _ ops r (Nat.lt_of_lt_of_le hr hsize)
      (fun op hop heq => by have := hops op hop r heq; omega)]
    have := Code.read_genAll C Heap.empty ms r hr
    simpa [Heap.empty, Heap.size] using this
  have hmi := hms ms[i] (List.getElem_mem hi)
  have hmj := hms ms[j] (List.getElem_mem hj)
  exact ⟨C.gen ms[i], C.gen ms[j], hread i hi, hread j hj, (gen_systematic hC _ hmi).1,
    (gen_systematic hC _ hmi).2, check_gen hC _ hmi, fun hne => min_distance hC _ _ hmi hmj hne⟩

/-! ## `correct_numpy_array`: the repair entry point that takes and returns an ndarray -/

/-- every Hamming code word with one inverted bit comes back from `correct_numpy_array` as the original -/
theorem correct_numpy_single {C : Code} (hC : C ∈ hammingCodes) (m : Bits) (hm : m.length = C.k)
    (i : Nat) (hi : i < C.n) : C.correct (flipAt i (C.gen m)) = C.gen m := by
  unfold Code.correct
  rw [correct_single hC m hm i hi]; rfl

/-- a Hamming(16,11,4) word with two inverted bits comes back as it was received (never mis-repaired) -/
theorem correct_numpy_double_h16114 (m : Bits) (hm : m.length = 11) (i j : Nat) (hij : i < j) (hj : j < 16) :
    h16114.correct (flipAt i (flipAt j (h16114.gen m))) = flipAt i (flipAt j (h16114.gen m)) := by
  unfold Code.correct
  rw [h16114_double m hm i j hij hj]; rfl

/-! ## the argument as the memory of an ndarray: layout and provenance are not observable -/

theorem gen_any_layout {C : Code} (L : NdLayout) (hsz : 0 < L.sz) (hst : L.sz ≤ L.stride) (pad : Nat)
    (m : Bits) (hm : m.length = C.k) : C.genNd L (ndOfBits L pad m) C.k = some (C.gen m) :=
  Code.genNd_nd C L pad m hsz hst hm

theorem check_iff_any_layout {C : Code} (hC : C ∈ codes) (L : NdLayout) (hsz : 0 < L.sz)
    (hst : L.sz ≤ L.stride) (pad : Nat) (w : Bits) (hw : w.length = C.n) :
    C.checkNd L (ndOfBits L pad w) C.n = some true ↔ ∃ m, m.length = C.k ∧ C.gen m = w := by
  rw [Code.checkNd_nd C L pad w hsz hst hw, Option.some.injEq]
  exact check_iff hC w hw

theorem correct_single_any_layout {C : Code} (hC : C ∈ hammingCodes) (L : NdLayout) (hsz : 0 < L.sz)
    (hst : L.sz ≤ L.stride) (pad : Nat) (m : Bits) (hm : m.length = C.k) (i : Nat) (hi : i < C.n) :
    C.correctNd L (ndOfBits L pad (flipAt i (C.gen m))) C.n = some (C.gen m) := by
  have hl : (flipAt i (C.gen m)).length = C.n := by rw [flipAt_length, Code.gen_length]
  rw [Code.correctNd_nd C L pad _ hsz hst hl, correct_numpy_single hC m hm i hi]

theorem h16114_double_any_layout (L : NdLayout) (hsz : 0 < L.sz) (hst : L.sz ≤ L.stride) (pad : Nat)
    (m : Bits) (hm : m.length = 11) (i j : Nat) (hij : i < j) (hj : j < 16) :
    h16114.correctNd L (ndOfBits L pad (flipAt i (flipAt j (h16114.gen m)))) 16
      = some (flipAt i (flipAt j (h16114.gen m))) := by
  have hl : (flipAt i (flipAt j (h16114.gen m))).length = h16114.n := by
    rw [flipAt_length, flipAt_length, Code.gen_length]
  have := Code.correctNd_nd h16114 L pad _ hsz hst hl
  rw [show h16114.n = 16 from rfl] at this
  rw [this, correct_numpy_double_h16114 m hm i j hij hj]

/-! ## histories with rejected calls -/

/-- calls that are rejected (wrong length) leave no trace: the objects are those of the history
without them -/
theorem rejected_calls_leave_no_trace (h : Heap) (ops : List HOp) :
    runHistoryE h ops = runHistory h (ops.filter HOp.accepted) := runHistoryE_eq h ops

/-- after every history — rejected calls anywhere, the very first call included — the object handed
out by `check_and_correct` for a Hamming code word with one inverted bit holds the original, and
keeps holding it through every further history that does not overwrite it -/
theorem repaired_after_any_history {C : Code} (hC : C ∈ hammingCodes) (before after : List HOp)
    (m : Bits) (hm : m.length = C.k) (i : Nat) (hi : i < C.n)
    (hafter : ∀ op ∈ after, op.target ≠ some (runHistoryE Heap.empty before).size) :
    (runHistoryE (runHistoryE Heap.empty (before ++ [HOp.cac C (flipAt i (C.gen m))])) after).read
        (runHistoryE Heap.empty before).size = some (C.gen m) := by
  have hl : (flipAt i (C.gen m)).length = C.n := by rw [flipAt_length, Code.gen_length]
  have hacc : (HOp.cac C (flipAt i (C.gen m))).accepted = true := by simp [HOp.accepted, hl]
  have h1 : runHistoryE Heap.empty (before ++ [HOp.cac C (flipAt i (C.gen m))])
      = (HOp.cac C (flipAt i (C.gen m))).run (runHistoryE Heap.empty before) := by
    simp [runHistoryE, List.foldl_append, HOp.runE, hacc]
  rw [h1, runHistoryE_eq _ after]
  rw [read_runHistory _ _ _ (by simp [HOp.run, Heap.size_push])
    (fun op hop => hafter op (List.mem_filter.mp hop).1)]
  simp only [HOp.run, correct_single hC m hm i hi]
  exact Heap.read_push_new _ _

/-! ## non-vacuity -/

example : h15113 ∈ hammingCodes := by simp [hammingCodes]
example : ([true,false,true,true,false,false,true,false,true,true,true] : Bits).length = h15113.k := by
  decide +kernel
example : h15113.checkAndCorrect (flipAt 4 (h15113.gen [true,false,true,true,false,false,true,false,true,true,true]))
    = (true, [true,false,true,true,false,false,true,false,true,true,true, false,true,false,false]) := by
  decide +kernel

/-- a little-endian bitarray: buffer `0b` = bits `1101 0000` read from the least significant bit -/
example : bitsOfStore true [0x0b] 7 = [true,true,false,true,false,false,false] := by decide +kernel
example : h743.cacStore true (storeOfBits true (flipAt 1 (h743.gen [false,false,false,false]))) 7
    = (true, [0]) := by decide +kernel
/-- a history in which the first code word is kept while a second is produced and overwritten -/
example : (runHistory Heap.empty
      [HOp.gen h743 [true,false,false,false], HOp.gen h743 [false,false,false,true],
       HOp.overwrite 1 (zeros 7)]).read 0 = some (h743.gen [true,false,false,false]) := by
  decide +kernel

/-- a big-endian int16 column view: offset 3, stride 5, pad octets 0xaa -/
example : ndOfBits ⟨2, true, 3, 5⟩ 0xaa [true, false] = [0xaa,0xaa,0xaa, 0,1, 0xaa,0xaa,0xaa, 0,0, 0xaa,0xaa,0xaa] := by
  decide +kernel
example : bitsOfNd ⟨2, true, 3, 5⟩ [0xaa,0xaa,0xaa, 0,1, 0xaa,0xaa,0xaa, 0,0, 0xaa,0xaa,0xaa] 2 = some [true, false] := by
  decide +kernel
/-- the same octets read with the other byte order are not 0 / 1: the call raises -/
example : bitsOfNd ⟨2, false, 3, 5⟩ [0xaa,0xaa,0xaa, 0,1, 0xaa,0xaa,0xaa, 0,0, 0xaa,0xaa,0xaa] 2 = none := by
  decide +kernel
example : h743.correctNd ⟨1, false, 0, 1⟩ [0,0,0,0,0,0,1] 7 = some (zeros 7) := by decide +kernel
/-- a history whose first call is rejected (six bits for the (7,4) code), then a repair -/
example : (runHistoryE Heap.empty
      [HOp.cac h743 [false,true,false,false,true,true], HOp.cac h743 [false,false,false,false,false,false,true]]).read 0
    = some (zeros 7) := by decide +kernel

end Dmr.C06
