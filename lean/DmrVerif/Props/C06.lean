import DmrVerif.Lemmas.Codes
import DmrVerif.Lemmas.Count
import DmrVerif.Gen.Codes
import DmrVerif.Spec.EtsiCodes

/-!
# C06 — Hamming, Golay and quadratic-residue codes: exact code word sets and correction

Property theorems only.  The matrices are the ones `tools/extract.py` read from `/repo` on this run
(`Gen/Codes.lean`); the finite facts about them are decided by the kernel (`decide +kernel`, no
axioms), everything that quantifies over messages / received words is structural.
-/

namespace Dmr.C06
open Dmr Dmr.Code Dmr.Gen

/-- the seven codes of the property -/
def codes : List Code := [h743, h1393, h15113, h16114, h17123, golay2087, qr1676]
/-- the five codes served by `HammingCommon.check_and_correct` -/
def hammingCodes : List Code := [h743, h1393, h15113, h16114, h17123]

/-! ## finite facts about the extracted tables -/

theorem dims : codes.map (fun C => (C.n, C.k, C.d))
    = [(7,4,3), (13,9,3), (15,11,3), (16,11,4), (17,12,3), (20,8,7), (16,7,6)] := by decide +kernel

/-- every extracted generator is `[I | P]`, every extracted parity-check matrix is `[Pᵀ | I]` of the
same `P` (so the library's derivation of `H` is right), reference syndromes are zero -/
theorem all_wf : codes.all Code.WF = true := by decide +kernel

theorem all_minWeight : codes.all Code.minWeightOk = true := by decide +kernel

theorem hamming_cols : hammingCodes.all Code.colsOk = true := by decide +kernel

theorem h16114_pairs : h16114.pairsOk = true := by decide +kernel

/-- the generator matrices in /repo are the ones of ETSI TS 102 361-1 Annex B.3 (reference copy in
`Spec/EtsiCodes.lean`): the code word sets are *exactly* the standard's -/
theorem generators_are_etsi : codes.map (·.G)
    = [Spec.h743G, Spec.h1393G, Spec.h15113G, Spec.h16114G, Spec.h17123G, Spec.golay2087G, Spec.qr1676G] := by
  decide +kernel

theorem wf {C : Code} (h : C ∈ codes) : C.WFProp :=
  Code.wf_of_WF C (List.all_eq_true.mp all_wf C h)

theorem hamming_sub {C : Code} (h : C ∈ hammingCodes) : C ∈ codes := by
  simp only [hammingCodes, codes, List.mem_cons, List.not_mem_nil, or_false] at h ⊢
  rcases h with h | h | h | h | h <;> simp [h]

/-! ## the property -/

/-- the encoder output has `n` bits and starts with the message (systematic) -/
theorem gen_systematic {C : Code} (hC : C ∈ codes) (m : Bits) (hm : m.length = C.k) :
    (C.gen m).length = C.n ∧ (C.gen m).take C.k = m :=
  ⟨Code.gen_length m, Code.gen_take (wf hC) m hm⟩

/-- every encoder output passes the checker -/
theorem check_gen {C : Code} (hC : C ∈ codes) (m : Bits) (hm : m.length = C.k) :
    C.check (C.gen m) = true :=
  Code.check_gen (wf hC) m hm

/-- among all `2^n` words the checker accepts exactly the code words … -/
theorem check_iff {C : Code} (hC : C ∈ codes) (w : Bits) (hw : w.length = C.n) :
    C.check w = true ↔ ∃ m, m.length = C.k ∧ C.gen m = w := by
  have hwf := wf hC
  constructor
  · intro h
    exact ⟨w.take C.k, by simp [hw, hwf.kn], ((Code.check_iff hwf w hw).mp h).symm⟩
  · rintro ⟨m, hm, rfl⟩
    exact Code.check_gen hwf m hm

/-- … and there are exactly `2^k` of them: the encoder is injective on the `2^k` messages -/
theorem gen_injective {C : Code} (hC : C ∈ codes) (a b : Bits) (ha : a.length = C.k)
    (hb : b.length = C.k) (h : C.gen a = C.gen b) : a = b :=
  Code.gen_injective (wf hC) a b ha hb h

theorem message_count (k : Nat) : (allBits k).length = 2 ^ k := allBits_length k

/-- counted outright: of the `2^n` words of length `n` exactly `2^k` pass the checker -/
theorem accepted_count {C : Code} (hC : C ∈ codes) :
    (allBits C.n).length = 2 ^ C.n ∧ ((allBits C.n).filter C.check).length = 2 ^ C.k :=
  ⟨allBits_length C.n, Code.accepted_count (wf hC)⟩

/-- distinct code words differ in at least the advertised minimum distance -/
theorem min_distance {C : Code} (hC : C ∈ codes) (a b : Bits) (ha : a.length = C.k)
    (hb : b.length = C.k) (hab : a ≠ b) : C.d ≤ hammingDist (C.gen a) (C.gen b) :=
  Code.min_distance_of (wf hC) (List.all_eq_true.mp all_minWeight C hC) a b ha hb hab

/-- every Hamming code word with one inverted bit is repaired to the original -/
theorem correct_single {C : Code} (hC : C ∈ hammingCodes) (m : Bits) (hm : m.length = C.k)
    (i : Nat) (hi : i < C.n) :
    C.checkAndCorrect (flipAt i (C.gen m)) = (true, C.gen m) :=
  Code.correct_single_of (wf (hamming_sub hC)) (List.all_eq_true.mp hamming_cols C hC) m hm i hi

/-- an error-free word is returned unchanged -/
theorem correct_clean {C : Code} (hC : C ∈ codes) (m : Bits) (hm : m.length = C.k) :
    C.checkAndCorrect (C.gen m) = (true, C.gen m) := by
  unfold Code.checkAndCorrect
  rw [check_gen hC m hm]; rfl

/-- Hamming(16,11,4) reports every double error as uncorrectable and returns the word untouched -/
theorem h16114_double (m : Bits) (hm : m.length = 11) (i j : Nat) (hij : i < j) (hj : j < 16) :
    h16114.checkAndCorrect (flipAt i (flipAt j (h16114.gen m)))
      = (false, flipAt i (flipAt j (h16114.gen m))) :=
  Code.double_detected_of (wf (by simp [codes])) h16114_pairs m hm i j hij hj

/-! ## non-vacuity -/

example : h15113 ∈ hammingCodes := by simp [hammingCodes]
example : ([true,false,true,true,false,false,true,false,true,true,true] : Bits).length = h15113.k := by
  decide +kernel
example : h15113.checkAndCorrect (flipAt 4 (h15113.gen [true,false,true,true,false,false,true,false,true,true,true]))
    = (true, [true,false,true,true,false,false,true,false,true,true,true, false,true,false,false]) := by
  decide +kernel

end Dmr.C06
