import DmrVerif.Lemmas.P2p
import DmrVerif.Lemmas.Rdac
import DmrVerif.Gen.Storage

/-!
# C18 — the repeater handshake handlers serve only registered peers and keep peers separate

Property theorems only.  Models: `Model/P2p.lean` (`P2PDatagramProtocol.datagram_received` and its four
handlers) and `Model/Rdac.lean` (`RDACDatagramProtocol.datagram_received`, `step0 … step14`) over the
storage model of C20; byte constants, packet types, attribute keys and ports are regenerated from
`/repo` on every run (`Gen/Proto.lean`) and the models use them directly.  The tie to the code is the
correspondence run of `harness/props/c18.py` (sendto calls, exceptions, step dictionary, callback log,
storage dumps).

Everything is stated for **all finite histories** (`List Input`, `List RInput`; unbounded, arbitrary
datagrams and peer addresses).  Readings fixed here, literally as the code computes them:

* a peer of the P2P handler / of the storage is a full address `(ip, port)`; "registered" means a
  registration datagram from that address completed earlier (`registeredIn`): it did not raise
  (`data[4] = 255` raises `ValueError` before anything happens; a failing SNMP call raises after the
  answer was sent and before the flag is set);
* destinations: RDAC accept and redirect go to the record's stored `address_out` (`("", 0)` until the
  application stores one: input `setOut`), DMR accept and redirect to `(requester ip, p2p_port)`, ping
  answer and reject to the requester;
* the application may patch any member / attribute of a record between datagrams (`setOut`, `envPatch`)
  except `id`, `address_in` and the is-registered key itself (`envOk`): attributes whose names merely
  resemble the key authorise nobody;
* "expected response" / "command" / "ping" are prefix comparisons over the WHOLE compared region: a
  datagram that is one octet short, or differs from the compared value in any single octet of the
  region, is not expected (`rdac_near_miss_inert`, `p2p_near_miss_*`); the compared values themselves are
  pinned (`proto_pinned`);
* a peer of the RDAC handler is an **IP** (`self.step` is keyed by `addr[0]`): two peers behind one
  IP share a run — isolation and "completion once" are per IP;
* at step 0 *any* datagram starts the identification (there is nothing to expect yet).
-/

namespace Dmr.C18
open Dmr Dmr.Storage Dmr.P2p Dmr.Rdac

/-! ## P2P handler -/

/-- the kinds of output the property restricts to registered peers -/
def restricted (k : OutKind) : Bool :=
  match k with
  | .rdacAccept | .rdacRedirect | .dmrAccept | .dmrRedirect | .pingAnswer => true
  | .registrationAnswer | .reject => false

/-- the handler keeps the storage invariant of C20 along every history (so all C20 theorems apply to
the storage the handlers share) -/
theorem p2p_storage_inv (cfg : Cfg) (h : List Input) (henv : h.all envOk = true) :
    Storage.Inv (P2p.run cfg h).1 := (run_spec cfg h henv).1

/-- the stored flag is exactly "a registration from this address completed earlier in the history" -/
theorem p2p_registered_iff (cfg : Cfg) (h : List Input) (henv : h.all envOk = true) (a : Addr) :
    reg (P2p.run cfg h).1 a = registeredIn h a := (run_spec cfg h henv).2 a

/-- **p2p_authorised.** After any history `h`, every DMR/RDAC start-up acceptance, redirect or ping
answer emitted for a datagram from `a` is emitted only if a registration from `a` completed in `h`,
and is addressed: RDAC accept/redirect to the stored outbound address of `a`'s record, DMR
accept/redirect to `(a.ip, p2p_port)`, ping answer to `a`. -/
theorem p2p_authorised (cfg : Cfg) (h : List Input) (henv : h.all envOk = true)
    (a : Addr) (data : Bytes) (f : Bool) (o : Out)
    (ho : o ∈ (P2p.step cfg (P2p.run cfg h).1 (.datagram a data f)).2.1) (hk : restricted o.kind = true) :
    registeredIn h a = true ∧
    ∃ r, (P2p.run cfg h).1.recOf a.val = some r ∧
      ((o.kind = .rdacAccept ∨ o.kind = .rdacRedirect) → o.dest = r.addressOut) ∧
      ((o.kind = .dmrAccept ∨ o.kind = .dmrRedirect) → o.dest = .addr a.ip cfg.p2pPort) ∧
      (o.kind = .pingAnswer → o.dest = a.val) := by
  generalize hs : (P2p.run cfg h).1 = s at ho ⊢
  have hinv : Storage.Inv s := hs ▸ p2p_storage_inv cfg h henv
  have hreg : reg s a = registeredIn h a := hs ▸ p2p_registered_iff cfg h henv a
  rw [← hreg]
  -- the registration answer is not a restricted output
  have hregans : dispatch data = .registration → False := by
    intro hd
    simp only [P2p.step, hd] at ho
    obtain ⟨hok, hbad⟩ := handleRegistration_spec hinv a data f hd
    by_cases hb : octet data 4 + 1 < 256
    · obtain ⟨r0, _, houts, _⟩ := hok hb
      simp only [houts, List.mem_singleton] at ho
      subst ho
      simp [restricted] at hk
    · simp only [hbad hb, List.not_mem_nil] at ho
  cases hr : reg s a with
  | false =>
    -- a request from an unregistered address only produces the reject, which is not restricted
    exfalso
    obtain ⟨e1, e2, e3⟩ := request_unregistered cfg s a data hr
    cases hd : dispatch data with
    | registration => exact hregans hd
    | rdacRequest => simp only [P2p.step, hd, e1, List.mem_singleton] at ho; subst ho; simp [restricted] at hk
    | dmrRequest => simp only [P2p.step, hd, e2, List.mem_singleton] at ho; subst ho; simp [restricted] at hk
    | ping => simp only [P2p.step, hd, e3, List.mem_singleton] at ho; subst ho; simp [restricted] at hk
    | nothing => simp [P2p.step, hd] at ho
  | true =>
    refine ⟨rfl, ?_⟩
    have hsome : ∃ r, registeredRec s a = some r := by
      cases hrr : registeredRec s a with
      | none => rw [(registeredRec_none_iff s a).mp hrr] at hr; cases hr
      | some r => exact ⟨r, rfl⟩
    obtain ⟨r, hrr⟩ := hsome
    obtain ⟨hrec, _⟩ := registeredRec_some s a r hrr
    refine ⟨r, hrec, ?_⟩
    cases hd : dispatch data with
    | registration => exact absurd (hregans hd) id
    | rdacRequest =>
      simp only [P2p.step, hd] at ho
      obtain ⟨hkind, hdest⟩ := handleRdacRequest_outs cfg s a data r hrr o ho
      refine ⟨fun _ => hdest, fun hk' => ?_, fun hk' => ?_⟩
      · rcases hkind with h1 | h1 <;> rcases hk' with h2 | h2 <;> rw [h1] at h2 <;> cases h2
      · rcases hkind with h1 | h1 <;> rw [h1] at hk' <;> cases hk'
    | dmrRequest =>
      simp only [P2p.step, hd] at ho
      obtain ⟨hkind, hdest⟩ := handleDmrRequest_outs cfg s a data r hrr o ho
      refine ⟨fun hk' => ?_, fun _ => hdest, fun hk' => ?_⟩
      · rcases hkind with h1 | h1 <;> rcases hk' with h2 | h2 <;> rw [h1] at h2 <;> cases h2
      · rcases hkind with h1 | h1 <;> rw [h1] at hk' <;> cases hk'
    | ping =>
      simp only [P2p.step, hd] at ho
      obtain ⟨hkind, hdest⟩ := handlePing_outs s a data r hrr o ho
      refine ⟨fun hk' => ?_, fun hk' => ?_, fun _ => hdest⟩
      · rcases hk' with h2 | h2 <;> rw [hkind] at h2 <;> cases h2
      · rcases hk' with h2 | h2 <;> rw [hkind] at h2 <;> cases h2
    | nothing => simp [P2p.step, hd] at ho

/-- **p2p_reject_unregistered.** A DMR start-up, RDAC start-up or ping datagram from an address with no
completed registration in the history is answered by exactly the single octet `0x00` to the
requester; nothing is raised and the storage is untouched. -/
theorem p2p_reject_unregistered (cfg : Cfg) (h : List Input) (henv : h.all envOk = true)
    (a : Addr) (data : Bytes) (f : Bool)
    (hreq : dispatch data = .rdacRequest ∨ dispatch data = .dmrRequest ∨ dispatch data = .ping)
    (hun : registeredIn h a = false) :
    P2p.step cfg (P2p.run cfg h).1 (.datagram a data f) =
      ((P2p.run cfg h).1, [{ kind := .reject, data := [0x00], dest := a.val }], .ok) := by
  have hreg : reg (P2p.run cfg h).1 a = false := by rw [p2p_registered_iff cfg h henv, hun]
  obtain ⟨e1, e2, e3⟩ := request_unregistered cfg (P2p.run cfg h).1 a data hreg
  rcases hreq with hd | hd | hd <;> simp only [P2p.step, hd, e1, e2, e3]

/-- **p2p_silent.** Acknowledgements, unknown commands and garbage — every datagram that is neither a
command of one of the three known types nor a ping — produce no output, raise nothing and leave the
storage untouched, in every state. -/
theorem p2p_silent (cfg : Cfg) (s : Store) (a : Addr) (data : Bytes) (f : Bool)
    (hk : (isCommand data = true ∧ commandType data ∉ Gen.Proto.p2pKnownTypes) ∨
          (isCommand data = false ∧ isPing data = false)) :
    P2p.step cfg s (.datagram a data f) = (s, [], .ok) := by
  have hd : dispatch data = .nothing := by
    unfold dispatch
    rcases hk with ⟨hc, ht⟩ | ⟨hc, hp⟩
    · simp only [hc, if_true]
      have h1 : commandType data ≠ Gen.Proto.p2pTypeRegistration := by
        intro e; apply ht; rw [e]; decide
      have h2 : commandType data ≠ Gen.Proto.p2pTypeRdacStartup := by
        intro e; apply ht; rw [e]; decide
      have h3 : commandType data ≠ Gen.Proto.p2pTypeDmrStartup := by
        intro e; apply ht; rw [e]; decide
      simp [h1, h2, h3]
    · simp [hc, hp]
  simp only [P2p.step, hd]

/-- a registration is answered whoever sends it (that is how a peer registers): one datagram, to the
stored outbound address, then the flag is set — unless `data[4] = 255` (`ValueError`, nothing happens)
or the SNMP call fails (answered, not registered) -/
theorem p2p_registration (cfg : Cfg) (h : List Input) (henv : h.all envOk = true)
    (a : Addr) (data : Bytes) (f : Bool)
    (hd : dispatch data = .registration) :
    (octet data 4 + 1 < 256 →
      (P2p.step cfg (P2p.run cfg h).1 (.datagram a data f)).2.1 =
        [{ kind := .registrationAnswer, data := registrationAnswer data,
           dest := (((P2p.run cfg h).1.recOf a.val).getD (newRec (P2p.run cfg h).1.objs.length a.val)).addressOut }] ∧
      (P2p.step cfg (P2p.run cfg h).1 (.datagram a data f)).2.2 = (if f then .err .snmpError else .ok)) ∧
    (¬ octet data 4 + 1 < 256 →
      P2p.step cfg (P2p.run cfg h).1 (.datagram a data f) = ((P2p.run cfg h).1, [], .err .valueError)) := by
  obtain ⟨hok, hbad⟩ := handleRegistration_spec (p2p_storage_inv cfg h henv) a data f hd
  constructor
  · intro hb
    obtain ⟨r0, hr0, houts, _, hT, hF⟩ := hok hb
    simp only [P2p.step, hd]
    refine ⟨by rw [houts, hr0], ?_⟩
    cases f with
    | true => exact (hT rfl).1
    | false => exact (hF rfl).1
  · intro hb
    simp only [P2p.step, hd, hbad hb]

/-- **errors leave the state unchanged**: whenever a P2P datagram raises `ValueError`, `IndexError` or
`OverflowError`, the storage is exactly as before (the SNMP failure is the one exception: the record
exists and the answer was sent, the flag is not set — see `p2p_registration`) -/
theorem p2p_error_state_unchanged (cfg : Cfg) (h : List Input) (henv : h.all envOk = true)
    (a : Addr) (data : Bytes) (f : Bool) (e : P2p.Err)
    (he : (P2p.step cfg (P2p.run cfg h).1 (.datagram a data f)).2.2 = .err e) (hne : e ≠ .snmpError) :
    (P2p.step cfg (P2p.run cfg h).1 (.datagram a data f)).1 = (P2p.run cfg h).1 := by
  cases hd : dispatch data with
  | registration =>
    simp only [P2p.step, hd] at he ⊢
    obtain ⟨hok, hbad⟩ := handleRegistration_spec (p2p_storage_inv cfg h henv) a data f hd
    by_cases hb : octet data 4 + 1 < 256
    · obtain ⟨r0, _, _, _, hT, hF⟩ := hok hb
      cases f with
      | true => rw [(hT rfl).1] at he; cases he; exact absurd rfl hne
      | false => rw [(hF rfl).1] at he; cases he
    · rw [hbad hb]
  | rdacRequest => simp only [P2p.step, hd, handleRdacRequest_state]
  | dmrRequest => simp only [P2p.step, hd, handleDmrRequest_state]
  | ping => simp only [P2p.step, hd, handlePing_state]
  | nothing => simp only [P2p.step, hd]

/-- with 16-bit ports (every UDP source port, and the configured RDAC port) the redirect packets can
always be built: `OverflowError` is unreachable -/
theorem p2p_no_overflow (cfg : Cfg) (h : List Input) (henv : h.all envOk = true)
    (a : Addr) (data : Bytes) (f : Bool)
    (hc : cfg.rdacPort < 65536) (ha : a.port < 65536) :
    (P2p.step cfg (P2p.run cfg h).1 (.datagram a data f)).2.2 ≠ .err .overflowError := by
  cases hd : dispatch data with
  | registration =>
    simp only [P2p.step, hd]
    obtain ⟨hok, hbad⟩ := handleRegistration_spec (p2p_storage_inv cfg h henv) a data f hd
    by_cases hb : octet data 4 + 1 < 256
    · obtain ⟨r0, _, _, _, hT, hF⟩ := hok hb
      cases f with
      | true => rw [(hT rfl).1]; intro e; cases e
      | false => rw [(hF rfl).1]; intro e; cases e
    · rw [hbad hb]; intro e; cases e
  | rdacRequest => simp only [P2p.step, hd]; exact handleRdacRequest_no_overflow cfg _ a data hc
  | dmrRequest => simp only [P2p.step, hd]; exact handleDmrRequest_no_overflow cfg (p2p_storage_inv cfg h henv) a data ha
  | ping =>
    simp only [P2p.step, hd]
    unfold handlePing
    split
    · intro e; cases e
    · split <;> (intro e; cases e)
  | nothing => simp only [P2p.step, hd]; intro e; cases e

/-- `TypeError` has one source: the eagerly formatted log message `"… %s:%s" % address` of the two start-up
handlers, for a registered peer whose address tuple is longer than `(ip, port)` (an AF_INET6 peer); the
acceptance was sent before it, the redirect is not sent -/
theorem p2p_type_error (cfg : Cfg) (s : Store) (a : Addr) (data : Bytes) (f : Bool)
    (he : (P2p.step cfg s (.datagram a data f)).2.2 = .err .typeError) :
    a.isPair = false ∧ (dispatch data = .rdacRequest ∨ dispatch data = .dmrRequest) ∧
    (P2p.step cfg s (.datagram a data f)).2.1.length = 1 := by
  cases hd : dispatch data with
  | registration =>
    simp only [P2p.step, hd] at he
    exact absurd he (handleRegistration_ne_typeError s a data f)
  | rdacRequest =>
    simp only [P2p.step, hd] at he ⊢
    obtain ⟨h1, h2⟩ := handleRdacRequest_typeError cfg s a data he
    exact ⟨h1, Or.inl trivial, h2⟩
  | dmrRequest =>
    simp only [P2p.step, hd] at he ⊢
    obtain ⟨h1, h2⟩ := handleDmrRequest_typeError cfg s a data he
    exact ⟨h1, Or.inr trivial, h2⟩
  | ping =>
    simp only [P2p.step, hd] at he
    exact absurd he (handlePing_ne_typeError s a data)
  | nothing => simp [P2p.step, hd] at he

/-- the packet types the dispatch knows are the three constants of the class -/
theorem p2p_known_types :
    Gen.Proto.p2pKnownTypes = [Gen.Proto.p2pTypeDmrStartup, Gen.Proto.p2pTypeRdacStartup, Gen.Proto.p2pTypeRegistration] ∧
    Gen.Proto.p2pCommandPrefix.length = 3 ∧ Gen.Proto.p2pPingPrefix.length = 5 ∧ Gen.Proto.p2pAckPrefix.length = 5 := by
  decide

/-- **the compared values are the protocol's** (pinned: a changed constant in `/repo` breaks this
theorem, it is never followed silently): command / ping / acknowledgement prefixes, packet types, the
is-registered key, and for every RDAC step the response it waits for and the requests it sends -/
theorem proto_pinned :
    Gen.Proto.p2pCommandPrefix = [0x50, 0x32, 0x50] ∧
    Gen.Proto.p2pPingPrefix = [0x0A, 0, 0, 0, 0x14] ∧ Gen.Proto.p2pAckPrefix = [0x0C, 0, 0, 0, 0x14] ∧
    Gen.Proto.p2pTypeRegistration = 0x10 ∧ Gen.Proto.p2pTypeDmrStartup = 0x11 ∧ Gen.Proto.p2pTypeRdacStartup = 0x12 ∧
    Gen.Proto.p2pIsRegisteredKey = "p2p_is_registered" ∧
    (List.range 15).map expected =
      [Option.none, some [0x7E, 4, 0, 0xFD], some [0x7E, 4, 0, 0x10], some [0x7E, 4, 0, 0], some [0x7E, 4, 0, 0],
       some [0x7E, 4, 0, 0x10], some [0x7E, 4, 0, 0], some [0x7E, 4, 0, 0x10], some [0x7E, 4, 0, 0x10], Option.none,
       some [0x7E, 4, 0, 0], some [0x7E, 4, 0, 0x10], some [0x7E, 4, 0, 0], some [0x7E, 4, 0, 0xFA], Option.none] ∧
    (List.range 15).map nextStep = [1, 2, 3, 4, 5, 6, 7, 8, 10, 9, 11, 12, 13, 14, 14] ∧
    Gen.Proto.rdacStep0Request = [0x7E, 4, 0, 0xFE, 0x20, 0x10, 0, 0, 0, 0x0C, 0x60, 0xE1] ∧
    (List.range 15).map requestsOf =
      [[], [[0x7E, 4, 0, 0, 0x20, 0x10, 0, 1, 0, 0x18, 0x9B, 0x60, 2, 4, 0, 5, 0, 0x64, 0, 0, 0, 1, 0xC4, 3]], [],
       [[0x7E, 4, 0, 0x10, 0x20, 0x10, 0, 1, 0, 0x0C, 0x61, 0xCE]],
       [[0x7E, 4, 0, 0x10, 0x20, 0x10, 0, 2, 0, 0x0C, 0x61, 0xCD],
        [0x7E, 4, 0, 0, 0x20, 0x10, 0, 2, 0, 0x19, 0x58, 0xA0, 2, 0xD4, 2, 6, 0, 0x64, 0, 0, 0, 2, 0, 0xF0, 3]], [],
       [[0x7E, 4, 0, 0x10, 0x20, 0x10, 0, 3, 0, 0x0C, 0x61, 0xCC],
        [0x7E, 4, 0, 0, 0x20, 0x10, 0, 3, 0, 0x19, 0x73, 0x84, 2, 0xD6, 0x82, 6, 0, 0, 0x64, 0, 0, 0, 2, 0x6E, 3]],
       [[0x7E, 4, 0, 0, 0x20, 0x10, 0, 4, 0, 0x19, 0x57, 0x9F, 2, 0xD4, 2, 6, 0, 0x64, 0, 0, 0, 2, 1, 0xEF, 3]], [], [],
       [[0x7E, 4, 0, 0, 0x20, 0x10, 0, 0x15, 0, 0x18, 0x9C, 0x4B, 2, 5, 0, 5, 0, 0x64, 0, 0, 0, 1, 0xC3, 3]], [],
       [[0x7E, 4, 0, 0x10, 0x20, 0x10, 0, 0x15, 0, 0x0C, 0x61, 0xBA], [0x7E, 4, 0, 0xFB, 0x20, 0x10, 0, 0x16, 0, 0x0C, 0x60, 0xCE]],
       [], []] := by
  decide

/-- **near misses of the command prefix / packet type.** A datagram is dispatched to the registration
(DMR start-up, RDAC start-up) handler exactly when its first three octets are the command prefix AND
the octet at offset 20 (0 if the datagram has 20 octets or fewer) is that packet type; a ping exactly
when it is no command and octets 4 … 8 are the ping prefix.  So a datagram that differs from these in
any single octet of a compared region, or ends inside it, is not that request. -/
theorem p2p_dispatch_iff (data : Bytes) :
    (dispatch data = .registration ↔
      data.take 3 = Gen.Proto.p2pCommandPrefix ∧ data.getD 20 0 = Gen.Proto.p2pTypeRegistration) ∧
    (dispatch data = .rdacRequest ↔
      data.take 3 = Gen.Proto.p2pCommandPrefix ∧ data.getD 20 0 = Gen.Proto.p2pTypeRdacStartup) ∧
    (dispatch data = .dmrRequest ↔
      data.take 3 = Gen.Proto.p2pCommandPrefix ∧ data.getD 20 0 = Gen.Proto.p2pTypeDmrStartup) ∧
    (dispatch data = .ping ↔
      data.take 3 ≠ Gen.Proto.p2pCommandPrefix ∧ (data.drop 4).take 5 = Gen.Proto.p2pPingPrefix) := by
  have h12 : Gen.Proto.p2pTypeRdacStartup ≠ Gen.Proto.p2pTypeRegistration := by decide
  have h13 : Gen.Proto.p2pTypeDmrStartup ≠ Gen.Proto.p2pTypeRegistration := by decide
  have h23 : Gen.Proto.p2pTypeDmrStartup ≠ Gen.Proto.p2pTypeRdacStartup := by decide
  unfold dispatch isCommand isPing commandType
  generalize data.getD 20 0 = t
  generalize data.take 3 = pre
  generalize (data.drop 4).take 5 = pg
  by_cases hc : pre = Gen.Proto.p2pCommandPrefix
  · subst hc
    by_cases h1 : t = Gen.Proto.p2pTypeRegistration
    · subst h1; simp [h12.symm, h13.symm]
    · by_cases h2 : t = Gen.Proto.p2pTypeRdacStartup
      · subst h2; simp [h12, h23.symm]
      · by_cases h3 : t = Gen.Proto.p2pTypeDmrStartup
        · subst h3; simp [h13, h23]
        · simp [h1, h2, h3]
  · have hc' : (pre == Gen.Proto.p2pCommandPrefix) = false := by simpa using hc
    by_cases hp : pg = Gen.Proto.p2pPingPrefix
    · subst hp; simp [hc', hc]
    · have hp' : (pg == Gen.Proto.p2pPingPrefix) = false := by simpa using hp
      simp [hp', hp, hc', hc]
/-- one octet of the command prefix wrong (or the datagram shorter than the prefix): not a command -/
theorem p2p_near_miss_command (data : Bytes) (i : Nat) (hi : i < 3)
    (h : data[i]? ≠ Gen.Proto.p2pCommandPrefix[i]?) :
    dispatch data ≠ .registration ∧ dispatch data ≠ .rdacRequest ∧ dispatch data ≠ .dmrRequest := by
  have hne : data.take 3 ≠ Gen.Proto.p2pCommandPrefix := by
    intro e
    apply h
    rw [← e, List.getElem?_take, if_pos hi]
  obtain ⟨h1, h2, h3, _⟩ := p2p_dispatch_iff data
  exact ⟨fun e => hne (h1.mp e).1, fun e => hne (h2.mp e).1, fun e => hne (h3.mp e).1⟩

/-- … and such a datagram changes the storage (so: who is registered) only if … never: whatever it is
dispatched to (a ping or nothing), the storage is as before -/
theorem p2p_near_miss_state (cfg : Cfg) (s : Store) (a : Addr) (data : Bytes) (f : Bool)
    (hd : dispatch data ≠ .registration) :
    (P2p.step cfg s (.datagram a data f)).1 = s := by
  cases hd' : dispatch data with
  | registration => exact absurd hd' hd
  | rdacRequest => simp only [P2p.step, hd', handleRdacRequest_state]
  | dmrRequest => simp only [P2p.step, hd', handleDmrRequest_state]
  | ping => simp only [P2p.step, hd', handlePing_state]
  | nothing => simp only [P2p.step, hd']

/-- one octet of the ping prefix wrong in a datagram that is no command: silence, in every state -/
theorem p2p_near_miss_ping (cfg : Cfg) (s : Store) (a : Addr) (data : Bytes) (f : Bool) (i : Nat) (hi : i < 5)
    (hc : isCommand data = false) (h : data[4 + i]? ≠ Gen.Proto.p2pPingPrefix[i]?) :
    P2p.step cfg s (.datagram a data f) = (s, [], .ok) := by
  apply p2p_silent cfg s a data f (Or.inr ⟨hc, ?_⟩)
  unfold isPing
  have hne : (data.drop 4).take 5 ≠ Gen.Proto.p2pPingPrefix := by
    intro e
    apply h
    rw [← e, List.getElem?_take, if_pos hi, List.getElem?_drop]
  simpa using hne

/-- attributes that merely resemble the is-registered key do not authorise: whether a request from `a`
is served depends on the record of `a` only through the attribute stored under exactly that key -/
theorem p2p_near_miss_key (cfg : Cfg) (s : Store) (hinv : Storage.Inv s) (a : Addr) (key : Key) (v : Val)
    (hk : envOk (.envPatch a key v) = true) (a' : Addr) :
    reg (P2p.step cfg s (.envPatch a key v)).1 a' = reg s a' := by
  have := (step_spec cfg hinv (.envPatch a key v) hk).2 a'
  simpa [completes] using this

/-! ## RDAC handler -/

/-- the step of an IP in a state (`0` = not started) -/
abbrev stepAt (s : RState) (ip : List Nat) : Nat := stepOf s.steps ip

/-- **rdac_isolation.** A datagram from `a` never changes the step of another IP. -/
theorem rdac_isolation (h : List RInput) (i : RInput) (ip : List Nat) (hne : i.address.ip ≠ ip) :
    stepAt (Rdac.step (Rdac.run h).1 i.address i.data i.snmpFails).1 ip = stepAt (Rdac.run h).1 ip :=
  step_stepOf_other _ _ _ _ ip hne

theorem rdac_runFrom_append (s : RState) (h1 h2 : List RInput) :
    (Rdac.runFrom s (h1 ++ h2)).1 = (Rdac.runFrom (Rdac.runFrom s h1).1 h2).1 := by
  induction h1 generalizing s with
  | nil => rfl
  | cons i t ih => simp only [List.cons_append, Rdac.runFrom, ih]

/-- **rdac_step_survives (scale).** However many datagrams from however many other IPs reach the handler
(`h2`: any length, any number of distinct peers — there is no bound on the step table), the step of `ip`
is what it was: an unfinished run is not set back, a finished peer (step 14) stays finished. -/
theorem rdac_step_survives (h h2 : List RInput) (ip : List Nat) (hne : ∀ i ∈ h2, i.address.ip ≠ ip) :
    stepAt (Rdac.run (h ++ h2)).1 ip = stepAt (Rdac.run h).1 ip := by
  simp only [Rdac.run, rdac_runFrom_append]
  generalize (Rdac.runFrom Rdac.init h).1 = s
  induction h2 generalizing s with
  | nil => rfl
  | cons i t ih =>
    simp only [Rdac.runFrom]
    rw [ih (fun j hj => hne j (List.mem_cons_of_mem _ hj))]
    exact step_stepOf_other s i.address i.data i.snmpFails ip (hne i List.mem_cons_self)

/-- **rdac_expected_only.** The step of the sending IP changes only in three ways: a one-octet datagram
restarts it (to 1, re-sending the step-0 request) unless it is 14; the first datagram of an IP (step
0) starts it (to 1); otherwise it moves to the next step of the table, and only if the datagram
begins with the response prefix that step waits for.  Step 14 is never left. -/
theorem rdac_expected_only (s : RState) (a : Addr) (data : Bytes) (f : Bool)
    (hch : stepAt (Rdac.step s a data f).1 a.ip ≠ stepAt s a.ip) :
    (data.length = 1 ∧ stepAt s a.ip ≠ 14 ∧ stepAt (Rdac.step s a data f).1 a.ip = 1) ∨
    (stepAt s a.ip = 0 ∧ stepAt (Rdac.step s a data f).1 a.ip = 1) ∨
    (stepAt s a.ip ≠ 0 ∧ stepAt s a.ip ≠ 14 ∧ data.length ≠ 1 ∧
      ∃ resp, expected (stepAt s a.ip) = some resp ∧ hasPrefix resp data = true ∧
        stepAt (Rdac.step s a data f).1 a.ip = nextStep (stepAt s a.ip)) := by
  simp only [stepAt] at hch ⊢
  rw [step_stepOf_self] at hch ⊢
  by_cases h1 : data.length = 1 ∧ stepOf s.steps a.ip ≠ 14
  · rw [if_pos h1]; exact Or.inl ⟨h1.1, h1.2, rfl⟩
  · rw [if_neg h1] at hch ⊢
    by_cases h14 : stepOf s.steps a.ip = 14
    · rw [if_pos h14] at hch; exact absurd h14.symm hch
    · rw [if_neg h14] at hch ⊢
      have hl : data.length ≠ 1 := fun hl => h1 ⟨hl, h14⟩
      cases hw : (stepN (Storage.step s.store (.matchIncoming a.val true [])).1 (stepOf s.steps a.ip) a data f).2.1 with
      | none => rw [hw] at hch; exact absurd rfl hch
      | some n =>
        rcases stepN_write _ _ _ _ _ _ hw with ⟨h0, hn⟩ | ⟨h0, _, resp, ht, hp⟩
        · exact Or.inr (Or.inl ⟨h0, by simp [hn]⟩)
        · refine Or.inr (Or.inr ⟨h0, h14, hl, resp, by simp [expected, ht], hp, ?_⟩)
          simp [nextStep, h0, ht]

/-- conversely: a reset restarts, the first datagram starts, step 14 stays -/
theorem rdac_restart (s : RState) (a : Addr) (data : Bytes) (f : Bool) :
    (data.length = 1 → stepAt s a.ip ≠ 14 →
      stepAt (Rdac.step s a data f).1 a.ip = 1 ∧
      (Rdac.step s a data f).2 = (sends [Gen.Proto.rdacStep0Request] a, .ok)) ∧
    (stepAt s a.ip = 14 → stepAt (Rdac.step s a data f).1 a.ip = 14) ∧
    (stepAt s a.ip = 0 → stepAt (Rdac.step s a data f).1 a.ip = 1) := by
  simp only [stepAt]
  refine ⟨fun hl h14 => ⟨?_, ?_⟩, fun h14 => ?_, fun h0 => ?_⟩
  · rw [step_stepOf_self, if_pos ⟨hl, h14⟩]
  · simp only [Rdac.step, hl, h14, ne_eq, not_false_eq_true, and_self, if_true]
  · rw [step_stepOf_self, if_neg (fun hh => hh.2 h14), if_pos h14]
  · rw [step_stepOf_self]
    by_cases hl : data.length = 1
    · rw [if_pos ⟨hl, by rw [h0]; decide⟩]
    · rw [if_neg (fun hh => hl hh.1), if_neg (by rw [h0]; decide), h0]
      simp [stepN]

/-- … and the expected response advances the step unless the call raises before writing
(`UnicodeDecodeError` at step 6, `IndexError` at step 10: `rdac_errors`) -/
theorem rdac_expected_advances (s : RState) (a : Addr) (data : Bytes) (f : Bool) (resp : Bytes)
    (hl : data.length ≠ 1) (he : expected (stepAt s a.ip) = some resp) (hp : hasPrefix resp data = true)
    (hok : (Rdac.step s a data f).2.2 = .ok) :
    stepAt (Rdac.step s a data f).1 a.ip = nextStep (stepAt s a.ip) := by
  simp only [stepAt] at he ⊢
  have h0 : stepOf s.steps a.ip ≠ 0 := by
    intro h0; rw [h0] at he; simp [expected, table] at he
  have h14 : stepOf s.steps a.ip ≠ 14 := by
    intro h14; rw [h14] at he; simp [expected, table] at he
  have h1 : ¬ (data.length = 1 ∧ stepOf s.steps a.ip ≠ 14) := fun hh => hl hh.1
  obtain ⟨houts, _⟩ := step_outs_stepN s a data f h1 h14
  rw [houts] at hok
  simp only at hok
  rw [step_stepOf_self, if_neg h1, if_neg h14]
  cases ht : table (stepOf s.steps a.ip) with
  | none => simp [expected, ht] at he
  | some p =>
    obtain ⟨resp', nxt⟩ := p
    have hr : resp' = resp := by simpa [expected, ht] using he
    subst hr
    have e : stepN (Storage.step s.store (.matchIncoming a.val true [])).1 (stepOf s.steps a.ip) a data f =
        body (Storage.step s.store (.matchIncoming a.val true [])).1 (stepOf s.steps a.ip) nxt a data f := by
      simp [stepN, h0, h14, ht, hp]
    rw [e] at hok ⊢
    have hn : nextStep (stepOf s.steps a.ip) = nxt := by simp [nextStep, h0, ht]
    rw [hn]
    rcases body_cases (Storage.step s.store (.matchIncoming a.val true [])).1 (stepOf s.steps a.ip) nxt a data f with
      ⟨_, e'⟩ | ⟨_, ⟨_, _, _, _, e'⟩ | e'⟩ | ⟨_, ⟨_, e'⟩ | ⟨_, e'⟩⟩ |
      ⟨_, ⟨_, e'⟩ | ⟨_, _, _, e'⟩ | ⟨_, _, e'⟩⟩ | ⟨_, _, _, _, e'⟩ <;> rw [e'] at hok ⊢ <;>
      first
        | rfl
        | cases hok

/-- `data[:len(x)] == x` fails as soon as one octet of the compared region differs (or is missing) -/
theorem hasPrefix_false_of_octet (x data : Bytes) (i : Nat) (hi : i < x.length) (h : data[i]? ≠ x[i]?) :
    hasPrefix x data = false := by
  unfold hasPrefix
  have hne : data.take x.length ≠ x := by
    intro e
    have h2 : (data.take x.length)[i]? = x[i]? := by rw [e]
    rw [List.getElem?_take, if_pos hi] at h2
    exact h h2
  simpa using hne

/-- … in particular when the datagram is shorter than the compared region -/
theorem hasPrefix_false_of_short (x data : Bytes) (h : data.length < x.length) : hasPrefix x data = false := by
  apply hasPrefix_false_of_octet x data data.length h
  rw [List.getElem?_eq_none (Nat.le_refl _), List.getElem?_eq_getElem h]
  intro e; cases e

/-- **rdac_near_miss_inert.** A datagram (not a one-octet reset) that is not the response the peer's step
waits for — e.g. one that differs from it in a single octet of the compared prefix, however many of the
other octets agree, or that is shorter than the prefix — is inert: the step stays, nothing is sent, nothing
is reported, nothing is raised, and the storage only holds the (auto-created) record of the sender as before. -/
theorem rdac_near_miss_inert (s : RState) (a : Addr) (data : Bytes) (f : Bool) (resp : Bytes)
    (hl : data.length ≠ 1) (he : expected (stepAt s a.ip) = some resp) (hp : hasPrefix resp data = false) :
    stepAt (Rdac.step s a data f).1 a.ip = stepAt s a.ip ∧
    (Rdac.step s a data f).2 = ([], .ok) ∧
    (Rdac.step s a data f).1.store = (Storage.step s.store (.matchIncoming a.val true [])).1 := by
  simp only [stepAt] at he ⊢
  have h0 : stepOf s.steps a.ip ≠ 0 := by
    intro h0; rw [h0] at he; simp [expected, table] at he
  have h14 : stepOf s.steps a.ip ≠ 14 := by
    intro h14; rw [h14] at he; simp [expected, table] at he
  have h1 : ¬ (data.length = 1 ∧ stepOf s.steps a.ip ≠ 14) := fun hh => hl hh.1
  obtain ⟨houts, hstore⟩ := step_outs_stepN s a data f h1 h14
  cases ht : table (stepOf s.steps a.ip) with
  | none => simp [expected, ht] at he
  | some p =>
    obtain ⟨resp', nxt⟩ := p
    have hr : resp' = resp := by simpa [expected, ht] using he
    subst hr
    have e : stepN (Storage.step s.store (.matchIncoming a.val true [])).1 (stepOf s.steps a.ip) a data f =
        ((Storage.step s.store (.matchIncoming a.val true [])).1, Option.none, [], .ok) := by
      simp [stepN, h0, h14, ht, hp]
    refine ⟨?_, ?_, ?_⟩
    · rw [step_stepOf_self, if_neg h1, if_neg h14, e]; rfl
    · rw [houts, e]
    · rw [hstore, e]

/-- the C18-D shape, for every step: all octets of the expected prefix right but one ⇒ inert -/
theorem rdac_one_octet_off (s : RState) (a : Addr) (data : Bytes) (f : Bool) (resp : Bytes) (i : Nat)
    (hl : data.length ≠ 1) (he : expected (stepAt s a.ip) = some resp) (hi : i < resp.length)
    (hne : data[i]? ≠ resp[i]?) :
    stepAt (Rdac.step s a data f).1 a.ip = stepAt s a.ip ∧ (Rdac.step s a data f).2 = ([], .ok) :=
  let r := rdac_near_miss_inert s a data f resp hl he (hasPrefix_false_of_octet resp data i hi hne)
  ⟨r.1, r.2.1⟩

/-- **exceptions.** A datagram that makes the handler raise leaves the step dictionary entry of its
IP as it was — except the stubbed SNMP call of step 13, which fails after the step was set to 14 and
before the callback (completion is then never reported for this IP). -/
theorem rdac_errors (s : RState) (a : Addr) (data : Bytes) (f : Bool) (e : RErr)
    (he : (Rdac.step s a data f).2.2 = .err e) :
    (Rdac.step s a data f).2.1 = [] ∧
    ((e ≠ .snmpError ∧ e ≠ .attributeError → stepAt (Rdac.step s a data f).1 a.ip = stepAt s a.ip ∧
        ((stepAt s a.ip = 6 ∧ e = .unicodeDecodeError) ∨ (stepAt s a.ip = 10 ∧ e = .indexError ∧ data.length ≤ 26))) ∧
     (e = .snmpError → stepAt s a.ip = 13 ∧ stepAt (Rdac.step s a data f).1 a.ip = 14 ∧ f = true)) := by
  simp only [stepAt]
  by_cases hsp : (data.length = 1 ∧ stepOf s.steps a.ip ≠ 14) ∨ stepOf s.steps a.ip = 14
  · obtain ⟨hok, _, _⟩ := step_outs_special s a data f hsp
    rw [hok] at he; cases he
  · have h1 : ¬ (data.length = 1 ∧ stepOf s.steps a.ip ≠ 14) := fun hh => hsp (Or.inl hh)
    have h14 : stepOf s.steps a.ip ≠ 14 := fun hh => hsp (Or.inr hh)
    obtain ⟨houts, _⟩ := step_outs_stepN s a data f h1 h14
    rw [houts] at he ⊢
    simp only at he ⊢
    rw [step_stepOf_self, if_neg h1, if_neg h14]
    generalize hst : (Storage.step s.store (.matchIncoming a.val true [])).1 = store at he ⊢
    by_cases h0 : stepOf s.steps a.ip = 0
    · simp [stepN, h0] at he
    cases ht : table (stepOf s.steps a.ip) with
    | none =>
      have e' : stepN store (stepOf s.steps a.ip) a data f = (store, Option.none, [], .err .attributeError) := by
        simp [stepN, h0, h14, ht]
      rw [e'] at he ⊢
      simp only [RRes.err.injEq] at he
      subst he
      exact ⟨rfl, fun hh => absurd rfl hh.2, fun hh => by cases hh⟩
    | some p =>
      obtain ⟨resp, nxt⟩ := p
      by_cases hp : hasPrefix resp data = true
      · have e' : stepN store (stepOf s.steps a.ip) a data f = body store (stepOf s.steps a.ip) nxt a data f := by
          simp [stepN, h0, h14, ht, hp]
        rw [e'] at he ⊢
        obtain ⟨_, houts', hcase⟩ := body_err _ _ _ _ _ _ _ he
        refine ⟨houts', ?_, ?_⟩
        · rintro ⟨hs1, hs2⟩
          rcases hcase with ⟨hw, hc⟩ | ⟨_, _, hc⟩
          · rw [hw]; exact ⟨rfl, hc⟩
          · rcases hc with hc | hc
            · exact absurd hc hs1
            · exact absurd hc hs2
        · intro hs
          rcases hcase with ⟨_, hc⟩ | ⟨h13, hw, _⟩
          · rcases hc with ⟨_, hc⟩ | ⟨_, hc, _⟩ <;> rw [hs] at hc <;> cases hc
          · rw [hw]
            rw [h13] at ht
            simp only [table, Option.some.injEq, Prod.mk.injEq] at ht
            refine ⟨h13, ht.2.symm ▸ rfl, ?_⟩
            rcases body_cases store (stepOf s.steps a.ip) nxt a data f with
              ⟨hc, _⟩ | ⟨hc, _⟩ | ⟨hc, _⟩ | ⟨_, ⟨hf, _⟩ | ⟨_, _, _, e''⟩ | ⟨_, _, e''⟩⟩ | ⟨_, _, _, hc, _⟩
            · rw [h13] at hc; cases hc
            · rw [h13] at hc; cases hc
            · rw [h13] at hc; cases hc
            · exact hf
            · rw [e''] at he; cases he
            · rw [e''] at he; rw [hs] at he; cases he
            · exact absurd h13 hc
      · have e' : stepN store (stepOf s.steps a.ip) a data f = (store, Option.none, [], .ok) := by
          simp [stepN, h0, h14, ht, hp]
        rw [e'] at he; cases he

/-- **completion (one datagram).** The completion callback is called exactly when the step of the
sending IP goes 13 → 14 on the expected response with a working SNMP call; it is then the only
output, and it reports the id of the record of the sending address. -/
theorem rdac_completion_iff (s : RState) (hinv : Storage.Inv s.store) (a : Addr) (data : Bytes) (f : Bool) :
    (∃ id, ROut.callback id ∈ (Rdac.step s a data f).2.1) ↔
      (stepAt s a.ip = 13 ∧ data.length ≠ 1 ∧ hasPrefix Gen.Proto.rdacStep12Response data = true ∧ f = false) := by
  simp only [stepAt]
  constructor
  · rintro ⟨id, hid⟩
    by_cases hsp : (data.length = 1 ∧ stepOf s.steps a.ip ≠ 14) ∨ stepOf s.steps a.ip = 14
    · exact absurd hid ((step_outs_special s a data f hsp).2.1 id)
    · have h1 : ¬ (data.length = 1 ∧ stepOf s.steps a.ip ≠ 14) := fun hh => hsp (Or.inl hh)
      have h14 : stepOf s.steps a.ip ≠ 14 := fun hh => hsp (Or.inr hh)
      obtain ⟨houts, _⟩ := step_outs_stepN s a data f h1 h14
      rw [houts] at hid
      obtain ⟨h13, hf, _, _, _, hp, _⟩ := stepN_callback _ _ _ _ _ _ hid
      exact ⟨h13, fun hl => h1 ⟨hl, h14⟩, hp, hf⟩
  · rintro ⟨h13, hl, hp, hf⟩
    have h14 : stepOf s.steps a.ip ≠ 14 := by rw [h13]; decide
    have h1 : ¬ (data.length = 1 ∧ stepOf s.steps a.ip ≠ 14) := fun hh => hl hh.1
    obtain ⟨houts, _⟩ := step_outs_stepN s a data f h1 h14
    obtain ⟨_, ⟨i, _, _, _⟩, hmap, _⟩ := matchIncoming_auto_spec hinv a.val [] (by intro e he; cases he)
    have hrec : (Storage.step s.store (.matchIncoming a.val true [])).1.recOf a.val =
        some ((s.store.recOf a.val).getD (newRec s.store.objs.length a.val)) := by
      have := hmap a.val
      rw [if_pos rfl] at this
      exact this
    rw [houts, h13, hf, stepN_completes _ a data _ hp hrec]
    exact ⟨_, List.mem_singleton.mpr rfl⟩

theorem rdac_completion_step (s : RState) (a : Addr) (data : Bytes) (f : Bool) (id : Val)
    (hid : ROut.callback id ∈ (Rdac.step s a data f).2.1) :
    stepAt s a.ip = 13 ∧ stepAt (Rdac.step s a data f).1 a.ip = 14 ∧
    (Rdac.step s a data f).2 = ([.callback id], .ok) ∧
    ∃ r, (Rdac.step s a data f).1.store.recOf a.val = some r ∧ r.id = id := by
  simp only [stepAt]
  by_cases hsp : (data.length = 1 ∧ stepOf s.steps a.ip ≠ 14) ∨ stepOf s.steps a.ip = 14
  · exact absurd hid ((step_outs_special s a data f hsp).2.1 id)
  · have h1 : ¬ (data.length = 1 ∧ stepOf s.steps a.ip ≠ 14) := fun hh => hsp (Or.inl hh)
    have h14 : stepOf s.steps a.ip ≠ 14 := fun hh => hsp (Or.inr hh)
    obtain ⟨houts, hstore⟩ := step_outs_stepN s a data f h1 h14
    rw [houts] at hid
    obtain ⟨h13, _, ho, hres, hw, hp, r, hr, hrid⟩ := stepN_callback _ _ _ _ _ _ hid
    refine ⟨h13, ?_, ?_, ?_⟩
    · rw [step_stepOf_self, if_neg h1, if_neg h14, hw]; rfl
    · rw [houts, ho, hres]
    · rw [hstore]
      have e : (stepN (Storage.step s.store (.matchIncoming a.val true [])).1 (stepOf s.steps a.ip) a data f).1 =
          (Storage.step s.store (.matchIncoming a.val true [])).1 := by
        rw [h13] at hid ⊢
        have hf := (stepN_callback _ _ _ _ _ _ hid).2.1
        rw [hf] at hid ⊢
        rw [stepN_completes _ a data r hp hr]
      rw [e]
      exact ⟨r, hr, hrid⟩

/-- number of deliveries in a run that called the completion callback for IP `ip` -/
def completions (ip : List Nat) : List RInput → List (List ROut × RRes) → Nat
  | i :: t, r :: rs =>
    (if i.address.ip = ip ∧ r.1.any (fun o => match o with | .callback _ => true | _ => false) then 1 else 0)
      + completions ip t rs
  | _, _ => 0

theorem any_callback_iff (l : List ROut) :
    l.any (fun o => match o with | .callback _ => true | _ => false) = true ↔ ∃ id, ROut.callback id ∈ l := by
  simp only [List.any_eq_true]
  constructor
  · rintro ⟨o, ho, hm⟩
    cases o with
    | send d a => cases hm
    | callback id => exact ⟨id, ho⟩
  · rintro ⟨id, hid⟩
    exact ⟨_, hid, rfl⟩

theorem completions_le (ip : List Nat) (s : RState) (h : List RInput) :
    completions ip h (Rdac.runFrom s h).2 ≤ (if stepAt s ip = 14 then 0 else 1) := by
  induction h generalizing s with
  | nil => simp [completions]
  | cons i t ih =>
    simp only [Rdac.runFrom, completions]
    have ih' := ih (Rdac.step s i.address i.data i.snmpFails).1
    by_cases hip : i.address.ip = ip
    · subst hip
      by_cases hcb : (Rdac.step s i.address i.data i.snmpFails).2.1.any
          (fun o => match o with | .callback _ => true | _ => false) = true
      · obtain ⟨id, hid⟩ := (any_callback_iff _).mp hcb
        obtain ⟨h13, h14', _, _⟩ := rdac_completion_step s i.address i.data i.snmpFails id hid
        have ih'' : completions i.address.ip t (Rdac.runFrom (Rdac.step s i.address i.data i.snmpFails).1 t).2 ≤ 0 := by
          simpa [h14'] using ih'
        have h13' : ¬ stepAt s i.address.ip = 14 := by rw [h13]; decide
        rw [if_pos ⟨rfl, hcb⟩, if_neg h13']
        omega
      · rw [if_neg (fun hh => hcb hh.2)]
        by_cases h14 : stepAt s i.address.ip = 14
        · have := (rdac_restart s i.address i.data i.snmpFails).2.1 h14
          have ih'' : completions i.address.ip t (Rdac.runFrom (Rdac.step s i.address i.data i.snmpFails).1 t).2 ≤ 0 := by
            simpa [this] using ih'
          rw [if_pos h14]; omega
        · rw [if_neg h14]
          have : (if stepAt (Rdac.step s i.address i.data i.snmpFails).1 i.address.ip = 14 then 0 else 1) ≤ 1 := by
            split <;> omega
          omega
    · rw [if_neg (fun hh => hip hh.1)]
      have := step_stepOf_other s i.address i.data i.snmpFails ip hip
      simp only [stepAt, this] at ih' ⊢
      omega

/-- **rdac_completion_once.** Along any history, completion is reported at most once per IP (step 14 is
never left, not even by a reset). -/
theorem rdac_completion_once (h : List RInput) (ip : List Nat) :
    completions ip h (Rdac.run h).2 ≤ 1 := by
  have := completions_le ip Rdac.init h
  simp only [Rdac.run]
  have h2 : (if stepAt Rdac.init ip = 14 then 0 else 1) ≤ 1 := by split <;> omega
  omega

/-- **storage.** Along any history the handler keeps the storage invariant of C20; a datagram from `a`
leaves the record of every other address untouched, makes sure `a` has a record (auto-created on
the first datagram, with a stable id), and creates at most that one object. -/
theorem rdac_storage_inv (h : List RInput) : Storage.Inv (Rdac.run h).1.store := by
  have : ∀ (s : RState), Storage.Inv s.store → Storage.Inv (Rdac.runFrom s h).1.store := by
    induction h with
    | nil => intro s hs; exact hs
    | cons i t ih =>
      intro s hs
      simp only [Rdac.runFrom]
      exact ih _ (step_store s hs i.address i.data i.snmpFails).1
  exact this Rdac.init inv_init

theorem rdac_storage_local (h : List RInput) (i : RInput) :
    (∀ a', a' ≠ i.address.val →
      (Rdac.step (Rdac.run h).1 i.address i.data i.snmpFails).1.store.recOf a' = (Rdac.run h).1.store.recOf a') ∧
    (∃ r', (Rdac.step (Rdac.run h).1 i.address i.data i.snmpFails).1.store.recOf i.address.val = some r' ∧
      r'.id = (((Rdac.run h).1.store.recOf i.address.val).getD
        (newRec (Rdac.run h).1.store.objs.length i.address.val)).id) ∧
    (Rdac.step (Rdac.run h).1 i.address i.data i.snmpFails).1.store.objs.length =
      (Rdac.run h).1.store.objs.length + (if ((Rdac.run h).1.store.holder i.address.val).isNone then 1 else 0) :=
  (step_store (Rdac.run h).1 (rdac_storage_inv h) i.address i.data i.snmpFails).2

/-- the methods `getattr(self, "step%d")` looks up exist: every step value the table writes is 14 or
again in the table, so from a fresh handler no IP ever reaches a step without a method (step 9 is
skipped: 8 → 10) -/
def validStep (n : Nat) : Bool := n == 0 || n == 14 || (table n).isSome

theorem table_next_valid (cur : Nat) (resp : Bytes) (n : Nat) (h : table cur = some (resp, n)) :
    validStep n = true := by
  unfold table at h
  split at h <;> first
    | (simp only [Option.some.injEq, Prod.mk.injEq] at h; obtain ⟨_, rfl⟩ := h; decide)
    | cases h

theorem rdac_steps_valid (h : List RInput) (ip : List Nat) : validStep (stepAt (Rdac.run h).1 ip) = true := by
  have : ∀ (s : RState), (∀ ip, validStep (stepAt s ip) = true) →
      ∀ ip, validStep (stepAt (Rdac.runFrom s h).1 ip) = true := by
    induction h with
    | nil => intro s hs; exact hs
    | cons i t ih =>
      intro s hs
      simp only [Rdac.runFrom]
      apply ih
      intro ip'
      by_cases hip : i.address.ip = ip'
      · subst hip
        simp only [stepAt]
        rw [step_stepOf_self]
        split
        · decide
        · split
          · decide
          · cases hw : (stepN (Storage.step s.store (.matchIncoming i.address.val true [])).1
                (stepOf s.steps i.address.ip) i.address i.data i.snmpFails).2.1 with
            | none => exact hs i.address.ip
            | some n =>
              rcases stepN_write _ _ _ _ _ _ hw with ⟨_, hn⟩ | ⟨_, _, resp, ht, _⟩
              · subst hn; show validStep 1 = true; decide
              · simpa using table_next_valid _ _ _ ht
      · simp only [stepAt]
        rw [step_stepOf_other _ _ _ _ _ hip]
        exact hs ip'
  exact this Rdac.init (fun ip => by simp [stepAt, stepOf, Rdac.init, dictGet, validStep]) ip

/-- the step methods the model dispatches to are the ones the class defines -/
theorem step_methods_match :
    (List.range 16).filter validStep = Gen.Proto.rdacStepMethods := by decide

/-! ## the hypotheses are satisfiable; concrete runs (kernel-checked) -/

private def P1 : Addr := { ip := [49], port := 50000 }
private def P2 : Addr := { ip := [49], port := 50001 }
private def P3 : Addr := { ip := [50], port := 50000 }

private def cmd (t : Nat) (rid : Nat := 1) : Bytes :=
  [0x50, 0x32, 0x50, 0, rid] ++ List.replicate 15 0 ++ [t, 0, 0, 0]

/-- P2P: an unregistered DMR request is rejected with `00` to the requester; after registration the
same request is accepted and redirected to `(ip, p2p_port)`; the peer behind the same IP with another
port stays unregistered; a registration with `data[4] = 255` raises `ValueError` -/
example :
    (P2p.run Cfg.default [.datagram P1 (cmd 0x11) false, .datagram P1 (cmd 0x10) false, .datagram P1 (cmd 0x11) false,
      .datagram P2 (cmd 0x12) false, .datagram P3 (cmd 0x10 255) false]).2.map
        (fun r => (r.1.map (fun o => (o.kind, o.dest)), r.2)) =
      [([(.reject, P1.val)], .ok),
       ([(.registrationAnswer, .addr [] 0)], .ok),
       ([(.dmrAccept, .addr [49] 50000), (.dmrRedirect, .addr [49] 50000)], .ok),
       ([(.reject, P2.val)], .ok),
       ([], .err .valueError)] := by decide

example : registeredIn [.datagram P1 (cmd 0x10) false] P1 = true ∧
    registeredIn [.datagram P1 (cmd 0x10) true, .datagram P2 (cmd 0x10) false] P1 = false := by decide

/-- RDAC: two peers behind one IP share the step (the second peer's datagram advances the run), a third
IP is not affected -/
example :
    (Rdac.run [⟨P1, [0x55, 0x55], false⟩, ⟨P2, [0x7E, 4, 0, 0xFD], false⟩, ⟨P3, [0x7E, 4, 0, 0x10], false⟩,
               ⟨P1, [0x7E, 4, 0, 0x10], false⟩, ⟨P1, [0], false⟩]).1.steps = [([49], 1), ([50], 1)] ∧
    (Rdac.run [⟨P1, [0x55, 0x55], false⟩, ⟨P2, [0x7E, 4, 0, 0xFD], false⟩, ⟨P3, [0x7E, 4, 0, 0x10], false⟩,
               ⟨P1, [0x7E, 4, 0, 0x10], false⟩]).1.steps = [([49], 3), ([50], 1)] := by decide

/-- near misses (kernel-checked): at step 13 the datagrams `00 00 00 FA`, `7E 05 00 FA`, `7E 04 00` and
`7E 04 00 FB` leave the step at 13 and report nothing; `7E 04 00 FA` completes.  P2P: `P2Q…` with the
registration type registers nobody (the following ping is rejected); an attribute named
`p2p_is_registere` with a true value authorises nobody. -/
private def at13 : List RInput :=
  [⟨P1, [0x55, 0x55], false⟩, ⟨P1, [0x7E, 4, 0, 0xFD], false⟩, ⟨P1, [0x7E, 4, 0, 0x10], false⟩,
   ⟨P1, [0x7E, 4, 0, 0], false⟩, ⟨P1, [0x7E, 4, 0, 0], false⟩, ⟨P1, [0x7E, 4, 0, 0x10], false⟩,
   ⟨P1, [0x7E, 4, 0, 0], false⟩, ⟨P1, [0x7E, 4, 0, 0x10], false⟩, ⟨P1, [0x7E, 4, 0, 0x10], false⟩,
   ⟨P1, [0x7E, 4, 0, 0] ++ List.replicate 23 0, false⟩, ⟨P1, [0x7E, 4, 0, 0x10], false⟩, ⟨P1, [0x7E, 4, 0, 0], false⟩]

example :
    (Rdac.run at13).1.steps = [([49], 13)] ∧
    (Rdac.run (at13 ++ [⟨P1, [0, 0, 0, 0xFA], false⟩, ⟨P2, [0x7E, 5, 0, 0xFA, 1, 2], false⟩, ⟨P1, [0x7E, 4, 0], false⟩,
        ⟨P1, [0x7E, 4, 0, 0xFB], false⟩])).1.steps = [([49], 13)] ∧
    ((Rdac.run (at13 ++ [⟨P1, [0, 0, 0, 0xFA], false⟩, ⟨P1, [0x7E, 4, 0, 0xFA], false⟩])).2.drop 12).map
        (fun r => (r.1.length, r.2)) = [(0, .ok), (1, .ok)] ∧
    (Rdac.run (at13 ++ [⟨P1, [0x7E, 4, 0, 0xFA], false⟩])).1.steps = [([49], 14)] := by decide

example :
    ((P2p.run Cfg.default [.datagram P1 ([0x50, 0x32, 0x51] ++ (cmd 0x10).drop 3) false,
        .datagram P1 ([0, 0, 0, 0, 0x0A, 0, 0, 0, 0x14] ++ List.replicate 7 0) false]).2.map
        (fun r => (r.1.map (fun o => (o.kind, o.dest)), r.2)) =
      [([], .ok), ([(.reject, P1.val)], .ok)]) ∧
    ((P2p.run Cfg.default [.envPatch P1 (.dyn "p2p_is_registere") (.int 1),
        .datagram P1 ([0, 0, 0, 0, 0x0A, 0, 0, 0, 0x14] ++ List.replicate 7 0) false]).2.map
        (fun r => (r.1.map (fun o => (o.kind, o.dest)), r.2)) =
      [([], .ok), ([(.reject, P1.val)], .ok)]) ∧
    [Input.envPatch P1 (.dyn "p2p_is_registere") (.int 1), .setOut P1 (.addr [49] 4000)].all envOk = true ∧
    envOk (.envPatch P1 (.dyn Gen.Proto.p2pIsRegisteredKey) (.int 1)) = false := by decide

/-! ### peers are whole address tuples (AF_INET6: `(host, port, flowinfo, scope_id)`) -/

private def Q1 : Addr := { ip := [102], port := 50000, ext := [0, 0] }
private def Q2 : Addr := { ip := [102], port := 50000, ext := [0, 3] }   -- the same host and port, another scope id
private def Q0 : Addr := { ip := [102], port := 50000 }                  -- … and the 2-tuple
private def ping : Bytes := [0, 0, 0, 0, 0x0A, 0, 0, 0, 0x14] ++ List.replicate 7 0

/-- `Q1` registers; pings / start-up requests of `Q2` and `Q0` (equal host and port) are rejected, the ping of `Q1`
is answered to the 4-tuple; a DMR start-up of `Q1` is accepted towards `(ip, p2p_port)` and then raises `TypeError`
(the log line), without the redirect; three records -/
example :
    (P2p.run Cfg.default [.datagram Q1 (cmd 0x10) false, .datagram Q2 ping false, .datagram Q0 (cmd 0x12) false,
      .datagram Q1 ping false, .datagram Q1 (cmd 0x11) false, .datagram Q2 (cmd 0x10) true, .datagram Q2 ping false]).2.map
        (fun r => (r.1.map (fun o => (o.kind, o.dest)), r.2)) =
      [([(.registrationAnswer, .addr [] 0)], .ok),
       ([(.reject, .tupN [102] [50000, 0, 3])], .ok),
       ([(.reject, .addr [102] 50000)], .ok),
       ([(.pingAnswer, .tupN [102] [50000, 0, 0])], .ok),
       ([(.dmrAccept, .addr [102] 50000)], .err .typeError),
       ([(.registrationAnswer, .addr [] 0)], .err .snmpError),
       ([(.reject, Q2.val)], .ok)] ∧
    registeredIn [.datagram Q1 (cmd 0x10) false] Q2 = false ∧ registeredIn [.datagram Q1 (cmd 0x10) false] Q1 = true ∧
    (P2p.run Cfg.default [.datagram Q1 (cmd 0x10) false, .datagram Q2 ping false, .datagram Q0 ping false]).1.len = 1 := by
  decide

/-- RDAC with AF_INET6 peers: the step is per host (as for `(ip, port)` peers), the storage records per whole tuple -/
example :
    (Rdac.run [⟨Q1, [0x55, 0x55], false⟩, ⟨Q2, [0x7E, 4, 0, 0xFD], false⟩, ⟨Q0, [0x7E, 4, 0, 0x10], false⟩]).1.steps = [([102], 3)] ∧
    (Rdac.run [⟨Q1, [0x55, 0x55], false⟩, ⟨Q2, [0x7E, 4, 0, 0xFD], false⟩, ⟨Q0, [0x7E, 4, 0, 0x10], false⟩]).1.store.len = 3 := by
  decide

/-! ### library sentinels and default member values as source addresses (round 4)

A record nobody configured holds the unset sentinel `ADDRESS_EMPTY = ("", 0)` in `address_out` and `address_nat`
(`Gen.Storage.createdMembers`, read from `/repo` every run).  Whether a request is served depends on the record whose
`address_in` IS the source address and on nothing else: a source address that merely equals what some record holds in
another member (the sentinel, or an address the application stored there) is a stranger. -/

/-- **p2p_only_own_record.** The answer to a start-up request or ping from `a` (outputs, destinations, outcome) depends on
the storage only through the registered record with `address_in = a`: two storages that agree on it answer alike, whatever
their other records - and the other members of any record - hold. -/
theorem p2p_only_own_record (cfg : Cfg) (s s' : Store) (a : Addr) (data : Bytes) (f : Bool)
    (hd : dispatch data ≠ .registration) (h : registeredRec s a = registeredRec s' a) :
    (P2p.step cfg s (.datagram a data f)).2 = (P2p.step cfg s' (.datagram a data f)).2 := by
  simp only [P2p.step]
  cases hdd : dispatch data with
  | registration => exact absurd hdd hd
  | nothing => rfl
  | rdacRequest =>
    simp only [handleRdacRequest, h]
    repeat' split
    all_goals rfl
  | dmrRequest =>
    simp only [handleDmrRequest, h]
    repeat' split
    all_goals rfl
  | ping =>
    simp only [handlePing, h]
    repeat' split
    all_goals rfl

/-- the sentinel as a peer address -/
private def E0 : Addr := { ip := [], port := 0 }

/-- **p2p_sentinel_source.** Along every history in which no registration from the sentinel address itself completed,
every start-up request and ping whose source address is `ADDRESS_EMPTY` gets the single-octet reject - however many
registered records hold that value in `address_out` / `address_nat`. -/
theorem p2p_sentinel_source (cfg : Cfg) (h : List Input) (henv : h.all envOk = true) (data : Bytes) (f : Bool)
    (hreq : dispatch data = .rdacRequest ∨ dispatch data = .dmrRequest ∨ dispatch data = .ping)
    (hun : registeredIn h E0 = false) :
    E0.val = Gen.Storage.addressEmpty ∧
    P2p.step cfg (P2p.run cfg h).1 (.datagram E0 data f) =
      ((P2p.run cfg h).1, [{ kind := .reject, data := [0x00], dest := Gen.Storage.addressEmpty }], .ok) :=
  ⟨by decide, p2p_reject_unregistered cfg h henv E0 data f hreq hun⟩

/-- kernel-checked: the members of a created record that hold the sentinel; `P1` (the FIRST record of the storage)
registers, the ping / DMR / RDAC start-up of the source `("", 0)` are rejected; the application stores `P3`'s address as
`address_nat` and `P2`'s as `address_out` of the registered record: `P3` and `P2` stay strangers, `P1` is still served;
the sentinel address can register like anybody else and is served from then on -/
example :
    (Gen.Storage.createdMembers.filter (fun m => m.2 == Gen.Storage.addressEmpty)).map (·.1) = ["address_out", "address_nat"] ∧
    (P2p.run Cfg.default [.datagram P1 (cmd 0x10) false, .datagram E0 ping false, .datagram E0 (cmd 0x11) false,
      .datagram E0 (cmd 0x12) false, .envPatch P1 (.field .addressNat) P3.val, .setOut P1 P2.val, .datagram P3 ping false,
      .datagram P2 (cmd 0x12) false, .datagram P1 ping false, .datagram E0 (cmd 0x10) false, .datagram E0 ping false]).2.map
        (fun r => (r.1.map (fun o => (o.kind, o.dest)), r.2)) =
      [([(.registrationAnswer, .addr [] 0)], .ok),
       ([(.reject, .addr [] 0)], .ok), ([(.reject, .addr [] 0)], .ok), ([(.reject, .addr [] 0)], .ok),
       ([], .ok), ([], .ok),
       ([(.reject, P3.val)], .ok), ([(.reject, P2.val)], .ok),
       ([(.pingAnswer, P1.val)], .ok),
       ([(.registrationAnswer, .addr [] 0)], .ok),
       ([(.pingAnswer, .addr [] 0)], .ok)] ∧
    [Input.envPatch P1 (.field .addressNat) P3.val, .setOut P1 P2.val].all envOk = true := by
  decide

end Dmr.C18
